/-
C15 — five-stage pipeline: a fault carries the address and instruction of the input latch of the
stage that raised, and every non-empty latch holds the instruction stored at its address.
-/
import ArchSim.Lemmas.C15Run
import ArchSim.Model.Asm

namespace ArchSim.Lemmas.C15
open ArchSim ArchSim.Rv ArchSim.Pipe

/-! ### which stage raised -/

theorem exStage_fault {s : St} {inp l2 l3 : Option Latch} {f : PFault}
    (h : (exStage s inp l2 l3).fault = some f) :
    ∃ d, inp = some d ∧ f.addr = d.addr ∧ f.instr = d.instr := by
  unfold exStage at h
  split at h
  · cases h
  · rename_i d
    refine ⟨d, rfl, ?_⟩
    repeat' split at h
    all_goals first
      | (cases h; done)
      | (cases h; exact ⟨rfl, rfl⟩)

theorem memStage_fault {s : St} {inp : Option Latch} {f : PFault}
    (h : (memStage s inp).fault = some f) :
    ∃ e, inp = some e ∧ f.addr = e.addr ∧ f.instr = e.instr := by
  unfold memStage at h
  split at h
  · cases h
  · rename_i e
    refine ⟨e, rfl, ?_⟩
    repeat' split at h
    all_goals first
      | (cases h; done)
      | (cases h; exact ⟨rfl, rfl⟩)

/-- The architectural state the EX stage sees in `Pipe.step`. -/
def exState (p : PSt) : St :=
  let s0 := { p.st with cycles := p.st.cycles + 1 }
  let s1 := match p.stalled with
    | none => (ifStage s0).1
    | some _ => s0
  (wbStage s1 p.l3).1

theorem step_fault_cases {p : PSt} {f : PFault} (h : (Pipe.step p).fault = some f) :
    (exStage (exState p) (exInput p) p.l2 p.l3).fault = some f ∨
    ((exStage (exState p) (exInput p) p.l2 p.l3).fault = none ∧
     (memStage (exStage (exState p) (exInput p) p.l2 p.l3).st (memInput p)).fault = some f) := by
  unfold Pipe.step at h
  simp only at h
  cases hs : p.stalled with
  | none =>
    simp only [hs] at h
    have he : exState p = (wbStage (ifStage { p.st with cycles := p.st.cycles + 1 }).1 p.l3).1 := by
      simp [exState, hs]
    rw [he]
    split at h
    · rename_i f' hf'
      cases h
      exact .inl hf'
    · rename_i hnone
      split at h
      · rename_i f' hf'
        cases h
        exact .inr ⟨hnone, hf'⟩
      · cases h
  | some st =>
    simp only [hs] at h
    have he : exState p = (wbStage { p.st with cycles := p.st.cycles + 1 } p.l3).1 := by
      simp [exState, hs]
    rw [he]
    split at h
    · rename_i f' hf'
      cases h
      exact .inl hf'
    · rename_i hnone
      split at h
      · rename_i f' hf'
        cases h
        exact .inr ⟨hnone, hf'⟩
      · cases h

/-! ### every latch holds the instruction stored at its address -/

/-- A non-empty latch holds the instruction that the instruction memory stores at its address. -/
def LatchOK (im : IMem) (l : Option Latch) : Prop :=
  ∀ x, l = some x → im.instrAt x.addr = some x.instr

theorem instrAt_congr {im im' : IMem} (h : im'.prog = im.prog) (a : Int) : im'.instrAt a = im.instrAt a := by
  unfold IMem.instrAt; rw [h]

theorem LatchOK.congr {im im' : IMem} {l : Option Latch} (h : im'.prog = im.prog) (hl : LatchOK im l) :
    LatchOK im' l := fun x hx => by rw [instrAt_congr h]; exact hl x hx

theorem latchOK_none (im : IMem) : LatchOK im none := fun _ h => by cases h

theorem LatchOK.setFlag {im : IMem} {l : Option Latch} (h : LatchOK im l) : LatchOK im (setFlag l) := by
  intro x hx
  cases l with
  | none => cases hx
  | some y => cases hx; exact h y rfl

/-- The loader's guarantee about the instruction memory: at most 4096 instructions, and a cache (if
    any) that satisfies the C11 invariant. -/
def ImemOK (im : IMem) : Prop :=
  im.prog.length ≤ 4096 ∧ ∀ c, im.cache = some c → ArchSim.Lemmas.C11.IInv im c

theorem ImemOK.fetch {im : IMem} (h : ImemOK im) (pc : Int) :
    (im.fetch pc).imem.prog = im.prog ∧ ImemOK (im.fetch pc).imem ∧
    ∀ i, im.instrAt pc = some i → (im.fetch pc).res = .ok (some i) := by
  cases hc : im.cache with
  | none =>
    have himem : (im.fetch pc).imem = im := by
      unfold IMem.fetch; simp only [hc]; repeat' split
      all_goals rfl
    refine ⟨by rw [himem], by rw [himem]; exact h, ?_⟩
    intro i hi
    obtain ⟨h0, h4, hlt⟩ := instrAt_bounds hi
    have : pc < 16384 := by have := h.1; omega
    simp [IMem.fetch, hc, hi, h0, this]
  | some c =>
    have hinv := h.2 c hc
    have hs := ArchSim.Lemmas.C11.fetch_spec hc hinv pc
    obtain ⟨c', h1, h2, _⟩ := hs.imem
    refine ⟨by rw [h1], ?_, ?_⟩
    · rw [h1]
      refine ⟨h.1, ?_⟩
      intro c'' hc''
      cases hc''
      exact h2.congr rfl
    · intro i hi
      obtain ⟨h0, h4, hlt⟩ := instrAt_bounds hi
      have hr := hs.res
      have : pc < 4294967296 := by have := h.1; omega
      rw [ArchSim.Lemmas.C11.aligned_wrap h0 this h4, hi] at hr
      exact hr

theorem ifStage_ok {s : St} (h : ImemOK s.imem) :
    (ifStage s).1.imem.prog = s.imem.prog ∧ ImemOK (ifStage s).1.imem ∧ LatchOK s.imem (ifStage s).2 := by
  unfold ifStage
  cases hi : s.imem.instrAt s.pc with
  | none => exact ⟨rfl, h, latchOK_none _⟩
  | some i =>
    obtain ⟨h1, h2, h3⟩ := h.fetch s.pc
    simp only [h3 i hi]
    refine ⟨h1, h2, ?_⟩
    intro x hx
    cases hx
    exact hi

theorem idStage_ok {im : IMem} {hz : Bool} {regs : Nat → Nat} {inp l1 l2 : Option Latch} (h : LatchOK im inp) :
    LatchOK im (idStage hz regs inp l1 l2) := by
  intro x hx
  unfold idStage at hx
  split at hx
  · cases hx
  · rename_i f; cases hx; exact h f rfl

theorem exStage_ok {im : IMem} {s : St} {inp l2 l3 : Option Latch} (h : LatchOK im inp) :
    LatchOK im (exStage s inp l2 l3).latch ∧ (exStage s inp l2 l3).st.imem = s.imem := by
  unfold exStage
  split
  · exact ⟨latchOK_none _, rfl⟩
  · rename_i d
    have hd := h d rfl
    repeat' split
    all_goals first
      | exact ⟨latchOK_none _, rfl⟩
      | exact ⟨fun x hx => by cases hx; exact hd, rfl⟩

theorem memStage_ok {im : IMem} {s : St} {inp : Option Latch} (h : LatchOK im inp) :
    LatchOK im (memStage s inp).latch ∧ (memStage s inp).st.imem = s.imem := by
  unfold memStage
  split
  · exact ⟨latchOK_none _, rfl⟩
  · rename_i d
    have hd := h d rfl
    split
    · exact ⟨latchOK_none _, rfl⟩
    · split
      · exact ⟨latchOK_none _, rfl⟩
      · refine ⟨fun x hx => by cases hx; exact hd, ?_⟩
        simp only
        repeat' split
        all_goals rfl

theorem wbStage_ok {im : IMem} {s : St} {inp : Option Latch} (h : LatchOK im inp) :
    LatchOK im (wbStage s inp).2 ∧ (wbStage s inp).1.imem = s.imem := by
  unfold wbStage
  split
  · exact ⟨latchOK_none _, rfl⟩
  · rename_i d
    have hd := h d rfl
    refine ⟨fun x hx => by cases hx; exact hd, ?_⟩
    simp only
    split <;> rfl

/-- The pipeline invariant: instruction memory as the loader leaves it, and every latch — the five
    pipeline registers and the two registers preserved during a stall — holds the instruction stored
    at its address. -/
structure PipeOK (p : PSt) : Prop where
  imem : ImemOK p.st.imem
  l0 : LatchOK p.st.imem p.l0
  l1 : LatchOK p.st.imem p.l1
  l2 : LatchOK p.st.imem p.l2
  l3 : LatchOK p.st.imem p.l3
  l4 : LatchOK p.st.imem p.l4
  p0 : ∀ st, p.stalled = some st → LatchOK p.st.imem st.p0
  p1 : ∀ st, p.stalled = some st → LatchOK p.st.imem st.p1

/-- both preserved registers of a stall record are fine -/
def StallOK (im : IMem) (o : Option Stall) : Prop :=
  ∀ st, o = some st → LatchOK im st.p0 ∧ LatchOK im st.p1

theorem stallOK_none (im : IMem) : StallOK im none := fun _ h => by cases h

theorem StallOK.pickup {im : IMem} {p : PSt} (hl0 : LatchOK im p.l0) (hl1 : LatchOK im p.l1)
    (hs : StallOK im p.stalled) (picked : Option Nat) :
    StallOK im (match picked with
      | none => p.stalled
      | some k =>
        match p.stalled with
        | none => some { k := k, rem := 3, p0 := setFlag p.l0, p1 := if k = 2 then setFlag p.l1 else none }
        | some old => some { old with k := k, rem := 3 }) := by
  intro st hst
  split at hst
  · exact hs st hst
  · split at hst
    · cases hst
      refine ⟨hl0.setFlag, ?_⟩
      simp only
      split
      · exact hl1.setFlag
      · exact latchOK_none _
    · rename_i old hold
      cases hst
      exact hs old hold

theorem StallOK.countdown {im : IMem} {o : Option Stall} : StallOK im o →
    StallOK im (match o with
      | none => none
      | some st => if st.rem - 1 = 0 then none else some { st with rem := st.rem - 1 }) := by
  intro hs st hst
  split at hst
  · cases hst
  · rename_i st' 
    split at hst
    · cases hst
    · cases hst; exact hs st' rfl

theorem StallOK.filter {im : IMem} {o : Option Stall} : StallOK im o →
    StallOK im (match o with
      | none => none
      | some st => if st.k < 2 then none else some st) := by
  intro hs st hst
  split at hst
  · cases hst
  · rename_i st'
    split at hst
    · cases hst
    · cases hst; exact hs _ rfl

theorem finishStep_ok {p : PSt} {s : St} {n0 n1 n2 n3 n4 : Option Latch} (him : ImemOK s.imem)
    (h0 : LatchOK s.imem n0) (h1 : LatchOK s.imem n1) (h2 : LatchOK s.imem n2)
    (h3 : LatchOK s.imem n3) (h4 : LatchOK s.imem n4)
    (hl0 : LatchOK s.imem p.l0) (hl1 : LatchOK s.imem p.l1)
    (hs : StallOK s.imem p.stalled) :
    PipeOK (finishStep p s n0 n1 n2 n3 n4) := by
  have hs2 := (StallOK.pickup hl0 hl1 hs (pickStall p.stalled n1 n2)).countdown
  have hs3 := hs2.filter
  have hn := latchOK_none s.imem
  unfold finishStep
  by_cases hp : (pickStall p.stalled n1 n2).isSome = true
  all_goals
    simp only [hp, if_true, if_false, Bool.false_eq_true]
    split
    · exact ⟨him, hn, hn, hn, hn, h4, fun _ h => (by cases h), fun _ h => (by cases h)⟩
    · split
      · exact ⟨him, hn, hn, hn, h3, h4, fun _ h => (by cases h), fun _ h => (by cases h)⟩
      · split
        · exact ⟨him, hn, hn, h2, h3, h4, fun st h => (hs3 st h).1, fun st h => (hs3 st h).2⟩
        · exact ⟨him, h0, h1, h2, h3, h4, fun st h => (hs2 st h).1, fun st h => (hs2 st h).2⟩

/-- Output of the IF stage in `Pipe.step` (not recomputed while stalled). -/
def ifOut (p : PSt) : St × Option Latch :=
  match p.stalled with
  | none => ifStage { p.st with cycles := p.st.cycles + 1 }
  | some _ => ({ p.st with cycles := p.st.cycles + 1 }, p.l0)

theorem exState_eq (p : PSt) : exState p = (wbStage (ifOut p).1 p.l3).1 := by
  unfold exState ifOut
  cases p.stalled <;> rfl

theorem step_eq (p : PSt) :
    Pipe.step p =
      match (exStage (exState p) (exInput p) p.l2 p.l3).fault with
      | some f =>
        { p := { p with st := (exStage (exState p) (exInput p) p.l2 p.l3).st, l1 := exFaultL1 p }, fault := some f }
      | none =>
        match (memStage (exStage (exState p) (exInput p) p.l2 p.l3).st (memInput p)).fault with
        | some f =>
          { p := { p with st := (memStage (exStage (exState p) (exInput p) p.l2 p.l3).st (memInput p)).st },
            fault := some f }
        | none =>
          { p := finishStep p (memStage (exStage (exState p) (exInput p) p.l2 p.l3).st (memInput p)).st
                   (ifOut p).2 (idStage p.hazard (exState p).regs (idInput p) p.l1 p.l2)
                   (exStage (exState p) (exInput p) p.l2 p.l3).latch
                   (memStage (exStage (exState p) (exInput p) p.l2 p.l3).st (memInput p)).latch
                   (wbStage (ifOut p).1 p.l3).2,
            fault := none } := by
  rw [exState_eq]
  unfold Pipe.step ifOut
  cases p.stalled <;> rfl

theorem PipeOK.of {p' : PSt} {im : IMem} (heq : p'.st.imem = im) (him : ImemOK im)
    (l0 : LatchOK im p'.l0) (l1 : LatchOK im p'.l1) (l2 : LatchOK im p'.l2) (l3 : LatchOK im p'.l3)
    (l4 : LatchOK im p'.l4) (hs : StallOK im p'.stalled) : PipeOK p' := by
  subst heq
  exact ⟨him, l0, l1, l2, l3, l4, fun st h => (hs st h).1, fun st h => (hs st h).2⟩

theorem finishStep_ok' {p : PSt} {s : St} {im : IMem} {n0 n1 n2 n3 n4 : Option Latch} (heq : s.imem = im)
    (him : ImemOK im)
    (h0 : LatchOK im n0) (h1 : LatchOK im n1) (h2 : LatchOK im n2)
    (h3 : LatchOK im n3) (h4 : LatchOK im n4)
    (hl0 : LatchOK im p.l0) (hl1 : LatchOK im p.l1)
    (hs : StallOK im p.stalled) :
    PipeOK (finishStep p s n0 n1 n2 n3 n4) := by
  subst heq
  exact finishStep_ok him h0 h1 h2 h3 h4 hl0 hl1 hs

theorem ifOut_ok {p : PSt} (h : PipeOK p) :
    (ifOut p).1.imem.prog = p.st.imem.prog ∧ ImemOK (ifOut p).1.imem ∧ LatchOK p.st.imem (ifOut p).2 := by
  unfold ifOut
  cases p.stalled with
  | none => exact ifStage_ok (s := { p.st with cycles := p.st.cycles + 1 }) h.imem
  | some st => exact ⟨rfl, h.imem, h.l0⟩

theorem idInput_ok {p : PSt} (h : PipeOK p) : LatchOK p.st.imem (idInput p) := by
  unfold idInput
  cases hs : p.stalled with
  | none => exact h.l0
  | some st => exact h.p0 st hs

theorem exInput_ok {p : PSt} (h : PipeOK p) : LatchOK p.st.imem (exInput p) := by
  unfold exInput
  cases hs : p.stalled with
  | none => exact h.l1
  | some st =>
    simp only
    split
    · exact latchOK_none _
    · exact h.p1 st hs

theorem memInput_ok {p : PSt} (h : PipeOK p) : LatchOK p.st.imem (memInput p) := by
  unfold memInput
  cases hs : p.stalled with
  | none => exact h.l2
  | some st =>
    simp only
    split
    · exact latchOK_none _
    · exact h.l2

theorem exFaultL1_ok {p : PSt} (h : PipeOK p) : LatchOK p.st.imem (exFaultL1 p) := by
  unfold exFaultL1
  cases hs : p.stalled with
  | none => exact h.l1
  | some st =>
    simp only
    split
    · exact h.p1 st hs
    · exact h.l1

/-- `Pipe.step` keeps the invariant — also when it raises. -/
theorem step_ok {p : PSt} (h : PipeOK p) : PipeOK (Pipe.step p).p := by
  obtain ⟨hprog, him1, hn0⟩ := ifOut_ok h
  -- the instruction memory after the step is the one the IF stage left
  have c : ∀ {l}, LatchOK p.st.imem l → LatchOK (ifOut p).1.imem l := fun hl => hl.congr hprog
  have hstall : StallOK (ifOut p).1.imem p.stalled := fun st hs => ⟨c (h.p0 st hs), c (h.p1 st hs)⟩
  obtain ⟨hn4, hwb⟩ := wbStage_ok (s := (ifOut p).1) (c h.l3)
  have hexs : (exState p).imem = (ifOut p).1.imem := by rw [exState_eq]; exact hwb
  obtain ⟨hex, hexim⟩ := exStage_ok (s := exState p) (l2 := p.l2) (l3 := p.l3) (c (exInput_ok h))
  obtain ⟨hme, hmeim⟩ := memStage_ok (s := (exStage (exState p) (exInput p) p.l2 p.l3).st) (c (memInput_ok h))
  rw [step_eq]
  split
  · exact PipeOK.of (im := (ifOut p).1.imem) (hexim.trans hexs) him1 (c h.l0) (c (exFaultL1_ok h)) (c h.l2)
      (c h.l3) (c h.l4) hstall
  · split
    · exact PipeOK.of (im := (ifOut p).1.imem) (hmeim.trans (hexim.trans hexs)) him1 (c h.l0) (c h.l1) (c h.l2)
        (c h.l3) (c h.l4) hstall
    · exact finishStep_ok' (im := (ifOut p).1.imem) (hmeim.trans (hexim.trans hexs)) him1 (c hn0)
        (idStage_ok (c (idInput_ok h))) hex hme hn4 (c h.l0) (c h.l1) hstall

/-- The reported instruction is the one stored at the reported address. -/
theorem step_fault_instrAt {p : PSt} (h : PipeOK p) {f : PFault} (hf : (Pipe.step p).fault = some f) :
    p.st.imem.instrAt f.addr = some f.instr := by
  rcases step_fault_cases hf with h1 | ⟨_, h2⟩
  · obtain ⟨d, hd, ha, hi⟩ := exStage_fault h1
    rw [ha, hi]; exact exInput_ok h d hd
  · obtain ⟨d, hd, ha, hi⟩ := memStage_fault h2
    rw [ha, hi]; exact memInput_ok h d hd

theorem init_ok {st : St} (h : ImemOK st.imem) (hz : Bool) : PipeOK (PSt.init st hz) :=
  ⟨h, latchOK_none _, latchOK_none _, latchOK_none _, latchOK_none _, latchOK_none _,
   fun _ h => (by cases h), fun _ h => (by cases h)⟩

/-- `n` pipeline steps (faults ignored: the state after a raising step is the one Python leaves). -/
def pipeRun : Nat → PSt → PSt
  | 0, p => p
  | n + 1, p => pipeRun n (Pipe.step p).p

theorem pipeRun_ok {p : PSt} (h : PipeOK p) (n : Nat) : PipeOK (pipeRun n p) := by
  induction n generalizing p with
  | zero => exact h
  | succ n ih => exact ih (step_ok h)

/-- The loader leaves an instruction memory that satisfies `ImemOK`. -/
theorem load_imemOK (s : St) (text : String)
    (hc : ∀ c, s.imem.cache = some c → ArchSim.Lemmas.C09.AssocOK c.isLru c.geo.assoc) :
    ImemOK (Asm.load s text).st.imem := by
  have key : ∀ prog : List Instr, prog.length ≤ 4096 →
      ImemOK { prog := prog, cache := s.imem.cache.map ICache.reset } := by
    intro prog hl
    refine ⟨hl, ?_⟩
    intro c' hc'
    cases hcs : s.imem.cache with
    | none => rw [hcs] at hc'; cases hc'
    | some c =>
      rw [hcs] at hc'
      cases hc'
      exact ArchSim.Lemmas.C11.IInv_init _ _ _ _ (hc c hcs)
  unfold Asm.load
  simp only
  repeat' split
  all_goals first
    | exact key [] (by simp)
    | (apply key; simp)
    | (apply key; omega)

/-- `Sim.step` in five-stage mode raises exactly when the simulation is not done and `Pipe.step`
    faults; it reports the fault's address, instruction and fault. -/
theorem simStep_five_fault {s : Sim.RSim} (h5 : s.five = true) {a : Int} {oi : Option Instr} {f : Fault} :
    (Sim.step s).fault = some (a, oi, f) ↔
      (Sim.isDone s = false ∧ ∃ pf, (Pipe.step s.p).fault = some pf ∧ a = pf.addr ∧ oi = some pf.instr ∧
        f = pf.fault) := by
  unfold Sim.step
  cases hd : Sim.isDone s with
  | true => simp
  | false =>
    simp only [h5, Bool.false_eq_true, if_false, if_true]
    cases hf : (Pipe.step s.p).fault with
    | none => simp
    | some pf =>
      simp only [Option.some.injEq, Prod.mk.injEq, true_and]
      constructor
      · rintro ⟨rfl, rfl, rfl⟩; exact ⟨pf, rfl, rfl, rfl, rfl⟩
      · rintro ⟨pf', rfl, rfl, rfl, rfl⟩; exact ⟨rfl, rfl, rfl⟩

/-- The kinds of fault the pipeline stages raise: a memory-system error, or an invalid ecall code
    (EX stage, instruction `ecall`). -/
theorem exStage_fault_kind {s : St} {inp l2 l3 : Option Latch} {f : PFault}
    (h : (exStage s inp l2 l3).fault = some f) :
    (∃ e, f.fault = .mem e) ∨ (∃ c, f.fault = .ecallCode c ∧ f.instr.op = .ecall ∧ c = s.regs 17 ∧ c ∉ ecallCodes) := by
  unfold exStage at h
  split at h
  · cases h
  · rename_i d
    split at h
    · cases h; exact .inl ⟨_, rfl⟩
    · split at h
      · rename_i hop
        split at h
        · cases h
        · split at h
          · cases h
          · cases h
          · cases h; exact .inl ⟨_, rfl⟩
          · rename_i hp
            cases h
            exact .inr ⟨_, rfl, hop, processEcall_invalid hp⟩
      · cases h

theorem memStage_fault_kind {s : St} {inp : Option Latch} {f : PFault}
    (h : (memStage s inp).fault = some f) : ∃ e, f.fault = .mem e := by
  unfold memStage at h
  repeat' split at h
  all_goals first
    | (cases h; done)
    | (cases h; exact ⟨_, rfl⟩)

end ArchSim.Lemmas.C15
