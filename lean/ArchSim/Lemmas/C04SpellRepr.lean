/-
C04 (spelling independence), part 22: the default spelling is the printed form `Instr.repr`; canonical
instructions are spellable; the item of every spelling builds the instruction.
-/
import ArchSim.Lemmas.C04SpellMain

set_option linter.unusedSimpArgs false

namespace ArchSim.Lemmas.C04Spell
open ArchSim ArchSim.PP ArchSim.Rv ArchSim.Asm ArchSim.Lemmas.C14

theorem toLower_low : ∀ c ∈ lowList, c.toLower = c := by decide

theorem recase_false (l : List Char) : recase (fun _ => false) l = l.map Char.toLower := by
  induction l with
  | nil => rfl
  | cons c cs ih =>
    simp only [recase, Bool.false_eq_true, if_false, List.map_cons, List.cons.injEq, true_and]
    exact ih

theorem recase_false_low (w : List Char) (hw : ∀ c ∈ w, isLow c = true) : recase (fun _ => false) w = w := by
  rw [recase_false]
  exact map_id_of_fixed _ _ (fun c hc => toLower_low c (isLow_mem c (hw c hc)))

theorem numSp_hex_default (v : Int) (hv : 0 ≤ v) : numSp (.hex 0 (fun _ => false)) v = hexTxt v.toNat := by
  have h1 : decide (v < 0) = false := by simpa using hv
  have h2 : v.natAbs = v.toNat := by omega
  simp only [numSp, h1, signTxt, Bool.false_eq_true, if_false, List.nil_append, List.replicate_zero,
    recase_false, hexTxt, hexDigitsLower, hexDigitsU, h2]

theorem blanks_nil : blanks [] = [] := rfl
theorem blanks_one : blanks [false] = [' '] := rfl
theorem gapOf_default : gapOf {} = [' '] := rfl

/-- The default spelling is the printed form. -/
theorem render_default (i : Instr) (hf : i.op ≠ .fence)
    (hcsr : i.op.ty = .csr ∨ i.op.ty = .csri → 0 ≤ i.aux) : render {} i = i.repr.toList := by
  have hct := cls_ty i.op
  have hm : recase (fun _ => false) (mn i.op) = mn i.op := recase_false_low _ (mn_low i.op).1
  have hr : render {} i = mn i.op ++ operands {} i [] := by
    simp only [render, blanks_nil, List.nil_append, hm]
  rw [hr]
  cases hcl : cls i.op with
  | r =>
    rw [repr_R i (hct.1.mp hcl)]
    simp only [operands, hcl, gapOf_default, blanks_nil, blanks_one, tReg, tSep, regSp, List.nil_append,
      List.cons_append, List.append_assoc, List.append_nil]
  | imm3 =>
    rcases hct.2.1.mp hcl with ⟨hty, hj, he, hb⟩ | hty
    · rw [repr_I i hty he hb]
      simp only [operands, hcl, gapOf_default, blanks_nil, blanks_one, tReg, tSep, tNum, regSp, numSp,
        List.nil_append, List.cons_append, List.append_assoc, List.append_nil]
    · rw [repr_shift i hty]
      simp only [operands, hcl, gapOf_default, blanks_nil, blanks_one, tReg, tSep, tNum, regSp, numSp,
        List.nil_append, List.cons_append, List.append_assoc, List.append_nil]
  | jalr =>
    have hop := cls_jalr_eq _ hcl
    rw [repr_I i (by rw [hop]; rfl) (by rw [hop]; decide) (by rw [hop]; decide)]
    simp only [operands, hcl, gapOf_default, blanks_nil, blanks_one, tReg, tSep, tNum, regSp, numSp,
      List.nil_append, List.cons_append, List.append_assoc, List.append_nil]
  | load =>
    rw [repr_load i (hct.2.2.2.1.mp hcl)]
    simp only [operands, hcl, gapOf_default, blanks_nil, blanks_one, tReg, tSep, tNum, regSp, numSp,
      List.nil_append, List.cons_append, List.append_assoc, List.append_nil]
  | store =>
    rw [repr_store i (hct.2.2.2.2.1.mp hcl)]
    simp only [operands, hcl, gapOf_default, blanks_nil, blanks_one, tReg, tSep, tNum, regSp, numSp,
      List.nil_append, List.cons_append, List.append_assoc, List.append_nil]
  | b =>
    rw [repr_B i (hct.2.2.2.2.2.1.mp hcl)]
    simp only [operands, hcl, gapOf_default, blanks_nil, blanks_one, tReg, tSep, tNum, regSp, numSp,
      List.nil_append, List.cons_append, List.append_assoc, List.append_nil]
  | u =>
    rw [repr_U i (hct.2.2.2.2.2.2.1.mp hcl)]
    simp only [operands, hcl, gapOf_default, blanks_nil, blanks_one, tReg, tSep, tNum, regSp, numSp,
      List.nil_append, List.cons_append, List.append_assoc, List.append_nil]
  | jal =>
    rw [repr_J i (hct.2.2.2.2.2.2.2.1.mp hcl)]
    simp only [operands, hcl, gapOf_default, blanks_nil, blanks_one, tReg, tSep, tNum, regSp, numSp,
      List.nil_append, List.cons_append, List.append_assoc, List.append_nil]
  | ecall =>
    rw [repr_env i (Or.inl (hct.2.2.2.2.2.2.2.2.1.mp hcl))]
    simp only [operands, hcl, List.append_nil]
  | ebreak =>
    rw [repr_env i (Or.inr (hct.2.2.2.2.2.2.2.2.2.1.mp hcl))]
    simp only [operands, hcl, List.append_nil]
  | csr =>
    have hty := hct.2.2.2.2.2.2.2.2.2.2.1.mp hcl
    rw [repr_CSR i hty]
    simp only [operands, hcl, gapOf_default, blanks_nil, blanks_one, tReg, tSep, tNum, regSp,
      numSp_hex_default i.aux (hcsr (Or.inl hty)),
      List.nil_append, List.cons_append, List.append_assoc, List.append_nil]
  | csri =>
    have hty := hct.2.2.2.2.2.2.2.2.2.2.2.1.mp hcl
    rw [repr_CSRI i hty]
    have e2 : numSp .dec i.imm = decTxt i.imm := rfl
    simp only [operands, hcl, gapOf_default, blanks_nil, blanks_one, tReg, tSep, tNum, regSp,
      numSp_hex_default i.aux (hcsr (Or.inr hty)), e2,
      List.nil_append, List.cons_append, List.append_assoc, List.append_nil]
  | fence => exact absurd (cls_fence_eq _ hcl) hf

theorem sext21_bound (x : Int) : -1048576 ≤ sextImm 21 x ∧ sextImm 21 x < 1048576 := by
  simp only [sextImm, show (2 : Int) ^ (21 - 1) = 1048576 by decide]; omega

/-- Canonical instructions (other than `fence`, csr number of at most 4300 digits) are spellable. -/
theorem spellable_of_canon (i : Instr) (addr : Int) (hc : i.Canon addr) (hf : i.op ≠ .fence)
    (haux : i.aux.natAbs < 10 ^ 4300) : Spellable i := by
  obtain ⟨hrd, hrs1, hrs2, hcan⟩ := hc
  refine ⟨hrd, hrs1, hrs2, ?_, haux, hf⟩
  cases hty : i.op.ty with
  | r => simp only [hty] at hcan; exact small_natAbs _ (by omega) (by omega)
  | i =>
    simp only [hty] at hcan
    obtain ⟨_, _, hcan⟩ := hcan
    by_cases he : i.op = .ecall
    · simp only [he, if_true] at hcan; exact small_natAbs _ (by omega) (by omega)
    · by_cases hb : i.op = .ebreak
      · simp only [hb, if_true, reduceCtorEq, if_false] at hcan; exact small_natAbs _ (by omega) (by omega)
      · simp only [he, hb, if_false] at hcan; exact small_natAbs _ (by omega) (by omega)
  | memI => simp only [hty] at hcan; exact small_natAbs _ (by omega) (by omega)
  | shiftI => simp only [hty] at hcan; exact small_natAbs _ (by omega) (by omega)
  | s => simp only [hty] at hcan; exact small_natAbs _ (by omega) (by omega)
  | b => simp only [hty] at hcan; exact small_natAbs _ (by omega) (by omega)
  | u => simp only [hty] at hcan; exact small_natAbs _ (by omega) (by omega)
  | j =>
    simp only [hty] at hcan
    have := sext21_bound (i.aux - addr)
    rw [hcan.2.2.2.1]
    exact small_natAbs _ (by omega) (by omega)
  | fence => simp only [hty] at hcan; exact small_natAbs _ (by omega) (by omega)
  | csr => simp only [hty] at hcan; exact small_natAbs _ (by omega) (by omega)
  | csri => simp only [hty] at hcan; exact small_natAbs _ (by omega) (by omega)

theorem canon_csr_nonneg (i : Instr) (addr : Int) (hc : i.Canon addr) :
    i.op.ty = .csr ∨ i.op.ty = .csri → 0 ≤ i.aux := by
  obtain ⟨_, _, _, hcan⟩ := hc
  rintro (hty | hty)
  · simp only [hty] at hcan; exact hcan.2.2
  · simp only [hty] at hcan; exact hcan.2.2.2.2

/-- Every spelling of a canonical instruction is tokenized exactly like its printed form, as a label-free
    entry from which the assembler back end builds the instruction again. -/
theorem render_roundtrip (sp : Spelling) (i : Instr) (addr : Int) (hc : i.Canon addr) (hf : i.op ≠ .fence)
    (haux : i.aux.natAbs < 10 ^ 4300) :
    parseLine (render sp i) = parseLine i.repr.toList ∧
      parseLine (render sp i) = some { lbl := none, item := itemOf i } ∧ ItemBuilds addr (itemOf i) i := by
  have hs := spellable_of_canon i addr hc hf haux
  have h1 := parseLine_render sp i hs
  have h2 := parseLine_render {} i hs
  rw [render_default i hf (canon_csr_nonneg i addr hc)] at h2
  obtain ⟨it, hp, hb⟩ := roundtrip_core i addr hc hf
  rw [h2] at hp
  have hit : itemOf i = it := by
    have := Option.some.inj hp
    exact congrArg Tok.item this
  exact ⟨by rw [h1, h2], h1, hit ▸ hb⟩

end ArchSim.Lemmas.C04Spell
