/-
C11 (program level), part 2: single-cycle mode does not depend on the instruction-cache state.
`EqC s t`: the two states agree on everything except the instruction memory system and the cycle
counter.  `behavior`, the display re-read and hence `singleStep` respect `EqC` as soon as both
instruction memory systems return the stored instruction (`FetchSound`).
-/
import ArchSim.Lemmas.C11Prog
import ArchSim.Lemmas.C02SplitFamilies

namespace ArchSim.Lemmas.C11Prog
open ArchSim ArchSim.Cache ArchSim.Rv ArchSim.Pipe ArchSim.Lemmas.C09 ArchSim.Lemmas.C11
open ArchSim.Lemmas.C02Split

/-- Equal except for the instruction memory system and the cycle counter. -/
structure EqC (s t : St) : Prop where
  regs : s.regs = t.regs
  pc : s.pc = t.pc
  mem : s.mem = t.mem
  output : s.output = t.output
  exitCode : s.exitCode = t.exitCode
  instrs : s.instrs = t.instrs
  branches : s.branches = t.branches
  procs : s.procs = t.procs
  stalls : s.stalls = t.stalls
  flushes : s.flushes = t.flushes

theorem EqC.rfl' (s : St) : EqC s s := ⟨rfl, rfl, rfl, rfl, rfl, rfl, rfl, rfl, rfl, rfl⟩
theorem EqC.symm {s t : St} (h : EqC s t) : EqC t s :=
  ⟨h.1.symm, h.2.symm, h.3.symm, h.4.symm, h.5.symm, h.6.symm, h.7.symm, h.8.symm, h.9.symm,
   h.10.symm⟩
theorem EqC.trans {s t u : St} (h : EqC s t) (g : EqC t u) : EqC s u :=
  ⟨h.1.trans g.1, h.2.trans g.2, h.3.trans g.3, h.4.trans g.4, h.5.trans g.5, h.6.trans g.6,
   h.7.trans g.7, h.8.trans g.8, h.9.trans g.9, h.10.trans g.10⟩

/-- The canonical form of a state `EqC`-related to `s`. -/
theorem EqC.eq {s t : St} (h : EqC s t) : t = { s with imem := t.imem, cycles := t.cycles } := by
  obtain ⟨h1, h2, h3, h4, h5, h6, h7, h8, h9, h10⟩ := h
  cases s; cases t
  simp only at h1 h2 h3 h4 h5 h6 h7 h8 h9 h10
  subst h1 h2 h3 h4 h5 h6 h7 h8 h9 h10
  rfl

theorem EqC.with (s : St) (im : IMem) (cy : Nat) : EqC s { s with imem := im, cycles := cy } :=
  ⟨rfl, rfl, rfl, rfl, rfl, rfl, rfl, rfl, rfl, rfl⟩

theorem processEcall_with (s : St) (im : IMem) (cy : Nat) :
    processEcall { s with imem := im, cycles := cy } = processEcall s := rfl

/-- `behavior` with another instruction memory / cycle count. -/
theorem behavior_with (i : Instr) (s : St) (im : IMem) (cy : Nat) :
    (behavior i { s with imem := im, cycles := cy }).fault = (behavior i s).fault ∧
    EqC (behavior i s).st (behavior i { s with imem := im, cycles := cy }).st := by
  unfold behavior
  simp only [St.setReg, processEcall_with]
  repeat' split
  all_goals exact ⟨rfl, ⟨rfl, rfl, rfl, rfl, rfl, rfl, rfl, rfl, rfl, rfl⟩⟩

theorem behavior_eqC (i : Instr) {s t : St} (h : EqC s t) :
    (behavior i s).fault = (behavior i t).fault ∧ EqC (behavior i s).st (behavior i t).st := by
  rw [h.eq]
  have := behavior_with i s t.imem t.cycles
  exact ⟨this.1.symm, this.2⟩

/-- The part of `singleStep` after the fetch respects `EqC`. -/
theorem singleTail_eqC (i : Instr) {s t : St} (h : EqC s t) :
    (singleTail i s).fault = (singleTail i t).fault ∧ EqC (singleTail i s).st (singleTail i t).st := by
  obtain ⟨hf, hb⟩ := behavior_eqC i h
  unfold singleTail
  simp only [← hf, ← h.regs, ← h.pc]
  cases (behavior i s).fault with
  | some ft => exact ⟨rfl, hb⟩
  | none =>
    simp only
    by_cases hty : i.op.ty = .memI
    · simp only [hty, if_true, ← hb.mem]
      generalize memoryAccess i _ none (behavior i s).st.mem false = ma
      cases ma with
      | none => exact ⟨rfl, hb⟩
      | some o =>
        simp only
        cases o.res with
        | error e => exact ⟨rfl, ⟨hb.1, hb.2, rfl, hb.4, hb.5, hb.6, hb.7, hb.8, hb.9, hb.10⟩⟩
        | ok v =>
          refine ⟨rfl, ⟨hb.1, ?_, rfl, hb.4, hb.5, hb.6, hb.7, hb.8, hb.9, hb.10⟩⟩
          show (_ + 4) % 4294967296 = (_ + 4) % 4294967296
          rw [show (behavior i s).st.pc = (behavior i t).st.pc from hb.pc]
    · simp only [hty, if_false]
      refine ⟨trivial, ⟨hb.1, ?_, hb.3, hb.4, hb.5, hb.6, hb.7, hb.8, hb.9, hb.10⟩⟩
      show (_ + 4) % 4294967296 = (_ + 4) % 4294967296
      rw [show (behavior i s).st.pc = (behavior i t).st.pc from hb.pc]

end ArchSim.Lemmas.C11Prog

namespace ArchSim.Lemmas.C11Prog
open ArchSim ArchSim.Cache ArchSim.Rv ArchSim.Pipe ArchSim.Lemmas.C09 ArchSim.Lemmas.C11
open ArchSim.Lemmas.C02Split

/-- `singleStep` at an occupied pc of a fetch-sound instruction memory. -/
theorem singleStep_fetched (s : St) (i : Instr) (hi : s.imem.instrAt s.pc = some i)
    (hs : FetchSound s.imem) :
    singleStep s = singleTail i { s with cycles := s.cycles + 1 + (s.imem.fetch s.pc).extra,
                                         instrs := s.instrs + 1, imem := (s.imem.fetch s.pc).imem } := by
  have := (hs s.pc i hi).1
  simp only [singleStep, hi, this]
  rfl

theorem singleStep_nofetch (s : St) (hi : s.imem.instrAt s.pc = none) :
    singleStep s = { st := { s with cycles := s.cycles + 1 }, fault := none } := by
  simp only [singleStep, hi]

/-- One single-cycle step respects `EqC`: same fault, `EqC` states, same program afterwards. -/
theorem singleStep_eqC {s t : St} (h : EqC s t) (hp : s.imem.prog = t.imem.prog)
    (hs : FetchSound s.imem) (ht : FetchSound t.imem) :
    (singleStep s).fault = (singleStep t).fault ∧ EqC (singleStep s).st (singleStep t).st ∧
      (singleStep s).st.imem.prog = (singleStep t).st.imem.prog := by
  have hia : s.imem.instrAt s.pc = t.imem.instrAt t.pc := by rw [instrAt_congr hp, h.pc]
  cases hi : s.imem.instrAt s.pc with
  | none =>
    have hi' := hia ▸ hi
    rw [singleStep_nofetch s hi, singleStep_nofetch t hi']
    exact ⟨rfl, ⟨h.1, h.2, h.3, h.4, h.5, h.6, h.7, h.8, h.9, h.10⟩, hp⟩
  | some i =>
    have hi' := hia ▸ hi
    have hq : EqC
        ({ s with cycles := s.cycles + 1 + (s.imem.fetch s.pc).extra, instrs := s.instrs + 1,
                  imem := (s.imem.fetch s.pc).imem } : St)
        ({ t with cycles := t.cycles + 1 + (t.imem.fetch t.pc).extra, instrs := t.instrs + 1,
                  imem := (t.imem.fetch t.pc).imem } : St) :=
      ⟨h.1, h.2, h.3, h.4, h.5, congrArg (· + 1) h.6, h.7, h.8, h.9, h.10⟩
    refine ⟨?_, ?_, ?_⟩
    · rw [singleStep_fetched s i hi hs, singleStep_fetched t i hi' ht]
      exact (singleTail_eqC i hq).1
    · rw [singleStep_fetched s i hi hs, singleStep_fetched t i hi' ht]
      exact (singleTail_eqC i hq).2
    · rw [(singleStep_some s hi).1, (singleStep_some t hi').1, (hs s.pc i hi).2, (ht t.pc i hi').2, hp]

/-- The instruction memory after a single-cycle step is the old one or the one a fetch left. -/
theorem ICoh_singleStep (s : St) (h : ICoh s.imem) : ICoh (singleStep s).st.imem := by
  cases hi : s.imem.instrAt s.pc with
  | none => rw [(singleStep_none s hi).1]; exact h
  | some i => rw [(singleStep_some s hi).1]; exact h.fetch _

theorem ICoh_singleRun (n : Nat) : ∀ (s : St), ICoh s.imem → ICoh (singleRun n s).imem := by
  induction n with
  | zero => intro s h; exact h
  | succ n ih => intro s h; exact ih _ (ICoh_singleStep s h)

theorem singleDone_eqC {s t : St} (h : EqC s t) (hp : s.imem.prog = t.imem.prog) :
    singleDone s = singleDone t := by
  unfold singleDone
  rw [h.exitCode, instrAt_congr hp, h.pc]

/-- Runs of any length respect `EqC`. -/
theorem singleRun_eqC (n : Nat) : ∀ {s t : St}, EqC s t → s.imem.prog = t.imem.prog →
    ICoh s.imem → ICoh t.imem →
    EqC (singleRun n s) (singleRun n t) ∧ (singleRun n s).imem.prog = (singleRun n t).imem.prog := by
  induction n with
  | zero => intro s t h hp _ _; exact ⟨h, hp⟩
  | succ n ih =>
    intro s t h hp hs ht
    obtain ⟨_, h1, hp1⟩ := singleStep_eqC h hp hs.fetchSound ht.fetchSound
    exact ih h1 hp1 (ICoh_singleStep s hs) (ICoh_singleStep t ht)

end ArchSim.Lemmas.C11Prog
