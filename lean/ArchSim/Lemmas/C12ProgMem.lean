/-
C12 (memory table, program level), part 1: the KEYS of the backing memory (`Mem.keys`, the stored
cells in insertion order — what `wordwise_repr` iterates over) under `Mem.write` and
`writeBlockToMem`: keys are never removed, an accepted write stores all its bytes, a written-back
block stores all its bytes.
-/
import ArchSim.Lemmas.C12Evict

namespace ArchSim.Lemmas.C12Prog
open ArchSim ArchSim.Cache ArchSim.Mem ArchSim.Spec.ByteStore ArchSim.Lemmas.C18 ArchSim.Spec.CacheAbs
open ArchSim.Lemmas.C03 ArchSim.Lemmas.C12

/-- Every stored cell of `m` is a stored cell of `m'`. -/
def KeysSub (m m' : Mem) : Prop := ∀ x, x ∈ m.keys → x ∈ m'.keys

theorem KeysSub.refl (m : Mem) : KeysSub m m := fun _ h => h

theorem KeysSub.trans {a b c : Mem} (h1 : KeysSub a b) (h2 : KeysSub b c) : KeysSub a c :=
  fun x h => h2 x (h1 x h)

theorem writeN_keysSub (m : Mem) (a : Int) (n v : Nat) : KeysSub m (writeN m a n v).1 := by
  intro x hx
  rw [writeN_eq]
  exact (applyCells_keys_mem _ _ _).mpr (Or.inl hx)

theorem write_keysSub (m : Mem) (bits : Nat) (a : Int) (v : Nat) (r : Mem × Option AddrErr)
    (h : Mem.write m bits a v = some r) : KeysSub m r.1 := by
  unfold Mem.write at h
  split at h
  · cases h
  · cases h
    exact writeN_keysSub m a _ v

theorem writeBlockToMem_keysSub (m : Mem) (base : Nat) (ws : List Nat) (i : Nat) :
    KeysSub m (writeBlockToMem m base ws i).1 := by
  induction ws generalizing m i with
  | nil => exact KeysSub.refl m
  | cons w ws ih =>
    rw [writeBlockToMem]
    cases hw : Mem.write m 32 ((base : Int) + 4 * i) w with
    | none => exact KeysSub.refl m
    | some r =>
      obtain ⟨m', e⟩ := r
      have h1 := write_keysSub m 32 _ w _ hw
      cases e with
      | some e => exact h1
      | none => exact h1.trans (ih m' (i + 1))

/-- An accepted flat write stores all its bytes: each becomes (or stays) a key. -/
theorem write_riscv_keys {m : Mem} (hc : m.cfg = riscvCfg) (bits : Nat) (hb : widthOK bits) (A : Int)
    (v : Nat) (h1 : 16384 ≤ wrap32 A) (h2 : wrap32 A + bits / 8 ≤ 4294967296) (m' : Mem)
    (e : Option AddrErr) (hw : Mem.write m bits A v = some (m', e)) (i : Nat) (hi : i < bits / 8) :
    ((wrap32 A + i : Nat) : Int) ∈ m'.keys := by
  have h8 : ¬ m.cfg.cellBits > bits := by
    rw [hc]; rcases hb with rfl | rfl | rfl <;> decide
  have hn : cellsOf m.cfg bits = bits / 8 := by rw [hc]; rfl
  have hok : ∀ i, i < bits / 8 → cellOk m.cfg A i = true := by
    intro i hi; rw [hc]; exact cellOk_riscv A i h1 (by omega)
  simp only [Mem.write, h8, if_false, hn] at hw
  have hm' : m' = (writeN m A (bits / 8) v).1 := by
    have := congrArg Prod.fst (Option.some.inj hw)
    exact this.symm
  rw [hm', writeN_eq, okIdx_all m.cfg A _ hok]
  apply (applyCells_keys_mem _ _ _).mpr
  right
  simp only [List.map_map, List.mem_map, List.mem_range]
  refine ⟨i, hi, ?_⟩
  show wrapAddr m.cfg (A + (i : Int)) = _
  rw [hc, wrapAddr_add A i (by omega)]

/-- A block written back in full stores all its bytes: each becomes (or stays) a key. -/
theorem writeBlockToMem_keys {m : Mem} (hm : MemOK m) (base : Nat) (ws : List Nat) (i : Nat)
    (h1 : 16384 ≤ base) (h2 : base + 4 * (i + ws.length) ≤ 4294967296) (m' : Mem)
    (hw : writeBlockToMem m base ws i = (m', none)) (j l : Nat) (hj : j < ws.length) (hl : l < 4) :
    ((base + 4 * (i + j) + l : Nat) : Int) ∈ m'.keys := by
  induction ws generalizing m i j with
  | nil => exact absurd hj (Nat.not_lt_zero _)
  | cons w ws ih =>
    simp only [List.length_cons] at h2 hj
    have hA : wrap32 ((base : Int) + 4 * (i : Int)) = base + 4 * i := by
      have := wrap32_nat (base + 4 * i) (by omega)
      rw [← this]; congr 1
    obtain ⟨m1, hw1, hm1, _, _⟩ := write_riscv hm 32 (Or.inr (Or.inr rfl)) ((base : Int) + 4 * (i : Int)) w
      (by rw [hA]; omega) (by rw [hA]; omega)
    rw [writeBlockToMem, hw1] at hw
    simp only at hw
    cases j with
    | zero =>
      have hk := write_riscv_keys hm.cfg 32 (Or.inr (Or.inr rfl)) ((base : Int) + 4 * (i : Int)) w
        (by rw [hA]; omega) (by rw [hA]; omega) m1 none hw1 l (by omega)
      rw [hA] at hk
      have hsub := writeBlockToMem_keysSub m1 base ws (i + 1)
      rw [hw] at hsub
      exact hsub _ hk
    | succ j =>
      have := ih hm1 (i + 1) (by omega) hw j (by omega)
      rw [show base + 4 * (i + (j + 1)) + l = base + 4 * (i + 1 + j) + l by omega]
      exact this

end ArchSim.Lemmas.C12Prog
