/-
C12 (memory table, program level), part 6: the coverage invariant `Cov s m` — every cell the flat
reference memory `m` has stored is a stored cell of the backing memory or lies in a resident block —
and the combined table invariant `TRep` (write-through: backing memory = flat memory as a structure;
either policy: coverage) along one operation and along histories.
-/
import ArchSim.Lemmas.C12ProgWB

namespace ArchSim.Lemmas.C12Prog
open ArchSim ArchSim.Cache ArchSim.Mem ArchSim.Spec.ByteStore ArchSim.Lemmas.C18 ArchSim.Spec.CacheAbs
open ArchSim.Lemmas.C03 ArchSim.Lemmas.C12

variable {σ : Type} {P : PolicyOps σ} {WFp : σ → Prop}

/-- Every stored cell of the flat memory `m` is stored in the backing memory of `s` or resident. -/
def Cov (s : DSys σ) (m : Mem) : Prop :=
  ∀ k, k ∈ m.keys → k ∈ s.mem.keys ∨ resident s k = true

theorem key_wrap {m : Mem} (hm : MemOK m) {k : Int} (hk : k ∈ m.keys) : ((wrap32 k : Nat) : Int) = k := by
  have hr := hm.wf.keys_inRange k hk
  rw [hm.cfg, riscv_inRange] at hr
  simp only [Bool.and_eq_true, decide_eq_true_eq] at hr
  have := wrap32_cast k
  omega

theorem Cov.evo {s s' : DSys σ} {m : Mem} (hm : MemOK m) (h : Cov s m) (e : Evo s s') : Cov s' m := by
  intro k hk
  rcases h k hk with h1 | h1
  · exact Or.inl (e.1 k h1)
  · rcases e.2 k h1 with h2 | h2
    · exact Or.inr h2
    · rw [key_wrap hm hk] at h2; exact Or.inl h2

/-- The stored cells after an accepted flat write: the old ones and the bytes written. -/
theorem write_riscv_keys_inv {m : Mem} (hc : m.cfg = riscvCfg) (bits : Nat) (hb : widthOK bits) (A : Int)
    (v : Nat) (h1 : 16384 ≤ wrap32 A) (h2 : wrap32 A + bits / 8 ≤ 4294967296) (m' : Mem)
    (e : Option AddrErr) (hw : Mem.write m bits A v = some (m', e)) (x : Int) (hx : x ∈ m'.keys) :
    x ∈ m.keys ∨ ∃ i, i < bits / 8 ∧ x = ((wrap32 A + i : Nat) : Int) := by
  have h8 : ¬ m.cfg.cellBits > bits := by
    rw [hc]; rcases hb with rfl | rfl | rfl <;> decide
  have hn : cellsOf m.cfg bits = bits / 8 := by rw [hc]; rfl
  have hok : ∀ i, i < bits / 8 → cellOk m.cfg A i = true := by
    intro i hi; rw [hc]; exact cellOk_riscv A i h1 (by omega)
  simp only [Mem.write, h8, if_false, hn] at hw
  have hm' : m' = (writeN m A (bits / 8) v).1 := (congrArg Prod.fst (Option.some.inj hw)).symm
  rw [hm', writeN_eq, okIdx_all m.cfg A _ hok] at hx
  rcases (applyCells_keys_mem _ _ _).mp hx with h | h
  · exact Or.inl h
  · right
    simp only [List.map_map, List.mem_map, List.mem_range] at h
    obtain ⟨i, hi, rfl⟩ := h
    refine ⟨i, hi, ?_⟩
    show wrapAddr m.cfg (A + (i : Int)) = _
    rw [hc, wrapAddr_add A i (by omega)]

/-- The other bytes of an access within one word are resident iff its first byte is. -/
theorem resident_same_word (s : DSys σ) (addr : Int) (i : Nat) (h : wrap32 addr % 4 + i < 4) :
    resident s (((wrap32 addr + i : Nat) : Int)) = resident s addr := by
  have hx := wrap32_lt addr
  have e1 : dec s (((wrap32 addr + i : Nat) : Int)) = dec s (addr + (i : Int)) :=
    decode_congr _ _ _ _ (by rw [wrap32_nat _ (by omega), wrap32_add addr i h])
  have e2 := decode_add s.geo.idxBits s.geo.blkBits addr i h
  unfold resident
  show (lookup s.sets (dec s _).setIdx (dec s _).tag).isSome = _
  rw [e1]
  show (lookup s.sets (decode s.geo.idxBits s.geo.blkBits (addr + (i : Int))).setIdx
    (decode s.geo.idxBits s.geo.blkBits (addr + (i : Int))).tag).isSome = _
  rw [e2]

/-- The memory-table invariant relating a cached system to the flat reference memory:
    write-through — the backing memory IS the flat memory (cells and key order);
    either policy — coverage. -/
structure TRep (s : DSys σ) (m : Mem) : Prop where
  wt  : s.wt = true → s.mem = m
  cov : Cov s m

/-- A system whose backing memory is the flat memory satisfies the table invariant. -/
theorem TRep.of_eq {s : DSys σ} {m : Mem} (h : s.mem = m) : TRep s m :=
  ⟨fun _ => h, fun k hk => Or.inl (by rw [h]; exact hk)⟩

/-- One operation of a history (any operation, accepted or rejected) keeps the table invariant. -/
theorem TRep.step {s : DSys σ} (hP : PolicyOK P s.geo.assoc WFp) {m : Mem} (hr : Repr WFp s m)
    (ht : TRep s m) (o : Spec.CacheAbs.Op) (ho : o.wf) :
    TRep (stepOp P s o).sys (flatStep m o).1 := by
  obtain ⟨hs, hm, _⟩ := hr
  by_cases hwt : s.wt = true
  · have e := ht.wt hwt
    have := wt_step_mem hP hs hwt o ho
    rw [e] at this
    exact TRep.of_eq this
  · have hwf : s.wt = false := by simpa using hwt
    obtain ⟨_, _, h3, _⟩ := step_agrees hP ⟨hs, hm, ‹_›⟩ o ho
    refine ⟨fun h => absurd (h3.symm.trans h) hwt, ?_⟩
    cases o with
    | read bits addr counted =>
      have : (flatStep m (.read bits addr counted)).1 = m := by
        unfold flatStep; split <;> rfl
      rw [this]
      exact ht.cov.evo hm (read_evo hP hs hwf bits addr counted)
    | write bits addr v =>
      obtain ⟨hb, hv⟩ : widthOK bits ∧ v < 2 ^ bits := ho
      have hst : stepOp P s (.write bits addr v) = s.writeWB P bits addr v := by
        unfold stepOp DSys.write
        simp only [Bool.false_eq_true, if_false, hwf]
      rw [hst]
      obtain ⟨k1, k2⟩ := writeWB_evo hP hs bits addr v hb hv
      by_cases hacc : (Spec.CacheAbs.Op.write bits addr v).accepted
      · have hacc' : inWord bits addr ∧ inData addr := hacc
        obtain ⟨hw, hin⟩ := hacc'
        have hx := wrap32_lt addr
        have hw' : wrap32 addr % 4 + bits / 8 ≤ 4 := hw
        obtain ⟨m', hwr, _⟩ := write_riscv hm bits hb addr v hin (by omega)
        have : (flatStep m (.write bits addr v)).1 = m' := by
          unfold flatStep; rw [if_pos hacc]; simp only [hwr]
        rw [this]
        intro k hk
        rcases write_riscv_keys_inv hm.cfg bits hb addr v hin (by omega) m' none hwr k hk with h | h
        · exact ht.cov.evo hm k1 k h
        · obtain ⟨i, hi, rfl⟩ := h
          right
          rw [resident_same_word _ addr i (by omega)]
          exact k2 hw hin
      · have : (flatStep m (.write bits addr v)).1 = m := by
          unfold flatStep; rw [if_neg hacc]
        rw [this]
        exact ht.cov.evo hm k1

/-- Histories keep the table invariant. -/
theorem TRep.history {s : DSys σ} (hP : PolicyOK P s.geo.assoc WFp) {m : Mem} (hr : Repr WFp s m)
    (ht : TRep s m) (ops : List Spec.CacheAbs.Op) (ho : ∀ o, o ∈ ops → o.wf) :
    TRep (runOps P s ops).1 (flatOps m ops).1 := by
  induction ops generalizing s m with
  | nil => exact ht
  | cons o os ih =>
    have how := ho o (by simp)
    obtain ⟨h1, h2, _, _⟩ := step_agrees hP hr o how
    exact ih (s := (stepOp P s o).sys) (m := (flatStep m o).1) (by rw [h2]; exact hP) h1
      (ht.step hP hr o how) (fun o' ho' => ho o' (by simp [ho']))

end ArchSim.Lemmas.C12Prog
