/-
C09 (program level), part 7: the invariant holds for every freshly built cached data memory; concrete
objects for the non-vacuity examples of `Props/C09Prog.lean`.
-/
import ArchSim.Lemmas.C09ProgCount
import ArchSim.Props.C02

namespace ArchSim.Lemmas.C09Prog
open ArchSim ArchSim.Cache ArchSim.Rv ArchSim.Repl ArchSim.Pipe
open ArchSim.Lemmas.C11 ArchSim.Lemmas.C11Prog

/-- The data-cache hit counter / last-hit flag of a memory system. -/
def dHits : MemSys → Nat
  | .flat _ => 0
  | .cached _ ds => ds.hits
def dLastHit : MemSys → Bool
  | .flat _ => false
  | .cached _ ds => ds.lastHit

/-- A freshly built data-cache system (any admissible geometry, write policy, penalty, LRU or PLRU)
    over the empty RISC-V data memory satisfies the invariant. -/
theorem DOK_init (l wt : Bool) (g : Geo) (penalty : Nat) (hg : Spec.CacheAbs.GeoOK g)
    (ha : C09.AssocOK l g.assoc) :
    DOK l (DSys.init (polOps l) wt g penalty (Mem.Mem.empty Mem.riscvCfg)) where
  assoc := ha
  cinv := (Props.C03.init_inv g hg (C03.pol_ok l g.assoc ha.1 ha.2) wt penalty).1
  inv := C09.Inv_init ⟨hg.bits, hg.blk, hg.assoc⟩ (C09.polOps_ok ha) wt penalty _ rfl

/-- The same after any `.data` preload `h` (direct writes to the lower memory before anything is
    cached: any widths, addresses and values). -/
theorem DOK_preload (l wt : Bool) (g : Geo) (penalty : Nat) (hg : Spec.CacheAbs.GeoOK g)
    (ha : C09.AssocOK l g.assoc) (h : List Spec.ByteStore.Op) :
    DOK l (Spec.CacheAbs.preload (DSys.init (polOps l) wt g penalty (Mem.Mem.empty Mem.riscvCfg)) h) := by
  have h0 := DOK_init l wt g penalty hg ha
  obtain ⟨e1, e2, e3, _⟩ :=
    C03.preload_spec (DSys.init (polOps l) wt g penalty (Mem.Mem.empty Mem.riscvCfg)) h
  obtain ⟨c1, c2, _⟩ := Props.C03.preload_inv (P := polOps l) g hg
    (C03.pol_ok l g.assoc ha.1 ha.2) wt penalty h
  refine h0.of_geo e3 c1 ⟨?_, ?_, ?_, ?_⟩
  · rw [e3]; exact h0.inv.geo
  · rw [e2, e3]; exact h0.inv.nsets
  · rw [e2, e3]; exact h0.inv.sets
  · rw [c2]; exact (C03.MemOK_run h).1

/-- The example program of `Props/C02.lean` (RAW interlock, store/load pair, taken branch, exiting
    ecall) over a 2-set, 2-word-block, 2-way write-back LRU data cache with miss penalty 10. -/
def exDSt : St :=
  { Props.C02.exSt with
    mem := .cached true (DSys.init (polOps true) false C09.exGeo 10 (Mem.Mem.empty Mem.riscvCfg)) }

theorem exDSt_hyp : StepHyp exDSt where
  nocache := rfl
  fits := by decide
  wf := by unfold ProgWF; decide
  inv := ⟨fun _ => by show (0 : Nat) < 4294967296; decide, ⟨true, _, rfl,
    DOK_init true false C09.exGeo 10 (by constructor <;> decide) ⟨by decide, fun h => by cases h⟩⟩⟩

/-- `exDSt` with the one-set instruction cache of the C11 examples switched on. -/
def exDStC : St := { exDSt with imem := { prog := exDSt.imem.prog, cache := some exCache1 } }

end ArchSim.Lemmas.C09Prog
