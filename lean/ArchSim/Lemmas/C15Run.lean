/-
C15 — run-time failures: the single-cycle step reports the address `pc` and the instruction stored
there; classification of the fault by the instruction.
-/
import ArchSim.Model.Sim
import ArchSim.Lemmas.C11

namespace ArchSim.Lemmas.C15
open ArchSim ArchSim.Rv

/-! ### single-stage mode -/

/-- Every fault of `singleStep` is reported at the `pc` of the step, and an instruction is stored
    there. No hypothesis. -/
theorem singleStep_fault_pc {s : St} {a : Int} {f : Fault} (h : (singleStep s).fault = some (a, f)) :
    a = s.pc ∧ ∃ i, s.imem.instrAt a = some i := by
  unfold singleStep at h
  simp only at h
  cases hi : s.imem.instrAt s.pc with
  | none => simp [hi] at h
  | some j =>
    simp only [hi] at h
    repeat' split at h
    all_goals first
      | (cases h; done)
      | (cases h; exact ⟨rfl, j, hi⟩)

/-- the valid ecall service codes -/
def ecallCodes : List Nat := [1, 2, 4, 11, 34, 35, 36, 10, 93]

theorem processEcall_invalid {s : St} {m : MemSys} {c : Nat} (h : processEcall s = (m, .invalid c)) :
    c = s.regs 17 ∧ c ∉ ecallCodes := by
  unfold processEcall at h
  simp only at h
  repeat' split at h
  all_goals first
    | (cases h; done)
    | (cases h; refine ⟨rfl, ?_⟩; simp_all [ecallCodes])

theorem processEcall_err {s : St} {m : MemSys} {e : Cache.Err} (h : processEcall s = (m, .err e)) :
    s.regs 17 = 4 := by
  unfold processEcall at h
  simp only at h
  repeat' split at h
  all_goals first
    | (cases h; done)
    | assumption

/-- What `behavior` can raise, by instruction. -/
def FaultFits (regs : Nat → Nat) (i : Instr) : Fault → Prop
  | .notImplemented => i.op = .ebreak ∨ i.op = .fence
  | .unmodelled => i.op.ty = .csr ∨ i.op.ty = .csri
  | .ecallCode c => i.op = .ecall ∧ c = regs 17 ∧ c ∉ ecallCodes
  | .mem _ => i.op.ty = .memI ∨ i.op.ty = .s ∨ (i.op = .ecall ∧ regs 17 = 4)

theorem behavior_fault {i : Instr} {s : St} {f : Fault} (h : (behavior i s).fault = some f) :
    FaultFits s.regs i f := by
  unfold behavior at h
  simp only at h
  split at h
  · cases h
  · cases h
  · rename_i hty
    split at h
    · cases h; exact .inl hty
    · cases h
  · rename_i hty
    split at h
    · cases h; exact .inr (.inl hty)
    · cases h
  · split at h <;> cases h
  · split at h <;> cases h
  · cases h
  · split at h
    · cases h
    · split at h
      · rename_i hop
        split at h
        · cases h
        · cases h
        · rename_i hp; cases h; exact .inr (.inr ⟨hop, processEcall_err hp⟩)
        · rename_i hp; cases h; exact ⟨hop, processEcall_invalid hp⟩
      · split at h
        · rename_i hop; cases h; exact .inl hop
        · cases h
  · rename_i hty; cases h
    exact .inr (by cases hop : i.op <;> simp_all [Op.ty])
  · rename_i hty; cases h; exact .inl hty
  · rename_i hty; cases h; exact .inr hty

/-- The fetch at `pc` returns the instruction stored there (true for the uncached instruction
    memory with at most 4096 instructions, and for a cached one under the C11 invariant). -/
def FetchOK (s : St) : Prop :=
  ∀ i, s.imem.instrAt s.pc = some i → (s.imem.fetch s.pc).res = .ok (some i)

theorem instrAt_bounds {im : IMem} {pc : Int} {i : Instr} (h : im.instrAt pc = some i) :
    0 ≤ pc ∧ pc % 4 = 0 ∧ (pc / 4).toNat < im.prog.length := by
  unfold IMem.instrAt at h
  split at h
  · rename_i hc
    refine ⟨hc.1, hc.2, ?_⟩
    exact (List.getElem?_eq_some_iff.1 h).1
  · cases h

theorem fetchOK_uncached {s : St} (hc : s.imem.cache = none) (hl : s.imem.prog.length ≤ 4096) : FetchOK s := by
  intro i hi
  obtain ⟨h0, h4, hlt⟩ := instrAt_bounds hi
  have : s.pc < 16384 := by omega
  simp [IMem.fetch, hc, hi, h0, this]

/-- With the fetch returning the stored instruction, the fault is one the instruction can raise. -/
theorem singleStep_fault_fits {s : St} {a : Int} {f : Fault} {i : Instr} (hf : FetchOK s)
    (hi : s.imem.instrAt s.pc = some i) (h : (singleStep s).fault = some (a, f)) :
    FaultFits s.regs i f := by
  have hres := hf i hi
  unfold singleStep at h
  simp only [hi, hres] at h
  split at h
  · rename_i ft hft
    cases h
    have := behavior_fault hft
    exact this
  · split at h
    · rename_i ft hs3
      cases h
      split at hs3
      · rename_i hty
        repeat' split at hs3
        all_goals first
          | (cases hs3; done)
          | (cases hs3; exact .inl hty)
      · cases hs3
    · cases h

theorem fetchOK_cached {s : St} {c : ICache} (hc : s.imem.cache = some c)
    (hinv : ArchSim.Lemmas.C11.IInv s.imem c) (hl : s.imem.prog.length ≤ 4096) : FetchOK s := by
  intro i hi
  obtain ⟨h0, h4, hlt⟩ := instrAt_bounds hi
  have := (ArchSim.Lemmas.C11.fetch_spec hc hinv s.pc).res
  rw [ArchSim.Lemmas.C11.aligned_wrap h0 (by omega) h4, hi] at this
  exact this

/-- `Sim.step` in single-stage mode raises exactly when the simulation is not done and `singleStep`
    faults; it reports the fault's address, the instruction stored there and the fault. -/
theorem simStep_single_fault {s : Sim.RSim} (h5 : s.five = false) {a : Int} {oi : Option Instr} {f : Fault} :
    (Sim.step s).fault = some (a, oi, f) ↔
      (Sim.isDone s = false ∧ (singleStep s.p.st).fault = some (a, f) ∧ oi = s.p.st.imem.instrAt a) := by
  unfold Sim.step
  cases hd : Sim.isDone s with
  | true => simp
  | false =>
    simp only [h5, Bool.false_eq_true, if_false]
    cases hf : (singleStep s.p.st).fault with
    | none => simp
    | some af =>
      obtain ⟨a', f'⟩ := af
      simp only [Option.some.injEq, Prod.mk.injEq, true_and]
      constructor
      · rintro ⟨rfl, rfl, rfl⟩; exact ⟨⟨rfl, rfl⟩, rfl⟩
      · rintro ⟨⟨rfl, rfl⟩, rfl⟩; exact ⟨rfl, rfl, rfl⟩

end ArchSim.Lemmas.C15
