/-
End-to-end layer, part 2 (helper lemmas for C09Asm2 / C03Asm2): reloading with a USED data cache. `DSys.reset`
(what `load_program` applies to the data memory system) builds new empty sets and clears the lower memory but KEEPS
the hit / access counters and the last-hit flag. None of the invariants of C03 / C09 / C12 mentions the counters, so
they hold for `preload (ds.reset P) h` for ANY `ds` of an admissible geometry, whatever its contents and counters.
-/
import ArchSim.Lemmas.E2ECacheInit
import ArchSim.Lemmas.C12ProgTop

namespace ArchSim.Lemmas.E2E2
open ArchSim ArchSim.Rv ArchSim.Asm ArchSim.Mem ArchSim.Cache ArchSim.Spec.ByteStore ArchSim.Lemmas.E2E
open ArchSim.Spec.CacheAbs (GeoOK preload CInv)

/-- What a data-cache system must satisfy for a reload to re-establish the invariants: admissible geometry, an
    associativity that suits the policy `l` (LRU / PLRU), RISC-V lower memory. Nothing about its contents or its
    counters. (True of every system the simulator builds or reaches.) -/
structure Reloadable (l : Bool) (ds : DSys Repl.Pol) : Prop where
  geo   : GeoOK ds.geo
  assoc : ArchSim.Lemmas.C09.AssocOK l ds.geo.assoc
  cfg   : ds.mem.cfg = riscvCfg

/-- The reset system after the `.data` preload `h`, field by field: new empty sets, the lower memory of the write
    history `h`, configuration and COUNTERS of `ds`. -/
theorem preload_reset_fields (P : PolicyOps Repl.Pol) (ds : DSys Repl.Pol) (hc : ds.mem.cfg = riscvCfg)
    (h : List Spec.ByteStore.Op) :
    preload (ds.reset P) h =
      { wt := ds.wt, geo := ds.geo, penalty := ds.penalty, sets := initSets P ds.geo, mem := run riscvCfg h,
        hits := ds.hits, accesses := ds.accesses, lastHit := ds.lastHit } := by
  rw [preload_eq]
  simp only [DSys.reset, Mem.reset, hc]
  rfl

theorem crep_reload (l : Bool) (ds : DSys Repl.Pol) (hr : Reloadable l ds) (h : List Spec.ByteStore.Op) :
    ArchSim.Lemmas.C03Prog.CRep l (preload (ds.reset (polOps l)) h) (run riscvCfg h) := by
  have hP := ArchSim.Lemmas.C03.pol_ok l ds.geo.assoc hr.assoc.1 hr.assoc.2
  rw [preload_reset_fields _ ds hr.cfg h]
  obtain ⟨h1, h2⟩ := ArchSim.Lemmas.C03.CInv_of_empty (WFp := Repl.Pol.WF ds.geo.assoc)
    (s := { wt := ds.wt, geo := ds.geo, penalty := ds.penalty, sets := initSets (polOps l) ds.geo,
            mem := run riscvCfg h, hits := ds.hits, accesses := ds.accesses, lastHit := ds.lastHit })
    hr.geo (ArchSim.Lemmas.C03.initSets_ok ds.geo hP) (ArchSim.Lemmas.C03.MemOK_run h)
    (fun k t => ArchSim.Lemmas.C03.lookup_initSets ds.geo k t)
  have i9 := ArchSim.Lemmas.C09.Inv_init (P := polOps l) (ok := Repl.Pol.WF ds.geo.assoc) (g := ds.geo)
    ⟨hr.geo.bits, hr.geo.blk, hr.geo.assoc⟩ (ArchSim.Lemmas.C09.polOps_ok hr.assoc) ds.wt ds.penalty
    (Mem.empty riscvCfg) rfl
  exact ⟨h1, ⟨i9.geo, i9.nsets, i9.sets, (ArchSim.Lemmas.C03.MemOK_run h).cfg⟩, hr.assoc,
    ArchSim.Lemmas.C03.MemOK_run h, h2⟩

theorem dok_reload (l : Bool) (ds : DSys Repl.Pol) (hr : Reloadable l ds) (h : List Spec.ByteStore.Op) :
    ArchSim.Lemmas.C09Prog.DOK l (preload (ds.reset (polOps l)) h) :=
  have hc := crep_reload l ds hr h
  ⟨hc.assoc, hc.cinv, hc.inv9⟩

theorem mrelT_reload (l : Bool) (ds : DSys Repl.Pol) (hr : Reloadable l ds) (h : List Spec.ByteStore.Op) :
    ArchSim.Lemmas.C12Prog.MRelT ds.wt (.cached l (preload (ds.reset (polOps l)) h)) (.flat (run riscvCfg h)) := by
  refine ⟨l, _, _, rfl, rfl, crep_reload l ds hr h, ArchSim.Lemmas.C12Prog.TRep.of_eq ?_, ?_⟩ <;>
    rw [preload_reset_fields _ ds hr.cfg h]

/-! ### loading into a state whose data cache has been used -/

/-- `s` with the flat empty RISC-V data memory instead of its data memory system -/
def flatOf (s : St) : St := { s with mem := .flat (Mem.empty riscvCfg) }

/-- RELOAD. Let the data memory of `s1` be ANY reloadable cache system `ds` (any contents, any counters). Loading a
    text into `s1` and into `flatOf s1` reports the same error, and the two loaded states are related by C03Prog's
    `CacheRel` and C12Prog's `MRelT`; the cached one satisfies C09Prog's `DInv`; its counters are those of `ds`. -/
theorem load_reload (s1 : St) (l : Bool) (ds : DSys Repl.Pol) (hm : s1.mem = .cached l ds)
    (hr : Reloadable l ds) (text : String) :
    (load s1 text).err = (load (flatOf s1) text).err ∧
    (load s1 text).st.imem = (load (flatOf s1) text).st.imem ∧
    ArchSim.Lemmas.C03Prog.CacheRel (load s1 text).st (load (flatOf s1) text).st ∧
    ArchSim.Lemmas.C12Prog.MRelT ds.wt (load s1 text).st.mem (load (flatOf s1) text).st.mem ∧
    ArchSim.Lemmas.C09Prog.DInv (load s1 text).st.mem ∧
    ∃ ds', (load s1 text).st.mem = .cached l ds' ∧ ds'.hits = ds.hits ∧ ds'.accesses = ds.accesses ∧
      ds'.lastHit = ds.lastHit ∧ ds'.wt = ds.wt ∧ ds'.geo = ds.geo ∧ ds'.penalty = ds.penalty := by
  obtain ⟨he, h, h1, h2⟩ : (load s1 text).err = (load (flatOf s1) text).err ∧
      ∃ h : List Spec.ByteStore.Op, (load (flatOf s1) text).st.mem = .flat (run riscvCfg h) ∧
        (load s1 text).st = { (load (flatOf s1) text).st with
          mem := .cached l (preload (ds.reset (polOps l)) h) } := load_cached s1 l ds hm hr.cfg text
  have hf := preload_reset_fields (polOps l) ds hr.cfg h
  refine ⟨he, by rw [h2], ?_, ?_, ?_, ?_⟩
  · rw [h2]
    exact ⟨⟨l, _, _, rfl, h1, crep_reload l ds hr h⟩, rfl, rfl, rfl, rfl, rfl, rfl, rfl, rfl⟩
  · rw [h2, h1]; exact mrelT_reload l ds hr h
  · rw [h2]; exact ⟨l, _, rfl, dok_reload l ds hr h⟩
  · rw [h2]
    exact ⟨_, rfl, by rw [hf], by rw [hf], by rw [hf], by rw [hf], by rw [hf], by rw [hf]⟩

/-- … and it satisfies C09Prog's `StepHyp` when `s1` has no instruction cache and 32-bit register values, the load
    succeeds and the program is in the supported set. -/
theorem load_reload_stepHyp (s1 : St) (l : Bool) (ds : DSys Repl.Pol) (hm : s1.mem = .cached l ds)
    (hr : Reloadable l ds) (hic : s1.imem.cache = none) (hregs : ∀ r, s1.regs r < 4294967296) (text : String)
    (h : (load s1 text).err = none) (hsup : AllSupported (load s1 text).st.imem.prog) :
    ArchSim.Lemmas.C09Prog.StepHyp (load s1 text).st := by
  refine ⟨load_nocache' s1 text hic, (load_objs s1 text h).2, load_progWF_c09 s1 text h hsup, ⟨?_, ?_⟩⟩
  · intro r; rw [(load_frame s1 text).1]; exact hregs r
  · exact (load_reload s1 l ds hm hr text).2.2.2.2.1
where
  load_nocache' (s : St) (text : String) (hc : s.imem.cache = none) : (load s text).st.imem.cache = none := by
    rw [load_imem s text hc]

/-- Every state satisfying `StepHyp` (e.g. any state of a fault-free run of a first program) has a reloadable data
    cache, no instruction cache and 32-bit registers. -/
theorem stepHyp_reloadable {s : St} (h : ArchSim.Lemmas.C09Prog.StepHyp s) :
    ∃ l ds, s.mem = .cached l ds ∧ Reloadable l ds := by
  obtain ⟨l, ds, hm, hok⟩ := h.inv.mem
  exact ⟨l, ds, hm, hok.cinv.geo, hok.assoc, hok.cinv.cfg⟩

end ArchSim.Lemmas.E2E2
