/-
C09/C11 helper lemmas, part 1: one cache set and the array of sets, generic in the payload `α`
and in the policy.  `readBlock` / `writeBlock` of the model are characterised case by case
(hit / miss), and the erasure of their results is shown to be the reference `lookupSets`.
-/
import ArchSim.Spec.TagCache

namespace ArchSim.Lemmas.C09
open ArchSim ArchSim.Cache ArchSim.Spec.TagCache

/-! ### The abstract policy interface -/

/-- What the cache needs from a replacement policy: a predicate `ok` on policy states that holds
    initially and is preserved by `access`; on `ok` states `access` of a way `< assoc` never fails and
    `victim` never fails and names a way `< assoc`. -/
structure PolicyOK {σ : Type} (P : PolicyOps σ) (assoc : Nat) (ok : σ → Prop) : Prop where
  init   : ok (P.init assoc)
  access : ∀ s i, ok s → i < assoc → ∃ s', P.access s i = some s' ∧ ok s'
  victim : ∀ s, ok s → ∃ v, P.victim s = some v ∧ v < assoc

/-- Accessing the same way twice in a row is the same as accessing it once. -/
def PolicyIdem {σ : Type} (P : PolicyOps σ) (ok : σ → Prop) : Prop :=
  ∀ s s' i, ok s → P.access s i = some s' → P.access s' i = some s'

/-! ### `findWay` and `findTag` -/

theorem findIdx_map {α β : Type} (f : α → β) (p : β → Bool) (l : List α) :
    (l.map f).findIdx p = l.findIdx (fun a => p (f a)) := by
  induction l with
  | nil => rfl
  | cons a l ih => simp [List.findIdx_cons, ih]

theorem eraseWay_beq {α : Type} (w : Way α) (t : Nat) :
    (eraseWay w == some t) = (w.valid && w.tag == t) := by
  unfold eraseWay
  cases w.valid <;> simp

theorem findWay_eq_findTag {α : Type} (ways : List (Way α)) (t : Nat) :
    findWay ways t = findTag (ways.map eraseWay) t := by
  unfold findWay findTag
  simp only [findIdx_map, eraseWay_beq, List.length_map]

theorem findWay_lt {α : Type} {ways : List (Way α)} {t i : Nat} (h : findWay ways t = some i) :
    i < ways.length := by
  unfold findWay at h
  simp only at h
  split at h
  · cases h; assumption
  · cases h

/-- The way found holds the tag (erased view). -/
theorem findWay_tag {α : Type} {ways : List (Way α)} {t i : Nat} (h : findWay ways t = some i) :
    (ways.map eraseWay)[i]? = some (some t) := by
  unfold findWay at h
  simp only at h
  split at h
  · rename_i hlt
    cases h
    have := List.findIdx_getElem (w := hlt)
    rw [← eraseWay_beq] at this
    rw [List.getElem?_map, List.getElem?_eq_getElem hlt]
    simpa using this
  · cases h

/-- Ways before the one found do not hold the tag. -/
theorem findWay_before {α : Type} {ways : List (Way α)} {t i : Nat} (h : findWay ways t = some i)
    (j : Nat) (hj : j < i) : (ways.map eraseWay)[j]? ≠ some (some t) := by
  unfold findWay at h
  simp only at h
  split at h
  · rename_i hlt
    cases h
    have hjl : j < ways.length := by omega
    have := List.not_of_lt_findIdx hj
    rw [← eraseWay_beq] at this
    rw [List.getElem?_map, List.getElem?_eq_getElem hjl]
    simpa using this
  · cases h

theorem findWay_none {α : Type} {ways : List (Way α)} {t : Nat} (h : findWay ways t = none)
    (j : Nat) : (ways.map eraseWay)[j]? ≠ some (some t) := by
  unfold findWay at h
  simp only at h
  split at h
  · cases h
  · rename_i hge
    intro hj
    have hjl : j < ways.length := by
      have := (List.getElem?_eq_some_iff.mp hj).1
      simpa using this
    have hall := List.findIdx_eq_length.mp (Nat.le_antisymm List.findIdx_le_length (Nat.le_of_not_lt hge))
    rw [List.getElem?_map, List.getElem?_eq_getElem hjl] at hj
    have h1 := hall ways[j] (List.getElem_mem hjl)
    rw [← eraseWay_beq] at h1
    simp at hj
    simp [hj] at h1

/-- `findWay` from its characterisation: way `i` holds the tag and no earlier way does. -/
theorem findWay_of_first {α : Type} {ways : List (Way α)} {t i : Nat}
    (hi : (ways.map eraseWay)[i]? = some (some t))
    (hb : ∀ j, j < i → (ways.map eraseWay)[j]? ≠ some (some t)) : findWay ways t = some i := by
  have hil : i < ways.length := by
    have := (List.getElem?_eq_some_iff.mp hi).1
    simpa using this
  cases h : findWay ways t with
  | none => exact absurd hi (findWay_none h i)
  | some k =>
    have hk := findWay_tag h
    have hkb := findWay_before h
    rcases Nat.lt_trichotomy k i with hlt | heq | hgt
    · exact absurd hk (hb k hlt)
    · rw [heq]
    · exact absurd hi (hkb i hgt)

/-! ### Model set array: `readBlock` / `writeBlock` case by case -/

section Blocks
variable {σ α : Type} {P : PolicyOps σ} {sets : List (CSet σ α)} {d : DAddr} {cs : CSet σ α}

/-- The way `writeBlock` stores. -/
def newWay (d : DAddr) (vals : List α) : Way α :=
  { valid := true, dirty := true, tag := d.tag, base := d.blockBase, vals := vals }

theorem set_self {β : Type} {l : List β} {i : Nat} {a : β} (h : l[i]? = some a) : l.set i a = l := by
  obtain ⟨hi, rfl⟩ := List.getElem?_eq_some_iff.mp h
  exact List.set_getElem_self hi

theorem readBlock_miss (hs : sets[d.setIdx]? = some cs) (hf : findWay cs.ways d.tag = none) :
    readBlock P sets d = .ok (sets, none) := by
  simp only [readBlock, hs, CSet.read, hf, set_self hs]

theorem readBlock_hit {i : Nat} {p : σ} (hs : sets[d.setIdx]? = some cs)
    (hf : findWay cs.ways d.tag = some i) (ha : P.access cs.pol i = some p) :
    readBlock P sets d =
      .ok (sets.set d.setIdx { cs with pol := p }, some ((cs.ways[i]?.map (·.vals)).getD [])) := by
  simp only [readBlock, hs, CSet.read, hf, ha]

theorem writeBlock_miss {v : Nat} {p : σ} {old : Way α} (vals : List α)
    (hs : sets[d.setIdx]? = some cs) (hf : findWay cs.ways d.tag = none)
    (hv : P.victim cs.pol = some v) (ho : cs.ways[v]? = some old) (ha : P.access cs.pol v = some p) :
    writeBlock P sets d vals =
      .ok (sets.set d.setIdx { ways := cs.ways.set v (newWay d vals), pol := p }, false,
           if old.dirty then some (old.base, old.vals) else none) := by
  simp only [writeBlock, hs, CSet.write, hf, hv, ho, ha, newWay]

theorem writeBlock_hit {i : Nat} {p : σ} (vals : List α)
    (hs : sets[d.setIdx]? = some cs) (hf : findWay cs.ways d.tag = some i)
    (ha : P.access cs.pol i = some p) :
    writeBlock P sets d vals =
      .ok (sets.set d.setIdx { ways := cs.ways.set i (newWay d vals), pol := p }, true, none) := by
  simp only [writeBlock, hs, CSet.write, hf, ha, newWay]

/-! ### Erasure of the results -/

theorem erase_sets_get (hs : sets[d.setIdx]? = some cs) :
    (sets.map eraseSet)[d.setIdx]? = some (eraseSet cs) := by
  simp [List.getElem?_map, hs]

theorem eraseWay_newWay (vals : List α) : eraseWay (newWay d vals) = some d.tag := rfl

/-- Reference lookup = erasure of the model's read hit. -/
theorem lookupSets_hit {i : Nat} {p : σ} (alloc : Bool) (hs : sets[d.setIdx]? = some cs)
    (hf : findWay cs.ways d.tag = some i) (ha : P.access cs.pol i = some p) :
    lookupSets P (sets.map eraseSet) d alloc =
      ((sets.set d.setIdx { cs with pol := p }).map eraseSet, true) := by
  have hft : findTag (eraseSet cs).tags d.tag = some i := by
    rw [← hf, findWay_eq_findTag]; rfl
  simp only [lookupSets, erase_sets_get hs, TSet.lookup, hft, touch, List.map_set]
  simp [eraseSet, ha]

/-- Reference lookup = erasure of the model's hit followed by a rewrite of the same block
    (`readBlock` then `writeBlock`, which informs the policy a second time). -/
theorem lookupSets_hit_rewrite {i : Nat} {p : σ} (alloc : Bool) (vals : List α)
    (hs : sets[d.setIdx]? = some cs)
    (hf : findWay cs.ways d.tag = some i) (ha : P.access cs.pol i = some p) :
    lookupSets P (sets.map eraseSet) d alloc =
      ((sets.set d.setIdx { ways := cs.ways.set i (newWay d vals), pol := p }).map eraseSet, true) := by
  rw [lookupSets_hit alloc hs hf ha]
  simp only [List.map_set, eraseSet, List.map_set, eraseWay_newWay, set_self (findWay_tag hf)]

/-- Reference lookup with allocation = erasure of the model's miss + fill. -/
theorem lookupSets_miss_alloc {v : Nat} {p : σ} (vals : List α) (hs : sets[d.setIdx]? = some cs)
    (hf : findWay cs.ways d.tag = none) (hv : P.victim cs.pol = some v)
    (ha : P.access cs.pol v = some p) :
    lookupSets P (sets.map eraseSet) d true =
      ((sets.set d.setIdx { ways := cs.ways.set v (newWay d vals), pol := p }).map eraseSet, false) := by
  have hft : findTag (eraseSet cs).tags d.tag = none := by
    rw [← hf, findWay_eq_findTag]; rfl
  simp only [lookupSets, erase_sets_get hs, TSet.lookup, hft, touch, victimOf, List.map_set, if_true]
  simp [eraseSet, ha, hv, List.map_set, eraseWay_newWay]

/-- Reference lookup without allocation = nothing changes on a miss. -/
theorem lookupSets_miss_noalloc (hs : sets[d.setIdx]? = some cs)
    (hf : findWay cs.ways d.tag = none) :
    lookupSets P (sets.map eraseSet) d false = (sets.map eraseSet, false) := by
  have hft : findTag (eraseSet cs).tags d.tag = none := by
    rw [← hf, findWay_eq_findTag]; rfl
  simp only [lookupSets, erase_sets_get hs, TSet.lookup, hft, Bool.false_eq_true, if_false,
    set_self (erase_sets_get hs)]

end Blocks

/-! ### Address decoding -/

theorem wrap32_lt (a : Int) : wrap32 a < 4294967296 := by
  unfold wrap32; omega

theorem decode_setIdx_lt (ib bb : Nat) (a : Int) : (decode ib bb a).setIdx < 2 ^ ib := by
  simp only [decode]
  exact Nat.mod_lt _ (Nat.two_pow_pos _)

end ArchSim.Lemmas.C09
