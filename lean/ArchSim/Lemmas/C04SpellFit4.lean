/-
C04 (spelling independence, part 2): every spelling of an instruction line, with or without an in-line label, with
the size limit on numbers only for the decimal style.
-/
import ArchSim.Lemmas.C04SpellFit3

namespace ArchSim.Lemmas.C04Spell
open ArchSim ArchSim.PP ArchSim.Rv ArchSim.Asm ArchSim.Lemmas.C14

/-- what the spelling theorem needs of an instruction and a spelling: register numbers below 32, not `fence`, and
    each number fits the style it is written in (only decimal has a limit: 4300 digits) -/
def SpellableF (sp : Spelling) (i : Instr) : Prop :=
  i.rd < 32 ∧ i.rs1 < 32 ∧ i.rs2 < 32 ∧ NumFits sp.imm i.imm ∧ NumFits sp.imm i.aux ∧
    NumFits sp.csrNum i.aux ∧ i.op ≠ .fence

theorem numFits_of_small (st : NumStyle) (v : Int) (h : v.natAbs < 10 ^ 4300) : NumFits st v := by
  cases st <;> first | exact h | trivial

theorem spellableF_of_spellable (sp : Spelling) (i : Instr) (h : Spellable i) : SpellableF sp i :=
  ⟨h.1, h.2.1, h.2.2.1, numFits_of_small _ _ h.2.2.2.1, numFits_of_small _ _ h.2.2.2.2.1,
    numFits_of_small _ _ h.2.2.2.2.1, h.2.2.2.2.2⟩

theorem body_render_fits (sp : Spelling) (i : Instr) (hs : SpellableF sp i) :
    pInstrBody (mn i.op ++ operands sp i (blanks sp.trail)) = .ok (itemOf i) (blanks sp.trail) ∧
      LineSep (operands sp i (blanks sp.trail)) := by
  obtain ⟨hrd, hrs1, hrs2, himm, hauxI, hauxC, hf⟩ := hs
  have hg := allWs_gapOf sp
  have hgne := gapOf_ne_nil sp
  have b1 := allWs_blanks sp.c1a
  have b2 := allWs_blanks sp.c1b
  have b3 := allWs_blanks sp.c2a
  have b4 := allWs_blanks sp.c2b
  have p1 := allWs_blanks sp.pa
  have p2 := allWs_blanks sp.pb
  have p3 := allWs_blanks sp.pc
  have htr := allWs_blanks sp.trail
  cases hcl : cls i.op with
  | r =>
    simp only [operands, itemOf, hcl]
    exact ⟨bodyS_R _ _ _ _ _ _ hg hgne b1 b2 b3 b4 htr i.op hcl _ _ _ hrd hrs1 hrs2 _ _ _,
      lineSep_tReg _ _ _ _ hg hgne hrd⟩
  | imm3 =>
    simp only [operands, itemOf, hcl]
    exact ⟨bodyF_I _ _ _ _ _ _ hg hgne b1 b2 b3 b4 htr i.op hcl _ _ _ hrd hrs1 _ _ _ himm,
      lineSep_tReg _ _ _ _ hg hgne hrd⟩
  | jalr =>
    simp only [operands, itemOf, hcl]
    rw [cls_jalr_eq _ hcl]
    exact ⟨bodyF_jalr _ _ _ _ _ _ hg hgne b1 b2 b3 b4 htr _ _ _ hrd hrs1 _ _ _ himm,
      lineSep_tReg _ _ _ _ hg hgne hrd⟩
  | load =>
    simp only [operands, itemOf, hcl]
    exact ⟨bodyF_load _ _ _ _ _ _ hg hgne b1 b2 p1 p2 _ p3 i.op hcl _ _ _ hrd hrs1 _ _ _ himm,
      lineSep_tReg _ _ _ _ hg hgne hrd⟩
  | store =>
    simp only [operands, itemOf, hcl]
    exact ⟨bodyF_store _ _ _ _ _ _ hg hgne b1 b2 p1 p2 _ p3 i.op hcl _ _ _ hrs2 hrs1 _ _ _ himm,
      lineSep_tReg _ _ _ _ hg hgne hrs2⟩
  | b =>
    simp only [operands, itemOf, hcl]
    exact ⟨bodyF_B _ _ _ _ _ _ hg hgne b1 b2 b3 b4 htr i.op hcl _ _ _ hrs1 hrs2 _ _ _ himm,
      lineSep_tReg _ _ _ _ hg hgne hrs1⟩
  | u =>
    simp only [operands, itemOf, hcl]
    exact ⟨bodyF_U _ _ _ _ hg hgne b1 b2 htr i.op hcl _ _ hrd _ _ himm, lineSep_tReg _ _ _ _ hg hgne hrd⟩
  | jal =>
    simp only [operands, itemOf, hcl]
    rw [cls_jal_eq _ hcl]
    exact ⟨bodyF_J _ _ _ _ hg hgne b1 b2 htr _ _ hrd _ _ hauxI, lineSep_tReg _ _ _ _ hg hgne hrd⟩
  | ecall =>
    simp only [operands, itemOf, hcl]
    exact ⟨bodyS_env _ htr i.op (Or.inl hcl), lineSep_allWs _ htr⟩
  | ebreak =>
    simp only [operands, itemOf, hcl]
    exact ⟨bodyS_env _ htr i.op (Or.inr hcl), lineSep_allWs _ htr⟩
  | csr =>
    simp only [operands, itemOf, hcl]
    exact ⟨bodyF_CSR _ _ _ _ _ _ hg hgne b1 b2 b3 b4 htr i.op hcl _ _ _ hrd hrs1 _ _ _ hauxC,
      lineSep_tReg _ _ _ _ hg hgne hrd⟩
  | csri =>
    simp only [operands, itemOf, hcl]
    exact ⟨bodyF_CSRI _ _ _ _ _ _ hg hgne b1 b2 b3 b4 htr i.op hcl _ _ _ hrd _ _ _ hauxC himm,
      lineSep_tReg _ _ _ _ hg hgne hrd⟩
  | fence => exact absurd (cls_fence_eq _ hcl) hf

/-- Every spelling of the instruction `i`, with or without an in-line label in front. -/
theorem parseLine_render_fits (p : LinePre) (hp : p.Ok) (sp : Spelling) (i : Instr) (hs : SpellableF sp i) :
    parseLine (p.txt (recase sp.mnCase (mn i.op) ++ operands sp i (blanks sp.trail)))
      = some { lbl := p.lbl, item := itemOf i } := by
  obtain ⟨hb, hsep⟩ := body_render_fits sp i hs
  exact parseLine_pre_word p hp i.op.mnemonic (mnemonic_mem _) sp.mnCase _ hsep _ _ (allWs_blanks _)
    (by rw [operands_append]; simp only [List.length_append]; omega) hb

end ArchSim.Lemmas.C04Spell
