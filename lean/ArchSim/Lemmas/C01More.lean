/-
C01 helper lemmas, part 10: what the reference `readStr` denotes (the bytes up to the first NUL), and
the exit code is set only by the two exit services.
-/
import ArchSim.Lemmas.C01Extra
namespace ArchSim.Lemmas.C01
open ArchSim ArchSim.Rv ArchSim.Spec.RvSpec ArchSim.Mem ArchSim.Cache

/-- The characters of the `k` bytes starting at `a`. -/
def strChars (mem : Word → Byte) (a k : Nat) : List Char :=
  (List.range k).map (fun j => Char.ofNat ((mem (BitVec.ofNat 32 (a + j))).toNat % 128))

theorem strChars_succ (mem : Word → Byte) (a k : Nat) :
    strChars mem a (k + 1) = Char.ofNat ((mem (BitVec.ofNat 32 a)).toNat % 128) :: strChars mem (a + 1) k := by
  simp only [strChars, List.range_succ_eq_map, List.map_cons, List.map_map, Nat.add_zero]
  congr 1
  apply List.map_congr_left
  intro j _
  simp only [Function.comp, Nat.succ_eq_add_one]
  rw [show a + (j + 1) = a + 1 + j by omega]

/-- `readStr` succeeds with `cs` iff there is a first zero byte at `a + k`, all of `a .. a + k` are
    mapped addresses, and `cs` are the `k` bytes before it, each taken modulo 128. -/
theorem readStr_ok_iff (mem : Word → Byte) (a : Nat) (cs : List Char) :
    readStr mem a = .ok cs ↔
      ∃ k, dataBase ≤ a ∧ a + k < 4294967296 ∧ (∀ j, j < k → mem (BitVec.ofNat 32 (a + j)) ≠ 0) ∧
        mem (BitVec.ofNat 32 (a + k)) = 0 ∧ cs = strChars mem a k := by
  induction hn : 4294967296 - a using Nat.strongRecOn generalizing a cs with
  | _ n ih =>
    rw [readStr]
    by_cases hbad : a < dataBase ∨ 4294967296 ≤ a
    · rw [dif_pos hbad]
      constructor
      · intro h; cases h
      · rintro ⟨k, h1, h2, _⟩; omega
    · rw [dif_neg hbad]
      simp only []
      by_cases hz : mem (BitVec.ofNat 32 a) = 0
      · rw [if_pos hz]
        constructor
        · intro h; cases h
          exact ⟨0, by omega, by omega, fun j hj => by omega, hz, rfl⟩
        · rintro ⟨k, _, _, h3, _, h5⟩
          cases k with
          | zero => rw [h5]; rfl
          | succ k => exact absurd hz (h3 0 (by omega))
      · rw [if_neg hz]
        have ih' := fun cs' => ih (4294967296 - (a + 1)) (by omega) (a + 1) cs' rfl
        constructor
        · intro h
          cases hr : readStr mem (a + 1) with
          | error f => rw [hr] at h; cases h
          | ok cs' =>
            rw [hr] at h; cases h
            obtain ⟨k, h1, h2, h3, h4, h5⟩ := (ih' cs').mp hr
            refine ⟨k + 1, by omega, by omega, ?_, ?_, ?_⟩
            · intro j hj
              cases j with
              | zero => exact hz
              | succ j => rw [show a + (j + 1) = a + 1 + j by omega]; exact h3 j (by omega)
            · rw [show a + (k + 1) = a + 1 + k by omega]; exact h4
            · rw [strChars_succ, h5]
        · rintro ⟨k, h1, h2, h3, h4, h5⟩
          cases k with
          | zero => exact absurd h4 hz
          | succ k =>
            have : readStr mem (a + 1) = .ok (strChars mem (a + 1) k) :=
              (ih' _).mpr ⟨k, by omega, by omega,
                fun j hj => by rw [show a + 1 + j = a + (j + 1) by omega]; exact h3 (j + 1) (by omega),
                by rw [show a + 1 + k = a + (k + 1) by omega]; exact h4, rfl⟩
            rw [this, h5, strChars_succ]


/-- `readStr` faults iff the scan reaches an unmapped address `a + k` (below the data base, or off the
    top of the address space) before any zero byte; the fault reports that address (modulo 2^32). -/
theorem readStr_error_iff (mem : Word → Byte) (a : Nat) (f : SpecFault) :
    readStr mem a = .error f ↔
      ∃ k, (∀ j, j < k → dataBase ≤ a + j ∧ a + j < 4294967296 ∧ mem (BitVec.ofNat 32 (a + j)) ≠ 0) ∧
        (a + k < dataBase ∨ 4294967296 ≤ a + k) ∧ f = .access (BitVec.ofNat 32 (a + k)) := by
  induction hn : 4294967296 - a using Nat.strongRecOn generalizing a f with
  | _ n ih =>
    rw [readStr]
    by_cases hbad : a < dataBase ∨ 4294967296 ≤ a
    · rw [dif_pos hbad]
      constructor
      · intro h; cases h
        exact ⟨0, fun j hj => by omega, hbad, rfl⟩
      · rintro ⟨k, h1, h2, h3⟩
        cases k with
        | zero => rw [h3]; rfl
        | succ k => have := h1 0 (by omega); omega
    · rw [dif_neg hbad]
      simp only []
      by_cases hz : mem (BitVec.ofNat 32 a) = 0
      · rw [if_pos hz]
        constructor
        · intro h; cases h
        · rintro ⟨k, h1, h2, _⟩
          cases k with
          | zero => omega
          | succ k => exact absurd hz (h1 0 (by omega)).2.2
      · rw [if_neg hz]
        have ih' := fun f' => ih (4294967296 - (a + 1)) (by omega) (a + 1) f' rfl
        constructor
        · intro h
          cases hr : readStr mem (a + 1) with
          | ok cs' => rw [hr] at h; cases h
          | error f' =>
            rw [hr] at h; cases h
            obtain ⟨k, h1, h2, h3⟩ := (ih' f).mp hr
            refine ⟨k + 1, ?_, by omega, by rw [h3]; congr 2; omega⟩
            intro j hj
            cases j with
            | zero => exact ⟨by omega, by omega, hz⟩
            | succ j => rw [show a + (j + 1) = a + 1 + j by omega]; exact h1 j (by omega)
        · rintro ⟨k, h1, h2, h3⟩
          cases k with
          | zero => omega
          | succ k =>
            have : readStr mem (a + 1) = .error f :=
              (ih' f).mpr ⟨k, fun j hj => by rw [show a + 1 + j = a + (j + 1) by omega]; exact h1 (j + 1) (by omega),
                by omega, by rw [h3]; congr 2; omega⟩
            rw [this]


/-! ### the exit code is set only by the two exit services -/

theorem processEcall_exit (s : St) (c : Int) (h : (processEcall s).2 = .exit c) :
    (s.regs 17 = 10 ∧ c = 0) ∨ (s.regs 17 = 93 ∧ c = (s.regs 10 : Int)) := by
  revert h
  simp only [processEcall]
  repeat' split
  all_goals (intro h; first
    | (cases h; done)
    | (cases h; left; exact ⟨by assumption, rfl⟩)
    | (cases h; right; exact ⟨by assumption, rfl⟩))

theorem behavior_exit (i : Instr) (s : St) :
    (behavior i s).st.exitCode = s.exitCode ∨
      (i.op = .ecall ∧ ((s.regs 17 = 10 ∧ (behavior i s).st.exitCode = some 0) ∨
        (s.regs 17 = 93 ∧ (behavior i s).st.exitCode = some (s.regs 10 : Int)))) := by
  by_cases hop : i.op = .ecall
  · have hb : behavior i s = match processEcall s with
        | (m, .out str) => { st := { s with mem := m, output := s.output ++ str }, fault := none }
        | (m, .exit c) => { st := { s with mem := m, exitCode := some c }, fault := none }
        | (m, .err e) => { st := { s with mem := m }, fault := some (.mem e) }
        | (m, .invalid c) => { st := { s with mem := m }, fault := some (.ecallCode c) } := by
      simp only [behavior, hop, Op.ty]
      rfl
    rw [hb]
    rcases hp : processEcall s with ⟨m, r⟩
    cases r with
    | out t => left; rfl
    | err e => left; rfl
    | invalid c => left; rfl
    | exit c =>
      right
      refine ⟨hop, ?_⟩
      have := processEcall_exit s c (by rw [hp])
      rcases this with ⟨h1, rfl⟩ | ⟨h1, rfl⟩
      · left; exact ⟨h1, rfl⟩
      · right; exact ⟨h1, rfl⟩
  · left
    unfold behavior
    simp only []
    repeat' split
    all_goals first | rfl | (rename_i h; exact absurd h hop)

end ArchSim.Lemmas.C01
