/-
C12 (memory table, program level), part 9: `MRelT` along the print-string loop, `process_ecall`,
`behavior()`, one single-cycle step and single-cycle runs (same route as `Lemmas/C03ProgStep.lean`,
which supplies the equality of the values read on both sides).
-/
import ArchSim.Lemmas.C12ProgRel

namespace ArchSim.Lemmas.C12Prog
open ArchSim ArchSim.Cache ArchSim.Mem ArchSim.Rv ArchSim.Spec.CacheAbs ArchSim.Spec.TagCache
open ArchSim.Lemmas.C03 ArchSim.Lemmas.C03Prog ArchSim.Lemmas.C02Split

/-- If the print-string loop succeeds on the flat memory, the cache side keeps `MRelT` with the
    (unchanged) flat memory. -/
theorem printStr_relT {w : Bool} : ∀ (fuel : Nat) (mc mf : MemSys) (a : Int) (acc cs : List Char), MRelT w mc mf →
    (printStrLoop fuel mf a acc).2 = .ok cs → MRelT w (printStrLoop fuel mc a acc).1 mf
  | 0, _, _, _, _, _, _, h => by simp [printStrLoop] at h
  | fuel + 1, mc, mf, a, acc, cs, hr, h => by
    have hin : inData a := by
      obtain ⟨l, s, m, rfl, rfl, hrep, _⟩ := hr
      cases hres : ((MemSys.flat m).read 8 a false).res with
      | error e => simp [printStrLoop, hres] at h
      | ok b => exact flat_read_ok_inData hrep.memOK (Or.inl rfl) hres
    obtain ⟨b, h1, h2, _⟩ := hr.toMRel.read (accepted_byte hin) false false
    have h3 := hr.read (accepted_byte hin) false
    simp only [printStrLoop, h1, h2] at h ⊢
    by_cases hb : b = 0
    · simp only [hb, if_true] at h ⊢
      exact h3
    · simp only [hb, if_false] at h ⊢
      exact printStr_relT fuel _ mf (a + 1) _ cs h3 h

/-- `process_ecall` on related states keeps `MRelT` (the flat memory is unchanged, C03Prog). -/
theorem processEcall_relT {w : Bool} {sc sf : St} (h : CacheRel sc sf) (ht : MRelT w sc.mem sf.mem)
    (hp : sf.regs 17 = 4 → PrintOK sf.mem (sf.regs 10)) : MRelT w (processEcall sc).1 sf.mem := by
  have hr := h.regs
  by_cases h4 : sf.regs 17 = 4
  · obtain ⟨cs, hcs⟩ := hp h4
    obtain ⟨p1, _, _⟩ := printStr_rel _ _ _ _ _ cs h.mem hcs
    have p3 := printStr_relT _ _ _ _ _ cs ht hcs
    rw [processEcall_print sc (by rw [hr]; exact h4) cs (by rw [hr]; exact p1), hr]
    exact p3
  · rw [processEcall_other sc (by rw [hr]; exact h4)]
    exact ht

/-- `behavior()` on related states with accepted accesses keeps `MRelT`. -/
theorem behavior_relT {w : Bool} (i : Instr) {sc sf : St} (h : CacheRel sc sf) (ht : MRelT w sc.mem sf.mem)
    (hacc : AccessOK i sf) : MRelT w (behavior i sc).st.mem (behavior i sf).st.mem := by
  obtain ⟨hL, hS, hE⟩ := hacc
  have hE' := processEcall_relT h ht
  obtain ⟨mf, c, st, fl, rfl⟩ : ∃ mf c st fl, sf =
      { sc with mem := mf, cycles := c, stalls := st, flushes := fl } := ⟨_, _, _, _, h.canon⟩
  have hm : MRel sc.mem mf := h.mem
  have hmt : MRelT w sc.mem mf := ht
  by_cases h1 : i.op.ty = .memI
  · obtain ⟨v, r1, r2, _⟩ := hm.read (hL h1) true true
    have r3 := hmt.read (hL h1) true
    simp only [behavior, h1, r1, r2]
    exact r3
  by_cases h2 : i.op.ty = .s
  · have hv : sc.regs i.rs2 % 2 ^ accessBits i.op < 2 ^ accessBits i.op :=
      Nat.mod_lt _ (Nat.two_pow_pos _)
    obtain ⟨r1, r2, _⟩ := hm.write (hS h2) hv
    have r3 := hmt.write (hS h2) hv
    simp only [behavior, h2, r1, r2]
    exact r3
  by_cases h3 : i.op = .ecall
  · obtain ⟨p1, p2, _⟩ := processEcall_rel h (hE h3)
    have p3 := hE' (hE h3)
    have hj : Op.ecall ≠ Op.jalr := by decide
    simp only [behavior, h3, hj, if_false, if_true]
    rcases hc : processEcall sc with ⟨mc', rc⟩
    rcases hf : processEcall { sc with mem := mf, cycles := c, stalls := st, flushes := fl } with ⟨mf', rf⟩
    rw [hc, hf] at p1
    rw [hf] at p2
    rw [hc] at p3
    simp only at p1 p2 p3
    subst p1 p2
    cases rc <;> exact p3
  · rw [behavior_frame i sc mf c st fl h1 h2 h3]
    show MRelT w (behavior i sc).st.mem mf
    rw [behavior_mem_other i sc h1 h2 h3]
    exact hmt

/-- The part of a single-cycle step after the fetch keeps `MRelT` (for a load the display re-read is
    one more accepted, uncounted read through the cache). -/
theorem singleTail_relT {w : Bool} (i : Instr) {sc sf : St} (h : CacheRel sc sf) (ht : MRelT w sc.mem sf.mem)
    (hacc : AccessOK i sf) : MRelT w (singleTail i sc).st.mem (singleTail i sf).st.mem := by
  obtain ⟨hf, hb⟩ := behavior_rel i h hacc
  have hbt := behavior_relT i h ht hacc
  by_cases hty : i.op.ty = .memI
  · have hA := hacc.1 hty
    have hr := h.regs
    obtain ⟨v, r1, r2, _⟩ := h.mem.read hA true true
    have fc : (behavior i sc).fault = none := behavior_load_nofault i sc hty v (by rw [hr]; exact r1)
    have ff : (behavior i sf).fault = none := behavior_load_nofault i sf hty v (by rw [r2])
    have hA' : Accepted (accessBits i.op) ((sc.regs i.rs1 : Int) + i.imm) := by rw [hr]; exact hA
    obtain ⟨v', q1, q2, _⟩ := hb.mem.read (accepted_wrapU hA') false false
    have q3 := hbt.read (accepted_wrapU hA') false
    have mc := memoryAccess_load_ok i hty _ none _ false v' q1
    have mf := memoryAccess_load_ok i hty _ none _ false v' (by rw [q2])
    have hq : ((behavior i sf).st.mem.read (accessBits i.op) ((wrapU (sf.regs i.rs1 : Int) : Int) + i.imm)
        false).mem = (behavior i sf).st.mem := by rw [← hr, q2]
    rw [← hq] at q3
    rw [hr] at mf
    rw [singleTail_load i sc hty fc _ _ mc rfl, singleTail_load i sf hty ff _ _ mf rfl]
    rw [hr] at q3 ⊢
    exact q3
  · rw [singleTail_nonLoad i sc hty, singleTail_nonLoad i sf hty, ← hf]
    cases hfc : (behavior i sc).fault with
    | some ft => exact hbt
    | none => exact hbt

/-- One single-cycle step on related states with accepted accesses keeps `MRelT`. -/
theorem singleStep_relT {w : Bool} {sc sf : St} (h : CacheRel sc sf) (ht : MRelT w sc.mem sf.mem)
    (hacc : StepAccepted sf) : MRelT w (singleStep sc).st.mem (singleStep sf).st.mem := by
  have hi' : sc.imem.instrAt sc.pc = sf.imem.instrAt sf.pc := by rw [h.imem, h.pc]
  have hf' : (sc.imem.fetch sc.pc).res = (sf.imem.fetch sf.pc).res := by rw [h.imem, h.pc]
  rw [singleStep_unfold sc, singleStep_unfold sf, hi', hf']
  cases hi : sf.imem.instrAt sf.pc with
  | none => exact ht
  | some j =>
    simp only
    cases hf : (sf.imem.fetch sf.pc).res with
    | error e => exact ht
    | ok oi =>
      cases oi with
      | none => exact ht
      | some i =>
        exact singleTail_relT i h.afterFetch ht (accessOK_afterFetch (hacc i (fetched_some hi hf)))

/-- Any number of single-cycle steps. -/
theorem singleRun_relT {w : Bool} {sc sf : St} (h : CacheRel sc sf) (ht : MRelT w sc.mem sf.mem) :
    ∀ n, (∀ j, j < n → StepAccepted (singleRun j sf)) → MRelT w (singleRun n sc).mem (singleRun n sf).mem
  | 0, _ => ht
  | n + 1, hacc => by
    obtain ⟨ih, _⟩ := singleRun_rel h n (fun j hj => hacc j (by omega))
    have iht := singleRun_relT h ht n (fun j hj => hacc j (by omega))
    exact singleStep_relT ih iht (hacc n (by omega))

end ArchSim.Lemmas.C12Prog
