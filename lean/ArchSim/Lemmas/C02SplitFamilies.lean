/-
C02 (data path), part 3: normal forms of `splitStep` / `singleStep` on a fetched instruction, the
flat-memory facts, and one agreement lemma per instruction family.
Core Lean only (plus the C18 wrap-alias lemma).
-/
import ArchSim.Lemmas.C02SplitStages
import ArchSim.Lemmas.C02SplitArith
import ArchSim.Lemmas.C18Read

namespace ArchSim.Lemmas.C02Split
open ArchSim ArchSim.Rv ArchSim.Pipe

/-! ### Flat memory -/

/-- Result of a read of the flat memory system. -/
def flatRead (m : Mem.Mem) (bits : Nat) (a : Int) : Except Cache.Err Nat :=
  match Mem.read m bits a with
  | none => .error .unsupported
  | some r => Cache.liftMem r

theorem read_flat (m : Mem.Mem) (bits : Nat) (a : Int) (c : Bool) :
    (MemSys.flat m).read bits a c = { mem := .flat m, res := flatRead m bits a, extra := 0 } := by
  simp only [MemSys.read, flatRead]
  split <;> simp_all

theorem flatRead_lt (m : Mem.Mem) (bits : Nat) (a : Int) (v : Nat) (h : flatRead m bits a = .ok v) :
    v < 2 ^ bits := by
  unfold flatRead Mem.read at h
  split at h
  · cases h
  · rename_i r hr
    split at hr
    · cases hr
    · simp only [Option.some.injEq] at hr
      subst hr
      cases hrn : Mem.readN m a (Mem.cellsOf m.cfg bits) with
      | error e => simp [hrn, Except.map, Cache.liftMem] at h
      | ok w =>
        simp only [hrn, Except.map, Cache.liftMem, Except.ok.injEq] at h
        subst h
        exact Nat.mod_lt _ (Nat.pos_of_ne_zero (by simp))

theorem write_flat_direct (m : Mem.Mem) (bits : Nat) (a : Int) (v : Nat) (d : Bool) :
    (MemSys.flat m).write bits a v d = (MemSys.flat m).write bits a v false := rfl

theorem write_flat_extra (m : Mem.Mem) (bits : Nat) (a : Int) (v : Nat) (d : Bool) :
    ((MemSys.flat m).write bits a v d).extra = 0 := by
  simp only [MemSys.write]
  split <;> rfl

/-- C18's wrap alias for the flat memory system: a store at `a + k * 2^32` is the store at `a`
    (same memory afterwards, same error). -/
theorem write_flat_alias (m : Mem.Mem) (hov : m.cfg.overflow = true) (hab : m.cfg.addrBits = 32)
    (bits : Nat) (a k : Int) (v : Nat) (d : Bool) :
    (MemSys.flat m).write bits (a + k * 4294967296) v d = (MemSys.flat m).write bits a v d := by
  have h := ArchSim.Lemmas.C18.writeNFrom_alias m hov a k (Mem.cellsOf m.cfg bits) 0 v
  rw [hab] at h
  have h32 : ((2 : Int) ^ 32) = 4294967296 := by decide
  rw [h32] at h
  simp only [MemSys.write, Mem.write, Mem.writeN, h]

/-! ### `process_ecall` reads only the registers and the memory -/

theorem processEcall_congr (s t : St) (h1 : s.regs = t.regs) (h2 : s.mem = t.mem) :
    processEcall s = processEcall t := by
  simp only [processEcall, h1, h2]

/-! ### Normal forms after the fetch -/

/-- State after `cycles += 1` and a successful IF. -/
def sIF (s : St) : St := { s with cycles := s.cycles + 1, pc := s.pc + 4 }
/-- State of single-cycle mode when `behavior()` is called. -/
def sSingle (s : St) : St := { s with cycles := s.cycles + 1, instrs := s.instrs + 1 }

/-- The ID/EX register of instruction `i` at address `a` whose operands were read from `regs`
    (general position: any address, any register file). -/
def dAt (i : Instr) (a : Int) (regs : Nat → Nat) : Latch :=
  { instr := i, addr := a, pc4 := a + 4, rr := accessRegs i regs, wreg := writeReg i }

/-- Single-cycle mode about to run `behavior()` of the instruction at address `a` in state `t`
    (pc at the instruction, instruction already counted). -/
def sAt (t : St) (a : Int) : St := { t with pc := a, instrs := t.instrs + 1 }

/-- The ID/EX register of instruction `i` fetched at `s.pc` with nothing in flight. -/
def dOf (i : Instr) (s : St) : Latch := dAt i s.pc s.regs

theorem sAt_sIF (s : St) : sAt (sIF s) s.pc = sSingle s := rfl

theorem fetch_uncached (im : IMem) (pc : Int) (i : Instr) (hic : im.cache = none)
    (hi : im.instrAt pc = some i) (h0 : 0 ≤ pc) (h1 : pc < 16384) :
    im.fetch pc = { imem := im, res := .ok (some i), extra := 0 } := by
  simp [IMem.fetch, hic, hi, h0, h1]

theorem ifStage_eq (s : St) (i : Instr) (hic : s.imem.cache = none) (hi : s.imem.instrAt s.pc = some i)
    (h0 : 0 ≤ s.pc) (h1 : s.pc < 16384) :
    ifStage { s with cycles := s.cycles + 1 } =
      (sIF s, some { instr := i, addr := s.pc, pc4 := s.pc + 4 }) := by
  simp [ifStage, hi, fetch_uncached s.imem s.pc i hic hi h0 h1, sIF]

theorem splitStep_eq (s : St) (i : Instr) (hic : s.imem.cache = none) (hi : s.imem.instrAt s.pc = some i)
    (h0 : 0 ≤ s.pc) (h1 : s.pc < 16384) :
    splitStep s = completeIDEX (some (dOf i s)) (sIF s) := by
  rw [splitStep_eq_complete, ifStage_eq s i hic hi h0 h1]
  simp only [idStage_some, idLatch, idStall_off, dOf, dAt, sIF]

/-- The part of `singleStep` after the fetch (verbatim). -/
def singleTail (i : Instr) (s2 : St) : Rv.StepOut :=
  let addr := s2.pc
  let rr := accessRegs i s2.regs
  let b := behavior i s2
  match b.fault with
  | some ft => { st := b.st, fault := some (addr, ft) }
  | none =>
    let s3 : St × Option Fault :=
      if i.op.ty = .memI then
        let la : Option Int := match rr.d1, rr.imm with
          | some d, some im => some ((wrapU d : Int) + im)
          | _, _ => none
        match memoryAccess i la none b.st.mem false with
        | none => (b.st, some (.mem .policy))
        | some o =>
          let st' := { b.st with mem := o.mem, cycles := b.st.cycles + o.extra }
          match o.res with
          | .error e => (st', some (.mem e))
          | .ok _ => (st', none)
      else (b.st, none)
    match s3 with
    | (st', some ft) => { st := st', fault := some (addr, ft) }
    | (st', none) => { st := { st' with pc := (st'.pc + 4) % 4294967296 }, fault := none }

theorem singleStep_eq (s : St) (i : Instr) (hic : s.imem.cache = none) (hi : s.imem.instrAt s.pc = some i)
    (h0 : 0 ≤ s.pc) (h1 : s.pc < 16384) :
    singleStep s = singleTail i (sSingle s) := by
  simp only [singleStep, hi, fetch_uncached s.imem s.pc i hic hi h0 h1, Nat.add_zero]
  rfl

/-- `singleTail` for everything but a load. -/
theorem singleTail_nonLoad (i : Instr) (s2 : St) (h : i.op.ty ≠ .memI) :
    singleTail i s2 =
      match (behavior i s2).fault with
      | some ft => { st := (behavior i s2).st, fault := some (s2.pc, ft) }
      | none => { st := { (behavior i s2).st with pc := ((behavior i s2).st.pc + 4) % 4294967296 },
                  fault := none } := by
  simp only [singleTail, h, if_false]

/-! ### The split path from the EX/MEM register on -/

theorem firstFlush_mid (x : Option Int) : firstFlush none x none = x := by cases x <;> rfl

theorem memSt_id (s : St) : memSt s { mem := s.mem, extra := 0, res := .ok none } = s := rfl

/-- MEM and WB after a successful memory access `o` (or none at all). -/
theorem completeEXMEM_ok (x : Latch) (s : St) (o : MaOut) (rd : Option Int)
    (hma : memoryAccess x.instr x.result x.rr.d2 s.mem true = some o) (hres : o.res = .ok rd) :
    completeEXMEM (some x) s =
      { st := applyTarget (wbSt (memLatch x rd) (memCount x (memSt s o)))
                (firstFlush (wbLatch (memLatch x rd)).flush (memFlush x) x.flush),
        fault := none } := by
  simp only [completeEXMEM, memStage_some s x o rd hma hres, completeMEMWB_some, latchFlush]
  rfl

/-- MEM raised. -/
theorem completeEXMEM_err (x : Latch) (s : St) (o : MaOut) (e : Cache.Err)
    (hma : memoryAccess x.instr x.result x.rr.d2 s.mem true = some o) (hres : o.res = .error e) :
    completeEXMEM (some x) s =
      { st := { memSt s o with pc := x.addr }, fault := some (x.addr, .mem e) } := by
  simp only [completeEXMEM, memStage_error s x o e hma hres]

/-- EX, MEM, WB of a non-ecall instruction whose memory access (if any) succeeds. -/
theorem completeIDEX_ok (d : Latch) (s : St) (cmp : Option Bool) (result : Option Int) (o : MaOut)
    (rd : Option Int) (hop : d.instr.op ≠ .ecall)
    (halu : aluCompute d.instr (aluIn1 d) (aluIn2 d) = some (cmp, result))
    (hma : memoryAccess d.instr result d.rr.d2 s.mem true = some o) (hres : o.res = .ok rd) :
    completeIDEX (some d) s =
      { st := applyTarget (wbSt (memLatch (exBase d cmp result) rd) (memCount (exBase d cmp result) (memSt s o)))
                (memFlush (exBase d cmp result)),
        fault := none } := by
  simp only [completeIDEX, exStage_nonEcall s d none none cmp result hop halu]
  rw [completeEXMEM_ok (exBase d cmp result) s o rd hma hres]
  congr 2
  exact firstFlush_mid _

/-- EX, MEM of a non-ecall instruction whose memory access raises. -/
theorem completeIDEX_err (d : Latch) (s : St) (cmp : Option Bool) (result : Option Int) (o : MaOut)
    (e : Cache.Err) (hop : d.instr.op ≠ .ecall)
    (halu : aluCompute d.instr (aluIn1 d) (aluIn2 d) = some (cmp, result))
    (hma : memoryAccess d.instr result d.rr.d2 s.mem true = some o) (hres : o.res = .error e) :
    completeIDEX (some d) s = { st := { memSt s o with pc := d.addr }, fault := some (d.addr, .mem e) } := by
  simp only [completeIDEX, exStage_nonEcall s d none none cmp result hop halu]
  rw [completeEXMEM_err (exBase d cmp result) s o e hma hres]
  rfl

/-- EX, MEM, WB of a non-ecall, non-load, non-store instruction. -/
theorem completeIDEX_noMem (d : Latch) (s : St) (cmp : Option Bool) (result : Option Int)
    (hop : d.instr.op ≠ .ecall) (halu : aluCompute d.instr (aluIn1 d) (aluIn2 d) = some (cmp, result))
    (hm1 : d.instr.op.ty ≠ .memI) (hm2 : d.instr.op.ty ≠ .s) :
    completeIDEX (some d) s =
      { st := applyTarget (wbSt (memLatch (exBase d cmp result) none) (memCount (exBase d cmp result) s))
                (memFlush (exBase d cmp result)),
        fault := none } := by
  rw [completeIDEX_ok d s cmp result _ none hop halu (memoryAccess_other d.instr hm1 hm2 _ _ _ _) rfl, memSt_id]

/-! ### Agreement of two step results -/

/-- Same fault; without a fault the same state; with a fault the same state except that single-cycle
    mode has already counted the instruction (`n` = the count before the step). -/
def Agree (n : Nat) (A B : Rv.StepOut) : Prop :=
  A.fault = B.fault ∧ (B.fault = none → A.st = B.st) ∧ (B.fault ≠ none → A.st = { B.st with instrs := n })

theorem Agree.of_eq {n : Nat} {A B : Rv.StepOut} (h : A = B) (hf : B.fault = none) : Agree n A B := by
  subst h; exact ⟨rfl, fun _ => rfl, fun h => absurd hf h⟩

/-- General position. `A` = completion of an instruction at address `a` from a state whose pc is `p`
    (anything: in the pipeline the fetch pc is far ahead), `B` = single-cycle mode on the same state
    with the pc at `a`. Same fault; with a fault the same state except the instruction count (both pcs
    are `a`); without a fault EITHER the two states are equal (the instruction redirected the pc:
    taken branch, jal, jalr, exiting ecall) OR they are equal except for the pc, which the completion
    did not touch (`p`) and single-cycle mode advanced to `a + 4`. -/
def AgreeAt (n : Nat) (p a : Int) (A B : Rv.StepOut) : Prop :=
  A.fault = B.fault ∧
  (B.fault = none → A.st = B.st ∨ (A.st = { B.st with pc := p } ∧ B.st.pc = a + 4)) ∧
  (B.fault ≠ none → A.st = { B.st with instrs := n })

theorem AgreeAt.jump {n : Nat} {p a : Int} {A B : Rv.StepOut} (hB : B.fault = none) (hA : A.fault = none)
    (h : A.st = B.st) : AgreeAt n p a A B :=
  ⟨by rw [hA, hB], fun _ => Or.inl h, fun h => absurd hB h⟩

theorem AgreeAt.seq {n : Nat} {p a : Int} {A B : Rv.StepOut} (hB : B.fault = none) (hA : A.fault = none)
    (h : A.st = { B.st with pc := p }) (hpc : B.st.pc = a + 4) : AgreeAt n p a A B :=
  ⟨by rw [hA, hB], fun _ => Or.inr ⟨h, hpc⟩, fun h => absurd hB h⟩

/-- Back to the step: when the completion started from the state right after IF (`p = a + 4`). -/
theorem AgreeAt.toAgree {n : Nat} {a : Int} {A B : Rv.StepOut} (h : AgreeAt n (a + 4) a A B) : Agree n A B := by
  refine ⟨h.1, fun hf => ?_, h.2.2⟩
  rcases h.2.1 hf with h1 | ⟨h1, h2⟩
  · exact h1
  · rw [h1, ← h2]

end ArchSim.Lemmas.C02Split
