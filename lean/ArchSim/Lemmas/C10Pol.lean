/-
Cache-facing facts about replacement policies (C10, imported by the cache proofs):
a well-formedness predicate `Pol.WF assoc` that every reachable policy state satisfies, and the
facts that under it `access` / `victim` never fail, stay in range, and `access` is idempotent.
-/
import ArchSim.Model.Repl
import ArchSim.Spec.LruAge
import ArchSim.Spec.PlruTree
import ArchSim.Lemmas.C10Lru
import ArchSim.Lemmas.C10Plru

namespace ArchSim.Repl
open ArchSim.Spec.Lru ArchSim.Spec.Plru ArchSim.Lemmas.C10

/-- Well-formed policy state for a set of `assoc` ways.
    LRU: the order list is a permutation of `0 … assoc-1`.
    PLRU: `assoc = 2^depth` and the bit list has `assoc - 1` entries. -/
def Pol.WF (assoc : Nat) : Pol → Prop
  | .lru l  => l.Perm (List.range assoc)
  | .plru p => p.assoc = assoc ∧ assoc = 2 ^ p.depth ∧ p.tree.length = assoc - 1

instance (assoc : Nat) (p : Pol) : Decidable (Pol.WF assoc p) := by
  cases p <;> unfold Pol.WF <;> infer_instance

theorem Pol.WF_plru_iff {assoc : Nat} {p : Plru} :
    Pol.WF assoc (.plru p) ↔ assoc = 2 ^ p.depth ∧ PlruWF p.depth p := by
  unfold Pol.WF PlruWF
  constructor
  · rintro ⟨h1, h2, h3⟩; exact ⟨h2, rfl, h1.trans h2, h2 ▸ h3⟩
  · rintro ⟨h1, _, h2, h3⟩; exact ⟨h2.trans h1.symm, h1, h1 ▸ h3⟩

/-! ### Initial states -/

theorem Pol.WF_init_lru (assoc : Nat) : Pol.WF assoc (Pol.init true assoc) := by
  simp [Pol.init, Pol.WF, lruInit]

theorem Pol.WF_init_plru (d : Nat) : Pol.WF (2 ^ d) (Pol.init false (2 ^ d)) := by
  have h : (plruInit (2 ^ d)).depth = d := log2_two_pow d
  simp only [Pol.init, Bool.false_eq_true, if_false]
  exact ⟨rfl, by rw [h], by simp [plruInit]⟩

/-- Every policy the cache constructs is well formed (PLRU requires a power-of-two associativity,
    as the Python constructor asserts). -/
theorem Pol.WF_init (isLru : Bool) (assoc : Nat) (h : isLru = false → ∃ d, assoc = 2 ^ d) :
    Pol.WF assoc (Pol.init isLru assoc) := by
  cases isLru with
  | true => exact Pol.WF_init_lru assoc
  | false => obtain ⟨d, rfl⟩ := h rfl; exact Pol.WF_init_plru d

/-! ### `access` -/

/-- `access` with an in-range way never fails and preserves well-formedness. -/
theorem Pol.WF.access {assoc : Nat} {p : Pol} (hp : Pol.WF assoc p) {i : Nat} (hi : i < assoc) :
    ∃ p', p.access i = some p' ∧ Pol.WF assoc p' := by
  cases p with
  | lru l =>
    obtain ⟨l', h1, h2⟩ := lruAccess_perm (show l.Perm (List.range assoc) from hp) hi
    exact ⟨.lru l', by simp [Pol.access, h1], h2⟩
  | plru q =>
    obtain ⟨ha, hw⟩ := Pol.WF_plru_iff.mp hp
    have hi' : i < 2 ^ q.depth := ha ▸ hi
    refine ⟨.plru { q with tree := accessTD q.depth 0 i q.tree }, ?_, ?_⟩
    · simp [Pol.access, plruAccess_eq hw hi']
    · have hw' := plruAccess_wf hw hi' (plruAccess_eq hw hi')
      exact Pol.WF_plru_iff.mpr ⟨ha, hw'⟩

/-- Any successful `access` preserves well-formedness (no range hypothesis needed). -/
theorem Pol.WF.of_access {assoc : Nat} {p p' : Pol} (hp : Pol.WF assoc p) {i : Nat}
    (h : p.access i = some p') : Pol.WF assoc p' := by
  cases p with
  | lru l =>
    simp only [Pol.access, lruAccess] at h
    split at h
    · rename_i hm
      have hi : i < assoc := List.mem_range.mp ((show l.Perm (List.range assoc) from hp).mem_iff.mp hm)
      obtain ⟨q, h1, h2⟩ := Pol.WF.access hp hi
      simp only [Pol.access, lruAccess, hm, if_true] at h1
      rw [h] at h1; cases h1; exact h2
    · cases h
  | plru q =>
    simp only [Pol.access, plruAccess] at h
    cases hl : plruAccessLoop q.depth q.tree (i + q.assoc - 1) with
    | none => rw [hl] at h; cases h
    | some t =>
      rw [hl] at h; cases h
      obtain ⟨h1, h2, h3⟩ := hp
      refine ⟨h1, h2, ?_⟩
      have hlen : ∀ (d : Nat) (t t' : List Bool) (j : Nat),
          plruAccessLoop d t j = some t' → t'.length = t.length := by
        intro d
        induction d with
        | zero => intro t t' j e; cases e; rfl
        | succ d ih =>
          intro t t' j e
          simp only [plruAccessLoop, plruAccessStep] at e
          split at e
          · cases e
          · rename_i a b c heq
            split at heq
            · cases heq
            · split at heq
              · cases heq; simpa using ih _ _ _ e
              · cases heq
      simpa [hlen _ _ _ _ hl] using h3

/-- A successful PLRU access of a well-formed state of depth ≥ 1 has an in-range way. -/
theorem plruAccess_lt_of_some {d : Nat} {p p' : Plru} (hp : PlruWF (d + 1) p) {i : Nat}
    (h : plruAccess p i = some p') : i < 2 ^ (d + 1) := by
  obtain ⟨h1, h2, h3⟩ := hp
  apply Classical.byContradiction
  intro hge
  have hpos := two_pow_pos' (d + 1)
  have : plruAccessStep p.tree (i + p.assoc - 1) = none := by
    unfold plruAccessStep
    rw [if_neg (by omega)]
    simp only
    rw [if_neg (by omega)]
  simp [plruAccess, h1, plruAccessLoop, this] at h

/-- Accessing the same way twice in a row = accessing it once. -/
theorem Pol.WF.access_idem {assoc : Nat} {p p' : Pol} (hp : Pol.WF assoc p) {i : Nat}
    (h : p.access i = some p') : p'.access i = some p' := by
  cases p with
  | lru l =>
    have hnd : l.Nodup := (show l.Perm (List.range assoc) from hp).nodup_iff.mpr List.nodup_range
    simp only [Pol.access] at h
    cases hl : lruAccess l i with
    | none => rw [hl] at h; cases h
    | some l' =>
      rw [hl] at h; cases h
      simp [Pol.access, lruAccess_idem hnd hl]
  | plru q =>
    obtain ⟨ha, hw⟩ := Pol.WF_plru_iff.mp hp
    simp only [Pol.access] at h
    cases hl : plruAccess q i with
    | none => rw [hl] at h; cases h
    | some q' =>
      rw [hl] at h; cases h
      cases hd : q.depth with
      | zero =>
        simp only [plruAccess, hd, plruAccessLoop] at hl; cases hl
        simp [Pol.access, plruAccess, plruAccessLoop]
      | succ d =>
        have hi : i < 2 ^ q.depth := by
          rw [hd]; exact plruAccess_lt_of_some (hd ▸ hw) hl
        have hw' := plruAccess_wf hw hi hl
        rw [plruAccess_eq hw hi] at hl
        cases hl
        simp only [Pol.access, plruAccess_eq hw' hi, accessTD_idem, Option.map_some]

/-! ### `victim` -/

/-- `victim` of a well-formed state never fails and is a way of the set. -/
theorem Pol.WF.victim {assoc : Nat} {p : Pol} (hp : Pol.WF assoc p) (ha : 0 < assoc) :
    ∃ v, p.victim = some v ∧ v < assoc := by
  cases p with
  | lru l =>
    have hp' : l.Perm (List.range assoc) := hp
    cases l with
    | nil => have := hp'.length_eq; simp at this; omega
    | cons v l =>
      refine ⟨v, rfl, ?_⟩
      exact List.mem_range.mp (hp'.mem_iff.mp (by simp))
  | plru q =>
    obtain ⟨he, hw⟩ := Pol.WF_plru_iff.mp hp
    exact ⟨_, plruVictim_eq hw, he ▸ victimT_lt _⟩

/-- For associativity ≥ 2 the way just accessed is never the next victim (LRU and PLRU alike). -/
theorem Pol.WF.victim_access_ne {assoc : Nat} {p p' : Pol} (hp : Pol.WF assoc p) (ha : 2 ≤ assoc)
    {i : Nat} (hi : i < assoc) (h : p.access i = some p') : p'.victim ≠ some i := by
  cases p with
  | lru l =>
    have hp' : l.Perm (List.range assoc) := hp
    have hnd : l.Nodup := hp'.nodup_iff.mpr List.nodup_range
    have hm : i ∈ l := hp'.mem_iff.mpr (List.mem_range.mpr hi)
    simp only [Pol.access, lruAccess, hm, if_true, Option.map_some, Option.some.injEq] at h
    subst h
    simp only [Pol.victim, lruVictim]
    have hlen : (l.erase i).length = assoc - 1 := by
      rw [List.length_erase_of_mem hm, hp'.length_eq]; simp
    cases he : l.erase i with
    | nil => rw [he] at hlen; simp at hlen; omega
    | cons v r =>
      simp only [List.cons_append, List.head?_cons, ne_eq, Option.some.injEq]
      intro hv
      have : v ∈ l.erase i := by rw [he]; simp
      exact ((List.Nodup.mem_erase_iff hnd).mp this).1 hv
  | plru q =>
    obtain ⟨he, hw⟩ := Pol.WF_plru_iff.mp hp
    have hi' : i < 2 ^ q.depth := he ▸ hi
    simp only [Pol.access] at h
    cases hl : plruAccess q i with
    | none => rw [hl] at h; cases h
    | some q' =>
      rw [hl] at h; cases h
      have hw' := plruAccess_wf hw hi' hl
      have habs := absTree_plruAccess hw hi' hl
      simp only [Pol.victim, plruVictim_eq hw', habs, ne_eq, Option.some.injEq]
      refine victimT_accessT_ne ?_ _ i
      apply Nat.pos_of_ne_zero
      intro hd
      rw [hd] at he; simp at he; omega

end ArchSim.Repl
