/-
C04 helper lemmas (back end), part 5: an in-line label in front of an instruction that expands to several
entries is bound ONCE, at the first entry of the group; the remaining entries of the line bind nothing
(no spurious `DuplicateLabelException`).
-/
import ArchSim.Lemmas.C04Labels

namespace ArchSim.Lemmas.C04
open ArchSim ArchSim.Asm ArchSim.Rv

/-- all entries of `g` belong to source line `k` and are instruction entries (not stand-alone labels) -/
def lineGroup (k : Nat) (g : List TEntry) : Prop := ∀ e ∈ g, e.1 = k ∧ isLabel e.2.2 = false

theorem find_filter_self (pending : List (Nat × String)) (k : Nat) :
    (pending.filter (fun p => p.1 != k)).find? (fun p => p.1 == k) = none := by
  rw [List.find?_eq_none]
  intro x hx
  simp only [List.mem_filter, bne_iff_ne, ne_eq] at hx
  simp [hx.2]

/-- entries of a line for which nothing is pending only advance the address -/
theorem processLabels_skip (k : Nat) (g rest : List TEntry) (pending : List (Nat × String)) (ls : Labels)
    (addr : Int) (hg : lineGroup k g) (hp : pending.find? (fun p => p.1 == k) = none) :
    processLabels (g ++ rest) pending ls addr = processLabels rest pending ls (addr + 4 * (countE g : Int)) := by
  induction g generalizing addr with
  | nil => simp [countE_nil]
  | cons e g' ih =>
    obtain ⟨k1, line, it⟩ := e
    have he := hg (k1, line, it) (List.mem_cons_self ..)
    simp only at he
    obtain ⟨rfl, hl⟩ := he
    rw [List.cons_append, processLabels_cons_other k1 line it _ pending ls addr hl, hp]
    simp only
    rw [ih _ (fun e he => hg e (List.mem_cons_of_mem _ he)), countE_cons, stepAddr_eq]
    congr 1
    simp only [Int.natCast_add]
    omega

/-- The group of a line with a pending in-line label: the label is bound at the group's first address,
    the pending entry is consumed, and the rest of the group only advances the address. -/
theorem processLabels_group (k : Nat) (g rest : List TEntry) (hne : g ≠ []) (pending : List (Nat × String))
    (ls : Labels) (addr : Int) (hg : lineGroup k g) (k0 : Nat) (l : String)
    (hp : pending.find? (fun p => p.1 == k) = some (k0, l)) :
    processLabels (g ++ rest) pending ls addr =
      match addLabel ls l addr k (g.head hne).2.1 with
      | .error e => .error e
      | .ok ls' => processLabels rest (pending.filter (fun p => p.1 != k)) ls' (addr + 4 * (countE g : Int)) := by
  cases g with
  | nil => exact absurd rfl hne
  | cons e g' =>
    obtain ⟨k1, line, it⟩ := e
    have he := hg (k1, line, it) (List.mem_cons_self ..)
    simp only at he
    obtain ⟨rfl, hl⟩ := he
    rw [List.cons_append, processLabels_cons_other k1 line it _ pending ls addr hl, hp]
    simp only [List.head_cons]
    cases addLabel ls l addr k1 line with
    | error x => rfl
    | ok ls' =>
      simp only
      rw [processLabels_skip k1 g' rest _ ls' _ (fun e he => hg e (List.mem_cons_of_mem _ he))
        (find_filter_self pending k1), countE_cons, stepAddr_eq]
      congr 1
      simp only [Int.natCast_add]
      omega

end ArchSim.Lemmas.C04
