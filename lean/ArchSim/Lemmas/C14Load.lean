/-
C14 helper lemmas, part 7: `load` on the listing of a canonical program. `splitLines`/`sanitize` give
back the printed lines, every line is tokenized as a label-free instruction entry, the segment /
pseudo-instruction / label passes leave such entries alone, and `buildInstrs` rebuilds the program.
-/
import ArchSim.Lemmas.C14Listing

namespace ArchSim.Lemmas.C14
open ArchSim ArchSim.PP ArchSim.Rv ArchSim.Asm

/-! ### `splitLines` on lines joined by "\n" -/

def NoBreak (l : List Char) : Prop := ∀ c ∈ l, isLineBreak c = false

theorem splitLines_go_line (l rest cur : List Char) (acc : List (List Char)) (hl : NoBreak l) :
    splitLines.go (l ++ rest) false cur acc = splitLines.go rest false (l.reverse ++ cur) acc := by
  induction l generalizing cur with
  | nil => rfl
  | cons c cs ih =>
    have hc : isLineBreak c = false := hl c (by simp)
    have hn : c ≠ '\n' := by rintro rfl; exact absurd hc (by decide)
    simp only [List.cons_append, splitLines.go, hc, Bool.and_false, Bool.false_eq_true, if_false]
    rw [ih (c :: cur) (fun d hd => hl d (by simp [hd]))]
    simp

theorem splitLines_go_nl (rest cur : List Char) (acc : List (List Char)) :
    splitLines.go ('\n' :: rest) false cur acc = splitLines.go rest false [] (cur.reverse :: acc) := by
  simp [splitLines.go, isLineBreak]

theorem splitLines_go_join (ls : List (List Char)) (acc : List (List Char))
    (hnb : ∀ l ∈ ls, NoBreak l) (hne : ∀ l ∈ ls, l ≠ []) :
    splitLines.go (['\n'].intercalate ls) false [] acc = acc.reverse ++ ls := by
  induction ls generalizing acc with
  | nil => simp [splitLines.go]
  | cons l ls ih =>
    cases ls with
    | nil =>
      have h := splitLines_go_line l [] [] acc (hnb l (by simp))
      simp only [List.append_nil] at h
      have hl : l ≠ [] := hne l (by simp)
      simp [h, splitLines.go, hl]
    | cons l' ls' =>
      rw [List.intercalate_cons_cons, List.append_assoc, splitLines_go_line _ _ _ _ (hnb l (by simp))]
      simp only [List.singleton_append, List.append_nil, splitLines_go_nl, List.reverse_reverse]
      rw [ih (l :: acc) (fun x hx => hnb x (by simp [hx])) (fun x hx => hne x (by simp [hx]))]
      simp

theorem splitLines_join (ls : List (List Char)) (hnb : ∀ l ∈ ls, NoBreak l) (hne : ∀ l ∈ ls, l ≠ []) :
    splitLines (['\n'].intercalate ls) = ls := by
  unfold splitLines
  simpa using splitLines_go_join ls [] hnb hne

/-! ### `sanitize` on printed lines -/

theorem lineOk_noBreak (l : List Char) (h : LineOk l) : NoBreak l := by
  intro c hc
  exact (okc_facts c (List.all_eq_true.mp h.chars c hc)).1

theorem pyStrip_lineOk (l : List Char) (h : LineOk l) : pyStrip l = l := by
  have hsp : ∀ c ∈ l, c ≠ ' ' → pyIsSpace c = false :=
    fun c hc => (okc_facts c (List.all_eq_true.mp h.chars c hc)).2.2
  have h1 : l.dropWhile pyIsSpace = l := by
    cases l with
    | nil => rfl
    | cons a as =>
      have := hsp a (by simp) (h.head a (by simp))
      simp [this]
  have h2 : l.reverse.dropWhile pyIsSpace = l.reverse := by
    cases hr : l.reverse with
    | nil => rfl
    | cons a as =>
      have hlast : l.getLast? = some a := by
        rw [← List.head?_reverse, hr]; rfl
      have hmem : a ∈ l := List.mem_of_getLast? hlast
      have := hsp a hmem (h.last a hlast)
      simp [this]
  simp [pyStrip, h1, h2]

theorem takeWhile_all (p : Char → Bool) (l : List Char) (h : ∀ c ∈ l, p c = true) : l.takeWhile p = l := by
  induction l with
  | nil => rfl
  | cons a l ih =>
    simp only [List.takeWhile_cons, h a (by simp), if_true]
    rw [ih (fun c hc => h c (by simp [hc]))]

theorem noHash_lineOk (l : List Char) (h : LineOk l) : l.takeWhile (· != '#') = l := by
  apply takeWhile_all
  intro c hc
  have := (okc_facts c (List.all_eq_true.mp h.chars c hc)).2.1
  simp [this]

theorem head_ne_hash (l : List Char) (h : LineOk l) : l.head? ≠ some '#' := by
  intro hh
  have hm : '#' ∈ l := List.mem_of_head? hh
  exact (okc_facts '#' (List.all_eq_true.mp h.chars _ hm)).2.1 rfl

/-- `sanitize` of the joined listing: numbered lines whose texts are the printed lines. -/
theorem sanitize_join (ss : List String) (h : ∀ s ∈ ss, LineOk s.toList) :
    ((sanitize (String.intercalate "\n" ss)).map (·.2)) = ss.map String.toList := by
  have hls : splitLines (String.intercalate "\n" ss).toList = ss.map String.toList := by
    rw [String.toList_intercalate]
    apply splitLines_join
    · intro l hl
      obtain ⟨s, hs, rfl⟩ := List.mem_map.mp hl
      exact lineOk_noBreak _ (h s hs)
    · intro l hl
      obtain ⟨s, hs, rfl⟩ := List.mem_map.mp hl
      exact (h s hs).ne
  unfold sanitize
  simp only [hls]
  generalize hL : ss.map String.toList = L
  have hok : ∀ l ∈ L, LineOk l := by
    intro l hl
    rw [← hL] at hl
    obtain ⟨s, hs, rfl⟩ := List.mem_map.mp hl
    exact h s hs
  have hmem : ∀ p ∈ ((List.range L.length).zip L).map (fun (k, l) => (k + 1, l)), LineOk p.2 := by
    intro p hp
    obtain ⟨⟨k, l⟩, hkl, rfl⟩ := List.mem_map.mp hp
    exact hok l (List.of_mem_zip hkl).2
  rw [List.filter_eq_self.mpr]
  · rw [List.map_map]
    have : (((List.range L.length).zip L).map (fun (k, l) => (k + 1, l))).map
        ((fun x => x.2) ∘ fun (x : Nat × List Char) => (x.1, pyStrip (List.takeWhile (fun x => x != '#') x.2)))
        = (((List.range L.length).zip L).map (fun (k, l) => (k + 1, l))).map (·.2) := by
      apply List.map_congr_left
      intro p hp
      have := hmem p hp
      simp [noHash_lineOk _ this, pyStrip_lineOk _ this]
    rw [this, List.map_map]
    have : ((fun x : Nat × List Char => x.2) ∘ fun (x : Nat × List Char) => (x.1 + 1, x.2)) = Prod.snd := by
      funext x; rfl
    rw [this]
    exact List.map_snd_zip (by simp)
  · intro p hp
    have := hmem p hp
    simp [pyStrip_lineOk _ this, this.ne, head_ne_hash _ this]

/-! ### entries of a canonical program -/

/-- `es` are label-free entries from which `buildInstrs` rebuilds `is` at consecutive addresses. -/
def Good : Int → List Entry → List Instr → Prop
  | _, [], [] => True
  | addr, e :: es, i :: is => e.2.2.lbl = none ∧ ItemBuilds addr e.2.2.item i ∧ Good (addr + 4) es is
  | _, _, _ => False

/-- A program of canonical, non-`fence` instructions at consecutive addresses starting at `addr`. -/
def CanonFrom : Int → List Instr → Prop
  | _, [] => True
  | addr, i :: is => i.Canon addr ∧ i.op ≠ .fence ∧ CanonFrom (addr + 4) is

theorem canonFrom_of_forall (prog : List Instr) (addr : Int)
    (h : ∀ k (hk : k < prog.length), prog[k].Canon (addr + 4 * k) ∧ prog[k].op ≠ .fence) :
    CanonFrom addr prog := by
  induction prog generalizing addr with
  | nil => trivial
  | cons i is ih =>
    refine ⟨?_, (h 0 (by simp)).2, ih (addr + 4) ?_⟩
    · have := (h 0 (by simp)).1
      simp only [List.getElem_cons_zero, Int.natCast_zero, Int.mul_zero, Int.add_zero] at this
      exact this
    · intro k hk
      have := h (k + 1) (by simp; omega)
      simp only [List.getElem_cons_succ] at this
      have e : addr + 4 + 4 * (k : Int) = addr + 4 * ((k + 1 : Nat) : Int) := by
        push_cast; omega
      rw [e]; exact this

theorem tokenize_good (nl : List (Nat × List Char)) (prog : List Instr) (addr : Int)
    (hl : nl.map (·.2) = prog.map (fun i => i.repr.toList)) (hc : CanonFrom addr prog) :
    ∃ es, tokenize nl = .ok es ∧ Good addr es prog := by
  induction nl generalizing prog addr with
  | nil =>
    cases prog with
    | nil => exact ⟨[], rfl, trivial⟩
    | cons i is => simp at hl
  | cons p nl ih =>
    cases prog with
    | nil => simp at hl
    | cons i is =>
      obtain ⟨k, l⟩ := p
      simp only [List.map_cons, List.cons.injEq] at hl
      obtain ⟨hl1, hl2⟩ := hl
      obtain ⟨hci, hf, hcs⟩ := hc
      obtain ⟨it, hp, hb⟩ := roundtrip_core i addr hci hf
      obtain ⟨es, hes, hg⟩ := ih is (addr + 4) hl2 hcs
      refine ⟨(k, String.ofList l, { lbl := none, item := it }) :: es, ?_, rfl, hb, hg⟩
      simp only [tokenize, hl1, hp, hes]

/-! ### the passes on good entries -/

theorem itemBuilds_not_directive {addr : Int} {it : Item} {i : Instr} (h : ItemBuilds addr it i) (d : String) :
    (it == Item.directive d) = false := by
  rcases h with ⟨_, rfl, _⟩ | ⟨_, rfl, _⟩ | ⟨_, _, pi, rfl, _⟩ <;> simp

theorem good_not_dir {addr : Int} {es : List Entry} {is : List Instr} (h : Good addr es is) (d : String) :
    ∀ e ∈ es, isDir d e = false := by
  induction es generalizing addr is with
  | nil => simp
  | cons e es ih =>
    cases is with
    | nil => exact absurd h (by simp [Good])
    | cons i is =>
      obtain ⟨_, hb, hg⟩ := h
      intro e' he'
      rcases List.mem_cons.mp he' with rfl | he'
      · simp [isDir, itemBuilds_not_directive hb]
      · exact ih hg e' he'

theorem foldl_fixed {α β : Type} (f : β → α → β) (x : β) (l : List α) (h : ∀ e ∈ l, f x e = x) :
    l.foldl f x = x := by
  induction l with
  | nil => rfl
  | cons a l ih =>
    simp only [List.foldl_cons, h a (by simp)]
    exact ih (fun e he => h e (by simp [he]))

theorem segment_good {addr : Int} {es : List Entry} {is : List Instr} (h : Good addr es is) :
    segment es = .ok ([], es) := by
  cases es with
  | nil => rfl
  | cons e es =>
    have hd := good_not_dir h "data"
    have ht := good_not_dir h "text"
    unfold segment
    simp only [hd e (by simp), ht e (by simp), Bool.false_eq_true, if_false]
    rw [foldl_fixed]
    intro e' he'
    simp only [hd e' (by simp [he']), ht e' (by simp [he']), Bool.false_eq_true, if_false]

theorem pending_good {addr : Int} {es : List Entry} {is : List Instr} (h : Good addr es is) :
    (es.filterMap fun (k, _, t) => t.lbl.map fun l => (k, l)) = [] := by
  induction es generalizing addr is with
  | nil => rfl
  | cons e es ih =>
    cases is with
    | nil => exact absurd h (by simp [Good])
    | cons i is =>
      obtain ⟨hl, _, hg⟩ := h
      obtain ⟨k, line, t⟩ := e
      simp only at hl
      simp [hl, ih hg]

/-- the text entries of `load` -/
def tentriesOf (es : List Entry) : List TEntry := es.map fun (k, line, t) => (k, line, t.item)

theorem expandOne_builds (vars : Vars) (k : Nat) (line : String) {addr : Int} {it : Item} {i : Instr}
    (h : ItemBuilds addr it i) : expandOne vars (k, line, it) = .ok [(k, line, it)] := by
  rcases h with ⟨_, rfl, _⟩ | ⟨_, rfl, _⟩ | ⟨_, _, pi, rfl, hi⟩
  · rfl
  · rfl
  · have := hi [] 0 ""
    cases pi <;> first | rfl | simp [instantiate] at this

theorem expandAll_good (vars : Vars) {addr : Int} {es : List Entry} {is : List Instr} (h : Good addr es is) :
    expandAll vars (tentriesOf es) = .ok (tentriesOf es) := by
  induction es generalizing addr is with
  | nil => rfl
  | cons e es ih =>
    cases is with
    | nil => exact absurd h (by simp [Good])
    | cons i is =>
      obtain ⟨_, hb, hg⟩ := h
      obtain ⟨k, line, t⟩ := e
      simp only [tentriesOf, List.map_cons, expandAll, expandOne_builds vars k line hb]
      have := ih hg
      simp only [tentriesOf] at this
      simp [this]

theorem processLabels_good {addr : Int} {es : List Entry} {is : List Instr} (h : Good addr es is)
    (ls : Labels) (a : Int) : processLabels (tentriesOf es) [] ls a = .ok ls := by
  induction es generalizing addr is a with
  | nil => rfl
  | cons e es ih =>
    cases is with
    | nil => exact absurd h (by simp [Good])
    | cons i is =>
      obtain ⟨_, hb, hg⟩ := h
      obtain ⟨k, line, t⟩ := e
      simp only at hb
      have ih' := fun a => ih hg a
      simp only [tentriesOf] at ih'
      rcases hb with ⟨_, hit, _⟩ | ⟨_, hit, _⟩ | ⟨_, _, pi, hit, _⟩
      · simp [tentriesOf, hit, processLabels, ih']
      · simp [tentriesOf, hit, processLabels, ih']
      · simp [tentriesOf, hit, processLabels, ih']

theorem buildInstrs_good {addr : Int} {es : List Entry} {is : List Instr} (h : Good addr es is)
    (ls : Labels) : buildInstrs ls (tentriesOf es) addr = .ok is := by
  induction es generalizing addr is with
  | nil =>
    cases is with
    | nil => rfl
    | cons i is => exact absurd h (by simp [Good])
  | cons e es ih =>
    cases is with
    | nil => exact absurd h (by simp [Good])
    | cons i is =>
      obtain ⟨_, hb, hg⟩ := h
      obtain ⟨k, line, t⟩ := e
      simp only at hb
      have ih' := ih hg
      simp only [tentriesOf] at ih'
      rcases hb with ⟨_, hit, hi⟩ | ⟨_, hit, hi⟩ | ⟨_, _, pi, hit, hi⟩
      · simp [tentriesOf, hit, buildInstrs, ih', hi, Except.map]
      · simp [tentriesOf, hit, buildInstrs, ih', hi, Except.map]
      · simp [tentriesOf, hit, buildInstrs, ih', hi ls k line, Except.map]

theorem good_length {addr : Int} {es : List Entry} {is : List Instr} (h : Good addr es is) :
    es.length = is.length := by
  induction es generalizing addr is with
  | nil =>
    cases is with
    | nil => rfl
    | cons i is => exact absurd h (by simp [Good])
  | cons e es ih =>
    cases is with
    | nil => exact absurd h (by simp [Good])
    | cons i is => simp [ih h.2.2]

/-- `load` on a text whose sanitized lines are the printed forms of a canonical program. -/
theorem load_of_lines (s : St) (text : String) (prog : List Instr)
    (hl : (sanitize text).map (·.2) = prog.map (fun i => i.repr.toList))
    (hc : CanonFrom 0 prog) (hlen : prog.length ≤ 4096) :
    (load s text).err = none ∧ (load s text).st.imem.prog = prog := by
  obtain ⟨es, hes, hg⟩ := tokenize_good (sanitize text) prog 0 hl hc
  have h1 := segment_good hg
  have h2 := pending_good hg
  have h3 := expandAll_good [] hg
  have h4 := processLabels_good hg [] 0
  have h5 := buildInstrs_good hg []
  simp only [tentriesOf] at h3 h4 h5
  have hnot : ¬ prog.length > 4096 := by omega
  unfold load
  simp only [hes, h1, h2, writeData, h3, h4, h5, hnot, if_false, and_self]

end ArchSim.Lemmas.C14
