/-
C14 helper lemmas, part 2: numerals. The decimal text of an integer, the `0x…` text of a csr number
and the `x<n>` text of a register number are read back by `pImm` / `pReg` as the number they were
printed from.
-/
import ArchSim.Lemmas.C14Scan
import Std.Data.String.ToNat

namespace ArchSim.Lemmas.C14
open ArchSim ArchSim.PP ArchSim.Rv ArchSim.Asm

/-! ### `toDigitsRev` -/

theorem toDigitsRev_mem (b : Nat) (hb : b ≥ 2) (n : Nat) :
    ∀ c ∈ toDigitsRev b hb n, ∃ d, d < b ∧ c = hexDigit d := by
  fun_induction toDigitsRev b hb n with
  | case1 n h => intro c hc; simp at hc; exact ⟨n, h, hc⟩
  | case2 n h ih =>
    intro c hc
    rcases List.mem_cons.mp hc with rfl | hc
    · exact ⟨n % b, Nat.mod_lt _ (by omega), rfl⟩
    · exact ih c hc

theorem toDigitsRev_ne_nil (b : Nat) (hb : b ≥ 2) (n : Nat) : toDigitsRev b hb n ≠ [] := by
  unfold toDigitsRev; split <;> simp

def digStep (base : Nat) (acc : Option Nat) (c : Char) : Option Nat :=
  match acc, digitVal c with
  | some a, some d => if d < base then some (a * base + d) else none
  | _, _ => none

theorem natOfDigits_eq (base : Nat) (ds : List Char) : natOfDigits base ds = ds.foldl (digStep base) (some 0) := rfl

/-- Reading back the digits (through a character map `g` that keeps digit values). -/
theorem natOfDigits_toDigitsRev (b : Nat) (hb : b ≥ 2) (g : Char → Char)
    (hg : ∀ d < b, digitVal (g (hexDigit d)) = some d) (n : Nat) :
    natOfDigits b ((toDigitsRev b hb n).reverse.map g) = some n := by
  rw [natOfDigits_eq]
  fun_induction toDigitsRev b hb n with
  | case1 n h => simp [digStep, hg n h, h]
  | case2 n h ih =>
    simp only [List.reverse_cons, List.map_append, List.map_cons, List.map_nil, List.foldl_append, ih,
      List.foldl_cons, List.foldl_nil, digStep, hg (n % b) (Nat.mod_lt _ (by omega)),
      Nat.mod_lt n (show b > 0 by omega), if_true]
    congr 1
    exact Nat.div_add_mod' n b

theorem toDigitsRev_getLast (b : Nat) (hb : b ≥ 2) (n : Nat) (hn : n ≠ 0) :
    ∃ d, 0 < d ∧ d < b ∧ (toDigitsRev b hb n).getLast? = some (hexDigit d) := by
  fun_induction toDigitsRev b hb n with
  | case1 n h => exact ⟨n, by omega, h, by simp⟩
  | case2 n h ih =>
    have hq : n / b ≠ 0 := by
      have : 0 < n / b := Nat.div_pos (by omega) (by omega)
      omega
    obtain ⟨d, h1, h2, h3⟩ := ih hq
    refine ⟨d, h1, h2, ?_⟩
    rw [List.getLast?_cons_of_ne_nil (toDigitsRev_ne_nil b hb (n / b))]
    exact h3

theorem toDigitsRev_length_le (b : Nat) (hb : b ≥ 2) (n k : Nat) (hk : 1 ≤ k) (hn : n < b ^ k) :
    (toDigitsRev b hb n).length ≤ k := by
  fun_induction toDigitsRev b hb n generalizing k with
  | case1 n h => simpa using hk
  | case2 n h ih =>
    cases k with
    | zero => omega
    | succ k' =>
      have hq : n / b < b ^ k' := by
        rw [Nat.div_lt_iff_lt_mul (by omega)]
        simpa [Nat.pow_succ] using hn
      have hk' : 1 ≤ k' := by
        cases k' with
        | zero =>
          have : 0 < n / b := Nat.div_pos (by omega) (by omega)
          simp at hq; omega
        | succ _ => omega
      have := ih k' hk' hq
      simp only [List.length_cons]; omega

/-! ### decimal -/

def decDigits (n : Nat) : List Char := (toDigitsRev 10 (by decide) n).reverse

theorem hexDigit_dec : ∀ d < 10, isNum (hexDigit d) = true ∧ digitVal (hexDigit d) = some d ∧
    hexDigit d ≠ '-' ∧ isWs (hexDigit d) = false ∧ isLabelInit (hexDigit d) = false ∧
    (hexDigit d = '0' → d = 0) := by decide

theorem decDigits_isNum (n : Nat) : ∀ c ∈ decDigits n, isNum c = true := by
  intro c hc
  simp only [decDigits, List.mem_reverse] at hc
  obtain ⟨d, hd, rfl⟩ := toDigitsRev_mem 10 (by decide) n c hc
  exact (hexDigit_dec d hd).1

theorem decDigits_ne_nil (n : Nat) : decDigits n ≠ [] := by
  simp [decDigits, toDigitsRev_ne_nil]

theorem natOfDigits_decDigits (n : Nat) : natOfDigits 10 (decDigits n) = some n := by
  have := natOfDigits_toDigitsRev 10 (by decide) id (fun d hd => (hexDigit_dec d hd).2.1) n
  simpa [decDigits] using this

theorem decDigits_head (n : Nat) (hn : n ≠ 0) : (decDigits n).head? ≠ some '0' := by
  obtain ⟨d, h1, h2, h3⟩ := toDigitsRev_getLast 10 (by decide) n hn
  simp only [decDigits, List.head?_reverse, h3, ne_eq, Option.some.injEq]
  intro h
  have := (hexDigit_dec d h2).2.2.2.2.2 h
  omega

theorem decDigits_length_le (n k : Nat) (hk : 1 ≤ k) (hn : n < 10 ^ k) : (decDigits n).length ≤ k := by
  simpa [decDigits] using toDigitsRev_length_le 10 (by decide) n k hk hn

/-- The first character of a decimal digit string. -/
theorem decDigits_cons (n : Nat) : ∃ c tl, decDigits n = c :: tl ∧ isNum c = true := by
  cases h : decDigits n with
  | nil => exact absurd h (decDigits_ne_nil n)
  | cons c tl => exact ⟨c, tl, rfl, decDigits_isNum n c (by simp [h])⟩

theorem isNum_facts (c : Char) (h : isNum c = true) :
    c ≠ '-' ∧ c ≠ 'x' ∧ c ≠ 'b' ∧ isWs c = false ∧ isLabelInit c = false ∧ isHexNum c = true := by
  have h1 : ∀ n < 58, 48 ≤ n → (Char.ofNat n ≠ '-' ∧ Char.ofNat n ≠ 'x' ∧ Char.ofNat n ≠ 'b' ∧
      isWs (Char.ofNat n) = false ∧ isLabelInit (Char.ofNat n) = false ∧ isHexNum (Char.ofNat n) = true) := by
    decide
  have hc := Char.ofNat_toNat c
  simp only [isNum, Bool.and_eq_true, decide_eq_true_eq, Char.le_def, UInt32.le_iff_toNat_le] at h
  have h2 : c.toNat = c.val.toNat := rfl
  rw [← hc]
  apply h1
  · have : ('9' : Char).val.toNat = 57 := by decide
    omega
  · have : ('0' : Char).val.toNat = 48 := by decide
    omega

def signSplit (l : List Char) : Bool × List Char :=
  match l with
  | '-' :: r => (true, r)
  | r => (false, r)

def bodyVal (body : List Char) : Option Nat :=
  match body with
  | '0' :: 'x' :: ds => if ds.isEmpty then none else natOfDigits 16 ds
  | '0' :: 'b' :: ds => if ds.isEmpty then none else natOfDigits 2 ds
  | ds =>
    if ds.isEmpty || ds.length > 4300 then none
    else match natOfDigits 10 ds with
      | none => none
      | some n => if ds.length > 1 && ds.head? = some '0' && n ≠ 0 then none else some n

/-- `pyIntBase0` with its two inline matches named. -/
theorem pyIntBase0_eq (s : String) :
    pyIntBase0 s = (bodyVal (signSplit s.toList).2).map
      (fun n => if (signSplit s.toList).1 then -(n : Int) else (n : Int)) := rfl

theorem signSplit_minus (r : List Char) : signSplit ('-' :: r) = (true, r) := rfl

theorem signSplit_other (c : Char) (r : List Char) (h : c ≠ '-') : signSplit (c :: r) = (false, c :: r) := by
  unfold signSplit
  split
  · next r' heq => simp only [List.cons.injEq] at heq; exact absurd heq.1 h
  · rfl

/-- The digit reader of `pyIntBase0` on a digit string that is no `0x…`/`0b…` literal. -/
theorem pyIntBase0_digits (s : String) (neg : Bool) (ds : List Char)
    (hs : s.toList = if neg then '-' :: ds else ds)
    (hnum : ∀ c ∈ ds, isNum c = true) (hne : ds ≠ []) (hlen : ds.length ≤ 4300) (n : Nat)
    (hval : natOfDigits 10 ds = some n) (hlead : n ≠ 0 → ds.head? ≠ some '0') :
    pyIntBase0 s = some (if neg then -(n : Int) else (n : Int)) := by
  obtain ⟨c, tl, rfl⟩ : ∃ c tl, ds = c :: tl := by
    cases ds with
    | nil => exact absurd rfl hne
    | cons c tl => exact ⟨c, tl, rfl⟩
  have hc := isNum_facts c (hnum c (by simp))
  have hsplit : signSplit s.toList = (neg, c :: tl) := by
    rw [hs]
    cases neg with
    | true => rfl
    | false => exact signSplit_other c tl hc.1
  have hbody : bodyVal (c :: tl) = some n := by
    unfold bodyVal
    split
    · next ds heq =>
      simp only [List.cons.injEq] at heq
      have := isNum_facts 'x' (hnum 'x' (by simp [heq.2]))
      exact absurd rfl this.2.1
    · next ds heq =>
      simp only [List.cons.injEq] at heq
      have := isNum_facts 'b' (hnum 'b' (by simp [heq.2]))
      exact absurd rfl this.2.2.1
    · have h1 : ¬ ((c :: tl).length > 4300) := by omega
      simp only [List.isEmpty_cons, Bool.false_or, decide_eq_true_eq, h1, if_false, hval]
      by_cases hn : n = 0
      · simp [hn]
      · have := hlead hn
        simp only [List.head?_cons, ne_eq, Option.some.injEq] at this
        simp [this]
  rw [pyIntBase0_eq, hsplit]
  simp [hbody]

def decTxt (v : Int) : List Char := (intToDec v).toList

theorem natToBase_toList (b : Nat) (hb : b ≥ 2) (n : Nat) :
    (natToBase b hb n).toList = (toDigitsRev b hb n).reverse := by
  simp [natToBase]

theorem decTxt_eq (v : Int) :
    decTxt v = if v < 0 then '-' :: decDigits v.natAbs else decDigits v.natAbs := by
  unfold decTxt intToDec
  split <;> simp [natToBase_toList, decDigits]

/-- What may follow a numeral so that it is read back alone: not a digit, and not the `x`/`b` that
    would turn a leading `0` into a radix prefix. -/
def NumEnd (rest : Inp) : Prop := ∀ c ∈ rest.head?, isNum c = false ∧ c ≠ 'x' ∧ c ≠ 'b'

theorem numEnd_nil : NumEnd [] := by simp [NumEnd]
theorem numEnd_comma (r : Inp) : NumEnd (',' :: r) := by simp [NumEnd]; decide
theorem numEnd_lparen (r : Inp) : NumEnd ('(' :: r) := by simp [NumEnd]; decide
theorem numEnd_rparen (r : Inp) : NumEnd (')' :: r) := by simp [NumEnd]; decide

theorem litAdj_fail_digits (p : Char) (hp : p = 'x' ∨ p = 'b') (c : Char) (tl rest : List Char)
    (hnum : ∀ d ∈ c :: tl, isNum d = true) (hr : NumEnd rest) :
    stripPrefix ['0', p] (c :: tl ++ rest) = none := by
  simp only [List.cons_append, stripPrefix]
  split
  · cases tl with
    | nil =>
      cases rest with
      | nil => simp [stripPrefix]
      | cons e r =>
        have := hr e (by simp)
        simp only [List.nil_append, stripPrefix]
        rcases hp with rfl | rfl
        · simp [Ne.symm this.2.1]
        · simp [Ne.symm this.2.2]
    | cons d tl =>
      have := isNum_facts d (hnum d (by simp))
      simp only [List.cons_append, stripPrefix]
      rcases hp with rfl | rfl
      · simp [Ne.symm this.2.1]
      · simp [Ne.symm this.2.2.1]
  · rfl

def signSplitS (i : Inp) : String × Inp :=
  match i with
  | '-' :: r => ("-", r)
  | r => ("", r)

def immBody (sign : String) (j : Inp) : R String :=
  match (litAdj "0x" j).bind (fun _ r => wordAdj isHexNum isHexNum r) with
  | .ok h rest => .ok (sign ++ "0x" ++ h) rest
  | .abort => .abort
  | .fail =>
    match (litAdj "0b" j).bind (fun _ r => wordAdj isBin isBin r) with
    | .ok b rest => .ok (sign ++ "0b" ++ b) rest
    | .abort => .abort
    | .fail =>
      match wordAdj isNum isNum j with
      | .ok d rest => .ok (sign ++ d) rest
      | r => r

/-- `pImmText` with its inline matches named. -/
theorem pImmText_eq (i : Inp) :
    pImmText i = immBody (signSplitS (skipWs i)).1 (signSplitS (skipWs i)).2 := rfl

theorem signSplitS_minus (r : List Char) : signSplitS ('-' :: r) = ("-", r) := rfl

theorem signSplitS_other (c : Char) (r : List Char) (h : c ≠ '-') : signSplitS (c :: r) = ("", c :: r) := by
  unfold signSplitS
  split
  · next r' heq => simp only [List.cons.injEq] at heq; exact absurd heq.1 h
  · rfl

/-- The numeral text scanned by `pImmText` for an optional sign and a digit string. -/
theorem pImmText_digits (neg : Bool) (ds rest : List Char)
    (hnum : ∀ c ∈ ds, isNum c = true) (hne : ds ≠ []) (hr : NumEnd rest) :
    ∃ s : String, s.toList = (if neg then '-' :: ds else ds) ∧
      pImmText ((if neg then '-' :: ds else ds) ++ rest) = .ok s rest := by
  obtain ⟨c, tl, rfl⟩ : ∃ c tl, ds = c :: tl := by
    cases ds with
    | nil => exact absurd rfl hne
    | cons c tl => exact ⟨c, tl, rfl⟩
  have hc := isNum_facts c (hnum c (by simp))
  have hrn : ∀ e ∈ rest.head?, isNum e = false := fun e he => (hr e he).1
  have htl : ∀ d ∈ tl, isNum d = true := fun d hd => hnum d (by simp [hd])
  have hskip : skipWs ((if neg then '-' :: c :: tl else c :: tl) ++ rest)
      = (if neg then '-' :: c :: tl else c :: tl) ++ rest := by
    cases neg with
    | true => exact skipWs_cons_of_not_ws _ _ (by decide)
    | false => exact skipWs_cons_of_not_ws _ _ hc.2.2.2.1
  have hsplit : signSplitS ((if neg then '-' :: c :: tl else c :: tl) ++ rest)
      = (if neg then "-" else "", c :: tl ++ rest) := by
    cases neg with
    | true => rfl
    | false => exact signSplitS_other c _ hc.1
  refine ⟨(if neg then "-" else "") ++ String.ofList (c :: tl), ?_, ?_⟩
  · cases neg <;> simp
  · rw [pImmText_eq, hskip, hsplit]
    simp only [immBody, litAdj, litAdj_fail_digits 'x' (Or.inl rfl) c tl rest hnum hr,
      litAdj_fail_digits 'b' (Or.inr rfl) c tl rest hnum hr, bind_fail,
      show ("0x" : String).toList = ['0', 'x'] from rfl, show ("0b" : String).toList = ['0', 'b'] from rfl]
    simp only [List.cons_append, wordAdj, hnum c (by simp), if_true,
      takeWhile_class isNum tl rest htl hrn, dropWhile_class isNum tl rest htl hrn]

/-- Item 1a: the decimal text of `v` is read back as `v` by the immediate pattern. -/
theorem pImm_decTxt (v : Int) (rest : Inp) (hv : v.natAbs < 10 ^ 4300) (hr : NumEnd rest) :
    pImm (decTxt v ++ rest) = .ok v rest := by
  have hlen := decDigits_length_le v.natAbs 4300 (by decide) hv
  obtain ⟨s, hs, hp⟩ := pImmText_digits (decide (v < 0)) (decDigits v.natAbs) rest
    (decDigits_isNum _) (decDigits_ne_nil _) hr
  have hval := pyIntBase0_digits s (decide (v < 0)) (decDigits v.natAbs) hs (decDigits_isNum _)
    (decDigits_ne_nil _) hlen v.natAbs (natOfDigits_decDigits _) (decDigits_head _)
  have htxt : decTxt v = if decide (v < 0) = true then '-' :: decDigits v.natAbs else decDigits v.natAbs := by
    rw [decTxt_eq]; simp
  rw [htxt]
  simp only [pImm, hp, bind_ok, hval]
  congr 1
  by_cases h : v < 0
  · simp only [h, decide_true, if_true]; omega
  · simp only [h, decide_false, Bool.false_eq_true, if_false]; omega

@[simp] theorem pImm_space (r : Inp) : pImm (' ' :: r) = pImm r := by
  simp [pImm, pImmText_eq]

/-- The decimal text starts with `-` or a digit. -/
theorem decTxt_cons (v : Int) : ∃ c tl, decTxt v = c :: tl ∧ (c = '-' ∨ isNum c = true) := by
  rw [decTxt_eq]
  split
  · exact ⟨'-', _, rfl, Or.inl rfl⟩
  · obtain ⟨c, tl, h, hc⟩ := decDigits_cons v.natAbs
    exact ⟨c, tl, h, Or.inr hc⟩

theorem decTxt_chars (v : Int) : ∀ c ∈ decTxt v, c = '-' ∨ isNum c = true := by
  rw [decTxt_eq]
  split
  · intro c hc
    rcases List.mem_cons.mp hc with rfl | hc
    · exact Or.inl rfl
    · exact Or.inr (decDigits_isNum _ c hc)
  · intro c hc; exact Or.inr (decDigits_isNum _ c hc)

theorem decTxt_getLast (v : Int) : ∀ c ∈ (decTxt v).getLast?, isNum c = true := by
  rw [decTxt_eq]
  intro c hc
  have hne := decDigits_ne_nil v.natAbs
  split at hc
  · rw [List.getLast?_cons_of_ne_nil hne] at hc
    exact decDigits_isNum _ c (List.mem_of_getLast? hc)
  · exact decDigits_isNum _ c (List.mem_of_getLast? hc)

/-! ### hexadecimal (csr numbers) -/

def hexDigitsLower (n : Nat) : List Char := (toDigitsRev 16 (by decide) n).reverse.map Char.toLower

def hexTxt (n : Nat) : List Char := '0' :: 'x' :: hexDigitsLower n

theorem hexLower_toList (n : Nat) : (hexLower n).toList = hexDigitsLower n := by
  simp [hexLower, natToBase_toList, hexDigitsLower]

theorem hexDigit_hex : ∀ d < 16, isHexNum (hexDigit d).toLower = true ∧
    digitVal (hexDigit d).toLower = some d ∧
    (isNum (hexDigit d).toLower = true ∨ isLow (hexDigit d).toLower = true) := by decide

theorem hexDigitsLower_isHex (n : Nat) : ∀ c ∈ hexDigitsLower n, isHexNum c = true := by
  intro c hc
  simp only [hexDigitsLower, List.mem_map, List.mem_reverse] at hc
  obtain ⟨e, he, rfl⟩ := hc
  obtain ⟨d, hd, rfl⟩ := toDigitsRev_mem 16 (by decide) n e he
  exact (hexDigit_hex d hd).1

theorem hexDigitsLower_chars (n : Nat) : ∀ c ∈ hexDigitsLower n, isNum c = true ∨ isLow c = true := by
  intro c hc
  simp only [hexDigitsLower, List.mem_map, List.mem_reverse] at hc
  obtain ⟨e, he, rfl⟩ := hc
  obtain ⟨d, hd, rfl⟩ := toDigitsRev_mem 16 (by decide) n e he
  exact (hexDigit_hex d hd).2.2

theorem hexDigitsLower_ne_nil (n : Nat) : hexDigitsLower n ≠ [] := by
  simp [hexDigitsLower, toDigitsRev_ne_nil]

theorem natOfDigits_hexDigitsLower (n : Nat) : natOfDigits 16 (hexDigitsLower n) = some n :=
  natOfDigits_toDigitsRev 16 (by decide) Char.toLower (fun d hd => (hexDigit_hex d hd).2.1) n

/-- What may follow a hexadecimal numeral: no hexadecimal digit. -/
def HexEnd (rest : Inp) : Prop := ∀ c ∈ rest.head?, isHexNum c = false

theorem hexEnd_comma (r : Inp) : HexEnd (',' :: r) := by simp [HexEnd]; decide
theorem hexEnd_nil : HexEnd [] := by simp [HexEnd]

/-- Item 1b: the `0x…` text of a csr number is read back as that number. -/
theorem pImm_hexTxt (n : Nat) (rest : Inp) (hr : HexEnd rest) :
    pImm (hexTxt n ++ rest) = .ok (n : Int) rest := by
  obtain ⟨c, tl, hct⟩ : ∃ c tl, hexDigitsLower n = c :: tl := by
    cases h : hexDigitsLower n with
    | nil => exact absurd h (hexDigitsLower_ne_nil n)
    | cons c tl => exact ⟨c, tl, rfl⟩
  have hall := hexDigitsLower_isHex n
  rw [hct] at hall
  have htl : ∀ d ∈ tl, isHexNum d = true := fun d hd => hall d (by simp [hd])
  have htext : pImmText (hexTxt n ++ rest) = .ok ("" ++ "0x" ++ String.ofList (c :: tl)) rest := by
    have hskip : skipWs (hexTxt n ++ rest) = '0' :: 'x' :: (c :: tl ++ rest) := by
      rw [hexTxt, hct]; exact skipWs_cons_of_not_ws _ _ (by decide)
    rw [pImmText_eq, hskip, signSplitS_other '0' _ (by decide)]
    simp only [immBody, litAdj, show ("0x" : String).toList = ['0', 'x'] from rfl, stripPrefix, if_true,
      bind_ok, List.cons_append, wordAdj, hall c (by simp),
      takeWhile_class isHexNum tl rest htl hr, dropWhile_class isHexNum tl rest htl hr]
  have hval : pyIntBase0 ("" ++ "0x" ++ String.ofList (c :: tl)) = some (n : Int) := by
    have h1 : ("" ++ "0x" ++ String.ofList (c :: tl)).toList = '0' :: 'x' :: c :: tl := by simp
    have h2 := natOfDigits_hexDigitsLower n
    rw [hct] at h2
    rw [pyIntBase0_eq, h1, signSplit_other '0' _ (by decide)]
    simp [bodyVal, h2]
  simp only [pImm, htext, bind_ok, hval]

/-! ### registers -/

def regTxt (n : Nat) : List Char := 'x' :: (toString n).toList

theorem toNat!_toString (n : Nat) : (toString n).toNat! = n := by
  have h := Nat.toNat?_repr n
  have hnat := Nat.isNat_repr n
  show (Nat.repr n).toNat! = n
  rw [← String.toNat?_toSlice] at h
  rw [← String.isNat_toSlice] at hnat
  unfold String.toNat!
  unfold String.Slice.toNat? at h
  unfold String.Slice.toNat!
  rw [if_pos hnat] at h ⊢
  exact Option.some.inj h

theorem abi_head : ∀ s ∈ abiNames.map (·.1), s.toList ≠ [] ∧ s.toList.head? ≠ some 'x' := by decide

theorem isPrefixOf_head_ne (s : List Char) (c : Char) (t : List Char) (hne : s ≠ [])
    (h : s.head? ≠ some c) : s.isPrefixOf (c :: t) = false := by
  cases s with
  | nil => exact absurd rfl hne
  | cons a s =>
    have : a ≠ c := by simpa using h
    simp [List.isPrefixOf_cons_cons, this]

theorem oneOf_abi_x (t : Inp) : oneOf (abiNames.map (·.1)) ('x' :: t) = .fail := by
  unfold oneOf
  simp only [skipWs_cons_of_not_ws 'x' t (by decide), oneOf_go_eq]
  rw [find_longestFirst_none]
  intro s hs
  have := abi_head s hs
  exact isPrefixOf_head_ne s.toList 'x' t this.1 this.2

theorem reg_table : ∀ n < 32,
    toString n ∈ regNumbers ∧
    (∀ c ∈ (toString n).toList, isNum c = true) ∧ (toString n).toList ≠ [] ∧
    ∀ t ∈ regNumbers, t.toList.isPrefixOf (toString n).toList = true →
      t.toList.length < (toString n).toList.length ∨ t.toList = (toString n).toList := by decide

theorem regNumbers_isNum : ∀ s ∈ regNumbers, ∀ c ∈ s.toList, isNum c = true := by decide

/-- Item 1c: `x<n>` is read back as register `n`. -/
theorem pReg_regTxt (n : Nat) (hn : n < 32) (rest : Inp) (hr : ∀ c ∈ rest.head?, isNum c = false) :
    pReg (regTxt n ++ rest) = .ok n rest := by
  obtain ⟨hmem, hnum, hne, hbest⟩ := reg_table n hn
  have hx : lit "x" ('x' :: ((toString n).toList ++ rest)) = .ok () ((toString n).toList ++ rest) := by
    simp [lit, skipWs_cons_of_not_ws 'x' _ (by decide), stripPrefix]
  have hskip : skipWs ((toString n).toList ++ rest) = (toString n).toList ++ rest := by
    cases h : (toString n).toList with
    | nil => exact absurd h hne
    | cons c tl =>
      exact skipWs_cons_of_not_ws c _ (isNum_facts c (hnum c (by rw [h]; simp))).2.2.2.1
  have hfind : (longestFirst regNumbers).find? (fun s => s.toList.isPrefixOf ((toString n).toList ++ rest))
      = some (toString n) := by
    apply find_longestFirst_some _ _ _ hmem
    · rw [isPrefixOf_append_class isNum _ _ _ hnum hr]; simp
    · intro t ht hp
      rw [isPrefixOf_append_class isNum _ _ _ (regNumbers_isNum t ht) hr] at hp
      rcases hbest t ht hp with h | h
      · left; rw [← String.length_toList, ← String.length_toList]; exact h
      · right; exact String.toList_inj.mp h
  have hnum' : oneOf regNumbers ((toString n).toList ++ rest) = .ok (toString n) rest := by
    unfold oneOf
    simp only [hskip, oneOf_go_eq, hfind, List.drop_left]
  unfold pReg
  simp only [regTxt, List.cons_append, oneOf_abi_x, hx, bind_ok, hnum', map_ok, toNat!_toString]

@[simp] theorem pReg_space (r : Inp) : pReg (' ' :: r) = pReg r := by simp [pReg]

theorem regTxt_chars (n : Nat) (hn : n < 32) : ∀ c ∈ regTxt n, c = 'x' ∨ isNum c = true := by
  intro c hc
  rcases List.mem_cons.mp hc with rfl | hc
  · exact Or.inl rfl
  · exact Or.inr ((reg_table n hn).2.1 c hc)

theorem regTxt_getLast (n : Nat) (hn : n < 32) : ∀ c ∈ (regTxt n).getLast?, isNum c = true := by
  intro c hc
  have hne := (reg_table n hn).2.2.1
  rw [regTxt, List.getLast?_cons_of_ne_nil hne] at hc
  exact (reg_table n hn).2.1 c (List.mem_of_getLast? hc)

/-! ### failures of `pReg`, `pImm`, `pLabel` on the wrong kind of operand -/

def regInit : List Char := ['z', 'r', 's', 'g', 't', 'f', 'a', 'x']

theorem abi_head_in : ∀ s ∈ abiNames.map (·.1), s.toList ≠ [] ∧ ∀ c ∈ s.toList.head?, c ∈ regInit := by decide

/-- A register cannot start with a character outside `z r s g t f a x`. -/
theorem pReg_fail_head (c : Char) (t : Inp) (hws : isWs c = false) (hc : c ∉ regInit) :
    pReg (c :: t) = .fail := by
  have h1 : oneOf (abiNames.map (·.1)) (c :: t) = .fail := by
    unfold oneOf
    simp only [skipWs_cons_of_not_ws c t hws, oneOf_go_eq]
    rw [find_longestFirst_none]
    intro s hs
    have := abi_head_in s hs
    apply isPrefixOf_head_ne s.toList c t this.1
    intro h
    exact hc (this.2 c h)
  have h2 : lit "x" (c :: t) = .fail := by
    have : c ≠ 'x' := by intro h; apply hc; simp [h, regInit]
    simp [lit, skipWs_cons_of_not_ws c t hws, stripPrefix, Ne.symm this]
  simp [pReg, h1, h2]

theorem pReg_fail_i (t : Inp) : pReg ('i' :: t) = .fail := pReg_fail_head 'i' t (by decide) (by decide)

theorem isNum_not_regInit (c : Char) (h : c = '-' ∨ isNum c = true) : isWs c = false ∧ c ∉ regInit := by
  rcases h with rfl | h
  · decide
  · have h1 : ∀ n < 58, 48 ≤ n → (isWs (Char.ofNat n) = false ∧ Char.ofNat n ∉ regInit) := by decide
    have hc := Char.ofNat_toNat c
    simp only [isNum, Bool.and_eq_true, decide_eq_true_eq, Char.le_def, UInt32.le_iff_toNat_le] at h
    have h2 : c.toNat = c.val.toNat := rfl
    rw [← hc]
    apply h1
    · have : ('9' : Char).val.toNat = 57 := by decide
      omega
    · have : ('0' : Char).val.toNat = 48 := by decide
      omega

/-- A register pattern fails on a decimal numeral. -/
theorem pReg_fail_decTxt (v : Int) (rest : Inp) : pReg (decTxt v ++ rest) = .fail := by
  obtain ⟨c, tl, h, hc⟩ := decTxt_cons v
  rw [h]
  have := isNum_not_regInit c hc
  exact pReg_fail_head c _ this.1 this.2

/-- `ra` is the only register name starting with `r`; `r` followed by a blank is none. -/
theorem pReg_fail_r (t : Inp) : pReg ('r' :: ' ' :: t) = .fail := by
  have h1 : oneOf (abiNames.map (·.1)) ('r' :: ' ' :: t) = .fail := by
    unfold oneOf
    simp only [skipWs_cons_of_not_ws 'r' _ (by decide), oneOf_go_eq]
    rw [find_longestFirst_none]
    intro s hs
    have h2 : ∀ s ∈ abiNames.map (·.1), (∀ c ∈ s.toList, (c != ' ') = true) ∧
        s.toList.isPrefixOf ['r'] = false := by decide
    have h3 := h2 s hs
    have := isPrefixOf_append_class (fun c => c != ' ') s.toList ['r'] (' ' :: t) h3.1 (by simp)
    simpa [h3.2] using this
  have h2 : lit "x" ('r' :: ' ' :: t) = .fail := by
    simp [lit, skipWs_cons_of_not_ws 'r' _ (by decide), stripPrefix]
  simp [pReg, h1, h2]

/-- An immediate cannot start with `x`. -/
theorem pImm_fail_x (t : Inp) : pImm ('x' :: t) = .fail := by
  rw [pImm, pImmText_eq, skipWs_cons_of_not_ws 'x' t (by decide), signSplitS_other 'x' t (by decide)]
  simp [immBody, litAdj, stripPrefix, wordAdj, isNum]

/-- A label cannot start with `-` or a digit. -/
theorem pLabel_fail_decTxt (v : Int) (rest : Inp) : pLabel (decTxt v ++ rest) = .fail := by
  obtain ⟨c, tl, h, hc⟩ := decTxt_cons v
  rw [h]
  have hws := (isNum_not_regInit c hc).1
  have hli : isLabelInit c = false := by
    rcases hc with rfl | hc
    · decide
    · exact (isNum_facts c hc).2.2.2.2.1
  simp [pLabel, word, skipWs_cons_of_not_ws c _ hws, wordAdj, hli]

@[simp] theorem pLabel_space (r : Inp) : pLabel (' ' :: r) = pLabel r := by simp [pLabel]

end ArchSim.Lemmas.C14
