/-
C04 (spelling independence), part 2: numerals. Any digit string in decimal, `0x` hexadecimal (digits of
either case, leading zeros) or `0b` binary, with an optional `-`, is read by `pImm` as its value.
-/
import ArchSim.Lemmas.C04SpellReg

namespace ArchSim.Lemmas.C04Spell
open ArchSim ArchSim.PP ArchSim.Rv ArchSim.Asm ArchSim.Lemmas.C14

/-! ### the value of a digit string -/

/-- positional value of a digit string in base `base` (most significant digit first) -/
def digitsVal (base : Nat) (ds : List Char) : Nat :=
  ds.foldl (fun a c => a * base + (digitVal c).getD 0) 0

/-- every character is a digit of base `base` -/
def ValidDigits (base : Nat) (ds : List Char) : Prop := ∀ c ∈ ds, ∃ d, digitVal c = some d ∧ d < base

theorem foldl_digStep_valid (base : Nat) (ds : List Char) (h : ValidDigits base ds) (a : Nat) :
    ds.foldl (digStep base) (some a) = some (ds.foldl (fun a c => a * base + (digitVal c).getD 0) a) := by
  induction ds generalizing a with
  | nil => rfl
  | cons c cs ih =>
    obtain ⟨d, hd, hlt⟩ := h c (by simp)
    simp only [List.foldl_cons, digStep, hd, hlt, if_true, Option.getD_some]
    exact ih (fun x hx => h x (by simp [hx])) _

theorem natOfDigits_valid (base : Nat) (ds : List Char) (h : ValidDigits base ds) :
    natOfDigits base ds = some (digitsVal base ds) := by
  rw [natOfDigits_eq]; exact foldl_digStep_valid base ds h 0

/-- leading zeros do not change the value -/
theorem digitsVal_zeros (base k : Nat) (ds : List Char) :
    digitsVal base (List.replicate k '0' ++ ds) = digitsVal base ds := by
  induction k with
  | zero => rfl
  | succ k ih =>
    rw [List.replicate_succ, List.cons_append]
    have h0 : (digitVal '0').getD 0 = 0 := by decide
    have : digitsVal base ('0' :: (List.replicate k '0' ++ ds)) = digitsVal base (List.replicate k '0' ++ ds) := by
      simp only [digitsVal, List.foldl_cons, h0, Nat.zero_mul, Nat.add_zero]
    rw [this, ih]

/-! ### the three digit classes -/

theorem ascii_cases (P : Char → Prop) (c : Char) (hc : c.toNat < 128) (ht : ∀ n < 128, P (Char.ofNat n)) : P c := by
  rw [← Char.ofNat_toNat c]; exact ht _ hc

theorem le_toNat {a b : Char} (h : (a ≤ b) ) : a.toNat ≤ b.toNat := by
  have : a.val.toNat ≤ b.val.toNat := by simpa only [Char.le_def, UInt32.le_iff_toNat_le] using h
  exact this

theorem isHexNum_ascii (c : Char) (h : isHexNum c = true) : c.toNat < 128 := by
  simp only [isHexNum, isNum, Bool.or_eq_true, Bool.and_eq_true, decide_eq_true_eq] at h
  have h9 : ('9' : Char).toNat = 57 := by decide
  have hf : ('f' : Char).toNat = 102 := by decide
  have hF : ('F' : Char).toNat = 70 := by decide
  rcases h with (h | h) | h
  · have := le_toNat h.2; omega
  · have := le_toNat h.2; omega
  · have := le_toNat h.2; omega

theorem hex_table : ∀ n < 128, isHexNum (Char.ofNat n) = true →
    (digitVal (Char.ofNat n)).any (fun d => decide (d < 16)) = true := by decide

theorem num_table : ∀ n < 128, isNum (Char.ofNat n) = true →
    (digitVal (Char.ofNat n)).any (fun d => decide (d < 10)) = true := by decide

theorem bin_table : ∀ n < 128, isBin (Char.ofNat n) = true →
    (digitVal (Char.ofNat n)).any (fun d => decide (d < 2)) = true ∧ isHexNum (Char.ofNat n) = true ∧
      isNum (Char.ofNat n) = true := by decide

theorem any_lt {o : Option Nat} {b : Nat} (h : o.any (fun d => decide (d < b)) = true) : ∃ d, o = some d ∧ d < b := by
  cases o with
  | none => simp at h
  | some d => exact ⟨d, rfl, by simpa using h⟩

theorem validDigits_hex (ds : List Char) (h : ∀ c ∈ ds, isHexNum c = true) : ValidDigits 16 ds := by
  intro c hc
  have hx := h c hc
  exact any_lt (ascii_cases (fun c => isHexNum c = true → (digitVal c).any (fun d => decide (d < 16)) = true) c
    (isHexNum_ascii c hx) hex_table hx)

theorem validDigits_dec (ds : List Char) (h : ∀ c ∈ ds, isNum c = true) : ValidDigits 10 ds := by
  intro c hc
  have hn := h c hc
  have hx := (isNum_facts c hn).2.2.2.2.2
  exact any_lt (ascii_cases (fun c => isNum c = true → (digitVal c).any (fun d => decide (d < 10)) = true) c
    (isHexNum_ascii c hx) num_table hn)

theorem isBin_isNum (c : Char) (h : isBin c = true) : isNum c = true := by
  simp only [isBin, Bool.or_eq_true, decide_eq_true_eq] at h
  rcases h with rfl | rfl <;> decide

theorem validDigits_bin (ds : List Char) (h : ∀ c ∈ ds, isBin c = true) : ValidDigits 2 ds := by
  intro c hc
  have hb := h c hc
  have hx := (isNum_facts c (isBin_isNum c hb)).2.2.2.2.2
  exact any_lt (ascii_cases (fun c => isBin c = true → (digitVal c).any (fun d => decide (d < 2)) = true) c (isHexNum_ascii c hx)
    (fun n hn hb => (bin_table n hn hb).1) hb)

/-! ### scanning `-?0x<hex>+` and `-?0b<bin>+` -/

def signTxt (neg : Bool) : List Char := if neg then ['-'] else []
def signStr (neg : Bool) : String := if neg then "-" else ""
def signed (neg : Bool) (n : Nat) : Int := if neg then -(n : Int) else (n : Int)

theorem exists_cons_of_ne_nil {l : List Char} (h : l ≠ []) : ∃ c tl, l = c :: tl := by
  cases l with
  | nil => exact absurd rfl h
  | cons c tl => exact ⟨c, tl, rfl⟩

theorem pImm_ws (ws i : List Char) (h : AllWs ws) : pImm (ws ++ i) = pImm i := by
  simp only [pImm, pImmText_eq, skipWs_append ws i h]

theorem pImmText_hex (neg : Bool) (ds rest : List Char) (hds : ∀ c ∈ ds, isHexNum c = true) (hne : ds ≠ [])
    (hr : HexEnd rest) :
    pImmText (signTxt neg ++ '0' :: 'x' :: (ds ++ rest)) = .ok (signStr neg ++ "0x" ++ String.ofList ds) rest := by
  obtain ⟨c, tl, rfl⟩ := exists_cons_of_ne_nil hne
  have htl : ∀ d ∈ tl, isHexNum d = true := fun d hd => hds d (by simp [hd])
  have hskip : skipWs (signTxt neg ++ '0' :: 'x' :: (c :: tl ++ rest)) = signTxt neg ++ '0' :: 'x' :: (c :: tl ++ rest) := by
    cases neg <;> exact skipWs_cons_of_not_ws _ _ (by decide)
  have hsplit : signSplitS (signTxt neg ++ '0' :: 'x' :: (c :: tl ++ rest)) = (signStr neg, '0' :: 'x' :: (c :: tl ++ rest)) := by
    cases neg
    · exact signSplitS_other '0' _ (by decide)
    · rfl
  rw [pImmText_eq, hskip, hsplit]
  simp only [immBody, litAdj, show ("0x" : String).toList = ['0', 'x'] from rfl, stripPrefix, if_true,
    bind_ok, List.cons_append, wordAdj, hds c (by simp),
    takeWhile_class isHexNum tl rest htl hr, dropWhile_class isHexNum tl rest htl hr]

/-- What may follow a binary numeral: not `0` or `1`. -/
def BinEnd (rest : Inp) : Prop := ∀ c ∈ rest.head?, isBin c = false

theorem pImmText_bin (neg : Bool) (ds rest : List Char) (hds : ∀ c ∈ ds, isBin c = true) (hne : ds ≠ [])
    (hr : BinEnd rest) :
    pImmText (signTxt neg ++ '0' :: 'b' :: (ds ++ rest)) = .ok (signStr neg ++ "0b" ++ String.ofList ds) rest := by
  obtain ⟨c, tl, rfl⟩ := exists_cons_of_ne_nil hne
  have htl : ∀ d ∈ tl, isBin d = true := fun d hd => hds d (by simp [hd])
  have hskip : skipWs (signTxt neg ++ '0' :: 'b' :: (c :: tl ++ rest)) = signTxt neg ++ '0' :: 'b' :: (c :: tl ++ rest) := by
    cases neg <;> exact skipWs_cons_of_not_ws _ _ (by decide)
  have hsplit : signSplitS (signTxt neg ++ '0' :: 'b' :: (c :: tl ++ rest)) = (signStr neg, '0' :: 'b' :: (c :: tl ++ rest)) := by
    cases neg
    · exact signSplitS_other '0' _ (by decide)
    · rfl
  rw [pImmText_eq, hskip, hsplit]
  simp only [immBody, litAdj, show ("0x" : String).toList = ['0', 'x'] from rfl,
    show ("0b" : String).toList = ['0', 'b'] from rfl, stripPrefix, if_true,
    show ('x' : Char) = 'b' ↔ False from by decide, if_false, bind_fail,
    bind_ok, List.cons_append, wordAdj, hds c (by simp),
    takeWhile_class isBin tl rest htl hr, dropWhile_class isBin tl rest htl hr]

theorem signSplit_signTxt (neg : Bool) (c : Char) (r : List Char) (hc : c ≠ '-') :
    signSplit (signTxt neg ++ c :: r) = (neg, c :: r) := by
  cases neg
  · exact signSplit_other c r hc
  · rfl

theorem pyIntBase0_hex (neg : Bool) (ds : List Char) (hne : ds ≠ []) (n : Nat) (hval : natOfDigits 16 ds = some n) :
    pyIntBase0 (signStr neg ++ "0x" ++ String.ofList ds) = some (signed neg n) := by
  have h1 : (signStr neg ++ "0x" ++ String.ofList ds).toList = signTxt neg ++ '0' :: 'x' :: ds := by
    cases neg <;> simp [signStr, signTxt]
  have hemp : ds.isEmpty = false := by cases ds <;> simp_all
  rw [pyIntBase0_eq, h1, signSplit_signTxt neg '0' _ (by decide)]
  simp [bodyVal, hemp, hval, signed]

theorem pyIntBase0_bin (neg : Bool) (ds : List Char) (hne : ds ≠ []) (n : Nat) (hval : natOfDigits 2 ds = some n) :
    pyIntBase0 (signStr neg ++ "0b" ++ String.ofList ds) = some (signed neg n) := by
  have h1 : (signStr neg ++ "0b" ++ String.ofList ds).toList = signTxt neg ++ '0' :: 'b' :: ds := by
    cases neg <;> simp [signStr, signTxt]
  have hemp : ds.isEmpty = false := by cases ds <;> simp_all
  rw [pyIntBase0_eq, h1, signSplit_signTxt neg '0' _ (by decide)]
  simp [bodyVal, hemp, hval, signed]

/-! ### the immediate pattern on arbitrary digit strings -/

/-- Hexadecimal: `-?0x` and ANY non-empty string of hexadecimal digits (either case, leading zeros, any
    length) is read as its value. -/
theorem pImm_hex_digits (neg : Bool) (ds rest : List Char) (hds : ∀ c ∈ ds, isHexNum c = true) (hne : ds ≠ [])
    (hr : HexEnd rest) :
    pImm (signTxt neg ++ '0' :: 'x' :: (ds ++ rest)) = .ok (signed neg (digitsVal 16 ds)) rest := by
  simp only [pImm, pImmText_hex neg ds rest hds hne hr, bind_ok,
    pyIntBase0_hex neg ds hne _ (natOfDigits_valid 16 ds (validDigits_hex ds hds))]

/-- Binary: `-?0b` and any non-empty string of `0`/`1` is read as its value. -/
theorem pImm_bin_digits (neg : Bool) (ds rest : List Char) (hds : ∀ c ∈ ds, isBin c = true) (hne : ds ≠ [])
    (hr : BinEnd rest) :
    pImm (signTxt neg ++ '0' :: 'b' :: (ds ++ rest)) = .ok (signed neg (digitsVal 2 ds)) rest := by
  simp only [pImm, pImmText_bin neg ds rest hds hne hr, bind_ok,
    pyIntBase0_bin neg ds hne _ (natOfDigits_valid 2 ds (validDigits_bin ds hds))]

theorem bodyVal_dec (ds : List Char) (hnum : ∀ c ∈ ds, isNum c = true) :
    bodyVal ds = if ds.isEmpty || ds.length > 4300 then none
      else match natOfDigits 10 ds with
        | none => none
        | some n => if ds.length > 1 && ds.head? = some '0' && n ≠ 0 then none else some n := by
  unfold bodyVal
  split
  · next tl =>
    have := isNum_facts 'x' (hnum 'x' (by simp))
    exact absurd rfl this.2.1
  · next tl =>
    have := isNum_facts 'b' (hnum 'b' (by simp))
    exact absurd rfl this.2.2.1
  · rfl

theorem signTxt_if (neg : Bool) (l : List Char) : signTxt neg ++ l = if neg then '-' :: l else l := by
  cases neg <;> rfl

/-- Decimal: `-?` and a digit string of at most 4300 digits without a leading zero (unless its value is
    zero) is read as its value. -/
theorem pImm_dec_digits (neg : Bool) (ds rest : List Char) (hds : ∀ c ∈ ds, isNum c = true) (hne : ds ≠ [])
    (hlen : ds.length ≤ 4300) (hlead : digitsVal 10 ds ≠ 0 → ds.head? ≠ some '0') (hr : NumEnd rest) :
    pImm (signTxt neg ++ (ds ++ rest)) = .ok (signed neg (digitsVal 10 ds)) rest := by
  obtain ⟨s, hs, hp⟩ := pImmText_digits neg ds rest hds hne hr
  have hval := pyIntBase0_digits s neg ds hs hds hne hlen _ (natOfDigits_valid 10 ds (validDigits_dec ds hds)) hlead
  rw [← List.append_assoc, signTxt_if]
  simp only [pImm, hp, bind_ok, hval, signed]

/-- Decimal with a leading zero and a non-zero value is REJECTED (like Python's `int(text, 0)`). -/
theorem pImm_dec_leading_zero (neg : Bool) (ds rest : List Char) (hds : ∀ c ∈ ds, isNum c = true)
    (hz : ds.head? = some '0') (hnz : digitsVal 10 ds ≠ 0) (hr : NumEnd rest) :
    pImm (signTxt neg ++ (ds ++ rest)) = .fail := by
  have hne : ds ≠ [] := by rintro rfl; simp at hz
  obtain ⟨s, hs, hp⟩ := pImmText_digits neg ds rest hds hne hr
  obtain ⟨c, tl, rfl⟩ := exists_cons_of_ne_nil hne
  have hc : c = '0' := by simpa using hz
  subst hc
  have hlen : (('0' : Char) :: tl).length > 1 := by
    cases tl with
    | nil => exact absurd (by decide) hnz
    | cons d tl => simp
  have hsplit : signSplit s.toList = (neg, '0' :: tl) := by
    rw [hs, ← signTxt_if]; exact signSplit_signTxt neg '0' tl (by decide)
  have hbody : bodyVal ('0' :: tl) = none := by
    rw [bodyVal_dec _ hds, natOfDigits_valid 10 _ (validDigits_dec _ hds)]
    split
    · rfl
    · have h1 : tl ≠ [] := by rintro rfl; simp at hlen
      simp [h1, hnz]
  rw [← List.append_assoc, signTxt_if]
  simp only [pImm, hp, bind_ok, pyIntBase0_eq, hsplit, hbody]
  rfl

/-! ### what may follow an operand token -/

/-- the next character (if any) is not a letter, digit or underscore -/
def TokEnd (rest : Inp) : Prop := ∀ c ∈ rest.head?, isLabelBody c = false

theorem tokEnd_nil : TokEnd [] := by simp [TokEnd]

theorem tokEnd_table : ∀ n < 128, isLabelBody (Char.ofNat n) = false →
    isNum (Char.ofNat n) = false ∧ isHexNum (Char.ofNat n) = false ∧ isBin (Char.ofNat n) = false ∧
      Char.ofNat n ≠ 'x' ∧ Char.ofNat n ≠ 'b' := by decide

theorem not_labelBody_facts (c : Char) (h : isLabelBody c = false) :
    isNum c = false ∧ isHexNum c = false ∧ isBin c = false ∧ c ≠ 'x' ∧ c ≠ 'b' := by
  by_cases hc : c.toNat < 128
  · exact ascii_cases (fun c => isLabelBody c = false → isNum c = false ∧ isHexNum c = false ∧ isBin c = false ∧
      c ≠ 'x' ∧ c ≠ 'b') c hc tokEnd_table h
  · have hx : isHexNum c = false := by
      cases hh : isHexNum c with
      | false => rfl
      | true => exact absurd (isHexNum_ascii c hh) hc
    have hn : isNum c = false := by
      cases hh : isNum c with
      | false => rfl
      | true => rw [(isNum_facts c hh).2.2.2.2.2] at hx; cases hx
    have hb : isBin c = false := by
      cases hh : isBin c with
      | false => rfl
      | true => rw [isBin_isNum c hh] at hn; cases hn
    refine ⟨hn, hx, hb, ?_, ?_⟩ <;> (rintro rfl; exact hc (by decide))

theorem TokEnd.numEnd {rest : Inp} (h : TokEnd rest) : NumEnd rest := by
  intro c hc
  have := not_labelBody_facts c (h c hc)
  exact ⟨this.1, this.2.2.2.1, this.2.2.2.2⟩

theorem TokEnd.hexEnd {rest : Inp} (h : TokEnd rest) : HexEnd rest :=
  fun c hc => (not_labelBody_facts c (h c hc)).2.1

theorem TokEnd.binEnd {rest : Inp} (h : TokEnd rest) : BinEnd rest :=
  fun c hc => (not_labelBody_facts c (h c hc)).2.2.1

theorem TokEnd.notDigit {rest : Inp} (h : TokEnd rest) : ∀ c ∈ rest.head?, isNum c = false :=
  fun c hc => (not_labelBody_facts c (h c hc)).1

theorem tokEnd_cons (c : Char) (r : Inp) (h : isLabelBody c = false) : TokEnd (c :: r) := by
  intro d hd
  simp only [List.head?_cons, Option.mem_def, Option.some.injEq] at hd
  subst hd; exact h

theorem isWs_not_labelBody (c : Char) (h : isWs c = true) : isLabelBody c = false := by
  simp only [isWs, Bool.or_eq_true, decide_eq_true_eq] at h
  rcases h with ((rfl | rfl) | rfl) | rfl <;> decide

/-- after a token: blanks, or one of the separators, or the end -/
theorem tokEnd_ws_append (ws r : Inp) (hws : AllWs ws) (hr : TokEnd r) : TokEnd (ws ++ r) := by
  cases ws with
  | nil => exact hr
  | cons c cs => exact tokEnd_cons c _ (isWs_not_labelBody c (hws c (by simp)))

end ArchSim.Lemmas.C04Spell
