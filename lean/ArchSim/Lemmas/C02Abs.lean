/-
C02 (control half), part 2: completion functions and the abstraction `abs`.
-/
import ArchSim.Lemmas.C02Step

namespace ArchSim.Pipe
open ArchSim ArchSim.Rv

/-- Result of completing in-flight instructions: the accumulated state (its `pc` is never touched)
    and `red`: `none` while the path is live, `some (a, none)` once an instruction redirected to `a`
    (taken branch, jump, exit), `some (a, some f)` once the instruction at address `a` got stuck
    with fault `f`. -/
structure Comp where
  st  : St
  red : Option (Int × Option Fault)
  /-- addresses of the instructions that were completed (retired), oldest first -/
  log : List Int := []

/-- The pc after the completion: the redirect target / address of the stuck instruction, else `x`. -/
def Comp.pcOr (c : Comp) (x : Int) : Int :=
  match c.red with
  | none => x
  | some (a, _) => a

/-- The fault the completion got stuck with. -/
def Comp.flt (c : Comp) : Option (Int × Fault) :=
  match c.red with
  | some (a, some f) => some (a, f)
  | _ => none

def Comp.bind (c : Comp) (f : St → Comp) : Comp :=
  match c.red with
  | none => ⟨(f c.st).st, (f c.st).red, c.log ++ (f c.st).log⟩
  | some _ => c

/-- Stop with a redirect target if there is one. -/
def finishC (s : St) (fl : Option Int) : Comp :=
  match fl with
  | some a => ⟨s, some (a % 4294967296, none), []⟩
  | none => ⟨s, none, []⟩

/-- Stop at a faulting instruction: nothing of it is executed, pc is its address. -/
def stuckC (s : St) (ft : PFault) : Comp := ⟨s, some (ft.addr, some ft.fault), []⟩

def orElseFl (a b : Option Int) : Option Int := match a with | some x => some x | none => b

/-- Remaining write-back of a MEM/WB latch; `fl` = redirect requested by earlier stages that has
    not been applied physically. -/
def latchLog (l : Option Latch) : List Int := match l with | some x => [x.addr] | none => []

def cWB (s : St) (m : Option Latch) (fl : Option Int) : Comp :=
  { finishC (wbStage s m).1 (orElseFl (latchFlush (wbStage s m).2) fl) with log := latchLog m }

def latchAddr (l : Option Latch) : Int := match l with | some x => x.addr | none => 0

/-- Memory access + write-back of an EX/MEM latch. -/
def cMEM (s : St) (e : Option Latch) (fl : Option Int) : Comp :=
  match (memStage s e).fault with
  | some ft => stuckC s ft
  | none => cWB (memStage s e).st (memStage s e).latch (orElseFl (latchFlush (memStage s e).latch) fl)

/-- Execute + memory + write-back of a final ID/EX latch, with nothing older in flight. -/
def cEX (s : St) (d : Option Latch) : Comp :=
  match (exStage s d none none).fault with
  | some ft => stuckC s ft
  | none => cMEM (exStage s d none none).st (exStage s d none none).latch
              (latchFlush (exStage s d none none).latch)

/-- Full execution of an IF/ID latch reading its sources from the accumulated state. -/
def cID (s : St) (f : Option Latch) : Comp := cEX s (idStage false s.regs f none none)

/-- The IF/ID latch that is younger than the input of ID (only while stalled). -/
def ifEntry (p : PSt) : Option Latch :=
  match p.stalled with
  | none => none
  | some _ => p.l0

/-- Completion of everything in flight, oldest first. -/
def absC (p : PSt) : Comp :=
  ((((cWB p.st p.l3 none).bind (fun s => cMEM s (memInput p) none)).bind
      (fun s => cEX s (exInput p))).bind (fun s => cID s (idInput p))).bind
      (fun s => cID s (ifEntry p))

def abs (p : PSt) : St := { (absC p).st with pc := (absC p).pcOr p.st.pc }

/-- The fault of the oldest in-flight instruction that will fault, if any. -/
def absF (p : PSt) : Option (Int × Fault) := (absC p).flt

/-- Observational equality of architectural states: everything except the cycle / stall / flush
    counters, the instruction-cache state, and the pc (compared separately). -/
structure Sim (s t : St) : Prop where
  regs : s.regs = t.regs
  mem : s.mem = t.mem
  output : s.output = t.output
  exitCode : s.exitCode = t.exitCode
  instrs : s.instrs = t.instrs
  branches : s.branches = t.branches
  procs : s.procs = t.procs
  prog : s.imem.prog = t.imem.prog

theorem Sim.rfl' (s : St) : Sim s s := ⟨rfl, rfl, rfl, rfl, rfl, rfl, rfl, rfl⟩
theorem Sim.symm {s t : St} (h : Sim s t) : Sim t s :=
  ⟨h.1.symm, h.2.symm, h.3.symm, h.4.symm, h.5.symm, h.6.symm, h.7.symm, h.8.symm⟩
theorem Sim.trans {s t u : St} (h : Sim s t) (g : Sim t u) : Sim s u :=
  ⟨h.1.trans g.1, h.2.trans g.2, h.3.trans g.3, h.4.trans g.4, h.5.trans g.5, h.6.trans g.6,
   h.7.trans g.7, h.8.trans g.8⟩

/-- Same redirect status, observationally equal states, and the log of `d` is `pre` followed by the
    log of `c`. -/
structure CSimL (pre : List Int) (c d : Comp) : Prop where
  red : c.red = d.red
  sim : Sim c.st d.st
  log : pre ++ c.log = d.log

/-- Same redirect status, observationally equal states, same log. -/
abbrev CSim (c d : Comp) : Prop := CSimL [] c d

/-- Addresses of the in-flight instructions that will retire, oldest first. -/
def absLog (p : PSt) : List Int := (absC p).log

end ArchSim.Pipe
