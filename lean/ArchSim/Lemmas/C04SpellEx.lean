/-
C04 (spelling independence), part 27: concrete spellings, lines and texts for the non-vacuity examples.
-/
import ArchSim.Lemmas.C04SpellFind

namespace ArchSim.Lemmas.C04Spell
open ArchSim ArchSim.PP ArchSim.Rv ArchSim.Asm ArchSim.Lemmas.C14

/-- `"  addi\tsp , sp , -0x10  "` -/
def spAddi : Spelling where
  lead := [false, false]
  gapTab := true
  r1 := .abi
  r2 := .abi
  imm := .hex 0 (fun _ => false)
  c1a := [false]
  c2a := [false]
  trail := [false, false]

def iAddi : Instr := { op := .addi, rd := 2, rs1 := 2, imm := -16 }

/-- `"bEq zero, ra, 0b100"` -/
def spBeq : Spelling where
  mnCase := fun k => k == 1
  r1 := .abi
  r2 := .abi
  imm := .bin 0

def iBeq : Instr := { op := .beq, rs1 := 0, rs2 := 1, imm := 4 }

/-- `"LW\ta0 , 0x1F ( fp )"` -/
def spLw : Spelling where
  mnCase := fun _ => true
  gapTab := true
  r1 := .abi
  r2 := .fp
  imm := .hex 0 (fun _ => true)
  c1a := [false]
  pa := [false]
  pb := [false]
  pc := [false]

def iLw : Instr := { op := .lw, rd := 10, rs1 := 8, imm := 31 }

/-- `"ADDI a0, zero, 0x10"` and `"sw a0, 0b100(sp)"` -/
def spL1 : Spelling where
  mnCase := fun _ => true
  r1 := .abi
  r2 := .abi
  imm := .hex 0 (fun _ => false)

def spL2 : Spelling where
  r1 := .abi
  r2 := .abi
  imm := .bin 0

def exProg : List Instr :=
  [{ op := .addi, rd := 10, rs1 := 0, imm := 16 }, { op := .sw, rs1 := 2, rs2 := 10, imm := 4 }]

def exLines : List (List Char) := ["ADDI a0, zero, 0x10".toList, "sw a0, 0b100(sp)".toList]

/-- the cleaned text -/
def tClean : String := "ADDI a0, zero, 0x10\nsw a0, 0b100(sp)"

/-- the same program with a comment line, blank lines, indentation (blanks and a tab) and a trailing comment -/
def tMessy : String := "# demo\n\n  ADDI a0, zero, 0x10   # set\n\tsw a0, 0b100(sp)\n\n"

theorem exProg_canon : ∀ k (hk : k < exProg.length), exProg[k].Canon (4 * k) ∧ exProg[k].op ≠ .fence := by
  intro k hk
  have : k = 0 ∨ k = 1 := by simp [exProg] at hk; omega
  rcases this with rfl | rfl <;> simp [exProg, Instr.Canon, Op.ty]

theorem exProg_aux : ∀ i ∈ exProg, i.aux.natAbs < 10 ^ 4300 := by
  intro i hi
  simp only [exProg, List.mem_cons, List.not_mem_nil, or_false] at hi
  rcases hi with rfl | rfl <;> exact small_natAbs _ (by decide) (by decide)

theorem spellable_small (i : Instr) (h1 : i.rd < 32) (h2 : i.rs1 < 32) (h3 : i.rs2 < 32)
    (h4 : -(2 : Int) ^ 64 ≤ i.imm ∧ i.imm ≤ (2 : Int) ^ 64) (h5 : -(2 : Int) ^ 64 ≤ i.aux ∧ i.aux ≤ (2 : Int) ^ 64)
    (h6 : i.op ≠ .fence) : Spellable i :=
  ⟨h1, h2, h3, small_natAbs _ h4.1 h4.2, small_natAbs _ h5.1 h5.2, h6⟩

end ArchSim.Lemmas.C04Spell
