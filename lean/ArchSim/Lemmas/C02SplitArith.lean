/-
C02 (data path), part 2: arithmetic of the two implementations.

`Instr.WF` (well-formed instruction of the supported set), the `fixedint` wrap lemmas, and for every
ALU family the fact that `alu_compute` on register operands `< 2^32` yields a Python int whose
`UInt32` wrap (done by `write_back`) is the value `behavior()` writes.
Core Lean only.
-/
import ArchSim.Model.Pipe

namespace ArchSim.Rv

/-- Range of the immediate a constructor stores, per instruction type. -/
def immRange (op : Op) (imm : Int) : Prop :=
  match op.ty with
  | .i | .memI | .s => -2048 ≤ imm ∧ imm < 2048
  | .shiftI => 0 ≤ imm ∧ imm < 32
  | .b => -4096 ≤ imm ∧ imm < 4096
  | .u => -524288 ≤ imm ∧ imm < 524288
  | .j => -1048576 ≤ imm ∧ imm < 1048576
  | _ => True

instance (op : Op) (imm : Int) : Decidable (immRange op imm) := by
  unfold immRange; split <;> infer_instance

/-- The supported set: everything except the CSR forms, `fence` and `ebreak`. -/
def Op.supported (op : Op) : Bool :=
  match op.ty with
  | .csr | .csri | .fence => false
  | _ => op != .ebreak

/-- A well-formed instruction object of the supported set: register numbers below 32, the stored
    immediate in the range its constructor produces, and `ecall` with the fields its constructor
    forces (`rd = rs1 = 0`, `imm = 0`). -/
def Instr.WF (i : Instr) : Prop :=
  i.op.supported = true ∧ i.rd < 32 ∧ i.rs1 < 32 ∧ i.rs2 < 32 ∧ immRange i.op i.imm ∧
  (i.op = .ecall → i.rd = 0 ∧ i.rs1 = 0 ∧ i.imm = 0)

instance (i : Instr) : Decidable i.WF := by unfold Instr.WF; infer_instance

end ArchSim.Rv

namespace ArchSim.Lemmas.C02Split
open ArchSim ArchSim.Rv

/-- What every constructor stores is in `immRange` (so `WF` is what assembled programs satisfy). -/
theorem immRange_storedImm (op : Op) (raw : Int) : immRange op (storedImm op raw) := by
  unfold immRange storedImm sextImm
  cases h : op.ty <;> simp only [] <;> (try split) <;> (try split) <;> omega

theorem wrapU_lt (x : Int) : wrapU x < 4294967296 := by unfold wrapU; omega
theorem wrapU_natCast (n : Nat) (h : n < 4294967296) : wrapU (n : Int) = n := by unfold wrapU; omega
theorem wrapU_toS (n : Nat) (h : n < 4294967296) : wrapU (toS n) = n := by unfold wrapU toS; split <;> omega
theorem toS_eq_zero (n : Nat) (h : n < 4294967296) : toS n = 0 ↔ n = 0 := by unfold toS; split <;> omega
theorem jalr_target (a : Nat) (imm : Int) (ha : a < 4294967296) (h1 : -2048 ≤ imm) (h2 : imm < 2048) :
    wrapU (toS a + sextBits 16 (wrapU imm)) = wrapU ((a : Int) + imm) := by
  unfold sextBits wrapU toS
  simp only [Nat.reducePow, Nat.reduceSub]
  split <;> split <;> omega
theorem store_alias (a : Nat) (imm : Int) : ∃ k : Int, (a : Int) + imm = ((a + wrapU imm) % 4294967296 : Nat) + k * 4294967296 := by
  refine ⟨((a : Int) + imm - ((a + wrapU imm) % 4294967296 : Nat)) / 4294967296, ?_⟩
  unfold wrapU
  omega

theorem xor_lt32 (a b : Nat) (ha : a < 4294967296) (hb : b < 4294967296) : a ^^^ b < 4294967296 :=
  Nat.xor_lt_two_pow (n := 32) ha hb
theorem or_lt32 (a b : Nat) (ha : a < 4294967296) (hb : b < 4294967296) : a ||| b < 4294967296 :=
  Nat.or_lt_two_pow (n := 32) ha hb
theorem and_lt32 (a b : Nat) (ha : a < 4294967296) : a &&& b < 4294967296 :=
  Nat.lt_of_le_of_lt Nat.and_le_left ha

theorem aluCompute_r (i : Instr) (a b : Nat) (hty : i.op.ty = .r) (ha : a < 4294967296) (hb : b < 4294967296) :
    ∃ v, aluCompute i (some (a : Int)) (some (b : Int)) = some (none, some v) ∧ wrapU v = aluRR i.op a b := by
  have hmul : a * b < 4294967296 * 4294967296 := Nat.mul_lt_mul'' ha hb
  cases hop : i.op <;> simp [hop, Op.ty] at hty <;>
    simp only [aluCompute, hop, Op.ty, wrapU_natCast a ha, wrapU_natCast b hb] <;>
    refine ⟨_, rfl, ?_⟩ <;> simp only [aluRR]
  case add => exact wrapU_natCast _ (Nat.mod_lt _ (by decide))
  case sub => exact wrapU_natCast _ (wrapU_lt _)
  case sll => exact wrapU_natCast _ (Nat.mod_lt _ (by decide))
  case slt => apply wrapU_natCast; split <;> omega
  case sltu => apply wrapU_natCast; split <;> omega
  case xor => exact wrapU_natCast _ (xor_lt32 a b ha hb)
  case srl => exact wrapU_natCast _ (Nat.lt_of_le_of_lt (Nat.div_le_self _ _) ha)
  case or => exact wrapU_natCast _ (or_lt32 a b ha hb)
  case and => exact wrapU_natCast _ (and_lt32 a b ha)
  case mul => exact wrapU_natCast _ (Nat.mod_lt _ (by decide))
  case mulhu =>
    have h : ((a : Int) * (b : Int) / 4294967296) = ((a * b / 4294967296 : Nat) : Int) := by
      simp only [Int.natCast_ediv, Int.natCast_mul]; rfl
    rw [h]
    exact wrapU_natCast _ (Nat.div_lt_of_lt_mul hmul)
  case div =>
    by_cases hb0 : b = 0
    · subst hb0; rfl
    · have : toS b ≠ 0 := fun h => hb0 ((toS_eq_zero b hb).mp h)
      simp [hb0, this]
  case divu =>
    by_cases hb0 : b = 0
    · subst hb0; rfl
    · simp only [hb0, if_false]
      exact wrapU_natCast _ (Nat.lt_of_le_of_lt (Nat.div_le_self _ _) ha)
  case rem =>
    by_cases hb0 : b = 0
    · subst hb0
      have h0 : toS 0 = 0 := by decide
      simp only [h0, if_true]
      exact wrapU_toS a ha
    · have : toS b ≠ 0 := fun h => hb0 ((toS_eq_zero b hb).mp h)
      simp [hb0, this]
  case remu =>
    apply wrapU_natCast
    split
    · exact ha
    · exact Nat.lt_of_le_of_lt (Nat.mod_le _ _) ha

theorem wrapS_natCast (n : Nat) (h : n < 4294967296) : wrapS (n : Int) = toS n := by
  simp only [wrapS, wrapU_natCast n h]

/-- The I-type ALU ops proper. -/
def Op.isAluI (op : Op) : Bool :=
  match op with
  | .addi | .slti | .sltiu | .xori | .ori | .andi => true
  | _ => false

theorem aluCompute_i (i : Instr) (a : Nat) (imm : Int) (hop : Op.isAluI i.op = true) (ha : a < 4294967296) :
    ∃ v, aluCompute i (some (a : Int)) (some imm) = some (none, some v) ∧ wrapU v = aluRI i.op a imm := by
  have hw := wrapU_lt imm
  cases hop' : i.op <;> simp [hop', Op.isAluI] at hop <;>
    simp only [aluCompute, hop', Op.ty, wrapU_natCast a ha, wrapS_natCast a ha, reduceCtorEq, if_false] <;>
    refine ⟨_, rfl, ?_⟩ <;> simp only [aluRI]
  case addi => exact wrapU_natCast _ (Nat.mod_lt _ (by decide))
  case slti => split <;> rfl
  case sltiu => apply wrapU_natCast; split <;> omega
  case xori => exact wrapU_natCast _ (xor_lt32 _ _ ha hw)
  case ori => exact wrapU_natCast _ (or_lt32 _ _ ha hw)
  case andi => exact wrapU_natCast _ (and_lt32 _ _ ha)

theorem aluCompute_shift (i : Instr) (a : Nat) (hty : i.op.ty = .shiftI) (ha : a < 4294967296)
    (h0 : 0 ≤ i.imm) (h1 : i.imm < 32) :
    ∃ v, aluCompute i (some (a : Int)) (some i.imm) = some (none, some v) ∧ wrapU v = aluRI i.op a i.imm := by
  cases hop' : i.op <;> simp [hop', Op.ty] at hty <;>
    simp only [aluCompute, hop', Op.ty, wrapU_natCast a ha, if_neg (Int.not_lt.mpr h0)] <;>
    refine ⟨_, rfl, ?_⟩ <;> simp only [aluRI]
  case slli => exact wrapU_natCast _ (Nat.mod_lt _ (by decide))
  case srli => exact wrapU_natCast _ (Nat.lt_of_le_of_lt (Nat.div_le_self _ _) ha)
  case srai =>
    have : i.imm % 65536 = i.imm := by omega
    rw [this]

theorem aluCompute_b (i : Instr) (a b : Nat) (hty : i.op.ty = .b) (ha : a < 4294967296) (hb : b < 4294967296) :
    aluCompute i (some (a : Int)) (some (b : Int)) = some (some (branchCond i.op a b), none) := by
  cases hop' : i.op <;> simp [hop', Op.ty] at hty <;>
    simp [aluCompute, hop', Op.ty, wrapS_natCast a ha, wrapS_natCast b hb, branchCond]
  case beq => exact Bool.eq_iff_iff.mpr (by simp; omega)
  case bne => exact Bool.eq_iff_iff.mpr (by simp; omega)

end ArchSim.Lemmas.C02Split
