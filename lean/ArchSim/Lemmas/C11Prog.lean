/-
C11 (program level), part 1: an instruction memory with a cache that satisfies `IInv` is coherent
(`Pipe.ICoh`), the hypothesis of the pipeline control refinement (C02).
-/
import ArchSim.Lemmas.C11Step
import ArchSim.Lemmas.C02Ex

namespace ArchSim.Lemmas.C11Prog
open ArchSim ArchSim.Cache ArchSim.Rv ArchSim.Pipe ArchSim.Lemmas.C09 ArchSim.Lemmas.C11

/-- An occupied address is non-negative, word-aligned and below `4 * length`. -/
theorem instrAt_some_bounds {im : IMem} {pc : Int} {i : Instr} (h : im.instrAt pc = some i) :
    0 ≤ pc ∧ pc % 4 = 0 ∧ pc < 4 * (im.prog.length : Int) := by
  unfold IMem.instrAt at h
  split at h
  · rename_i hpc
    have hlt : (pc / 4).toNat < im.prog.length := (List.getElem?_eq_some_iff.1 h).1
    refine ⟨hpc.1, hpc.2, ?_⟩
    omega
  · cases h

/-- A cached instruction memory satisfying the invariant is fetch-sound (the program must fit the
    32-bit address space, or `pc` would wrap in the cache's address decoder). -/
theorem fetchSound_icache {im : IMem} {c : ICache} (hc : im.cache = some c) (hinv : IInv im c)
    (hl : im.prog.length ≤ 1073741824) : FetchSound im := by
  intro pc i hi
  obtain ⟨h0, h4, hlt⟩ := instrAt_some_bounds hi
  obtain ⟨hres, ⟨c', him, _⟩, _⟩ := fetch_spec hc hinv pc
  refine ⟨?_, by rw [him]⟩
  rw [hres, aligned_wrap h0 (by omega) h4, hi]

/-- Any sequence of fetches keeps the cache in the invariant (and touches nothing else). -/
theorem fetchAll_icache {im : IMem} {c : ICache} (hc : im.cache = some c) (hinv : IInv im c) :
    ∀ pcs, ∃ c', fetchAll im pcs = { im with cache := some c' } ∧ IInv im c'
  | [] => ⟨c, by cases im; simp only [fetchAll] at *; rw [hc], hinv⟩
  | pc :: pcs => by
    obtain ⟨_, ⟨c1, h1, hinv1, _⟩, _⟩ := fetch_spec hc hinv pc
    have hprog : ({ im with cache := some c1 } : IMem).prog = im.prog := rfl
    obtain ⟨c', h2, hinv2⟩ :=
      fetchAll_icache (im := { im with cache := some c1 }) (c := c1) rfl (hinv1.congr hprog) pcs
    exact ⟨c', by rw [fetchAll, h1, h2], hinv2.congr hprog.symm⟩

/-- **Coherence for every instruction-cache configuration.** -/
theorem ICoh_icache_aux {im : IMem} {c : ICache} (hc : im.cache = some c) (hinv : IInv im c)
    (hl : im.prog.length ≤ 1073741824) : ICoh im := by
  intro pcs
  obtain ⟨c', h, hinv'⟩ := fetchAll_icache hc hinv pcs
  rw [h]
  exact fetchSound_icache (im := { im with cache := some c' }) rfl (hinv'.congr rfl) hl

end ArchSim.Lemmas.C11Prog
