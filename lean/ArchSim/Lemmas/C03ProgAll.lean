/-
C03 (program level), part 9: from a terminating, fault-free flat single-cycle run to the completion of
both five-stage runs (with and without data cache).
-/
import ArchSim.Lemmas.C03ProgFive
import ArchSim.Lemmas.C03ProgTerm

namespace ArchSim.Lemmas.C03Prog
open ArchSim ArchSim.Cache ArchSim.Mem ArchSim.Rv ArchSim.Pipe ArchSim.Spec.CacheAbs ArchSim.Spec.TagCache

/-- If the two implementations agree on the first `k` states of the single-cycle run and none of these
    steps raises, the sequential machine is the single-cycle machine up to step `k` and does not raise
    before. -/
theorem seqRun_eq_of_nofault (s : St) (k : Nat) (hag : ∀ j, j < k → AgreeStep (singleRun j s))
    (hnf : ∀ j, j < k → (singleStep (singleRun j s)).fault = none) :
    ∀ j, j ≤ k → seqRun j s = singleRun j s ∧ ∀ j', j' < j → seqFault (seqRun j' s) = none
  | 0, _ => ⟨rfl, fun _ h => absurd h (Nat.not_lt_zero _)⟩
  | j + 1, hj => by
    obtain ⟨ih, ihf⟩ := seqRun_eq_of_nofault s k hag hnf j (by omega)
    obtain ⟨a1, a2⟩ := hag j (by omega)
    have hn := hnf j (by omega)
    have hsf : seqFault (seqRun j s) = none := by unfold seqFault; rw [ih, a1, hn]
    refine ⟨?_, fun j' hj' => ?_⟩
    · show seqStep (seqRun j s) = (singleStep (singleRun j s)).st
      unfold seqStep
      rw [ih, a1, hn]
      exact a2 hn
    · rcases Nat.lt_or_ge j' j with hlt | hge
      · exact ihf j' hlt
      · have : j' = j := by omega
        subst this; exact hsf

/-- Both five-stage loops stop without a fault within `5 * (k + 2)` cycles when the flat single-cycle
    run is first done after `k` fault-free, accepted steps. -/
theorem both_complete {sc sf : St} (h : CacheRel sc sf) (prog : List Instr) (hp : ProgWF prog)
    (him : sf.imem = { prog := prog, cache := none }) (hs : ArchSim.Lemmas.C01.StOK sf)
    (hacc : RunAccepted sf) (k : Nat) (hd : singleDone (singleRun k sf) = true)
    (hnd : ∀ j, j < k → singleDone (singleRun j sf) = false)
    (hnf : ∀ j, j < k → (singleStep (singleRun j sf)).fault = none) :
    (∃ nc, nc ≤ 5 * (k + 2) ∧ runOK nc (PSt.init sc true) ∧
      isDone (pipeRun nc (PSt.init sc true)) = true ∧
      ∀ m, m < nc → isDone (pipeRun m (PSt.init sc true)) = false) ∧
    (∃ nf, nf ≤ 5 * (k + 2) ∧ runOK nf (PSt.init sf true) ∧
      isDone (pipeRun nf (PSt.init sf true)) = true ∧
      ∀ m, m < nf → isDone (pipeRun m (PSt.init sf true)) = false) := by
  have hicf : sf.imem.cache = none := by rw [him]
  have hlf : sf.imem.prog.length ≤ 4096 := by rw [him]; exact hp.len
  have cohf : ICoh sf.imem := ICoh_nocache sf.imem hicf hlf
  have pokf : Pipe.ProgOK sf.imem := hp.c02 sf.imem (by rw [him])
  have hacc' : ∀ j, j < k → StepAccepted (singleRun j sf) :=
    fun j hj => hacc j (fun j' hj' => hnd j' (by omega))
  have hrel : ∀ j, j ≤ k → CacheRel (singleRun j sc) (singleRun j sf) :=
    fun j hj => (singleRun_rel h j (fun j' hj' => hacc' j' (by omega))).1
  have hnfc : ∀ j, j < k → (singleStep (singleRun j sc)).fault = none := by
    intro j hj
    rw [(singleRun_rel h (j + 1) (fun j' hj' => hacc' j' (by omega))).2 j (by omega)]
    exact hnf j hj
  have ef := seqRun_eq_of_nofault sf k (fun j hj => agree_flat prog hp sf him hs j (hnd j hj)) hnf
  have ec := seqRun_eq_of_nofault sc k
    (fun j hj => agree_cached prog hp sc sf him hs j (hrel j (by omega)) (hacc' j hj)
      (by rw [(hrel j (by omega)).singleDone]; exact hnd j hj)) hnfc
  constructor
  · exact loop_completes sc (by rw [h.imem]; exact pokf) (by rw [h.imem]; exact cohf) k
      (by rw [(ec k (Nat.le_refl _)).1, (hrel k (Nat.le_refl _)).singleDone]; exact hd)
      (fun j hj => (ec (j + 1) (by omega)).2 j (by omega))
  · exact loop_completes sf pokf cohf k (by rw [(ef k (Nat.le_refl _)).1]; exact hd)
      (fun j hj => (ef (j + 1) (by omega)).2 j (by omega))

end ArchSim.Lemmas.C03Prog
