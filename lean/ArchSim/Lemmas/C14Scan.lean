/-
C14 helper lemmas, part 1: generic facts about the scanners of `Model.PP` on inputs of the shape
`word ++ rest` (a lower-case word followed by a space or the end; a digit string followed by a
non-digit), and the selection rule of `orLongest`.
-/
import ArchSim.Model.Asm

namespace ArchSim.Lemmas.C14
open ArchSim ArchSim.PP ArchSim.Rv ArchSim.Asm

/-! ### `R` plumbing -/

@[simp] theorem bind_ok {α β : Type} (a : α) (r : Inp) (f : α → Inp → R β) : (R.ok a r).bind f = f a r := rfl
@[simp] theorem bind_fail {α β : Type} (f : α → Inp → R β) : (R.fail : R α).bind f = .fail := rfl
@[simp] theorem bind_abort {α β : Type} (f : α → Inp → R β) : (R.abort : R α).bind f = .abort := rfl
@[simp] theorem map_ok {α β : Type} (a : α) (r : Inp) (f : α → β) : (R.ok a r).map f = .ok (f a) r := rfl
@[simp] theorem map_fail {α β : Type} (f : α → β) : (R.fail : R α).map f = .fail := rfl
@[simp] theorem map_abort {α β : Type} (f : α → β) : (R.abort : R α).map f = .abort := rfl

/-! ### the longest-first symbol list -/

theorem pairwise_longestFirst (syms : List String) :
    (longestFirst syms).Pairwise (fun a b => b.length ≤ a.length) := by
  have h := List.pairwise_mergeSort (le := fun (a b : String) => decide (a.length ≥ b.length))
    (by intro a b c; simp only [decide_eq_true_eq]; omega)
    (by intro a b; simp only [Bool.or_eq_true, decide_eq_true_eq]; omega) syms
  refine List.Pairwise.imp ?_ h
  intro a b hab; simpa using hab

theorem find_longestFirst_none (syms : List String) (p : String → Bool)
    (h : ∀ t ∈ syms, p t = false) : (longestFirst syms).find? p = none := by
  rw [List.find?_eq_none]
  intro x hx
  have : x ∈ syms := by simpa [longestFirst] using hx
  simp [h x this]

/-- The first match in the longest-first list is the (unique) longest matching symbol. -/
theorem find_longestFirst_some (syms : List String) (p : String → Bool) (s : String)
    (hs : s ∈ syms) (hp : p s = true)
    (hbest : ∀ t ∈ syms, p t = true → t.length < s.length ∨ t = s) :
    (longestFirst syms).find? p = some s := by
  have hsL : s ∈ longestFirst syms := by simpa [longestFirst] using hs
  cases hf : (longestFirst syms).find? p with
  | none =>
    rw [List.find?_eq_none] at hf
    exact absurd hp (hf s hsL)
  | some t =>
    have hf' := hf
    rw [List.find?_eq_some_iff_append] at hf'
    obtain ⟨hpt, as, bs, hL, hno⟩ := hf'
    have htL : t ∈ syms := by
      have : t ∈ longestFirst syms := by rw [hL]; simp
      simpa [longestFirst] using this
    rcases hbest t htL hpt with hlt | rfl
    · exfalso
      have hpw := pairwise_longestFirst syms
      rw [hL] at hpw hsL
      rw [List.pairwise_append] at hpw
      obtain ⟨_, hpw2, _⟩ := hpw
      rw [List.pairwise_cons] at hpw2
      rcases List.mem_append.mp hsL with h1 | h2
      · have := hno s h1; simp [hp] at this
      · rcases List.mem_cons.mp h2 with rfl | h3
        · omega
        · have := hpw2.1 s h3; omega
    · rfl

/-! ### literal prefixes -/

theorem stripPrefix_eq (p i : List Char) :
    stripPrefix p i = if p.isPrefixOf i then some (i.drop p.length) else none := by
  induction p generalizing i with
  | nil => simp [stripPrefix]
  | cons a p ih =>
    cases i with
    | nil => simp [stripPrefix]
    | cons b i =>
      simp only [stripPrefix, List.isPrefixOf_cons_cons, List.length_cons, List.drop_succ_cons, ih]
      by_cases hab : a = b
      · simp [hab]
      · simp [hab]

/-- A symbol made of class-`P` characters is a prefix of `ds ++ rest` iff it is a prefix of `ds`,
    when `rest` does not start with a class-`P` character. -/
theorem isPrefixOf_append_class (P : Char → Bool) (s ds rest : List Char)
    (hs : ∀ c ∈ s, P c = true) (hr : ∀ c ∈ rest.head?, P c = false) :
    s.isPrefixOf (ds ++ rest) = s.isPrefixOf ds := by
  induction s generalizing ds with
  | nil => simp
  | cons a s ih =>
    cases ds with
    | nil =>
      cases rest with
      | nil => simp
      | cons c r =>
        have h1 : P a = true := hs a (by simp)
        have h2 : P c = false := hr c (by simp)
        have : a ≠ c := by intro h; rw [h] at h1; rw [h1] at h2; cases h2
        simp [List.isPrefixOf_cons_cons, this]
    | cons d ds =>
      simp only [List.cons_append, List.isPrefixOf_cons_cons]
      rw [ih ds (fun c hc => hs c (by simp [hc]))]

theorem oneOf_go_eq (i : Inp) (l : List String) :
    oneOf.go i l =
      match l.find? (fun s => s.toList.isPrefixOf i) with
      | some s => .ok s (i.drop s.toList.length)
      | none => .fail := by
  induction l with
  | nil => simp [oneOf.go]
  | cons s l ih =>
    simp only [oneOf.go, stripPrefix_eq, List.find?_cons]
    by_cases h : s.toList.isPrefixOf i = true
    · simp [h]
    · simp only [h]; simpa using ih

/-! ### whitespace -/

theorem skipWs_cons_of_not_ws (c : Char) (r : Inp) (h : isWs c = false) : skipWs (c :: r) = c :: r := by
  simp [skipWs, h]

@[simp] theorem skipWs_space (r : Inp) : skipWs (' ' :: r) = skipWs r := by
  simp [skipWs, isWs]

@[simp] theorem skipWs_nil : skipWs [] = [] := rfl

@[simp] theorem lit_space (s : String) (r : Inp) : lit s (' ' :: r) = lit s r := by simp [lit]
@[simp] theorem oneOf_space (l : List String) (r : Inp) : oneOf l (' ' :: r) = oneOf l r := by simp [oneOf]
@[simp] theorem word_space (a b : Char → Bool) (r : Inp) : word a b (' ' :: r) = word a b r := by simp [word]

/-! ### `takeWhile` / `dropWhile` on `ds ++ rest` -/

theorem takeWhile_class (P : Char → Bool) (ds rest : List Char)
    (hd : ∀ c ∈ ds, P c = true) (hr : ∀ c ∈ rest.head?, P c = false) :
    (ds ++ rest).takeWhile P = ds := by
  rw [List.takeWhile_append_of_pos hd]
  cases rest with
  | nil => simp
  | cons c r => simp [hr c (by simp)]

theorem dropWhile_class (P : Char → Bool) (ds rest : List Char)
    (hd : ∀ c ∈ ds, P c = true) (hr : ∀ c ∈ rest.head?, P c = false) :
    (ds ++ rest).dropWhile P = rest := by
  rw [List.dropWhile_append_of_pos hd]
  cases rest with
  | nil => simp
  | cons c r => simp [hr c (by simp)]

/-! ### lower-case ASCII letters -/

def isLow (c : Char) : Bool := 'a' ≤ c && c ≤ 'z'

def lowList : List Char := "abcdefghijklmnopqrstuvwxyz".toList

theorem isLow_mem (c : Char) (h : isLow c = true) : c ∈ lowList := by
  have h1 : ∀ n < 123, 97 ≤ n → Char.ofNat n ∈ lowList := by decide
  have hc := Char.ofNat_toNat c
  simp only [isLow, Bool.and_eq_true, decide_eq_true_eq, Char.le_def, UInt32.le_iff_toNat_le] at h
  have h2 : c.toNat = c.val.toNat := rfl
  rw [← hc]
  apply h1
  · have : ('z' : Char).val.toNat = 122 := by decide
    omega
  · have : ('a' : Char).val.toNat = 97 := by decide
    omega

theorem low_facts : ∀ p ∈ lowList,
    isWs p = false ∧ reCharMatch p ' ' = false ∧ upperAscii p ≠ upperAscii ' ' ∧
    lowersTo [p] = true := by decide

theorem low_pair_facts : ∀ p ∈ lowList, ∀ c ∈ lowList,
    reCharMatch p c = (p == c) ∧ (upperAscii c = upperAscii p ↔ p = c) := by decide

theorem lowersTo_low (s : List Char) (hs : ∀ c ∈ s, isLow c = true) : lowersTo s = true := by
  simp only [lowersTo, List.all_eq_true]
  intro c hc
  have := (low_facts c (isLow_mem c (hs c hc))).2.2.2
  simpa [lowersTo] using this

/-- `rest` is empty or starts with a blank: what follows a printed mnemonic. -/
def WordEnd (rest : Inp) : Prop := rest = [] ∨ ∃ r, rest = ' ' :: r

theorem wordEnd_nil : WordEnd [] := Or.inl rfl
theorem wordEnd_space (r : Inp) : WordEnd (' ' :: r) := Or.inr ⟨r, rfl⟩

theorem rePrefix_low (sym pre rest : List Char) (hs : ∀ c ∈ sym, isLow c = true)
    (hp : ∀ c ∈ pre, isLow c = true) (hr : WordEnd rest) :
    rePrefix sym (pre ++ rest) =
      if sym.isPrefixOf pre then some (sym, pre.drop sym.length ++ rest) else none := by
  induction sym generalizing pre with
  | nil => simp [rePrefix]
  | cons p ps ih =>
    have hpl := isLow_mem p (hs p (by simp))
    cases pre with
    | nil =>
      rcases hr with rfl | ⟨r, rfl⟩
      · simp [rePrefix]
      · simp [rePrefix, (low_facts p hpl).2.1]
    | cons c cs =>
      have hcl := isLow_mem c (hp c (by simp))
      have hm := (low_pair_facts p hpl c hcl).1
      simp only [List.cons_append, rePrefix, hm, List.isPrefixOf_cons_cons, List.length_cons,
        List.drop_succ_cons]
      rw [ih cs (fun c hc => hs c (by simp [hc])) (fun c hc => hp c (by simp [hc]))]
      by_cases hpc : p = c
      · subst hpc
        by_cases h2 : ps.isPrefixOf cs = true
        · simp [h2]
        · simp [h2]
      · simp [hpc]

theorem oneOfCaseless_go_low (l : List String) (pre rest : List Char)
    (hl : ∀ s ∈ l, ∀ c ∈ s.toList, isLow c = true)
    (hp : ∀ c ∈ pre, isLow c = true) (hr : WordEnd rest) :
    oneOfCaseless.go (pre ++ rest) l =
      match l.find? (fun s => s.toList.isPrefixOf pre) with
      | some s => .ok s (pre.drop s.toList.length ++ rest)
      | none => .fail := by
  induction l with
  | nil => simp [oneOfCaseless.go]
  | cons s l ih =>
    have hs := hl s (by simp)
    simp only [oneOfCaseless.go, rePrefix_low s.toList pre rest hs hp hr, List.find?_cons]
    by_cases h : s.toList.isPrefixOf pre = true
    · simp [h, lowersTo_low s.toList hs]
    · simp only [h]
      simpa using ih (fun t ht => hl t (by simp [ht]))

theorem skipWs_low (pre rest : List Char) (hp : ∀ c ∈ pre, isLow c = true) (hne : pre ≠ []) :
    skipWs (pre ++ rest) = pre ++ rest := by
  cases pre with
  | nil => exact absurd rfl hne
  | cons c cs =>
    exact skipWs_cons_of_not_ws c _ (low_facts c (isLow_mem c (hp c (by simp)))).1

/-- `one_of(syms, caseless=True)` on a lower-case word followed by a blank or the end: the longest
    symbol that is a prefix of the word. -/
theorem oneOfCaseless_low (syms : List String) (pre rest : List Char)
    (hl : ∀ s ∈ syms, ∀ c ∈ s.toList, isLow c = true)
    (hp : ∀ c ∈ pre, isLow c = true) (hne : pre ≠ []) (hr : WordEnd rest) :
    oneOfCaseless syms (pre ++ rest) =
      match (longestFirst syms).find? (fun s => s.toList.isPrefixOf pre) with
      | some s => .ok s (pre.drop s.toList.length ++ rest)
      | none => .fail := by
  unfold oneOfCaseless
  simp only [skipWs_low pre rest hp hne]
  exact oneOfCaseless_go_low _ pre rest
    (fun s hs => hl s (by simpa [longestFirst] using hs)) hp hr

theorem caseless_aux (k pre rest : List Char) (hk : ∀ c ∈ k, isLow c = true)
    (hp : ∀ c ∈ pre, isLow c = true) (hr : WordEnd rest) :
    (((pre ++ rest).take k.length).length = k.length ∧
      ((pre ++ rest).take k.length).map upperAscii = k.map (fun c => upperAscii c)) ↔
    k.isPrefixOf pre = true := by
  induction k generalizing pre with
  | nil => simp
  | cons a k ih =>
    have hal := isLow_mem a (hk a (by simp))
    cases pre with
    | nil =>
      rcases hr with rfl | ⟨r, rfl⟩
      · simp
      · have := (low_facts a hal).2.2.1
        simp only [List.nil_append, List.length_cons, List.take_succ_cons, List.map_cons,
          List.cons.injEq]
        constructor
        · rintro ⟨_, h, _⟩; exact absurd h.symm this
        · intro h; simp [List.isPrefixOf] at h
    | cons c cs =>
      have hcl := isLow_mem c (hp c (by simp))
      have hm := (low_pair_facts a hal c hcl).2
      have ih' := ih cs (fun c hc => hk c (by simp [hc])) (fun c hc => hp c (by simp [hc]))
      simp only [List.cons_append, List.length_cons, List.take_succ_cons, List.map_cons,
        List.cons.injEq, List.isPrefixOf_cons_cons, Bool.and_eq_true, beq_iff_eq, Nat.add_right_cancel_iff]
      rw [hm, ← ih']
      constructor
      · rintro ⟨h1, h2, h3⟩; exact ⟨h2, h1, h3⟩
      · rintro ⟨h2, h1, h3⟩; exact ⟨h1, h2, h3⟩

/-- `CaselessLiteral(kw)` on a lower-case word followed by a blank or the end. -/
theorem caselessLit_low (kw : String) (pre rest : List Char) (hk : ∀ c ∈ kw.toList, isLow c = true)
    (hp : ∀ c ∈ pre, isLow c = true) (hne : pre ≠ []) (hr : WordEnd rest) :
    caselessLit kw (pre ++ rest) =
      if kw.toList.isPrefixOf pre then .ok () (pre.drop kw.toList.length ++ rest) else .fail := by
  unfold caselessLit
  simp only [skipWs_low pre rest hp hne]
  have h := caseless_aux kw.toList pre rest hk hp hr
  by_cases hpre : kw.toList.isPrefixOf pre = true
  · rw [if_pos (h.mpr hpre), if_pos hpre]
    congr 1
    have hle : kw.toList.length ≤ pre.length := by
      have := List.isPrefixOf_iff_prefix.mp hpre
      exact this.length_le
    rw [List.drop_append_of_le_length hle]
  · rw [if_neg (fun hc => hpre (h.mp hc)), if_neg hpre]

/-! ### `orLongest` -/

/-- A result that cannot beat a complete match: a failure, or a match that leaves input. -/
def Lose {α : Type} : R α → Prop
  | .fail => True
  | .abort => False
  | .ok _ rest => rest ≠ []

def NoAbort {α : Type} : R α → Prop
  | .abort => False
  | _ => True

theorem Lose.noAbort {α : Type} {r : R α} (h : Lose r) : NoAbort r := by
  cases r <;> simp_all [Lose, NoAbort]

@[simp] theorem lose_fail {α : Type} : Lose (R.fail : R α) := trivial
@[simp] theorem noAbort_fail {α : Type} : NoAbort (R.fail : R α) := trivial
@[simp] theorem noAbort_ok {α : Type} (a : α) (r : Inp) : NoAbort (R.ok a r) := trivial
theorem lose_ok_cons {α : Type} (a : α) (c : Char) (r : Inp) : Lose (R.ok a (c :: r)) := by simp [Lose]

theorem lose_map {α β : Type} (f : α → β) (r : R α) (h : Lose r) : Lose (r.map f) := by
  cases r <;> simp_all [Lose, R.map]

theorem noAbort_map {α β : Type} (f : α → β) (r : R α) (h : NoAbort r) : NoAbort (r.map f) := by
  cases r <;> simp_all [NoAbort, R.map]

def orStep {α : Type} (best r : R α) : R α :=
  match best, r with
  | .ok _ rb, .ok a ra => if ra.length < rb.length then .ok a ra else best
  | .ok _ _, _ => best
  | _, r => r

def isAbort {α : Type} : R α → Bool
  | .abort => true
  | _ => false

theorem orLongest_eq {α : Type} (ps : List (Inp → R α)) (i : Inp) :
    orLongest ps i =
      if (ps.map (fun p => p i)).any isAbort then .abort
      else (ps.map (fun p => p i)).foldl orStep .fail := rfl

theorem foldl_orStep_done {α : Type} (a : α) (rs : List (R α)) :
    rs.foldl orStep (.ok a []) = .ok a [] := by
  induction rs with
  | nil => rfl
  | cons r rs ih =>
    simp only [List.foldl_cons]
    have : orStep (.ok a []) r = .ok a [] := by
      cases r <;> simp [orStep]
    rw [this, ih]

theorem foldl_orStep_lose {α : Type} (pre : List (R α)) (best : R α) (hb : Lose best)
    (hpre : ∀ r ∈ pre, Lose r) (a : α) (post : List (R α)) :
    (pre ++ .ok a [] :: post).foldl orStep best = .ok a [] := by
  induction pre generalizing best with
  | nil =>
    simp only [List.nil_append, List.foldl_cons]
    have : orStep best (.ok a []) = .ok a [] := by
      cases best with
      | fail => rfl
      | abort => exact absurd hb (by simp [Lose])
      | ok b rb =>
        have : rb ≠ [] := hb
        have : 0 < rb.length := List.length_pos_iff.mpr this
        simp [orStep, this]
    rw [this, foldl_orStep_done]
  | cons r pre ih =>
    simp only [List.cons_append, List.foldl_cons]
    apply ih
    · have hr : Lose r := hpre r (by simp)
      cases best with
      | fail => cases r <;> simp_all [orStep]
      | abort => exact absurd hb (by simp [Lose])
      | ok b rb =>
        cases r with
        | fail => simpa [orStep] using hb
        | abort => exact absurd hr (by simp [Lose])
        | ok c rc =>
          simp only [orStep]
          split
          · exact hr
          · exact hb
    · intro r' hr'; exact hpre r' (by simp [hr'])

/-- Selection rule of `Or`: an alternative that consumes the whole input wins if every earlier
    alternative fails or leaves input, and no alternative aborts. -/
theorem orLongest_pick {α : Type} (pre post : List (Inp → R α)) (p : Inp → R α) (i : Inp) (a : α)
    (hp : p i = .ok a [])
    (hpre : ∀ q ∈ pre, Lose (q i)) (hpost : ∀ q ∈ post, NoAbort (q i)) :
    orLongest (pre ++ p :: post) i = .ok a [] := by
  rw [orLongest_eq]
  have hany : ((pre ++ p :: post).map (fun p => p i)).any isAbort = false := by
    rw [List.any_eq_false]
    intro r hr
    simp only [List.map_append, List.map_cons, List.mem_append, List.mem_map, List.mem_cons] at hr
    rcases hr with ⟨q, hq, rfl⟩ | rfl | ⟨q, hq, rfl⟩
    · have := (hpre q hq).noAbort
      cases h : q i <;> simp_all [NoAbort, isAbort]
    · simp [hp, isAbort]
    · have := hpost q hq
      cases h : q i <;> simp_all [NoAbort, isAbort]
  rw [hany]
  simp only [Bool.false_eq_true, if_false, List.map_append, List.map_cons, hp]
  apply foldl_orStep_lose
  · trivial
  · intro r hr
    simp only [List.mem_map] at hr
    obtain ⟨q, hq, rfl⟩ := hr
    exact hpre q hq

end ArchSim.Lemmas.C14
