/-
C07 helper lemmas: pipeline slots of a straight-line run of plain instructions. `Slot prog Q l o`
says the register `l` is empty (`o = none`) or holds program instruction number `m` (`o = some m`)
in a latch satisfying `Q`; each stage maps a slot to the slot of the next register.
Core Lean only.
-/
import ArchSim.Lemmas.C07Plain
import ArchSim.Lemmas.C07Book

namespace ArchSim.Lemmas.C07
open ArchSim ArchSim.Rv ArchSim.Pipe ArchSim.Lemmas.C02Split

def Slot (prog : List Instr) (Q : Latch → Prop) (l : Option Latch) (o : Option Nat) : Prop :=
  match o with
  | none => l = none
  | some m => ∃ x, l = some x ∧ prog[m]? = some x.instr ∧ Q x

/-- What ID guarantees about the latch it hands to EX. -/
def Q1 (x : Latch) : Prop := ∃ regs, x.rr = accessRegs x.instr regs
/-- What EX and MEM guarantee about the latch they hand on (for plain instructions). -/
def Q2 (x : Latch) : Prop := x.exitCode = none

theorem slot_plain {prog : List Instr} (hplain : ∀ i ∈ prog, PlainInstr i) {m : Nat} {i : Instr}
    (h : prog[m]? = some i) : PlainInstr i :=
  hplain i (List.mem_of_getElem? h)

theorem slot_ex (prog : List Instr) (hplain : ∀ i ∈ prog, PlainInstr i) (s : St)
    (l1 l2 l3 : Option Latch) (o : Option Nat) (h : Slot prog Q1 l1 o) :
    (exStage s l1 l2 l3).st = s ∧ (exStage s l1 l2 l3).fault = none ∧
    Slot prog Q2 (exStage s l1 l2 l3).latch o ∧ latchStall (exStage s l1 l2 l3).latch = false ∧
    latchFlush (exStage s l1 l2 l3).latch = none := by
  cases o with
  | none =>
    have : l1 = none := h
    subst this
    exact ⟨rfl, rfl, rfl, rfl, rfl⟩
  | some m =>
    obtain ⟨x, rfl, hm, regs, hrr⟩ := h
    obtain ⟨cmp, res, hex⟩ := exStage_plain s x l2 l3 (slot_plain hplain hm) regs hrr
    rw [hex]
    exact ⟨rfl, rfl, ⟨_, rfl, hm, rfl⟩, rfl, rfl⟩

theorem slot_mem (prog : List Instr) (hplain : ∀ i ∈ prog, PlainInstr i) (s : St)
    (l2 : Option Latch) (o : Option Nat) (h : Slot prog Q2 l2 o) :
    (memStage s l2).st = s ∧ (memStage s l2).fault = none ∧
    Slot prog Q2 (memStage s l2).latch o ∧ latchFlush (memStage s l2).latch = none := by
  cases o with
  | none =>
    have : l2 = none := h
    subst this
    exact ⟨rfl, rfl, rfl, rfl⟩
  | some m =>
    obtain ⟨x, rfl, hm, hx⟩ := h
    rw [memStage_plain s x (slot_plain hplain hm) hx]
    exact ⟨rfl, rfl, ⟨_, rfl, hm, hx⟩, memLatch_flush_plain x (slot_plain hplain hm) hx⟩

theorem slot_wb (prog : List Instr) (s : St) (l3 : Option Latch) (o : Option Nat)
    (h : Slot prog Q2 l3 o) :
    (wbStage s l3).1.exitCode = s.exitCode ∧
    (wbStage s l3).1.instrs = s.instrs + (if o.isSome then 1 else 0) ∧
    latchFlush (wbStage s l3).2 = none := by
  cases o with
  | none =>
    have : l3 = none := h
    subst this
    exact ⟨rfl, rfl, rfl⟩
  | some m =>
    obtain ⟨x, rfl, hm, hx⟩ := h
    have hx' : x.exitCode = none := hx
    rw [wbStage_some]
    simp [wbSt, wbLatch, latchFlush, hx']

/-- The hazard test of a consumer (program index `a`) against a slot holding index `b` with
    `b < a ≤ b + 2` is negative in a hazard-free program. -/
theorem hazardWith_slot (prog : List Instr) (hfree : HazardFree prog) (Q : Latch → Prop)
    (c : Instr) (regs : Nat → Nat) (a : Nat) (ha : prog[a]? = some c) (l : Option Latch) (o : Option Nat)
    (h : Slot prog Q l o) (hrel : ∀ b, o = some b → b < a ∧ a ≤ b + 2) :
    hazardWith (accessRegs c regs) l = false := by
  cases o with
  | none =>
    have : l = none := h
    subst this; rfl
  | some b =>
    obtain ⟨x, rfl, hb, _⟩ := h
    rw [hazardWith_some]
    exact hfree a b c x.instr ha hb (hrel b rfl).1 (hrel b rfl).2

theorem slot_id (prog : List Instr) (hfree : HazardFree prog) (hz : Bool) (regs : Nat → Nat)
    (Q Q' Q'' : Latch → Prop) (l0 l1 l2 : Option Latch) (o0 o1 o2 : Option Nat)
    (h0 : Slot prog Q l0 o0) (h1 : Slot prog Q' l1 o1) (h2 : Slot prog Q'' l2 o2)
    (hrel1 : ∀ a b, o0 = some a → o1 = some b → b < a ∧ a ≤ b + 2)
    (hrel2 : ∀ a b, o0 = some a → o2 = some b → b < a ∧ a ≤ b + 2) :
    Slot prog Q1 (idStage hz regs l0 l1 l2) o0 ∧ latchStall (idStage hz regs l0 l1 l2) = false := by
  cases o0 with
  | none =>
    have : l0 = none := h0
    subst this
    exact ⟨rfl, rfl⟩
  | some a =>
    obtain ⟨f, rfl, ha, _⟩ := h0
    rw [idStage_some]
    refine ⟨⟨_, rfl, ha, regs, rfl⟩, ?_⟩
    show idStall hz (accessRegs f.instr regs) l1 l2 = false
    unfold idStall
    rw [hazardWith_slot prog hfree Q' f.instr regs a ha l1 o1 h1 (fun b hb => hrel1 a b rfl hb),
      hazardWith_slot prog hfree Q'' f.instr regs a ha l2 o2 h2 (fun b hb => hrel2 a b rfl hb)]
    simp

end ArchSim.Lemmas.C07
