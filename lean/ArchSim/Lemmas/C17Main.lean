/-
C17 helper lemmas, part 3: the four strings of `Fmt.nBitRepr` as lists of characters, the bounds on
the displayed value, the link of `unsignedVal`/`signedVal` to `BitVec`, and group-length lists.
-/
import ArchSim.Lemmas.C17Digits
import ArchSim.Lemmas.C17Group

namespace ArchSim.Lemmas.C17
open ArchSim.Fmt ArchSim.Spec.Digits

/-! ### the displayed value -/

theorem two_pow_pos_int (n : Nat) : (0 : Int) < (2 : Int) ^ n := Int.pow_pos (by decide)

theorem unsignedVal_cast (n : Nat) (x : Int) : ((unsignedVal n x : Nat) : Int) = x % (2 : Int) ^ n := by
  unfold unsignedVal
  exact Int.toNat_of_nonneg (Int.emod_nonneg _ (Int.ne_of_gt (two_pow_pos_int n)))

theorem unsignedVal_lt (n : Nat) (x : Int) : unsignedVal n x < 2 ^ n := by
  have h1 := unsignedVal_cast n x
  have h2 : x % (2 : Int) ^ n < (2 : Int) ^ n := Int.emod_lt_of_pos _ (two_pow_pos_int n)
  have h3 : ((2 ^ n : Nat) : Int) = (2 : Int) ^ n := by simp
  omega

theorem unsignedVal_eq_bitVec (n : Nat) (x : Int) : unsignedVal n x = (BitVec.ofInt n x).toNat := by
  rw [BitVec.toNat_ofInt]; simp [unsignedVal]

theorem two_pow_pred (n : Nat) (hn : 1 ≤ n) : 2 ^ n = 2 * 2 ^ (n - 1) := by
  obtain ⟨k, rfl⟩ : ∃ k, n = k + 1 := ⟨n - 1, by omega⟩
  simp [Nat.pow_succ, Nat.mul_comm]

theorem signedVal_eq_bitVec (n : Nat) (hn : 1 ≤ n) (x : Int) :
    signedVal n x = (BitVec.ofInt n x).toInt := by
  rw [BitVec.toInt_ofInt, Int.bmod_def]
  unfold signedVal
  have hc := unsignedVal_cast n x
  have h3 : ((2 ^ n : Nat) : Int) = (2 : Int) ^ n := by simp
  have h4 := two_pow_pred n hn
  rw [h3, ← hc]
  generalize unsignedVal n x = u at *
  generalize (2:Int) ^ n = P at *
  generalize 2 ^ (n - 1) = q at *
  generalize 2 ^ n = p at *
  split <;> split <;> omega

/-- The signed value is in the `n`-bit two's-complement range and congruent to the input. -/
theorem signedVal_range (n : Nat) (hn : 1 ≤ n) (x : Int) :
    -(2 : Int) ^ (n - 1) ≤ signedVal n x ∧ signedVal n x < (2 : Int) ^ (n - 1) ∧
      (signedVal n x - x) % (2 : Int) ^ n = 0 := by
  have hc := unsignedVal_cast n x
  have hlt := unsignedVal_lt n x
  have h3 : ((2 ^ n : Nat) : Int) = (2 : Int) ^ n := by simp
  have h3' : ((2 ^ (n - 1) : Nat) : Int) = (2 : Int) ^ (n - 1) := by simp
  have h4 := two_pow_pred n hn
  have hcong : ∀ k : Int, (((unsignedVal n x : Nat) : Int) - k * (2 : Int) ^ n - x) % (2 : Int) ^ n = 0 := by
    intro k
    rw [hc]
    have : x % (2 : Int) ^ n - k * (2 : Int) ^ n - x
        = (2 : Int) ^ n * (-(x / (2 : Int) ^ n) - k) := by
      have := Int.emod_add_mul_ediv x ((2 : Int) ^ n)
      rw [Int.mul_sub, Int.mul_neg, Int.mul_comm _ k]
      omega
    rw [this]; exact Int.mul_emod_right _ _
  unfold signedVal
  split
  · next h =>
    refine ⟨?_, ?_, ?_⟩
    · omega
    · omega
    · simpa using hcong 1
  · next h =>
    refine ⟨?_, ?_, ?_⟩
    · have := two_pow_pos_int (n - 1); omega
    · omega
    · simpa using hcong 0

/-! ### the fields of `nBitRepr` -/

theorem nBitRepr_bin (x : Int) (n : Nat) :
    (nBitRepr x n).bin.toList = groupify 8 (padLeft n (natStr 2 (unsignedVal n x))) := by
  simp [nBitRepr, unsignedVal]

theorem nBitRepr_udec (x : Int) (n : Nat) :
    (nBitRepr x n).udec.toList = natStr 10 (unsignedVal n x) := by
  simp [nBitRepr, unsignedVal]

theorem nBitRepr_hex (x : Int) (n : Nat) :
    (nBitRepr x n).hex.toList = groupify 2 (padLeft ((n + 3) / 4) (natStr 16 (unsignedVal n x))) := by
  simp [nBitRepr, unsignedVal]

theorem nBitRepr_sdec (x : Int) (n : Nat) :
    (nBitRepr x n).sdec.toList = intStr (signedVal n x) := by
  simp [nBitRepr, unsignedVal, signedVal]

theorem unsignedVal_lt_hex (n : Nat) (x : Int) : unsignedVal n x < 16 ^ ((n + 3) / 4) := by
  have h1 := unsignedVal_lt n x
  have h2 : 2 ^ n ≤ 2 ^ (4 * ((n + 3) / 4)) := Nat.pow_le_pow_right (by decide) (by omega)
  rw [Nat.pow_mul] at h2
  exact Nat.lt_of_lt_of_le h1 h2

/-! ### ungrouped digit strings of `nBitRepr` -/

theorem bin_strip (x : Int) (n : Nat) :
    stripSpaces (nBitRepr x n).bin.toList = padLeft n (natStr 2 (unsignedVal n x)) := by
  rw [nBitRepr_bin]
  exact stripSpaces_groupify_of_no_space 8 (by decide) _
    (padded_natStr_no_space 2 (by decide) (by decide) _ _)

theorem hex_strip (x : Int) (n : Nat) :
    stripSpaces (nBitRepr x n).hex.toList
      = padLeft ((n + 3) / 4) (natStr 16 (unsignedVal n x)) := by
  rw [nBitRepr_hex]
  exact stripSpaces_groupify_of_no_space 2 (by decide) _
    (padded_natStr_no_space 16 (by decide) (by decide) _ _)

/-! ### lengths of the groups -/

/-- The list of group lengths of a right-aligned grouping. -/
theorem IsRightGrouping.map_length {g : Nat} (hg : 1 ≤ g) {s : List Char} {L : List (List Char)}
    (h : IsRightGrouping g s L) :
    L.map List.length
      = (s.length - g * ((s.length - 1) / g)) :: List.replicate ((s.length - 1) / g) g := by
  obtain ⟨hd, t, rfl, rfl, h1, h2, ht⟩ := h
  have hsum : t.flatten.length = g * t.length := by
    clear h1 h2
    induction t with
    | nil => simp
    | cons a t ih =>
      have ha := ht a (by simp)
      have := ih (fun c hc => ht c (List.mem_cons_of_mem _ hc))
      simp only [List.flatten_cons, List.length_append, List.length_cons, this, ha,
        Nat.mul_add, Nat.mul_one]
      omega
  have hk : ((hd ++ t.flatten).length - 1) / g = t.length := by
    rw [List.length_append, hsum]
    have : hd.length + g * t.length - 1 = (hd.length - 1) + g * t.length := by omega
    rw [this, Nat.add_mul_div_left _ _ (by omega), Nat.div_eq_of_lt (by omega)]
    omega
  rw [hk, List.length_append, hsum]
  simp only [List.map_cons, Nat.add_sub_cancel]
  congr 1
  exact List.eq_replicate_iff.mpr ⟨by simp, by simpa using ht⟩

end ArchSim.Lemmas.C17
