/-
C14 helper lemmas, part 5: the printed form as a character list, the canonical-instruction predicate
`Instr.Canon`, what `instantiate` makes of the re-parsed syntax tree, and the per-instruction round
trip.
-/
import ArchSim.Lemmas.C14Types

namespace ArchSim.Rv
open ArchSim

/-- An instruction object as the constructors leave it (what `Asm.instantiate`/`mkInstr` produce for
    numeric operands), placed at address `addr`: register numbers below 32, the stored immediate in
    the range of its format, unused fields zero. For `jal`, `aux` is the absolute target (even, at
    most 4300 decimal digits) and `imm` the sign-extended displacement `aux - addr`; for the CSR
    forms `aux` is the (non-negative) csr number. -/
def Instr.Canon (addr : Int) (i : Instr) : Prop :=
  i.rd < 32 ∧ i.rs1 < 32 ∧ i.rs2 < 32 ∧
  (match i.op.ty with
   | .r => i.imm = 0 ∧ i.aux = 0
   | .i => i.rs2 = 0 ∧ i.aux = 0 ∧
       (if i.op = .ecall then i.rd = 0 ∧ i.rs1 = 0 ∧ i.imm = 0
        else if i.op = .ebreak then i.rd = 0 ∧ i.rs1 = 0 ∧ i.imm = 1
        else -2048 ≤ i.imm ∧ i.imm ≤ 2047)
   | .memI => i.rs2 = 0 ∧ i.aux = 0 ∧ -2048 ≤ i.imm ∧ i.imm ≤ 2047
   | .shiftI => i.rs2 = 0 ∧ i.aux = 0 ∧ 0 ≤ i.imm ∧ i.imm ≤ 31
   | .s => i.rd = 0 ∧ i.aux = 0 ∧ -2048 ≤ i.imm ∧ i.imm ≤ 2047
   | .b => i.rd = 0 ∧ i.aux = 0 ∧ i.imm % 2 = 0 ∧ -4096 ≤ i.imm ∧ i.imm ≤ 4094
   | .u => i.rs1 = 0 ∧ i.rs2 = 0 ∧ i.aux = 0 ∧ -524288 ≤ i.imm ∧ i.imm ≤ 524287
   | .j => i.rs1 = 0 ∧ i.rs2 = 0 ∧ i.aux % 2 = 0 ∧ i.imm = sextImm 21 (i.aux - addr) ∧
       i.aux.natAbs < 10 ^ 4300
   | .fence => i.rd = 0 ∧ i.rs1 = 0 ∧ i.rs2 = 0 ∧ i.imm = 0 ∧ i.aux = 0
   | .csr => i.rs2 = 0 ∧ i.imm = 0 ∧ 0 ≤ i.aux
   | .csri => i.rs1 = 0 ∧ i.rs2 = 0 ∧ 0 ≤ i.imm ∧ i.imm ≤ 31 ∧ 0 ≤ i.aux)

end ArchSim.Rv

namespace ArchSim.Lemmas.C14
open ArchSim ArchSim.PP ArchSim.Rv ArchSim.Asm

/-! ### the printed form as a list of characters -/

theorem toString_string (s : String) : toString s = s := rfl

theorem sp_toList : (" " : String).toList = [' '] := rfl
theorem cs_toList : (", " : String).toList = [',', ' '] := rfl
theorem lp_toList : ("(" : String).toList = ['('] := rfl
theorem rp_toList : (")" : String).toList = [')'] := rfl
theorem x_toList : ("x" : String).toList = ['x'] := rfl
theorem zx_toList : (", 0x" : String).toList = [',', ' ', '0', 'x'] := rfl

theorem repr_R (i : Instr) (h : i.op.ty = .r) :
    i.repr.toList = mn i.op ++ ' ' :: (regTxt i.rd ++ ',' :: ' ' :: (regTxt i.rs1 ++ ',' :: ' ' :: regTxt i.rs2)) := by
  simp only [Instr.repr, h, String.toList_append, mn, regTxt, toString_string, sp_toList, cs_toList, x_toList,
    List.append_assoc, List.cons_append, List.nil_append]

theorem repr_I (i : Instr) (h : i.op.ty = .i) (h1 : i.op ≠ .ecall) (h2 : i.op ≠ .ebreak) :
    i.repr.toList = mn i.op ++ ' ' :: (regTxt i.rd ++ ',' :: ' ' :: (regTxt i.rs1 ++ ',' :: ' ' :: decTxt i.imm)) := by
  simp only [Instr.repr, h, h1, h2, or_self, if_false, String.toList_append, mn, regTxt, decTxt, toString_string,
    sp_toList, cs_toList, x_toList, List.append_assoc, List.cons_append, List.nil_append]

theorem repr_env (i : Instr) (h : i.op = .ecall ∨ i.op = .ebreak) : i.repr.toList = mn i.op := by
  have ht : i.op.ty = .i := by rcases h with h | h <;> rw [h] <;> rfl
  simp only [Instr.repr, ht, h, if_true, mn]

theorem repr_shift (i : Instr) (h : i.op.ty = .shiftI) :
    i.repr.toList = mn i.op ++ ' ' :: (regTxt i.rd ++ ',' :: ' ' :: (regTxt i.rs1 ++ ',' :: ' ' :: decTxt i.imm)) := by
  simp only [Instr.repr, h, String.toList_append, mn, regTxt, decTxt, toString_string,
    sp_toList, cs_toList, x_toList, List.append_assoc, List.cons_append, List.nil_append]

theorem repr_load (i : Instr) (h : i.op.ty = .memI) :
    i.repr.toList = mn i.op ++ ' ' :: (regTxt i.rd ++ ',' :: ' ' :: (decTxt i.imm ++ '(' :: (regTxt i.rs1 ++ [')']))) := by
  simp only [Instr.repr, h, String.toList_append, mn, regTxt, decTxt, toString_string,
    sp_toList, cs_toList, x_toList, lp_toList, rp_toList, List.append_assoc, List.cons_append, List.nil_append]

theorem repr_store (i : Instr) (h : i.op.ty = .s) :
    i.repr.toList = mn i.op ++ ' ' :: (regTxt i.rs2 ++ ',' :: ' ' :: (decTxt i.imm ++ '(' :: (regTxt i.rs1 ++ [')']))) := by
  simp only [Instr.repr, h, String.toList_append, mn, regTxt, decTxt, toString_string,
    sp_toList, cs_toList, x_toList, lp_toList, rp_toList, List.append_assoc, List.cons_append, List.nil_append]

theorem repr_B (i : Instr) (h : i.op.ty = .b) :
    i.repr.toList = mn i.op ++ ' ' :: (regTxt i.rs1 ++ ',' :: ' ' :: (regTxt i.rs2 ++ ',' :: ' ' :: decTxt i.imm)) := by
  simp only [Instr.repr, h, String.toList_append, mn, regTxt, decTxt, toString_string,
    sp_toList, cs_toList, x_toList, List.append_assoc, List.cons_append, List.nil_append]

theorem repr_U (i : Instr) (h : i.op.ty = .u) :
    i.repr.toList = mn i.op ++ ' ' :: (regTxt i.rd ++ ',' :: ' ' :: decTxt i.imm) := by
  simp only [Instr.repr, h, String.toList_append, mn, regTxt, decTxt, toString_string,
    sp_toList, cs_toList, x_toList, List.append_assoc, List.cons_append, List.nil_append]

theorem repr_J (i : Instr) (h : i.op.ty = .j) :
    i.repr.toList = mn i.op ++ ' ' :: (regTxt i.rd ++ ',' :: ' ' :: decTxt i.aux) := by
  simp only [Instr.repr, h, String.toList_append, mn, regTxt, decTxt, toString_string,
    sp_toList, cs_toList, x_toList, List.append_assoc, List.cons_append, List.nil_append]

theorem repr_CSR (i : Instr) (h : i.op.ty = .csr) :
    i.repr.toList = mn i.op ++ ' ' :: (regTxt i.rd ++ ',' :: ' ' :: (hexTxt i.aux.toNat ++ ',' :: ' ' :: regTxt i.rs1)) := by
  simp only [Instr.repr, h, String.toList_append, mn, regTxt, hexTxt, hexLower_toList, toString_string,
    sp_toList, cs_toList, x_toList, zx_toList, List.append_assoc, List.cons_append, List.nil_append]

theorem repr_CSRI (i : Instr) (h : i.op.ty = .csri) :
    i.repr.toList = mn i.op ++ ' ' :: (regTxt i.rd ++ ',' :: ' ' :: (hexTxt i.aux.toNat ++ ',' :: ' ' :: decTxt i.imm)) := by
  simp only [Instr.repr, h, String.toList_append, mn, regTxt, hexTxt, decTxt, hexLower_toList, toString_string,
    sp_toList, cs_toList, x_toList, zx_toList, List.append_assoc, List.cons_append, List.nil_append]

/-! ### `instantiate` on the re-parsed trees -/

theorem ofMnemonic_mnemonic : ∀ op : Op, Op.ofMnemonic op.mnemonic = some op := by
  intro op; cases op <;> decide

theorem sext12 (v : Int) (h1 : -2048 ≤ v) (h2 : v ≤ 2047) : sextImm 12 v = v := by
  simp only [sextImm, show (2 : Int) ^ (12 - 1) = 2048 by decide]; omega

theorem sext13 (v : Int) (h1 : -4096 ≤ v) (h2 : v ≤ 4095) : sextImm 13 v = v := by
  simp only [sextImm, show (2 : Int) ^ (13 - 1) = 4096 by decide]; omega

theorem sext20 (v : Int) (h1 : -524288 ≤ v) (h2 : v ≤ 524287) : sextImm 20 v = v := by
  simp only [sextImm, show (2 : Int) ^ (20 - 1) = 524288 by decide]; omega

theorem sext21 (v : Int) (h1 : -1048576 ≤ v) (h2 : v ≤ 1048575) : sextImm 21 v = v := by
  simp only [sextImm, show (2 : Int) ^ (21 - 1) = 1048576 by decide]; omega

theorem small_natAbs (v : Int) (h1 : -(2 : Int) ^ 64 ≤ v) (h2 : v ≤ (2 : Int) ^ 64) : v.natAbs < 10 ^ 4300 := by
  have h3 : (2 : Nat) ^ 64 < 10 ^ 20 := by decide
  have h4 : (10 : Nat) ^ 20 ≤ 10 ^ 4300 :=
    Nat.pow_le_pow_right (n := 10) (i := 20) (j := 4300) (Nat.zero_lt_succ 9) (by omega)
  have h5 : v.natAbs ≤ 2 ^ 64 := by
    have : ((2 : Nat) ^ 64 : Nat) = ((2 : Int) ^ 64) := by norm_cast
    omega
  exact Nat.lt_of_lt_of_le (Nat.lt_of_le_of_lt h5 h3) h4

/-- The instruction-level round trip, in the form used by `buildInstrs`: the re-parsed item of the
    printed form is turned back into the instruction. -/
def ItemBuilds (addr : Int) (it : Item) (i : Instr) : Prop :=
  (i.op = .ecall ∧ it = .str "ecall" ∧ i = { op := .ecall }) ∨
  (i.op = .ebreak ∧ it = .str "ebreak" ∧ i = { op := .ebreak, imm := 1 }) ∨
  (i.op ≠ .ecall ∧ i.op ≠ .ebreak ∧ ∃ pi, it = .grp pi ∧
    ∀ (ls : Labels) (k : Nat) (line : String), instantiate ls addr k line pi = .ok i)

theorem cls_ty : ∀ op : Op,
    (cls op = .r ↔ op.ty = .r) ∧
    (cls op = .imm3 ↔ (op.ty = .i ∧ op ≠ .jalr ∧ op ≠ .ecall ∧ op ≠ .ebreak) ∨ op.ty = .shiftI) ∧
    (cls op = .jalr ↔ op = .jalr) ∧ (cls op = .load ↔ op.ty = .memI) ∧ (cls op = .store ↔ op.ty = .s) ∧
    (cls op = .b ↔ op.ty = .b) ∧ (cls op = .u ↔ op.ty = .u) ∧ (cls op = .jal ↔ op.ty = .j) ∧
    (cls op = .ecall ↔ op = .ecall) ∧ (cls op = .ebreak ↔ op = .ebreak) ∧
    (cls op = .csr ↔ op.ty = .csr) ∧ (cls op = .csri ↔ op.ty = .csri) ∧ (cls op = .fence ↔ op = .fence) := by
  intro op; cases op <;> decide


theorem instr_ext (i j : Instr) (h1 : i.op = j.op) (h2 : i.rd = j.rd) (h3 : i.rs1 = j.rs1)
    (h4 : i.rs2 = j.rs2) (h5 : i.imm = j.imm) (h6 : i.aux = j.aux) : i = j := by
  cases i; cases j; simp_all

theorem inst_rtype (ls : Labels) (addr : Int) (k : Nat) (line : String) (op : Op) (a b c : Nat) :
    instantiate ls addr k line (.rtype op.mnemonic a b c) = .ok (mkInstr op a b c 0) := by
  simp [instantiate, ofMnemonic_mnemonic]

theorem inst_rri_i (ls : Labels) (addr : Int) (k : Nat) (line : String) (op : Op) (a b : Nat) (v : Int)
    (h : op.ty = .i ∨ op.ty = .shiftI) :
    instantiate ls addr k line (.rri op.mnemonic a b v) = .ok (mkInstr op a b 0 v) := by
  rcases h with h | h <;> simp [instantiate, ofMnemonic_mnemonic, h]

theorem inst_rri_b (ls : Labels) (addr : Int) (k : Nat) (line : String) (op : Op) (a b : Nat) (v : Int)
    (h : op.ty = .b) (hv : v % 2 = 0) :
    instantiate ls addr k line (.rri op.mnemonic a b v) = .ok (mkInstr op 0 a b v) := by
  simp [instantiate, ofMnemonic_mnemonic, h, hv]

theorem inst_mem_load (ls : Labels) (addr : Int) (k : Nat) (line : String) (op : Op) (a b : Nat) (v : Int)
    (h : op.ty = .memI) :
    instantiate ls addr k line (.mem op.mnemonic a v b) = .ok (mkInstr op a b 0 v) := by
  simp [instantiate, ofMnemonic_mnemonic, h]

theorem inst_mem_store (ls : Labels) (addr : Int) (k : Nat) (line : String) (op : Op) (a b : Nat) (v : Int)
    (h : op.ty = .s) :
    instantiate ls addr k line (.mem op.mnemonic a v b) = .ok (mkInstr op 0 b a v) := by
  simp [instantiate, ofMnemonic_mnemonic, h]

theorem inst_utype (ls : Labels) (addr : Int) (k : Nat) (line : String) (op : Op) (a : Nat) (v : Int) :
    instantiate ls addr k line (.utype op.mnemonic a v) = .ok (mkInstr op a 0 0 v) := by
  simp [instantiate, ofMnemonic_mnemonic]

theorem inst_jal (ls : Labels) (addr : Int) (k : Nat) (line : String) (a : Nat) (v : Int) (hv : v % 2 = 0) :
    instantiate ls addr k line (.jalImm a v) = .ok (mkInstr .jal a 0 0 (v - addr) v) := by
  simp [instantiate, hv]

theorem inst_csr (ls : Labels) (addr : Int) (k : Nat) (line : String) (op : Op) (a b : Nat) (c : Int) :
    instantiate ls addr k line (.csr op.mnemonic a c b) = .ok { op := op, rd := a, rs1 := b, aux := c } := by
  simp [instantiate, ofMnemonic_mnemonic]

theorem inst_csri (ls : Labels) (addr : Int) (k : Nat) (line : String) (op : Op) (a : Nat) (c u : Int) :
    instantiate ls addr k line (.csri op.mnemonic a c u) = .ok { op := op, rd := a, imm := u % 32, aux := c } := by
  simp [instantiate, ofMnemonic_mnemonic]

theorem ne_env_of_ty (op : Op) (h : op.ty ≠ .i) : op ≠ .ecall ∧ op ≠ .ebreak := by
  constructor <;> (rintro rfl; exact h rfl)

/-- The per-instruction round trip: the printed form of a canonical instruction is tokenized as an
    item without label from which the same instruction is built. -/
theorem roundtrip_core (i : Instr) (addr : Int) (hc : i.Canon addr) (hf : i.op ≠ .fence) :
    ∃ it, parseLine i.repr.toList = some { lbl := none, item := it } ∧ ItemBuilds addr it i := by
  obtain ⟨hrd, hrs1, hrs2, hcan⟩ := hc
  have hct := cls_ty i.op
  cases hty : i.op.ty with
  | r =>
    simp only [hty] at hcan
    obtain ⟨him, hax⟩ := hcan
    have hcl : cls i.op = .r := hct.1.mpr hty
    have hne := ne_env_of_ty i.op (by rw [hty]; decide)
    refine ⟨.grp (.rtype i.op.mnemonic i.rd i.rs1 i.rs2), ?_, Or.inr (Or.inr ⟨hne.1, hne.2, _, rfl, ?_⟩)⟩
    · rw [repr_R i hty]
      exact parseLine_of_body i.op _ (mnEnd_reg _ _) _ (body_R i.op hcl _ _ _ hrd hrs1 hrs2)
    · intro ls k line
      rw [inst_rtype]
      congr 1
      apply instr_ext <;> simp [mkInstr, storedImm, hty, him, hax]
  | i =>
    simp only [hty] at hcan
    obtain ⟨hr2, hax, hcan⟩ := hcan
    by_cases he : i.op = .ecall
    · simp only [he, if_true] at hcan
      refine ⟨.str "ecall", ?_, Or.inl ⟨he, rfl, ?_⟩⟩
      · rw [repr_env i (Or.inl he)]
        have := parseLine_of_body i.op [] mnEnd_nil (.str i.op.mnemonic)
          (by simpa using body_env i.op (Or.inl (hct.2.2.2.2.2.2.2.2.1.mpr he)))
        simpa [he, Op.mnemonic] using this
      · apply instr_ext <;> simp [he, hcan, hr2, hax]
    · by_cases hb : i.op = .ebreak
      · simp only [hb, if_true, reduceCtorEq, if_false] at hcan
        refine ⟨.str "ebreak", ?_, Or.inr (Or.inl ⟨hb, rfl, ?_⟩)⟩
        · rw [repr_env i (Or.inr hb)]
          have := parseLine_of_body i.op [] mnEnd_nil (.str i.op.mnemonic)
            (by simpa using body_env i.op (Or.inr (hct.2.2.2.2.2.2.2.2.2.1.mpr hb)))
          simpa [hb, Op.mnemonic] using this
        · apply instr_ext <;> simp [hb, hcan, hr2, hax]
      · simp only [he, hb, if_false] at hcan
        have hv := small_natAbs i.imm (by omega) (by omega)
        refine ⟨.grp (.rri i.op.mnemonic i.rd i.rs1 i.imm), ?_, Or.inr (Or.inr ⟨he, hb, _, rfl, ?_⟩)⟩
        · rw [repr_I i hty he hb]
          apply parseLine_of_body i.op _ (mnEnd_reg _ _)
          by_cases hj : i.op = .jalr
          · rw [hj]; exact body_jalr _ _ _ hrd hrs1 hv
          · exact body_I i.op (hct.2.1.mpr (Or.inl ⟨hty, hj, he, hb⟩)) _ _ _ hrd hrs1 hv
        · intro ls k line
          rw [inst_rri_i _ _ _ _ _ _ _ _ (Or.inl hty)]
          congr 1
          apply instr_ext <;> simp [mkInstr, storedImm, hty, he, hb, hr2, hax, sext12 _ hcan.1 hcan.2]
  | shiftI =>
    simp only [hty] at hcan
    obtain ⟨hr2, hax, h1, h2⟩ := hcan
    have hne := ne_env_of_ty i.op (by rw [hty]; decide)
    have hv := small_natAbs i.imm (by omega) (by omega)
    refine ⟨.grp (.rri i.op.mnemonic i.rd i.rs1 i.imm), ?_, Or.inr (Or.inr ⟨hne.1, hne.2, _, rfl, ?_⟩)⟩
    · rw [repr_shift i hty]
      exact parseLine_of_body i.op _ (mnEnd_reg _ _) _
        (body_I i.op (hct.2.1.mpr (Or.inr hty)) _ _ _ hrd hrs1 hv)
    · intro ls k line
      rw [inst_rri_i _ _ _ _ _ _ _ _ (Or.inr hty)]
      congr 1
      apply instr_ext <;> simp [mkInstr, storedImm, hty, hr2, hax]
      omega
  | memI =>
    simp only [hty] at hcan
    obtain ⟨hr2, hax, h1, h2⟩ := hcan
    have hne := ne_env_of_ty i.op (by rw [hty]; decide)
    have hv := small_natAbs i.imm (by omega) (by omega)
    refine ⟨.grp (.mem i.op.mnemonic i.rd i.imm i.rs1), ?_, Or.inr (Or.inr ⟨hne.1, hne.2, _, rfl, ?_⟩)⟩
    · rw [repr_load i hty]
      exact parseLine_of_body i.op _ (mnEnd_reg _ _) _
        (body_load i.op (hct.2.2.2.1.mpr hty) _ _ _ hrd hrs1 hv)
    · intro ls k line
      rw [inst_mem_load _ _ _ _ _ _ _ _ hty]
      congr 1
      apply instr_ext <;> simp [mkInstr, storedImm, hty, hne.1, hne.2, hr2, hax, sext12 _ h1 h2]
  | s =>
    simp only [hty] at hcan
    obtain ⟨hr0, hax, h1, h2⟩ := hcan
    have hne := ne_env_of_ty i.op (by rw [hty]; decide)
    have hv := small_natAbs i.imm (by omega) (by omega)
    refine ⟨.grp (.mem i.op.mnemonic i.rs2 i.imm i.rs1), ?_, Or.inr (Or.inr ⟨hne.1, hne.2, _, rfl, ?_⟩)⟩
    · rw [repr_store i hty]
      exact parseLine_of_body i.op _ (mnEnd_reg _ _) _
        (body_store i.op (hct.2.2.2.2.1.mpr hty) _ _ _ hrs2 hrs1 hv)
    · intro ls k line
      rw [inst_mem_store _ _ _ _ _ _ _ _ hty]
      congr 1
      apply instr_ext <;> simp [mkInstr, storedImm, hty, hr0, hax, sext12 _ h1 h2]
  | b =>
    simp only [hty] at hcan
    obtain ⟨hr0, hax, hev, h1, h2⟩ := hcan
    have hne := ne_env_of_ty i.op (by rw [hty]; decide)
    have hv := small_natAbs i.imm (by omega) (by omega)
    refine ⟨.grp (.rri i.op.mnemonic i.rs1 i.rs2 i.imm), ?_, Or.inr (Or.inr ⟨hne.1, hne.2, _, rfl, ?_⟩)⟩
    · rw [repr_B i hty]
      exact parseLine_of_body i.op _ (mnEnd_reg _ _) _
        (body_B i.op (hct.2.2.2.2.2.1.mpr hty) _ _ _ hrs1 hrs2 hv)
    · intro ls k line
      rw [inst_rri_b _ _ _ _ _ _ _ _ hty hev]
      congr 1
      apply instr_ext <;> simp [mkInstr, storedImm, hty, hr0, hax, sext13 _ h1 (by omega)]
  | u =>
    simp only [hty] at hcan
    obtain ⟨hr1, hr2, hax, h1, h2⟩ := hcan
    have hne := ne_env_of_ty i.op (by rw [hty]; decide)
    have hv := small_natAbs i.imm (by omega) (by omega)
    refine ⟨.grp (.utype i.op.mnemonic i.rd i.imm), ?_, Or.inr (Or.inr ⟨hne.1, hne.2, _, rfl, ?_⟩)⟩
    · rw [repr_U i hty]
      exact parseLine_of_body i.op _ (mnEnd_reg _ _) _
        (body_U i.op (hct.2.2.2.2.2.2.1.mpr hty) _ _ hrd hv)
    · intro ls k line
      rw [inst_utype]
      congr 1
      apply instr_ext <;> simp [mkInstr, storedImm, hty, hr1, hr2, hax, sext20 _ h1 h2]
  | j =>
    simp only [hty] at hcan
    obtain ⟨hr1, hr2, hev, him, hv⟩ := hcan
    have hne := ne_env_of_ty i.op (by rw [hty]; decide)
    have hop : i.op = .jal := by
      have : ∀ op : Op, op.ty = .j → op = .jal := by intro op; cases op <;> decide
      exact this _ hty
    refine ⟨.grp (.jalImm i.rd i.aux), ?_, Or.inr (Or.inr ⟨hne.1, hne.2, _, rfl, ?_⟩)⟩
    · rw [repr_J i hty]
      apply parseLine_of_body i.op _ (mnEnd_reg _ _)
      rw [hop]
      exact body_J _ _ hrd hv
    · intro ls k line
      rw [inst_jal _ _ _ _ _ _ hev]
      congr 1
      apply instr_ext <;> simp [mkInstr, storedImm, hop, Op.ty, hr1, hr2, him]
  | fence =>
    have : ∀ op : Op, op.ty = .fence → op = .fence := by intro op; cases op <;> decide
    exact absurd (this _ hty) hf
  | csr =>
    simp only [hty] at hcan
    obtain ⟨hr2, him, hax⟩ := hcan
    have hne := ne_env_of_ty i.op (by rw [hty]; decide)
    refine ⟨.grp (.csr i.op.mnemonic i.rd (i.aux.toNat : Int) i.rs1), ?_,
      Or.inr (Or.inr ⟨hne.1, hne.2, _, rfl, ?_⟩)⟩
    · rw [repr_CSR i hty]
      exact parseLine_of_body i.op _ (mnEnd_reg _ _) _
        (body_CSR i.op (hct.2.2.2.2.2.2.2.2.2.2.1.mpr hty) _ _ _ hrd hrs1)
    · intro ls k line
      rw [inst_csr]
      congr 1
      apply instr_ext <;> simp [hr2, him]
      omega
  | csri =>
    simp only [hty] at hcan
    obtain ⟨hr1, hr2, h1, h2, hax⟩ := hcan
    have hne := ne_env_of_ty i.op (by rw [hty]; decide)
    have hv := small_natAbs i.imm (by omega) (by omega)
    refine ⟨.grp (.csri i.op.mnemonic i.rd (i.aux.toNat : Int) i.imm), ?_,
      Or.inr (Or.inr ⟨hne.1, hne.2, _, rfl, ?_⟩)⟩
    · rw [repr_CSRI i hty]
      exact parseLine_of_body i.op _ (mnEnd_reg _ _) _
        (body_CSRI i.op (hct.2.2.2.2.2.2.2.2.2.2.2.1.mpr hty) _ _ _ hrd hv)
    · intro ls k line
      rw [inst_csri]
      congr 1
      apply instr_ext <;> simp [hr1, hr2]
      · omega
      · omega

end ArchSim.Lemmas.C14
