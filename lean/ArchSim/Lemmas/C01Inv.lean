/-
C01 helper lemmas, part 7: what `behavior` preserves (32-bit register values, `x0 = 0`, a flat
well-formed memory).
-/
import ArchSim.Lemmas.C01Ecall
namespace ArchSim.Lemmas.C01
open ArchSim ArchSim.Rv ArchSim.Spec.RvSpec ArchSim.Mem ArchSim.Cache

/-! ### results stay 32-bit values -/

theorem aluRR_lt (op : Op) (a b : Nat) (ha : a < 4294967296) (hb : b < 4294967296) :
    aluRR op a b < 4294967296 := by
  have hx : a ^^^ b < 2 ^ 32 := Nat.xor_lt_two_pow (by omega) (by omega)
  have ho : a ||| b < 2 ^ 32 := Nat.or_lt_two_pow (by omega) (by omega)
  have hn : a &&& b ≤ a := Nat.and_le_left
  have hp : a * b < 4294967296 * 4294967296 := Nat.mul_lt_mul'' ha hb
  have hd : a / b ≤ a := Nat.div_le_self _ _
  have hm : a % b ≤ a := Nat.mod_le _ _
  have hs : a / 2 ^ (b % 32) ≤ a := Nat.div_le_self _ _
  cases op <;> simp only [aluRR] <;> (try exact wrapU_lt _) <;> (try split) <;> (try exact wrapU_lt _) <;> omega

theorem aluRI_lt (op : Op) (a : Nat) (imm : Int) (ha : a < 4294967296) :
    aluRI op a imm < 4294967296 := by
  have hw := wrapU_lt imm
  have hx : a ^^^ wrapU imm < 2 ^ 32 := Nat.xor_lt_two_pow (by omega) (by omega)
  have ho : a ||| wrapU imm < 2 ^ 32 := Nat.or_lt_two_pow (by omega) (by omega)
  have hn : a &&& wrapU imm ≤ a := Nat.and_le_left
  have hs : a / 2 ^ (wrapU imm) ≤ a := Nat.div_le_self _ _
  cases op <;> simp only [aluRI] <;> (try exact wrapU_lt _) <;> (try split) <;> omega

theorem loadExt_lt (op : Op) (v : Nat) (hv : v < 4294967296) : loadExt op v < 4294967296 := by
  cases op <;> simp only [loadExt] <;> (try exact wrapU_lt _) <;> exact hv


/-! ### invariants of `behavior` -/

/-- `StOK` without the program-counter clause (after `behavior` the pc is `target - 4`). -/
structure Inv (s : St) : Prop where
  flat : ∃ m, s.mem = .flat m ∧ m.cfg = riscvCfg ∧ C18.WF m
  regs_lt : ∀ r, s.regs r < 4294967296
  x0 : s.regs 0 = 0

theorem StOK.inv {s : St} (h : StOK s) : Inv s := ⟨h.flat, h.regs_lt, h.x0⟩

theorem Inv.setReg {s : St} (h : Inv s) (rd v : Nat) (hv : v < 4294967296) : Inv (s.setReg rd v) where
  flat := h.flat
  regs_lt := by
    intro r; simp only [St.setReg, Rv.setReg]; split
    · exact hv
    · exact h.regs_lt r
  x0 := by
    simp only [St.setReg, Rv.setReg]; rw [if_neg (by omega)]; exact h.x0

theorem Inv.of_eq {s t : St} (h : Inv s) (hm : t.mem = s.mem) (hr : t.regs = s.regs) : Inv t where
  flat := by rw [hm]; exact h.flat
  regs_lt := by rw [hr]; exact h.regs_lt
  x0 := by rw [hr]; exact h.x0

theorem processEcall_mem (s : St) (h : Inv s) : (processEcall s).1 = s.mem := by
  obtain ⟨m, hm, hc, hw⟩ := h.flat
  simp only [processEcall]
  repeat' split
  all_goals first
    | rfl
    | (rename_i heq
       have := (printStrLoop_flat m hc printStrFuel (s.regs 10) [] (by have := h.regs_lt 10; omega)
         (by simp only [printStrFuel]; have := h.regs_lt 10; omega)).1
       rw [← hm, heq] at this
       exact this)

theorem behavior_inv (i : Instr) (s : St) (h : Inv s) : Inv (behavior i s).st := by
  obtain ⟨m, hm, hc, hw⟩ := h.flat
  cases hty : i.op.ty with
  | r => rw [behavior_r i s hty]; exact h.setReg _ _ (aluRR_lt _ _ _ (h.regs_lt _) (h.regs_lt _))
  | shiftI => rw [behavior_shiftI i s hty]; exact h.setReg _ _ (aluRI_lt _ _ _ (h.regs_lt _))
  | memI =>
    have hb8 : 8 ≤ accessBits i.op := by simp only [accessBits]; split <;> omega
    have hb32 : accessBits i.op ≤ 32 := by simp only [accessBits]; split <;> omega
    simp only [behavior, hty, hm, read_flat m hc _ hb8]
    cases (rdCells m ((s.regs i.rs1 : Int) + i.imm) (accessBits i.op / 8) 0) with
    | error e => simp only [Except.map]; exact h.of_eq hm.symm rfl
    | ok v =>
      simp only [Except.map]
      have h1 : Inv { s with mem := .flat m, cycles := s.cycles + 0 } := h.of_eq hm.symm rfl
      refine h1.setReg _ _ (loadExt_lt _ _ ?_)
      have : v % 2 ^ accessBits i.op < 2 ^ accessBits i.op := Nat.mod_lt _ (Nat.two_pow_pos _)
      have : 2 ^ accessBits i.op ≤ 2 ^ 32 := Nat.pow_le_pow_right (by omega) hb32
      omega
  | s =>
    have hb8 : 8 ≤ accessBits i.op := by simp only [accessBits]; split <;> omega
    simp only [behavior, hty, hm, write_flat m hc _ hb8]
    have hwf := C18.WF_writeN m (((s.regs i.rs1 + wrapU i.imm) % 4294967296 : Nat) : Int)
      (accessBits i.op / 8) (s.regs i.rs2 % 2 ^ accessBits i.op) hw
    have hcf := C18.writeN_cfg m (((s.regs i.rs1 + wrapU i.imm) % 4294967296 : Nat) : Int)
      (accessBits i.op / 8) (s.regs i.rs2 % 2 ^ accessBits i.op)
    rcases hwr : writeN m (((s.regs i.rs1 + wrapU i.imm) % 4294967296 : Nat) : Int) (accessBits i.op / 8)
        (s.regs i.rs2 % 2 ^ accessBits i.op) with ⟨m', _ | e⟩ <;>
      (rw [hwr] at hwf hcf; exact ⟨⟨m', rfl, by rw [hcf, hc], hwf⟩, h.regs_lt, h.x0⟩)
  | b =>
    simp only [behavior, hty]
    split
    · exact h.of_eq rfl rfl
    · exact h
  | u =>
    simp only [behavior, hty]
    split <;> exact h.setReg _ _ (wrapU_lt _)
  | j =>
    simp only [behavior, hty]
    exact (h.setReg _ _ (wrapU_lt _)).of_eq rfl rfl
  | i =>
    simp only [behavior, hty]
    split
    · exact (h.setReg _ _ (wrapU_lt _)).of_eq rfl rfl
    · split
      · have hpm := processEcall_mem s h
        rcases hp : processEcall s with ⟨m', r⟩
        rw [hp] at hpm
        cases r <;> exact h.of_eq hpm rfl
      · split
        · exact h
        · exact h.setReg _ _ (aluRI_lt _ _ _ (h.regs_lt _))
  | fence => simp only [behavior, hty]; exact h
  | csr => simp only [behavior, hty]; exact h
  | csri => simp only [behavior, hty]; exact h

end ArchSim.Lemmas.C01
