/-
TOY assembler: `segment` — the three segment orders (and the degenerate ones), forward and converse;
line numbers of `tokenize (sanitize text)` are strictly increasing.
-/
import ArchSim.Lemmas.ToyAsmLabels

namespace ArchSim.ToyAsm
open ArchSim ArchSim.PP ArchSim.Toy

/-- a `.data` or `.text` line -/
def isSegDir (e : Entry) : Bool := isDir "data" e || isDir "text" e

/-- the loop body of `_segment` -/
def segStep (acc : Except AsmErr Seg) (e : Entry) : Except AsmErr Seg :=
  match acc with
  | .error x => .error x
  | .ok s =>
    if isDir "data" e then
      if !s.dataExists then
        let idx := idxOfLine e.1 s.text
        .ok { s with dataExists := true, data := s.text.drop (idx + 1), text := s.text.take idx }
      else .error (.parser "ParserDirectiveException" e.1 e.2.1)
    else if isDir "text" e then
      if !s.textExists then
        let idx := idxOfLine e.1 s.data
        .ok { s with textExists := true, text := s.data.drop (idx + 1), data := s.data.take idx }
      else .error (.parser "ParserDirectiveException" e.1 e.2.1)
    else .ok s

/-- the state `_segment` starts its loop with -/
def seg0 (first : Entry) (rest : List Entry) : Seg :=
  if isDir "data" first then { data := rest, text := [], dataExists := true, textExists := false }
  else if isDir "text" first then { data := [], text := rest, dataExists := false, textExists := true }
  else { data := [], text := first :: rest, dataExists := false, textExists := true }

theorem segment_cons (first : Entry) (rest : List Entry) :
    segment (first :: rest) =
      match rest.foldl segStep (.ok (seg0 first rest)) with
      | .error x => .error x
      | .ok s => .ok (s.data, s.text) := rfl

theorem isDir_data_not_text (e : Entry) (h : isDir "data" e = true) : isDir "text" e = false := by
  simp only [isDir, beq_iff_eq] at h
  simp [isDir, h]

theorem isDir_text_not_data (e : Entry) (h : isDir "text" e = true) : isDir "data" e = false := by
  simp only [isDir, beq_iff_eq] at h
  simp [isDir, h]

theorem isSegDir_false (e : Entry) (h : isSegDir e = false) :
    isDir "data" e = false ∧ isDir "text" e = false := by
  simpa [isSegDir] using h

theorem foldl_segStep_error (l : List Entry) (x : AsmErr) : l.foldl segStep (.error x) = .error x := by
  induction l with
  | nil => rfl
  | cons e l ih => simpa [List.foldl_cons, segStep] using ih

theorem foldl_segStep_noDir (l : List Entry) (h : ∀ e ∈ l, isSegDir e = false) (s : Seg) :
    l.foldl segStep (.ok s) = .ok s := by
  induction l with
  | nil => rfl
  | cons e l ih =>
    obtain ⟨h1, h2⟩ := isSegDir_false e (h e (by simp))
    simp only [List.foldl_cons, segStep, h1, h2]
    exact ih (fun x hx => h x (by simp [hx]))

/-- The split index found by line number is the position of the directive, when no earlier line
    carries the same number. -/
theorem idxOfLine_append (pre : List Entry) (e : Entry) (post : List Entry)
    (h : ∀ x ∈ pre, x.1 ≠ e.1) : idxOfLine e.1 (pre ++ e :: post) = pre.length := by
  induction pre with
  | nil => simp [idxOfLine, List.findIdx_cons]
  | cons x pre ih =>
    have hx : (x.1 == e.1) = false := by simpa using h x (by simp)
    have := ih (fun y hy => h y (by simp [hy]))
    simp only [idxOfLine] at this ⊢
    simp only [List.cons_append, List.findIdx_cons, hx, cond_false, this, List.length_cons]

/-! ### forward: the segment orders -/

/-- no directive at all: everything is text -/
theorem segment_text_only (toks : List Entry) (h : ∀ e ∈ toks, isSegDir e = false) :
    segment toks = .ok ([], toks) := by
  cases toks with
  | nil => rfl
  | cons first rest =>
    obtain ⟨h1, h2⟩ := isSegDir_false first (h first (by simp))
    rw [segment_cons, foldl_segStep_noDir rest (fun e he => h e (by simp [he]))]
    simp [seg0, h1, h2]

/-- `.data` first, no `.text` -/
theorem segment_data_only (dD : Entry) (hD : isDir "data" dD = true) (data : List Entry)
    (h : ∀ e ∈ data, isSegDir e = false) : segment (dD :: data) = .ok (data, []) := by
  rw [segment_cons, foldl_segStep_noDir data h]
  simp [seg0, hD]

/-- `.text` first, no `.data` -/
theorem segment_textdir_only (dT : Entry) (hT : isDir "text" dT = true) (text : List Entry)
    (h : ∀ e ∈ text, isSegDir e = false) : segment (dT :: text) = .ok ([], text) := by
  rw [segment_cons, foldl_segStep_noDir text h]
  simp [seg0, hT, isDir_text_not_data dT hT]

/-- `.data … .text …` -/
theorem segment_data_text (dD dT : Entry) (hD : isDir "data" dD = true) (hT : isDir "text" dT = true)
    (data text : List Entry) (hd : ∀ e ∈ data, isSegDir e = false) (ht : ∀ e ∈ text, isSegDir e = false)
    (hline : ∀ e ∈ data, e.1 ≠ dT.1) :
    segment (dD :: (data ++ dT :: text)) = .ok (data, text) := by
  rw [segment_cons, List.foldl_append, foldl_segStep_noDir data hd, List.foldl_cons]
  have : segStep (.ok (seg0 dD (data ++ dT :: text))) dT =
      .ok { data := data, text := text, dataExists := true, textExists := true } := by
    simp only [seg0, hD, if_true, segStep, isDir_text_not_data dT hT, hT, Bool.not_false,
      idxOfLine_append data dT text hline, Bool.false_eq_true, if_false]
    simp
  rw [this, foldl_segStep_noDir text ht]

/-- `.text … .data …` -/
theorem segment_text_data (dT dD : Entry) (hT : isDir "text" dT = true) (hD : isDir "data" dD = true)
    (text data : List Entry) (ht : ∀ e ∈ text, isSegDir e = false) (hd : ∀ e ∈ data, isSegDir e = false)
    (hline : ∀ e ∈ text, e.1 ≠ dD.1) :
    segment (dT :: (text ++ dD :: data)) = .ok (data, text) := by
  rw [segment_cons, List.foldl_append, foldl_segStep_noDir text ht, List.foldl_cons]
  have : segStep (.ok (seg0 dT (text ++ dD :: data))) dD =
      .ok { data := data, text := text, dataExists := true, textExists := true } := by
    simp only [seg0, hT, isDir_text_not_data dT hT, if_true, segStep, hD, Bool.not_false,
      idxOfLine_append text dD data hline, Bool.false_eq_true, if_false]
    simp
  rw [this, foldl_segStep_noDir data hd]

/-- `… .data …` with an implicit text segment in front (non-empty) -/
theorem segment_implicit_text_data (dD : Entry) (hD : isDir "data" dD = true)
    (text data : List Entry) (hne : text ≠ [])
    (ht : ∀ e ∈ text, isSegDir e = false) (hd : ∀ e ∈ data, isSegDir e = false)
    (hline : ∀ e ∈ text, e.1 ≠ dD.1) :
    segment (text ++ dD :: data) = .ok (data, text) := by
  cases text with
  | nil => exact absurd rfl hne
  | cons first text' =>
    obtain ⟨h1, h2⟩ := isSegDir_false first (ht first (by simp))
    rw [List.cons_append, segment_cons, List.foldl_append,
      foldl_segStep_noDir text' (fun e he => ht e (by simp [he])), List.foldl_cons]
    have : segStep (.ok (seg0 first (text' ++ dD :: data))) dD =
        .ok { data := data, text := first :: text', dataExists := true, textExists := true } := by
      have := idxOfLine_append (first :: text') dD data hline
      simp only [List.cons_append] at this
      simp only [seg0, h1, h2, Bool.false_eq_true, if_false, segStep, hD, if_true, Bool.not_false, this]
      simp
    rw [this, foldl_segStep_noDir data hd]

/-! ### converse: a successful `segment` is one of these shapes -/

theorem split_first_dir (l : List Entry) :
    (∀ e ∈ l, isSegDir e = false) ∨
    ∃ pre e post, l = pre ++ e :: post ∧ (∀ x ∈ pre, isSegDir x = false) ∧ isSegDir e = true := by
  induction l with
  | nil => left; simp
  | cons a l ih =>
    by_cases ha : isSegDir a = true
    · right; exact ⟨[], a, l, rfl, by simp, ha⟩
    · have ha' : isSegDir a = false := by simpa using ha
      rcases ih with h | ⟨pre, e, post, rfl, h1, h2⟩
      · left
        intro e he
        rcases List.mem_cons.mp he with rfl | he
        · exact ha'
        · exact h e he
      · right
        refine ⟨a :: pre, e, post, rfl, ?_, h2⟩
        intro x hx
        rcases List.mem_cons.mp hx with rfl | hx
        · exact ha'
        · exact h1 x hx

/-- Once both segments exist any further directive is an error. -/
theorem foldl_segStep_both (l : List Entry) (s s' : Seg) (hd : s.dataExists = true)
    (ht : s.textExists = true) (h : l.foldl segStep (.ok s) = .ok s') :
    s' = s ∧ ∀ e ∈ l, isSegDir e = false := by
  rcases split_first_dir l with hl | ⟨pre, e, post, rfl, h1, h2⟩
  · rw [foldl_segStep_noDir l hl] at h
    cases h
    exact ⟨rfl, hl⟩
  · rw [List.foldl_append, foldl_segStep_noDir pre h1, List.foldl_cons] at h
    have hx : segStep (.ok s) e = .error (.parser "ParserDirectiveException" e.1 e.2.1) := by
      simp only [segStep, hd, ht, Bool.not_true, Bool.false_eq_true, if_false]
      by_cases hD : isDir "data" e = true
      · simp only [hD, if_true]
      · have hT : isDir "text" e = true := by
          simp only [isSegDir, Bool.or_eq_true] at h2
          rcases h2 with h2 | h2
          · exact absurd h2 hD
          · exact h2
        simp only [hD, hT, if_true, Bool.false_eq_true, if_false]
    rw [hx, foldl_segStep_error] at h
    cases h

/-- The shapes of a token list that `segment` accepts. -/
inductive SegShape (toks data text : List Entry) : Prop where
  | textOnly (h : ∀ e ∈ toks, isSegDir e = false) (hd : data = []) (ht : text = toks)
  | dataOnly (dD : Entry) (hD : isDir "data" dD = true) (hd : ∀ e ∈ data, isSegDir e = false)
      (heq : toks = dD :: data) (ht : text = [])
  | textDirOnly (dT : Entry) (hT : isDir "text" dT = true) (ht : ∀ e ∈ text, isSegDir e = false)
      (heq : toks = dT :: text) (hd : data = [])
  | dataText (dD dT : Entry) (hD : isDir "data" dD = true) (hT : isDir "text" dT = true)
      (hd : ∀ e ∈ data, isSegDir e = false) (ht : ∀ e ∈ text, isSegDir e = false)
      (heq : toks = dD :: (data ++ dT :: text))
  | textData (dT dD : Entry) (hT : isDir "text" dT = true) (hD : isDir "data" dD = true)
      (hd : ∀ e ∈ data, isSegDir e = false) (ht : ∀ e ∈ text, isSegDir e = false)
      (heq : toks = dT :: (text ++ dD :: data))
  | implicitTextData (dD : Entry) (hD : isDir "data" dD = true) (hne : text ≠ [])
      (hd : ∀ e ∈ data, isSegDir e = false) (ht : ∀ e ∈ text, isSegDir e = false)
      (heq : toks = text ++ dD :: data)

theorem nodup_append_cons {pre post : List Entry} {e : Entry}
    (h : ((pre ++ e :: post).map (·.1)).Nodup) : ∀ x ∈ pre, x.1 ≠ e.1 := by
  intro x hx heq
  rw [List.map_append, List.map_cons, List.nodup_append] at h
  obtain ⟨_, _, h3⟩ := h
  exact h3 x.1 (List.mem_map.mpr ⟨x, hx, rfl⟩) e.1 (by simp) heq

theorem segment_shape (toks data text : List Entry) (hnd : (toks.map (·.1)).Nodup)
    (h : segment toks = .ok (data, text)) : SegShape toks data text := by
  cases toks with
  | nil =>
    simp only [segment, Except.ok.injEq, Prod.mk.injEq] at h
    exact .textOnly (by simp) h.1.symm h.2.symm
  | cons first rest =>
    rw [segment_cons] at h
    have hnd' : (rest.map (·.1)).Nodup := by
      rw [List.map_cons, List.nodup_cons] at hnd; exact hnd.2
    rcases split_first_dir rest with hl | ⟨pre, e, post, rfl, h1, h2⟩
    · -- no further directive
      rw [foldl_segStep_noDir rest hl] at h
      simp only [Except.ok.injEq, Prod.mk.injEq] at h
      obtain ⟨hd, ht⟩ := h
      by_cases hD : isDir "data" first = true
      · simp only [seg0, hD, if_true] at hd ht
        subst hd
        exact .dataOnly first hD hl rfl ht.symm
      · by_cases hT : isDir "text" first = true
        · simp only [seg0, hD, hT, if_true, Bool.false_eq_true, if_false] at hd ht
          subst ht
          exact .textDirOnly first hT hl rfl hd.symm
        · simp only [seg0, hD, hT, Bool.false_eq_true, if_false] at hd ht
          refine .textOnly ?_ hd.symm ht.symm
          intro x hx
          rcases List.mem_cons.mp hx with rfl | hx
          · simp [isSegDir, hD, hT]
          · exact hl x hx
    · rw [List.foldl_append, foldl_segStep_noDir pre h1, List.foldl_cons] at h
      have hline := nodup_append_cons hnd'
      by_cases hD : isDir "data" first = true
      · -- `.data` first; the next directive must be `.text`
        by_cases heD : isDir "data" e = true
        · have : segStep (.ok (seg0 first (pre ++ e :: post))) e =
              .error (.parser "ParserDirectiveException" e.1 e.2.1) := by
            simp [seg0, hD, segStep, heD]
          rw [this, foldl_segStep_error] at h
          cases h
        · have heT : isDir "text" e = true := by
            simp only [isSegDir, Bool.or_eq_true] at h2
            rcases h2 with h2 | h2
            · exact absurd h2 heD
            · exact h2
          have : segStep (.ok (seg0 first (pre ++ e :: post))) e =
              .ok { data := pre, text := post, dataExists := true, textExists := true } := by
            simp only [seg0, hD, if_true, segStep, heD, heT, Bool.not_false,
              idxOfLine_append pre e post hline, Bool.false_eq_true, if_false]
            simp
          rw [this] at h
          cases hf : post.foldl segStep (.ok { data := pre, text := post, dataExists := true, textExists := true }) with
          | error x => rw [hf] at h; cases h
          | ok s' =>
            rw [hf] at h
            obtain ⟨rfl, hpost⟩ := foldl_segStep_both post _ s' rfl rfl hf
            simp only [Except.ok.injEq, Prod.mk.injEq] at h
            obtain ⟨rfl, rfl⟩ := h
            exact .dataText first e hD heT h1 hpost rfl
      · -- text first (explicitly or implicitly); the next directive must be `.data`
        by_cases heD : isDir "data" e = true
        · by_cases hT : isDir "text" first = true
          · have : segStep (.ok (seg0 first (pre ++ e :: post))) e =
                .ok { data := post, text := pre, dataExists := true, textExists := true } := by
              simp only [seg0, hD, hT, if_true, segStep, heD, Bool.not_false,
                idxOfLine_append pre e post hline, Bool.false_eq_true, if_false]
              simp
            rw [this] at h
            cases hf : post.foldl segStep (.ok { data := post, text := pre, dataExists := true, textExists := true }) with
            | error x => rw [hf] at h; cases h
            | ok s' =>
              rw [hf] at h
              obtain ⟨rfl, hpost⟩ := foldl_segStep_both post _ s' rfl rfl hf
              simp only [Except.ok.injEq, Prod.mk.injEq] at h
              obtain ⟨rfl, rfl⟩ := h
              exact .textData first e hT heD hpost h1 rfl
          · have hline' : ∀ x ∈ first :: pre, x.1 ≠ e.1 := by
              have := nodup_append_cons (pre := first :: pre) (post := post) (e := e) (by simpa using hnd)
              exact this
            have hidx := idxOfLine_append (first :: pre) e post hline'
            simp only [List.cons_append] at hidx
            have : segStep (.ok (seg0 first (pre ++ e :: post))) e =
                .ok { data := post, text := first :: pre, dataExists := true, textExists := true } := by
              simp only [seg0, hD, hT, Bool.false_eq_true, if_false, segStep, heD, if_true,
                Bool.not_false, hidx]
              simp
            rw [this] at h
            cases hf : post.foldl segStep (.ok { data := post, text := first :: pre, dataExists := true, textExists := true }) with
            | error x => rw [hf] at h; cases h
            | ok s' =>
              rw [hf] at h
              obtain ⟨rfl, hpost⟩ := foldl_segStep_both post _ s' rfl rfl hf
              simp only [Except.ok.injEq, Prod.mk.injEq] at h
              obtain ⟨rfl, rfl⟩ := h
              refine .implicitTextData e heD (by simp) hpost ?_ rfl
              intro x hx
              rcases List.mem_cons.mp hx with rfl | hx
              · simp [isSegDir, hD, hT]
              · exact h1 x hx
        · have heT : isDir "text" e = true := by
            simp only [isSegDir, Bool.or_eq_true] at h2
            rcases h2 with h2 | h2
            · exact absurd h2 heD
            · exact h2
          have : segStep (.ok (seg0 first (pre ++ e :: post))) e =
              .error (.parser "ParserDirectiveException" e.1 e.2.1) := by
            by_cases hT : isDir "text" first = true
            · simp [seg0, hD, hT, segStep, heD, heT]
            · simp [seg0, hD, hT, segStep, heD, heT]
          rw [this, foldl_segStep_error] at h
          cases h

/-- In every accepted shape the token list is the text segment with something in front and
    something behind, and these parts consist of directives and data-segment lines only. -/
theorem SegShape.decompose {toks data text : List Entry} (h : SegShape toks data text) :
    ∃ pre post, toks = pre ++ text ++ post ∧
      (∀ e ∈ pre, isSegDir e = true ∨ e ∈ data) ∧ (∀ e ∈ post, isSegDir e = true ∨ e ∈ data) := by
  cases h with
  | textOnly h hd ht => exact ⟨[], [], by simp [ht], by simp, by simp⟩
  | dataOnly dD hD hd heq ht =>
    refine ⟨dD :: data, [], by simp [heq, ht], ?_, by simp⟩
    intro e he
    rcases List.mem_cons.mp he with rfl | he
    · left; simp [isSegDir, hD]
    · right; exact he
  | textDirOnly dT hT ht heq hd =>
    refine ⟨[dT], [], by simp [heq], ?_, by simp⟩
    intro e he
    simp only [List.mem_singleton] at he; subst he
    left; simp [isSegDir, hT]
  | dataText dD dT hD hT hd ht heq =>
    refine ⟨dD :: (data ++ [dT]), [], by simp [heq], ?_, by simp⟩
    intro e he
    simp only [List.mem_cons, List.mem_append, List.not_mem_nil, or_false] at he
    rcases he with rfl | he | rfl
    · left; simp [isSegDir, hD]
    · right; exact he
    · left; simp [isSegDir, hT]
  | textData dT dD hT hD hd ht heq =>
    refine ⟨[dT], dD :: data, by simp [heq], ?_, ?_⟩
    · intro e he
      simp only [List.mem_singleton] at he; subst he
      left; simp [isSegDir, hT]
    · intro e he
      rcases List.mem_cons.mp he with rfl | he
      · left; simp [isSegDir, hD]
      · right; exact he
  | implicitTextData dD hD hne hd ht heq =>
    refine ⟨[], dD :: data, by simp [heq], by simp, ?_⟩
    intro e he
    rcases List.mem_cons.mp he with rfl | he
    · left; simp [isSegDir, hD]
    · right; exact he

/-! ### line numbers of a tokenised text -/

theorem tokenize_lines (ls : List (Nat × List Char)) (toks : List Entry)
    (h : tokenize ls = .ok toks) : toks.map (·.1) = ls.map (·.1) := by
  induction ls generalizing toks with
  | nil => simp only [tokenize, Except.ok.injEq] at h; subst h; rfl
  | cons a ls ih =>
    obtain ⟨k, l⟩ := a
    simp only [tokenize] at h
    split at h
    · cases h
    · split at h
      · cases h
      · rename_i es hes
        simp only [Except.ok.injEq] at h
        subst h
        simp [ih es hes]

theorem zip_range_map_fst (n : Nat) (ls : List (List Char)) (h : ls.length = n) :
    ((List.range n).zip ls).map (·.1) = List.range n := by
  rw [List.map_fst_zip]
  simp [h]

theorem sanitize_lines_pairwise (text : String) : ((sanitize text).map (·.1)).Pairwise (· < ·) := by
  unfold sanitize
  simp only [List.map_map]
  refine List.Pairwise.sublist
    (l₂ := (List.range (splitLines text.toList).length).map (· + 1)) ?_ ?_
  · refine List.Sublist.trans ((List.filter_sublist).map _) ?_
    rw [List.map_map]
    have := zip_range_map_fst (splitLines text.toList).length (splitLines text.toList) rfl
    conv => rhs; rw [← this]
    rw [List.map_map]
    exact List.Sublist.refl _
  · rw [List.pairwise_map]
    exact List.pairwise_lt_range.imp (by intro a b h; omega)

/-- The token list of a text has strictly increasing (hence distinct) line numbers. -/
theorem tokenize_sanitize_nodup (text : String) (toks : List Entry)
    (h : tokenize (sanitize text) = .ok toks) : (toks.map (·.1)).Nodup := by
  rw [tokenize_lines _ _ h]
  exact (sanitize_lines_pairwise text).imp (by intro a b h; omega)

end ArchSim.ToyAsm
