/-
C04 (spelling independence), part 17: alternatives that share the mnemonic with the intended one but not the
operand syntax fail (or stop early) on every spelling.
-/
import ArchSim.Lemmas.C04SpellChain

namespace ArchSim.Lemmas.C04Spell
open ArchSim ArchSim.PP ArchSim.Rv ArchSim.Asm ArchSim.Lemmas.C14

section negs
variable (g w1 w2 w3 : List Char) (hg : AllWs g) (hgne : g ≠ []) (h1 : AllWs w1) (h2 : AllWs w2) (h3 : AllWs w3)

include hg hgne h1 h2 h3 in
theorem pBType_failS_RRI (w4 : List Char) (h4 : AllWs w4) (op : Op) (h : cls op = .b) (a b : Nat) (v : Int)
    (ha : a < 32) (hb : b < 32) (s1 s2 : RegStyle) (sn : NumStyle) (tr : List Char) :
    pBType (mn op ++ tReg g s1 a (tSep w1 ',' (tReg w2 s2 b (tSep w3 ',' (tNum w4 sn v tr))))) = .fail := by
  simp only [pBType, stage_exact bMn low_b op (ex2 op h) _ (mnSep_tReg g _ _ _ hg hgne), bind_ok,
    pReg_tReg g s1 a _ hg ha (tokEnd_tSep w1 ',' _ h1 comma_nlb), pComma_tSep w1 _ h1,
    pReg_tReg w2 s2 b _ h2 hb (tokEnd_tSep w3 ',' _ h3 comma_nlb), pComma_tSep w3 _ h3,
    pLabel_fail_tNum w4 sn v tr h4, bind_fail]

include hg hgne h1 h2 in
theorem pMemory_failS_jalr (a b : Nat) (ha : a < 32) (hb : b < 32) (s1 s2 : RegStyle) (r : List Char) :
    pMemory (mn .jalr ++ tReg g s1 a (tSep w1 ',' (tReg w2 s2 b r))) = .fail := by
  have h3' := stage_exact L3 low_3 .jalr (ex3 .jalr (by decide))
    (tReg g s1 a (tSep w1 ',' (tReg w2 s2 b r))) (mnSep_tReg g _ _ _ hg hgne)
  rw [L3] at h3'
  simp only [pMemory, h3', bind_ok, pReg_tReg g s1 a _ hg ha (tokEnd_tSep w1 ',' _ h1 comma_nlb),
    pComma_tSep w1 _ h1, pImm_fail_tReg w2 s2 b r h2 hb, bind_fail]

include hg hgne h1 h2 h3 in
/-- `jalr r, r, …` read as a load by variable name: stops in front of the second comma -/
theorem pMemPseudo_okS_jalr (a b : Nat) (ha : a < 32) (hb : b < 32) (s1 s2 : RegStyle) (r : List Char) :
    pMemPseudo (mn .jalr ++ tReg g s1 a (tSep w1 ',' (tReg w2 s2 b (tSep w3 ',' r))))
      = .ok (.memPseudo "jalr" a (String.ofList (regSp s2 b)) none) (tSep w3 ',' r) := by
  have h4' := stage_exact L4 low_4 .jalr (ex4 .jalr (by decide))
    (tReg g s1 a (tSep w1 ',' (tReg w2 s2 b (tSep w3 ',' r)))) (mnSep_tReg g _ _ _ hg hgne)
  rw [L4] at h4'
  simp only [pMemPseudo, h4', bind_ok, pReg_tReg g s1 a _ hg ha (tokEnd_tSep w1 ',' _ h1 comma_nlb),
    pComma_tSep w1 _ h1,
    pVariable_tReg w2 s2 b _ h2 hb (tokEnd_tSep w3 ',' _ h3 comma_nlb)
      (tSep_head_ne w3 ',' '[' r h3 (by decide) (by decide)), map_ok]
  rfl

include hg hgne in
theorem pJal_failS_jalr (r : List Char) : pJal (mn .jalr ++ (g ++ r)) = .fail := by
  have hk : caselessLit "jal" (mn .jalr ++ (g ++ r)) = .ok () (['r'] ++ (g ++ r)) := by
    rw [kwStage "jal" (by decide) .jalr _ (mnSep_append_ws g r hg hgne)]
    rfl
  have ht : TokEnd (g ++ r) := by
    cases g with
    | nil => exact absurd rfl hgne
    | cons c g' => exact tokEnd_cons c _ (isWs_not_labelBody c (hg c (by simp)))
  have hv : CaseVar ['r'] ['r'] := CaseVar.refl (by decide)
  simp only [pJal, hk, bind_ok, pReg_fail_var ['r'] ['r'] (g ++ r) hv (by simp) (by decide) ht, bind_fail]

include hg hgne h1 h2 in
theorem pMemPseudo_failS_MEM (op : Op) (h : cls op = .load) (a : Nat) (v : Int) (ha : a < 32) (s1 : RegStyle)
    (sn : NumStyle) (r : List Char) :
    pMemPseudo (mn op ++ tReg g s1 a (tSep w1 ',' (tNum w2 sn v r))) = .fail := by
  have h4' := stage_exact L4 low_4 op (ex4 op (Or.inl h))
    (tReg g s1 a (tSep w1 ',' (tNum w2 sn v r))) (mnSep_tReg g _ _ _ hg hgne)
  rw [L4] at h4'
  simp only [pMemPseudo, h4', bind_ok, pReg_tReg g s1 a _ hg ha (tokEnd_tSep w1 ',' _ h1 comma_nlb),
    pComma_tSep w1 _ h1, pVariable_fail_tNum w2 sn v r h2, map_fail]

include hg hgne h1 h2 in
theorem pSPseudo_failS_MEM (op : Op) (h : cls op = .store) (a : Nat) (v : Int) (ha : a < 32) (s1 : RegStyle)
    (sn : NumStyle) (r : List Char) :
    pSPseudo (mn op ++ tReg g s1 a (tSep w1 ',' (tNum w2 sn v r))) = .fail := by
  simp only [pSPseudo, stage_exact sMn low_s op (ex5 op h) _ (mnSep_tReg g _ _ _ hg hgne), bind_ok,
    pReg_tReg g s1 a _ hg ha (tokEnd_tSep w1 ',' _ h1 comma_nlb), pComma_tSep w1 _ h1,
    pVariable_fail_tNum w2 sn v r h2, bind_fail]

include hg hgne h1 h2 in
theorem pRegRegImm_failS_MEM (op : Op) (h : cls op = .load ∨ cls op = .store) (a : Nat) (v : Int) (ha : a < 32)
    (s1 : RegStyle) (sn : NumStyle) (r : List Char) :
    pRegRegImm (mn op ++ tReg g s1 a (tSep w1 ',' (tNum w2 sn v r))) = .fail := by
  have h8 := stage_exact L8 low_8 op (ex8 op (by rcases h with h | h <;> simp [h]))
    (tReg g s1 a (tSep w1 ',' (tNum w2 sn v r))) (mnSep_tReg g _ _ _ hg hgne)
  rw [L8] at h8
  simp only [pRegRegImm, h8, bind_ok, pReg_tReg g s1 a _ hg ha (tokEnd_tSep w1 ',' _ h1 comma_nlb),
    pComma_tSep w1 _ h1, pReg_fail_tNum w2 sn v r h2, bind_fail]

end negs

end ArchSim.Lemmas.C04Spell
