/-
C02 (control half), part 16: runs. The pipeline refines the sequential machine (induction over
cycles), faults agree.
-/
import ArchSim.Lemmas.C02Fault

namespace ArchSim.Pipe
open ArchSim ArchSim.Rv

theorem finishStep_hazard (p : PSt) (s : St) (n0 n1 n2 n3 n4 : Option Latch) :
    (finishStep p s n0 n1 n2 n3 n4).hazard = p.hazard := by
  cases h4 : latchFlush n4 with
  | some a => rw [finishStep_flush4 _ _ _ _ _ _ _ a h4]
  | none =>
    cases h3 : latchFlush n3 with
    | some a => rw [finishStep_flush3 _ _ _ _ _ _ _ a h4 h3]
    | none =>
      cases h2 : latchFlush n2 with
      | some a => rw [finishStep_flush2 _ _ _ _ _ _ _ a h4 h3 h2]
      | none => rw [finishStep_noflush _ _ _ _ _ _ _ h4 h3 h2]

theorem step_hazard (p : PSt) : (step p).p.hazard = p.hazard := by
  rw [step_eq]
  split
  · rfl
  · split
    · rfl
    · exact finishStep_hazard _ _ _ _ _ _ _

theorem runOK_succ {n : Nat} {p : PSt} (h : runOK (n + 1) p) :
    runOK n p ∧ (step (pipeRun n p)).fault = none :=
  ⟨fun m hm => h m (Nat.lt_succ_of_lt hm), h n (Nat.lt_succ_self n)⟩

theorem PInv_run (p : PSt) (hI : PInv p) : ∀ n, runOK n p → PInv (pipeRun n p)
  | 0, _ => hI
  | n + 1, h => PInv_step _ (PInv_run p hI n (runOK_succ h).1) (runOK_succ h).2

theorem hazard_run (p : PSt) : ∀ n, (pipeRun n p).hazard = p.hazard
  | 0 => rfl
  | n + 1 => by rw [pipeRun, step_hazard, hazard_run p n]

end ArchSim.Pipe

namespace ArchSim.Pipe
open ArchSim ArchSim.Rv

/-- The sequential step respects observational equality (the two instruction memories may be in
    different cache states as long as both are coherent). -/
theorem seqStep_simP {s t : St} (h : SimP s t) (hs : FetchSound s.imem) (ht : FetchSound t.imem) :
    SimP (seqStep s) (seqStep t) ∧ seqFault s = seqFault t := by
  obtain ⟨hsim, hpc⟩ := h
  have hia : s.imem.instrAt s.pc = t.imem.instrAt t.pc := by rw [instrAt_congr hsim.prog, hpc]
  cases hi : s.imem.instrAt s.pc with
  | none =>
    have hi' := hia ▸ hi
    have a := seqStep_noinstr s hi
    have b := seqStep_noinstr t hi'
    refine ⟨⟨a.1.trans (hsim.trans b.1.symm), a.2.trans (hpc.trans b.2.symm)⟩, ?_⟩
    unfold seqFault; rw [splitStep_noinstr s hi, splitStep_noinstr t hi']
  | some i =>
    have hi' := hia ▸ hi
    obtain ⟨a1, a2, a3⟩ := seqStep_cID s i hi hs
    obtain ⟨b1, b2, b3⟩ := seqStep_cID t i hi' ht
    have hl : fetchLatch s i = fetchLatch t i := by unfold fetchLatch; rw [hpc]
    have hc := cID_sim hsim (some (fetchLatch s i))
    rw [hl] at hc a1 a2 a3
    refine ⟨⟨a1.trans (hc.2.trans b1.symm), ?_⟩, ?_⟩
    · rw [a2, b2, hpc]; unfold Comp.pcOr; rw [hc.1]
    · rw [a3, b3]; exact flt_congr hc.1

theorem splitTail_imem (s1 : St) (f : Latch) (h : (splitTail s1 f).fault = none) :
    (splitTail s1 f).st.imem = s1.imem := by
  have := splitTail_cID s1 f
  rw [h] at this
  rw [this.2]; exact cID_imem _ _

theorem seqStep_imem (s : St) (hs : FetchSound s.imem) :
    (seqStep s).imem = s.imem ∨ (seqStep s).imem = (s.imem.fetch s.pc).imem := by
  cases hi : s.imem.instrAt s.pc with
  | none => left; unfold seqStep; rw [splitStep_noinstr s hi]
  | some i =>
    unfold seqStep
    rw [splitStep_instr' s i hi hs]
    cases hf : (splitTail (fetchSt s) (fetchLatch s i)).fault with
    | some _ => left; rfl
    | none => right; simp only []; rw [splitTail_imem _ _ hf]; rfl

theorem ICoh_seqStep (s : St) (h : ICoh s.imem) : ICoh (seqStep s).imem := by
  rcases seqStep_imem s h.fetchSound with e | e <;> rw [e]
  · exact h
  · exact h.fetch _

theorem ICoh_seqRun (s : St) (h : ICoh s.imem) : ∀ n, ICoh (seqRun n s).imem
  | 0 => h
  | n + 1 => ICoh_seqStep _ (ICoh_seqRun s h n)

end ArchSim.Pipe

namespace ArchSim.Pipe
open ArchSim ArchSim.Rv

theorem SimP.trans {s t u : St} (h : SimP s t) (g : SimP t u) : SimP s u := ⟨h.1.trans g.1, h.2.trans g.2⟩
theorem SimP.symm {s t : St} (h : SimP s t) : SimP t s := ⟨h.1.symm, h.2.symm⟩
theorem SimP.rfl' (s : St) : SimP s s := ⟨Sim.rfl' s, rfl⟩

theorem seqStep_stuck (s : St) (h : (seqFault s).isSome = true) : seqStep s = s := by
  unfold seqStep; unfold seqFault at h
  cases hf : (splitStep s).fault with
  | none => rw [hf] at h; cases h
  | some _ => rfl

theorem seqLog_congr {s t : St} (h : SimP s t) (hs : FetchSound s.imem) (ht : FetchSound t.imem) :
    seqLog s = seqLog t := by
  unfold seqLog
  rw [(seqStep_simP h hs ht).2, instrAt_congr h.1.prog, h.2]

/-- The latch leaving WB in a non-faulting cycle is the MEM/WB latch before the cycle. -/
theorem step_l4_log (p : PSt) (hf : (step p).fault = none) :
    l4Log (step p).p.l4 = latchLog p.l3 := by
  obtain ⟨hex, hme⟩ := (step_fault_none_iff p).1 hf
  have h4 : (step p).p.l4 = (wbOut p).2 := by
    rw [step_nofault p hex hme]
    dsimp only
    cases h4 : latchFlush (wbOut p).2 with
    | some a => rw [finishStep_flush4 _ _ _ _ _ _ _ a h4]
    | none =>
      cases h3 : latchFlush (memOut p).latch with
      | some a => rw [finishStep_flush3 _ _ _ _ _ _ _ a h4 h3]
      | none =>
        cases h2 : latchFlush (exOut p).latch with
        | some a => rw [finishStep_flush2 _ _ _ _ _ _ _ a h4 h3 h2]
        | none => rw [finishStep_noflush _ _ _ _ _ _ _ h4 h3 h2]
  rw [h4]
  unfold wbOut
  cases p.l3 with
  | none => rfl
  | some m => rfl

/-- Refinement over runs: after `n` non-faulting cycles the abstraction of the pipeline state is the
    state of the sequential machine after `k ≤ n` steps, the predicted fault (if any) is the fault of
    the sequential machine in that state, and the addresses retired so far followed by the pending
    ones are the addresses executed by the `k` sequential steps (after the initially pending ones). -/
theorem refine_run_raw (p0 : PSt) (hI : PInv p0) :
    ∀ n, runOK n p0 → (∀ m, m < n → RawFree (pipeRun m p0)) → ∃ k, k ≤ n ∧ SimP (abs (pipeRun n p0)) (seqRun k (abs p0)) ∧
      (absF p0 = none → absF (pipeRun n p0) = none ∨ absF (pipeRun n p0) = seqFault (seqRun k (abs p0))) ∧
      retireLog n p0 ++ absLog (pipeRun n p0) = absLog p0 ++ seqTrace k (abs p0)
  | 0, _, _ => ⟨0, Nat.le_refl 0, SimP.rfl' _, fun h => Or.inl h, by simp [retireLog, seqTrace, pipeRun]⟩
  | n + 1, hr, hraw => by
    obtain ⟨hr', hf⟩ := runOK_succ hr
    obtain ⟨k, hk, hsim, hflt, hlog⟩ :=
      refine_run_raw p0 hI n hr' (fun m hm => hraw m (Nat.lt_succ_of_lt hm))
    have hIn := PInv_run p0 hI n hr'
    obtain ⟨a1, a2, a3⟩ := abs_step_raw (pipeRun n p0) hIn (hraw n (Nat.lt_succ_self n)) hf
    have hcA : FetchSound (abs (pipeRun n p0)).imem := by rw [abs_imem]; exact hIn.icoh.fetchSound
    have hcS : FetchSound (seqRun k (abs p0)).imem :=
      (ICoh_seqRun (abs p0) (by rw [abs_imem]; exact hI.icoh) k).fetchSound
    have hl4 := step_l4_log (pipeRun n p0) hf
    have hrl : retireLog (n + 1) p0 ++ absLog (pipeRun (n + 1) p0) =
        retireLog n p0 ++ (latchLog (pipeRun n p0).l3 ++ absLog (step (pipeRun n p0)).p) := by
      show (retireLog n p0 ++ l4Log (step (pipeRun n p0)).p.l4) ++
        absLog (step (pipeRun n p0)).p = _
      rw [hl4, List.append_assoc]
    rw [hrl, a3, ← List.append_assoc, hlog]
    cases hfo : fetchOK (pipeRun n p0) with
    | false =>
      rw [hfo] at a1 a2
      simp only [Bool.false_eq_true, if_false] at a1 a2 ⊢
      refine ⟨k, Nat.le_succ_of_le hk, a1.trans hsim, fun h0 => ?_, by simp⟩
      show absF (step (pipeRun n p0)).p = none ∨ absF (step (pipeRun n p0)).p = _
      rw [a2]; exact hflt h0
    | true =>
      rw [hfo] at a1 a2
      simp only [if_true] at a1 a2 ⊢
      obtain ⟨c1, c2⟩ := seqStep_simP hsim hcA hcS
      refine ⟨k + 1, Nat.succ_le_succ hk, a1.trans c1, fun _ => ?_, ?_⟩
      · show absF (step (pipeRun n p0)).p = none ∨ absF (step (pipeRun n p0)).p = seqFault (seqStep (seqRun k (abs p0)))
        rw [a2, c2]
        cases hsf : seqFault (seqRun k (abs p0)) with
        | none => exact Or.inl rfl
        | some x =>
          right
          rw [seqStep_stuck _ (by rw [hsf]; rfl), hsf]
      · rw [seqLog_congr hsim hcA hcS, List.append_assoc]; rfl

/-- With hazard detection on, every reachable state is free of read-after-write hazards in decode. -/
theorem rawFree_run_of_hazard (p0 : PSt) (hI : PInv p0) (hz : p0.hazard = true) (n : Nat) (hr : runOK n p0) :
    ∀ m, m < n → RawFree (pipeRun m p0) := fun m hm =>
  rawFree_of_hazard _ (PInv_run p0 hI m (fun j hj => hr j (Nat.lt_trans hj hm))) (by rw [hazard_run, hz])

/-- `refine_run_raw` for a pipeline with hazard detection on. -/
theorem refine_run (p0 : PSt) (hI : PInv p0) (hz : p0.hazard = true) (n : Nat) (hr : runOK n p0) :
    ∃ k, k ≤ n ∧ SimP (abs (pipeRun n p0)) (seqRun k (abs p0)) ∧
      (absF p0 = none → absF (pipeRun n p0) = none ∨ absF (pipeRun n p0) = seqFault (seqRun k (abs p0))) ∧
      retireLog n p0 ++ absLog (pipeRun n p0) = absLog p0 ++ seqTrace k (abs p0) :=
  refine_run_raw p0 hI n hr (rawFree_run_of_hazard p0 hI hz n hr)

end ArchSim.Pipe

namespace ArchSim.Pipe
open ArchSim ArchSim.Rv

/-- Fault agreement over runs, general form (decode free of read-after-write hazards along the run). -/
theorem fault_agrees_run_raw (p0 : PSt) (hI : PInv p0) (h0 : absF p0 = none)
    (n : Nat) (hr : runOK n p0) (hraw : ∀ m, m < n → RawFree (pipeRun m p0))
    (ft : PFault) (hft : (step (pipeRun n p0)).fault = some ft) :
    ∃ k, k ≤ n ∧ seqFault (seqRun k (abs p0)) = some (ft.addr, ft.fault) ∧
      (seqRun k (abs p0)).pc = ft.addr ∧
      (step (pipeRun n p0)).p.st.regs = (seqRun k (abs p0)).regs ∧
      (step (pipeRun n p0)).p.st.output = (seqRun k (abs p0)).output := by
  obtain ⟨k, hk, hsim, hflt, _⟩ := refine_run_raw p0 hI n hr hraw
  obtain ⟨f1, f2, f3, f4⟩ := fault_local (pipeRun n p0) (PInv_run p0 hI n hr) ft hft
  refine ⟨k, hk, ?_, ?_, ?_, ?_⟩
  · rcases hflt h0 with h | h
    · rw [f1] at h; cases h
    · rw [← h, f1]
  · rw [← hsim.2, f2]
  · rw [f3, hsim.1.regs]
  · rw [f4, hsim.1.output]

/-- Fault agreement over runs (from an initial state with no predicted fault in flight). -/
theorem fault_agrees_run (p0 : PSt) (hI : PInv p0) (hz : p0.hazard = true) (h0 : absF p0 = none)
    (n : Nat) (hr : runOK n p0) (ft : PFault) (hft : (step (pipeRun n p0)).fault = some ft) :
    ∃ k, k ≤ n ∧ seqFault (seqRun k (abs p0)) = some (ft.addr, ft.fault) ∧
      (seqRun k (abs p0)).pc = ft.addr ∧
      (step (pipeRun n p0)).p.st.regs = (seqRun k (abs p0)).regs ∧
      (step (pipeRun n p0)).p.st.output = (seqRun k (abs p0)).output :=
  fault_agrees_run_raw p0 hI h0 n hr (rawFree_run_of_hazard p0 hI hz n hr) ft hft

/-! ### A finished pipeline: the abstraction is the physical state -/

/-- All latches empty and no stall in progress. -/
def Drained (p : PSt) : Prop :=
  p.l0 = none ∧ p.l1 = none ∧ p.l2 = none ∧ p.l3 = none ∧ p.stalled = none

theorem absC_of_drained (p : PSt) (h : Drained p) : absC p = pureC p.st :=
  absC_empty p h.1 h.2.1 h.2.2.1 h.2.2.2.1 h.2.2.2.2

theorem abs_of_drained (p : PSt) (h : Drained p) : abs p = p.st := by
  unfold abs; rw [absC_of_drained p h]; rfl

theorem absLog_of_drained (p : PSt) (h : Drained p) : absLog p = [] := by
  unfold absLog; rw [absC_of_drained p h]; rfl

theorem abs_of_empty (p : PSt) (h0 : p.l0 = none) (h1 : p.l1 = none) (h2 : p.l2 = none) (h3 : p.l3 = none)
    (hs : p.stalled = none) : abs p = p.st := by
  unfold abs; rw [absC_empty p h0 h1 h2 h3 hs]; rfl

theorem stalled_none_of_empty (p : PSt) (hI : PInv p) (h1 : p.l1 = none) (h2 : p.l2 = none) :
    p.stalled = none := by
  have hsh := hI.shape
  unfold Shape at hsh
  cases hs : p.stalled with
  | none => rfl
  | some st =>
    rw [hs] at hsh
    rcases hsh with ⟨_, _, _, _, h⟩ | ⟨_, _, _, _, _, h⟩
    · rw [h1] at h; cases h
    · rw [h2] at h; cases h

/-- `is_done()` without an exit code: all latches are empty. -/
theorem done_noexit_drained (p : PSt) (hI : PInv p) (hd : isDone p = true) (hx : p.st.exitCode = none) :
    Drained p := by
  unfold isDone at hd
  simp only [hx, Option.isSome_none, Bool.false_or, Bool.and_eq_true, Option.isNone_iff_eq_none] at hd
  obtain ⟨⟨⟨⟨h0, h1⟩, h2⟩, h3⟩, _⟩ := hd
  exact ⟨h0, h1, h2, h3, stalled_none_of_empty p hI h1 h2⟩

/-- `is_done()` without an exit code: all latches are empty, so `abs` is the physical state. -/
theorem done_noexit_physical (p : PSt) (hI : PInv p) (hd : isDone p = true) (hx : p.st.exitCode = none) :
    abs p = p.st := abs_of_drained p (done_noexit_drained p hI hd hx)

end ArchSim.Pipe

namespace ArchSim.Pipe
open ArchSim ArchSim.Rv

theorem wbStage_exitCode_noexit (s : St) (l : Option Latch) (h : latchExit l = false) :
    (wbStage s l).1.exitCode = s.exitCode := by
  cases l with
  | none => rfl
  | some m =>
    simp only [latchExit_some] at h
    unfold wbStage; simp only []
    cases hx : m.exitCode with
    | none => rfl
    | some c => rw [hx] at h; cases h

@[simp] theorem memStage_exitCode (s : St) (l : Option Latch) : (memStage s l).st.exitCode = s.exitCode := by
  cases l with
  | none => rfl
  | some m => unfold memStage; simp only []; repeat' split <;> try rfl

@[simp] theorem ecallRun_exitCode (s : St) (d : Latch) : (ecallRun s d).st.exitCode = s.exitCode := by
  unfold ecallRun; split <;> rfl

@[simp] theorem exStage_exitCode (s : St) (inp l2 l3 : Option Latch) :
    (exStage s inp l2 l3).st.exitCode = s.exitCode := by
  rcases exStage_st s inp l2 l3 with h | ⟨d, _, _, _, h⟩ <;> simp [h]

theorem stallBump_exitCode (k : Option Nat) (s : St) : (stallBump k s).exitCode = s.exitCode := by
  unfold stallBump; split <;> rfl

/-- The cycle in which the exit code appears is the retirement of the exiting ECALL: it flushes
    everything, so afterwards all latches are empty. -/
theorem exit_retire_drained (p : PSt) (hI : PInv p) (hf : (step p).fault = none)
    (hx : p.st.exitCode = none) (hx' : (step p).p.st.exitCode.isSome = true) :
    Drained (step p).p := by
  obtain ⟨hex, hme⟩ := (step_fault_none_iff p).1 hf
  rw [step_nofault p hex hme] at hx' ⊢
  dsimp only at hx' ⊢
  cases h4 : latchFlush (wbOut p).2 with
  | some a =>
    rw [finishStep_flush4 _ _ _ _ _ _ _ a h4]
    exact ⟨rfl, rfl, rfl, rfl, rfl⟩
  | none =>
    exfalso
    have hne := latchExit_of_wbflush_none p h4
    have hxc : (memOut p).st.exitCode = none := by
      unfold memOut exOut wbOut
      rw [memStage_exitCode, exStage_exitCode, wbStage_exitCode_noexit _ _ hne, ← (ifOut_sim p hI).exitCode, hx]
    cases h3 : latchFlush (memOut p).latch with
    | some a =>
      rw [finishStep_flush3 _ _ _ _ _ _ _ a h4 h3] at hx'
      simp [flushSt, stallBump_exitCode, hxc] at hx'
    | none =>
      cases h2 : latchFlush (exOut p).latch with
      | some a =>
        rw [finishStep_flush2 _ _ _ _ _ _ _ a h4 h3 h2] at hx'
        simp [flushSt, stallBump_exitCode, hxc] at hx'
      | none =>
        rw [finishStep_noflush _ _ _ _ _ _ _ h4 h3 h2] at hx'
        simp [stallBump_exitCode, hxc] at hx'

/-- The cycle in which the exit code appears: afterwards `abs` is the physical state. -/
theorem exit_retire_physical (p : PSt) (hI : PInv p) (hf : (step p).fault = none)
    (hx : p.st.exitCode = none) (hx' : (step p).p.st.exitCode.isSome = true) :
    abs (step p).p = (step p).p.st := abs_of_drained _ (exit_retire_drained p hI hf hx hx')

end ArchSim.Pipe

namespace ArchSim.Pipe
open ArchSim ArchSim.Rv

theorem exitCode_none_of_not_done (p : PSt) (h : isDone p = false) : p.st.exitCode = none := by
  unfold isDone at h
  cases hx : p.st.exitCode with
  | none => rfl
  | some c => rw [hx] at h; simp at h

/-- The simulation loop `while not is_done(): step()`: in the first done state (reached without a
    fault) all latches are empty. -/
theorem drained_at_first_done (p0 : PSt) (hI : PInv p0) (hx0 : p0.st.exitCode = none) (n : Nat)
    (hr : runOK n p0) (hd : isDone (pipeRun n p0) = true)
    (hprev : ∀ m, m < n → isDone (pipeRun m p0) = false) :
    Drained (pipeRun n p0) := by
  cases hx : (pipeRun n p0).st.exitCode with
  | none => exact done_noexit_drained _ (PInv_run p0 hI n hr) hd hx
  | some c =>
    cases n with
    | zero => rw [pipeRun, hx0] at hx; cases hx
    | succ m =>
      obtain ⟨hr', hf⟩ := runOK_succ hr
      have hxm := exitCode_none_of_not_done _ (hprev m (Nat.lt_succ_self m))
      exact exit_retire_drained _ (PInv_run p0 hI m hr') hf hxm (by rw [pipeRun] at hx; rw [hx]; rfl)

theorem abs_at_first_done (p0 : PSt) (hI : PInv p0) (hx0 : p0.st.exitCode = none) (n : Nat)
    (hr : runOK n p0) (hd : isDone (pipeRun n p0) = true)
    (hprev : ∀ m, m < n → isDone (pipeRun m p0) = false) :
    abs (pipeRun n p0) = (pipeRun n p0).st := abs_of_drained _ (drained_at_first_done p0 hI hx0 n hr hd hprev)

theorem absLog_at_first_done (p0 : PSt) (hI : PInv p0) (hx0 : p0.st.exitCode = none) (n : Nat)
    (hr : runOK n p0) (hd : isDone (pipeRun n p0) = true)
    (hprev : ∀ m, m < n → isDone (pipeRun m p0) = false) :
    absLog (pipeRun n p0) = [] := absLog_of_drained _ (drained_at_first_done p0 hI hx0 n hr hd hprev)

end ArchSim.Pipe
