/-
C04 (spelling independence), part 4: letter case of mnemonics. The caseless scanners (`oneOfCaseless`,
`caselessLit`) give the same result on a word and on any ASCII case variant of it.
-/
import ArchSim.Lemmas.C04SpellNumSp

namespace ArchSim.Lemmas.C04Spell
open ArchSim ArchSim.PP ArchSim.Rv ArchSim.Asm ArchSim.Lemmas.C14

/-! ### letters -/

def upList : List Char := "ABCDEFGHIJKLMNOPQRSTUVWXYZ".toList
def letterList : List Char := lowList ++ upList

theorem isUp_mem (c : Char) (h1 : 'A' ≤ c) (h2 : c ≤ 'Z') : c ∈ upList := by
  have ht : ∀ n < 91, 65 ≤ n → Char.ofNat n ∈ upList := by decide
  have hA : ('A' : Char).toNat = 65 := by decide
  have hZ : ('Z' : Char).toNat = 90 := by decide
  have := le_toNat h1
  have := le_toNat h2
  rw [← Char.ofNat_toNat c]
  exact ht _ (by omega) (by omega)

/-- `w'` is a case variant of the lower-case word `w` -/
def CaseVar (w' w : List Char) : Prop := w'.map toLowerAscii = w ∧ ∀ c ∈ w, isLow c = true

/-- a character whose lower case is a lower-case letter is a letter -/
theorem letter_of_lower (c' : Char) (h : isLow (toLowerAscii c') = true) : c' ∈ letterList := by
  unfold toLowerAscii at h
  split at h
  · next hu =>
    simp only [Bool.and_eq_true, decide_eq_true_eq] at hu
    exact List.mem_append_right _ (isUp_mem c' hu.1 hu.2)
  · exact List.mem_append_left _ (isLow_mem c' h)

theorem letter_facts : ∀ c ∈ letterList,
    c.toNat < 128 ∧ isWs c = false ∧ lowersTo [c] = true ∧ toLowerAscii c ∈ lowList ∧
    upperAscii c = upperAscii (toLowerAscii c) ∧ c ≠ '.' ∧ isLabelInit c = true ∧ isLabelBody c = true := by
  decide

theorem low_fixed : ∀ c ∈ lowList, toLowerAscii c = c ∧ c.toNat < 128 := by decide

theorem low_upper_inj : ∀ p ∈ lowList, ∀ c ∈ lowList, upperAscii c = upperAscii p → p = c := by decide

theorem reCharMatch_ascii (p c : Char) (h : c.toNat < 128) :
    reCharMatch p c = decide (toLowerAscii c = toLowerAscii p) := by
  have h1 : (c.toNat = 0x17F) = False := by simp; omega
  have h2 : (c.toNat = 0x212A) = False := by simp; omega
  have h3 : (c.toNat = 0x130) = False := by simp; omega
  have h4 : (c.toNat = 0x131) = False := by simp; omega
  simp only [reCharMatch, h, h1, h2, h3, h4, decide_true, Bool.true_and, decide_false, Bool.and_false,
    Bool.or_false]

theorem CaseVar.nil_iff {w : List Char} (h : CaseVar [] w) : w = [] := by
  simpa using h.1.symm

theorem CaseVar.cons {c' : Char} {cs' w : List Char} (h : CaseVar (c' :: cs') w) :
    ∃ c cs, w = c :: cs ∧ toLowerAscii c' = c ∧ c ∈ lowList ∧ c' ∈ letterList ∧ CaseVar cs' cs := by
  obtain ⟨h1, h2⟩ := h
  simp only [List.map_cons] at h1
  subst h1
  have hc := h2 (toLowerAscii c') (by simp)
  exact ⟨_, _, rfl, rfl, isLow_mem _ hc, letter_of_lower c' hc, rfl, fun x hx => h2 x (by simp [hx])⟩

theorem CaseVar.length {w' w : List Char} (h : CaseVar w' w) : w'.length = w.length := by
  rw [← h.1]; simp

theorem CaseVar.refl {w : List Char} (h : ∀ c ∈ w, isLow c = true) : CaseVar w w := by
  refine ⟨?_, h⟩
  induction w with
  | nil => rfl
  | cons c cs ih =>
    simp only [List.map_cons, (low_fixed c (isLow_mem c (h c (by simp)))).1,
      ih (fun x hx => h x (by simp [hx]))]

theorem CaseVar.letters {w' w : List Char} (h : CaseVar w' w) : ∀ c ∈ w', c ∈ letterList := by
  intro c hc
  apply letter_of_lower
  apply h.2
  rw [← h.1]
  exact List.mem_map_of_mem hc

theorem CaseVar.lowers_ok {w' w : List Char} (h : CaseVar w' w) : PP.lowersTo w' = true := by
  simp only [PP.lowersTo, List.all_eq_true]
  intro c hc
  have := (letter_facts c (h.letters c hc)).2.2.1
  simpa [PP.lowersTo] using this

theorem CaseVar.upper {w' w : List Char} (h : CaseVar w' w) : w'.map upperAscii = w.map upperAscii := by
  rw [← h.1, List.map_map]
  apply List.map_congr_left
  intro c hc
  exact (letter_facts c (h.letters c hc)).2.2.2.2.1

theorem CaseVar.drop {w' w : List Char} (h : CaseVar w' w) (n : Nat) : CaseVar (w'.drop n) (w.drop n) := by
  refine ⟨?_, fun c hc => h.2 c (List.mem_of_mem_drop hc)⟩
  rw [← h.1, List.map_drop]

theorem CaseVar.take {w' w : List Char} (h : CaseVar w' w) (n : Nat) : CaseVar (w'.take n) (w.take n) := by
  refine ⟨?_, fun c hc => h.2 c (List.mem_of_mem_take hc)⟩
  rw [← h.1, List.map_take]

/-- the case variants made by `recase` -/
theorem caseVar_recase (sel : Nat → Bool) (w : List Char) (h : ∀ c ∈ w, isLow c = true) :
    CaseVar (recase sel w) w := by
  refine ⟨?_, h⟩
  have ht : ∀ c ∈ lowList, toLowerAscii c.toUpper = c ∧ toLowerAscii c.toLower = c := by decide
  have := recase_map toLowerAscii sel w (fun c hc => by
    have h1 := ht c (isLow_mem c (h c hc))
    have h2 := (low_fixed c (isLow_mem c (h c hc))).1
    exact ⟨by rw [h1.1, h2], by rw [h1.2, h2]⟩)
  rw [this]
  exact (CaseVar.refl h).1

end ArchSim.Lemmas.C04Spell
