/-
C17 (tables) — concrete states for the non-vacuity examples of `Props/C17Views.lean`.
-/
import ArchSim.Lemmas.C17ViewsRows

namespace ArchSim.Lemmas.C17Views
open ArchSim ArchSim.Mem ArchSim.Views ArchSim.Toy ArchSim.Lemmas.C18

/-- Three bytes in two words, written in DESCENDING address order: 16394, 16393 (word 16392), then
16385 (word 16384). -/
def exMem : Mem :=
  (writeN (writeN (writeN (Mem.empty riscvCfg) 16394 1 0xAB).1 16393 1 0x7F).1 16385 1 0x80).1

theorem exMem_wf : WF exMem :=
  WF_writeN _ _ _ _ (WF_writeN _ _ _ _ (WF_writeN _ _ _ _ (WF_empty riscvCfg)))

theorem exMem_keys : exMem.keys = [16394, 16393, 16385] := by decide

theorem exMem_entries : reprEntries exMem 32 = .ok [(16392, 0xAB7F00), (16384, 0x8000)] := rfl

theorem exMem_sorted :
    [((16392 : Int), 0xAB7F00), (16384, 0x8000)].mergeSort addrLe
      = [(16384, 0x8000), (16392, 0xAB7F00)] := by
  simp [List.mergeSort, List.MergeSort.Internal.splitInTwo, addrLe]

/-- A TOY state: data words at 6 and 5 (written first, in descending order), the three instructions
`LDA 5; ADD 6; STO 7` at 0, 1, 2, and the first cycle of the first instruction executed. -/
def exToy : TSim :=
  (firstCycle (loadImage {} [⟨1, 5⟩, ⟨3, 6⟩, ⟨0, 7⟩] [(6, 0xFFFF), (5, 1)])).t

theorem exToy_keys : exToy.s.mem.keys = [6, 5, 0, 1, 2] := by decide

theorem exToy_state : exToy.s.maxPc = some 2 ∧ exToy.s.addrCur = some 0 ∧ exToy.nextCycle = 2 ∧
    exToy.s.accu = 1 ∧ exToy.s.pc = 1 ∧ exToy.s.loaded = some ⟨1, 5⟩ := by decide

theorem exToy_entries : reprEntries exToy.s.mem 16 =
    .ok [(6, 0xFFFF), (5, 1), (0, 0x1005), (1, 0x3006), (2, 0x0007)] := rfl

theorem exToy_sorted :
    [((6 : Int), 0xFFFF), (5, 1), (0, 0x1005), (1, 0x3006), (2, 0x0007)].mergeSort addrLe
      = [(0, 0x1005), (1, 0x3006), (2, 0x0007), (5, 1), (6, 0xFFFF)] := by
  simp [List.mergeSort, List.MergeSort.Internal.splitInTwo, addrLe]

end ArchSim.Lemmas.C17Views
