/-
C09 helper lemmas, part 7: the real policies (LRU, PLRU) satisfy the abstract policy interface,
and the re-read lemma at the level of `Rv.MemSys` / `Rv.behavior` (single-cycle display re-read).
-/
import ArchSim.Lemmas.C10Pol
import ArchSim.Lemmas.C09Reread
import ArchSim.Lemmas.C09Run

namespace ArchSim.Lemmas.C09
open ArchSim ArchSim.Cache ArchSim.Spec.TagCache ArchSim.Repl

theorem polOps_access (l : Bool) : (polOps l).access = Pol.access := by cases l <;> rfl
theorem polOps_victim (l : Bool) : (polOps l).victim = Pol.victim := by cases l <;> rfl
theorem polOps_init (l : Bool) : (polOps l).init = Pol.init l := by cases l <;> rfl

/-- The associativity suits the policy: PLRU needs a power of two (as the Python constructor
    asserts). -/
def AssocOK (isLru : Bool) (assoc : Nat) : Prop :=
  0 < assoc ∧ (isLru = false → ∃ d, assoc = 2 ^ d)

theorem polOps_ok {isLru : Bool} {assoc : Nat} (h : AssocOK isLru assoc) :
    PolicyOK (polOps isLru) assoc (Pol.WF assoc) where
  init := by rw [polOps_init]; exact Pol.WF_init isLru assoc h.2
  access := by
    intro s i hs hi
    rw [polOps_access]
    exact Pol.WF.access hs hi
  victim := by
    intro s hs
    rw [polOps_victim]
    exact Pol.WF.victim hs h.1

theorem polOps_idem (isLru : Bool) (assoc : Nat) : PolicyIdem (polOps isLru) (Pol.WF assoc) := by
  intro s s' i hs h
  rw [polOps_access] at h ⊢
  exact Pol.WF.access_idem hs h

/-! ### The display re-read of the single-cycle stage -/

open ArchSim.Rv in
/-- At the level of the state's memory system: after a successful-or-not accepted read through a
    cached memory system, the uncounted re-read of the same (wrapped) address returns the same
    result, leaves the memory system as it is and adds no cycles. -/
theorem memsys_reread {l : Bool} {s : DSys Pol} (ha : AssocOK l s.geo.assoc)
    (hinv : Inv (Pol.WF s.geo.assoc) s) {bits : Nat} {a : Int} (hacc : Accepted bits a)
    (counted : Bool) {a' : Int} (haa : wrap32 a' = wrap32 a) :
    ((MemSys.cached l s).read bits a counted).mem.read bits a' false =
      { mem := ((MemSys.cached l s).read bits a counted).mem,
        res := ((MemSys.cached l s).read bits a counted).res, extra := 0 } := by
  simp only [MemSys.read]
  rw [reread_same_address (polOps_ok ha) (polOps_idem l _) hinv hacc counted haa]

theorem wrap32_wrapU_add (d : Nat) (im : Int) :
    wrap32 ((Rv.wrapU d : Int) + im) = wrap32 ((d : Int) + im) := by
  unfold wrap32 Rv.wrapU
  omega

open ArchSim.Rv in
/-- The memory system after `behavior` of a load is the one its counted read left. -/
theorem behavior_load_mem (i : Instr) (st : St) (hty : i.op.ty = .memI) :
    (behavior i st).st.mem =
      (st.mem.read (accessBits i.op) ((st.regs i.rs1 : Int) + i.imm) true).mem := by
  unfold behavior
  simp only [hty]
  split <;> rfl

open ArchSim.Rv in
/-- **The display re-read is harmless.** In single-cycle mode a load is executed by `behavior`
    (counted read at `regs[rs1] + imm`) and then `memory_access(..., update_statistics=False)`
    re-reads `UInt32(regs[rs1]) + imm` for the visualisation.  With a cached data memory and an
    accepted address the re-read leaves the memory system exactly as `behavior` left it and adds
    no cycles. -/
theorem behavior_load_reread (i : Instr) (st : St) (hty : i.op.ty = .memI)
    {l : Bool} {s : DSys Pol} (hmem : st.mem = .cached l s) (ha : AssocOK l s.geo.assoc)
    (hinv : Inv (Pol.WF s.geo.assoc) s)
    (hacc : Accepted (accessBits i.op) ((st.regs i.rs1 : Int) + i.imm)) :
    ∃ r, memoryAccess i (some ((wrapU (st.regs i.rs1) : Int) + i.imm)) none (behavior i st).st.mem false
      = some { mem := (behavior i st).st.mem, extra := 0, res := r } := by
  rw [behavior_load_mem i st hty, hmem]
  unfold memoryAccess
  simp only [hty]
  rw [memsys_reread ha hinv hacc true (wrap32_wrapU_add _ _)]
  exact ⟨_, rfl⟩

/-! ### Concrete objects for the non-vacuity examples and the counterexample of `Props/C09.lean` -/

/-- A 2-set, 2-word-block, 2-way geometry. -/
def exGeo : Geo := { idxBits := 1, blkBits := 1, assoc := 2 }

/-- A history mixing widths, counted and uncounted reads, write hits and misses (the write miss is
    where write-back and write-through part ways), conflict misses in one set (three distinct tags
    into a 2-way set), an address that wraps modulo 2^32, and direct writes, one of them to an
    address the lower memory rejects. -/
def exOps : List Op :=
  [ .read 32 16384 true, .write 8 16389 7 false, .read 16 16390 false, .read 32 16400 true,
    .write 16 16434 513 false, .read 16 16434 true, .read 8 16403 true,
    .read 32 (4294967296 + 16384) true, .write 32 0 1 true, .write 32 32768 9 true,
    .read 32 32768 true, .read 8 32775 true ]

/-- A policy that counts how often it is told about an access: total, but not idempotent. -/
def counterOps : PolicyOps Nat :=
  { init := fun _ => 0, access := fun s _ => some (s + 1), victim := fun _ => some 0 }

def counterGeo : Geo := { idxBits := 0, blkBits := 0, assoc := 1 }

/-- A one-block cache with the counting policy after one read of address 16384. -/
def counterState : DSys Nat :=
  ((DSys.init counterOps false counterGeo 3 (Mem.Mem.empty Mem.riscvCfg)).read counterOps 32 16384 true).sys

end ArchSim.Lemmas.C09
