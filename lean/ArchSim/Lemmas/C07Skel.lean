/-
C07 helper lemmas: erasing the data of a pipeline state to the schedule skeleton
(`ArchSim/Spec/Skeleton.lean`), and the per-stage commutation lemmas.
Core Lean only.
-/
import ArchSim.Spec.Skeleton
import ArchSim.Lemmas.C07Closed
import ArchSim.Lemmas.C07Hazard

namespace ArchSim.Lemmas.C07
open ArchSim ArchSim.Rv ArchSim.Pipe ArchSim.Lemmas.C02Split ArchSim.Spec

def eraseL (x : Latch) : Skeleton.Tok :=
  { instr := x.instr, addr := x.addr, pc4 := x.pc4, flagged := x.flagged, exits := x.exitCode.isSome }

def eraseO (l : Option Latch) : Option Skeleton.Tok := l.map eraseL

def eraseStall (st : Stall) : Skeleton.SkStall :=
  { k := st.k, rem := st.rem, p0 := eraseO st.p0, p1 := eraseO st.p1 }

/-- The schedule skeleton of a pipeline state: all data erased. -/
def erase (p : PSt) : Skeleton.Sk :=
  { pc := p.st.pc, hazard := p.hazard, exited := p.st.exitCode.isSome, instrs := p.st.instrs,
    stalls := p.st.stalls, flushes := p.st.flushes, s0 := eraseO p.l0, s1 := eraseO p.l1,
    s2 := eraseO p.l2, s3 := eraseO p.l3, stalled := p.stalled.map eraseStall }

/-- What the data path decides in the cycle that starts in `p`. -/
def outcomes (p : PSt) : Skeleton.Outcomes :=
  { hasInstr := (p.st.imem.instrAt p.st.pc).isSome,
    fetched := (ifStage (tick p.st)).2.map (·.instr),
    exExit := match (exO p).latch with | some x => x.exitCode.isSome | none => false,
    memTarget := latchFlush (meO p).latch }

theorem erase_idIn (p : PSt) : Skeleton.idIn (erase p) = eraseO (idInput p) := by
  unfold Skeleton.idIn idInput erase; cases p.stalled <;> rfl

theorem erase_exIn (p : PSt) : Skeleton.exIn (erase p) = eraseO (exInput p) := by
  unfold Skeleton.exIn exInput erase
  cases p.stalled with
  | none => rfl
  | some st => simp only [Option.map_some, eraseStall]; split <;> rfl

theorem erase_memIn (p : PSt) : Skeleton.memIn (erase p) = eraseO (memInput p) := by
  unfold Skeleton.memIn memInput erase
  cases p.stalled with
  | none => rfl
  | some st => simp only [Option.map_some, eraseStall]; split <;> rfl

theorem erase_setFlag (l : Option Latch) : eraseO (Pipe.setFlag l) = Skeleton.setFlag (eraseO l) := by
  cases l <;> rfl

/-! ### IF -/

theorem ifStage_erase (s : St) :
    eraseO (ifStage s).2 =
      ((ifStage s).2.map (·.instr)).map fun i =>
        { instr := i, addr := s.pc, pc4 := s.pc + 4, flagged := false, exits := false } := by
  unfold ifStage
  split
  · rfl
  · simp only; split <;> rfl

theorem erase_nIF (p : PSt) : eraseO (nIF p) = Skeleton.newS0 (erase p) (outcomes p) := by
  unfold nIF Skeleton.newS0 erase outcomes
  cases p.stalled with
  | none => exact ifStage_erase (tick p.st)
  | some st => rfl

theorem sIF_pc (p : PSt) : (sIF p).pc = Skeleton.pcIF (erase p) (outcomes p) := by
  unfold sIF Skeleton.pcIF erase outcomes
  cases p.stalled with
  | none => simp only [Option.map_none]; rw [ifStage_pc]; rfl
  | some st => rfl

/-! ### ID -/

theorem erase_nID (p : PSt) : eraseO (nID p) = Skeleton.newS1 (erase p) := by
  unfold Skeleton.newS1 nID
  rw [erase_idIn]
  cases idInput p <;> rfl

theorem hazardWith_depends (c : Instr) (regs : Nat → Nat) (l : Option Latch) :
    hazardWith (accessRegs c regs) l = Skeleton.depends c (eraseO l) := by
  cases l with
  | none => rfl
  | some x =>
    unfold hazardWith Skeleton.depends Skeleton.srcs
    rw [accessRegs_a1 c regs (fun _ => 0), accessRegs_a2 c regs (fun _ => 0)]
    rfl

theorem nID_stallSig (p : PSt) : latchStall (nID p) = Skeleton.idStallSig (erase p) := by
  unfold Skeleton.idStallSig nID
  rw [erase_idIn]
  cases idInput p with
  | none => rfl
  | some f =>
    simp only [idStage_some, latchStall, idLatch, idStall, eraseO, Option.map_some]
    rw [hazardWith_depends, hazardWith_depends]
    rfl

/-! ### WB -/

theorem nWB_flush (p : PSt) : latchFlush (nWB p) = Skeleton.flush4 (erase p) := by
  unfold nWB Skeleton.flush4 erase
  cases p.l3 with
  | none => rfl
  | some m => rw [wbStage_some]; rfl

theorem sIF_exitCode (p : PSt) : (sIF p).exitCode = p.st.exitCode := by
  unfold sIF
  cases p.stalled with
  | none => simp only [(ifStage_frame _).2.2.2.1]; rfl
  | some st => rfl

theorem sIF_instrs (p : PSt) : (sIF p).instrs = p.st.instrs := by
  unfold sIF
  cases p.stalled with
  | none => simp only [(ifStage_frame _).2.2.2.2.1]; rfl
  | some st => rfl

theorem sWB_exited (p : PSt) : (sWB p).exitCode.isSome = Skeleton.exitedWB (erase p) := by
  unfold sWB Skeleton.exitedWB erase
  cases h : p.l3 with
  | none => simp [wbStage_none, sIF_exitCode, eraseO]
  | some m =>
    rw [wbStage_some]
    simp only [wbSt, sIF_exitCode, eraseO, Option.map_some, eraseL]
    cases m.exitCode <;> simp

theorem sWB_instrs (p : PSt) : (sWB p).instrs = Skeleton.instrsWB (erase p) := by
  unfold sWB Skeleton.instrsWB erase
  rw [wbStage_instrs, sIF_instrs]
  cases p.l3 <;> rfl

end ArchSim.Lemmas.C07
