/-
C01 helper lemmas, part 1: the model's `Nat`/`Int` arithmetic (`wrapU`, `toS`, `aluRR`, `aluRI`,
`branchCond`, `loadExt`) equals the bit-vector operations of the reference semantics.

`W a = BitVec.ofNat 32 a` is the abstraction of a register value.
-/
import ArchSim.Spec.RvSpec

namespace ArchSim.Lemmas.C01
open ArchSim ArchSim.Rv ArchSim.Spec.RvSpec

/-- Abstraction of a register value. -/
abbrev W (a : Nat) : Word := BitVec.ofNat 32 a

theorem toInt_W (a : Nat) : (W a).toInt = toS a := by
  rw [BitVec.toInt_eq_toNat_cond]
  simp only [BitVec.toNat_ofNat, toS]
  split <;> split <;> omega

theorem toNat_W (a : Nat) (h : a < 4294967296) : (W a).toNat = a := by
  simp only [BitVec.toNat_ofNat]; omega

theorem W_wrapU (z : Int) : W (wrapU z) = BitVec.ofInt 32 z := by
  apply BitVec.eq_of_toNat_eq
  simp only [BitVec.toNat_ofNat, BitVec.toNat_ofInt, wrapU]
  omega

theorem wrapU_lt (z : Int) : wrapU z < 4294967296 := by
  simp only [wrapU]; omega

theorem W_inj (a b : Nat) (ha : a < 4294967296) (hb : b < 4294967296) : W a = W b ↔ a = b := by
  constructor
  · intro h
    have := congrArg BitVec.toNat h
    rwa [toNat_W a ha, toNat_W b hb] at this
  · rintro rfl; rfl

theorem W_eq_zero (a : Nat) (ha : a < 4294967296) : W a = 0 ↔ a = 0 :=
  W_inj a 0 ha (by omega)

theorem toS_bounds (a : Nat) : -2147483648 ≤ toS a ∧ toS a < 2147483648 := by
  simp only [toS]; split <;> omega

/-! ### RV32I register-register -/

theorem alu_add (a b : Nat) : W (aluRR .add a b) = W a + W b := by
  apply BitVec.eq_of_toNat_eq
  simp only [aluRR, BitVec.toNat_add, BitVec.toNat_ofNat]
  omega

theorem alu_sub (a b : Nat) : W (aluRR .sub a b) = W a - W b := by
  apply BitVec.eq_of_toNat_eq
  simp only [aluRR, BitVec.toNat_sub, BitVec.toNat_ofNat, wrapU]
  omega

/-- Left shift by any amount `k`. -/
theorem W_shl (a k : Nat) : W ((a * 2 ^ k) % 4294967296) = W a <<< k := by
  apply BitVec.eq_of_toNat_eq
  simp only [BitVec.toNat_shiftLeft, BitVec.toNat_ofNat, Nat.shiftLeft_eq]
  rw [Nat.mod_mod, Nat.mod_mul_mod]

/-- Logical right shift by any amount `k`. -/
theorem W_shr (a k : Nat) (ha : a < 4294967296) : W (a / 2 ^ k) = W a >>> k := by
  apply BitVec.eq_of_toNat_eq
  simp only [BitVec.toNat_ushiftRight, BitVec.toNat_ofNat, Nat.shiftRight_eq_div_pow]
  rw [Nat.mod_eq_of_lt ha]
  exact Nat.mod_eq_of_lt (Nat.lt_of_le_of_lt (Nat.div_le_self _ _) ha)

/-- Arithmetic right shift by any amount `k`: floor division of the signed value. -/
theorem W_sar (a k : Nat) : W (wrapU (toS a / (2 : Int) ^ k)) = (W a).sshiftRight k := by
  have h2 : (2 : Int) ^ k = ((2 ^ k : Nat) : Int) := by simp
  rw [W_wrapU, ← toInt_W, h2, ← Int.shiftRight_eq_div_pow, ← BitVec.toInt_sshiftRight, BitVec.ofInt_toInt]

theorem shamt_W (b : Nat) : shamt (W b) = b % 32 := by
  simp only [shamt, BitVec.toNat_ofNat]; omega

theorem alu_sll (a b : Nat) : W (aluRR .sll a b) = W a <<< shamt (W b) := by
  rw [shamt_W]; exact W_shl a _

theorem alu_srl (a b : Nat) (ha : a < 4294967296) : W (aluRR .srl a b) = W a >>> shamt (W b) := by
  rw [shamt_W]; exact W_shr a _ ha

theorem alu_sra (a b : Nat) : W (aluRR .sra a b) = (W a).sshiftRight (shamt (W b)) := by
  rw [shamt_W]; exact W_sar a _

theorem alu_slt (a b : Nat) : W (aluRR .slt a b) = ofBool ((W a).slt (W b)) := by
  simp only [aluRR, BitVec.slt_eq_decide, toInt_W, ofBool]
  by_cases h : toS a < toS b <;> simp [h]

theorem alu_sltu (a b : Nat) (ha : a < 4294967296) (hb : b < 4294967296) :
    W (aluRR .sltu a b) = ofBool ((W a).ult (W b)) := by
  simp only [aluRR, BitVec.ult_eq_decide, toNat_W a ha, toNat_W b hb, ofBool]
  by_cases h : a < b <;> simp [h]

theorem alu_xor (a b : Nat) : W (aluRR .xor a b) = W a ^^^ W b := BitVec.ofNat_xor
theorem alu_or (a b : Nat) : W (aluRR .or a b) = W a ||| W b := BitVec.ofNat_or
theorem alu_and (a b : Nat) : W (aluRR .and a b) = W a &&& W b := BitVec.ofNat_and

/-! ### RV32M -/

theorem alu_mul (a b : Nat) : W (aluRR .mul a b) = W a * W b := by
  apply BitVec.eq_of_toNat_eq
  simp only [aluRR, BitVec.toNat_mul, BitVec.toNat_ofNat]
  rw [Nat.mod_mod, ← Nat.mul_mod]

theorem zext64_toNat (a : Nat) (ha : a < 4294967296) : (BitVec.zeroExtend 64 (W a)).toNat = a := by
  simp only [BitVec.zeroExtend, BitVec.toNat_setWidth, BitVec.toNat_ofNat]; omega

theorem zext64_toInt (a : Nat) (ha : a < 4294967296) : (BitVec.zeroExtend 64 (W a)).toInt = a := by
  rw [BitVec.toInt_eq_toNat_cond, zext64_toNat a ha]; split <;> omega

theorem alu_mulhu (a b : Nat) (ha : a < 4294967296) (hb : b < 4294967296) :
    W (aluRR .mulhu a b) = mulhu (W a) (W b) := by
  have hp : a * b < 4294967296 * 4294967296 := Nat.mul_lt_mul'' ha hb
  apply BitVec.eq_of_toNat_eq
  simp only [aluRR, mulhu, hi32, BitVec.extractLsb'_toNat, BitVec.toNat_mul, zext64_toNat _ ha,
    zext64_toNat _ hb, Nat.shiftRight_eq_div_pow, BitVec.toNat_ofNat]
  generalize a * b = p at *
  omega

theorem smul_bounds (x y : Int) (hx : -2147483648 ≤ x ∧ x < 2147483648) (hy : -2147483648 ≤ y ∧ y < 4294967296) :
    -9223372036854775808 ≤ x * y ∧ x * y < 9223372036854775808 := by
  have h1 : (x * y).natAbs ≤ 2147483648 * 4294967295 := by
    rw [Int.natAbs_mul]; exact Nat.mul_le_mul (by omega) (by omega)
  omega

theorem hi32_of_toInt (X : BitVec 64) (p : Int) (hX : X.toInt = p) :
    hi32 X = W (wrapU (p / 4294967296)) := by
  apply BitVec.eq_of_toNat_eq
  have h1 := BitVec.toInt_eq_toNat_cond X
  have h2 := X.isLt
  simp only [hi32, BitVec.extractLsb'_toNat, BitVec.toNat_ofNat, Nat.shiftRight_eq_div_pow, wrapU]
  rw [hX] at h1
  split at h1 <;> omega

theorem alu_mulh (a b : Nat) : W (aluRR .mulh a b) = mulh (W a) (W b) := by
  have hb := smul_bounds (toS a) (toS b) (toS_bounds a) (by have := toS_bounds b; omega)
  simp only [aluRR, mulh]
  rw [hi32_of_toInt _ (toS a * toS b)]
  rw [BitVec.toInt_mul, BitVec.toInt_signExtend_of_le (by omega), BitVec.toInt_signExtend_of_le (by omega),
    toInt_W, toInt_W, Int.bmod_def]
  generalize toS a * toS b = p at *
  omega

theorem alu_mulhsu (a b : Nat) (hb : b < 4294967296) : W (aluRR .mulhsu a b) = mulhsu (W a) (W b) := by
  have hbd := smul_bounds (toS a) (b : Int) (toS_bounds a) (by omega)
  simp only [aluRR, mulhsu]
  rw [hi32_of_toInt _ (toS a * (b : Int))]
  rw [BitVec.toInt_mul, BitVec.toInt_signExtend_of_le (by omega), zext64_toInt b hb, toInt_W, Int.bmod_def]
  generalize toS a * (b : Int) = p at *
  omega

theorem div_eq (x y : Word) : div x y = if y = 0 then BitVec.allOnes 32 else x.sdiv y := by
  unfold div
  split
  · rfl
  · split
    · rename_i h; rw [h.1, h.2]; decide
    · rfl

theorem rem_eq (x y : Word) : rem x y = if y = 0 then x else x.srem y := by
  unfold rem
  split
  · rfl
  · split
    · rename_i h; rw [h.1, h.2]; decide
    · rfl

theorem alu_div (a b : Nat) (hb : b < 4294967296) : W (aluRR .div a b) = div (W a) (W b) := by
  rw [div_eq]
  simp only [aluRR, W_eq_zero b hb]
  split
  · decide
  · rw [W_wrapU, pyTruncDiv]
    apply BitVec.eq_of_toInt_eq
    rw [BitVec.toInt_ofInt, BitVec.toInt_sdiv, toInt_W, toInt_W]

theorem alu_rem (a b : Nat) (hb : b < 4294967296) : W (aluRR .rem a b) = rem (W a) (W b) := by
  rw [rem_eq]
  simp only [aluRR, W_eq_zero b hb]
  split
  · rfl
  · rw [W_wrapU, pyTruncDiv, ← BitVec.ofInt_toInt (x := (W a).srem (W b)), BitVec.toInt_srem, toInt_W, toInt_W,
      Int.tmod_def, Int.mul_comm]

theorem alu_divu (a b : Nat) (ha : a < 4294967296) (hb : b < 4294967296) :
    W (aluRR .divu a b) = divu (W a) (W b) := by
  simp only [aluRR, divu, W_eq_zero b hb]
  split
  · decide
  · apply BitVec.eq_of_toNat_eq
    rw [BitVec.toNat_udiv, toNat_W a ha, toNat_W b hb]
    exact toNat_W _ (Nat.lt_of_le_of_lt (Nat.div_le_self _ _) ha)

theorem alu_remu (a b : Nat) (ha : a < 4294967296) (hb : b < 4294967296) :
    W (aluRR .remu a b) = remu (W a) (W b) := by
  simp only [aluRR, remu, W_eq_zero b hb]
  split
  · rfl
  · apply BitVec.eq_of_toNat_eq
    rw [BitVec.toNat_umod, toNat_W a ha, toNat_W b hb]
    exact toNat_W _ (Nat.lt_of_le_of_lt (Nat.mod_le _ _) ha)

/-! ### immediates -/

theorem immI_eq (i : Instr) (h : -2048 ≤ i.imm ∧ i.imm < 2048) : immI i = BitVec.ofInt 32 i.imm := by
  apply BitVec.eq_of_toInt_eq
  rw [immI, BitVec.toInt_signExtend_of_le (by omega)]
  simp only [BitVec.toInt_ofInt, Int.bmod_def]
  omega

theorem immB_eq (i : Instr) (h : -4096 ≤ i.imm ∧ i.imm < 4096) : immB i = BitVec.ofInt 32 i.imm := by
  apply BitVec.eq_of_toInt_eq
  rw [immB, BitVec.toInt_signExtend_of_le (by omega)]
  simp only [BitVec.toInt_ofInt, Int.bmod_def]
  omega

theorem immJ_eq (i : Instr) (h : -1048576 ≤ i.imm ∧ i.imm < 1048576) : immJ i = BitVec.ofInt 32 i.imm := by
  apply BitVec.eq_of_toInt_eq
  rw [immJ, BitVec.toInt_signExtend_of_le (by omega)]
  simp only [BitVec.toInt_ofInt, Int.bmod_def]
  omega

theorem immU_eq (i : Instr) : immU i = BitVec.ofInt 32 (i.imm * 4096) := by
  apply BitVec.eq_of_toNat_eq
  simp only [immU, BitVec.toNat_append, BitVec.toNat_ofInt, BitVec.toNat_ofNat, Nat.shiftLeft_eq]
  simp
  omega

theorem shamtI_eq (i : Instr) (h : 0 ≤ i.imm ∧ i.imm < 32) : shamtI i = i.imm.toNat := by
  simp only [shamtI, BitVec.toNat_ofInt]
  omega

/-! ### register-immediate forms reduce to the register-register ALU on `wrapU imm` -/

theorem aluRI_addi (a : Nat) (imm : Int) : aluRI .addi a imm = aluRR .add a (wrapU imm) := rfl
theorem aluRI_slti (a : Nat) (imm : Int) : aluRI .slti a imm = aluRR .slt a (wrapU imm) := rfl
theorem aluRI_sltiu (a : Nat) (imm : Int) : aluRI .sltiu a imm = aluRR .sltu a (wrapU imm) := rfl
theorem aluRI_xori (a : Nat) (imm : Int) : aluRI .xori a imm = aluRR .xor a (wrapU imm) := rfl
theorem aluRI_ori (a : Nat) (imm : Int) : aluRI .ori a imm = aluRR .or a (wrapU imm) := rfl
theorem aluRI_andi (a : Nat) (imm : Int) : aluRI .andi a imm = aluRR .and a (wrapU imm) := rfl

theorem aluRI_slli (a : Nat) (imm : Int) (h : 0 ≤ imm ∧ imm < 32) :
    W (aluRI .slli a imm) = W a <<< imm.toNat := by
  have : wrapU imm = imm.toNat := by simp only [wrapU]; omega
  simp only [aluRI, this]; exact W_shl a _

theorem aluRI_srli (a : Nat) (imm : Int) (h : 0 ≤ imm ∧ imm < 32) (ha : a < 4294967296) :
    W (aluRI .srli a imm) = W a >>> imm.toNat := by
  have : wrapU imm = imm.toNat := by simp only [wrapU]; omega
  simp only [aluRI, this]; exact W_shr a _ ha

theorem aluRI_srai (a : Nat) (imm : Int) (h : 0 ≤ imm ∧ imm < 32) :
    W (aluRI .srai a imm) = (W a).sshiftRight imm.toNat := by
  have : (imm % 65536).toNat = imm.toNat := by omega
  simp only [aluRI, this]; exact W_sar a _

/-! ### branch conditions -/

theorem br_blt (a b : Nat) : branchCond .blt a b = (W a).slt (W b) := by
  simp only [branchCond, BitVec.slt_eq_decide, toInt_W]

theorem br_bge (a b : Nat) : branchCond .bge a b = !(W a).slt (W b) := by
  simp only [branchCond, BitVec.slt_eq_decide, toInt_W]
  by_cases h : toS a < toS b <;> simp [h] <;> omega

theorem br_bltu (a b : Nat) (ha : a < 4294967296) (hb : b < 4294967296) :
    branchCond .bltu a b = (W a).ult (W b) := by
  simp only [branchCond, BitVec.ult_eq_decide, toNat_W a ha, toNat_W b hb]

theorem br_bgeu (a b : Nat) (ha : a < 4294967296) (hb : b < 4294967296) :
    branchCond .bgeu a b = !(W a).ult (W b) := by
  simp only [branchCond, BitVec.ult_eq_decide, toNat_W a ha, toNat_W b hb]
  by_cases h : a < b <;> simp [h] <;> omega

/-! ### extension of loaded values -/

theorem ext_lb (v : Nat) : W (loadExt .lb v) = (BitVec.ofNat 8 v).signExtend 32 := by
  simp only [loadExt, W_wrapU]
  apply BitVec.eq_of_toInt_eq
  rw [BitVec.toInt_signExtend_of_le (by omega), BitVec.toInt_ofInt, BitVec.toInt_eq_toNat_cond]
  simp only [sextBits, BitVec.toNat_ofNat, Int.bmod_def]
  split <;> split <;> omega

theorem ext_lh (v : Nat) : W (loadExt .lh v) = (BitVec.ofNat 16 v).signExtend 32 := by
  simp only [loadExt, W_wrapU]
  apply BitVec.eq_of_toInt_eq
  rw [BitVec.toInt_signExtend_of_le (by omega), BitVec.toInt_ofInt, BitVec.toInt_eq_toNat_cond]
  simp only [sextBits, BitVec.toNat_ofNat, Int.bmod_def]
  split <;> split <;> omega

theorem ext_lbu (v : Nat) (hv : v < 256) : W (loadExt .lbu v) = (BitVec.ofNat 8 v).zeroExtend 32 := by
  apply BitVec.eq_of_toNat_eq
  simp only [loadExt, BitVec.zeroExtend, BitVec.toNat_setWidth, BitVec.toNat_ofNat]
  omega

theorem ext_lhu (v : Nat) (hv : v < 65536) : W (loadExt .lhu v) = (BitVec.ofNat 16 v).zeroExtend 32 := by
  apply BitVec.eq_of_toNat_eq
  simp only [loadExt, BitVec.zeroExtend, BitVec.toNat_setWidth, BitVec.toNat_ofNat]
  omega

/-! ### little-endian composition -/

theorem le2 (c0 c1 : Nat) (h0 : c0 < 256) :
    BitVec.ofNat 8 c1 ++ BitVec.ofNat 8 c0 = BitVec.ofNat 16 (c0 + c1 * 256) := by
  apply BitVec.eq_of_toNat_eq
  simp only [BitVec.toNat_append, BitVec.toNat_ofNat]
  rw [← Nat.shiftLeft_add_eq_or_of_lt (by omega), Nat.shiftLeft_eq]
  omega

theorem le4 (c0 c1 c2 c3 : Nat) (h0 : c0 < 256) (h1 : c1 < 256) (h2 : c2 < 256) :
    (BitVec.ofNat 8 c3 ++ BitVec.ofNat 8 c2 ++ BitVec.ofNat 8 c1 ++ BitVec.ofNat 8 c0 : BitVec 32) =
      W (c0 + c1 * 256 + c2 * 65536 + c3 * 16777216) := by
  apply BitVec.eq_of_toNat_eq
  simp only [BitVec.toNat_append, BitVec.toNat_ofNat]
  rw [← Nat.shiftLeft_add_eq_or_of_lt (by omega), ← Nat.shiftLeft_add_eq_or_of_lt (by omega),
    ← Nat.shiftLeft_add_eq_or_of_lt (by omega)]
  simp only [Nat.shiftLeft_eq]
  omega

/-! ### program counter and link values -/

theorem pc_rel (pc imm : Int) :
    BitVec.ofInt 32 ((pc + (imm - 4) + 4) % 4294967296) = BitVec.ofInt 32 pc + BitVec.ofInt 32 imm := by
  apply BitVec.eq_of_toNat_eq
  simp only [BitVec.toNat_add, BitVec.toNat_ofInt]
  omega

theorem auipc_val (pc imm : Int) :
    W (wrapU (pc + imm * 4096)) = BitVec.ofInt 32 pc + BitVec.ofInt 32 (imm * 4096) := by
  rw [W_wrapU]
  apply BitVec.eq_of_toNat_eq
  simp only [BitVec.toNat_add, BitVec.toNat_ofInt]
  omega


/-! ### remaining pieces -/

theorem clear_bit0 (x : Word) : (x &&& ~~~(1#32)).toNat = x.toNat - x.toNat % 2 := by
  have : x &&& ~~~(1#32) = (x >>> 1) <<< 1 := by
    ext k hk
    simp only [BitVec.getElem_and, BitVec.getElem_not, BitVec.getElem_shiftLeft, BitVec.getElem_ushiftRight,
      BitVec.getElem_one]
    by_cases h0 : k = 0
    · subst h0; simp
    · have h1 : ¬ k < 1 := by omega
      have h2 : 1 + (k - 1) = k := by omega
      simp [h0, h1, h2, BitVec.getLsbD_eq_getElem hk]
  rw [this]
  simp only [BitVec.toNat_shiftLeft, BitVec.toNat_ushiftRight, Nat.shiftLeft_eq, Nat.shiftRight_eq_div_pow]
  have := x.isLt
  omega

theorem sext16_wrapU (imm : Int) (h : -2048 ≤ imm ∧ imm < 2048) : sextBits 16 (wrapU imm) = imm := by
  simp only [sextBits, wrapU, Nat.reducePow, Nat.reduceSub]
  omega

theorem br_beq (a b : Nat) (ha : a < 4294967296) (hb : b < 4294967296) :
    branchCond .beq a b = (W a == W b) := by
  simp only [branchCond]
  rw [Bool.eq_iff_iff, beq_iff_eq, beq_iff_eq]
  exact (W_inj a b ha hb).symm

theorem br_bne (a b : Nat) (ha : a < 4294967296) (hb : b < 4294967296) :
    branchCond .bne a b = (W a != W b) := by
  have := br_beq a b ha hb
  simp only [branchCond] at this
  simp only [branchCond, bne, this]

theorem byteOf_W (v k : Nat) : byteOf (W v) k = BitVec.ofNat 8 (v % 4294967296 / 2 ^ (8 * k) % 256) := by
  apply BitVec.eq_of_toNat_eq
  simp only [byteOf, BitVec.extractLsb'_toNat, BitVec.toNat_ofNat, Nat.shiftRight_eq_div_pow, Nat.reducePow,
    Nat.mod_mod]

theorem pc_next (pc : Int) : BitVec.ofInt 32 ((pc + 4) % 4294967296) = BitVec.ofInt 32 pc + 4 := by
  apply BitVec.eq_of_toNat_eq
  simp only [BitVec.toNat_add, BitVec.toNat_ofInt, BitVec.toNat_ofNat, BitVec.ofNat_eq_ofNat]
  omega

theorem link (pc : Int) : W (wrapU (pc + 4)) = BitVec.ofInt 32 pc + 4 := by
  rw [W_wrapU]
  apply BitVec.eq_of_toNat_eq
  simp only [BitVec.toNat_add, BitVec.toNat_ofInt, BitVec.toNat_ofNat, BitVec.ofNat_eq_ofNat]
  omega

/-- JALR: the model's target computation, after the stage's `+ 4`, is `(rs1 + sext imm) & ~1`. -/
theorem jalr_pc (a : Nat) (imm : Int) (h : -2048 ≤ imm ∧ imm < 2048) :
    BitVec.ofInt 32 ((((wrapU (toS a + sextBits 16 (wrapU imm)) -
        wrapU (toS a + sextBits 16 (wrapU imm)) % 2 : Nat) : Int) - 4 + 4) % 4294967296) =
      (W a + BitVec.ofInt 32 imm) &&& ~~~(1#32) := by
  rw [sext16_wrapU imm h]
  have ht : wrapU (toS a + imm) = (W a + BitVec.ofInt 32 imm).toNat := by
    simp only [BitVec.toNat_add, BitVec.toNat_ofNat, BitVec.toNat_ofInt, wrapU, toS]
    split <;> omega
  rw [ht]
  generalize W a + BitVec.ofInt 32 imm = x
  apply BitVec.eq_of_toNat_eq
  have hx := x.isLt
  rw [clear_bit0]
  simp only [BitVec.toNat_ofInt]
  omega

end ArchSim.Lemmas.C01
