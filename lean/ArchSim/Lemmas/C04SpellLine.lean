/-
C04 (spelling independence), part 9: changing the letter case of the mnemonic of a line does not change what
`pInstrBody` / `parseLine` return.
-/
import ArchSim.Lemmas.C04SpellTbl

namespace ArchSim.Lemmas.C04Spell
open ArchSim ArchSim.PP ArchSim.Rv ArchSim.Asm ArchSim.Lemmas.C14

section alts
variable (m : String) (hm : m ∈ mnWords) (w' rest : List Char) (hv : CaseVar w' m.toList)
  (hr : MnSep rest) (ht : TokEnd rest)
include hm hv hr ht

theorem pRType_cv : pRType (w' ++ rest) = pRType (m.toList ++ rest) := by
  unfold pRType
  exact mnAlt_caseVar rrrMn low_rrr _ (fun s r h => by rw [h]; rfl) w' m.toList rest hv
    (mnWords_low m hm).2 (stage_rrr m hm) hr ht

theorem pUType_cv : pUType (w' ++ rest) = pUType (m.toList ++ rest) := by
  unfold pUType
  exact mnAlt_caseVar uMn low_u _ (fun s r h => by rw [h]; rfl) w' m.toList rest hv
    (mnWords_low m hm).2 (stage_u m hm) hr ht

theorem pBType_cv : pBType (w' ++ rest) = pBType (m.toList ++ rest) := by
  unfold pBType
  exact mnAlt_caseVar bMn low_b _ (fun s r h => by rw [h]; rfl) w' m.toList rest hv
    (mnWords_low m hm).2 (stage_b m hm) hr ht

theorem pMemory_cv : pMemory (w' ++ rest) = pMemory (m.toList ++ rest) := by
  unfold pMemory
  exact mnAlt_caseVar (memIMn ++ sMn) low_3 _ (fun s r h => by rw [h]; rfl) w' m.toList rest hv
    (mnWords_low m hm).2 (stage_3 m hm) hr ht

theorem pMemPseudo_cv : pMemPseudo (w' ++ rest) = pMemPseudo (m.toList ++ rest) := by
  unfold pMemPseudo
  exact mnAlt_caseVar (memIMn ++ ["la"]) low_4 _ (fun s r h => by rw [h]; rfl) w' m.toList rest hv
    (mnWords_low m hm).2 (stage_4 m hm) hr ht

theorem pSPseudo_cv : pSPseudo (w' ++ rest) = pSPseudo (m.toList ++ rest) := by
  unfold pSPseudo
  exact mnAlt_caseVar sMn low_s _ (fun s r h => by rw [h]; rfl) w' m.toList rest hv
    (mnWords_low m hm).2 (stage_s m hm) hr ht

theorem pCsr_cv : pCsr (w' ++ rest) = pCsr (m.toList ++ rest) := by
  unfold pCsr
  exact mnAlt_caseVar csrMn low_csr _ (fun s r h => by rw [h]; rfl) w' m.toList rest hv
    (mnWords_low m hm).2 (stage_csr m hm) hr ht

theorem pCsri_cv : pCsri (w' ++ rest) = pCsri (m.toList ++ rest) := by
  unfold pCsri
  exact mnAlt_caseVar csriMn low_csri _ (fun s r h => by rw [h]; rfl) w' m.toList rest hv
    (mnWords_low m hm).2 (stage_csri m hm) hr ht

theorem pRegRegImm_cv : pRegRegImm (w' ++ rest) = pRegRegImm (m.toList ++ rest) := by
  unfold pRegRegImm
  exact mnAlt_caseVar (normalIMn ++ memIMn ++ bMn ++ sMn) low_8 _ (fun s r h => by rw [h]; rfl) w' m.toList
    rest hv (mnWords_low m hm).2 (stage_8 m hm) hr ht

theorem pMv_cv : pMv (w' ++ rest) = pMv (m.toList ++ rest) := by
  unfold pMv
  exact mnAlt_caseVar ["mv"] low_mv _ (fun s r h => by rw [h]; rfl) w' m.toList rest hv
    (mnWords_low m hm).2 (stage_mv m hm) hr ht

theorem pJal_cv : pJal (w' ++ rest) = pJal (m.toList ++ rest) := by
  unfold pJal
  exact kwAlt_caseVar "jal" (by decide) _ (fun s r h => by rw [h]; rfl) w' m.toList rest hv
    (mnWords_low m hm).2 (kw_jal m hm) hr ht

theorem pFence_cv : pFence (w' ++ rest) = pFence (m.toList ++ rest) := by
  unfold pFence
  exact kwAlt_caseVar "fence" (by decide) _ (fun s r h => by rw [h]; rfl) w' m.toList rest hv
    (mnWords_low m hm).2 (kw_fence m hm) hr ht

theorem pLi_cv : pLi (w' ++ rest) = pLi (m.toList ++ rest) := by
  unfold pLi
  exact kwAlt_caseVar "li" (by decide) _ (fun s r h => by rw [h]; rfl) w' m.toList rest hv
    (mnWords_low m hm).2 (kw_li m hm) hr ht

end alts

theorem kwBare_cv (kw : String) (hkw : ∀ c ∈ kw.toList, isLow c = true) (w' w rest : List Char)
    (hv : CaseVar w' w) (hne : w ≠ []) (hok : kwExact kw w = true) (hr : MnSep rest) :
    caselessLit kw (w' ++ rest) = caselessLit kw (w ++ rest) := by
  rw [caselessLit_var kw w' w rest hkw hv hne hr, caselessLit_var kw w w rest hkw (CaseVar.refl hv.2) hne hr]
  by_cases hp : kw.toList.isPrefixOf w = true
  · simp only [kwExact, hp, Bool.not_true, Bool.false_or, beq_iff_eq] at hok
    have hu : w.drop kw.toList.length = [] := by rw [hok]; simp
    have hu' : w'.drop kw.toList.length = [] := by
      apply List.length_eq_zero_iff.mp
      rw [(hv.drop _).length, hu]; rfl
    rw [hu, hu']
  · simp only [hp, Bool.false_eq_true, if_false]

theorem orLongest_congr {α : Type} (ps : List (Inp → R α)) (i i' : Inp) (h : ∀ p ∈ ps, p i = p i') :
    orLongest ps i = orLongest ps i' := by
  have : ps.map (fun p => p i) = ps.map (fun p => p i') := List.map_congr_left h
  simp only [orLongest, this]

/-- The instruction grammar does not see the letter case of the mnemonic. -/
theorem pInstrBody_cv (m : String) (hm : m ∈ mnWords) (w' rest : List Char) (hv : CaseVar w' m.toList)
    (hr : MnSep rest) (ht : TokEnd rest) : pInstrBody (w' ++ rest) = pInstrBody (m.toList ++ rest) := by
  have hne := (mnWords_low m hm).2
  have hb := kw_bare m hm
  have e1 := kwBare_cv "ecall" (by decide) w' m.toList rest hv hne hb.1 hr
  have e2 := kwBare_cv "ebreak" (by decide) w' m.toList rest hv hne hb.2.1 hr
  have e3 := kwBare_cv "nop" (by decide) w' m.toList rest hv hne hb.2.2 hr
  unfold pInstrBody
  apply orLongest_congr
  intro p hp
  simp only [List.mem_cons, List.not_mem_nil, or_false] at hp
  rcases hp with rfl | rfl | rfl | rfl | rfl | rfl | rfl | rfl | rfl | rfl | rfl | rfl | rfl | rfl | rfl
  · simp only [pRType_cv m hm w' rest hv hr ht]
  · simp only [pUType_cv m hm w' rest hv hr ht]
  · simp only [pBType_cv m hm w' rest hv hr ht]
  · simp only [pMemory_cv m hm w' rest hv hr ht]
  · simp only [pMemPseudo_cv m hm w' rest hv hr ht]
  · simp only [pSPseudo_cv m hm w' rest hv hr ht]
  · simp only [pCsr_cv m hm w' rest hv hr ht]
  · simp only [pCsri_cv m hm w' rest hv hr ht]
  · simp only [pRegRegImm_cv m hm w' rest hv hr ht]
  · simp only [pFence_cv m hm w' rest hv hr ht]
  · simp only [pJal_cv m hm w' rest hv hr ht]
  · simp only [first, e1, e2]
  · simp only [e3]
  · simp only [pLi_cv m hm w' rest hv hr ht]
  · simp only [pMv_cv m hm w' rest hv hr ht]

end ArchSim.Lemmas.C04Spell
