/-
C11 helper lemmas, part 2: the single-cycle step fetches exactly once per executed instruction.
`behavior` and the display re-read never touch the instruction memory or the instruction count, so
after `singleStep` the instruction memory is the one the (single) fetch left.
-/
import ArchSim.Lemmas.C11

namespace ArchSim.Lemmas.C11
open ArchSim ArchSim.Cache ArchSim.Rv ArchSim.Repl ArchSim.Spec.TagCache ArchSim.Lemmas.C09

theorem behavior_frame (i : Instr) (s : St) :
    (behavior i s).st.imem = s.imem ∧ (behavior i s).st.instrs = s.instrs := by
  unfold behavior
  simp only
  repeat' split
  all_goals exact ⟨rfl, rfl⟩

/-- No instruction at `pc`: nothing is fetched, nothing is counted. -/
theorem singleStep_none (s : St) (hi : s.imem.instrAt s.pc = none) :
    (singleStep s).st.imem = s.imem ∧ (singleStep s).st.instrs = s.instrs := by
  unfold singleStep
  simp only [hi]
  exact ⟨trivial, trivial⟩

/-- An instruction at `pc`: the instruction memory afterwards is the one the single fetch left, and
    the instruction count grew by one (whatever the instruction does, faulting or not). -/
theorem singleStep_some (s : St) {j : Instr} (hi : s.imem.instrAt s.pc = some j) :
    (singleStep s).st.imem = (s.imem.fetch s.pc).imem ∧ (singleStep s).st.instrs = s.instrs + 1 := by
  unfold singleStep
  simp only [hi]
  repeat' split
  all_goals first
    | exact ⟨rfl, rfl⟩
    | exact behavior_frame _ _
    | (rename_i heq; repeat' split at heq
       all_goals (cases heq <;> exact behavior_frame _ _))

/-- One single-cycle step: the instruction-cache access counter grows exactly as the instruction
    count does (by 1 if an instruction exists at `pc`, by 0 otherwise); the invariant is kept. -/
theorem singleStep_fetch_count {s : St} {c : ICache} (hc : s.imem.cache = some c)
    (hinv : IInv s.imem c) :
    ∃ c', (singleStep s).st.imem.cache = some c' ∧ IInv (singleStep s).st.imem c' ∧
      c'.accesses + s.instrs = c.accesses + (singleStep s).st.instrs ∧
      (singleStep s).st.instrs = s.instrs + (if (s.imem.instrAt s.pc).isSome then 1 else 0) := by
  cases hi : s.imem.instrAt s.pc with
  | none =>
    obtain ⟨h1, h2⟩ := singleStep_none s hi
    exact ⟨c, by rw [h1, hc], by rw [h1]; exact hinv, by rw [h2], by simp [h2]⟩
  | some j =>
    obtain ⟨h1, h2⟩ := singleStep_some s hi
    obtain ⟨_, ⟨c', hc', hinv', he, _⟩, _⟩ := fetch_spec hc hinv s.pc
    have ha : (eraseI c').accesses = (refRead (polOps c.isLru) (eraseI c) s.pc true).cache.accesses := by
      rw [he]
    refine ⟨c', by rw [h1, hc'], ?_, ?_, by simp [h2]⟩
    · rw [h1, hc']; exact hinv'.congr rfl
    · rw [h2]
      have : c'.accesses = c.accesses + 1 := ha
      omega

/-- `n` single-cycle steps. -/
def singleRun : Nat → St → St
  | 0, s => s
  | n + 1, s => singleRun n (singleStep s).st

theorem singleRun_fetch_count (n : Nat) {s : St} {c : ICache} (hc : s.imem.cache = some c)
    (hinv : IInv s.imem c) :
    ∃ c', (singleRun n s).imem.cache = some c' ∧ IInv (singleRun n s).imem c' ∧
      c'.accesses + s.instrs = c.accesses + (singleRun n s).instrs := by
  induction n generalizing s c with
  | zero => exact ⟨c, hc, hinv, rfl⟩
  | succ n ih =>
    obtain ⟨c1, h1, hinv1, ha1, _⟩ := singleStep_fetch_count hc hinv
    obtain ⟨c', h2, hinv2, ha2⟩ := ih h1 hinv1
    exact ⟨c', h2, hinv2, by simp only [singleRun]; omega⟩

/-! ### Concrete objects for the non-vacuity examples of `Props/C11.lean` -/

/-- A three-instruction program and a tiny cache (2 sets, 2-word blocks, 2 ways). -/
def exProg : List Instr :=
  [ { op := .addi, rd := 1, rs1 := 0, imm := 5 }, { op := .add, rd := 2, rs1 := 1, rs2 := 1 },
    { op := .beq, rs1 := 0, rs2 := 0, imm := -8 } ]
def exIGeo : Geo := { idxBits := 1, blkBits := 1, assoc := 2 }
def exIM (isLru : Bool) : IMem := { prog := exProg, cache := some (ICache.init isLru exIGeo 7) }


end ArchSim.Lemmas.C11
