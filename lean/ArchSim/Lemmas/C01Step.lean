/-
C01 helper lemmas, part 8: `singleStep` — facts that hold for every state (x0, pc range), the
characterisation of one step on an uncached instruction memory and a flat data memory, and the
refinement of steps and runs.
-/
import ArchSim.Lemmas.C01Inv
namespace ArchSim.Lemmas.C01
open ArchSim ArchSim.Rv ArchSim.Spec.RvSpec ArchSim.Mem ArchSim.Cache

theorem instrAt_fetch (prog : List Instr) (c : Option ICache) (pc : Int) (h0 : 0 ≤ pc) (h1 : pc < 4294967296) :
    IMem.instrAt { prog := prog, cache := c } pc = fetch prog (BitVec.ofInt 32 pc) := by
  simp only [IMem.instrAt, fetch, BitVec.toNat_ofInt]
  have e1 : (pc % ((2 ^ 32 : Nat) : Int)).toNat = pc.toNat := by omega
  rw [e1]
  by_cases h : pc % 4 = 0
  · rw [if_pos ⟨h0, h⟩, if_pos (by omega)]
    congr 1; omega
  · rw [if_neg (fun hh => h hh.2), if_neg (by omega)]

theorem fetch_ok (prog : List Instr) (hlen : prog.length ≤ 4096) (pc : Int) (i : Instr)
    (h : IMem.instrAt { prog := prog, cache := none } pc = some i) :
    IMem.fetch { prog := prog, cache := none } pc =
      { imem := { prog := prog, cache := none }, res := .ok (some i), extra := 0 } := by
  simp only [IMem.instrAt] at h
  split at h
  · rename_i hc
    have hlt : (pc / 4).toNat < prog.length := by
      rcases Nat.lt_or_ge (pc / 4).toNat prog.length with h' | h'
      · exact h'
      · rw [List.getElem?_eq_none h'] at h; cases h
    simp only [IMem.fetch, IMem.instrAt]
    rw [if_pos ⟨hc.1, by omega⟩, if_pos hc, h]
  · cases h

/-- The state in which `singleStep` runs `behavior`: counters advanced. -/
@[reducible] def counted (s : St) : St := { s with cycles := s.cycles + 1 + 0, instrs := s.instrs + 1 }

theorem singleStep_none (s : St) (h : s.imem.instrAt s.pc = none) :
    singleStep s = { st := { s with cycles := s.cycles + 1 }, fault := none } := by
  simp only [singleStep, h]


/-- The uncounted re-read of a load returns what the load returned and changes nothing. -/
theorem reread_flat (i : Instr) (s : St) (m : Mem) (hm : s.mem = .flat m) (hc : m.cfg = riscvCfg)
    (hr : s.regs i.rs1 < 4294967296) (hty : i.op.ty = .memI) (hf : (behavior i s).fault = none) :
    ∃ r, memoryAccess i (some ((wrapU (s.regs i.rs1 : Int) : Int) + i.imm)) none (behavior i s).st.mem false =
      some { mem := (behavior i s).st.mem, extra := 0, res := .ok r } := by
  have hb8 : 8 ≤ accessBits i.op := by simp only [accessBits]; split <;> omega
  have hw : wrapU (s.regs i.rs1 : Int) = s.regs i.rs1 := by simp only [wrapU]; omega
  simp only [behavior, hty, hm, read_flat m hc _ hb8] at hf ⊢
  unfold memoryAccess
  simp only [hty, hw]
  cases hrd : (rdCells m ((s.regs i.rs1 : Int) + i.imm) (accessBits i.op / 8) 0) with
  | error e => rw [hrd] at hf; simp [Except.map] at hf
  | ok v =>
    simp only [Except.map, St.setReg, read_flat m hc _ hb8, hrd]
    exact ⟨_, rfl⟩

theorem behavior_imem (i : Instr) (s : St) : (behavior i s).st.imem = s.imem := by
  unfold behavior
  simp only []
  repeat' split
  all_goals rfl


theorem counted_inv {s : St} (h : Inv s) : Inv (counted s) := h.of_eq rfl rfl

/-- `singleStep` at an occupied pc (uncached instruction memory, flat data memory): run `execOne`
    on the state with advanced counters; a fault is reported with the address of the instruction. -/
theorem singleStep_some (s : St) (prog : List Instr) (him : s.imem = { prog := prog, cache := none })
    (hlen : prog.length ≤ 4096) (i : Instr) (hi : s.imem.instrAt s.pc = some i) (hs : Inv s) :
    singleStep s = { st := (execOne i (counted s)).st,
                     fault := (execOne i (counted s)).fault.map (fun f => (s.pc, f)) } := by
  obtain ⟨m, hm, hc, hw⟩ := hs.flat
  have hfe := fetch_ok prog hlen s.pc i (by rw [← him]; exact hi)
  rw [← him] at hfe
  unfold singleStep
  simp only [hi, hfe]
  change (match (behavior i (counted s)).fault with
    | some ft => ({ st := (behavior i (counted s)).st, fault := some (s.pc, ft) } : StepOut)
    | none => _) = _
  cases hf : (behavior i (counted s)).fault with
  | some ft => simp only [execOne, hf, Option.map]
  | none =>
    simp only [execOne, hf, Option.map]
    by_cases hty : i.op.ty = .memI
    · obtain ⟨r, hr⟩ := reread_flat i (counted s) m hm hc (hs.regs_lt _) hty hf
      simp only [hty, if_true, accessRegs, hr]
      rfl
    · simp only [hty, if_false]


/-! ### facts about `behavior` and `singleStep` that hold for EVERY state (any memory system, cached or
not, any instruction memory, any instruction) -/

theorem setReg_zero (regs : Nat → Nat) (rd v : Nat) : Rv.setReg regs rd v 0 = regs 0 := by
  unfold Rv.setReg; rw [if_neg (by omega)]

theorem behavior_regs0 (i : Instr) (s : St) : (behavior i s).st.regs 0 = s.regs 0 := by
  unfold behavior
  simp only []
  repeat' split
  all_goals first | rfl | simp only [St.setReg, setReg_zero]

theorem singleStep_regs0 (s : St) : (singleStep s).st.regs 0 = s.regs 0 := by
  unfold singleStep
  simp only []
  split
  · rfl
  · split
    · rfl
    · rfl
    · split
      · simp only [behavior_regs0]
      · split
        · rename_i heq
          split at heq
          · split at heq
            · cases heq; simp only [behavior_regs0]
            · split at heq
              · cases heq; simp only [behavior_regs0]
              · cases heq
          · cases heq
        · rename_i heq
          split at heq
          · split at heq
            · cases heq
            · split at heq
              · cases heq
              · cases heq; simp only [behavior_regs0]
          · cases heq; simp only [behavior_regs0]

theorem behavior_fault_pc (i : Instr) (s : St) (f : Fault) (h : (behavior i s).fault = some f) :
    (behavior i s).st.pc = s.pc := by
  revert h
  unfold behavior
  simp only []
  repeat' split
  all_goals (intro h; first | rfl | cases h)

theorem behavior_memI_pc (i : Instr) (s : St) (hty : i.op.ty = .memI) : (behavior i s).st.pc = s.pc := by
  simp only [behavior, hty]
  split <;> rfl

theorem mod_range (x : Int) : 0 ≤ x % 4294967296 ∧ x % 4294967296 < 4294967296 := by omega

theorem singleStep_pc (s : St) (h0 : 0 ≤ s.pc) (h1 : s.pc < 4294967296) :
    0 ≤ (singleStep s).st.pc ∧ (singleStep s).st.pc < 4294967296 := by
  unfold singleStep
  simp only []
  split
  · exact ⟨h0, h1⟩
  · split
    · exact ⟨h0, h1⟩
    · exact ⟨h0, h1⟩
    · split
      · rename_i hf
        simp only [behavior_fault_pc _ _ _ hf]
        exact ⟨h0, h1⟩
      · split
        · rename_i heq
          split at heq
          · rename_i hty
            split at heq
            · cases heq; simp only [behavior_memI_pc _ _ hty]; exact ⟨h0, h1⟩
            · split at heq
              · cases heq; simp only [behavior_memI_pc _ _ hty]; exact ⟨h0, h1⟩
              · cases heq
          · cases heq
        · exact mod_range _

/-! ### one step refines the reference step -/

theorem StOK.counted {s : St} (h : StOK s) : StOK (counted s) :=
  ⟨h.flat, h.regs_lt, h.x0, h.pc_lo, h.pc_hi⟩

theorem mem_of_instrAt (im : IMem) (pc : Int) (i : Instr) (h : im.instrAt pc = some i) : i ∈ im.prog := by
  simp only [IMem.instrAt] at h
  split at h
  · exact List.mem_of_getElem? h
  · cases h

/-- Abstraction of the outcome of a step: the fault (without the instruction address) or the state. -/
def αStep (o : StepOut) : Option (Except SpecFault SpecSt) := αOut o.st (o.fault.map Prod.snd)

theorem execOne_inv (i : Instr) (s : St) (h : Inv s) : Inv (execOne i s).st := by
  have hb := behavior_inv i s h
  simp only [execOne]
  split
  · exact hb
  · exact hb.of_eq rfl rfl

theorem step_refines_lem (prog : List Instr) (hp : ProgOK prog) (s : St)
    (him : s.imem = { prog := prog, cache := none }) (hs : StOK s) :
    αStep (singleStep s) = some (step prog (α s)) := by
  have hfetch : s.imem.instrAt s.pc = fetch prog (α s).pc := by
    rw [him]; exact instrAt_fetch prog none s.pc hs.pc_lo hs.pc_hi
  cases hi : s.imem.instrAt s.pc with
  | none =>
    rw [singleStep_none s hi]
    simp only [step, ← hfetch, hi]
    rfl
  | some i =>
    have hmem : i ∈ prog := by have := mem_of_instrAt _ _ _ hi; rwa [him] at this
    obtain ⟨hwf, hsup⟩ := hp.wf i hmem
    rw [singleStep_some s prog him hp.len i hi hs.inv]
    simp only [step, ← hfetch, hi]
    have := exec_refines_all i (counted s) hwf hsup hs.counted
    rw [show α (counted s) = α s from rfl] at this
    rw [← this]
    simp only [αStep, αBeh, Option.map_map]
    congr 1
    cases (execOne i (counted s)).fault <;> rfl

theorem step_preserves (prog : List Instr) (hp : ProgOK prog) (s : St)
    (him : s.imem = { prog := prog, cache := none }) (hs : StOK s) :
    (singleStep s).st.imem = s.imem ∧ Inv (singleStep s).st ∧
      (∀ a f, (singleStep s).fault = some (a, f) → a = s.pc) := by
  cases hi : s.imem.instrAt s.pc with
  | none =>
    rw [singleStep_none s hi]
    exact ⟨rfl, hs.inv.of_eq rfl rfl, fun a f h => by cases h⟩
  | some i =>
    rw [singleStep_some s prog him hp.len i hi hs.inv]
    refine ⟨?_, execOne_inv i _ (counted_inv hs.inv), ?_⟩
    · simp only [execOne]
      split
      · exact behavior_imem i (counted s)
      · exact behavior_imem i (counted s)
    · intro a f h
      simp only at h
      cases hf : (execOne i (counted s)).fault with
      | none => rw [hf] at h; cases h
      | some ft => rw [hf] at h; cases h; rfl

theorem StOK_step (prog : List Instr) (hp : ProgOK prog) (s : St)
    (him : s.imem = { prog := prog, cache := none }) (hs : StOK s) : StOK (singleStep s).st := by
  obtain ⟨_, hinv, _⟩ := step_preserves prog hp s him hs
  obtain ⟨p0, p1⟩ := singleStep_pc s hs.pc_lo hs.pc_hi
  exact ⟨hinv.flat, hinv.regs_lt, hinv.x0, p0, p1⟩

theorem done_iff_lem (prog : List Instr) (s : St) (him : s.imem = { prog := prog, cache := none })
    (h0 : 0 ≤ s.pc) (h1 : s.pc < 4294967296) : singleDone s = true ↔ halted prog (α s) := by
  have hfetch : s.imem.instrAt s.pc = fetch prog (α s).pc := by
    rw [him]; exact instrAt_fetch prog none s.pc h0 h1
  simp only [singleDone, halted, Bool.or_eq_true, hfetch, Option.isNone_iff_eq_none]
  rfl

/-! ### runs -/

theorem stepN_refines_lem (prog : List Instr) (hp : ProgOK prog) :
    ∀ (n : Nat) (s : St), s.imem = { prog := prog, cache := none } → StOK s →
      αStep (stepN n s) = some (iter prog n (α s)) ∧
      (stepN n s).st.imem = s.imem ∧ StOK (stepN n s).st := by
  intro n
  induction n with
  | zero => intro s him hs; exact ⟨rfl, rfl, hs⟩
  | succ n ih =>
    intro s him hs
    have h1 := step_refines_lem prog hp s him hs
    obtain ⟨h2, _, _⟩ := step_preserves prog hp s him hs
    have h3 := StOK_step prog hp s him hs
    simp only [stepN, iter]
    cases hf : (singleStep s).fault with
    | some f =>
      simp only [αStep, hf, αOut, Option.map] at h1 ⊢
      refine ⟨?_, h2, h3⟩
      cases hfa : αFault f.2 with
      | none => rw [hfa] at h1; cases h1
      | some f' =>
        rw [hfa] at h1
        have : step prog (α s) = .error f' := (Option.some.inj h1).symm
        rw [this]
    | none =>
      simp only [αStep, hf, αOut, Option.map] at h1
      have : step prog (α s) = .ok (α (singleStep s).st) := (Option.some.inj h1).symm
      rw [this]
      obtain ⟨i1, i2, i3⟩ := ih (singleStep s).st (by rw [h2, him]) h3
      exact ⟨i1, by rw [i2, h2], i3⟩

theorem simN_refines_lem (prog : List Instr) (hp : ProgOK prog) :
    ∀ (n : Nat) (s : St), s.imem = { prog := prog, cache := none } → StOK s →
      αStep (simN n s) = some (run prog n (α s)) ∧
      (simN n s).st.imem = s.imem ∧ StOK (simN n s).st := by
  intro n
  induction n with
  | zero => intro s him hs; exact ⟨rfl, rfl, hs⟩
  | succ n ih =>
    intro s him hs
    have hd := done_iff_lem prog s him hs.pc_lo hs.pc_hi
    simp only [simN, run]
    by_cases hdone : singleDone s = true
    · rw [if_pos hdone, if_pos (hd.mp hdone)]
      exact ⟨rfl, rfl, hs⟩
    · rw [if_neg hdone, if_neg (fun h => hdone (hd.mpr h))]
      have h1 := step_refines_lem prog hp s him hs
      obtain ⟨h2, _, _⟩ := step_preserves prog hp s him hs
      have h3 := StOK_step prog hp s him hs
      cases hf : (singleStep s).fault with
      | some f =>
        simp only [αStep, hf, αOut, Option.map] at h1 ⊢
        refine ⟨?_, h2, h3⟩
        cases hfa : αFault f.2 with
        | none => rw [hfa] at h1; cases h1
        | some f' =>
          rw [hfa] at h1
          have : step prog (α s) = .error f' := (Option.some.inj h1).symm
          rw [this]
      | none =>
        simp only [αStep, hf, αOut, Option.map] at h1
        have : step prog (α s) = .ok (α (singleStep s).st) := (Option.some.inj h1).symm
        rw [this]
        obtain ⟨i1, i2, i3⟩ := ih (singleStep s).st (by rw [h2, him]) h3
        exact ⟨i1, by rw [i2, h2], i3⟩

end ArchSim.Lemmas.C01
