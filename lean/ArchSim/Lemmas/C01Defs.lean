/-
C01 definitions: well-formed instructions and states, the abstraction `α` from model states to states
of the reference semantics, the single-cycle execution of one instruction (`execOne`), and the
iterated model step.
-/
import ArchSim.Spec.RvSpec
import ArchSim.Lemmas.C18Repr

namespace ArchSim.Lemmas.C01
open ArchSim ArchSim.Rv ArchSim.Spec.RvSpec

/-! ### instructions -/

/-- The supported subset: everything except CSR*, FENCE, EBREAK. -/
def Supported (op : Op) : Prop :=
  op.ty ≠ .fence ∧ op.ty ≠ .csr ∧ op.ty ≠ .csri ∧ op ≠ .ebreak

instance (op : Op) : Decidable (Supported op) := by unfold Supported; infer_instance

/-- The range of the stored immediate, per instruction format (what the Python constructors
    produce, see `storedImm_ok`). -/
def ImmOK (op : Op) (imm : Int) : Prop :=
  match op.ty with
  | .i | .memI | .s => -2048 ≤ imm ∧ imm < 2048
  | .shiftI => 0 ≤ imm ∧ imm < 32
  | .b => -4096 ≤ imm ∧ imm < 4096
  | .u => -524288 ≤ imm ∧ imm < 524288
  | .j => -1048576 ≤ imm ∧ imm < 1048576
  | _ => True

instance (op : Op) (imm : Int) : Decidable (ImmOK op imm) := by
  unfold ImmOK; split <;> infer_instance

/-- Well-formed instruction object: 5-bit register numbers and an immediate in the range of its
    format. -/
structure InstrWF (i : Instr) : Prop where
  rd  : i.rd < 32
  rs1 : i.rs1 < 32
  rs2 : i.rs2 < 32
  imm : ImmOK i.op i.imm

instance (i : Instr) : Decidable (InstrWF i) :=
  decidable_of_iff (i.rd < 32 ∧ i.rs1 < 32 ∧ i.rs2 < 32 ∧ ImmOK i.op i.imm)
    ⟨fun ⟨a, b, c, d⟩ => ⟨a, b, c, d⟩, fun ⟨a, b, c, d⟩ => ⟨a, b, c, d⟩⟩

/-! ### states -/

/-- What `singleStep` preserves and the refinement needs: flat RISC-V data memory whose cells are
    bytes (`C18.WF`), 32-bit register values, `x0 = 0`, a 32-bit program counter. -/
structure StOK (s : St) : Prop where
  flat : ∃ m, s.mem = .flat m ∧ m.cfg = Mem.riscvCfg ∧ C18.WF m
  regs_lt : ∀ r, s.regs r < 4294967296
  x0 : s.regs 0 = 0
  pc_lo : 0 ≤ s.pc
  pc_hi : s.pc < 4294967296

/-- The program fits the instruction memory (addresses `0 .. 2^14`) and consists of well-formed
    supported instructions. -/
structure ProgOK (prog : List Instr) : Prop where
  len : prog.length ≤ 4096
  wf : ∀ i ∈ prog, InstrWF i ∧ Supported i.op

/-! ### abstraction -/

def αRegs (regs : Nat → Nat) : Fin 32 → Word := fun k => BitVec.ofNat 32 (regs k.val)

/-- Byte store of a memory system (for a cached system: the backing memory; only the flat case is
    used). -/
def αMem (ms : MemSys) : Word → Byte := fun w => BitVec.ofNat 8 (ms.backing.cells (w.toNat : Int))

def α (s : St) : SpecSt :=
  { x := αRegs s.regs, mem := αMem s.mem, pc := BitVec.ofInt 32 s.pc, out := s.output,
    exit := s.exitCode }

/-- Faults: memory address error ↦ access fault at the (wrapped) address, invalid ecall code ↦ ecall
    fault, "not implemented" ↦ unsupported; the other model faults have no counterpart. -/
def αFault : Fault → Option SpecFault
  | .mem (.addr a) => some (.access (BitVec.ofInt 32 a))
  | .ecallCode c => some (.ecall (BitVec.ofNat 32 c))
  | .notImplemented => some .unsupported
  | .unmodelled => some .unsupported
  | .mem _ => none

/-- `behavior` followed by the stage's program-counter update `pc := (pc + 4) % 2^32`, exactly as
    `singleStep` does (no update when `behavior` raised). -/
def execOne (i : Instr) (s : St) : BehOut :=
  let b := behavior i s
  match b.fault with
  | some _ => b
  | none => { st := { b.st with pc := (b.st.pc + 4) % 4294967296 }, fault := none }

def αOut (st : St) (fault : Option Fault) : Option (Except SpecFault SpecSt) :=
  match fault with
  | none => some (.ok (α st))
  | some f => (αFault f).map .error

/-- Abstraction of the outcome of one instruction. -/
def αBeh (o : BehOut) : Option (Except SpecFault SpecSt) := αOut o.st o.fault

/-! ### iterated steps -/

/-- `n` raw `singleStep`s (`Pipeline.step()`), stopping at the first fault. -/
def stepN : Nat → St → StepOut
  | 0, s => { st := s, fault := none }
  | n + 1, s =>
    let o := singleStep s
    match o.fault with
    | some f => { st := o.st, fault := some f }
    | none => stepN n o.st

/-- `n` calls of `RiscvSimulation.step()`: nothing happens once `is_done()`; stop at the first fault. -/
def simN : Nat → St → StepOut
  | 0, s => { st := s, fault := none }
  | n + 1, s =>
    if singleDone s then { st := s, fault := none }
    else
      let o := singleStep s
      match o.fault with
      | some f => { st := o.st, fault := some f }
      | none => simN n o.st

/-! ### concrete objects for the non-vacuity examples of `Props/C01.lean` -/

/-- A concrete state: x5 = 7, x6 = 2^32 - 3, x7 = 0x4000 (the data base), empty flat memory, pc = 8. -/
def exSt : St :=
  { regs := fun r => if r = 5 then 7 else if r = 6 then 4294967293 else if r = 7 then 16384 else 0,
    pc := 8, mem := .flat (Mem.Mem.empty Mem.riscvCfg),
    imem := { prog := [], cache := none }, output := "", exitCode := none,
    cycles := 0, instrs := 0, branches := 0, procs := 0, stalls := 0, flushes := 0 }

/-- A small program: x1 := -1; x2 := x1 >>u 28 (= 15); x3 := 0x4000; store byte 0xFF at 0x4001; load it
    back sign-extended (-1); a7 := 93; a0 := x2 + x4 (= 14); exit ecall; one more instruction that is
    never executed. -/
def exProg : List Instr :=
  [ { op := .addi, rd := 1, rs1 := 0, imm := -1 },
    { op := .srli, rd := 2, rs1 := 1, imm := 28 },
    { op := .lui, rd := 3, imm := 4 },
    { op := .sb, rs1 := 3, rs2 := 1, imm := 1 },
    { op := .lb, rd := 4, rs1 := 3, imm := 1 },
    { op := .addi, rd := 17, rs1 := 0, imm := 93 },
    { op := .add, rd := 10, rs1 := 2, rs2 := 4 },
    { op := .ecall },
    { op := .addi, rd := 1, rs1 := 0, imm := 0 } ]

def exInit : St := { exSt with pc := 0, regs := fun _ => 0, imem := { prog := exProg, cache := none } }

/-- Observe a result of the reference semantics: `(x[r], pc, exit code, byte at a)` or the fault. -/
def observe (r a : Nat) : Except SpecFault SpecSt → SpecFault ⊕ (Word × Word × Option Int × Byte)
  | .ok σ => .inr (σ.get r, σ.pc, σ.exit, σ.mem (BitVec.ofNat 32 a))
  | .error f => .inl f

end ArchSim.Lemmas.C01
