/-
Helper lemmas for the program/statistics views of `Model/SimViews.lean`
(property theorems: `Props/C14Views.lean`, `Props/C17Listing.lean`, `Props/C09Views.lean`, `Props/C11Views.lean`).
-/
import ArchSim.Model.SimViews
import ArchSim.Lemmas.C17Digits
import ArchSim.Lemmas.C17ViewsData

namespace ArchSim.Lemmas.SimViews
open ArchSim ArchSim.SimViews ArchSim.Fmt ArchSim.Spec.Digits ArchSim.Lemmas.C17 ArchSim.Lemmas.C17Views

/-! ### listing rows -/

theorem listing_length (prog : List Rv.Instr) (marks : Marks) : (listing prog marks).length = prog.length := by
  simp [listing]

theorem listing_getElem? (prog : List Rv.Instr) (marks : Marks) (k : Nat) :
    (listing prog marks)[k]? = (prog[k]?).map (listRow marks k) := by
  simp [listing, List.getElem?_mapIdx]

theorem listing_instrs (prog : List Rv.Instr) (marks : Marks) :
    (listing prog marks).map (·.instr) = prog.map Rv.Instr.repr := by
  apply List.ext_getElem?
  intro k
  simp [listing, List.getElem?_mapIdx, listRow]
  cases prog[k]? <;> simp

/-! ### the stage column -/

theorem stageOf_nil (a : Int) : stageOf [] a = "" := by simp [stageOf]

theorem stageOf_append_hit (ms : Marks) (n : String) (a : Int) :
    stageOf (ms ++ [(some a, n)]) a = n := by
  simp [stageOf, List.reverse_append]

theorem stageOf_append_miss (ms : Marks) (x : Option Int) (n : String) (a : Int) (h : x ≠ some a) :
    stageOf (ms ++ [(x, n)]) a = stageOf ms a := by
  have : (x == some a) = false := by simpa using h
  simp [stageOf, List.reverse_append, this]

theorem stageOf_snoc (ms : Marks) (x : Option Int) (n : String) (a : Int) :
    stageOf (ms ++ [(x, n)]) a = if (x == some a) = true then n else stageOf ms a := by
  by_cases h : x = some a
  · subst h; simp [stageOf_append_hit]
  · rw [stageOf_append_miss ms x n a h]
    have : (x == some a) = false := by simpa using h
    simp [this]

/-- No register holds the address: empty stage text. -/
theorem stageOf_none (ms : Marks) (a : Int) (h : ∀ m ∈ ms, m.1 ≠ some a) : stageOf ms a = "" := by
  unfold stageOf
  have : ms.reverse.find? (fun m => m.1 == some a) = none := by
    rw [List.find?_eq_none]
    intro m hm
    have := h m (List.mem_reverse.mp hm)
    simpa using this
  rw [this]

/-- The stage text is the name of some register that holds the address, or empty. -/
theorem stageOf_mem (ms : Marks) (a : Int) : stageOf ms a = "" ∨ (some a, stageOf ms a) ∈ ms := by
  unfold stageOf
  cases h : ms.reverse.find? (fun m => m.1 == some a) with
  | none => left; rfl
  | some m =>
    right
    have h1 := List.find?_some h
    have h2 := List.mem_of_find?_eq_some h
    have : m.1 = some a := by simpa using h1
    show (some a, m.2) ∈ ms
    rw [← this]
    exact List.mem_reverse.mp h2

/-! ### statistics -/

theorem bin32_toList (a : Int) : (bin32 a).toList = padLeft 32 (natStr 2 (a % 4294967296).toNat) := by
  simp [bin32]

theorem bin32_spec (a : Int) :
    ofDigits 2 (bin32 a).toList = some (a % 4294967296).toNat ∧ (bin32 a).toList.length = 32 := by
  rw [bin32_toList]
  have h : (a % 4294967296).toNat < 2 ^ 32 := by
    have := Int.emod_lt_of_pos a (show (0 : Int) < 4294967296 by decide)
    have := Int.emod_nonneg a (show (4294967296 : Int) ≠ 0 by decide)
    omega
  exact padded_natStr 2 (by decide) (by decide) 32 _ (by decide) h

theorem dec_spec (n : Nat) : ofDigits 10 (String.ofList (natStr 10 n)).toList = some n := by
  simp [ofDigits_natStr 10 (by decide) (by decide) n]

theorem instrStats_some (im : Rv.IMem) (c : Rv.ICache) (fetched : Option Int) (h : im.cache = some c) :
    instrStats im fetched = some (Stats.ofCounters c.hits c.accesses c.lastHit fetched) := by
  unfold instrStats; rw [h]

theorem instrStats_none (im : Rv.IMem) (fetched : Option Int) (h : im.cache = none) :
    instrStats im fetched = none := by
  unfold instrStats; rw [h]

end ArchSim.Lemmas.SimViews
