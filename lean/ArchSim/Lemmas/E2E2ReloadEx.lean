/-
End-to-end layer, part 2: concrete objects for the non-vacuity examples of `Props/C09Asm2.lean` / `Props/C03Asm2.lean`
— the example text `asmText` of `Lemmas/E2EEx.lean` loaded with a data cache and run for two steps (the `lw` has
missed: one access, a resident block), and a second text loaded into that state.
-/
import ArchSim.Lemmas.E2E2Ex
import ArchSim.Lemmas.E2E2Reload
import ArchSim.Lemmas.E2EEx

namespace ArchSim.Lemmas.E2E2.Ex
open ArchSim ArchSim.Rv ArchSim.Asm ArchSim.Lemmas.E2E ArchSim.Lemmas.E2E.Ex

/-- the state after two single-cycle steps (`lui t0, 4 ; lw a0, 0(t0)`) of `asmText` loaded with the data cache
    `geo1` (one set, one way, one word; write-back LRU; penalty 10): pc 8, x5 = 0x4000, one access, no hit -/
def usedSt : St := ArchSim.Lemmas.C11.singleRun 2 asmStC

/-- `addi x0,x0,0 ; addi x0,x0,0 ; lw x1, 0(x5)`: the instruction at pc 8 is a load through x5 -/
def reProg : List Instr :=
  [{ op := .addi, rd := 0, rs1 := 0, imm := 0 }, { op := .addi, rd := 0, rs1 := 0, imm := 0 },
   { op := .lw, rd := 1, rs1 := 5, imm := 0 }]

def reText : String := listingText reProg

theorem reText_eq : reText = "addi x0, x0, 0\naddi x0, x0, 0\nlw x1, 0(x5)" := by decide +kernel

theorem load_reText (s : St) : (load s reText).err = none ∧ (load s reText).st.imem.prog = reProg :=
  listing_loads s reProg (by decide) (by decide)

/-- `usedSt` after loading `reText`: cache reset (counters kept), program replaced -/
def reSt : St := { usedSt with mem := usedSt.mem.reset, imem := { prog := reProg, cache := none } }

theorem load_reText_used : (load usedSt reText).st = reSt := by
  rw [reText, listing_loads_st usedSt reProg (by decide) (by decide)]
  have : usedSt.imem.cache = none := by decide
  rw [this]; rfl

open ArchSim.Lemmas.C03Prog.Ex (geo1 geo1_ok assoc1_ok) in
theorem usedSt_stepHyp : ArchSim.Lemmas.C09Prog.StepHyp usedSt := by
  have h0 := load_stepHyp freshSt freshSt_ok rfl true false geo1 geo1_ok assoc1_ok 10 asmText load_asmText.1
    asmText_supported
  rw [load_asmText_cached] at h0
  exact ArchSim.Lemmas.C09Prog.StepHyp_run asmStC h0 2 (by unfold ArchSim.Lemmas.C09Prog.SingleOK; decide)

/-- `usedSt` with the flat empty memory satisfies `StOK`. -/
theorem usedSt_flat_ok : ArchSim.Lemmas.C01.StOK (flatOf usedSt) :=
  ⟨⟨_, rfl, rfl, ArchSim.Lemmas.C18.WF_empty _⟩, usedSt_stepHyp.inv.regs, by decide, by decide, by decide⟩

/-- the flat counterpart of `reSt` -/
def reStF : St := { flatOf usedSt with imem := { prog := reProg, cache := none } }

theorem load_reText_flat : (load (flatOf usedSt) reText).st = reStF := by
  rw [reText, listing_loads_st (flatOf usedSt) reProg (by decide) (by decide)]
  have : (flatOf usedSt).imem.cache = none := by decide
  rw [this]; rfl

open ArchSim.Lemmas.C03Prog in
/-- the flat run of the second program from pc 8: the accepted `lw`, then done -/
theorem runAccepted_reStF : RunAccepted reStF := by
  intro j hnd
  rcases Nat.lt_or_ge j 1 with h | h
  · have : j = 0 := by omega
    subst this
    exact Ex.stepAccepted_of { op := .lw, rd := 1, rs1 := 5, imm := 0 } (by decide)
      ⟨fun _ => by decide, fun h => absurd h (by decide), fun h => absurd h (by decide)⟩
  · have h1 : singleDone (singleRun 1 reStF) = true := by decide
    rw [hnd 1 h] at h1
    cases h1

end ArchSim.Lemmas.E2E2.Ex
