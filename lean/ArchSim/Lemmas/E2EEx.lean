/-
End-to-end, part 6: a concrete source text for the non-vacuity examples — a `.data` variable, a pseudo-instruction,
a label (in-line declaration and branch target) — shown to load through the general spelling theorems of C04Spell.
`parseLine` does not reduce by `decide` (`one_of` sorts its symbols with `mergeSort`), so the three lines that are
not instructions (`.data`, `x: .word 7`, `.text`) are tokenized here alternative by alternative.
-/
import ArchSim.Lemmas.C15Examples
import ArchSim.Lemmas.ToyAsmFront
import ArchSim.Lemmas.E2ECacheInit
import ArchSim.Lemmas.E2ESource
import ArchSim.Lemmas.E2EICache
import ArchSim.Lemmas.C11ProgPipe
import ArchSim.Props.C04Spell
import ArchSim.Lemmas.C03ProgEx
import ArchSim.Lemmas.C03ProgFive

namespace ArchSim.Lemmas.E2E.Ex
open ArchSim ArchSim.PP ArchSim.Rv ArchSim.Asm
open ArchSim.Lemmas.C15.Ex (oneOfCaseless_fail)

/-- every mnemonic symbol of the `one_of` tables of the instruction alternatives -/
def allSyms : List String :=
  rrrMn ++ uMn ++ bMn ++ (memIMn ++ sMn) ++ (memIMn ++ ["la"]) ++ sMn ++ csrMn ++ csriMn ++
    (normalIMn ++ memIMn ++ bMn ++ sMn) ++ ["mv"]

theorem sub_allSyms : (∀ s ∈ rrrMn, s ∈ allSyms) ∧ (∀ s ∈ uMn, s ∈ allSyms) ∧ (∀ s ∈ bMn, s ∈ allSyms) ∧
    (∀ s ∈ memIMn ++ sMn, s ∈ allSyms) ∧ (∀ s ∈ memIMn ++ ["la"], s ∈ allSyms) ∧ (∀ s ∈ sMn, s ∈ allSyms) ∧
    (∀ s ∈ csrMn, s ∈ allSyms) ∧ (∀ s ∈ csriMn, s ∈ allSyms) ∧
    (∀ s ∈ normalIMn ++ memIMn ++ bMn ++ sMn, s ∈ allSyms) ∧ (∀ s ∈ ["mv"], s ∈ allSyms) := by decide

/-- A line on which no mnemonic table and no keyword matches has no instruction body. -/
theorem pInstrBody_fail (l : List Char) (h : ∀ s ∈ allSyms, rePrefix s.toList (skipWs l) = none)
    (h1 : pFence l = .fail) (h2 : pJal l = .fail) (h3 : pLi l = .fail)
    (h4 : first [fun k => (caselessLit "ecall" k).map (fun _ => Item.str "ecall"),
                 fun k => (caselessLit "ebreak" k).map (fun _ => Item.str "ebreak")] l = .fail)
    (h5 : (caselessLit "nop" l).map (fun _ => Item.str "nop") = .fail) : pInstrBody l = .fail := by
  obtain ⟨s1, s2, s3, s4, s5, s6, s7, s8, s9, s10⟩ := sub_allSyms
  have a1 : pRType l = .fail := by
    unfold pRType; rw [oneOfCaseless_fail (fun s hs => h s (s1 s hs))]; rfl
  have a2 : pUType l = .fail := by
    unfold pUType; rw [oneOfCaseless_fail (fun s hs => h s (s2 s hs))]; rfl
  have a3 : pBType l = .fail := by
    unfold pBType; rw [oneOfCaseless_fail (fun s hs => h s (s3 s hs))]; rfl
  have a4 : pMemory l = .fail := by
    unfold pMemory; rw [oneOfCaseless_fail (fun s hs => h s (s4 s hs))]; rfl
  have a5 : pMemPseudo l = .fail := by
    unfold pMemPseudo; rw [oneOfCaseless_fail (fun s hs => h s (s5 s hs))]; rfl
  have a6 : pSPseudo l = .fail := by
    unfold pSPseudo; rw [oneOfCaseless_fail (fun s hs => h s (s6 s hs))]; rfl
  have a7 : pCsr l = .fail := by
    unfold pCsr; rw [oneOfCaseless_fail (fun s hs => h s (s7 s hs))]; rfl
  have a8 : pCsri l = .fail := by
    unfold pCsri; rw [oneOfCaseless_fail (fun s hs => h s (s8 s hs))]; rfl
  have a9 : pRegRegImm l = .fail := by
    unfold pRegRegImm; rw [oneOfCaseless_fail (fun s hs => h s (s9 s hs))]; rfl
  have a10 : pMv l = .fail := by
    unfold pMv; rw [oneOfCaseless_fail (fun s hs => h s (s10 s hs))]; rfl
  unfold pInstrBody orLongest
  simp only [List.map, a1, a2, a3, a4, a5, a6, a7, a8, a9, a10, h1, h2, h3, h4, h5]
  rfl

/-- concrete instance: nothing of the instruction grammar matches `l` -/
theorem body_fail_of (l : List Char) (h : ∀ s ∈ allSyms, rePrefix s.toList (skipWs l) = none)
    (hk : pFence l = .fail ∧ pJal l = .fail ∧ pLi l = .fail ∧
      first [fun k => (caselessLit "ecall" k).map (fun _ => Item.str "ecall"),
             fun k => (caselessLit "ebreak" k).map (fun _ => Item.str "ebreak")] l = .fail ∧
      (caselessLit "nop" l).map (fun _ => Item.str "nop") = .fail) : pInstrBody l = .fail :=
  pInstrBody_fail l h hk.1 hk.2.1 hk.2.2.1 hk.2.2.2.1 hk.2.2.2.2

theorem body_data : pInstrBody ".data".toList = .fail :=
  body_fail_of _ (by decide) ⟨by rfl, by rfl, by rfl, by rfl, by rfl⟩
theorem body_text : pInstrBody ".text".toList = .fail :=
  body_fail_of _ (by decide) ⟨by rfl, by rfl, by rfl, by rfl, by rfl⟩
theorem body_word : pInstrBody " .word 7".toList = .fail :=
  body_fail_of _ (by decide) ⟨by rfl, by rfl, by rfl, by rfl, by rfl⟩

/-- a directive line -/
theorem parse_directive (d : String) (hd : d = "data" ∨ d = "text")
    (hb : pInstrBody ("." ++ d).toList = .fail) :
    parseLine ("." ++ d).toList = some { lbl := none, item := .directive d } := by
  have h1 : pDirective ("." ++ d).toList = .ok { lbl := none, item := .directive d } [] := by
    unfold pDirective
    rcases hd with rfl | rfl <;> simp only [ArchSim.ToyAsm.oneOf_dirs] <;> rfl
  have h2 : pVarDecl ("." ++ d).toList = .fail := by rcases hd with rfl | rfl <;> rfl
  have h3 : pStrDecl ("." ++ d).toList = .fail := by rcases hd with rfl | rfl <;> rfl
  have h4 : pZeroDecl ("." ++ d).toList = .fail := by rcases hd with rfl | rfl <;> rfl
  have h5 : pInstruction ("." ++ d).toList = .fail := by
    unfold pInstruction
    have : opt pLabelDecl ("." ++ d).toList = .ok none ("." ++ d).toList := by
      rcases hd with rfl | rfl <;> rfl
    rw [this]
    simp only [R.bind, hb, R.map]
  have h6 : (pLabelDecl ("." ++ d).toList).map (fun l => ({ lbl := none, item := Item.str l } : Tok)) = .fail := by
    rcases hd with rfl | rfl <;> rfl
  unfold parseLine orLongest
  simp only [List.map, h1, h2, h3, h4, h5, h6]
  rfl

theorem parse_data : parseLine ".data".toList = some { lbl := none, item := .directive "data" } :=
  parse_directive "data" (.inl rfl) body_data
theorem parse_text : parseLine ".text".toList = some { lbl := none, item := .directive "text" } :=
  parse_directive "text" (.inr rfl) body_text

theorem ty_lengths : "byte".length = 4 ∧ "half".length = 4 ∧ "word".length = 4 := by decide

theorem longestFirst_tys : longestFirst ["byte", "half", "word"] = ["byte", "half", "word"] := by
  obtain ⟨h1, h2, h3⟩ := ty_lengths
  simp [longestFirst, List.mergeSort, h1, h2, h3]

theorem oneOf_tys (i : Inp) :
    oneOf ["byte", "half", "word"] i = ArchSim.ToyAsm.oneOfS ["byte", "half", "word"] i := by
  simp only [oneOf, longestFirst_tys, ArchSim.ToyAsm.oneOfS]

/-- the declaration line `x: .word 7` -/
theorem parse_xword : parseLine "x: .word 7".toList = some { lbl := none, item := .varDecl "x" "word" [7] } := by
  have h1 : pDirective "x: .word 7".toList = .fail := by rfl
  have h2 : pVarDecl "x: .word 7".toList = .ok { lbl := none, item := .varDecl "x" "word" [7] } [] := by
    unfold pVarDecl
    simp only [oneOf_tys]
    rfl
  have h3 : pStrDecl "x: .word 7".toList = .fail := by rfl
  have h4 : pZeroDecl "x: .word 7".toList = .fail := by rfl
  have h5 : pInstruction "x: .word 7".toList = .fail := by
    unfold pInstruction
    have : opt pLabelDecl "x: .word 7".toList = .ok (some "x") " .word 7".toList := by rfl
    rw [this]
    simp only [R.bind, body_word, R.map]
  have h6 : (pLabelDecl "x: .word 7".toList).map (fun l => ({ lbl := none, item := Item.str l } : Tok)) =
      .ok { lbl := none, item := Item.str "x" } " .word 7".toList := by rfl
  unfold parseLine orLongest
  simp only [List.map, h1, h2, h3, h4, h5, h6]
  rfl

/-! ### the instruction lines, through the general spelling theorems -/

open ArchSim.Lemmas.C04Spell in
/-- `lui t0, 4` (instance of `C04Spell.line_spelling_independent`) -/
theorem parse_lui : parseLine "lui t0, 4".toList = some { lbl := none, item := .grp (.utype "lui" 5 4) } := by
  have h := parseLine_render { r1 := .abi } { op := .lui, rd := 5, imm := 4 }
    (spellable_small _ (by decide) (by decide) (by decide) (by decide) (by decide) (by decide))
  rw [show render { r1 := .abi } { op := .lui, rd := 5, imm := 4 } = "lui t0, 4".toList by decide +kernel] at h
  exact h

open ArchSim.Lemmas.C04Spell in
/-- `lw a0, 0(t0)` (instance of `C04Spell.line_spelling_independent`) -/
theorem parse_lw : parseLine "lw a0, 0(t0)".toList = some { lbl := none, item := .grp (.mem "lw" 10 0 5) } := by
  have h := parseLine_render { r1 := .abi, r2 := .abi } { op := .lw, rd := 10, rs1 := 5, imm := 0 }
    (spellable_small _ (by decide) (by decide) (by decide) (by decide) (by decide) (by decide))
  rw [show render { r1 := .abi, r2 := .abi } { op := .lw, rd := 10, rs1 := 5, imm := 0 } = "lw a0, 0(t0)".toList
    by decide +kernel] at h
  exact h

open ArchSim.Lemmas.C04Spell ArchSim.Props.C04Spell ArchSim.Lemmas.C14 in
/-- `li a7, 93` and `li a0, 0` (instances of `C04Spell.pseudo_line_spelling_independent`) -/
theorem parse_li : parseLine "li a7, 93".toList = some { lbl := none, item := .grp (.li 17 93) } ∧
    parseLine "li a0, 0".toList = some { lbl := none, item := .grp (.li 10 0) } := by
  have h1 := (pseudo_line_spelling_independent [] [' '] [] [' '] [] (by decide) (by decide) (by decide) (by decide)
    (by decide) (by decide) (fun _ => false) 17 0 93 (by decide) (by decide)
    (small_natAbs _ (by decide) (by decide)) .abi .abi .dec).1
  have h2 := (pseudo_line_spelling_independent [] [' '] [] [' '] [] (by decide) (by decide) (by decide) (by decide)
    (by decide) (by decide) (fun _ => false) 10 0 0 (by decide) (by decide)
    (small_natAbs _ (by decide) (by decide)) .abi .abi .dec).1
  rw [show ([] : List Char) ++ (recase (fun _ => false) "li".toList ++ ([' '] ++ (regSp .abi 17 ++ ([] ++ ',' ::
      ([' '] ++ (numSp .dec 93 ++ [])))))) = "li a7, 93".toList by decide +kernel] at h1
  rw [show ([] : List Char) ++ (recase (fun _ => false) "li".toList ++ ([' '] ++ (regSp .abi 10 ++ ([] ++ ',' ::
      ([' '] ++ (numSp .dec 0 ++ [])))))) = "li a0, 0".toList by decide +kernel] at h2
  exact ⟨h1, h2⟩

theorem isLabel_end : ArchSim.Lemmas.C04Spell.IsLabel "end".toList :=
  ⟨'e', "nd".toList, by decide, by decide, by decide⟩

open ArchSim.Lemmas.C04Spell ArchSim.Props.C04Spell in
/-- `beq zero, zero, end` (instance of `C04Spell.label_target_line_spelling_independent`) -/
theorem parse_beq : parseLine "beq zero, zero, end".toList
    = some { lbl := none, item := .grp (.btypeLabel "beq" 0 0 "end" 0) } := by
  have h := (label_target_line_spelling_independent [] [' '] [] [' '] [] [' '] [] (by decide) (by decide)
    (by decide) (by decide) (by decide) (by decide) (by decide) (by decide) (fun _ => false) .beq rfl 0 0
    (by decide) (by decide) .abi .abi "end".toList isLabel_end .none trivial).1
  rw [show ([] : List Char) ++ (recase (fun _ => false) Op.beq.mnemonic.toList ++ ([' '] ++ (regSp .abi 0 ++ ([] ++
      ',' :: ([' '] ++ (regSp .abi 0 ++ ([] ++ ',' :: ([' '] ++ ("end".toList ++ (offTxt .none ++ [])))))))))) =
      "beq zero, zero, end".toList by decide +kernel] at h
  exact h

open ArchSim.Lemmas.C04Spell ArchSim.Props.C04Spell in
/-- `end: ecall` (instance of `C04Spell.labelled_line_spelling_independent`) -/
theorem parse_end : parseLine "end: ecall".toList = some { lbl := some "end", item := .str "ecall" } := by
  have h := labelled_line_spelling_independent [] "end".toList [] [' '] (by decide) isLabel_end (by decide)
    (by decide) {} { op := .ecall }
    (spellable_small _ (by decide) (by decide) (by decide) (by decide) (by decide) (by decide))
  rw [show ([] : List Char) ++ ("end".toList ++ ([] ++ ':' :: ([' '] ++ render { ({} : Spelling) with lead := [] }
      { op := .ecall }))) = "end: ecall".toList by decide +kernel] at h
  exact h

/-! ### the example text -/

/-- The example source: a `.data` variable `x` (at 0x4000, value 7), a comment, indentation, the pseudo-instruction
    `li`, a branch to the label `end`, which is declared in-line. The program exits with code `x` = 7. -/
def asmText : String :=
  ".data\nx: .word 7   # the variable\n.text\n  lui t0, 4\n  lw a0, 0(t0)\n  li a7, 93\n" ++
  "  beq zero, zero, end\n  li a0, 0\nend: ecall\n"

def asmLines : List (Nat × List Char) :=
  [(1, ".data".toList), (2, "x: .word 7".toList), (3, ".text".toList), (4, "lui t0, 4".toList),
   (5, "lw a0, 0(t0)".toList), (6, "li a7, 93".toList), (7, "beq zero, zero, end".toList),
   (8, "li a0, 0".toList), (9, "end: ecall".toList)]

theorem sanitize_asmText : sanitize asmText = asmLines := by decide +kernel

def asmToks : List Entry :=
  [(1, ".data", { lbl := none, item := .directive "data" }),
   (2, "x: .word 7", { lbl := none, item := .varDecl "x" "word" [7] }),
   (3, ".text", { lbl := none, item := .directive "text" }),
   (4, "lui t0, 4", { lbl := none, item := .grp (.utype "lui" 5 4) }),
   (5, "lw a0, 0(t0)", { lbl := none, item := .grp (.mem "lw" 10 0 5) }),
   (6, "li a7, 93", { lbl := none, item := .grp (.li 17 93) }),
   (7, "beq zero, zero, end", { lbl := none, item := .grp (.btypeLabel "beq" 0 0 "end" 0) }),
   (8, "li a0, 0", { lbl := none, item := .grp (.li 10 0) }),
   (9, "end: ecall", { lbl := some "end", item := .str "ecall" })]

theorem tokenize_asmText : tokenize (sanitize asmText) = .ok asmToks := by
  rw [sanitize_asmText]
  simp only [asmLines, tokenize, parse_data, parse_xword, parse_text, parse_lui, parse_lw, parse_li.1, parse_li.2,
    parse_beq, parse_end]
  rfl

/-- the program the example text assembles to -/
def asmProg : List Instr :=
  [{ op := .lui, rd := 5, imm := 4 }, { op := .lw, rd := 10, rs1 := 5, imm := 0 },
   { op := .addi, rd := 17, rs1 := 0, imm := 93 }, { op := .beq, rs1 := 0, rs2 := 0, imm := 8 },
   { op := .addi, rd := 10, rs1 := 0, imm := 0 }, { op := .ecall }]

/-- The example text loads into the power-on state without error and stores `asmProg`. -/
theorem load_asmText : (load freshSt asmText).err = none ∧ (load freshSt asmText).st.imem.prog = asmProg := by
  rw [ArchSim.Lemmas.C05.load_factors, tokenize_asmText]
  exact ⟨by rfl, by rfl⟩

theorem asmProg_supported : AllSupported asmProg := by decide

theorem asmText_supported : AllSupported (load freshSt asmText).st.imem.prog := by
  rw [load_asmText.2]; exact asmProg_supported

/-- the `.data` preload of the example: one word write -/
def asmHist : List Spec.ByteStore.Op := [.write 32 16384 7]

/-- the loaded state, explicitly: power-on registers, the data image, the program -/
def asmSt : St :=
  { freshSt with mem := .flat (Spec.ByteStore.run Mem.riscvCfg asmHist), imem := { prog := asmProg, cache := none } }

theorem load_asmText_st : (load freshSt asmText).st = asmSt := by
  rw [ArchSim.Lemmas.C05.load_factors, tokenize_asmText]
  rfl

/-! ### the run of the example: accepted accesses (hypothesis of the C03Prog theorems) -/

open ArchSim.Lemmas.C03Prog in
theorem acc5 : ∀ j, j < 5 → StepAccepted (singleRun j asmSt) := by
  intro j hj
  have hj' : j = 0 ∨ j = 1 ∨ j = 2 ∨ j = 3 ∨ j = 4 := by omega
  rcases hj' with rfl | rfl | rfl | rfl | rfl
  · exact Ex.stepAccepted_of { op := .lui, rd := 5, imm := 4 } (by decide)
      ⟨fun h => absurd h (by decide), fun h => absurd h (by decide), fun h => absurd h (by decide)⟩
  · exact Ex.stepAccepted_of { op := .lw, rd := 10, rs1 := 5, imm := 0 } (by decide)
      ⟨fun _ => by decide, fun h => absurd h (by decide), fun h => absurd h (by decide)⟩
  · exact Ex.stepAccepted_of { op := .addi, rd := 17, rs1 := 0, imm := 93 } (by decide)
      ⟨fun h => absurd h (by decide), fun h => absurd h (by decide), fun h => absurd h (by decide)⟩
  · exact Ex.stepAccepted_of { op := .beq, rs1 := 0, rs2 := 0, imm := 8 } (by decide)
      ⟨fun h => absurd h (by decide), fun h => absurd h (by decide), fun h => absurd h (by decide)⟩
  · exact Ex.stepAccepted_of { op := .ecall } (by decide)
      ⟨fun h => absurd h (by decide), fun h => absurd h (by decide), fun _ h => absurd h (by decide)⟩

open ArchSim.Lemmas.C03Prog in
theorem runAccepted_asmSt : RunAccepted asmSt := by
  intro j hnd
  rcases Nat.lt_or_ge j 5 with h | h
  · exact acc5 j h
  · have h5 : singleDone (singleRun 5 asmSt) = true := by decide
    rw [hnd 5 h] at h5
    cases h5

/-! ### the example loaded with a data cache (one set, one way, one word; write-back LRU; penalty 10) -/

open ArchSim.Lemmas.C03Prog.Ex (geo1) in
/-- the state loaded with the cache, explicitly -/
def asmStC : St :=
  { asmSt with mem := .cached true (Spec.CacheAbs.preload
      (Cache.DSys.init (Cache.polOps true) false geo1 10 (Mem.Mem.empty Mem.riscvCfg)) asmHist) }

open ArchSim.Lemmas.C03Prog.Ex (geo1) in
theorem load_asmText_cached : (load (withCache freshSt true false geo1 10) asmText).st = asmStC := by
  obtain ⟨_, h, h1, h2⟩ := load_withCache freshSt _ rfl rfl true false geo1 10 asmText
  rw [load_asmText_st] at h1 h2
  have e : Spec.ByteStore.run Mem.riscvCfg h = Spec.ByteStore.run Mem.riscvCfg asmHist := by
    have := h1.symm; simpa [asmSt] using this
  rw [h2, preload_eq]
  show ({ asmSt with mem := (MemSys.cached true
    { Cache.DSys.init (Cache.polOps true) false geo1 10 (Mem.Mem.empty Mem.riscvCfg) with
      mem := Spec.ByteStore.run Mem.riscvCfg h }) } : St) = _
  rw [e, asmStC, preload_eq]
  rfl

/-! ### the source-level side condition holds for the example -/

theorem lineSupported_of {l : List Char} {t : Tok} (hp : parseLine l = some t) (hs : ItemSup t.item) :
    LineSupported l := by
  intro t' ht'
  rw [hp] at ht'
  cases ht'
  exact hs

theorem itemSup_of (it : Item) (m : String) (h : itemMnemonic it = some m) (hm : m ∉ unsupMn) : ItemSup it := by
  intro m' hm'
  rw [h] at hm'
  cases hm'
  exact hm

theorem itemSup_none (it : Item) (h : itemMnemonic it = none) : ItemSup it := by
  intro m' hm'
  rw [h] at hm'
  cases hm'

theorem asmText_source : SourceSupported asmText := by
  intro p hp
  rw [sanitize_asmText] at hp
  simp only [asmLines, List.mem_cons, List.not_mem_nil, or_false] at hp
  rcases hp with rfl | rfl | rfl | rfl | rfl | rfl | rfl | rfl | rfl
  · exact lineSupported_of parse_data (itemSup_none _ rfl)
  · exact lineSupported_of parse_xword (itemSup_none _ rfl)
  · exact lineSupported_of parse_text (itemSup_none _ rfl)
  · exact lineSupported_of parse_lui (itemSup_of _ "lui" rfl (by decide))
  · exact lineSupported_of parse_lw (itemSup_of _ "lw" rfl (by decide))
  · exact lineSupported_of parse_li.1 (itemSup_of _ "li" rfl (by decide))
  · exact lineSupported_of parse_beq (itemSup_of _ "beq" rfl (by decide))
  · exact lineSupported_of parse_li.2 (itemSup_of _ "li" rfl (by decide))
  · exact lineSupported_of parse_end (itemSup_of _ "ecall" rfl (by decide))

/-! ### the example loaded with an instruction cache (`exCache1`: one set, one way, two-word blocks, LRU, penalty 7) -/

open ArchSim.Lemmas.C11Prog (exCache1) in
theorem load_asmText_icache : (load (withICache freshSt exCache1) asmText).st =
    { asmSt with imem := { prog := asmProg, cache := some exCache1.reset } } := by
  rw [(load_withICache freshSt exCache1 asmText).2, load_asmText_st]; rfl

end ArchSim.Lemmas.E2E.Ex
