/-
C12 (memory table, program level), part 7: from the state invariants (`Repr`: invariant + logical
contents = flat cells; `TRep`: table invariant) to the ROWS of the two word tables
`reprEntries s.mem 32` (what the user sees: the backing store) and `reprEntries m 32` (flat run).
-/
import ArchSim.Lemmas.C12ProgCov

namespace ArchSim.Lemmas.C12Prog
open ArchSim ArchSim.Cache ArchSim.Mem ArchSim.Spec.ByteStore ArchSim.Lemmas.C18 ArchSim.Spec.CacheAbs
open ArchSim.Lemmas.C03 ArchSim.Lemmas.C12

variable {σ : Type} {P : PolicyOps σ} {WFp : σ → Prop}

/-- The word at an aligned address whose block is not resident is the same in the backing memory
    and in the flat memory the system represents. -/
theorem memWord_not_resident {s : DSys σ} {m : Mem}
    (hL : ∀ a, logical s a = m.cells ((wrap32 a : Nat) : Int)) (a : Int) (hal : wrap32 a % 4 = 0)
    (hnr : resident s a = false) : memWord s.mem (wrap32 a) = memWord m (wrap32 a) := by
  have hx := wrap32_lt a
  have hb : ∀ l, l < 4 → s.mem.cells ((wrap32 a + l : Nat) : Int) = m.cells ((wrap32 a + l : Nat) : Int) := by
    intro l hl
    have hr : resident s (((wrap32 a + l : Nat) : Int)) = false := by
      rw [resident_same_word s a l (by omega)]; exact hnr
    have h1 := backing_of_not_resident s _ hr
    have h2 := hL (((wrap32 a + l : Nat) : Int))
    rw [wrap32_nat _ (by omega)] at h1 h2
    rw [h1, h2]
  unfold memWord
  rw [show wrap32 a = wrap32 a + 0 from rfl, hb 0 (by omega), hb 1 (by omega), hb 2 (by omega),
    hb 3 (by omega)]

/-- Membership in the closed form of the table. -/
theorem mem_table {m : Mem} {a : Int} {v : Nat}
    (h : (a, v) ∈ (reprKeys m 32).map (fun a => (a, memWord m (wrap32 a)))) :
    a ∈ reprKeys m 32 ∧ v = memWord m (wrap32 a) := by
  simp only [List.mem_map, Prod.mk.injEq] at h
  obtain ⟨x, hx, rfl, rfl⟩ := h
  exact ⟨hx, rfl⟩

/-- A row of the backing store's table whose word is not in a resident block shows the value the
    flat memory holds at that word. -/
theorem backing_row_current {s : DSys σ} {m : Mem} (hs : CInvS WFp s) (hm : MemOK m)
    (hL : ∀ a, logical s a = m.cells ((wrap32 a : Nat) : Int)) (r : List (Int × Nat))
    (hr : reprEntries s.mem 32 = .ok r) (a : Int) (v : Nat) (hav : (a, v) ∈ r)
    (hnr : resident s a = false) : Mem.read m 32 a = some (.ok v) := by
  have hsm := CInvS_memOK hs
  rw [table_eq hsm] at hr
  rw [← Except.ok.inj hr] at hav
  obtain ⟨hk, rfl⟩ := mem_table hav
  obtain ⟨r1, r2, r3, r4⟩ := reprKeys_range hsm hk
  have hal : wrap32 a % 4 = 0 := by omega
  rw [read_word_riscv hm a (by omega) (by omega), memWord_not_resident hL a hal hnr]

/-- Every row of the flat run's table is a row of the backing store's table (same address, same
    value) unless its word belongs to a resident block. -/
theorem flat_row_covered {s : DSys σ} {m : Mem} (hs : CInvS WFp s) (hm : MemOK m)
    (hL : ∀ a, logical s a = m.cells ((wrap32 a : Nat) : Int)) (hc : Cov s m)
    (rf : List (Int × Nat)) (hrf : reprEntries m 32 = .ok rf) (a : Int) (v : Nat)
    (hav : (a, v) ∈ rf) :
    resident s a = true ∨ ∃ rb, reprEntries s.mem 32 = .ok rb ∧ (a, v) ∈ rb := by
  have hsm := CInvS_memOK hs
  rw [table_eq hm] at hrf
  rw [← Except.ok.inj hrf] at hav
  obtain ⟨hk, rfl⟩ := mem_table hav
  obtain ⟨r1, r2, r3, r4⟩ := reprKeys_range hm hk
  obtain ⟨y, hy, e, y1, y2⟩ := reprKeys_riscv hm hk
  have hal : wrap32 a % 4 = 0 := by omega
  cases hres : resident s a with
  | true => exact Or.inl rfl
  | false =>
    right
    refine ⟨_, table_eq hsm, ?_⟩
    have hyk : y ∈ s.mem.keys := by
      rcases hc y hy with h | h
      · exact h
      · exfalso
        have hy' : y = ((wrap32 a + (y % 4).toNat : Nat) : Int) := by omega
        rw [hy', resident_same_word s a _ (by omega), hres] at h
        cases h
    have hka : a ∈ reprKeys s.mem 32 := by rw [e]; exact reprKeys_of_key hsm hyk
    simp only [List.mem_map, Prod.mk.injEq]
    exact ⟨a, hka, rfl, memWord_not_resident hL a hal hres⟩

end ArchSim.Lemmas.C12Prog
