/-
C04 helper lemmas (back end), part 3: the immediates `instantiate` stores for branch and jump operands
(label, label + offset, number), and the control transfer that results when the instruction executes.
-/
import ArchSim.Lemmas.C05Li

namespace ArchSim.Lemmas.C04
open ArchSim ArchSim.Asm ArchSim.Rv ArchSim.Lemmas.C05

/-! ### sign extension is the identity on the encodable range -/

theorem sext13_id (d : Int) (h : -4096 ≤ d ∧ d < 4096) : sextImm 13 d = d := by
  rw [sext13]; omega

theorem sext21_id (d : Int) (h : -1048576 ≤ d ∧ d < 1048576) : sextImm 21 d = d := by
  rw [sext21]; omega

/-- in general the stored value is congruent to the raw one modulo 2^13 (resp. 2^21) and lies in the
    encodable range -/
theorem sext13_spec (d : Int) : (sextImm 13 d - d) % 8192 = 0 ∧ -4096 ≤ sextImm 13 d ∧ sextImm 13 d < 4096 := by
  rw [sext13]; omega

theorem sext21_spec (d : Int) :
    (sextImm 21 d - d) % 2097152 = 0 ∧ -1048576 ≤ sextImm 21 d ∧ sextImm 21 d < 1048576 := by
  rw [sext21]; omega

/-! ### what `instantiate` builds for branches and jumps -/

theorem labelDisp_ok (ls : Labels) (l : String) (off addr : Int) (k : Nat) (line : String) (L : Int)
    (h : lookupLabel ls l = some L) : labelDisp ls l off addr k line = .ok (L + off - addr) := by
  simp only [labelDisp, h]

theorem labelDisp_unknown (ls : Labels) (l : String) (off addr : Int) (k : Nat) (line : String)
    (h : lookupLabel ls l = none) :
    labelDisp ls l off addr k line = .error (.parser "ParserLabelException" k line) := by
  simp only [labelDisp, h]

theorem instantiate_btypeLabel (ls : Labels) (addr : Int) (k : Nat) (line : String) (mn : String) (op : Op)
    (hop : Op.ofMnemonic mn = some op) (hty : op.ty = .b) (r1 r2 : Nat) (l : String) (off L : Int)
    (hl : lookupLabel ls l = some L) :
    instantiate ls addr k line (.btypeLabel mn r1 r2 l off) =
      .ok { op := op, rd := 0, rs1 := r1, rs2 := r2, imm := sextImm 13 (L + off - addr), aux := 0 } := by
  simp only [instantiate, hop, labelDisp_ok ls l off addr k line L hl, mkInstr, storedImm, hty]

theorem instantiate_btypeLabel_unknown (ls : Labels) (addr : Int) (k : Nat) (line : String) (mn : String) (op : Op)
    (hop : Op.ofMnemonic mn = some op) (r1 r2 : Nat) (l : String) (off : Int)
    (hl : lookupLabel ls l = none) :
    instantiate ls addr k line (.btypeLabel mn r1 r2 l off) = .error (.parser "ParserLabelException" k line) := by
  simp only [instantiate, hop, labelDisp_unknown ls l off addr k line hl]

theorem instantiate_btypeImm (ls : Labels) (addr : Int) (k : Nat) (line : String) (mn : String) (op : Op)
    (hop : Op.ofMnemonic mn = some op) (hty : op.ty = .b) (r1 r2 : Nat) (n : Int) :
    instantiate ls addr k line (.rri mn r1 r2 n) =
      if n % 2 ≠ 0 then .error (.parser "ParserOddImmediateException" k line)
      else .ok { op := op, rd := 0, rs1 := r1, rs2 := r2, imm := sextImm 13 n, aux := 0 } := by
  simp only [instantiate, hop, hty, mkInstr, storedImm]

theorem instantiate_jalImm (ls : Labels) (addr : Int) (k : Nat) (line : String) (rd : Nat) (n : Int) :
    instantiate ls addr k line (.jalImm rd n) =
      if n % 2 ≠ 0 then .error (.parser "ParserOddImmediateException" k line)
      else .ok { op := .jal, rd := rd, rs1 := 0, rs2 := 0, imm := sextImm 21 (n - addr), aux := n } := by
  simp only [instantiate, mkInstr, storedImm, Op.ty]

theorem instantiate_jalLabel (ls : Labels) (addr : Int) (k : Nat) (line : String) (rd : Nat) (l : String)
    (off L : Int) (hl : lookupLabel ls l = some L) :
    instantiate ls addr k line (.jalLabel rd l off) =
      .ok { op := .jal, rd := rd, rs1 := 0, rs2 := 0, imm := sextImm 21 (L + off - addr), aux := L + off } := by
  simp only [instantiate, labelDisp_ok ls l off addr k line L hl, mkInstr, storedImm, Op.ty]
  congr 2
  omega

/-! ### executing branches and jumps -/

theorem behavior_branch (i : Instr) (hty : i.op.ty = .b) (s : St) :
    behavior i s =
      if branchCond i.op (s.regs i.rs1) (s.regs i.rs2) then
        { st := { s with pc := s.pc + (i.imm - 4), branches := s.branches + 1 }, fault := none }
      else { st := s, fault := none } := by
  simp only [behavior, hty]

theorem behavior_jal (i : Instr) (hop : i.op = .jal) (s : St) :
    behavior i s =
      { st := { s with regs := Rv.setReg s.regs i.rd (wrapU (s.pc + 4)), pc := s.pc + (i.imm - 4),
                       procs := s.procs + 1 }, fault := none } := by
  simp only [behavior, hop, Op.ty, St.setReg]

/-- One single-cycle step on an uncached instruction memory, for an instruction that is not a load and
    whose `behavior` raises no fault: `behavior` runs on the state with the cycle and instruction
    counters advanced, then the stage adds 4 to the pc modulo 2^32. -/
theorem singleStep_of_behavior (s : St) (i : Instr) (hc : s.imem.cache = none)
    (hpc : 0 ≤ s.pc ∧ s.pc < 16384) (hi : s.imem.instrAt s.pc = some i) (hty : i.op.ty ≠ .memI)
    (hf : (behavior i { s with cycles := s.cycles + 1, instrs := s.instrs + 1 }).fault = none) :
    singleStep s =
      { st := { (behavior i { s with cycles := s.cycles + 1, instrs := s.instrs + 1 }).st with
                pc := ((behavior i { s with cycles := s.cycles + 1, instrs := s.instrs + 1 }).st.pc + 4) % 4294967296 },
        fault := none } := by
  have hfetch : IMem.fetch s.imem s.pc = { imem := s.imem, res := .ok (some i), extra := 0 } := by
    simp only [IMem.fetch, hc, hpc, and_self, if_true, hi]
  simp only [singleStep, hi, hfetch, Nat.add_zero, hf, if_neg hty]

end ArchSim.Lemmas.C04
