/-
C04 helper lemmas (back end), part 3: the immediates `instantiate` stores for branch and jump operands
(label, label + offset, number), and the control transfer that results when the instruction executes.
-/
import ArchSim.Lemmas.C05Li
import ArchSim.Lemmas.C04Labels

namespace ArchSim.Lemmas.C04
open ArchSim ArchSim.Asm ArchSim.Rv ArchSim.Lemmas.C05

/-! ### sign extension is the identity on the encodable range -/

theorem sext13_id (d : Int) (h : -4096 ≤ d ∧ d < 4096) : sextImm 13 d = d := by
  rw [sext13]; omega

theorem sext21_id (d : Int) (h : -1048576 ≤ d ∧ d < 1048576) : sextImm 21 d = d := by
  rw [sext21]; omega

/-- in general the stored value is congruent to the raw one modulo 2^13 (resp. 2^21) and lies in the
    encodable range -/
theorem sext13_spec (d : Int) : (sextImm 13 d - d) % 8192 = 0 ∧ -4096 ≤ sextImm 13 d ∧ sextImm 13 d < 4096 := by
  rw [sext13]; omega

theorem sext21_spec (d : Int) :
    (sextImm 21 d - d) % 2097152 = 0 ∧ -1048576 ≤ sextImm 21 d ∧ sextImm 21 d < 1048576 := by
  rw [sext21]; omega

/-! ### what `instantiate` builds for branches and jumps -/

theorem labelDisp_ok (ls : Labels) (l : String) (off addr : Int) (k : Nat) (line : String) (L : Int)
    (h : lookupLabel ls l = some L) (hev : (L + off - addr) % 2 = 0) :
    labelDisp ls l off addr k line = .ok (L + off - addr) := by
  simp only [labelDisp, h, hev, ne_eq, not_true_eq_false, if_false]

theorem labelDisp_odd (ls : Labels) (l : String) (off addr : Int) (k : Nat) (line : String) (L : Int)
    (h : lookupLabel ls l = some L) (hodd : (L + off - addr) % 2 ≠ 0) :
    labelDisp ls l off addr k line = .error (.parser "ParserOddImmediateException" k line) := by
  simp only [labelDisp, h, if_pos hodd]

theorem labelDisp_unknown (ls : Labels) (l : String) (off addr : Int) (k : Nat) (line : String)
    (h : lookupLabel ls l = none) :
    labelDisp ls l off addr k line = .error (.parser "ParserLabelException" k line) := by
  simp only [labelDisp, h]

/-- the three outcomes of `labelDisp` in one equation -/
theorem labelDisp_eq (ls : Labels) (l : String) (off addr : Int) (k : Nat) (line : String) :
    labelDisp ls l off addr k line =
      match lookupLabel ls l with
      | some L =>
        if (L + off - addr) % 2 ≠ 0 then .error (.parser "ParserOddImmediateException" k line)
        else .ok (L + off - addr)
      | none => .error (.parser "ParserLabelException" k line) := rfl

/-- a successful `labelDisp` returns the even displacement to a bound label -/
theorem labelDisp_ok_inv (ls : Labels) (l : String) (off addr : Int) (k : Nat) (line : String) (d : Int)
    (h : labelDisp ls l off addr k line = .ok d) :
    ∃ L, lookupLabel ls l = some L ∧ d = L + off - addr ∧ d % 2 = 0 := by
  rw [labelDisp_eq] at h
  cases hl : lookupLabel ls l with
  | none => rw [hl] at h; cases h
  | some L =>
    rw [hl] at h
    by_cases hodd : (L + off - addr) % 2 ≠ 0
    · simp only [if_pos hodd] at h; cases h
    · simp only [if_neg hodd] at h
      cases h
      exact ⟨L, rfl, rfl, by omega⟩

/-- Label and instruction addresses are multiples of 4, so the displacement is even exactly when the
    written offset is. -/
theorem disp_even_iff_off_even (L off a : Int) (hL : L % 4 = 0) (ha : a % 4 = 0) :
    (L + off - a) % 2 = 0 ↔ off % 2 = 0 := by omega

/-! ### every label address is a multiple of 4 -/

/-- all values of a label table are multiples of 4 -/
def Aligned4 (ls : Labels) : Prop := ∀ p ∈ ls, p.2 % 4 = 0

theorem Aligned4.lookup {ls : Labels} (h : Aligned4 ls) {l : String} {L : Int} (hl : lookupLabel ls l = some L) :
    L % 4 = 0 := by
  simp only [lookupLabel, Option.map_eq_some_iff] at hl
  obtain ⟨p, hp, rfl⟩ := hl
  exact h p (List.mem_of_find?_eq_some hp)

theorem Aligned4.addLabel {ls ls' : Labels} (h : Aligned4 ls) {n : String} {v : Int} {k : Nat} {line : String}
    (hv : v % 4 = 0) (ha : addLabel ls n v k line = .ok ls') : Aligned4 ls' := by
  rw [(addLabel_ok ls ls' n v k line ha).2.1]
  intro p hp
  rcases List.mem_append.mp hp with hp | hp
  · exact h p hp
  · simp only [List.mem_singleton] at hp; subst hp; exact hv

theorem stepAddr_mod4 (addr : Int) (it : Item) (h : addr % 4 = 0) : stepAddr addr it % 4 = 0 := by
  simp only [stepAddr]; split <;> omega

/-- The label pass only binds multiples of 4 when started at one. -/
theorem processLabels_aligned (es : List TEntry) : ∀ (pending : List (Nat × String)) (ls ls' : Labels) (addr : Int),
    processLabels es pending ls addr = .ok ls' → addr % 4 = 0 → Aligned4 ls → Aligned4 ls' := by
  induction es with
  | nil => intro pending ls ls' addr h _ hls; simp only [processLabels, Except.ok.injEq] at h; subst h; exact hls
  | cons e rest ih =>
    obtain ⟨k, line, it⟩ := e
    intro pending ls ls' addr h ha hls
    by_cases hlab : isLabel it = true
    · obtain ⟨s, hs⟩ : ∃ s, it = .str s := by
        cases it <;> simp [isLabel] at hlab ⊢
      rw [processLabels_cons_label k line it rest pending ls addr s hs hlab] at h
      cases hadd : addLabel ls s addr k line with
      | error x => rw [hadd] at h; cases h
      | ok ls1 => rw [hadd] at h; exact ih _ _ _ _ h ha (hls.addLabel ha hadd)
    · have hlab' : isLabel it = false := by simpa using hlab
      rw [processLabels_cons_other k line it rest pending ls addr hlab'] at h
      cases hf : pending.find? (fun p => p.1 == k) with
      | none => rw [hf] at h; exact ih _ _ _ _ h (stepAddr_mod4 addr it ha) hls
      | some q =>
        obtain ⟨k0, l⟩ := q
        rw [hf] at h
        simp only at h
        cases hadd : addLabel ls l addr k line with
        | error x => rw [hadd] at h; cases h
        | ok ls1 => rw [hadd] at h; exact ih _ _ _ _ h (stepAddr_mod4 addr it ha) (hls.addLabel ha hadd)

/-- Every label of a successful label pass (as `load` runs it: no labels, address 0) is a multiple of 4. -/
theorem label_mult4 (es : List TEntry) (pending : List (Nat × String)) (ls : Labels)
    (h : processLabels es pending [] 0 = .ok ls) (l : String) (L : Int) (hl : lookupLabel ls l = some L) :
    L % 4 = 0 :=
  (processLabels_aligned es pending [] ls 0 h (by decide) (fun _ hp => by cases hp)).lookup hl

theorem instantiate_btypeLabel (ls : Labels) (addr : Int) (k : Nat) (line : String) (mn : String) (op : Op)
    (hop : Op.ofMnemonic mn = some op) (hty : op.ty = .b) (r1 r2 : Nat) (l : String) (off L : Int)
    (hl : lookupLabel ls l = some L) (hev : (L + off - addr) % 2 = 0) :
    instantiate ls addr k line (.btypeLabel mn r1 r2 l off) =
      .ok { op := op, rd := 0, rs1 := r1, rs2 := r2, imm := sextImm 13 (L + off - addr), aux := 0 } := by
  simp only [instantiate, hop, labelDisp_ok ls l off addr k line L hl hev, mkInstr, storedImm, hty]

theorem instantiate_btypeLabel_odd (ls : Labels) (addr : Int) (k : Nat) (line : String) (mn : String) (op : Op)
    (hop : Op.ofMnemonic mn = some op) (r1 r2 : Nat) (l : String) (off L : Int)
    (hl : lookupLabel ls l = some L) (hodd : (L + off - addr) % 2 ≠ 0) :
    instantiate ls addr k line (.btypeLabel mn r1 r2 l off) =
      .error (.parser "ParserOddImmediateException" k line) := by
  simp only [instantiate, hop, labelDisp_odd ls l off addr k line L hl hodd]

theorem instantiate_btypeLabel_unknown (ls : Labels) (addr : Int) (k : Nat) (line : String) (mn : String) (op : Op)
    (hop : Op.ofMnemonic mn = some op) (r1 r2 : Nat) (l : String) (off : Int)
    (hl : lookupLabel ls l = none) :
    instantiate ls addr k line (.btypeLabel mn r1 r2 l off) = .error (.parser "ParserLabelException" k line) := by
  simp only [instantiate, hop, labelDisp_unknown ls l off addr k line hl]

theorem instantiate_btypeImm (ls : Labels) (addr : Int) (k : Nat) (line : String) (mn : String) (op : Op)
    (hop : Op.ofMnemonic mn = some op) (hty : op.ty = .b) (r1 r2 : Nat) (n : Int) :
    instantiate ls addr k line (.rri mn r1 r2 n) =
      if n % 2 ≠ 0 then .error (.parser "ParserOddImmediateException" k line)
      else .ok { op := op, rd := 0, rs1 := r1, rs2 := r2, imm := sextImm 13 n, aux := 0 } := by
  simp only [instantiate, hop, hty, mkInstr, storedImm]

theorem instantiate_jalImm (ls : Labels) (addr : Int) (k : Nat) (line : String) (rd : Nat) (n : Int) :
    instantiate ls addr k line (.jalImm rd n) =
      if n % 2 ≠ 0 then .error (.parser "ParserOddImmediateException" k line)
      else .ok { op := .jal, rd := rd, rs1 := 0, rs2 := 0, imm := sextImm 21 (n - addr), aux := n } := by
  simp only [instantiate, mkInstr, storedImm, Op.ty]

theorem instantiate_jalLabel (ls : Labels) (addr : Int) (k : Nat) (line : String) (rd : Nat) (l : String)
    (off L : Int) (hl : lookupLabel ls l = some L) (hev : (L + off - addr) % 2 = 0) :
    instantiate ls addr k line (.jalLabel rd l off) =
      .ok { op := .jal, rd := rd, rs1 := 0, rs2 := 0, imm := sextImm 21 (L + off - addr), aux := L + off } := by
  simp only [instantiate, labelDisp_ok ls l off addr k line L hl hev, mkInstr, storedImm, Op.ty]
  congr 2
  omega

theorem instantiate_jalLabel_odd (ls : Labels) (addr : Int) (k : Nat) (line : String) (rd : Nat) (l : String)
    (off L : Int) (hl : lookupLabel ls l = some L) (hodd : (L + off - addr) % 2 ≠ 0) :
    instantiate ls addr k line (.jalLabel rd l off) = .error (.parser "ParserOddImmediateException" k line) := by
  simp only [instantiate, labelDisp_odd ls l off addr k line L hl hodd]

theorem instantiate_jalLabel_unknown (ls : Labels) (addr : Int) (k : Nat) (line : String) (rd : Nat) (l : String)
    (off : Int) (hl : lookupLabel ls l = none) :
    instantiate ls addr k line (.jalLabel rd l off) = .error (.parser "ParserLabelException" k line) := by
  simp only [instantiate, labelDisp_unknown ls l off addr k line hl]

/-! ### executing branches and jumps -/

theorem behavior_branch (i : Instr) (hty : i.op.ty = .b) (s : St) :
    behavior i s =
      if branchCond i.op (s.regs i.rs1) (s.regs i.rs2) then
        { st := { s with pc := s.pc + (i.imm - 4), branches := s.branches + 1 }, fault := none }
      else { st := s, fault := none } := by
  simp only [behavior, hty]

theorem behavior_jal (i : Instr) (hop : i.op = .jal) (s : St) :
    behavior i s =
      { st := { s with regs := Rv.setReg s.regs i.rd (wrapU (s.pc + 4)), pc := s.pc + (i.imm - 4),
                       procs := s.procs + 1 }, fault := none } := by
  simp only [behavior, hop, Op.ty, St.setReg]

/-- One single-cycle step on an uncached instruction memory, for an instruction that is not a load and
    whose `behavior` raises no fault: `behavior` runs on the state with the cycle and instruction
    counters advanced, then the stage adds 4 to the pc modulo 2^32. -/
theorem singleStep_of_behavior (s : St) (i : Instr) (hc : s.imem.cache = none)
    (hpc : 0 ≤ s.pc ∧ s.pc < 16384) (hi : s.imem.instrAt s.pc = some i) (hty : i.op.ty ≠ .memI)
    (hf : (behavior i { s with cycles := s.cycles + 1, instrs := s.instrs + 1 }).fault = none) :
    singleStep s =
      { st := { (behavior i { s with cycles := s.cycles + 1, instrs := s.instrs + 1 }).st with
                pc := ((behavior i { s with cycles := s.cycles + 1, instrs := s.instrs + 1 }).st.pc + 4) % 4294967296 },
        fault := none } := by
  have hfetch : IMem.fetch s.imem s.pc = { imem := s.imem, res := .ok (some i), extra := 0 } := by
    simp only [IMem.fetch, hc, hpc, and_self, if_true, hi]
  simp only [singleStep, hi, hfetch, Nat.add_zero, hf, if_neg hty]

end ArchSim.Lemmas.C04
