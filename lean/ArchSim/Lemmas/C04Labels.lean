/-
C04 helper lemmas (back end): `processLabels` binds every label to the address of the next emitted
instruction, `buildInstrs` emits the instruction-producing entries in order at addresses 0, 4, 8, ….
-/
import ArchSim.Model.Asm

namespace ArchSim.Lemmas.C04
open ArchSim ArchSim.Asm ArchSim.Rv

/-! ### vocabulary -/

/-- the mnemonic of a grouped instruction (the inner `match` of `itemMnemonic`) -/
def piMnemonic (pi : PInstr) : String :=
  match pi with
  | .rtype mn .. => mn | .utype mn .. => mn | .btypeLabel mn .. => mn | .mem mn .. => mn
  | .memPseudo mn .. => mn | .sPseudo mn .. => mn | .csr mn .. => mn | .csri mn .. => mn
  | .rri mn .. => mn | .fence .. => "fence" | .jalImm .. => "jal" | .jalLabel .. => "jal"
  | .li .. => "li" | .mv .. => "mv"

/-- an expanded text entry produces an instruction: a group with a real (base-ISA) mnemonic, or one of
    the bare words `ecall` / `ebreak` -/
def emits : Item → Bool
  | .str s => decide (s = "ecall" ∨ s = "ebreak")
  | .grp pi => isRealMnemonic (piMnemonic pi)
  | _ => false

/-- an expanded text entry is a stand-alone label -/
def isLabel : Item → Bool
  | .str s => decide (s ≠ "ecall" ∧ s ≠ "ebreak")
  | _ => false

/-- number of instruction-producing entries -/
def countE (es : List TEntry) : Nat := es.countP (fun e => emits e.2.2)

theorem countE_nil : countE [] = 0 := rfl

theorem countE_cons (e : TEntry) (es : List TEntry) :
    countE (e :: es) = (if emits e.2.2 then 1 else 0) + countE es := by
  simp only [countE, List.countP_cons]; omega

theorem countE_append (l₁ l₂ : List TEntry) : countE (l₁ ++ l₂) = countE l₁ + countE l₂ := by
  simp only [countE, List.countP_append]

theorem itemMnemonic_grp (pi : PInstr) : itemMnemonic (.grp pi) = some (piMnemonic pi) := by
  cases pi <;> rfl

/-! ### label tables -/

theorem lookupLabel_append_some (ls ws : Labels) (n : String) (v : Int) (h : lookupLabel ls n = some v) :
    lookupLabel (ls ++ ws) n = some v := by
  simp only [lookupLabel, Option.map_eq_some_iff] at h
  obtain ⟨p, hp, rfl⟩ := h
  simp only [lookupLabel, List.find?_append, hp, Option.some_or, Option.map_some]

theorem lookupLabel_append_none (ls ws : Labels) (n : String) (h : lookupLabel ls n = none) :
    lookupLabel (ls ++ ws) n = lookupLabel ws n := by
  simp only [lookupLabel, Option.map_eq_none_iff] at h
  simp only [lookupLabel, List.find?_append, h, Option.none_or]

/-- a successful `addLabel` appends the binding; afterwards the name resolves to the value and every
    earlier binding is kept -/
theorem addLabel_ok (ls ls' : Labels) (n : String) (v : Int) (k : Nat) (line : String)
    (h : addLabel ls n v k line = .ok ls') :
    lookupLabel ls n = none ∧ ls' = ls ++ [(n, v)] ∧ lookupLabel ls' n = some v ∧
      (∀ n' v', lookupLabel ls n' = some v' → lookupLabel ls' n' = some v') := by
  simp only [addLabel] at h
  split at h
  · cases h
  · next hn =>
    simp only [Except.ok.injEq] at h
    subst h
    have hn' : lookupLabel ls n = none := by
      cases hl : lookupLabel ls n with
      | none => rfl
      | some x => rw [hl] at hn; simp at hn
    refine ⟨hn', rfl, ?_, fun n' v' h' => lookupLabel_append_some ls _ n' v' h'⟩
    rw [lookupLabel_append_none _ _ _ hn']
    simp [lookupLabel]

/-! ### one step of `processLabels` -/

/-- the address after an entry -/
def stepAddr (addr : Int) (it : Item) : Int := if emits it then addr + 4 else addr

theorem processLabels_cons_label (k : Nat) (line : String) (it : Item) (rest : List TEntry)
    (pending : List (Nat × String)) (ls : Labels) (addr : Int) (s : String) (hs : it = .str s)
    (hl : isLabel it = true) :
    processLabels ((k, line, it) :: rest) pending ls addr =
      match addLabel ls s addr k line with
      | .error e => .error e
      | .ok ls' => processLabels rest pending ls' addr := by
  subst hs
  simp only [isLabel, decide_eq_true_eq] at hl
  simp only [processLabels, hl, ne_eq, not_false_eq_true, and_self, if_true]
  cases addLabel ls s addr k line <;> rfl

theorem processLabels_cons_other (k : Nat) (line : String) (it : Item) (rest : List TEntry)
    (pending : List (Nat × String)) (ls : Labels) (addr : Int) (hl : isLabel it = false) :
    processLabels ((k, line, it) :: rest) pending ls addr =
      match pending.find? (fun p => p.1 == k) with
      | some (_, l) =>
        match addLabel ls l addr k line with
        | .error e => .error e
        | .ok ls' => processLabels rest (pending.filter (fun p => p.1 != k)) ls' (stepAddr addr it)
      | none => processLabels rest pending ls (stepAddr addr it) := by
  cases it with
  | str s =>
    simp only [isLabel, decide_eq_false_iff_not] at hl
    have hl' : ¬ (s ≠ "ecall" ∧ s ≠ "ebreak") := hl
    have he : emits (.str s) = true := by
      simp only [emits, decide_eq_true_eq]
      by_cases h1 : s = "ecall"
      · exact Or.inl h1
      · by_cases h2 : s = "ebreak"
        · exact Or.inr h2
        · exact absurd ⟨h1, h2⟩ hl'
    simp only [processLabels, hl', if_false, stepAddr, he, if_true]
    cases pending.find? (fun p => p.1 == k) with
    | none => rfl
    | some p =>
      obtain ⟨_, l⟩ := p
      simp only
      cases addLabel ls l addr k line <;> rfl
  | grp pi =>
    simp only [processLabels, stepAddr, emits, itemMnemonic_grp]
    cases pending.find? (fun p => p.1 == k) with
    | none => rfl
    | some p =>
      obtain ⟨_, l⟩ := p
      simp only
      cases addLabel ls l addr k line <;> rfl
  | varDecl n ty vals =>
    simp only [processLabels, stepAddr, emits, itemMnemonic]
    cases pending.find? (fun p => p.1 == k) with
    | none => simp
    | some p =>
      obtain ⟨_, l⟩ := p
      simp only
      cases addLabel ls l addr k line <;> simp
  | strDecl n body =>
    simp only [processLabels, stepAddr, emits, itemMnemonic]
    cases pending.find? (fun p => p.1 == k) with
    | none => simp
    | some p =>
      obtain ⟨_, l⟩ := p
      simp only
      cases addLabel ls l addr k line <;> simp
  | zeroDecl n c =>
    simp only [processLabels, stepAddr, emits, itemMnemonic]
    cases pending.find? (fun p => p.1 == k) with
    | none => simp
    | some p =>
      obtain ⟨_, l⟩ := p
      simp only
      cases addLabel ls l addr k line <;> simp
  | directive d =>
    simp only [processLabels, stepAddr, emits, itemMnemonic]
    cases pending.find? (fun p => p.1 == k) with
    | none => simp
    | some p =>
      obtain ⟨_, l⟩ := p
      simp only
      cases addLabel ls l addr k line <;> simp

/-! ### the label pass binds every label to the address of the next emitted instruction -/

theorem countE_take_succ (e : TEntry) (es : List TEntry) (p : Nat) :
    countE ((e :: es).take (p + 1)) = (if emits e.2.2 then 1 else 0) + countE (es.take p) := by
  rw [List.take_succ_cons, countE_cons]

theorem stepAddr_eq (addr : Int) (it : Item) :
    stepAddr addr it = addr + 4 * ((if emits it then 1 else 0 : Nat) : Int) := by
  simp only [stepAddr]; split <;> simp

theorem isLabel_not_emits (it : Item) (h : isLabel it = true) : emits it = false := by
  cases it with
  | str s =>
    simp only [isLabel, decide_eq_true_eq] at h
    simp only [emits, decide_eq_false_iff_not, not_or]
    exact h
  | grp pi => cases h
  | varDecl n ty vals => rfl
  | strDecl n b => rfl
  | zeroDecl n c => rfl
  | directive d => rfl

theorem find_filter_ne (pending : List (Nat × String)) (k k0 : Nat) (h : k0 ≠ k) :
    (pending.filter (fun p => p.1 != k0)).find? (fun p => p.1 == k) = pending.find? (fun p => p.1 == k) := by
  induction pending with
  | nil => rfl
  | cons q qs ih =>
    by_cases hq : q.1 = k0
    · have h1 : (q.1 != k0) = false := by simp [hq]
      have h2 : (q.1 == k) = false := by simp [hq, h]
      simp [h1, h2, ih]
    · have h1 : (q.1 != k0) = true := by simp [hq]
      simp only [List.filter_cons, h1, if_true, List.find?_cons, ih]

/-- Specification of `processLabels`, generalised over the state of the pass (`addr` = address of the next
    instruction, `ls` = labels bound so far, `pending` = in-line labels not yet bound). On success:
    1. earlier bindings are kept;
    2. a stand-alone label at position `p` is bound to `addr + 4 × (emitting entries before p)`;
    3. the in-line label `l` that `pending` holds for line `k` is bound at the FIRST entry of line `k`
       that is not a stand-alone label, to `addr + 4 × (emitting entries before it)`. -/
theorem processLabels_spec (es : List TEntry) (pending : List (Nat × String)) (ls ls' : Labels) (addr : Int)
    (h : processLabels es pending ls addr = .ok ls') :
    (∀ n v, lookupLabel ls n = some v → lookupLabel ls' n = some v) ∧
    (∀ (p : Nat) (hp : p < es.length) (s : String), es[p].2.2 = .str s → isLabel (.str s) = true →
      lookupLabel ls' s = some (addr + 4 * (countE (es.take p) : Int))) ∧
    (∀ (k k0 : Nat) (l : String), pending.find? (fun q => q.1 == k) = some (k0, l) →
      ∀ (p : Nat) (hp : p < es.length), es[p].1 = k → isLabel es[p].2.2 = false →
        (∀ (q : Nat) (hq : q < p), (es[q]'(by omega)).1 = k → isLabel (es[q]'(by omega)).2.2 = true) →
        lookupLabel ls' l = some (addr + 4 * (countE (es.take p) : Int))) := by
  induction es generalizing pending ls addr with
  | nil =>
    simp only [processLabels, Except.ok.injEq] at h
    subst h
    exact ⟨fun _ _ hv => hv, fun p hp => absurd hp (Nat.not_lt_zero _), fun _ _ _ _ p hp => absurd hp (Nat.not_lt_zero _)⟩
  | cons e rest ih =>
    obtain ⟨k1, line, it⟩ := e
    by_cases hl : isLabel it = true
    · -- a stand-alone label
      obtain ⟨s, hs⟩ : ∃ s, it = .str s := by
        cases it with
        | str s => exact ⟨s, rfl⟩
        | grp pi => cases hl
        | varDecl n ty vals => cases hl
        | strDecl n b => cases hl
        | zeroDecl n c => cases hl
        | directive d => cases hl
      rw [processLabels_cons_label k1 line it rest pending ls addr s hs hl] at h
      cases ha : addLabel ls s addr k1 line with
      | error x => rw [ha] at h; cases h
      | ok ls1 =>
        rw [ha] at h
        simp only at h
        obtain ⟨_, _, hself, hkeep⟩ := addLabel_ok ls ls1 s addr k1 line ha
        obtain ⟨ih1, ih2, ih3⟩ := ih pending ls1 addr h
        have hne := isLabel_not_emits it hl
        refine ⟨fun n v hv => ih1 n v (hkeep n v hv), ?_, ?_⟩
        · intro p hp s' hs' hl'
          cases p with
          | zero =>
            simp only [List.getElem_cons_zero] at hs'
            rw [hs] at hs'
            cases hs'
            simp only [List.take_zero, countE_nil, Int.natCast_zero, Int.mul_zero, Int.add_zero]
            exact ih1 s addr hself
          | succ p' =>
            simp only [List.getElem_cons_succ] at hs'
            rw [countE_take_succ]
            simp only [hne, Bool.false_eq_true, if_false, Nat.zero_add]
            exact ih2 p' (by simpa using hp) s' hs' hl'
        · intro k k0 l hf p hp hk hnl hfirst
          cases p with
          | zero =>
            simp only [List.getElem_cons_zero] at hnl
            rw [hl] at hnl; cases hnl
          | succ p' =>
            simp only [List.getElem_cons_succ] at hk hnl
            rw [countE_take_succ]
            simp only [hne, Bool.false_eq_true, if_false, Nat.zero_add]
            refine ih3 k k0 l hf p' (by simpa using hp) hk hnl ?_
            intro q hq hqk
            have := hfirst (q + 1) (by omega)
            simp only [List.getElem_cons_succ] at this
            exact this hqk
    · -- an instruction-like entry
      have hl' : isLabel it = false := by simpa using hl
      rw [processLabels_cons_other k1 line it rest pending ls addr hl'] at h
      have hstep := stepAddr_eq addr it
      -- common tail, given the state passed to the recursive call
      have tail : ∀ (pending' : List (Nat × String)) (ls1 : Labels),
          processLabels rest pending' ls1 (stepAddr addr it) = .ok ls' →
          (∀ n v, lookupLabel ls n = some v → lookupLabel ls1 n = some v) →
          (∀ k, k ≠ k1 → pending'.find? (fun q => q.1 == k) = pending.find? (fun q => q.1 == k)) →
          (∀ k0 l, pending.find? (fun q => q.1 == k1) = some (k0, l) → lookupLabel ls1 l = some addr) →
          _ := fun pending' ls1 hrec hkeep hpend hbound => by
        obtain ⟨ih1, ih2, ih3⟩ := ih pending' ls1 (stepAddr addr it) hrec
        exact (show
          (∀ n v, lookupLabel ls n = some v → lookupLabel ls' n = some v) ∧
          (∀ (p : Nat) (hp : p < ((k1, line, it) :: rest).length) (s : String),
            (((k1, line, it) :: rest)[p]).2.2 = .str s → isLabel (.str s) = true →
            lookupLabel ls' s = some (addr + 4 * (countE (((k1, line, it) :: rest).take p) : Int))) ∧
          (∀ (k k0 : Nat) (l : String), pending.find? (fun q => q.1 == k) = some (k0, l) →
            ∀ (p : Nat) (hp : p < ((k1, line, it) :: rest).length), (((k1, line, it) :: rest)[p]).1 = k →
              isLabel (((k1, line, it) :: rest)[p]).2.2 = false →
              (∀ (q : Nat) (hq : q < p), ((((k1, line, it) :: rest)[q]'(by omega))).1 = k →
                isLabel ((((k1, line, it) :: rest)[q]'(by omega))).2.2 = true) →
              lookupLabel ls' l = some (addr + 4 * (countE (((k1, line, it) :: rest).take p) : Int))) from by
          refine ⟨fun n v hv => ih1 n v (hkeep n v hv), ?_, ?_⟩
          · intro p hp s' hs' hls'
            cases p with
            | zero =>
              simp only [List.getElem_cons_zero] at hs'
              rw [hs'] at hl'; rw [hl'] at hls'; cases hls'
            | succ p' =>
              simp only [List.getElem_cons_succ] at hs'
              rw [countE_take_succ]
              have := ih2 p' (by simpa using hp) s' hs' hls'
              rw [this, hstep]
              congr 1
              simp only [Int.natCast_add]
              omega
          · intro k k0 l hf p hp hk hnl hfirst
            cases p with
            | zero =>
              simp only [List.getElem_cons_zero] at hk
              subst hk
              simp only [List.take_zero, countE_nil, Int.natCast_zero, Int.mul_zero, Int.add_zero]
              exact ih1 l addr (hbound k0 l hf)
            | succ p' =>
              simp only [List.getElem_cons_succ] at hk hnl
              have hkne : k ≠ k1 := by
                intro e
                have := hfirst 0 (by omega)
                simp only [List.getElem_cons_zero] at this
                have := this e.symm
                rw [hl'] at this; cases this
              rw [countE_take_succ]
              have := ih3 k k0 l (by rw [hpend k hkne]; exact hf) p' (by simpa using hp) hk hnl (by
                intro q hq hqk
                have := hfirst (q + 1) (by omega)
                simp only [List.getElem_cons_succ] at this
                exact this hqk)
              rw [this, hstep]
              congr 1
              simp only [Int.natCast_add]
              omega)
      cases hf : pending.find? (fun p => p.1 == k1) with
      | none =>
        rw [hf] at h
        simp only at h
        exact tail pending ls h (fun _ _ hv => hv) (fun _ _ => rfl) (fun k0 l hx => by rw [hf] at hx; cases hx)
      | some q =>
        obtain ⟨k0, l⟩ := q
        rw [hf] at h
        simp only at h
        cases ha : addLabel ls l addr k1 line with
        | error x => rw [ha] at h; cases h
        | ok ls1 =>
          rw [ha] at h
          simp only at h
          obtain ⟨_, _, hself, hkeep⟩ := addLabel_ok ls ls1 l addr k1 line ha
          exact tail _ ls1 h hkeep (fun k hk => find_filter_ne pending k k1 (fun e => hk e.symm))
            (fun k0' l' hx => by rw [hf] at hx; cases hx; exact hself)

end ArchSim.Lemmas.C04
