/-
C02 (control half), part 4: facts about the individual stage functions.
-/
import ArchSim.Lemmas.C02Inv

namespace ArchSim.Pipe
open ArchSim ArchSim.Rv

/-! ### small helpers -/

@[simp] theorem latchStall_none : latchStall none = false := rfl
@[simp] theorem latchFlush_none : latchFlush none = none := rfl
@[simp] theorem latchExit_none : latchExit none = false := rfl
@[simp] theorem latchStall_some (x : Latch) : latchStall (some x) = x.stall := rfl
@[simp] theorem latchFlush_some (x : Latch) : latchFlush (some x) = x.flush := rfl
@[simp] theorem latchExit_some (x : Latch) : latchExit (some x) = x.exitCode.isSome := rfl
@[simp] theorem LatchOK_none : LatchOK none := by intro x h; cases h
@[simp] theorem WregOK_none : WregOK none := by intro x h; cases h
@[simp] theorem Unflagged_none : Unflagged none := by intro x h; cases h
@[simp] theorem RrOK_none : RrOK none := by intro x h; cases h
@[simp] theorem ExitIsEcall_none : ExitIsEcall none := by intro x h; cases h
@[simp] theorem setFlag_none : setFlag none = none := rfl
@[simp] theorem setFlag_some (x : Latch) : setFlag (some x) = some { x with flagged := true } := rfl
@[simp] theorem setFlag_eq_none (l : Option Latch) : setFlag l = none ↔ l = none := by
  cases l <;> simp
@[simp] theorem setFlag_isSome (l : Option Latch) : (setFlag l).isSome = l.isSome := by
  cases l <;> simp

theorem LatchOK_setFlag {l : Option Latch} (h : LatchOK l) : LatchOK (setFlag l) := by
  cases l with
  | none => simp
  | some x => intro y hy; simp at hy; subst hy; exact h x rfl

theorem RrOK_setFlag {l : Option Latch} (h : RrOK l) : RrOK (setFlag l) := by
  cases l with
  | none => simp
  | some x => intro y hy; simp at hy; subst hy; exact h x rfl

theorem WregOK_setFlag {l : Option Latch} (h : WregOK l) : WregOK (setFlag l) := by
  cases l with
  | none => simp
  | some x => intro y hy; simp at hy; subst hy; exact h x rfl

/-! ### ID -/

@[simp] theorem idStage_none (h : Bool) (r : Nat → Nat) (a b : Option Latch) : idStage h r none a b = none := rfl

theorem idStage_some (h : Bool) (r : Nat → Nat) (f : Latch) (a b : Option Latch) :
    idStage h r (some f) a b =
      some { instr := f.instr, addr := f.addr, pc4 := f.pc4, rr := accessRegs f.instr r,
             wreg := writeReg f.instr, stall := idStall h (accessRegs f.instr r) a b } := rfl

@[simp] theorem idStage_eq_none (h : Bool) (r : Nat → Nat) (inp a b : Option Latch) :
    idStage h r inp a b = none ↔ inp = none := by
  cases inp <;> simp [idStage_some]

@[simp] theorem idStage_isSome (h : Bool) (r : Nat → Nat) (inp a b : Option Latch) :
    (idStage h r inp a b).isSome = inp.isSome := by
  cases inp <;> simp [idStage_some]

@[simp] theorem idStage_flush (h : Bool) (r : Nat → Nat) (inp a b : Option Latch) :
    latchFlush (idStage h r inp a b) = none := by
  cases inp <;> simp [idStage_some]

theorem idStage_wregOK (h : Bool) (r : Nat → Nat) (inp a b : Option Latch) : WregOK (idStage h r inp a b) := by
  cases inp with
  | none => simp
  | some f => intro x hx; simp [idStage_some] at hx; subst hx; rfl

theorem idStage_unflagged (h : Bool) (r : Nat → Nat) (inp a b : Option Latch) : Unflagged (idStage h r inp a b) := by
  cases inp with
  | none => simp
  | some f => intro x hx; simp [idStage_some] at hx; subst hx; rfl

theorem idStage_rrOK (h : Bool) (r : Nat → Nat) (inp a b : Option Latch) : RrOK (idStage h r inp a b) := by
  cases inp with
  | none => simp
  | some f => intro x hx; simp [idStage_some] at hx; subst hx; exact ⟨r, rfl⟩

theorem idStage_latchOK (h : Bool) (r : Nat → Nat) {inp : Option Latch} (a b : Option Latch)
    (hi : LatchOK inp) : LatchOK (idStage h r inp a b) := by
  cases inp with
  | none => simp
  | some f => intro x hx; simp [idStage_some] at hx; subst hx; exact hi f rfl

end ArchSim.Pipe

namespace ArchSim.Pipe
open ArchSim ArchSim.Rv

/-! ### EX -/

/-- The EX output latch without exit code / flush / stall marks. -/
def exBase (d : Latch) (cmp : Option Bool) (result : Option Int) : Latch :=
  { instr := d.instr, addr := d.addr, pc4 := d.pc4, rr := d.rr, wreg := d.wreg,
    result := result, cmp := cmp, pcImm := d.rr.imm.map (· + d.addr) }

/-- What EX does for an ECALL that does not have to wait. -/
def ecallRun (s : St) (d : Latch) : ExOut :=
  match processEcall s with
  | (m, .out str) =>
    { st := { s with mem := m, output := s.output ++ str }, latch := some (exBase d none (some 0)), fault := none }
  | (m, .exit c) =>
    { st := { s with mem := m },
      latch := some { exBase d none (some 0) with exitCode := some c, flush := some d.pc4 }, fault := none }
  | (m, .err e) => { st := { s with mem := m }, latch := none, fault := some ⟨d.addr, d.instr, .mem e⟩ }
  | (m, .invalid c) =>
    { st := { s with mem := m }, latch := none, fault := some ⟨d.addr, d.instr, .ecallCode c⟩ }

@[simp] theorem exStage_none (s : St) (l2 l3 : Option Latch) :
    exStage s none l2 l3 = { st := s, latch := none, fault := none } := rfl

theorem aluCompute_ecall {i : Instr} (h : i.op = .ecall) (x y : Option Int) :
    aluCompute i x y = some (none, some 0) := by
  simp [aluCompute, h, Op.ty]

theorem exStage_nonecall (s : St) (d : Latch) (l2 l3 : Option Latch) (h : d.instr.op ≠ .ecall) :
    exStage s (some d) l2 l3 =
      match aluCompute d.instr (aluIn1 d) (aluIn2 d) with
      | none => { st := s, latch := none, fault := some ⟨d.addr, d.instr, .mem .policy⟩ }
      | some (c, r) => { st := s, latch := some (exBase d c r), fault := none } := by
  unfold exStage
  simp only []
  cases aluCompute d.instr (aluIn1 d) (aluIn2 d) with
  | none => rfl
  | some cr => obtain ⟨c, r⟩ := cr; simp [h, exBase]

theorem exStage_ecall_wait (s : St) (d : Latch) (l2 l3 : Option Latch) (h : d.instr.op = .ecall)
    (hw : ecallMustWait d l2 l3 = true) :
    exStage s (some d) l2 l3 =
      { st := s, latch := some { exBase d none (some 0) with stall := true }, fault := none } := by
  unfold exStage
  simp [aluCompute_ecall h, h, hw, exBase]

theorem exStage_ecall_go (s : St) (d : Latch) (l2 l3 : Option Latch) (h : d.instr.op = .ecall)
    (hw : ecallMustWait d l2 l3 = false) :
    exStage s (some d) l2 l3 = ecallRun s d := by
  unfold exStage ecallRun
  simp only [aluCompute_ecall h, h, hw]
  simp only [if_true, Bool.false_eq_true, if_false]
  split <;> simp_all [exBase]

end ArchSim.Pipe

namespace ArchSim.Pipe
open ArchSim ArchSim.Rv

/-- Everything the control proof needs about a non-faulting EX evaluation. -/
theorem exStage_facts (s : St) (d : Latch) (l2 l3 : Option Latch)
    (hf : (exStage s (some d) l2 l3).fault = none) :
    ∃ e, (exStage s (some d) l2 l3).latch = some e ∧ e.instr = d.instr ∧ e.wreg = d.wreg ∧
      e.addr = d.addr ∧ e.pc4 = d.pc4 ∧ e.flush.isSome = e.exitCode.isSome ∧
      (e.exitCode.isSome = true → d.instr.op = .ecall ∧ ecallMustWait d l2 l3 = false) ∧
      (e.stall = true ↔ d.instr.op = .ecall ∧ ecallMustWait d l2 l3 = true) := by
  by_cases h : d.instr.op = .ecall
  · cases hw : ecallMustWait d l2 l3
    · rw [exStage_ecall_go s d l2 l3 h hw] at hf ⊢
      unfold ecallRun at hf ⊢
      split <;> simp_all [exBase]
    · rw [exStage_ecall_wait s d l2 l3 h hw]
      simp [exBase, h]
  · rw [exStage_nonecall s d l2 l3 h] at hf ⊢
    cases hal : aluCompute d.instr (aluIn1 d) (aluIn2 d) with
    | none => simp [hal] at hf
    | some cr => obtain ⟨c, r⟩ := cr; simp [exBase, h]

theorem exStage_latch_isSome (s : St) (inp l2 l3 : Option Latch) (hf : (exStage s inp l2 l3).fault = none) :
    (exStage s inp l2 l3).latch.isSome = inp.isSome := by
  cases inp with
  | none => simp
  | some d => obtain ⟨e, he, _⟩ := exStage_facts s d l2 l3 hf; simp [he]

theorem exStage_latch_eq_none (s : St) (inp l2 l3 : Option Latch) (hf : (exStage s inp l2 l3).fault = none) :
    (exStage s inp l2 l3).latch = none ↔ inp = none := by
  have := exStage_latch_isSome s inp l2 l3 hf
  cases inp <;> cases h : (exStage s _ l2 l3).latch <;> simp_all

theorem exStage_wregOK (s : St) {inp : Option Latch} (l2 l3 : Option Latch) (hw : WregOK inp)
    (hf : (exStage s inp l2 l3).fault = none) : WregOK (exStage s inp l2 l3).latch := by
  cases inp with
  | none => simp
  | some d =>
    obtain ⟨e, he, hi, hwr, _⟩ := exStage_facts s d l2 l3 hf
    intro x hx; rw [he] at hx; cases hx; rw [hwr, hi]; exact hw d rfl

theorem exStage_exitIsEcall (s : St) (inp l2 l3 : Option Latch)
    (hf : (exStage s inp l2 l3).fault = none) : ExitIsEcall (exStage s inp l2 l3).latch := by
  cases inp with
  | none => simp
  | some d =>
    obtain ⟨e, he, hi, _, _, _, _, hx, _⟩ := exStage_facts s d l2 l3 hf
    intro x hx' hxe; rw [he] at hx'; cases hx'; rw [hi]; exact (hx hxe).1

end ArchSim.Pipe

namespace ArchSim.Pipe
open ArchSim ArchSim.Rv

/-! ### MEM and WB -/

@[simp] theorem memStage_none (s : St) : memStage s none = { st := s, latch := none, fault := none } := rfl

theorem memStage_facts (s : St) (e : Latch) (hf : (memStage s (some e)).fault = none) :
    ∃ m, (memStage s (some e)).latch = some m ∧ m.instr = e.instr ∧ m.wreg = e.wreg ∧ m.addr = e.addr ∧
      m.pc4 = e.pc4 ∧ m.exitCode = e.exitCode ∧ m.flush = memFlush e := by
  unfold memStage at hf ⊢
  simp only [] at hf ⊢
  split at hf
  · simp at hf
  · split at hf
    · simp at hf
    · simp_all

theorem memStage_latch_isSome (s : St) (inp : Option Latch) (hf : (memStage s inp).fault = none) :
    (memStage s inp).latch.isSome = inp.isSome := by
  cases inp with
  | none => simp
  | some e => obtain ⟨m, hm, _⟩ := memStage_facts s e hf; simp [hm]

theorem memStage_latch_eq_none (s : St) (inp : Option Latch) (hf : (memStage s inp).fault = none) :
    (memStage s inp).latch = none ↔ inp = none := by
  have := memStage_latch_isSome s inp hf
  cases inp <;> cases h : (memStage s _).latch <;> simp_all

theorem memFlush_exit (e : Latch) (h : e.instr.op = .ecall) (hx : e.exitCode.isSome = true) :
    memFlush e = some e.pc4 := by
  simp [memFlush, ctlOf, h, Op.ty, hx]

@[simp] theorem wbStage_none (s : St) : wbStage s none = (s, none) := rfl

theorem wbStage_flush (s : St) (m : Latch) :
    latchFlush (wbStage s (some m)).2 = if m.exitCode.isSome then some m.pc4 else none := rfl

theorem wbStage_flush_isSome (s : St) (l : Option Latch) :
    (latchFlush (wbStage s l).2).isSome = latchExit l := by
  cases l with
  | none => simp
  | some m => rw [wbStage_flush]; cases h : m.exitCode <;> simp [h]

end ArchSim.Pipe

namespace ArchSim.Pipe
open ArchSim ArchSim.Rv

/-! ### IF and the instruction memory -/

theorem ifStage_noinstr (s : St) (h : s.imem.instrAt s.pc = none) : ifStage s = (s, none) := by
  simp [ifStage, h]

theorem ifStage_instr (s : St) (i : Instr) (h : s.imem.instrAt s.pc = some i) (hs : FetchSound s.imem) :
    ifStage s =
      ({ s with imem := (s.imem.fetch s.pc).imem, cycles := s.cycles + (s.imem.fetch s.pc).extra, pc := s.pc + 4 },
       some { instr := i, addr := s.pc, pc4 := s.pc + 4 }) := by
  have := (hs s.pc i h).1
  simp [ifStage, h, this]

theorem ICoh.fetchSound {im : IMem} (h : ICoh im) : FetchSound im := h []

theorem ICoh.fetch {im : IMem} (h : ICoh im) (pc : Int) : ICoh (im.fetch pc).imem :=
  fun pcs => h (pc :: pcs)

theorem instrAt_congr {im im' : IMem} (h : im.prog = im'.prog) (pc : Int) : im.instrAt pc = im'.instrAt pc := by
  simp [IMem.instrAt, h]

theorem ProgOK_congr {im im' : IMem} (h : im.prog = im'.prog) (hp : ProgOK im) : ProgOK im' := by
  intro pc i hi; rw [← instrAt_congr h] at hi; exact hp pc i hi

@[simp] theorem wbStage_imem (s : St) (l : Option Latch) : (wbStage s l).1.imem = s.imem := by
  cases l with
  | none => rfl
  | some m => unfold wbStage; simp only []; split <;> rfl

@[simp] theorem wbStage_pc (s : St) (l : Option Latch) : (wbStage s l).1.pc = s.pc := by
  cases l with
  | none => rfl
  | some m => unfold wbStage; simp only []; split <;> rfl

@[simp] theorem memStage_imem (s : St) (l : Option Latch) : (memStage s l).st.imem = s.imem := by
  cases l with
  | none => rfl
  | some m => unfold memStage; simp only []; repeat' split <;> try rfl

@[simp] theorem memStage_pc (s : St) (l : Option Latch) : (memStage s l).st.pc = s.pc := by
  cases l with
  | none => rfl
  | some m => unfold memStage; simp only []; repeat' split <;> try rfl

end ArchSim.Pipe

namespace ArchSim.Pipe
open ArchSim ArchSim.Rv

@[simp] theorem ecallRun_imem (s : St) (d : Latch) : (ecallRun s d).st.imem = s.imem := by
  unfold ecallRun; split <;> rfl
@[simp] theorem ecallRun_pc (s : St) (d : Latch) : (ecallRun s d).st.pc = s.pc := by
  unfold ecallRun; split <;> rfl

/-- EX changes the architectural state only when it runs an ECALL service. -/
theorem exStage_st (s : St) (inp l2 l3 : Option Latch) :
    (exStage s inp l2 l3).st = s ∨
      ∃ d, inp = some d ∧ d.instr.op = .ecall ∧ ecallMustWait d l2 l3 = false ∧
        exStage s inp l2 l3 = ecallRun s d := by
  cases inp with
  | none => simp
  | some d =>
    by_cases h : d.instr.op = .ecall
    · cases hw : ecallMustWait d l2 l3
      · exact Or.inr ⟨d, rfl, h, hw, exStage_ecall_go s d l2 l3 h hw⟩
      · left; rw [exStage_ecall_wait s d l2 l3 h hw]
    · left; rw [exStage_nonecall s d l2 l3 h]; split <;> rfl

@[simp] theorem exStage_imem (s : St) (inp l2 l3 : Option Latch) : (exStage s inp l2 l3).st.imem = s.imem := by
  rcases exStage_st s inp l2 l3 with h | ⟨d, _, _, _, h⟩ <;> simp [h]

@[simp] theorem exStage_pc (s : St) (inp l2 l3 : Option Latch) : (exStage s inp l2 l3).st.pc = s.pc := by
  rcases exStage_st s inp l2 l3 with h | ⟨d, _, _, _, h⟩ <;> simp [h]

end ArchSim.Pipe
