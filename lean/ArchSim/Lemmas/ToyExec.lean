/-
Field-by-field description of one whole TOY instruction (`behavior`, then the second half-cycle)
for the refinement proof C06.
-/
import ArchSim.Lemmas.ToyMem
import ArchSim.Lemmas.ToyStep

namespace ArchSim.Toy
open ArchSim

/-- Accumulator result of `behavior`, on naturals. -/
def aluN (op a m : Nat) : Nat :=
  match op with
  | 1 => m
  | 3 => (a + m) % 65536
  | 4 => w16 ((a : Int) - m)
  | 5 => a ||| m
  | 6 => a &&& m
  | 7 => a ^^^ m
  | 8 => 65535 - a % 65536
  | 9 => (a + 1) % 65536
  | 10 => w16 ((a : Int) - 1)
  | 11 => 0
  | _ => a

/-- BRZ taken. -/
def takenN (op accu : Nat) : Bool := op == 2 && accu == 0

theorem behavior_accu (i : TInstr) (s : TSt) :
    (behavior i s).accu = aluN i.opcode s.accu (rd s i.addr) := by
  obtain ⟨op, a⟩ := i
  rcases op with _|_|_|_|_|_|_|_|_|_|_|_|_|n
  all_goals first | rfl | (simp only [behavior, aluN]; split <;> rfl)

theorem behavior_mem (i : TInstr) (s : TSt) :
    (behavior i s).mem = if i.opcode = 0 then wr s i.addr s.accu else s.mem := by
  obtain ⟨op, a⟩ := i
  rcases op with _|_|_|_|_|_|_|_|_|_|_|_|_|n
  all_goals first | rfl | (simp only [behavior]; split <;> rfl)

theorem behavior_pc (i : TInstr) (s : TSt) :
    (behavior i s).pc = if takenN i.opcode s.accu then i.addr else s.pc := by
  obtain ⟨op, a⟩ := i
  rcases op with _|_|_|_|_|_|_|_|_|_|_|_|_|n
  all_goals first | rfl | (simp only [behavior, takenN]; split <;> simp_all)

theorem behavior_branches (i : TInstr) (s : TSt) :
    (behavior i s).branches = s.branches + if takenN i.opcode s.accu then 1 else 0 := by
  obtain ⟨op, a⟩ := i
  rcases op with _|_|_|_|_|_|_|_|_|_|_|_|_|n
  all_goals first | rfl | (simp only [behavior, takenN]; split <;> simp_all)

theorem behavior_cycles (i : TInstr) (s : TSt) : (behavior i s).cycles = s.cycles := by
  obtain ⟨op, a⟩ := i
  rcases op with _|_|_|_|_|_|_|_|_|_|_|_|_|n
  all_goals first | rfl | (simp only [behavior]; split <;> rfl)

theorem behavior_instrs (i : TInstr) (s : TSt) : (behavior i s).instrs = s.instrs := by
  obtain ⟨op, a⟩ := i
  rcases op with _|_|_|_|_|_|_|_|_|_|_|_|_|n
  all_goals first | rfl | (simp only [behavior]; split <;> rfl)

theorem behavior_maxPc (i : TInstr) (s : TSt) : (behavior i s).maxPc = s.maxPc := by
  obtain ⟨op, a⟩ := i
  rcases op with _|_|_|_|_|_|_|_|_|_|_|_|_|n
  all_goals first | rfl | (simp only [behavior]; split <;> rfl)

/-- `rd` depends on the memory only. -/
def rdM (m : Mem.Mem) (a : Nat) : Nat :=
  match Mem.read m 16 (a : Int) with
  | some (.ok v) => v
  | _ => 0

theorem rd_eq_rdM (s : TSt) (a : Nat) : rd s a = rdM s.mem a := rfl

theorem rdM_toy (m : Mem.Mem) (hc : m.cfg = Mem.toyCfg) (a : Nat) (ha : a < 4096) :
    rdM m a = m.cells (a : Int) % 65536 := by
  simp [rdM, read_toy m hc a ha]

/-- `step()` at a boundary with an instruction loaded. -/
theorem stepT_some {t : TSim} {i : TInstr} (h1 : t.nextCycle = 1) (hl : t.s.loaded = some i) :
    stepT t = secondBody (firstBody t i) i := by
  have hl' : (firstBody t i).s.loaded = some i := by rw [firstBody_loaded, hl]
  simp [stepT, stepCall, firstCycle, secondCycle, h1, hl, hl']

/-- The address of the instruction executed next, after the first half of `i`. -/
def nextAddr (t : TSim) (i : TInstr) : Nat := if takenN i.opcode t.s.accu then i.addr else t.s.pc

/-- The memory after the first half of `i`. -/
def nextMem (t : TSim) (i : TInstr) : Mem.Mem := if i.opcode = 0 then wr t.s i.addr t.s.accu else t.s.mem

theorem step_accu (t : TSim) (i : TInstr) :
    (secondBody (firstBody t i) i).s.accu = aluN i.opcode t.s.accu (rd t.s i.addr) := by
  simp [secondBody, firstBody, behavior_accu]

theorem step_mem (t : TSim) (i : TInstr) : (secondBody (firstBody t i) i).s.mem = nextMem t i := by
  simp [secondBody, firstBody, behavior_mem, nextMem]

theorem step_pc (t : TSim) (i : TInstr) :
    (secondBody (firstBody t i) i).s.pc = (nextAddr t i + 1) % 4096 := by
  simp [secondBody, firstBody, behavior_pc, nextAddr]

theorem step_branches (t : TSim) (i : TInstr) :
    (secondBody (firstBody t i) i).s.branches
      = t.s.branches + if takenN i.opcode t.s.accu then 1 else 0 := by
  simp [secondBody, firstBody, behavior_branches]

theorem step_cycles (t : TSim) (i : TInstr) :
    (secondBody (firstBody t i) i).s.cycles = t.s.cycles + 2 := by
  simp [secondBody, firstBody, behavior_cycles]

theorem step_instrs (t : TSim) (i : TInstr) :
    (secondBody (firstBody t i) i).s.instrs = t.s.instrs + 1 := by
  simp [secondBody, firstBody, behavior_instrs]

theorem step_maxPc (t : TSim) (i : TInstr) :
    (secondBody (firstBody t i) i).s.maxPc = t.s.maxPc := by
  simp [secondBody, firstBody, behavior_maxPc]

theorem step_loaded (t : TSim) (i : TInstr) :
    (secondBody (firstBody t i) i).s.loaded =
      if ((nextAddr t i : Nat) : Int) ≤ t.s.maxPc.getD (-1)
      then some (decode (rdM (nextMem t i) (nextAddr t i))) else none := by
  simp only [secondBody, firstBody, behavior_maxPc, behavior_pc, rd_eq_rdM, behavior_mem]
  cases hm : t.s.maxPc with
  | none =>
    have : ¬ ((nextAddr t i : Nat) : Int) ≤ -1 := by omega
    simp [this]
  | some mp => simp only [nextAddr, nextMem, Option.getD_some]; rfl

end ArchSim.Toy
