/-
C04 (spelling independence), part 26: a finding. pyparsing needs no blank between the mnemonic and the first
operand, so `addra, x1, x2` is `add ra, x1, x2`; in upper case the glued register name is rejected.
-/
import ArchSim.Lemmas.C04SpellBreak

namespace ArchSim.Lemmas.C04Spell
open ArchSim ArchSim.PP ArchSim.Rv ArchSim.Asm ArchSim.Lemmas.C14

theorem addra_low : ∀ c ∈ "addra".toList, isLow c = true := by decide

theorem mnSep_comma (r : List Char) : MnSep (',' :: r) := by
  intro c hc
  simp only [List.head?_cons, Option.mem_def, Option.some.injEq] at hc
  subst hc; decide

theorem stage_addra (w' : List Char) (hv : CaseVar w' "addra".toList) (r : List Char) :
    oneOfCaseless rrrMn (w' ++ ',' :: r) = .ok "add" (w'.drop 3 ++ ',' :: r) := by
  rw [oneOfCaseless_var rrrMn w' "addra".toList (',' :: r) low_rrr hv (by decide) (mnSep_comma r),
    find_of_isBest rrrMn "addra".toList "add" (by decide)]
  rfl

/-- upper case: the R-type alternative fails on the glued register name -/
theorem pRType_ADDRA : pRType "ADDRA, x1, x2".toList = .fail := by
  have hv : CaseVar "ADDRA".toList "addra".toList := ⟨by decide, addra_low⟩
  have h := stage_addra "ADDRA".toList hv " x1, x2".toList
  have e : "ADDRA, x1, x2".toList = "ADDRA".toList ++ ',' :: " x1, x2".toList := by decide
  have hr : pReg (("ADDRA".toList).drop 3 ++ ',' :: " x1, x2".toList) = .fail :=
    pReg_fail_upper 'R' _ (by decide) (by decide)
  rw [e]
  simp only [pRType, h, bind_ok, hr, bind_fail]

/-- lower case: the same line is `add ra, x1, x2` -/
theorem pRType_addra : pRType "addra, x1, x2".toList = .ok (.rtype "add" 1 1 2) [] := by
  have hv : CaseVar "addra".toList "addra".toList := CaseVar.refl addra_low
  have h := stage_addra "addra".toList hv " x1, x2".toList
  have e : "addra, x1, x2".toList = "addra".toList ++ ',' :: " x1, x2".toList := by decide
  have e2 : ("addra".toList).drop 3 ++ ',' :: " x1, x2".toList
      = tReg [] .abi 1 (tSep [] ',' (tReg [' '] .x 1 (tSep [] ',' (tReg [' '] .x 2 [])))) := by decide
  have hsp : AllWs [' '] := by intro c hc; simp at hc; subst hc; decide
  rw [e]
  simp only [pRType, h, bind_ok, e2,
    pReg_tReg [] .abi 1 _ allWs_nil (by decide) (tokEnd_tSep [] ',' _ allWs_nil comma_nlb),
    pComma_tSep [] _ allWs_nil,
    pReg_tReg [' '] .x 1 _ hsp (by decide) (tokEnd_tSep [] ',' _ allWs_nil comma_nlb),
    pReg_tReg [' '] .x 2 _ hsp (by decide) tokEnd_nil, map_ok]

end ArchSim.Lemmas.C04Spell
