/-
C04 (spelling independence, part 2), variable operands 2: `pReg` applied to a label either fails or consumes a
non-empty prefix OF THE LABEL (an ABI name, or `x` and a register number) and leaves the rest of the label.
-/
import ArchSim.Lemmas.C04SpellVar

namespace ArchSim.Lemmas.C04Spell
open ArchSim ArchSim.PP ArchSim.Rv ArchSim.Asm ArchSim.Lemmas.C14

theorem mem_longestFirst {syms : List String} {s : String} (h : s ∈ longestFirst syms) : s ∈ syms := by
  simpa [longestFirst] using h

theorem labelBody_not_ws (c : Char) (h : isLabelBody c = true) : isWs c = false := by
  cases hw : isWs c with
  | false => rfl
  | true => rw [isWs_not_labelBody c hw] at h; cases h

theorem regNumbers_ne : ∀ t ∈ regNumbers, t.toList ≠ [] := by decide

/-- `oneOf syms` on `word ++ rest0` when the symbols consist of label characters and `rest0` does not start
    with one: failure, or a symbol that is a prefix of the word. -/
theorem oneOf_word_left (syms : List String) (hs : ∀ s ∈ syms, s.toList ≠ [] ∧ ∀ c ∈ s.toList, isLabelBody c = true)
    (wd rest0 : List Char) (hnw : ∀ c ∈ wd.head?, isWs c = false) (hne : wd ≠ []) (ht : TokEnd rest0) :
    oneOf syms (wd ++ rest0) = .fail ∨
      ∃ s k, 0 < k ∧ k ≤ wd.length ∧ oneOf syms (wd ++ rest0) = .ok s (wd.drop k ++ rest0) := by
  have hskip : skipWs (wd ++ rest0) = wd ++ rest0 := by
    cases wd with
    | nil => exact absurd rfl hne
    | cons c cs => exact skipWs_cons_of_not_ws c _ (hnw c (by simp))
  unfold oneOf
  simp only [hskip, oneOf_go_eq]
  cases hf : (longestFirst syms).find? (fun s => s.toList.isPrefixOf (wd ++ rest0)) with
  | none => left; rfl
  | some s =>
    right
    have hp : s.toList.isPrefixOf (wd ++ rest0) = true := by
      have := List.find?_some hf; simpa using this
    have hm := hs s (mem_longestFirst (List.mem_of_find?_eq_some hf))
    rw [isPrefixOf_append_class isLabelBody _ _ _ hm.2 ht] at hp
    have hle : s.toList.length ≤ wd.length := (List.isPrefixOf_iff_prefix.mp hp).length_le
    refine ⟨s, s.toList.length, List.length_pos_iff.mpr hm.1, hle, ?_⟩
    simp only [List.drop_append_of_le_length hle]

theorem abi_syms_facts : ∀ s ∈ abiNames.map (·.1), s.toList ≠ [] ∧ ∀ c ∈ s.toList, isLabelBody c = true := by
  decide

theorem regNumbers_facts : ∀ s ∈ regNumbers, s.toList ≠ [] ∧ ∀ c ∈ s.toList, isLabelBody c = true := by
  decide

theorem oneOf_regNumbers_fail (rest0 : List Char) (hd : ∀ c ∈ (skipWs rest0).head?, isNum c = false) :
    oneOf regNumbers rest0 = .fail := by
  unfold oneOf
  simp only [oneOf_go_eq]
  rw [find_longestFirst_none]
  intro t ht
  have hne := regNumbers_ne t ht
  have hnum := regNumbers_isNum t ht
  cases htl : t.toList with
  | nil => exact absurd htl hne
  | cons d ds =>
    have hdn : isNum d = true := hnum d (by rw [htl]; simp)
    cases hs : skipWs rest0 with
    | nil => rfl
    | cons e r =>
      have hen : isNum e = false := hd e (by rw [hs]; simp)
      have : d ≠ e := by rintro rfl; rw [hdn] at hen; cases hen
      simp [List.isPrefixOf_cons_cons, this]

/-- What `pReg` makes of a label followed by `rest0` (no label character, and no digit after blanks): it fails,
    or it reads a register name that is a non-empty PREFIX of the label and leaves the rest of the label. -/
theorem pReg_label_left (name rest0 : List Char) (hl : IsLabel name) (ht : TokEnd rest0)
    (hd : ∀ c ∈ (skipWs rest0).head?, isNum c = false) :
    pReg (name ++ rest0) = .fail ∨
      ∃ n k, 0 < k ∧ k ≤ name.length ∧ pReg (name ++ rest0) = .ok n (name.drop k ++ rest0) := by
  obtain ⟨c, cs, rfl, hc, hcs⟩ := hl
  have hcw := (labelInit_facts c hc).1
  rcases oneOf_word_left (abiNames.map (·.1)) abi_syms_facts (c :: cs) rest0
      (by intro d hd'; simp at hd'; subst hd'; exact hcw) (by simp) ht with h | ⟨s, k, hk0, hk1, h⟩
  · by_cases hx : c = 'x'
    · subst hx
      have hlit : lit "x" ('x' :: cs ++ rest0) = .ok () (cs ++ rest0) := by
        simp [lit, skipWs_cons_of_not_ws 'x' _ (by decide), stripPrefix]
      cases cs with
      | nil =>
        left
        simp only [pReg, h, hlit, bind_ok, List.nil_append, oneOf_regNumbers_fail rest0 hd, map_fail]
      | cons d ds =>
        have hdw : isWs d = false := labelBody_not_ws d (hcs d (by simp))
        rcases oneOf_word_left regNumbers regNumbers_facts (d :: ds) rest0
            (by intro e he; simp at he; subst he; exact hdw) (by simp) ht with h2 | ⟨t, j, hj0, hj1, h2⟩
        · left; simp only [pReg, h, hlit, bind_ok, h2, map_fail]
        · right
          refine ⟨t.toNat!, j + 1, by omega, by simp only [List.length_cons] at hj1 ⊢; omega, ?_⟩
          simp only [pReg, h, hlit, bind_ok, h2, map_ok, List.drop_succ_cons]
    · left
      have hlit : lit "x" (c :: cs ++ rest0) = .fail := by
        simp [lit, skipWs_cons_of_not_ws c _ hcw, stripPrefix, Ne.symm hx]
      simp only [pReg, h, hlit, bind_fail]
  · right
    exact ⟨((abiNames.find? (fun p => p.1 == s)).map (·.2)).getD 0, k, hk0, hk1, by simp only [pReg, h]⟩

theorem pComma_fail_head (c : Char) (r : Inp) (hw : isWs c = false) (hc : c ≠ ',') : pComma (c :: r) = .fail := by
  simp [pComma, lit, skipWs_cons_of_not_ws c r hw, stripPrefix, Ne.symm hc]

theorem isLabel_chars {name : List Char} (hl : IsLabel name) : ∀ c ∈ name, isLabelBody c = true := by
  obtain ⟨c, cs, rfl, hc, hcs⟩ := hl
  intro d hd
  rcases List.mem_cons.mp hd with rfl | h
  · exact labelInit_body _ hc
  · exact hcs d h

/-- An alternative that wants `register , …` where the line has a variable name: whatever part of the name
    `pReg` reads as a register, the alternative fails — because no comma follows inside the name, and because
    of `hk0` when the whole name is a register name. -/
theorem reg_on_label_fail {α : Type} (w name rest0 : List Char) (hw : AllWs w) (hl : IsLabel name)
    (ht : TokEnd rest0) (hd : ∀ c ∈ (skipWs rest0).head?, isNum c = false) (k : Nat → Inp → R α)
    (hk : ∀ n r, pComma r = .fail → k n r = .fail) (hk0 : ∀ n, k n rest0 = .fail) :
    (pReg (w ++ (name ++ rest0))).bind k = .fail := by
  rw [pReg_ws w _ hw]
  rcases pReg_label_left name rest0 hl ht hd with h | ⟨n, j, hj0, hj1, h⟩
  · rw [h]; rfl
  · rw [h, bind_ok]
    by_cases hlt : j < name.length
    · cases hdr : name.drop j with
      | nil =>
        have := congrArg List.length hdr
        simp at this; omega
      | cons e r =>
        have he : isLabelBody e = true :=
          isLabel_chars hl e (List.mem_of_mem_drop (by rw [hdr]; simp))
        apply hk
        exact pComma_fail_head e _ (labelBody_not_ws e he) (by rintro rfl; exact absurd he (by decide))
    · have : name.drop j = [] := List.drop_eq_nil_of_le (by omega)
      rw [this, List.nil_append]
      exact hk0 n

end ArchSim.Lemmas.C04Spell
