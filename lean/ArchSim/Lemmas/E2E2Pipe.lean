/-
End-to-end layer, part 2 (helper lemmas): structural facts about one `Pipe.step` and about runs that need no
invariant — what happens to the instruction memory and to a flat data memory — and the bridges between the three
ways the property files iterate the pipeline (`Pipe.pipeRun`, `iter stepP`, `C15.pipeRun`).
-/
import ArchSim.Lemmas.C07Flat
import ArchSim.Lemmas.C07Finish
import ArchSim.Lemmas.C07LineStep
import ArchSim.Lemmas.C15Pipe
import ArchSim.Spec.PipeSeq
import ArchSim.Lemmas.C07SkelStep

namespace ArchSim.Lemmas.E2E2
open ArchSim ArchSim.Rv ArchSim.Pipe ArchSim.Lemmas.C07 ArchSim.Lemmas.C02Split

/-! ### the three run iterators coincide -/

theorem pipeRun_eq_iter (n : Nat) (p : PSt) : pipeRun n p = iter stepP n p := by
  induction n with
  | zero => rfl
  | succ n ih => rw [iter_succ', ← ih]; rfl

theorem pipeRun15_eq (n : Nat) (p : PSt) : ArchSim.Lemmas.C15.pipeRun n p = pipeRun n p := by
  rw [pipeRun_eq_iter]
  induction n generalizing p with
  | zero => rfl
  | succ n ih => rw [ArchSim.Lemmas.C15.pipeRun, ih, iter_succ]; rfl

/-! ### the instruction memory after a step is the one IF left -/

theorem wbStage_imem (s : St) (l : Option Latch) : (wbStage s l).1.imem = s.imem := by
  unfold wbStage
  split
  · rfl
  · simp only; split <;> rfl

theorem exStage_imem (s : St) (inp l2 l3 : Option Latch) : (exStage s inp l2 l3).st.imem = s.imem := by
  unfold exStage
  repeat' split
  all_goals rfl

theorem memStage_imem (s : St) (inp : Option Latch) : (memStage s inp).st.imem = s.imem := by
  unfold memStage
  repeat' split
  all_goals first
    | rfl
    | (simp only; repeat' split
       all_goals rfl)

theorem step_imem (p : PSt) : (step p).p.st.imem = (sIF p).imem := by
  have h1 : (exO p).st.imem = (sIF p).imem := by
    unfold exO; rw [exStage_imem]; unfold sWB; rw [wbStage_imem]
  have h2 : (meO p).st.imem = (sIF p).imem := by
    unfold meO; rw [memStage_imem, h1]
  rw [C07.step_eq]
  split
  · exact h1
  · split
    · exact h2
    · show (finishStep p (meO p).st (nIF p) (nID p) (exO p).latch (meO p).latch (nWB p)).st.imem = _
      rw [(finishStep_frame p _ _ _ _ _ _).2.2.2.1, h2]

/-! ### without an instruction cache the instruction memory never changes -/

theorem fetch_imem_nocache (im : IMem) (pc : Int) (h : im.cache = none) : (im.fetch pc).imem = im := by
  unfold IMem.fetch
  simp only [h]
  repeat' split
  all_goals rfl

theorem ifStage_imem_nocache (s : St) (h : s.imem.cache = none) : (ifStage s).1.imem = s.imem := by
  unfold ifStage
  split
  · rfl
  · simp only
    split <;> exact fetch_imem_nocache _ _ h

theorem sIF_imem_nocache (p : PSt) (h : p.st.imem.cache = none) : (sIF p).imem = p.st.imem := by
  unfold sIF
  split
  · exact ifStage_imem_nocache (tick p.st) h
  · rfl

theorem step_imem_nocache (p : PSt) (h : p.st.imem.cache = none) : (step p).p.st.imem = p.st.imem := by
  rw [step_imem, sIF_imem_nocache p h]

theorem pipeRun_imem_nocache (n : Nat) (p : PSt) (h : p.st.imem.cache = none) :
    (pipeRun n p).st.imem = p.st.imem := by
  induction n with
  | zero => rfl
  | succ n ih => show (step (pipeRun n p)).p.st.imem = _; rw [step_imem_nocache _ (by rw [ih]; exact h), ih]

/-! ### a flat data memory stays flat -/

/-- the memory system is a flat memory (no data cache) -/
def IsFlat (ms : MemSys) : Prop := ∃ m, ms = .flat m

theorem write_flat_isFlat (m : Mem.Mem) (bits : Nat) (a : Int) (v : Nat) (d : Bool) :
    IsFlat ((MemSys.flat m).write bits a v d).mem := by
  simp only [MemSys.write]
  cases Mem.write m bits a v with
  | none => exact ⟨m, rfl⟩
  | some r => obtain ⟨m', e⟩ := r; cases e <;> exact ⟨m', rfl⟩

theorem memoryAccess_isFlat (i : Instr) (a w : Option Int) (m : Mem.Mem) (c : Bool) (o : MaOut)
    (h : memoryAccess i a w (.flat m) c = some o) : IsFlat o.mem := by
  unfold memoryAccess at h
  split at h
  · split at h
    · cases h
    · cases h; simp only [read_flat_mem]; exact ⟨m, rfl⟩
  · split at h
    · cases h; exact write_flat_isFlat ..
    · cases h; exact ⟨m, rfl⟩
  · cases h; exact ⟨m, rfl⟩

theorem memStage_isFlat (s : St) (inp : Option Latch) (h : IsFlat s.mem) : IsFlat (memStage s inp).st.mem := by
  obtain ⟨m, hm⟩ := h
  unfold memStage
  split
  · exact ⟨m, hm⟩
  · rename_i e
    split
    · exact ⟨m, hm⟩
    · rename_i o ho
      rw [hm] at ho
      have hf := memoryAccess_isFlat _ _ _ _ _ _ ho
      simp only
      repeat' split
      all_goals exact hf

theorem step_isFlat (p : PSt) (h : IsFlat p.st.mem) : IsFlat (step p).p.st.mem := by
  obtain ⟨m, hm⟩ := h
  have h1 : IsFlat (exO p).st.mem := ⟨m, exO_flat p m hm⟩
  have h2 : IsFlat (meO p).st.mem := memStage_isFlat _ _ h1
  rw [C07.step_eq]
  split
  · exact h1
  · split
    · exact h2
    · show IsFlat (finishStep p (meO p).st (nIF p) (nID p) (exO p).latch (meO p).latch (nWB p)).st.mem
      rw [(finishStep_frame p _ _ _ _ _ _).2.2.1]; exact h2

theorem pipeRun_isFlat (n : Nat) (p : PSt) (h : IsFlat p.st.mem) : IsFlat (pipeRun n p).st.mem := by
  induction n with
  | zero => exact h
  | succ n ih => exact step_isFlat _ ih

/-! ### the program never changes (instruction cache or not) -/

theorem sIF_eq_ifOut (p : PSt) : sIF p = (ArchSim.Lemmas.C15.ifOut p).1 := by
  unfold sIF ArchSim.Lemmas.C15.ifOut tick
  cases p.stalled <;> rfl

theorem step_prog (p : PSt) (h : ArchSim.Lemmas.C15.PipeOK p) : (step p).p.st.imem.prog = p.st.imem.prog := by
  rw [step_imem, sIF_eq_ifOut]
  exact (ArchSim.Lemmas.C15.ifOut_ok h).1

theorem pipeRun_ok (n : Nat) (p : PSt) (h : ArchSim.Lemmas.C15.PipeOK p) :
    ArchSim.Lemmas.C15.PipeOK (pipeRun n p) := by
  rw [← pipeRun15_eq]; exact ArchSim.Lemmas.C15.pipeRun_ok h n

theorem pipeRun_prog (n : Nat) (p : PSt) (h : ArchSim.Lemmas.C15.PipeOK p) :
    (pipeRun n p).st.imem.prog = p.st.imem.prog := by
  induction n with
  | zero => rfl
  | succ n ih => show (step (pipeRun n p)).p.st.imem.prog = _; rw [step_prog _ (pipeRun_ok n p h), ih]

/-! ### cycle counter along a run -/

/-- Sum of the fetch and data-access penalties of the first `n` cycles from `p`. -/
def penaltySum : Nat → PSt → Nat
  | 0, _ => 0
  | n + 1, p => penaltySum n p + fetchExtra (pipeRun n p) + memExtra (pipeRun n p)

theorem pipeRun_cycles (n : Nat) (p : PSt) (h : runOK n p) :
    (pipeRun n p).st.cycles = p.st.cycles + n + penaltySum n p := by
  induction n with
  | zero => rfl
  | succ n ih =>
    show (step (pipeRun n p)).p.st.cycles = _
    rw [step_cycles_ok _ (h n (Nat.lt_succ_self n)), ih (fun m hm => h m (Nat.lt_succ_of_lt hm)), penaltySum]
    omega

theorem step_cycles_plain (p : PSt) (hm : IsFlat p.st.mem) (hc : p.st.imem.cache = none) :
    (step p).p.st.cycles = p.st.cycles + 1 := by
  obtain ⟨m, hm⟩ := hm
  rw [step_cycles, fetchExtra_none p hc]
  unfold memExtraRun; rw [memExtra_flat p m hm]; simp

theorem pipeRun_cycles_plain (n : Nat) (p : PSt) (hm : IsFlat p.st.mem) (hc : p.st.imem.cache = none) :
    (pipeRun n p).st.cycles = p.st.cycles + n := by
  induction n with
  | zero => rfl
  | succ n ih =>
    show (step (pipeRun n p)).p.st.cycles = _
    rw [step_cycles_plain _ (pipeRun_isFlat n p hm) (by rw [pipeRun_imem_nocache n p hc]; exact hc), ih]
    omega

/-! ### the fetch outcome of the schedule skeleton is the stored instruction -/

theorem ifStage_fetched (s : St) (h : ArchSim.Lemmas.C15.ImemOK s.imem) :
    (ifStage s).2.map (·.instr) = s.imem.instrAt s.pc := by
  unfold ifStage
  cases hi : s.imem.instrAt s.pc with
  | none => rfl
  | some i =>
    simp only [(h.fetch s.pc).2.2 i hi]
    rfl

/-- Under the latch invariant of C15 (instruction memory as the loader leaves it) the two fetch outcomes fed to
    the schedule skeleton are functions of the stored program and the pc. -/
theorem outcomes_fetch (p : PSt) (h : ArchSim.Lemmas.C15.PipeOK p) :
    (outcomes p).fetched = p.st.imem.instrAt p.st.pc ∧
    (outcomes p).hasInstr = (p.st.imem.instrAt p.st.pc).isSome :=
  ⟨ifStage_fetched (tick p.st) h.imem, rfl⟩

theorem instrAt_prog {im im' : IMem} (h : im'.prog = im.prog) (a : Int) : im'.instrAt a = im.instrAt a :=
  ArchSim.Lemmas.C15.instrAt_congr h a

/-- An instruction found by `instrAt` is a member of the program, at word index `a / 4`. -/
theorem instrAt_mem {im : IMem} {a : Int} {i : Instr} (h : im.instrAt a = some i) :
    0 ≤ a ∧ a % 4 = 0 ∧ (a / 4).toNat < im.prog.length ∧ im.prog[(a / 4).toNat]? = some i ∧ i ∈ im.prog := by
  unfold IMem.instrAt at h
  split at h
  · rename_i hc
    obtain ⟨hl, rfl⟩ := List.getElem?_eq_some_iff.1 h
    exact ⟨hc.1, hc.2, hl, h, List.getElem_mem hl⟩
  · cases h

end ArchSim.Lemmas.E2E2
