/-
C01 helper lemmas, part 5: digit strings and the print-string loop of the ecall service.
-/
import ArchSim.Lemmas.C01Store
namespace ArchSim.Lemmas.C01
open ArchSim ArchSim.Rv ArchSim.Spec.RvSpec ArchSim.Mem ArchSim.Cache

theorem toDigitsRev_reverse (b : Nat) (hb : b ≥ 2) (f : Char → Char)
    (hf : ∀ d, d < b → f (Nat.digitChar d) = hexDigit d) (n : Nat) :
    (toDigitsRev b hb n).reverse = (Nat.toDigits b n).map f := by
  induction n using Nat.strongRecOn with
  | _ n ih =>
    rw [toDigitsRev, Nat.toDigits_eq_if (by omega)]
    by_cases h : n < b
    · simp only [h, dif_pos, if_true, List.reverse_cons, List.reverse_nil, List.nil_append, List.map_cons,
        List.map_nil, hf n h]
    · simp only [h, dif_neg, if_false, List.reverse_cons, List.map_append, List.map_cons, List.map_nil,
        not_false_eq_true]
      rw [ih (n / b) (Nat.div_lt_self (by omega) (by omega)), hf _ (Nat.mod_lt _ (by omega))]

theorem natToBase10 (n : Nat) : natToBase 10 (by decide) n = toString n := by
  rw [natToBase, toDigitsRev_reverse 10 _ id (by decide) n, List.map_id, Nat.toString_eq_ofList_toDigits]

theorem natToBase2 (n : Nat) : natToBase 2 (by decide) n = binary n := by
  rw [natToBase, toDigitsRev_reverse 2 _ id (by decide) n, List.map_id, binary]

theorem natToBase16 (n : Nat) : natToBase 16 (by decide) n = upperHex n := by
  rw [natToBase, toDigitsRev_reverse 16 _ Char.toUpper (by decide) n, upperHex]

theorem intToDec_eq (x : Int) : intToDec x = toString x := by
  cases x with
  | ofNat m =>
    simp only [intToDec, Int.ofNat_eq_natCast, Int.natAbs_natCast, natToBase10]
    rw [if_neg (by omega)]
    rfl
  | negSucc m =>
    simp only [intToDec, natToBase10]
    rw [if_pos (by omega)]
    rfl


/-! ### print string -/

/-- What `read_byte(a)` returns on the flat memory. -/
def byteRes (m : Mem) (a : Nat) : Except Err Nat :=
  if 16384 ≤ a % 4294967296 then .ok (m.cells ((a % 4294967296 : Nat) : Int) % 256)
  else .error (.addr ((a % 4294967296 : Nat) : Int))

theorem read8_flat (m : Mem) (hc : m.cfg = riscvCfg) (a : Nat) (c : Bool) :
    (MemSys.flat m).read 8 (a : Int) c = { mem := .flat m, extra := 0, res := byteRes m a } := by
  rw [read_flat m hc 8 (by omega)]
  simp only [rdCells, cellRes, Nat.reduceDiv, byteRes]
  have e : ((a : Int) + ((0 : Nat) : Int)) % 4294967296 = ((a % 4294967296 : Nat) : Int) := by omega
  rw [e]
  by_cases h : 16384 ≤ a % 4294967296
  · have h' : (16384 : Int) ≤ ((a % 4294967296 : Nat) : Int) := by omega
    simp only [h, h', if_true, Except.map]
    congr 2
    omega
  · have h' : ¬ (16384 : Int) ≤ ((a % 4294967296 : Nat) : Int) := by omega
    simp only [h, h', if_false, Except.map]

def αStr : Except Err (List Char) → Except SpecFault (List Char)
  | .ok cs => .ok cs
  | .error (.addr a) => .error (.access (BitVec.ofInt 32 a))
  | .error _ => .error .unsupported

def prepend (l : List Char) : Except SpecFault (List Char) → Except SpecFault (List Char)
  | .ok cs => .ok (l ++ cs)
  | .error f => .error f

theorem printStrLoop_succ_flat (m : Mem) (hc : m.cfg = riscvCfg) (fuel a : Nat) (acc : List Char) :
    printStrLoop (fuel + 1) (.flat m) (a : Int) acc =
      match byteRes m a with
      | .error e => (.flat m, .error e)
      | .ok b =>
        if b = 0 then (.flat m, .ok acc.reverse)
        else printStrLoop fuel (.flat m) ((a : Int) + 1) (Char.ofNat (b % 128) :: acc) := by
  rw [printStrLoop]
  simp only [read8_flat m hc]
  cases byteRes m a <;> rfl

theorem printStrLoop_flat (m : Mem) (hc : m.cfg = riscvCfg) :
    ∀ (fuel a : Nat) (acc : List Char), a ≤ 4294967296 → 4294967296 - a < fuel →
      (printStrLoop fuel (.flat m) (a : Int) acc).1 = .flat m ∧
      αStr (printStrLoop fuel (.flat m) (a : Int) acc).2 =
        prepend acc.reverse (readStr (αMem (.flat m)) a) ∧
      (∀ e, (printStrLoop fuel (.flat m) (a : Int) acc).2 = .error e → ∃ x, e = .addr x) := by
  intro fuel
  induction fuel with
  | zero => intro a acc _ h; omega
  | succ fuel ih =>
    intro a acc ha hf
    rw [printStrLoop_succ_flat m hc, readStr]
    by_cases hbad : a < dataBase ∨ 4294967296 ≤ a
    · have hbr : byteRes m a = .error (.addr ((a % 4294967296 : Nat) : Int)) := by
        simp only [byteRes]; rw [if_neg (by simp only [dataBase] at hbad; omega)]
      rw [dif_pos hbad, hbr]
      refine ⟨rfl, ?_, fun e he => ⟨_, (Except.error.inj he).symm⟩⟩
      simp only [αStr, prepend]
      congr 2
      apply BitVec.eq_of_toNat_eq
      simp only [BitVec.toNat_ofInt, BitVec.toNat_ofNat]; omega
    · have hlt : a % 4294967296 = a := by simp only [dataBase] at hbad; omega
      have hbr : byteRes m a = .ok (m.cells (a : Int) % 256) := by
        simp only [byteRes, hlt]; rw [if_pos (by simp only [dataBase] at hbad; omega)]
      have hb : (αMem (.flat m) (BitVec.ofNat 32 a)) = BitVec.ofNat 8 (m.cells (a : Int)) := by
        simp only [αMem_flat, BitVec.toNat_ofNat]
        rw [show a % 2 ^ 32 = a by omega]
      have hz : (BitVec.ofNat 8 (m.cells (a : Int)) = 0) ↔ (m.cells (a : Int) % 256 = 0) := by
        constructor
        · intro h; have := congrArg BitVec.toNat h; simpa using this
        · intro h; apply BitVec.eq_of_toNat_eq; simpa using h
      rw [dif_neg hbad, hbr]
      simp only [hb]
      by_cases hzero : m.cells (a : Int) % 256 = 0
      · rw [if_pos hzero, if_pos (hz.mpr hzero)]
        refine ⟨rfl, ?_, fun e he => by cases he⟩
        simp only [αStr, prepend, List.append_nil]
      · rw [if_neg hzero, if_neg (fun h => hzero (hz.mp h))]
        have hlt2 : a < 4294967296 := by omega
        obtain ⟨i1, i2, i3⟩ := ih (a + 1) (Char.ofNat (m.cells (a : Int) % 256 % 128) :: acc)
          (by omega) (by omega)
        rw [show ((a : Int) + 1) = ((a + 1 : Nat) : Int) by omega]
        refine ⟨i1, ?_, i3⟩
        rw [i2]
        simp only [BitVec.toNat_ofNat, Nat.reducePow]
        cases readStr (αMem (.flat m)) (a + 1) with
        | error f => rfl
        | ok cs => simp only [prepend, List.reverse_cons, List.append_assoc, List.singleton_append]


/-! ### the ecall table -/

/-- Abstraction of the result of `process_ecall`. -/
def αSvc : EcallRes → Except SpecFault Service
  | .out t => .ok (.print t)
  | .exit c => .ok (.exit c)
  | .err (.addr a) => .error (.access (BitVec.ofInt 32 a))
  | .err _ => .error .unsupported
  | .invalid c => .error (.ecall (W c))

theorem printStr_flat (s : St) (m : Mem) (hm : s.mem = .flat m) (hc : m.cfg = riscvCfg)
    (hr : s.regs 10 < 4294967296) :
    (printStrLoop printStrFuel s.mem (s.regs 10 : Int) []).1 = s.mem ∧
    αStr (printStrLoop printStrFuel s.mem (s.regs 10 : Int) []).2 = readStr (α s).mem (s.regs 10) ∧
    (∀ e, (printStrLoop printStrFuel s.mem (s.regs 10 : Int) []).2 = .error e → ∃ x, e = .addr x) := by
  obtain ⟨h1, h2, h3⟩ := printStrLoop_flat m hc printStrFuel (s.regs 10) [] (by omega)
    (by simp only [printStrFuel]; omega)
  rw [hm]
  refine ⟨h1, ?_, h3⟩
  rw [h2]
  simp only [α, hm]
  cases readStr (αMem (.flat m)) (s.regs 10) <;> rfl

end ArchSim.Lemmas.C01
