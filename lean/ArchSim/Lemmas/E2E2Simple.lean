/-
End-to-end layer, part 2 (source-level padding, step 1): SIMPLE lines. A line is simple when it is tokenized without
label into an item that expands to exactly ONE entry whose instruction object depends neither on its address nor on
the label table: R / I / shift / U instructions, loads, stores and branches with NUMERIC operands, CSR forms, `fence`,
`ecall`, `ebreak`, and the one-instruction pseudo-instructions `nop`, `mv`, `li` with a 12-bit constant. Not simple:
anything with a label operand or an absolute `jal` target (address dependent), `li` with a large constant and the
variable pseudo-instructions (several instructions), declarations, directives, label lines.
`lineInstr x` computes the instruction of a simple line (`none` otherwise); everything is executable.
-/
import ArchSim.Model.Asm

namespace ArchSim.Lemmas.E2E2
open ArchSim ArchSim.Rv ArchSim.Asm

/-- the instruction an address- and label-independent syntax tree builds -/
def piInstr (pi : PInstr) : Option Instr :=
  match pi with
  | .rtype .. | .utype .. | .rri .. | .mem .. | .csr .. | .csri .. | .fence .. =>
    match instantiate [] 0 0 "" pi with
    | .ok i => some i
    | .error _ => none
  | _ => none

/-- the single item an item expands to, for the one-entry expansions -/
def expItem (it : Item) : Option Item :=
  match it with
  | .str s => if s = "nop" then some (.grp (.rri "addi" 0 0 0))
              else if s = "ecall" ∨ s = "ebreak" then some it else none
  | .grp (.li rd imm) => if imm > 2047 ∨ imm < -2048 then none else some (.grp (.rri "addi" rd 0 imm))
  | .grp (.mv rd rs) => some (.grp (.rri "addi" rd rs 0))
  | .grp (.memPseudo ..) | .grp (.sPseudo ..) => none
  | .grp _ => some it
  | _ => none

/-- the instruction an expanded item builds -/
def builtItem (it : Item) : Option Instr :=
  match it with
  | .str s => if s = "ecall" then some { op := .ecall }
              else if s = "ebreak" then some { op := .ebreak, imm := 1 } else none
  | .grp pi => piInstr pi
  | _ => none

def itemInstr (it : Item) : Option Instr := (expItem it).bind builtItem

/-- the instruction of a simple line -/
def lineInstr (x : List Char) : Option Instr :=
  match parseLine x with
  | some tok => if tok.lbl.isNone then itemInstr tok.item else none
  | none => none

theorem piInstr_spec {pi : PInstr} {i : Instr} (h : piInstr pi = some i) (ls : Labels) (addr : Int) (k : Nat)
    (line : String) : instantiate ls addr k line pi = .ok i := by
  cases pi <;> simp only [piInstr] at h <;> try (cases h; done)
  all_goals
    revert h
    simp only [instantiate]
    repeat' split
    all_goals simp_all

theorem expandOne_str (vars : Vars) (k : Nat) (line s : String) (h : s ≠ "nop") :
    expandOne vars (k, line, .str s) = .ok [(k, line, .str s)] := by
  simp only [expandOne]
  split <;> first | rfl | simp_all

theorem expItem_spec {it it' : Item} (h : expItem it = some it') (vars : Vars) (k : Nat) (line : String) :
    expandOne vars (k, line, it) = .ok [(k, line, it')] := by
  cases it with
  | str s =>
    simp only [expItem] at h
    by_cases hn : s = "nop"
    · subst hn; simp only [if_true] at h; cases h; rfl
    · simp only [hn, if_false] at h
      split at h
      · cases h; exact expandOne_str vars k line s hn
      · cases h
  | grp pi =>
    cases pi <;> simp only [expItem] at h <;> first | (cases h; done) | (cases h; rfl) | skip
    · split at h
      · cases h
      · rename_i hc
        cases h
        simp only [expandOne, hc, if_false]
  | varDecl _ _ _ => simp [expItem] at h
  | strDecl _ _ => simp [expItem] at h
  | zeroDecl _ _ => simp [expItem] at h
  | directive _ => simp [expItem] at h

end ArchSim.Lemmas.E2E2
