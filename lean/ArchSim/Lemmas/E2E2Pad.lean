/-
End-to-end layer, part 2 (source-level padding, step 3): `padText` — two `nop` lines behind every line of a source text
that is not blank or a comment — and, for texts of simple lines, `load (padText t)` stores `pad` of what `load t`
stores.
-/
import ArchSim.Lemmas.E2E2SimpleLoad
import ArchSim.Lemmas.C04SpellPseudo
import ArchSim.Lemmas.C08Pad
import ArchSim.Lemmas.C02SplitArith

namespace ArchSim.Lemmas.E2E2
open ArchSim ArchSim.PP ArchSim.Rv ArchSim.Asm ArchSim.Lemmas.C08
open ArchSim.Lemmas.C04Spell (keepLine entryOf entryText entryTexts joinLines entryTexts_joinLines)
open ArchSim.Lemmas.C14 (NoBreak)

/-- the line `nop` -/
def nopLine : List Char := ['n', 'o', 'p']

theorem nopLine_eq : nopLine = "nop".toList := by decide +kernel

/-- two `nop` lines behind every line that has an entry (is not blank and not a comment line) -/
def padLines (ls : List (List Char)) : List (List Char) :=
  ls.flatMap fun l => if keepLine l then [l, nopLine, nopLine] else [l]

/-- SOURCE-LEVEL PADDING: the text with two `nop` lines inserted behind every non-blank, non-comment line (comments,
    blank lines and indentation of the original lines are kept). -/
def padText (t : String) : String := joinLines (padLines (splitLines t.toList))

/-! ### the lines of `str.splitlines()` contain no line break -/

theorem go_noBreak : ∀ (s : List Char) (b : Bool) (cur : List Char) (acc : List (List Char)),
    NoBreak cur → (∀ l ∈ acc, NoBreak l) → ∀ l ∈ splitLines.go s b cur acc, NoBreak l := by
  intro s
  induction s with
  | nil =>
    intro b cur acc hc ha l hl
    simp only [splitLines.go] at hl
    split at hl
    · exact ha l (by simpa using hl)
    · simp only [List.reverse_cons, List.mem_append, List.mem_reverse, List.mem_singleton] at hl
      rcases hl with hl | rfl
      · exact ha l hl
      · intro c hcm; exact hc c (by simpa using hcm)
  | cons c cs ih =>
    intro b cur acc hc ha l hl
    simp only [splitLines.go] at hl
    split at hl
    · exact ih _ _ _ hc ha l hl
    · split at hl
      · refine ih _ _ _ (fun _ h => by cases h) ?_ l hl
        intro l' hl'
        rcases List.mem_cons.1 hl' with rfl | hl'
        · intro c' hc'; exact hc c' (by simpa using hc')
        · exact ha l' hl'
      · rename_i hnb
        refine ih _ _ _ ?_ ha l hl
        intro c' hc'
        rcases List.mem_cons.1 hc' with rfl | hc'
        · simpa using hnb
        · exact hc c' hc'

theorem splitLines_noBreak (s : List Char) : ∀ l ∈ splitLines s, NoBreak l :=
  go_noBreak s false [] [] (fun _ h => by cases h) (fun _ h => by cases h)

theorem nopLine_noBreak : NoBreak nopLine := by
  intro c hc
  simp only [nopLine, List.mem_cons, List.not_mem_nil, or_false] at hc
  rcases hc with rfl | rfl | rfl <;> decide

theorem padLines_noBreak (ls : List (List Char)) (h : ∀ l ∈ ls, NoBreak l) : ∀ l ∈ padLines ls, NoBreak l := by
  intro l hl
  simp only [padLines, List.mem_flatMap] at hl
  obtain ⟨l0, h0, hl⟩ := hl
  split at hl
  · simp only [List.mem_cons, List.not_mem_nil, or_false] at hl
    rcases hl with rfl | rfl | rfl
    · exact h _ h0
    · exact nopLine_noBreak
    · exact nopLine_noBreak
  · simp only [List.mem_singleton] at hl
    subst hl; exact h _ h0

/-! ### the entries of the padded text -/

theorem entryOf_nopLine : entryOf nopLine = some nopLine := by decide

theorem padLines_entries (ls : List (List Char)) :
    (padLines ls).filterMap entryOf = (ls.filterMap entryOf).flatMap fun x => [x, nopLine, nopLine] := by
  induction ls with
  | nil => rfl
  | cons l ls ih =>
    have hc : padLines (l :: ls) = (if keepLine l then [l, nopLine, nopLine] else [l]) ++ padLines ls := by
      simp [padLines]
    rw [hc, List.filterMap_append, ih]
    by_cases hk : keepLine l = true
    · have he : entryOf l = some (entryText l) := by simp [entryOf, hk]
      simp [hk, he, entryOf_nopLine]
    · have he : entryOf l = none := by simp [entryOf, hk]
      simp [hk, he]

/-- The entry texts of the padded text: every entry text of `t` followed by two `nop`. -/
theorem entryTexts_padText (t : String) :
    entryTexts (padText t) = (entryTexts t).flatMap fun x => [x, nopLine, nopLine] := by
  unfold padText
  rw [entryTexts_joinLines _ (padLines_noBreak _ (splitLines_noBreak _)), padLines_entries]
  rfl

/-- `nop` is a simple line; its instruction is `addi x0, x0, 0`. -/
theorem parse_nopLine : parseLine nopLine = some { lbl := none, item := .str "nop" } := by
  have := ArchSim.Lemmas.C04Spell.parseLine_nop [] [] ArchSim.Lemmas.C04Spell.allWs_nil
    ArchSim.Lemmas.C04Spell.allWs_nil (fun _ => false)
  have e : ([] : List Char) ++ (ArchSim.Lemmas.C04Spell.recase (fun _ => false) "nop".toList ++ []) = nopLine := by
    decide +kernel
  rw [e] at this
  exact this

theorem lineInstr_nopLine : lineInstr nopLine = some nop := by
  simp only [lineInstr, parse_nopLine]
  decide

theorem allSimple_padText (t : String) (h : AllSimple t) : AllSimple (padText t) := by
  intro x hx
  rw [entryTexts_padText] at hx
  simp only [List.mem_flatMap, List.mem_cons, List.not_mem_nil, or_false] at hx
  obtain ⟨y, hy, rfl | rfl | rfl⟩ := hx
  · exact h _ hy
  · rw [lineInstr_nopLine]; rfl
  · rw [lineInstr_nopLine]; rfl

theorem filterMap_pad (xs : List (List Char)) (h : ∀ x ∈ xs, (lineInstr x).isSome = true) :
    (xs.flatMap fun x => [x, nopLine, nopLine]).filterMap lineInstr = pad (xs.filterMap lineInstr) := by
  induction xs with
  | nil => rfl
  | cons x xs ih =>
    obtain ⟨i, hi⟩ := Option.isSome_iff_exists.1 (h x List.mem_cons_self)
    have ih' := ih (fun y hy => h y (List.mem_cons_of_mem _ hy))
    simp only [List.flatMap_cons, List.cons_append, List.nil_append, List.filterMap_cons, hi,
      lineInstr_nopLine, ih', pad]

/-- The instructions of the lines of the padded text are the padding of those of the text. -/
theorem lineInstrs_padText (t : String) (h : AllSimple t) : lineInstrs (padText t) = pad (lineInstrs t) := by
  unfold lineInstrs
  rw [entryTexts_padText, filterMap_pad _ h]

/-! ### the load of the padded text -/

theorem pad_supported {prog : List Instr} (h : ∀ i ∈ prog, i.op.supported = true) :
    ∀ i ∈ pad prog, i.op.supported = true := by
  induction prog with
  | nil => intro i hi; cases hi
  | cons j js ih =>
    intro i hi
    simp only [pad, List.mem_cons] at hi
    rcases hi with rfl | rfl | rfl | hi
    · exact h _ List.mem_cons_self
    · rfl
    · rfl
    · exact ih (fun x hx => h x (List.mem_cons_of_mem _ hx)) i hi

/-- PADDING AT THE SOURCE. If every line of `t` is simple and the padded program fits (`3 n ≤ 4096`), both texts load,
    and loading the padded text gives exactly the state loading `t` gives, with the stored program replaced by its
    padding. -/
theorem load_padText (s : St) (t : String) (h : AllSimple t) (hlen : 3 * (lineInstrs t).length ≤ 4096) :
    (load s t).err = none ∧ (load s t).st.imem.prog = lineInstrs t ∧ (load s (padText t)).err = none ∧
    (load s (padText t)).st =
      { (load s t).st with imem := { (load s t).st.imem with prog := pad (load s t).st.imem.prog } } := by
  have h1 : ¬ (lineInstrs t).length > 4096 := by omega
  have h2 : ¬ (lineInstrs (padText t)).length > 4096 := by
    rw [lineInstrs_padText t h, pad_length]; omega
  rw [load_simple s t h, load_simple s (padText t) (allSimple_padText t h), if_neg h1, if_neg h2,
    lineInstrs_padText t h]
  exact ⟨rfl, rfl, rfl, rfl⟩

/-- An accepted text of simple lines stores the instructions of its lines. -/
theorem load_simple_prog (s : St) (t : String) (h : AllSimple t) (hok : (load s t).err = none) :
    (load s t).st.imem.prog = lineInstrs t ∧ (lineInstrs t).length ≤ 4096 := by
  rw [load_simple s t h] at hok ⊢
  by_cases hl : (lineInstrs t).length > 4096
  · rw [if_pos hl] at hok; cases hok
  · rw [if_neg hl]; exact ⟨rfl, by omega⟩

end ArchSim.Lemmas.E2E2
