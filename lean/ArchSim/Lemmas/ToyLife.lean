/-
Lemmas for the TOY lifecycle (C13, TOY part): `run` versus iterated `step`, stability of done,
reloading.
-/
import ArchSim.Lemmas.ToyStep

namespace ArchSim.Toy
open ArchSim

/-- The Boolean `step()` returns when it does not raise: `not self.is_done()` evaluated after the
    two half-cycles. (The model's `stepCall` returns only state and error flag.) -/
def stepRet (t : TSim) : Bool := !isDone (stepCall t).t

/-- A sequence of `load_program` calls with already resolved programs. -/
def loads (t : TSim) : List (List TInstr × List (Nat × Nat)) → TSim
  | [] => t
  | (is, d) :: ps => loads (loadImage t is d) ps

theorem run_done {t : TSim} (hd : isDone t = true) (n : Nat) : run n t = t := by
  cases n with
  | zero => rfl
  | succ n => simp [run, hd]

theorem run_succ_not_done {t : TSim} (hd : isDone t = false) (n : Nat) :
    run (n + 1) t = run n (stepT t) := by
  simp [run, hd, stepT]

/-- Fuel independence: once the result is done, more fuel changes nothing. -/
theorem run_fuel {t : TSim} {n : Nat} (hd : isDone (run n t) = true) {m : Nat} (hm : n ≤ m) :
    run m t = run n t := by
  induction n generalizing t m with
  | zero => simp only [run] at hd ⊢; exact run_done hd m
  | succ n ih =>
    obtain ⟨m', rfl⟩ : ∃ m', m = m' + 1 := ⟨m - 1, by omega⟩
    cases hdt : isDone t with
    | true => rw [run_done hdt, run_done hdt]
    | false =>
      rw [run_succ_not_done hdt] at hd ⊢
      rw [run_succ_not_done hdt]
      exact ih hd (by omega)

/-- `run n t` is `step` iterated `k` times where `k` is the index of the first done state, or
    `n` if there is none among the first `n`. -/
theorem run_iter (n : Nat) (t : TSim) :
    ∃ k, k ≤ n ∧ run n t = iter stepT k t ∧ (∀ j, j < k → isDone (iter stepT j t) = false) ∧
      (k < n → isDone (iter stepT k t) = true) := by
  induction n generalizing t with
  | zero => exact ⟨0, Nat.le_refl _, rfl, fun j hj => by omega, fun h => by omega⟩
  | succ n ih =>
    cases hdt : isDone t with
    | true =>
      exact ⟨0, by omega, by rw [run_done hdt]; rfl, fun j hj => by omega, fun _ => hdt⟩
    | false =>
      obtain ⟨k, hk, he, hlt, hdn⟩ := ih (stepT t)
      refine ⟨k + 1, by omega, ?_, ?_, ?_⟩
      · rw [run_succ_not_done hdt, he]; rfl
      · intro j hj
        cases j with
        | zero => exact hdt
        | succ j => exact hlt j (by omega)
      · intro h; exact hdn (by omega)

theorem stepT_done {t : TSim} (h : Inv t) (hd : isDone t = true) : stepT t = t := by
  have := call_spec h .step
  simp only [call] at this
  simp [stepT, this, weight, hd]

theorem Inv_stepT {t : TSim} (h : Inv t) : Inv (stepT t) := Inv_call h .step

theorem stepT_next {t : TSim} (h1 : t.nextCycle = 1) : (stepT t).nextCycle = 1 := by
  simp only [stepT, stepCall_boundary h1]; exact half_half_next h1

/-- At a boundary `run n` is simply `step` iterated `n` times (steps after done are no-ops). -/
theorem run_eq_iter_all {t : TSim} (h1 : t.nextCycle = 1) (n : Nat) : run n t = iter stepT n t := by
  induction n generalizing t with
  | zero => rfl
  | succ n ih =>
    cases hdt : isDone t with
    | true =>
      rw [run_done hdt, iter_fixed stepT t (stepT_done (Inv_of_one h1) hdt)]
    | false =>
      rw [run_succ_not_done hdt, ih (stepT_next h1)]; rfl

theorem loadImage_eq (t : TSim) (is : List TInstr) (d : List (Nat × Nat)) :
    loadImage t is d = { t with s := (loadImage {} is d).s } := by
  unfold loadImage; rfl

theorem loadImage_fresh {t : TSim} (h1 : t.nextCycle = 1) (hs : t.started = false)
    (is : List TInstr) (d : List (Nat × Nat)) : loadImage t is d = loadImage {} is d := by
  rw [loadImage_eq t, loadImage_eq {}]
  obtain ⟨s, nc, st⟩ := t
  simp only at h1 hs
  subst h1; subst hs; rfl

theorem loads_keep (t : TSim) (ps : List (List TInstr × List (Nat × Nat))) :
    (loads t ps).nextCycle = t.nextCycle ∧ (loads t ps).started = t.started := by
  induction ps generalizing t with
  | nil => exact ⟨rfl, rfl⟩
  | cons p ps ih =>
    obtain ⟨is, d⟩ := p
    have := ih (loadImage t is d)
    have h2 := loadImage_next t is d
    simp only [loads]
    rw [this.1, this.2, h2.1, h2.2]; exact ⟨rfl, rfl⟩

end ArchSim.Toy
