/-
C14 helper lemmas, part 9: `Instr.Canon` holds for EVERY instruction object `instantiate` builds from a
syntax tree of the grammar — label operands included, now that an odd label displacement is
rejected — and hence the program `buildInstrs` produces is canonical at consecutive addresses.
-/
import ArchSim.Lemmas.C14Canon

namespace ArchSim.Lemmas.C14
open ArchSim ArchSim.PP ArchSim.Rv ArchSim.Asm

/-- Syntax trees as the grammar returns them (any alternative, pseudo-instructions included): the
    mnemonic is one of the alternative's symbols and register numbers are below 32 (all `pReg` can
    return). Nothing is assumed about immediates, labels or offsets. -/
def GrammarForm : PInstr → Prop
  | .rtype mn a b c => mn ∈ rrrMn ∧ a < 32 ∧ b < 32 ∧ c < 32
  | .utype mn a _ => mn ∈ uMn ∧ a < 32
  | .btypeLabel mn a b _ _ => mn ∈ bMn ∧ a < 32 ∧ b < 32
  | .mem mn a _ b => mn ∈ memIMn ++ sMn ∧ a < 32 ∧ b < 32
  | .memPseudo mn a _ _ => mn ∈ memIMn ++ ["la"] ∧ a < 32
  | .sPseudo mn a _ _ b => mn ∈ sMn ∧ a < 32 ∧ b < 32
  | .rri mn a b _ => mn ∈ normalIMn ++ memIMn ++ bMn ++ sMn ∧ a < 32 ∧ b < 32
  | .csr mn a _ b => mn ∈ csrMn ∧ a < 32 ∧ b < 32
  | .csri mn a _ _ => mn ∈ csriMn ∧ a < 32
  | .jalImm a _ => a < 32
  | .jalLabel a _ _ => a < 32
  | .fence a b => a < 32 ∧ b < 32
  | .li a _ => a < 32
  | .mv a b => a < 32 ∧ b < 32

/-- What the printer needs of an instruction object beyond what the assembler guarantees: it has a
    printed assembler form (`fence` has none), a csr number is not negative (it is printed in
    hexadecimal), and a `jal` target has at most 4300 decimal digits (Python's `str(int)` limit). -/
def Printable (i : Instr) : Prop :=
  i.op ≠ .fence ∧ (i.op.ty = .csr ∨ i.op.ty = .csri → 0 ≤ i.aux) ∧ (i.op = .jal → i.aux.natAbs < 10 ^ 4300)

theorem ty_b : ∀ mn ∈ bMn, (Op.ofMnemonic mn).map Op.ty = some .b := by decide

theorem sext21_range (v : Int) : -1048576 ≤ sextImm 21 v ∧ sextImm 21 v ≤ 1048575 := by
  simp only [sextImm, show (2 : Int) ^ (21 - 1) = 1048576 by decide]; omega

/-- a successful `labelDisp` returns an even displacement -/
theorem labelDisp_even {ls : Labels} {l : String} {off addr : Int} {k : Nat} {line : String} {d : Int}
    (h : labelDisp ls l off addr k line = .ok d) : d % 2 = 0 := by
  unfold labelDisp at h
  split at h
  · split at h
    · cases h
    · next hodd => cases h; omega
  · cases h

/-- `Instr.Canon` holds for what `instantiate` produces from ANY tree of the grammar at an even address,
    provided the object is printable. -/
theorem instantiate_canon_all (ls : Labels) (addr : Int) (k : Nat) (line : String) (pi : PInstr) (i : Instr)
    (hg : GrammarForm pi) (haddr : addr % 2 = 0) (h : instantiate ls addr k line pi = .ok i)
    (hp : Printable i) : i.Canon addr := by
  cases pi with
  | rtype mn a b c => exact instantiate_canon ls addr k line (.rtype mn a b c) i hg h
  | utype mn a v => exact instantiate_canon ls addr k line (.utype mn a v) i hg h
  | mem mn a v b => exact instantiate_canon ls addr k line (.mem mn a v b) i hg h
  | rri mn a b v => exact instantiate_canon ls addr k line (.rri mn a b v) i hg h
  | fence a b => exact instantiate_canon ls addr k line (.fence a b) i trivial h
  | csr mn a c b =>
    obtain ⟨hm, ha, hb⟩ := hg
    refine instantiate_canon ls addr k line (.csr mn a c b) i ⟨hm, ha, hb, ?_⟩ h
    have ht := ty_csr mn hm
    cases ho : Op.ofMnemonic mn with
    | none => simp [ho] at ht
    | some op =>
      simp only [ho, Option.map_some, Option.some.injEq] at ht
      simp only [instantiate, ho, Except.ok.injEq] at h
      subst h
      exact hp.2.1 (Or.inl ht)
  | csri mn a c u =>
    obtain ⟨hm, ha⟩ := hg
    refine instantiate_canon ls addr k line (.csri mn a c u) i ⟨hm, ha, ?_⟩ h
    have ht := ty_csri mn hm
    cases ho : Op.ofMnemonic mn with
    | none => simp [ho] at ht
    | some op =>
      simp only [ho, Option.map_some, Option.some.injEq] at ht
      simp only [instantiate, ho, Except.ok.injEq] at h
      subst h
      exact hp.2.1 (Or.inr ht)
  | jalImm a v =>
    refine instantiate_canon ls addr k line (.jalImm a v) i ⟨hg, ?_⟩ h
    simp only [instantiate] at h
    by_cases he : v % 2 = 0
    · simp only [he, ne_eq, not_true_eq_false, if_false, Except.ok.injEq] at h
      subst h
      exact hp.2.2 rfl
    · simp [he] at h
  | btypeLabel mn a b l off =>
    obtain ⟨hm, ha, hb⟩ := hg
    have ht := ty_b mn hm
    cases ho : Op.ofMnemonic mn with
    | none => simp [ho] at ht
    | some op =>
      simp only [ho, Option.map_some, Option.some.injEq] at ht
      simp only [instantiate, ho] at h
      cases hd : labelDisp ls l off addr k line with
      | error e => rw [hd] at h; cases h
      | ok d =>
        rw [hd] at h
        simp only [Except.ok.injEq] at h
        subst h
        simp [Instr.Canon, mkInstr, storedImm, ht, ha, hb, sext13_range d (labelDisp_even hd)]
  | jalLabel a l off =>
    simp only [instantiate] at h
    cases hd : labelDisp ls l off addr k line with
    | error e => rw [hd] at h; cases h
    | ok d =>
      rw [hd] at h
      simp only [Except.ok.injEq] at h
      subst h
      have hev := labelDisp_even hd
      have hdig := hp.2.2 rfl
      have ha : a < 32 := hg
      have e : d + addr - addr = d := by omega
      refine ⟨ha, Nat.zero_lt_succ _, Nat.zero_lt_succ _, ?_⟩
      simp only [mkInstr, storedImm, Op.ty, e, true_and]
      exact ⟨by omega, hdig⟩
  | memPseudo _ _ _ _ => simp only [instantiate] at h; cases h
  | sPseudo _ _ _ _ _ => simp only [instantiate] at h; cases h
  | li _ _ => simp only [instantiate] at h; cases h
  | mv _ _ => simp only [instantiate] at h; cases h

/-- all grouped entries of an expanded listing are trees of the grammar -/
def GrammarEntries (es : List TEntry) : Prop := ∀ e ∈ es, ∀ pi, e.2.2 = .grp pi → GrammarForm pi

theorem map_ok_inv {α β : Type} {f : α → β} {x : Except AsmErr α} {y : β} (h : x.map f = .ok y) :
    ∃ a, x = .ok a ∧ y = f a := by
  cases x with
  | error e => simp [Except.map] at h
  | ok a => simp only [Except.map, Except.ok.injEq] at h; exact ⟨a, rfl, h.symm⟩

theorem canon_ecall (addr : Int) : ({ op := .ecall } : Instr).Canon addr := by
  simp [Instr.Canon, Op.ty]

theorem canon_ebreak (addr : Int) : ({ op := .ebreak, imm := 1 } : Instr).Canon addr := by
  simp [Instr.Canon, Op.ty]

/-- The program `buildInstrs` produces from trees of the grammar, started at an even address, is
    canonical at consecutive addresses, provided its instructions are printable. -/
theorem buildInstrs_canonFrom (ls : Labels) (es : List TEntry) : ∀ (addr : Int) (prog : List Instr),
    GrammarEntries es → addr % 2 = 0 → buildInstrs ls es addr = .ok prog → (∀ i ∈ prog, Printable i) →
    CanonFrom addr prog := by
  induction es with
  | nil =>
    intro addr prog _ _ h _
    simp only [buildInstrs, Except.ok.injEq] at h
    subst h; trivial
  | cons e rest ih =>
    obtain ⟨k, line, it⟩ := e
    intro addr prog hg ha h hp
    have hg' : GrammarEntries rest := fun e he => hg e (List.mem_cons_of_mem _ he)
    have ha' : (addr + 4) % 2 = 0 := by omega
    cases it with
    | str s =>
      simp only [buildInstrs] at h
      by_cases h1 : s = "ecall"
      · simp only [h1, if_true] at h
        obtain ⟨tl, htl, rfl⟩ := map_ok_inv h
        exact ⟨canon_ecall addr, (hp _ List.mem_cons_self).1,
          ih _ _ hg' ha' htl (fun i hi => hp i (List.mem_cons_of_mem _ hi))⟩
      · by_cases h2 : s = "ebreak"
        · simp only [h2, if_true] at h
          obtain ⟨tl, htl, rfl⟩ := map_ok_inv h
          exact ⟨canon_ebreak addr, (hp _ List.mem_cons_self).1,
            ih _ _ hg' ha' htl (fun i hi => hp i (List.mem_cons_of_mem _ hi))⟩
        · simp only [if_neg h1, if_neg h2] at h
          exact ih _ _ hg' ha h hp
    | grp pi =>
      simp only [buildInstrs] at h
      cases hi : instantiate ls addr k line pi with
      | error x => rw [hi] at h; cases h
      | ok i0 =>
        rw [hi] at h
        obtain ⟨tl, htl, rfl⟩ := map_ok_inv h
        have hp0 := hp i0 List.mem_cons_self
        exact ⟨instantiate_canon_all ls addr k line pi i0 (hg _ List.mem_cons_self pi rfl) ha hi hp0, hp0.1,
          ih _ _ hg' ha' htl (fun i hi => hp i (List.mem_cons_of_mem _ hi))⟩
    | varDecl n t v => simp only [buildInstrs] at h; cases h
    | strDecl n b => simp only [buildInstrs] at h; cases h
    | zeroDecl n c => simp only [buildInstrs] at h; cases h
    | directive d => simp only [buildInstrs] at h; cases h

theorem canonFrom_mem {addr : Int} {prog : List Instr} (h : CanonFrom addr prog) :
    ∀ i ∈ prog, ∃ a, i.Canon a := by
  induction prog generalizing addr with
  | nil => intro i hi; cases hi
  | cons j js ih =>
    intro i hi
    rcases List.mem_cons.mp hi with rfl | hi
    · exact ⟨addr, h.1⟩
    · exact ih h.2.2 i hi

/-- The listing of a program built from trees of the grammar re-assembles to the same program. -/
theorem built_listing (s : St) (ls : Labels) (es : List TEntry) (prog : List Instr) (hg : GrammarEntries es)
    (h : buildInstrs ls es 0 = .ok prog) (hlen : prog.length ≤ 4096) (hp : ∀ i ∈ prog, Printable i) :
    (load s (String.intercalate "\n" (prog.map Instr.repr))).err = none ∧
    (load s (String.intercalate "\n" (prog.map Instr.repr))).st.imem.prog = prog := by
  have hc := buildInstrs_canonFrom ls es 0 prog hg (by decide) h hp
  refine load_listing s prog hlen hc ?_
  intro i hi
  obtain ⟨a, ha⟩ := canonFrom_mem hc i hi
  exact lineOk_repr i a ha

end ArchSim.Lemmas.C14
