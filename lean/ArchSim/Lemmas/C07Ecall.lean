/-
C07 helper lemmas: closed forms for the ecall drain (EX stall, `k = 2`).
Core Lean only.
-/
import ArchSim.Lemmas.C07Closed

namespace ArchSim.Lemmas.C07
open ArchSim ArchSim.Rv ArchSim.Pipe ArchSim.Lemmas.C02Split

/-- The cycle in which an unstalled EX holds an ecall that must wait: the service does not run, an
    EX stall with two cycles to go is recorded (IF/ID and ID/EX preserved, flagged). -/
theorem ecall_drain_start (p : PSt) (d : Latch) (hs : p.stalled = none) (hl1 : p.l1 = some d)
    (hop : d.instr.op = .ecall) (hw : ecallMustWait d p.l2 p.l3 = true)
    (hf : NoFault p) (hfl : NoFlush p) :
    (exO p).st = sWB p ∧
    (step p).p.stalled = some { k := 2, rem := 2, p0 := setFlag p.l0, p1 := setFlag p.l1 } ∧
    (step p).p.l0 = nIF p ∧ (step p).p.l3 = (meO p).latch ∧
    (step p).p.st.stalls = p.st.stalls + 1 := by
  have hin : exInput p = some d := by unfold exInput; rw [hs]; exact hl1
  have hex : exO p = { st := sWB p, latch := some { exBase d none (some 0) with stall := true },
                       fault := none } := by
    unfold exO; rw [hin]; exact exStage_ecall_wait _ d _ _ hop hw
  have hst : latchStall (exO p).latch = true := by rw [hex]; rfl
  have hpick : pickStall p.stalled (nID p) (exO p).latch = some 2 := by
    unfold pickStall; simp [hs, hst]
  have h := finishStep_stalls p (meO p).st (nIF p) (nID p) (exO p).latch (meO p).latch (nWB p)
  rw [finishStep_noFlush _ _ _ _ _ _ _ hfl.1 hfl.2.1 hfl.2.2, hpick] at h
  rw [step_quiet p hf hfl]
  refine ⟨by rw [hex], ?_, rfl, rfl, ?_⟩
  · simp only [stalled1_some _ _ _ 2 hpick]
    unfold stallPicked countDown; rw [hs]; simp
  · simp only at h; rw [h, C08.meO_stalls]; rfl

theorem inputs_exStall (p : PSt) (st : Stall) (hs : p.stalled = some st) (hk : st.k = 2) :
    exInput p = st.p1 ∧ idInput p = st.p0 ∧ nIF p = p.l0 ∧ memInput p = none := by
  unfold exInput idInput nIF memInput
  rw [hs]; simp [hk]

theorem meO_bubble (p : PSt) (h : memInput p = none) :
    (meO p).latch = none ∧ (meO p).fault = none ∧ (meO p).st = (exO p).st := by
  unfold meO; rw [h]; exact ⟨rfl, rfl, rfl⟩

/-- A cycle inside an EX stall: MEM is fed a bubble, EX re-evaluates the preserved ID/EX register,
    ID the preserved IF/ID register, IF/ID is kept, the stall counts down. -/
theorem ecall_drain_cycle (p : PSt) (st : Stall) (hs : p.stalled = some st) (hk : st.k = 2)
    (hf : (exO p).fault = none) (hfl : NoFlush p) :
    memInput p = none ∧ exInput p = st.p1 ∧ idInput p = st.p0 ∧
    (step p).p.l0 = p.l0 ∧ (step p).p.l1 = nID p ∧ (step p).p.l2 = (exO p).latch ∧
    (step p).p.l3 = none ∧
    (step p).p.stalled = (if st.rem - 1 = 0 then none else some { st with rem := st.rem - 1 }) ∧
    (step p).p.st.stalls = p.st.stalls := by
  obtain ⟨hex, hid, hif, hme⟩ := inputs_exStall p st hs hk
  obtain ⟨hl, hmf, _⟩ := meO_bubble p hme
  have hpick : pickStall p.stalled (nID p) (exO p).latch = none := by
    unfold pickStall; rw [hs]; simp [hk]
  have h := finishStep_stalls p (meO p).st (nIF p) (nID p) (exO p).latch (meO p).latch (nWB p)
  rw [finishStep_noFlush _ _ _ _ _ _ _ hfl.1 hfl.2.1 hfl.2.2, hpick] at h
  rw [step_quiet p ⟨hf, hmf⟩ hfl]
  refine ⟨hme, hex, hid, hif, rfl, rfl, hl, ?_, ?_⟩
  · simp only [stalled1_none _ _ _ hpick, hs]; rfl
  · simp only at h; rw [h, C08.meO_stalls]; rfl

/-- The whole drain when the EX/MEM register is occupied at the first evaluation (the situation in
    every reachable drain that lasts the full quantum): the service does not run in the detection
    cycle nor in the first stalled cycle, MEM is fed bubbles in both stalled cycles, and the service
    runs (`ecallRun`) in the second stalled cycle on the state left by that cycle's WB; if that cycle
    neither raises nor flushes (no exit), the pipeline is unstalled afterwards with the finished
    ecall in EX/MEM. -/
theorem ecall_drain_two (p : PSt) (d : Latch) (hs : p.stalled = none) (hl1 : p.l1 = some d)
    (hop : d.instr.op = .ecall) (hfg : d.flagged = false) (hl2 : p.l2.isSome = true)
    (q0 : NoFault p ∧ NoFlush p) (q1 : NoFault (step p).p ∧ NoFlush (step p).p) :
    (exO p).st = sWB p ∧ (step p).p.st.stalls = p.st.stalls + 1 ∧
    memInput (step p).p = none ∧ (exO (step p).p).st = sWB (step p).p ∧
    memInput (step (step p).p).p = none ∧
    exO (step (step p).p).p = ecallRun (sWB (step (step p).p).p) { d with flagged := true } ∧
    (NoFault (step (step p).p).p → NoFlush (step (step p).p).p →
      (step (step (step p).p).p).p.stalled = none ∧
      (step (step (step p).p).p).p.l2 = (exO (step (step p).p).p).latch ∧
      (step (step (step p).p).p).p.l0 = nIF p ∧
      (step (step (step p).p).p).p.st.stalls = p.st.stalls + 1) := by
  have hw : ecallMustWait d p.l2 p.l3 = true := by unfold ecallMustWait; simp [hfg, hl2]
  obtain ⟨a1, a2, a3, a4, a5⟩ := ecall_drain_start p d hs hl1 hop hw q0.1 q0.2
  -- MEM/WB is occupied after the detection cycle
  obtain ⟨e, he⟩ := Option.isSome_iff_exists.1 hl2
  have hmi : memInput p = some e := by unfold memInput; rw [hs]; exact he
  have hf2 := q0.1.2
  unfold meO at hf2; rw [hmi] at hf2
  obtain ⟨rd, hl⟩ := memStage_ok_latch _ e hf2
  have hl3 : (step p).p.l3 = some (memLatch e rd) := by rw [a4]; unfold meO; rw [hmi]; exact hl
  -- first stalled cycle
  obtain ⟨b1, b2, _, b4, _, _, b7, b8, b9⟩ := ecall_drain_cycle (step p).p _ a2 rfl q1.1.1 q1.2
  simp only [Nat.add_one_sub_one, Nat.succ_ne_zero, if_false] at b8
  have hd' : setFlag p.l1 = some { d with flagged := true } := by rw [hl1]; rfl
  have hop' : ({ d with flagged := true } : Latch).instr.op = .ecall := hop
  have hw1 : ecallMustWait { d with flagged := true } (step p).p.l2 (step p).p.l3 = true := by
    unfold ecallMustWait; simp [hl3]
  have hex1 : (exO (step p).p).st = sWB (step p).p := by
    unfold exO; rw [b2, hd', exStage_ecall_wait _ _ _ _ hop' hw1]
  -- second stalled cycle
  obtain ⟨c1, _, _, c4⟩ := inputs_exStall (step (step p).p).p _ b8 rfl
  have hw2 : ecallMustWait { d with flagged := true } (step (step p).p).p.l2 (step (step p).p).p.l3
      = false := by
    unfold ecallMustWait; simp [b7]
  have hex2 : exO (step (step p).p).p = ecallRun (sWB (step (step p).p).p) { d with flagged := true } := by
    unfold exO; rw [c1, hd', exStage_ecall_run _ _ _ _ hop' hw2]
  refine ⟨a1, a5, b1, hex1, c4, hex2, ?_⟩
  intro hf hfl
  obtain ⟨_, _, _, e4, _, e6, _, e8, e9⟩ := ecall_drain_cycle (step (step p).p).p _ b8 rfl hf.1 hfl
  simp only [Nat.sub_self, if_true] at e8
  exact ⟨e8, e6, by rw [e4, b4, a3], by rw [e9, b9, a5]⟩

/-- Why `ecall_drain_two` assumes an occupied EX/MEM register: in the (unreachable) configuration
    with EX/MEM empty and only MEM/WB occupied, the stall quantum is longer than the drain and the
    preserved ecall is evaluated — and its service run — in BOTH stalled cycles. -/
theorem ecall_drain_l3_only (p : PSt) (d : Latch) (hs : p.stalled = none) (hl1 : p.l1 = some d)
    (hop : d.instr.op = .ecall) (hfg : d.flagged = false) (hl2 : p.l2 = none)
    (hl3 : p.l3.isSome = true)
    (q0 : NoFault p ∧ NoFlush p) (q1 : NoFault (step p).p ∧ NoFlush (step p).p) :
    exO (step p).p = ecallRun (sWB (step p).p) { d with flagged := true } ∧
    exO (step (step p).p).p = ecallRun (sWB (step (step p).p).p) { d with flagged := true } := by
  have hw : ecallMustWait d p.l2 p.l3 = true := by unfold ecallMustWait; simp [hfg, hl3]
  obtain ⟨_, a2, _, a4, _⟩ := ecall_drain_start p d hs hl1 hop hw q0.1 q0.2
  have hmi : memInput p = none := by unfold memInput; rw [hs]; exact hl2
  have hl3' : (step p).p.l3 = none := by rw [a4]; exact (meO_bubble p hmi).1
  obtain ⟨_, b2, _, _, _, _, b7, b8, _⟩ := ecall_drain_cycle (step p).p _ a2 rfl q1.1.1 q1.2
  simp only [Nat.add_one_sub_one, Nat.succ_ne_zero, if_false] at b8
  have hd' : setFlag p.l1 = some { d with flagged := true } := by rw [hl1]; rfl
  have hop' : ({ d with flagged := true } : Latch).instr.op = .ecall := hop
  have hw1 : ecallMustWait { d with flagged := true } (step p).p.l2 (step p).p.l3 = false := by
    unfold ecallMustWait; simp [hl3']
  obtain ⟨c1, _, _, _⟩ := inputs_exStall (step (step p).p).p _ b8 rfl
  have hw2 : ecallMustWait { d with flagged := true } (step (step p).p).p.l2 (step (step p).p).p.l3
      = false := by
    unfold ecallMustWait; simp [b7]
  constructor
  · unfold exO; rw [b2, hd', exStage_ecall_run _ _ _ _ hop' hw1]
  · unfold exO; rw [c1, hd', exStage_ecall_run _ _ _ _ hop' hw2]

end ArchSim.Lemmas.C07
