/-
C08 helper lemmas, part 3: padding every instruction with two nops makes any program hazard-free,
and in a hazard-free program the ID hazard test never fires against fall-through neighbours.
Core Lean only.
-/
import ArchSim.Lemmas.C07Hazard

namespace ArchSim.Lemmas.C08
open ArchSim ArchSim.Rv ArchSim.Pipe ArchSim.Lemmas.C07

/-- `addi x0, x0, 0` -/
def nop : Instr := { op := .addi, rd := 0, rs1 := 0, imm := 0 }

/-- Every instruction followed by two nops. -/
def pad : List Instr → List Instr
  | [] => []
  | i :: is => i :: nop :: nop :: pad is

theorem pad_length (prog : List Instr) : (pad prog).length = 3 * prog.length := by
  induction prog with
  | nil => rfl
  | cons i is ih => simp [pad, ih]; omega

/-- Off the multiples of three the padded program holds nops. -/
theorem pad_off (prog : List Instr) (q : Nat) (x : Instr) (h : (pad prog)[q]? = some x)
    (hq : q % 3 ≠ 0) : x = nop := by
  induction prog generalizing q with
  | nil => simp [pad] at h
  | cons i is ih =>
    match q, h, hq with
    | 0, _, hq => simp at hq
    | 1, h, _ => simp [pad] at h; exact h.symm
    | 2, h, _ => simp [pad] at h; exact h.symm
    | q' + 3, h, hq =>
      have h' : (pad is)[q']? = some x := by simpa [pad] using h
      exact ih q' h' (by omega)

/-- At the multiples of three it holds the original instructions. -/
theorem pad_at (prog : List Instr) (m : Nat) : (pad prog)[3 * m]? = prog[m]? := by
  induction prog generalizing m with
  | nil => simp [pad]
  | cons i is ih =>
    cases m with
    | zero => simp [pad]
    | succ m =>
      have : 3 * (m + 1) = 3 * m + 3 := by omega
      rw [this]
      simpa [pad] using ih m

/-- A nop reads only x0 … -/
theorem conflict_nop_left (w : Instr) : conflict nop w = false := by
  unfold conflict
  split
  · rfl
  · rename_i r _
    by_cases hr : r = 0
    · simp [hr]
    · simp [readsReg, accessRegs, nop, Op.ty, hr]; omega

/-- … and writes only x0. -/
theorem conflict_nop_right (c : Instr) : conflict c nop = false := by
  simp [conflict, writeReg, nop, Op.ty]

theorem pad_hazardFree (prog : List Instr) : HazardFree (pad prog) := by
  intro j k c w hj hk h1 h2
  by_cases hj3 : j % 3 = 0
  · have hk3 : k % 3 ≠ 0 := by omega
    rw [pad_off prog k w hk hk3]; exact conflict_nop_right c
  · rw [pad_off prog j c hj hj3]; exact conflict_nop_left w

/-- The hazard test of the instruction at index `a` against a register that is empty or holds a
    program instruction one or two places before it is negative in a hazard-free program. -/
theorem hazardWith_neighbour (prog : List Instr) (hfree : HazardFree prog) (a : Nat) (c : Instr)
    (hc : prog[a]? = some c) (regs : Nat → Nat) (l : Option Latch)
    (h : ∀ x, l = some x → ∃ b, b < a ∧ a ≤ b + 2 ∧ prog[b]? = some x.instr) :
    hazardWith (accessRegs c regs) l = false := by
  cases l with
  | none => rfl
  | some x =>
    obtain ⟨b, h1, h2, hb⟩ := h x rfl
    rw [hazardWith_some]
    exact hfree a b c x.instr hc hb h1 h2

/-- With hazard detection ON no interlock fires on fall-through neighbours of a hazard-free program. -/
theorem idStall_hazardFree (prog : List Instr) (hfree : HazardFree prog) (hz : Bool) (a : Nat)
    (c : Instr) (hc : prog[a]? = some c) (regs : Nat → Nat) (l1 l2 : Option Latch)
    (h1 : ∀ x, l1 = some x → ∃ b, b < a ∧ a ≤ b + 2 ∧ prog[b]? = some x.instr)
    (h2 : ∀ x, l2 = some x → ∃ b, b < a ∧ a ≤ b + 2 ∧ prog[b]? = some x.instr) :
    idStall hz (accessRegs c regs) l1 l2 = false := by
  unfold idStall
  rw [hazardWith_neighbour prog hfree a c hc regs l1 h1, hazardWith_neighbour prog hfree a c hc regs l2 h2]
  simp

end ArchSim.Lemmas.C08
