/-
C09 helper lemmas, part 2: the lower memory never rejects the block transfers of an accepted access.
With `blkBits ≤ 12` a block never straddles the lower end `16384 = 2^14` of the data range nor the
upper end `2^32`, so `readBlockFromMem` / `writeBlockToMem` on an aligned in-range block succeed.
-/
import ArchSim.Lemmas.C18Repr
import ArchSim.Lemmas.C09Set

namespace ArchSim.Lemmas.C09
open ArchSim ArchSim.Cache ArchSim.Mem ArchSim.Spec.ByteStore ArchSim.Lemmas.C18

/-- Any write leaves the memory configuration alone. -/
theorem write_cfg {m m' : Mem} {bits : Nat} {a : Int} {v : Nat} {e : Option AddrErr}
    (h : Mem.write m bits a v = some (m', e)) : m'.cfg = m.cfg := by
  unfold Mem.write at h
  split at h
  · cases h
  · simp only [Option.some.injEq] at h
    have := writeN_cfg m a (cellsOf m.cfg bits) v
    rw [h] at this
    exact this

theorem riscv_read32_ok (m : Mem) (hc : m.cfg = riscvCfg) (a : Int) (h1 : 16384 ≤ a)
    (h2 : a + 4 ≤ 4294967296) : ∃ w, Mem.read m 32 a = some (.ok w) := by
  have hok : ∀ i, i < 4 → cellOk m.cfg a i = true := by
    intro i hi
    rw [hc, riscv_cellOk_iff]
    omega
  have h4 : cellsOf m.cfg 32 = 4 := by rw [hc]; rfl
  unfold Mem.read
  rw [if_neg (by rw [hc]; decide), h4, readN_ok m a 4 hok]
  exact ⟨_, rfl⟩

theorem riscv_write_ok (m : Mem) (hc : m.cfg = riscvCfg) (bits : Nat) (a : Int) (v : Nat)
    (hb : 8 ≤ bits) (hok : ∀ i : Nat, i < bits / 8 → 16384 ≤ (a + i) % 4294967296) :
    ∃ m', Mem.write m bits a v = some (m', none) ∧ m'.cfg = riscvCfg := by
  have hn : cellsOf m.cfg bits = bits / 8 := by rw [hc]; rfl
  have hok' : ∀ i, i < bits / 8 → cellOk m.cfg a i = true := by
    intro i hi
    rw [hc, riscv_cellOk_iff]
    exact hok i hi
  refine ⟨(writeN m a (bits / 8) v).1, ?_, ?_⟩
  · unfold Mem.write
    rw [if_neg (by rw [hc]; show ¬ (8 > bits); omega), hn]
    have := writeN_all_ok m a (bits / 8) v hok'
    rw [← this]
  · rw [writeN_cfg, hc]

theorem riscv_write32_ok (m : Mem) (hc : m.cfg = riscvCfg) (a : Int) (v : Nat) (h1 : 16384 ≤ a)
    (h2 : a + 4 ≤ 4294967296) : ∃ m', Mem.write m 32 a v = some (m', none) ∧ m'.cfg = riscvCfg := by
  apply riscv_write_ok m hc 32 a v (by omega)
  intro i hi
  omega

theorem readBlockFromMem_ok (m : Mem) (hc : m.cfg = riscvCfg) (base : Nat) (n i : Nat)
    (h1 : 16384 ≤ base) (h2 : base + 4 * (i + n) ≤ 4294967296) :
    ∃ ws, readBlockFromMem m base n i = .ok ws ∧ ws.length = n := by
  induction n generalizing i with
  | zero => exact ⟨[], rfl, rfl⟩
  | succ n ih =>
    obtain ⟨w, hw⟩ := riscv_read32_ok m hc ((base : Int) + 4 * i) (by omega) (by omega)
    obtain ⟨ws, hws, hl⟩ := ih (i + 1) (by omega)
    refine ⟨w :: ws, ?_, by simp [hl]⟩
    simp only [readBlockFromMem]
    rw [hw]
    simp only
    have : ((i + 1 : Nat) : Int) = (i : Int) + 1 := by omega
    rw [hws]

theorem writeBlockToMem_ok (m : Mem) (hc : m.cfg = riscvCfg) (base : Nat) (ws : List Nat) (i : Nat)
    (h1 : 16384 ≤ base) (h2 : base + 4 * (i + ws.length) ≤ 4294967296) :
    ∃ m', writeBlockToMem m base ws i = (m', none) ∧ m'.cfg = riscvCfg := by
  induction ws generalizing m i with
  | nil => exact ⟨m, rfl, hc⟩
  | cons w ws ih =>
    simp only [List.length_cons] at h2
    obtain ⟨m1, hm1, hc1⟩ := riscv_write32_ok m hc ((base : Int) + 4 * i) w (by omega) (by omega)
    obtain ⟨m2, hm2, hc2⟩ := ih m1 hc1 (i + 1) (by omega)
    refine ⟨m2, ?_, hc2⟩
    simp only [writeBlockToMem]
    rw [hm1]
    simp only
    rw [hm2]

/-- The write-back step never changes the configuration, successful or not. -/
theorem writeBlockToMem_cfg (m : Mem) (base : Nat) (ws : List Nat) (i : Nat) :
    (writeBlockToMem m base ws i).1.cfg = m.cfg := by
  induction ws generalizing m i with
  | nil => rfl
  | cons w ws ih =>
    simp only [writeBlockToMem]
    cases h : Mem.write m 32 ((base : Int) + 4 * i) w with
    | none => rfl
    | some r =>
      obtain ⟨m', e⟩ := r
      have hc := write_cfg h
      cases e with
      | none => simp only; rw [ih, hc]
      | some e => exact hc

/-! ### The block of an accepted address lies inside the data range -/

theorem blockBase_range (ib bb : Nat) (hbb : bb ≤ 12) (a : Int) (ha : 16384 ≤ wrap32 a) :
    16384 ≤ (decode ib bb a).blockBase ∧ (decode ib bb a).blockBase + 4 * 2 ^ bb ≤ 4294967296 := by
  simp only [decode]
  generalize hB : 2 ^ (2 + bb) = B
  have hBpos : 0 < B := hB ▸ Nat.two_pow_pos _
  have h4 : 4 * 2 ^ bb = B := by rw [← hB, Nat.pow_add]
  have hlo : 16384 = 2 ^ (12 - bb) * B := by
    rw [← hB, ← Nat.pow_add, show 12 - bb + (2 + bb) = 14 by omega]
  have hhi : 4294967296 = 2 ^ (30 - bb) * B := by
    rw [← hB, ← Nat.pow_add, show 30 - bb + (2 + bb) = 32 by omega]
  have hlt := wrap32_lt a
  rw [h4]
  constructor
  · rw [hlo]
    apply Nat.mul_le_mul_right
    rw [Nat.le_div_iff_mul_le hBpos, ← hlo]
    exact ha
  · have : wrap32 a / B < 2 ^ (30 - bb) := by
      rw [Nat.div_lt_iff_lt_mul hBpos, ← hhi]; exact hlt
    calc wrap32 a / B * B + B = (wrap32 a / B + 1) * B := by rw [Nat.add_mul, Nat.one_mul]
      _ ≤ 2 ^ (30 - bb) * B := Nat.mul_le_mul_right _ this
      _ = 4294967296 := hhi.symm

end ArchSim.Lemmas.C09
