/-
C04 (spelling independence), part 24: the entry `sanitize` makes of a spelled line (with or without a trailing
comment) is the line without its leading and trailing blanks.
-/
import ArchSim.Lemmas.C04SpellProg
import ArchSim.Lemmas.C04SpellLoad

namespace ArchSim.Lemmas.C04Spell
open ArchSim ArchSim.PP ArchSim.Rv ArchSim.Asm ArchSim.Lemmas.C14

/-- the last character is no blank -/
def EndsOk (l : List Char) : Prop := l ≠ [] ∧ ∀ c ∈ l.getLast?, pyIsSpace c = false

theorem endsOk_append (x y : List Char) (h : EndsOk y) : EndsOk (x ++ y) := by
  refine ⟨by simp [h.1], ?_⟩
  rw [glast_app x y h.1]
  exact h.2

theorem endsOk_of_all (l : List Char) (hne : l ≠ []) (h : ∀ c ∈ l, pyIsSpace c = false) : EndsOk l :=
  ⟨hne, fun c hc => h c (List.mem_of_getLast? hc)⟩

theorem labelBody_ascii (c : Char) (h : isLabelBody c = true) : c.toNat < 128 := by
  simp only [isLabelBody, isAlnum, isAlpha, isNum, Bool.or_eq_true, Bool.and_eq_true, decide_eq_true_eq] at h
  have hz : ('z' : Char).toNat = 122 := by decide
  have hZ : ('Z' : Char).toNat = 90 := by decide
  have h9 : ('9' : Char).toNat = 57 := by decide
  rcases h with ((h | h) | h) | h
  · have := le_toNat h.2; omega
  · have := le_toNat h.2; omega
  · have := le_toNat h.2; omega
  · rw [h]; decide

theorem labelBody_table : ∀ n < 128, isLabelBody (Char.ofNat n) = true → pyIsSpace (Char.ofNat n) = false ∧
    Char.ofNat n ≠ '#' := by decide

theorem labelBody_not_space (c : Char) (h : isLabelBody c = true) : pyIsSpace c = false ∧ c ≠ '#' :=
  ascii_cases (fun c => isLabelBody c = true → pyIsSpace c = false ∧ c ≠ '#') c (labelBody_ascii c h)
    labelBody_table h

theorem isHexNum_labelBody (c : Char) (h : isHexNum c = true) : isLabelBody c = true := by
  have ht : ∀ n < 128, isHexNum (Char.ofNat n) = true → isLabelBody (Char.ofNat n) = true := by decide
  exact ascii_cases (fun c => isHexNum c = true → isLabelBody c = true) c (isHexNum_ascii c h) ht h

/-- the characters of a number: a sign, `x`, `b` or (hexadecimal) digits -/
theorem numSp_chars (st : NumStyle) (v : Int) : ∀ c ∈ numSp st v, c = '-' ∨ isLabelBody c = true := by
  have hsign : ∀ (neg : Bool) c, c ∈ signTxt neg → c = '-' := by
    intro neg c hc
    cases neg with
    | false => cases hc
    | true => simpa [signTxt] using hc
  intro c hc
  cases st with
  | dec =>
    rcases decTxt_chars v c hc with h | h
    · exact Or.inl h
    · exact Or.inr (isHexNum_labelBody c (isNum_facts c h).2.2.2.2.2)
  | hex z up =>
    simp only [numSp, List.mem_append, List.mem_cons] at hc
    rcases hc with h | rfl | rfl | h | h
    · exact Or.inl (hsign _ c h)
    · exact Or.inr (by decide)
    · exact Or.inr (by decide)
    · exact Or.inr (isHexNum_labelBody c (replicate_zero_isHex z c h))
    · exact Or.inr (isHexNum_labelBody c (recase_hex_isHex up _ c h))
  | bin z =>
    simp only [numSp, List.mem_append, List.mem_cons] at hc
    rcases hc with h | rfl | rfl | h | h
    · exact Or.inl (hsign _ c h)
    · exact Or.inr (by decide)
    · exact Or.inr (by decide)
    · exact Or.inr (isHexNum_labelBody c (replicate_zero_isHex z c h))
    · exact Or.inr (isHexNum_labelBody c (isNum_facts c (isBin_isNum c (binDigitsOf_isBin _ c h))).2.2.2.2.2)

theorem minus_facts : pyIsSpace '-' = false ∧ ('-' : Char) ≠ '#' := by decide

theorem numSp_ne_nil (st : NumStyle) (v : Int) : numSp st v ≠ [] := by
  obtain ⟨c, tl, h, _⟩ := numSp_head st v
  rw [h]; simp

theorem regSp_ne_nil (st : RegStyle) (n : Nat) (hn : n < 32) : regSp st n ≠ [] := by
  obtain ⟨c, tl, h, _⟩ := regSp_head st n hn
  rw [h]; simp

theorem endsOk_tReg_nil (w : List Char) (st : RegStyle) (n : Nat) (hn : n < 32) : EndsOk (tReg w st n []) := by
  apply endsOk_append
  rw [List.append_nil]
  exact endsOk_of_all _ (regSp_ne_nil st n hn) (fun c hc => (labelBody_not_space c (regSp_labelBody st n hn c hc)).1)

theorem endsOk_tNum_nil (w : List Char) (st : NumStyle) (v : Int) : EndsOk (tNum w st v []) := by
  apply endsOk_append
  rw [List.append_nil]
  refine endsOk_of_all _ (numSp_ne_nil st v) (fun c hc => ?_)
  rcases numSp_chars st v c hc with rfl | h
  · exact minus_facts.1
  · exact (labelBody_not_space c h).1

theorem endsOk_tSep_rparen (w : List Char) : EndsOk (tSep w ')' []) := by
  apply endsOk_append
  exact endsOk_of_all _ (by simp) (fun c hc => by simp at hc; subst hc; decide)

/-! ### appending to the end of the operands -/

theorem tReg_append (w : List Char) (st : RegStyle) (n : Nat) (r t : List Char) :
    tReg w st n (r ++ t) = tReg w st n r ++ t := by simp [tReg, List.append_assoc]
theorem tNum_append (w : List Char) (st : NumStyle) (v : Int) (r t : List Char) :
    tNum w st v (r ++ t) = tNum w st v r ++ t := by simp [tNum, List.append_assoc]
theorem tSep_append (w : List Char) (c : Char) (r t : List Char) :
    tSep w c (r ++ t) = tSep w c r ++ t := by simp [tSep, List.append_assoc]

theorem operands_append (sp : Spelling) (i : Instr) (tr : List Char) :
    operands sp i tr = operands sp i [] ++ tr := by
  cases hcl : cls i.op <;>
    simp only [operands, hcl, ← tReg_append, ← tNum_append, ← tSep_append, List.nil_append]

/-- the line without its leading and trailing blanks -/
def core (sp : Spelling) (i : Instr) : List Char := recase sp.mnCase (mn i.op) ++ operands sp i []

theorem render_core (sp : Spelling) (i : Instr) :
    render sp i = blanks sp.lead ++ core sp i ++ blanks sp.trail := by
  rw [render, operands_append, core]
  simp [List.append_assoc]

theorem render_core_eq (sp : Spelling) (i : Instr) : render { sp with lead := [], trail := [] } i = core sp i := by
  rw [render_core]
  simp [blanks, core, operands, gapOf]

/-! ### no `#`, no blank at either end -/

def NoHash (l : List Char) : Prop := '#' ∉ l

theorem noHash_append {a b : List Char} (ha : NoHash a) (hb : NoHash b) : NoHash (a ++ b) := by
  intro h; rcases List.mem_append.mp h with h | h
  · exact ha h
  · exact hb h

theorem noHash_allWs (w : List Char) (h : AllWs w) : NoHash w := by
  intro hm
  have := h '#' hm
  exact absurd this (by decide)

theorem noHash_nil : NoHash [] := by intro h; cases h

theorem noHash_tReg (w : List Char) (st : RegStyle) (n : Nat) (r : List Char) (hn : n < 32) (hw : AllWs w)
    (hr : NoHash r) : NoHash (tReg w st n r) :=
  noHash_append (noHash_allWs w hw) (noHash_append
    (fun hm => (labelBody_not_space '#' (regSp_labelBody st n hn '#' hm)).2 rfl) hr)

theorem noHash_tNum (w : List Char) (st : NumStyle) (v : Int) (r : List Char) (hw : AllWs w) (hr : NoHash r) :
    NoHash (tNum w st v r) :=
  noHash_append (noHash_allWs w hw) (noHash_append (fun hm => by
    rcases numSp_chars st v '#' hm with h | h
    · exact absurd h (by decide)
    · exact (labelBody_not_space '#' h).2 rfl) hr)

theorem noHash_tSep (w : List Char) (c : Char) (r : List Char) (hw : AllWs w) (hc : c ≠ '#') (hr : NoHash r) :
    NoHash (tSep w c r) :=
  noHash_append (noHash_allWs w hw) (fun hm => by
    rcases List.mem_cons.mp hm with h | h
    · exact hc h.symm
    · exact hr h)

theorem recase_mn_chars (sel : Nat → Bool) (op : Op) : ∀ c ∈ recase sel (mn op), c ∈ letterList :=
  (caseVar_recase sel (mn op) (mn_low op).1).letters

theorem letter_not_space : ∀ c ∈ letterList, pyIsSpace c = false ∧ c ≠ '#' := by decide

theorem endsOk_tReg (w : List Char) (st : RegStyle) (n : Nat) (r : List Char) (h : EndsOk r) :
    EndsOk (tReg w st n r) := endsOk_append _ _ (endsOk_append _ _ h)

theorem endsOk_tNum (w : List Char) (st : NumStyle) (v : Int) (r : List Char) (h : EndsOk r) :
    EndsOk (tNum w st v r) := endsOk_append _ _ (endsOk_append _ _ h)

theorem endsOk_tSep (w : List Char) (c : Char) (r : List Char) (h : EndsOk r) : EndsOk (tSep w c r) :=
  endsOk_append w (c :: r) (endsOk_append [c] r h)

/-- the operands contain no `#` -/
theorem operands_noHash (sp : Spelling) (i : Instr) (hs : Spellable i) : NoHash (operands sp i []) := by
  obtain ⟨hrd, hrs1, hrs2, -, -, hf⟩ := hs
  have hg := allWs_gapOf sp
  have b1 := allWs_blanks sp.c1a
  have b2 := allWs_blanks sp.c1b
  have b3 := allWs_blanks sp.c2a
  have b4 := allWs_blanks sp.c2b
  have p1 := allWs_blanks sp.pa
  have p2 := allWs_blanks sp.pb
  have p3 := allWs_blanks sp.pc
  have hc : (',' : Char) ≠ '#' := by decide
  have hl : ('(' : Char) ≠ '#' := by decide
  have hr : (')' : Char) ≠ '#' := by decide
  cases hcl : cls i.op <;> simp only [operands, hcl]
  case fence => exact absurd (cls_fence_eq _ hcl) hf
  all_goals
    repeat' first
      | exact noHash_nil
      | apply noHash_tReg _ _ _ _ (by assumption) (by assumption)
      | apply noHash_tNum _ _ _ _ (by assumption)
      | apply noHash_tSep _ _ _ (by assumption) (by assumption)

/-- the operands (when there are any) end with a non-blank -/
theorem operands_ends (sp : Spelling) (i : Instr) (hs : Spellable i) :
    operands sp i [] = [] ∨ EndsOk (operands sp i []) := by
  obtain ⟨hrd, hrs1, hrs2, -, -, hf⟩ := hs
  cases hcl : cls i.op
  case fence => exact absurd (cls_fence_eq _ hcl) hf
  case ecall => left; simp only [operands, hcl]
  case ebreak => left; simp only [operands, hcl]
  all_goals
    right
    simp only [operands, hcl]
    repeat' first
      | exact endsOk_tReg_nil _ _ _ (by assumption)
      | exact endsOk_tNum_nil _ _ _
      | exact endsOk_tSep_rparen _
      | apply endsOk_tReg
      | apply endsOk_tNum
      | apply endsOk_tSep

/-! ### the entry of a spelled line -/

theorem pyStrip_fixed (l : List Char) (hh : ∀ c ∈ l.head?, pyIsSpace c = false)
    (hl : ∀ c ∈ l.getLast?, pyIsSpace c = false) : pyStrip l = l := by
  have e1 : l.dropWhile pyIsSpace = l := dropWhile_fixed l hh
  have e2 : l.reverse.dropWhile pyIsSpace = l.reverse :=
    dropWhile_fixed _ (by rw [List.head?_reverse]; exact hl)
  simp only [pyStrip, e1, e2, List.reverse_reverse]

theorem entryOf_fixed (l : List Char) (hh : ∀ c ∈ l.head?, pyIsSpace c = false ∧ c ≠ '#') (he : EndsOk l)
    (hn : NoHash l) : entryOf l = some l := by
  have hs : pyStrip l = l := pyStrip_fixed l (fun c hc => (hh c hc).1) he.2
  have ht : entryText l = l := by rw [entryText, takeWhile_noHash l hn, hs]
  have hk : keepLine l = true := by
    rw [keepLine, hs]
    cases l with
    | nil => exact absurd rfl he.1
    | cons a r =>
      have : a ≠ '#' := (hh a (by simp)).2
      simp [this]
  simp only [entryOf, hk, ht, if_true]

theorem allSpace_blanks (b : List Bool) : AllSpace (blanks b) := by
  intro c hc
  simp only [blanks, List.mem_map] at hc
  obtain ⟨t, _, rfl⟩ := hc
  cases t <;> decide

theorem core_facts (sp : Spelling) (i : Instr) (hs : Spellable i) :
    (∀ c ∈ (core sp i).head?, pyIsSpace c = false ∧ c ≠ '#') ∧ EndsOk (core sp i) ∧ NoHash (core sp i) := by
  have hm := recase_mn_chars sp.mnCase i.op
  have hne : recase sp.mnCase (mn i.op) ≠ [] := recase_ne_nil _ _ (mn_low i.op).2
  have hmE : EndsOk (recase sp.mnCase (mn i.op)) :=
    endsOk_of_all _ hne (fun c hc => (letter_not_space c (hm c hc)).1)
  refine ⟨?_, ?_, ?_⟩
  · intro c hc
    simp only [core] at hc
    cases hr : recase sp.mnCase (mn i.op) with
    | nil => exact absurd hr hne
    | cons a r =>
      rw [hr] at hc hm
      simp only [List.cons_append, List.head?_cons, Option.mem_def, Option.some.injEq] at hc
      subst hc
      exact letter_not_space a (hm a (by simp))
  · rcases operands_ends sp i hs with h | h
    · rw [core, h, List.append_nil]; exact hmE
    · exact endsOk_append _ _ h
  · exact noHash_append (fun hx => (letter_not_space '#' (hm '#' hx)).2 rfl) (operands_noHash sp i hs)

/-- What `sanitize` makes of a spelled line, with or without a trailing comment: the line without its leading
    and trailing blanks. -/
theorem entryOf_render (sp : Spelling) (i : Instr) (hs : Spellable i) (cmt : List Char)
    (hc : cmt = [] ∨ ∃ c, cmt = '#' :: c) :
    entryOf (render sp i ++ cmt) = some (render { sp with lead := [], trail := [] } i) := by
  obtain ⟨h1, h2, h3⟩ := core_facts sp i hs
  have hplain : entryOf (render sp i) = some (core sp i) := by
    rw [render_core, entryOf_indent _ _ _ (allSpace_blanks _) (allSpace_blanks _)]
    exact entryOf_fixed _ h1 h2 h3
  rw [render_core_eq]
  rcases hc with rfl | ⟨c, rfl⟩
  · rw [List.append_nil]; exact hplain
  · rw [entryOf_comment _ _ ?_]
    · exact hplain
    · rw [render_core]
      exact noHash_append (noHash_append (noHash_allWs _ (allWs_blanks _)) h3) (noHash_allWs _ (allWs_blanks _))

/-- `load_spelled` for a text given by its lines. -/
theorem load_spelled_lines (s : St) (ls : List (List Char)) (hnb : ∀ l ∈ ls, NoBreak l) (prog : List Instr)
    (sps : List Spelling) (hl : ls.filterMap entryOf = List.zipWith render sps prog)
    (hlen : sps.length = prog.length) (hc : CanonFrom 0 prog) (haux : ∀ i ∈ prog, i.aux.natAbs < 10 ^ 4300)
    (hsize : prog.length ≤ 4096) :
    (load s (joinLines ls)).err = none ∧ (load s (joinLines ls)).st.imem.prog = prog := by
  apply load_spelled s _ prog sps ?_ hlen hc haux hsize
  rw [sanitize_texts]
  have := entryTexts_joinLines ls hnb
  rw [entryTexts] at this
  rw [this, hl]

end ArchSim.Lemmas.C04Spell
