/-
C03 (program level), part 8: the five-stage loop stops without a fault when the sequential machine
reaches a done state without a fault.  (Pipeline-level facts, independent of the data memory system;
they complement C02's `final_state`, `fault_agrees` and `pipe_terminates`.)
-/
import ArchSim.Props.C02

namespace ArchSim.Lemmas.C03Prog
open ArchSim ArchSim.Rv ArchSim.Pipe

/-! ### the exit code of a completion that is live or stuck at a fault -/

/-- The completion did not stop at a redirect / exit: it is live, or stuck at a fault. -/
def LiveOrStuck (c : Comp) : Prop := c.red = none ∨ c.flt.isSome = true

theorem cWB_los (s : St) (l : Option Latch) (fl : Option Int) (h : LiveOrStuck (cWB s l fl)) :
    (cWB s l fl).st.exitCode = s.exitCode := by
  rcases h with h | h
  · exact cWB_live_exitCode s l fl h
  · rw [cWB_flt] at h; cases h

theorem cMEM_los (s : St) (e : Option Latch) (fl : Option Int) (h : LiveOrStuck (cMEM s e fl)) :
    (cMEM s e fl).st.exitCode = s.exitCode := by
  cases hf : (memStage s e).fault with
  | some ft => unfold cMEM; rw [hf]; rfl
  | none =>
    rw [cMEM_nofault _ _ _ hf] at h ⊢
    rw [cWB_los _ _ _ h, memStage_exitCode]

theorem cEX_los (s : St) (d : Option Latch) (h : LiveOrStuck (cEX s d)) :
    (cEX s d).st.exitCode = s.exitCode := by
  cases hf : (exStage s d none none).fault with
  | some ft => unfold cEX; rw [hf]; rfl
  | none =>
    rw [cEX_nofault _ _ hf] at h ⊢
    rw [cMEM_los _ _ _ h, exStage_exitCode]

theorem cID_los (s : St) (f : Option Latch) (h : LiveOrStuck (cID s f)) :
    (cID s f).st.exitCode = s.exitCode := cEX_los s _ h

theorem bind_los {c : Comp} {f : St → Comp} {x : Option Int}
    (hc : LiveOrStuck c → c.st.exitCode = x)
    (hf : ∀ s, LiveOrStuck (f s) → (f s).st.exitCode = s.exitCode) :
    LiveOrStuck (c.bind f) → (c.bind f).st.exitCode = x := by
  intro h
  unfold Comp.bind at h ⊢
  cases hr : c.red with
  | none =>
    simp only [hr] at h ⊢
    have h' : LiveOrStuck (f c.st) := h
    rw [hf c.st h', hc (Or.inl hr)]
  | some a =>
    simp only [hr] at h ⊢
    exact hc h

/-- If the abstraction is live or stuck at a fault, no exiting ECALL has been completed in it: its
    exit code is the physical one. -/
theorem abs_los_exitCode (p : PSt) (h : LiveOrStuck (absC p)) : (abs p).exitCode = p.st.exitCode := by
  show (absC p).st.exitCode = _
  unfold absC at h ⊢
  exact bind_los (bind_los (bind_los (bind_los (cWB_los _ _ _) (fun s => cMEM_los s _ _))
    (fun s => cEX_los s _)) (fun s => cID_los s _)) (fun s => cID_los s _) h

/-! ### refinement with both pieces of information -/

/-- `refine_run_first` and the fault clause of `refine_run` for the same index `k`: after `n`
    fault-free cycles none of which started in a done state, the abstraction is the sequential state
    after `k ≤ n` steps, the sequential machine was not done before step `k`, and the predicted fault
    (if any) is the fault of the sequential machine in that state. -/
theorem refine_run_both (p0 : PSt) (hI : PInv p0) (hz : p0.hazard = true) (h0 : absF p0 = none) :
    ∀ n, runOK n p0 → (∀ m, m < n → isDone (pipeRun m p0) = false) →
      ∃ k, k ≤ n ∧ SimP (abs (pipeRun n p0)) (seqRun k (abs p0)) ∧
        (∀ j, j < k → singleDone (seqRun j (abs p0)) = false) ∧
        (absF (pipeRun n p0) = none ∨ absF (pipeRun n p0) = seqFault (seqRun k (abs p0)))
  | 0, _, _ => ⟨0, Nat.le_refl 0, SimP.rfl' _, fun j hj => absurd hj (Nat.not_lt_zero j), Or.inl h0⟩
  | n + 1, hr, hnd => by
    obtain ⟨hr', hf⟩ := runOK_succ hr
    obtain ⟨k, hk, hsim, hfirst, hflt⟩ :=
      refine_run_both p0 hI hz h0 n hr' (fun m hm => hnd m (Nat.lt_succ_of_lt hm))
    have hIn := PInv_run p0 hI n hr'
    have hzn : (pipeRun n p0).hazard = true := by rw [hazard_run, hz]
    obtain ⟨a1, a2, _⟩ := Pipe.abs_step (pipeRun n p0) hIn hzn hf
    have hcA : FetchSound (abs (pipeRun n p0)).imem := by rw [abs_imem]; exact hIn.icoh.fetchSound
    have hcS : FetchSound (seqRun k (abs p0)).imem :=
      (ICoh_seqRun (abs p0) (by rw [abs_imem]; exact hI.icoh) k).fetchSound
    cases hfo : fetchOK (pipeRun n p0) with
    | false =>
      rw [hfo] at a1 a2
      simp only [Bool.false_eq_true, if_false] at a1 a2
      refine ⟨k, Nat.le_succ_of_le hk, a1.trans hsim, hfirst, ?_⟩
      show absF (step (pipeRun n p0)).p = none ∨ absF (step (pipeRun n p0)).p = _
      rw [a2]; exact hflt
    | true =>
      rw [hfo] at a1 a2
      simp only [if_true] at a1 a2
      obtain ⟨c1, c2⟩ := seqStep_simP hsim hcA hcS
      have hnd' := not_singleDone_of_fetchOK _ hfo (hnd n (Nat.lt_succ_self n))
      refine ⟨k + 1, Nat.succ_le_succ hk, a1.trans c1, fun j hj => ?_, ?_⟩
      · by_cases hjk : j < k
        · exact hfirst j hjk
        · have : j = k := by omega
          subst this
          rw [← singleDone_congr hsim]; exact hnd'
      · show absF (step (pipeRun n p0)).p = none ∨
          absF (step (pipeRun n p0)).p = seqFault (seqStep (seqRun k (abs p0)))
        rw [a2, c2]
        cases hsf : seqFault (seqRun k (abs p0)) with
        | none => exact Or.inl rfl
        | some x =>
          right
          rw [seqStep_stuck _ (by rw [hsf]; rfl), hsf]

/-! ### no fault before the first done state -/

/-- If the sequential machine reaches a done state after `kstar` steps none of which raises, a cycle
    of the five-stage pipeline that starts before the pipeline is done does not raise. -/
theorem no_fault_before_done (st : St) (hp : Pipe.ProgOK st.imem) (hc : ICoh st.imem) (kstar : Nat)
    (hd : singleDone (seqRun kstar st) = true)
    (hnf : ∀ j, j < kstar → seqFault (seqRun j st) = none)
    (n : Nat) (hr : runOK n (PSt.init st true))
    (hnd : ∀ m, m ≤ n → isDone (pipeRun m (PSt.init st true)) = false) :
    (step (pipeRun n (PSt.init st true))).fault = none := by
  cases hft : (step (pipeRun n (PSt.init st true))).fault with
  | none => rfl
  | some ft =>
    exfalso
    have hI := PInv_init st true hp hc
    obtain ⟨k, hk, hsim, hfirst, hflt⟩ := refine_run_both _ hI rfl (absF_init st true) n hr
      (fun m hm => hnd m (Nat.le_of_lt hm))
    rw [abs_init] at hsim hfirst hflt
    obtain ⟨f1, f2, _, _⟩ := fault_local (pipeRun n (PSt.init st true)) (PInv_run _ hI n hr) ft hft
    have hsf : seqFault (seqRun k st) = some (ft.addr, ft.fault) := by
      rcases hflt with h | h
      · rw [f1] at h; cases h
      · rw [← h, f1]
    have hge : kstar ≤ k := by
      rcases Nat.lt_or_ge k kstar with hlt | hge
      · rw [hnf k hlt] at hsf; cases hsf
      · exact hge
    have hle : k ≤ kstar := by
      rcases Nat.lt_or_ge kstar k with hlt | hle
      · rw [hfirst kstar hlt] at hd; cases hd
      · exact hle
    have hkk : k = kstar := by omega
    subst hkk
    have hdA : singleDone (abs (pipeRun n (PSt.init st true))) = true := by
      rw [singleDone_congr hsim]; exact hd
    have hxp := exitCode_none_of_not_done _ (hnd n (Nat.le_refl n))
    have hlos : LiveOrStuck (absC (pipeRun n (PSt.init st true))) := by
      right
      have : (absC (pipeRun n (PSt.init st true))).flt = some (ft.addr, ft.fault) := f1
      rw [this]; rfl
    have hxa := abs_los_exitCode _ hlos
    rw [hxp] at hxa
    unfold singleDone at hdA
    rw [hxa] at hdA
    simp only [Option.isSome_none, Bool.false_or, Option.isNone_iff_eq_none] at hdA
    have hno : (seqRun k st).imem.instrAt (seqRun k st).pc = none := by
      rw [← instrAt_congr hsim.1.prog, ← hsim.2]; exact hdA
    unfold seqFault at hsf
    rw [splitStep_noinstr _ hno] at hsf
    cases hsf

/-- Cycles that start before the pipeline is done do not raise, so the run is fault-free up to the
    first done state. -/
theorem runOK_of_notdone (st : St) (hp : Pipe.ProgOK st.imem) (hc : ICoh st.imem) (kstar : Nat)
    (hd : singleDone (seqRun kstar st) = true)
    (hnf : ∀ j, j < kstar → seqFault (seqRun j st) = none) :
    ∀ b, (∀ m, m < b → isDone (pipeRun m (PSt.init st true)) = false) → runOK b (PSt.init st true)
  | 0, _ => fun m hm => absurd hm (Nat.not_lt_zero m)
  | b + 1, hnd => by
    have ih := runOK_of_notdone st hp hc kstar hd hnf b (fun m hm => hnd m (by omega))
    intro m hm
    rcases Nat.lt_or_ge m b with hlt | hge
    · exact ih m hlt
    · have : m = b := by omega
      subst this
      exact no_fault_before_done st hp hc kstar hd hnf m ih (fun m' hm' => hnd m' (by omega))

/-- THE LOOP STOPS WITHOUT A FAULT.  If the sequential machine reaches a done state after `kstar`
    steps none of which raises, the five-stage simulation loop `while not is_done(): step()` stops
    after at most `5 * (kstar + 2)` cycles, none of which raises. -/
theorem loop_completes (st : St) (hp : Pipe.ProgOK st.imem) (hc : ICoh st.imem) (kstar : Nat)
    (hd : singleDone (seqRun kstar st) = true)
    (hnf : ∀ j, j < kstar → seqFault (seqRun j st) = none) :
    ∃ n, n ≤ 5 * (kstar + 2) ∧ runOK n (PSt.init st true) ∧
      isDone (pipeRun n (PSt.init st true)) = true ∧
      ∀ m, m < n → isDone (pipeRun m (PSt.init st true)) = false := by
  obtain ⟨N, hN, hor⟩ := terminates_init st hp hc kstar (Or.inl hd)
  have hex : ∃ m, m ≤ N ∧ isDone (pipeRun m (PSt.init st true)) = true := by
    rcases hor with h | h
    · apply Classical.byContradiction
      intro hne
      apply h
      apply runOK_of_notdone st hp hc kstar hd hnf N
      intro m hm
      cases hq : isDone (pipeRun m (PSt.init st true)) with
      | false => rfl
      | true => exact absurd ⟨m, Nat.le_of_lt hm, hq⟩ hne
    · exact ⟨N, Nat.le_refl _, h⟩
  obtain ⟨m, hm, hdm⟩ := hex
  obtain ⟨n, hn, h1, h2⟩ := first_done (PSt.init st true) m hdm
  exact ⟨n, by omega, runOK_of_notdone st hp hc kstar hd hnf n h2, h1, h2⟩

end ArchSim.Lemmas.C03Prog
