/-
End-to-end, part 1: every instruction object the assembler back end (`Asm.instantiate`, `Asm.buildInstrs`)
builds from a syntax tree of the grammar is a well-formed instruction object (`Instr.WF`), provided its
operation is in the supported set (no CSR form, `fence`, `ebreak`).
-/
import ArchSim.Lemmas.C14Built
import ArchSim.Lemmas.C02SplitArith

namespace ArchSim.Lemmas.E2E
open ArchSim ArchSim.PP ArchSim.Rv ArchSim.Asm ArchSim.Lemmas.C14

/-- The fields `Instr.WF` constrains, without the "supported" clause: register numbers below 32, the
    stored immediate in the range of the format, and the operation is not `ecall` (which `instantiate`
    never builds: `ecall` objects come from the bare word). -/
def Fields (i : Instr) : Prop :=
  i.rd < 32 ∧ i.rs1 < 32 ∧ i.rs2 < 32 ∧ immRange i.op i.imm ∧ i.op ≠ .ecall

theorem Fields.wf {i : Instr} (h : Fields i) (hs : i.op.supported = true) : i.WF :=
  ⟨hs, h.1, h.2.1, h.2.2.1, h.2.2.2.1, fun he => absurd he h.2.2.2.2⟩

theorem fields_mkInstr (op : Op) (rd rs1 rs2 : Nat) (raw aux : Int) (h1 : rd < 32) (h2 : rs1 < 32)
    (h3 : rs2 < 32) (hne : op ≠ .ecall) : Fields (mkInstr op rd rs1 rs2 raw aux) :=
  ⟨h1, h2, h3, ArchSim.Lemmas.C02Split.immRange_storedImm op raw, hne⟩

/-- none of the mnemonics of the grouped grammar alternatives is `ecall` -/
theorem not_ecall : ∀ mn ∈ rrrMn ++ uMn ++ bMn ++ memIMn ++ sMn ++ normalIMn ++ csrMn ++ csriMn,
    Op.ofMnemonic mn ≠ some .ecall := by decide

theorem ne_ecall_of {mn : String} {op : Op}
    (hm : mn ∈ rrrMn ++ uMn ++ bMn ++ memIMn ++ sMn ++ normalIMn ++ csrMn ++ csriMn)
    (ho : Op.ofMnemonic mn = some op) : op ≠ .ecall := by
  intro he; subst he; exact not_ecall mn hm ho

theorem immRange_csr (op : Op) (v : Int) (h : op.ty = .csr ∨ op.ty = .csri ∨ op.ty = .fence) :
    immRange op v := by
  unfold immRange
  rcases h with h | h | h <;> simp [h]

theorem mem_all {mn : String} :
    (mn ∈ rrrMn ∨ mn ∈ uMn ∨ mn ∈ bMn ∨ mn ∈ memIMn ++ sMn ∨ mn ∈ normalIMn ++ memIMn ++ bMn ++ sMn ∨
      mn ∈ csrMn ∨ mn ∈ csriMn) →
    mn ∈ rrrMn ++ uMn ++ bMn ++ memIMn ++ sMn ++ normalIMn ++ csrMn ++ csriMn := by
  intro h
  simp only [List.mem_append] at h ⊢
  rcases h with h | h | h | (h | h) | (((h | h) | h) | h) | h | h <;> simp [h]

/-- What `instantiate` builds from ANY tree of the grammar, at any address and for any label table. -/
theorem instantiate_fields (ls : Labels) (addr : Int) (k : Nat) (line : String) (pi : PInstr) (i : Instr)
    (hg : GrammarForm pi) (h : instantiate ls addr k line pi = .ok i) : Fields i := by
  cases pi with
  | rtype mn a b c =>
    obtain ⟨hm, ha, hb, hc⟩ := hg
    cases ho : Op.ofMnemonic mn with
    | none => simp [instantiate, ho] at h
    | some op =>
      simp only [instantiate, ho, Except.ok.injEq] at h
      subst h
      exact fields_mkInstr _ _ _ _ _ _ ha hb hc (ne_ecall_of (mem_all (.inl hm)) ho)
  | utype mn a v =>
    obtain ⟨hm, ha⟩ := hg
    cases ho : Op.ofMnemonic mn with
    | none => simp [instantiate, ho] at h
    | some op =>
      simp only [instantiate, ho, Except.ok.injEq] at h
      subst h
      exact fields_mkInstr _ _ _ _ _ _ ha (by decide) (by decide) (ne_ecall_of (mem_all (.inr (.inl hm))) ho)
  | mem mn a v b =>
    obtain ⟨hm, ha, hb⟩ := hg
    cases ho : Op.ofMnemonic mn with
    | none => simp [instantiate, ho] at h
    | some op =>
      have hne := ne_ecall_of (mem_all (.inr (.inr (.inr (.inl hm))))) ho
      simp only [instantiate, ho] at h
      split at h
      · cases h; exact fields_mkInstr _ _ _ _ _ _ ha hb (by decide) hne
      · cases h; exact fields_mkInstr _ _ _ _ _ _ ha hb (by decide) hne
      · cases h; exact fields_mkInstr _ _ _ _ _ _ ha hb (by decide) hne
      · cases h; exact fields_mkInstr _ _ _ _ _ _ (by decide) hb ha hne
      · split at h
        · cases h
        · cases h; exact fields_mkInstr _ _ _ _ _ _ (by decide) ha hb hne
      · cases h
  | rri mn a b v =>
    obtain ⟨hm, ha, hb⟩ := hg
    cases ho : Op.ofMnemonic mn with
    | none => simp [instantiate, ho] at h
    | some op =>
      have hne := ne_ecall_of (mem_all (.inr (.inr (.inr (.inr (.inl hm)))))) ho
      simp only [instantiate, ho] at h
      split at h
      · cases h; exact fields_mkInstr _ _ _ _ _ _ ha hb (by decide) hne
      · cases h; exact fields_mkInstr _ _ _ _ _ _ ha hb (by decide) hne
      · cases h; exact fields_mkInstr _ _ _ _ _ _ ha hb (by decide) hne
      · cases h; exact fields_mkInstr _ _ _ _ _ _ (by decide) hb ha hne
      · split at h
        · cases h
        · cases h; exact fields_mkInstr _ _ _ _ _ _ (by decide) ha hb hne
      · cases h
  | btypeLabel mn a b l off =>
    obtain ⟨hm, ha, hb⟩ := hg
    cases ho : Op.ofMnemonic mn with
    | none => simp [instantiate, ho] at h
    | some op =>
      have hne := ne_ecall_of (mem_all (.inr (.inr (.inl hm)))) ho
      simp only [instantiate, ho] at h
      split at h
      · cases h
      · cases h; exact fields_mkInstr _ _ _ _ _ _ (by decide) ha hb hne
  | jalImm a v =>
    have ha : a < 32 := hg
    simp only [instantiate] at h
    split at h
    · cases h
    · cases h; exact fields_mkInstr _ _ _ _ _ _ ha (by decide) (by decide) (by decide)
  | jalLabel a l off =>
    have ha : a < 32 := hg
    simp only [instantiate] at h
    split at h
    · cases h
    · cases h; exact fields_mkInstr _ _ _ _ _ _ ha (by decide) (by decide) (by decide)
  | csr mn a c b =>
    obtain ⟨hm, ha, hb⟩ := hg
    have ht := ty_csr mn hm
    cases ho : Op.ofMnemonic mn with
    | none => simp [instantiate, ho] at h
    | some op =>
      simp only [ho, Option.map_some, Option.some.injEq] at ht
      simp only [instantiate, ho, Except.ok.injEq] at h
      subst h
      exact ⟨ha, hb, Nat.zero_lt_succ _, immRange_csr _ _ (.inl ht),
        ne_ecall_of (mem_all (.inr (.inr (.inr (.inr (.inr (.inl hm))))))) ho⟩
  | csri mn a c u =>
    obtain ⟨hm, ha⟩ := hg
    have ht := ty_csri mn hm
    cases ho : Op.ofMnemonic mn with
    | none => simp [instantiate, ho] at h
    | some op =>
      simp only [ho, Option.map_some, Option.some.injEq] at ht
      simp only [instantiate, ho, Except.ok.injEq] at h
      subst h
      exact ⟨ha, Nat.zero_lt_succ _, Nat.zero_lt_succ _, immRange_csr _ _ (.inr (.inl ht)),
        ne_ecall_of (mem_all (.inr (.inr (.inr (.inr (.inr (.inr hm))))))) ho⟩
  | fence a b =>
    simp only [instantiate, Except.ok.injEq] at h
    subst h
    exact ⟨by decide, by decide, by decide, immRange_csr _ _ (.inr (.inr rfl)), by decide⟩
  | memPseudo _ _ _ _ => simp only [instantiate] at h; cases h
  | sPseudo _ _ _ _ _ => simp only [instantiate] at h; cases h
  | li _ _ => simp only [instantiate] at h; cases h
  | mv _ _ => simp only [instantiate] at h; cases h

/-- An instruction object of a built program: made by `instantiate`, or one of the two bare words. -/
def BuiltObj (i : Instr) : Prop := Fields i ∨ i = { op := .ecall } ∨ i = { op := .ebreak, imm := 1 }

theorem BuiltObj.wf {i : Instr} (h : BuiltObj i) (hs : i.op.supported = true) : i.WF := by
  rcases h with h | h | h
  · exact h.wf hs
  · subst h; decide
  · subst h; exact absurd hs (by decide)

/-- Every instruction of the program `buildInstrs` produces from trees of the grammar (any start address,
    any label table) is a `BuiltObj`. -/
theorem buildInstrs_objs (ls : Labels) (es : List TEntry) : ∀ (addr : Int) (prog : List Instr),
    GrammarEntries es → buildInstrs ls es addr = .ok prog → ∀ i ∈ prog, BuiltObj i := by
  induction es with
  | nil =>
    intro addr prog _ h i hi
    simp only [buildInstrs, Except.ok.injEq] at h
    subst h; cases hi
  | cons e rest ih =>
    obtain ⟨k, line, it⟩ := e
    intro addr prog hg h
    have hg' : GrammarEntries rest := fun e he => hg e (List.mem_cons_of_mem _ he)
    cases it with
    | str s =>
      simp only [buildInstrs] at h
      by_cases h1 : s = "ecall"
      · simp only [h1, if_true] at h
        obtain ⟨tl, htl, rfl⟩ := map_ok_inv h
        intro i hi
        rcases List.mem_cons.mp hi with rfl | hi
        · exact .inr (.inl rfl)
        · exact ih _ _ hg' htl i hi
      · by_cases h2 : s = "ebreak"
        · simp only [h2, if_true] at h
          obtain ⟨tl, htl, rfl⟩ := map_ok_inv h
          intro i hi
          rcases List.mem_cons.mp hi with rfl | hi
          · exact .inr (.inr rfl)
          · exact ih _ _ hg' htl i hi
        · simp only [if_neg h1, if_neg h2] at h
          exact ih _ _ hg' h
    | grp pi =>
      simp only [buildInstrs] at h
      cases hi0 : instantiate ls addr k line pi with
      | error x => rw [hi0] at h; cases h
      | ok i0 =>
        rw [hi0] at h
        obtain ⟨tl, htl, rfl⟩ := map_ok_inv h
        intro i hi
        rcases List.mem_cons.mp hi with rfl | hi
        · exact .inl (instantiate_fields ls addr k line pi _ (hg _ List.mem_cons_self pi rfl) hi0)
        · exact ih _ _ hg' htl i hi
    | varDecl n t v => simp only [buildInstrs] at h; cases h
    | strDecl n b => simp only [buildInstrs] at h; cases h
    | zeroDecl n c => simp only [buildInstrs] at h; cases h
    | directive d => simp only [buildInstrs] at h; cases h

end ArchSim.Lemmas.E2E
