/-
C04 (spelling independence), part 7: every alternative of the instruction grammar gives the same result on
a mnemonic and on its case variants (generic lemmas; the tables are in C04SpellTbl).
-/
import ArchSim.Lemmas.C04SpellMn3

namespace ArchSim.Lemmas.C04Spell
open ArchSim ArchSim.PP ArchSim.Rv ArchSim.Asm ArchSim.Lemmas.C14

/-! ### what cannot start a register -/

/-- no ABI name is a prefix of `u` and `u` does not start with `x` -/
def noReg (u : List Char) : Bool := abiSyms.all (fun t => !t.toList.isPrefixOf u) && (u.head? != some 'x')

theorem abi_chars_table : ∀ t ∈ abiSyms, ∀ c ∈ t.toList, isLabelBody c = true ∧ toLowerAscii c = c := by decide

theorem map_id_of_fixed (f : Char → Char) (l : List Char) (h : ∀ c ∈ l, f c = c) : l.map f = l := by
  induction l with
  | nil => rfl
  | cons a l ih => simp [h a (by simp), ih (fun c hc => h c (by simp [hc]))]

/-- A case variant of a word that cannot start a register cannot start one either. -/
theorem pReg_fail_var (u' u rest : List Char) (hv : CaseVar u' u) (hne : u ≠ []) (hn : noReg u = true)
    (ht : TokEnd rest) : pReg (u' ++ rest) = .fail := by
  simp only [noReg, Bool.and_eq_true, List.all_eq_true, Bool.not_eq_true', bne_iff_ne, ne_eq] at hn
  obtain ⟨hn1, hn2⟩ := hn
  obtain ⟨c', cs', rfl⟩ : ∃ c' cs', u' = c' :: cs' := by
    cases u' with
    | nil => exact absurd hv.nil_iff hne
    | cons c' cs' => exact ⟨c', cs', rfl⟩
  obtain ⟨c, cs, rfl, hlc, hcl, hc'l, hv'⟩ := hv.cons
  have hws : isWs c' = false := (letter_facts c' hc'l).2.1
  have h1 : oneOf (abiNames.map (·.1)) (c' :: (cs' ++ rest)) = .fail := by
    unfold oneOf
    simp only [skipWs_cons_of_not_ws c' _ hws, oneOf_go_eq]
    rw [find_longestFirst_none]
    intro t ht'
    have htc := abi_chars_table t ht'
    cases hp : t.toList.isPrefixOf (c' :: (cs' ++ rest)) with
    | false => rfl
    | true =>
      exfalso
      have hp' : t.toList.isPrefixOf ((c' :: cs') ++ rest) = true := hp
      rw [isPrefixOf_append_class isLabelBody _ _ _ (fun c hc => (htc c hc).1) ht] at hp'
      have hpre := (List.isPrefixOf_iff_prefix.mp hp').map toLowerAscii
      rw [map_id_of_fixed toLowerAscii _ (fun c hc => (htc c hc).2), hv.1] at hpre
      have := hn1 t ht'
      rw [List.isPrefixOf_iff_prefix.mpr hpre] at this
      cases this
  have h2 : lit "x" (c' :: (cs' ++ rest)) = .fail := by
    have : c' ≠ 'x' := by
      rintro rfl
      apply hn2
      rw [← hlc]; rfl
    simp [lit, skipWs_cons_of_not_ws c' _ hws, stripPrefix, Ne.symm this]
  rw [List.cons_append]
  simp [pReg, h1, h2]

/-! ### the mnemonic stage followed by a register -/

/-- the table `L` treats the word `w` well: no symbol matches, or the longest matching symbol is the whole
    word, or what is left of the word cannot start a register -/
def stageOk (L : List String) (w : List Char) : Bool :=
  noMatch L w || L.any (fun s => isBest L w s &&
    (s.toList.length == w.length || noReg (w.drop s.toList.length)))

theorem mnAlt_caseVar {α : Type} (L : List String) (hL : LowSyms L) (k : String → Inp → R α)
    (hk : ∀ s r, pReg r = .fail → k s r = .fail) (w' w rest : List Char) (hv : CaseVar w' w) (hne : w ≠ [])
    (hok : stageOk L w = true) (hr : MnSep rest) (ht : TokEnd rest) :
    (oneOfCaseless L (w' ++ rest)).bind k = (oneOfCaseless L (w ++ rest)).bind k := by
  rw [oneOfCaseless_var L w' w rest hL hv hne hr, oneOfCaseless_var L w w rest hL (CaseVar.refl hv.2) hne hr]
  simp only [stageOk, Bool.or_eq_true, List.any_eq_true, Bool.and_eq_true, beq_iff_eq] at hok
  rcases hok with h | ⟨s, _, hb, hs⟩
  · rw [find_of_noMatch L w h]
  · rw [find_of_isBest L w s hb]
    simp only [bind_ok]
    by_cases hu : w.drop s.toList.length = []
    · have hu' : w'.drop s.toList.length = [] := by
        apply List.length_eq_zero_iff.mp
        rw [(hv.drop _).length, hu]; rfl
      rw [hu, hu']
    · rcases hs with hs | hs
      · exfalso; apply hu; rw [hs]; simp
      · rw [hk s _ (pReg_fail_var _ _ rest (hv.drop _) hu hs ht),
          hk s _ (pReg_fail_var _ _ rest (CaseVar.refl (hv.drop _).2) hu hs ht)]

/-- the keyword `kw` treats the word `w` well (as `stageOk`) -/
def kwOk (kw : String) (w : List Char) : Bool :=
  !kw.toList.isPrefixOf w || kw.toList.length == w.length || noReg (w.drop kw.toList.length)

theorem kwAlt_caseVar {α : Type} (kw : String) (hkw : ∀ c ∈ kw.toList, isLow c = true) (k : Unit → Inp → R α)
    (hk : ∀ s r, pReg r = .fail → k s r = .fail) (w' w rest : List Char) (hv : CaseVar w' w) (hne : w ≠ [])
    (hok : kwOk kw w = true) (hr : MnSep rest) (ht : TokEnd rest) :
    (caselessLit kw (w' ++ rest)).bind k = (caselessLit kw (w ++ rest)).bind k := by
  rw [caselessLit_var kw w' w rest hkw hv hne hr, caselessLit_var kw w w rest hkw (CaseVar.refl hv.2) hne hr]
  by_cases hp : kw.toList.isPrefixOf w = true
  · simp only [hp, if_true, bind_ok]
    by_cases hu : w.drop kw.toList.length = []
    · have hu' : w'.drop kw.toList.length = [] := by
        apply List.length_eq_zero_iff.mp
        rw [(hv.drop _).length, hu]; rfl
      rw [hu, hu']
    · simp only [kwOk, hp, Bool.not_true, Bool.false_or, Bool.or_eq_true, beq_iff_eq] at hok
      rcases hok with hs | hs
      · exfalso; apply hu; rw [hs]; simp
      · rw [hk () _ (pReg_fail_var _ _ rest (hv.drop _) hu hs ht),
          hk () _ (pReg_fail_var _ _ rest (CaseVar.refl (hv.drop _).2) hu hs ht)]
  · simp only [hp, Bool.false_eq_true, if_false]

end ArchSim.Lemmas.C04Spell
