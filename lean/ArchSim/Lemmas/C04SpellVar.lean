/-
C04 (spelling independence, part 2), variable operands 1: the token `name` / `name[index]`, and what `pReg`
leaves behind when it is applied to a label (a variable name may start with, or be, a register name).
-/
import ArchSim.Lemmas.C04SpellLab2

namespace ArchSim.Lemmas.C04Spell
open ArchSim ArchSim.PP ArchSim.Rv ArchSim.Asm ArchSim.Lemmas.C14

/-- the optional index of a variable operand: nothing, or `[<decimal digits>]` (no blanks, no sign, no radix
    prefix: `Combine("[" + Word(nums) + "]")` with `int(text, 10)`) -/
inductive IdxSp where
  | none
  | some (ds : List Char)

def idxTxt : IdxSp → List Char
  | .none => []
  | .some ds => '[' :: (ds ++ [']'])

def idxVal : IdxSp → Option Int
  | .none => none
  | .some ds => some ((digitsVal 10 ds : Nat) : Int)

def IdxOk : IdxSp → Prop
  | .none => True
  | .some ds => (∀ c ∈ ds, isNum c = true) ∧ ds ≠ [] ∧ ds.length ≤ 4300

/-- blanks, a variable name, its optional index, the rest -/
def tVar (w name : List Char) (ix : IdxSp) (rest : List Char) : List Char := w ++ (name ++ (idxTxt ix ++ rest))

theorem tVar_eq_tLab (w name : List Char) (ix : IdxSp) (rest : List Char) :
    tVar w name ix rest = tLab w name (idxTxt ix ++ rest) := rfl

theorem tokEnd_idxTxt (ix : IdxSp) (rest : List Char) (hr : TokEnd rest) : TokEnd (idxTxt ix ++ rest) := by
  cases ix with
  | none => exact hr
  | some ds => exact tokEnd_cons '[' _ (by decide)

theorem pyIntDec_digits (ds : List Char) (hds : ∀ c ∈ ds, isNum c = true) (hne : ds ≠ []) (hlen : ds.length ≤ 4300) :
    pyIntDec (String.ofList ds) = some ((digitsVal 10 ds : Nat) : Int) := by
  have hemp : ds.isEmpty = false := by cases ds <;> simp_all
  have hnl : ¬ ds.length > 4300 := by omega
  simp [pyIntDec, hemp, hnl, natOfDigits_valid 10 ds (validDigits_dec ds hds)]

/-- `_pattern_variable` on a name with an optional index: the name and the value of the index. -/
theorem pVariable_tVar (w name : List Char) (ix : IdxSp) (rest : List Char) (hw : AllWs w) (hl : IsLabel name)
    (hi : IdxOk ix) (hr : TokEnd rest) (hb : rest.head? ≠ some '[') :
    pVariable (tVar w name ix rest) = .ok (String.ofList name, idxVal ix) rest := by
  have h1 : pLabel (tVar w name ix rest) = .ok (String.ofList name) (idxTxt ix ++ rest) :=
    pLabel_tLab w name _ hw hl (tokEnd_idxTxt ix rest hr)
  cases ix with
  | none =>
    have h2 : litAdj "[" rest = .fail := by
      simp only [litAdj, show ("[" : String).toList = ['['] from rfl]
      cases rest with
      | nil => rfl
      | cons e r =>
        have : e ≠ '[' := by simpa using hb
        simp [stripPrefix, Ne.symm this]
    simp only [pVariable, h1, bind_ok, idxTxt, List.nil_append, h2, bind_fail, idxVal]
  | some ds =>
    obtain ⟨hds, hne, hlen⟩ := hi
    obtain ⟨c, tl, rfl⟩ := exists_cons_of_ne_nil hne
    have htl : ∀ d ∈ tl, isNum d = true := fun d hd => hds d (by simp [hd])
    have hend : ∀ e ∈ (']' :: rest).head?, isNum e = false := by simp; decide
    have hword : wordAdj isNum isNum (c :: (tl ++ ']' :: rest))
        = .ok (String.ofList (c :: tl)) (']' :: rest) := by
      simp only [wordAdj, hds c (by simp), if_true, takeWhile_class isNum tl _ htl hend,
        dropWhile_class isNum tl _ htl hend]
    have e : idxTxt (.some (c :: tl)) ++ rest = '[' :: (c :: (tl ++ ']' :: rest)) := by
      simp [idxTxt, List.append_assoc]
    simp only [pVariable, h1, bind_ok, e, litAdj, show ("[" : String).toList = ['['] from rfl, stripPrefix,
      if_true, hword, pyIntDec_digits (c :: tl) hds hne hlen, show ("]" : String).toList = [']'] from rfl,
      map_ok, idxVal]

end ArchSim.Lemmas.C04Spell
