/-
C04 (back end): a concrete listing used by the non-vacuity examples.
-/
import ArchSim.Lemmas.C04Build
import ArchSim.Lemmas.C04Branch
import ArchSim.Lemmas.C04Expand
import ArchSim.Lemmas.C04Group

namespace ArchSim.Lemmas.C04
open ArchSim ArchSim.Asm ArchSim.Rv

/-- ```
    start:
    foo: li x5, 100000
    loop:
    beq x5, x0, end
    ecall
    jal x0, loop+0x4
    end:
    ``` (text entries before expansion; the in-line label `foo` of line 2 is in `exPending`) -/
def exSource : List TEntry :=
  [ (1, "start:", .str "start"),
    (2, "foo: li x5, 100000", .grp (.li 5 100000)),
    (3, "loop:", .str "loop"),
    (4, "beq x5, x0, end", .grp (.btypeLabel "beq" 5 0 "end" 0)),
    (5, "ecall", .str "ecall"),
    (6, "jal x0, loop+0x4", .grp (.jalLabel 0 "loop" 4)),
    (7, "end:", .str "end") ]

def exPending : List (Nat × String) := [(2, "foo")]

/-- the listing after expansion -/
def exText : List TEntry :=
  [ (1, "start:", .str "start"),
    (2, "foo: li x5, 100000", .grp (.utype "lui" 5 24)),
    (2, "foo: li x5, 100000", .grp (.rri "addi" 5 5 1696)),
    (3, "loop:", .str "loop"),
    (4, "beq x5, x0, end", .grp (.btypeLabel "beq" 5 0 "end" 0)),
    (5, "ecall", .str "ecall"),
    (6, "jal x0, loop+0x4", .grp (.jalLabel 0 "loop" 4)),
    (7, "end:", .str "end") ]

def exLabels : Labels := [("start", 0), ("foo", 0), ("loop", 8), ("end", 20)]

def exProg : List Instr :=
  [ { op := .lui, rd := 5, imm := 24 }, { op := .addi, rd := 5, rs1 := 5, imm := 1696 },
    { op := .beq, rs1 := 5, rs2 := 0, imm := 12 }, { op := .ecall },
    { op := .jal, rd := 0, imm := -4, aux := 12 } ]

end ArchSim.Lemmas.C04
