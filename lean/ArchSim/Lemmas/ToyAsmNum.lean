/-
TOY assembler numerals: decimal and `0x` hexadecimal digit strings of a number read back
(`valueToInt`) as that number; the `pValue` scanner accepts them.
-/
import ArchSim.Model.ToyAsm
import ArchSim.Lemmas.C17Digits

namespace ArchSim.ToyAsm
open ArchSim ArchSim.PP
open ArchSim.Fmt (digitsRev digitChar)
open ArchSim.Lemmas.C17 (valRev digitsRev_lt valRev_digitsRev digitsRev_ne_nil digitsRev_length_le)

/-! ### digit characters -/

/-- lower-case digit character (what Python's `hex()` prints) -/
def lowerDigit (d : Nat) : Char := if d < 10 then Char.ofNat (48 + d) else Char.ofNat (87 + d)

theorem digitVal_upper : ∀ d < 16, PP.digitVal (digitChar d) = some d := by decide
theorem digitVal_lower : ∀ d < 16, PP.digitVal (lowerDigit d) = some d := by decide
theorem isNum_upper : ∀ d < 10, isNum (digitChar d) = true := by decide
theorem isHexNum_upper : ∀ d < 16, isHexNum (digitChar d) = true := by decide
theorem isHexNum_lower : ∀ d < 16, isHexNum (lowerDigit d) = true := by decide

/-- A digit-character table: maps every digit below 16 to a character with that digit value. -/
def IsDigitTable (dc : Nat → Char) : Prop :=
  ∀ d < 16, PP.digitVal (dc d) = some d ∧ isHexNum (dc d) = true ∧ (d < 10 → isNum (dc d) = true)

theorem isDigitTable_upper : IsDigitTable digitChar :=
  fun d hd => ⟨digitVal_upper d hd, isHexNum_upper d hd, isNum_upper d⟩

theorem isDigitTable_lower : IsDigitTable lowerDigit := by
  intro d hd
  refine ⟨digitVal_lower d hd, isHexNum_lower d hd, ?_⟩
  revert d; decide

/-- The digit string of `n` in `base` (most significant digit first, no leading zero, `"0"` for 0). -/
def digitStr (dc : Nat → Char) (base n : Nat) : List Char :=
  if n = 0 then [dc 0] else (digitsRev base (n + 1) n).reverse.map dc

/-- decimal numeral of `n` -/
def decNumeral (n : Nat) : String := String.ofList (digitStr digitChar 10 n)
/-- `0x` numeral of `n` with upper-case digits -/
def hexNumeral (n : Nat) : String := "0x" ++ String.ofList (digitStr digitChar 16 n)
/-- `0x` numeral of `n` with lower-case digits -/
def hexNumeralLower (n : Nat) : String := "0x" ++ String.ofList (digitStr lowerDigit 16 n)

/-! ### `natOfDigits` -/

theorem natOfDigits_nil (base : Nat) : natOfDigits base [] = some 0 := rfl

theorem natOfDigits_snoc (base : Nat) (s : List Char) (c : Char) (a d : Nat)
    (hs : natOfDigits base s = some a) (hc : PP.digitVal c = some d) (hd : d < base) :
    natOfDigits base (s ++ [c]) = some (a * base + d) := by
  simp only [natOfDigits, List.foldl_append, List.foldl_cons, List.foldl_nil] at hs ⊢
  rw [hs, hc]
  simp [hd]

/-- Horner: a list of digits (least significant first) written most significant first. -/
theorem natOfDigits_reverse_map (dc : Nat → Char) (hdc : IsDigitTable dc) (base : Nat) (hb : base ≤ 16)
    (ds : List Nat) (hds : ∀ d ∈ ds, d < base) :
    natOfDigits base (ds.reverse.map dc) = some (valRev base ds) := by
  induction ds with
  | nil => rfl
  | cons d ds ih =>
    have hd : d < base := hds d (by simp)
    have ih' := ih (fun x hx => hds x (by simp [hx]))
    simp only [List.reverse_cons, List.map_append, List.map_cons, List.map_nil]
    rw [natOfDigits_snoc base _ _ _ d ih' (hdc d (by omega)).1 hd]
    simp only [valRev]
    congr 1
    rw [Nat.mul_comm]; omega

/-- **Round trip**: the digit string of `n` reads back as `n`. -/
theorem natOfDigits_digitStr (dc : Nat → Char) (hdc : IsDigitTable dc) (base : Nat) (hb : 2 ≤ base)
    (hb' : base ≤ 16) (n : Nat) : natOfDigits base (digitStr dc base n) = some n := by
  unfold digitStr
  split
  · next h =>
    subst h
    have := natOfDigits_snoc base [] (dc 0) 0 0 rfl (hdc 0 (by omega)).1 (by omega)
    simpa using this
  · rw [natOfDigits_reverse_map dc hdc base hb' _ (digitsRev_lt base (by omega) _ _),
      valRev_digitsRev base hb _ _ (by omega)]

theorem digitStr_ne_nil (dc : Nat → Char) (base n : Nat) : digitStr dc base n ≠ [] := by
  unfold digitStr
  split
  · simp
  · next h => simpa using digitsRev_ne_nil base (n + 1) n h (by omega)

theorem digitStr_mem (dc : Nat → Char) (base : Nat) (hb : 0 < base) (n : Nat) :
    ∀ c ∈ digitStr dc base n, ∃ d < base, c = dc d := by
  unfold digitStr
  split
  · intro c hc
    simp only [List.mem_singleton] at hc
    exact ⟨0, hb, hc⟩
  · intro c hc
    simp only [List.mem_map, List.mem_reverse] at hc
    obtain ⟨d, hd, rfl⟩ := hc
    exact ⟨d, digitsRev_lt base hb _ _ d hd, rfl⟩

theorem digitStr_isNum (dc : Nat → Char) (hdc : IsDigitTable dc) (n : Nat) :
    ∀ c ∈ digitStr dc 10 n, isNum c = true := by
  intro c hc
  obtain ⟨d, hd, rfl⟩ := digitStr_mem dc 10 (by omega) n c hc
  exact (hdc d (by omega)).2.2 hd

theorem digitStr_isHexNum (dc : Nat → Char) (hdc : IsDigitTable dc) (n : Nat) :
    ∀ c ∈ digitStr dc 16 n, isHexNum c = true := by
  intro c hc
  obtain ⟨d, hd, rfl⟩ := digitStr_mem dc 16 (by omega) n c hc
  exact (hdc d hd).2.1

/-- `n < base ^ w` has at most `w` digits (`w ≥ 1`). -/
theorem digitStr_length_le (dc : Nat → Char) (base : Nat) (hb : 0 < base) (n w : Nat) (hw : 1 ≤ w)
    (hn : n < base ^ w) : (digitStr dc base n).length ≤ w := by
  unfold digitStr
  split
  · simpa using hw
  · simpa using digitsRev_length_le base hb (n + 1) n w hn

/-! ### `valueToInt` -/

theorem valueToInt_dec (ds : List Char) (h : ∀ c ∈ ds, isNum c = true) :
    valueToInt (String.ofList ds) = (natOfDigits 10 ds).getD 0 := by
  unfold valueToInt
  simp only [String.toList_ofList]
  split
  · next ds' =>
    have := h 'x' (by simp)
    exact absurd this (by decide)
  · rfl

theorem valueToInt_hex (hs : List Char) :
    valueToInt ("0x" ++ String.ofList hs) = (natOfDigits 16 hs).getD 0 := by
  unfold valueToInt
  have : ("0x" ++ String.ofList hs).toList = '0' :: 'x' :: hs := by simp
  rw [this]
  rfl

/-- A decimal numeral denotes its number. -/
theorem valueToInt_decNumeral (n : Nat) : valueToInt (decNumeral n) = n := by
  unfold decNumeral
  rw [valueToInt_dec _ (digitStr_isNum _ isDigitTable_upper n),
    natOfDigits_digitStr _ isDigitTable_upper 10 (by omega) (by omega)]
  rfl

/-- A `0x` numeral (upper-case digits) denotes its number. -/
theorem valueToInt_hexNumeral (n : Nat) : valueToInt (hexNumeral n) = n := by
  unfold hexNumeral
  rw [valueToInt_hex, natOfDigits_digitStr _ isDigitTable_upper 16 (by omega) (by omega)]
  rfl

/-- A `0x` numeral (lower-case digits) denotes its number. -/
theorem valueToInt_hexNumeralLower (n : Nat) : valueToInt (hexNumeralLower n) = n := by
  unfold hexNumeralLower
  rw [valueToInt_hex, natOfDigits_digitStr _ isDigitTable_lower 16 (by omega) (by omega)]
  rfl

/-! ### the `pValue` scanner -/

theorem takeWhile_all_append (p : Char → Bool) (cs r : List Char) (h : ∀ c ∈ cs, p c = true)
    (hr : ∀ c, r.head? = some c → p c = false) : (cs ++ r).takeWhile p = cs := by
  induction cs with
  | nil =>
    cases r with
    | nil => rfl
    | cons c r => simp [hr c rfl]
  | cons c cs ih =>
    simp only [List.cons_append, List.takeWhile, h c (by simp)]
    rw [ih (fun x hx => h x (by simp [hx]))]

theorem dropWhile_all_append (p : Char → Bool) (cs r : List Char) (h : ∀ c ∈ cs, p c = true)
    (hr : ∀ c, r.head? = some c → p c = false) : (cs ++ r).dropWhile p = r := by
  induction cs with
  | nil =>
    cases r with
    | nil => rfl
    | cons c r => simp [hr c rfl]
  | cons c cs ih =>
    simp only [List.cons_append, List.dropWhile, h c (by simp)]
    exact ih (fun x hx => h x (by simp [hx]))

theorem skipWs_append (ws rest : List Char) (h : ∀ c ∈ ws, isWs c = true)
    (hr : ∀ c, rest.head? = some c → isWs c = false) : skipWs (ws ++ rest) = rest :=
  dropWhile_all_append isWs ws rest h hr

theorem natOfDigits_isSome_rev (ds : List Char) (h : ∀ c ∈ ds, isNum c = true) :
    (natOfDigits 10 ds.reverse).isSome = true := by
  induction ds with
  | nil => rfl
  | cons c s ih =>
    have hs := ih (fun x hx => h x (by simp [hx]))
    obtain ⟨a, ha⟩ := Option.isSome_iff_exists.mp hs
    have hc := h c (by simp)
    have : ∃ d, PP.digitVal c = some d ∧ d < 10 := by
      refine ⟨c.toNat - 48, by simp [PP.digitVal, hc], ?_⟩
      simp only [isNum, Bool.and_eq_true, decide_eq_true_eq] at hc
      have h1 : c.toNat ≤ '9'.toNat := hc.2
      have : '9'.toNat = 57 := rfl
      omega
    obtain ⟨d, hd, hlt⟩ := this
    rw [List.reverse_cons, natOfDigits_snoc 10 s.reverse c a d ha hd hlt]; rfl

theorem natOfDigits_isSome (ds : List Char) (h : ∀ c ∈ ds, isNum c = true) :
    (natOfDigits 10 ds).isSome = true := by
  have := natOfDigits_isSome_rev ds.reverse (fun c hc => h c (by simpa using hc))
  simpa using this

theorem isNum_not_ws : ∀ c, isNum c = true → isWs c = false := by
  intro c h
  simp only [isNum, Bool.and_eq_true, decide_eq_true_eq] at h
  have h1 : '0'.toNat ≤ c.toNat := h.1
  have e0 : '0'.toNat = 48 := rfl
  have hne : ∀ d : Char, d.toNat < 48 → c ≠ d := by
    intro d hd heq; subst heq; omega
  simp [isWs, hne ' ' (by decide), hne '\t' (by decide), hne '\n' (by decide), hne '\r' (by decide)]

/-- `pValue` reads a decimal numeral (at most 4300 digits), after optional white space, up to the
    first character that is not a letter or digit. -/
theorem pValue_dec (ws ds r : List Char) (hws : ∀ c ∈ ws, isWs c = true) (hne : ds ≠ [])
    (hnum : ∀ c ∈ ds, isNum c = true) (hlen : ds.length ≤ 4300)
    (hr : ∀ c, r.head? = some c → isAlnum c = false) :
    pValue (ws ++ (ds ++ r)) = .ok (String.ofList ds) r := by
  cases ds with
  | nil => exact absurd rfl hne
  | cons c cs =>
    have hc := hnum c (by simp)
    have hcs : ∀ x ∈ cs, isNum x = true := fun x hx => hnum x (by simp [hx])
    have hrnum : ∀ x, r.head? = some x → isNum x = false := by
      intro x hx
      have := hr x hx
      simp only [isAlnum, Bool.or_eq_false_iff] at this
      exact this.2
    have hskip : skipWs (ws ++ (c :: cs ++ r)) = c :: (cs ++ r) :=
      skipWs_append ws _ hws (by intro x hx; simp at hx; subst hx; exact isNum_not_ws _ hc)
    have hlit : litAdj "0x" (c :: (cs ++ r)) = .fail := by
      have e : "0x".toList = ['0', 'x'] := by decide
      simp only [litAdj, e, stripPrefix]
      by_cases h0 : '0' = c
      · simp only [h0, if_true]
        cases cs with
        | nil =>
          cases r with
          | nil => rfl
          | cons x r =>
            have hx := hr x rfl
            have : ¬ ('x' = x) := by
              intro hxe; subst hxe; revert hx; decide
            simp [stripPrefix, this]
        | cons y cs =>
          have hy := hnum y (by simp)
          have : ¬ ('x' = y) := by
            intro hxe; subst hxe; revert hy; decide
          simp [stripPrefix, this]
      · simp [h0]
    unfold pValue
    simp only [hskip, hlit, R.bind, wordAdj, hc, if_true]
    rw [takeWhile_all_append isNum cs r hcs hrnum, dropWhile_all_append isNum cs r hcs hrnum]
    have : (pyIntDec (String.ofList (c :: cs))).isSome = true := by
      unfold pyIntDec
      simp only [String.toList_ofList]
      have h1 : ((c :: cs).isEmpty || decide ((c :: cs).length > 4300)) = false := by
        simp only [List.isEmpty_cons, Bool.false_or, decide_eq_false_iff_not]; omega
      rw [h1]
      simp only [Bool.false_eq_true, if_false]
      obtain ⟨a, ha⟩ := Option.isSome_iff_exists.mp (natOfDigits_isSome _ hnum)
      rw [ha]; rfl
    rw [if_pos this]

theorem isHexNum_not_ws : ∀ c, isHexNum c = true → isWs c = false := by
  intro c h
  have h1 : 48 ≤ c.toNat := by
    simp only [isHexNum, isNum, Bool.or_eq_true, Bool.and_eq_true, decide_eq_true_eq] at h
    have e0 : '0'.toNat = 48 := rfl
    have e1 : 'a'.toNat = 97 := rfl
    have e2 : 'A'.toNat = 65 := rfl
    rcases h with (h | h) | h
    · have : '0'.toNat ≤ c.toNat := h.1
      omega
    · have : 'a'.toNat ≤ c.toNat := h.1
      omega
    · have : 'A'.toNat ≤ c.toNat := h.1
      omega
  have hne : ∀ d : Char, d.toNat < 48 → c ≠ d := by
    intro d hd heq; subst heq; omega
  simp [isWs, hne ' ' (by decide), hne '\t' (by decide), hne '\n' (by decide), hne '\r' (by decide)]

/-- `pValue` reads a `0x` numeral (any number of hex digits, either case). -/
theorem pValue_hex (ws hs r : List Char) (hws : ∀ c ∈ ws, isWs c = true) (hne : hs ≠ [])
    (hhex : ∀ c ∈ hs, isHexNum c = true)
    (hr : ∀ c, r.head? = some c → isAlnum c = false) :
    pValue (ws ++ ('0' :: 'x' :: (hs ++ r))) = .ok ("0x" ++ String.ofList hs) r := by
  cases hs with
  | nil => exact absurd rfl hne
  | cons c cs =>
    have hc := hhex c (by simp)
    have hcs : ∀ x ∈ cs, isHexNum x = true := fun x hx => hhex x (by simp [hx])
    have hrhex : ∀ x, r.head? = some x → isHexNum x = false := by
      intro x hx
      have := hr x hx
      simp only [isAlnum, isAlpha, Bool.or_eq_false_iff, Bool.and_eq_false_iff,
        decide_eq_false_iff_not] at this
      obtain ⟨⟨h1, h2⟩, h3⟩ := this
      simp only [isHexNum, h3, Bool.false_or, Bool.or_eq_false_iff, Bool.and_eq_false_iff,
        decide_eq_false_iff_not]
      have ef : 'f'.toNat = 102 := rfl
      have ez : 'z'.toNat = 122 := rfl
      have eF : 'F'.toNat = 70 := rfl
      have eZ : 'Z'.toNat = 90 := rfl
      constructor
      · rcases h1 with h1 | h1
        · exact Or.inl h1
        · right
          intro hle
          apply h1
          have : x.toNat ≤ 'f'.toNat := hle
          show x.toNat ≤ 'z'.toNat
          omega
      · rcases h2 with h2 | h2
        · exact Or.inl h2
        · right
          intro hle
          apply h2
          have : x.toNat ≤ 'F'.toNat := hle
          show x.toNat ≤ 'Z'.toNat
          omega
    have hskip : skipWs (ws ++ ('0' :: 'x' :: (c :: cs ++ r))) = '0' :: 'x' :: (c :: (cs ++ r)) :=
      skipWs_append ws _ hws (by intro x hx; simp at hx; subst hx; decide)
    have hlit : litAdj "0x" ('0' :: 'x' :: (c :: (cs ++ r))) = .ok () (c :: (cs ++ r)) := by
      have e : "0x".toList = ['0', 'x'] := by decide
      simp [litAdj, e, stripPrefix]
    unfold pValue
    simp only [hskip, hlit, R.bind, wordAdj, hc, if_true]
    rw [takeWhile_all_append isHexNum cs r hcs hrhex, dropWhile_all_append isHexNum cs r hcs hrhex]

end ArchSim.ToyAsm
