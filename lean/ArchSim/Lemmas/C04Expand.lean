/-
C04 helper lemmas (back end), part 4: pseudo-instruction expansion is local — the group produced for an
entry depends only on the entry's item and the variable table, not on where the entry stands.
-/
import ArchSim.Lemmas.C05Groups

namespace ArchSim.Lemmas.C04
open ArchSim ArchSim.Asm ArchSim.Rv ArchSim.Lemmas.C05

/-- the expansion of a concatenation succeeds iff both parts do, and is the concatenation -/
theorem expandAll_append_ok (vars : Vars) (l₁ l₂ R : List TEntry) :
    expandAll vars (l₁ ++ l₂) = .ok R ↔
      ∃ A B, expandAll vars l₁ = .ok A ∧ expandAll vars l₂ = .ok B ∧ R = A ++ B := by
  induction l₁ generalizing R with
  | nil =>
    simp only [List.nil_append, expandAll, Except.ok.injEq]
    constructor
    · intro h; exact ⟨[], R, rfl, h, rfl⟩
    · rintro ⟨A, B, rfl, hB, rfl⟩; simpa using hB
  | cons e rest ih =>
    simp only [List.cons_append, expandAll]
    cases h1 : expandOne vars e with
    | error x => simp
    | ok g =>
      simp only
      cases h2 : expandAll vars (rest ++ l₂) with
      | error x =>
        simp only [reduceCtorEq, false_iff, not_exists, not_and]
        intro A B hA hB
        cases h3 : expandAll vars rest with
        | error y => rw [h3] at hA; cases hA
        | ok A' =>
          have := (ih (A' ++ B)).mpr ⟨A', B, h3, hB, rfl⟩
          rw [h2] at this; cases this
      | ok R' =>
        obtain ⟨A', B, hA', hB, rfl⟩ := (ih R').mp h2
        simp only [hA', Except.ok.injEq]
        constructor
        · rintro rfl; exact ⟨g ++ A', B, rfl, hB, by simp⟩
        · rintro ⟨A, B2, rfl, hB2, rfl⟩
          rw [hB] at hB2; cases hB2; simp

/-- one entry in context: the expansion of `pre ++ e :: post` is the expansion of `pre`, then the group
    of `e`, then the expansion of `post` -/
theorem expandAll_insert (vars : Vars) (pre post : List TEntry) (e : TEntry) (P g Q : List TEntry)
    (hP : expandAll vars pre = .ok P) (hg : expandOne vars e = .ok g) (hQ : expandAll vars post = .ok Q) :
    expandAll vars (pre ++ e :: post) = .ok (P ++ g ++ Q) := by
  rw [expandAll_append_ok]
  refine ⟨P, g ++ Q, hP, ?_, by simp⟩
  simp only [expandAll, hg, hQ]

/-- the items `expandOne` rewrites: `nop`, `li`, `mv`, and `la` / loads / stores by variable name -/
def isPseudo : Item → Bool
  | .str s => decide (s = "nop")
  | .grp (.li ..) => true
  | .grp (.mv ..) => true
  | .grp (.memPseudo ..) => true
  | .grp (.sPseudo ..) => true
  | _ => false

/-- every other entry is passed through unchanged -/
theorem expandOne_plain (vars : Vars) (k : Nat) (line : String) (it : Item) (h : isPseudo it = false) :
    expandOne vars (k, line, it) = .ok [(k, line, it)] := by
  cases it with
  | str s =>
    simp only [isPseudo, decide_eq_false_iff_not] at h
    simp only [expandOne]
    split <;> simp_all
  | grp pi => cases pi <;> first | (simp [isPseudo] at h; done) | rfl | (simp only [expandOne])
  | varDecl n ty vals => rfl
  | strDecl n b => rfl
  | zeroDecl n c => rfl
  | directive d => rfl

/-- the group does not depend on the line the entry stands on: moving the entry to another line gives the
    same items (with the new line number and text attached) -/
theorem expandOne_relocate (vars : Vars) (k k' : Nat) (line line' : String) (it : Item) (g : List TEntry)
    (h : expandOne vars (k, line, it) = .ok g) :
    expandOne vars (k', line', it) = .ok (g.map fun e => (k', line', e.2.2)) ∧
      ∀ e ∈ g, e.1 = k ∧ e.2.1 = line := by
  by_cases hp : isPseudo it = false
  · rw [expandOne_plain vars k line it hp] at h
    cases h
    rw [expandOne_plain vars k' line' it hp]
    simp
  · have hp' : isPseudo it = true := by simpa using hp
    cases it with
    | str s =>
      simp only [isPseudo, decide_eq_true_eq] at hp'
      subst hp'
      rw [expandOne_nop] at h; cases h
      rw [expandOne_nop]; simp
    | grp pi =>
      cases pi with
      | li rd c =>
        rw [expandOne_li] at h; cases h
        rw [expandOne_li]
        simp only [liEntries, luiAddiEntries]
        split <;> simp
      | mv rd rs =>
        rw [expandOne_mv] at h; cases h
        rw [expandOne_mv]; simp
      | memPseudo mn rd v idx =>
        cases hv : lookupVar vars v with
        | none => rw [expandOne_memPseudo_unknown _ _ _ _ _ _ _ hv] at h; cases h
        | some r =>
          obtain ⟨a, sz⟩ := r
          rw [expandOne_memPseudo _ _ _ _ _ _ _ a sz hv] at h; cases h
          rw [expandOne_memPseudo _ _ _ _ _ _ _ a sz hv]
          simp only [luiAddiEntries]
          split <;> simp
      | sPseudo mn rs v idx rt =>
        cases hv : lookupVar vars v with
        | none => rw [expandOne_sPseudo_unknown _ _ _ _ _ _ _ _ hv] at h; cases h
        | some r =>
          obtain ⟨a, sz⟩ := r
          rw [expandOne_sPseudo _ _ _ _ _ _ _ _ a sz hv] at h; cases h
          rw [expandOne_sPseudo _ _ _ _ _ _ _ _ a sz hv]
          simp [luiAddiEntries]
      | rtype mn a b c => cases hp'
      | utype mn a b => cases hp'
      | btypeLabel mn a b l o => cases hp'
      | mem mn a b c => cases hp'
      | csr mn a b c => cases hp'
      | csri mn a b c => cases hp'
      | rri mn a b c => cases hp'
      | fence a b => cases hp'
      | jalImm a b => cases hp'
      | jalLabel a b c => cases hp'
    | varDecl n ty vals => cases hp'
    | strDecl n b => cases hp'
    | zeroDecl n c => cases hp'
    | directive d => cases hp'

/-! ### the instruction objects of a pseudo-instruction's group do not depend on labels or address -/

/-- the grouped forms whose instruction object depends on the address or the label table -/
def usesAddr : PInstr → Bool
  | .btypeLabel .. => true
  | .jalImm .. => true
  | .jalLabel .. => true
  | _ => false

theorem instantiate_indep (ls ls' : Labels) (a a' : Int) (k : Nat) (line : String) (pi : PInstr)
    (h : usesAddr pi = false) : instantiate ls a k line pi = instantiate ls' a' k line pi := by
  cases pi <;> first | (simp [usesAddr] at h; done) | rfl

/-- no entry of the list refers to a label or to its own address -/
def addrFree (g : List TEntry) : Prop := ∀ e ∈ g, ∀ pi, e.2.2 = .grp pi → usesAddr pi = false

theorem buildInstrs_indep (ls ls' : Labels) (g : List TEntry) (a a' : Int) (h : addrFree g) :
    buildInstrs ls g a = buildInstrs ls' g a' := by
  induction g generalizing a a' with
  | nil => rfl
  | cons e rest ih =>
    obtain ⟨k, line, it⟩ := e
    have hr : addrFree rest := fun e he => h e (List.mem_cons_of_mem _ he)
    cases it with
    | str s => simp only [buildInstrs, ih (a + 4) (a' + 4) hr, ih a a' hr]
    | grp pi =>
      have := h (k, line, .grp pi) (List.mem_cons_self ..) pi rfl
      simp only [buildInstrs, instantiate_indep ls ls' a a' k line pi this, ih (a + 4) (a' + 4) hr]
    | varDecl n ty vals => rfl
    | strDecl n b => rfl
    | zeroDecl n c => rfl
    | directive d => rfl

/-- the group of a pseudo-instruction consists of `lui`, `addi` and plain load/store entries only -/
theorem pseudo_group_addrFree (vars : Vars) (k : Nat) (line : String) (it : Item) (g : List TEntry)
    (hp : isPseudo it = true) (h : expandOne vars (k, line, it) = .ok g) : addrFree g := by
  cases it with
  | str s =>
    simp only [isPseudo, decide_eq_true_eq] at hp
    subst hp
    rw [expandOne_nop] at h; cases h
    intro e he pi hpi
    simp only [List.mem_singleton] at he; subst he; cases hpi; rfl
  | grp pi =>
    cases pi with
    | li rd c =>
      rw [expandOne_li] at h; cases h
      intro e he pi hpi
      simp only [liEntries, luiAddiEntries] at he
      split at he <;> simp only [List.mem_cons, List.not_mem_nil, or_false] at he
      · rcases he with rfl | rfl <;> (cases hpi; rfl)
      · subst he; cases hpi; rfl
    | mv rd rs =>
      rw [expandOne_mv] at h; cases h
      intro e he pi hpi
      simp only [List.mem_singleton] at he; subst he; cases hpi; rfl
    | memPseudo mn rd v idx =>
      cases hv : lookupVar vars v with
      | none => rw [expandOne_memPseudo_unknown _ _ _ _ _ _ _ hv] at h; cases h
      | some r =>
        obtain ⟨a, sz⟩ := r
        rw [expandOne_memPseudo _ _ _ _ _ _ _ a sz hv] at h; cases h
        intro e he pi hpi
        simp only [luiAddiEntries] at he
        split at he <;> simp only [List.cons_append, List.nil_append, List.mem_cons, List.not_mem_nil, or_false] at he
        · rcases he with rfl | rfl <;> (cases hpi; rfl)
        · rcases he with rfl | rfl | rfl <;> (cases hpi; rfl)
    | sPseudo mn rs v idx rt =>
      cases hv : lookupVar vars v with
      | none => rw [expandOne_sPseudo_unknown _ _ _ _ _ _ _ _ hv] at h; cases h
      | some r =>
        obtain ⟨a, sz⟩ := r
        rw [expandOne_sPseudo _ _ _ _ _ _ _ _ a sz hv] at h; cases h
        intro e he pi hpi
        simp only [luiAddiEntries, List.cons_append, List.nil_append, List.mem_cons, List.not_mem_nil, or_false] at he
        rcases he with rfl | rfl | rfl <;> (cases hpi; rfl)
    | rtype mn a b c => cases hp
    | utype mn a b => cases hp
    | btypeLabel mn a b l o => cases hp
    | mem mn a b c => cases hp
    | csr mn a b c => cases hp
    | csri mn a b c => cases hp
    | rri mn a b c => cases hp
    | fence a b => cases hp
    | jalImm a b => cases hp
    | jalLabel a b c => cases hp
  | varDecl n ty vals => cases hp
  | strDecl n b => cases hp
  | zeroDecl n c => cases hp
  | directive d => cases hp

/-- the group of a pseudo-instruction is non-empty and consists of grouped instruction entries -/
theorem pseudo_group_grp (vars : Vars) (k : Nat) (line : String) (it : Item) (g : List TEntry)
    (hp : isPseudo it = true) (h : expandOne vars (k, line, it) = .ok g) :
    g ≠ [] ∧ ∀ e ∈ g, ∃ pi, e.2.2 = .grp pi := by
  cases it with
  | str s =>
    simp only [isPseudo, decide_eq_true_eq] at hp
    subst hp
    rw [expandOne_nop] at h; cases h
    exact ⟨by simp, by simp⟩
  | grp pi =>
    cases pi with
    | li rd c =>
      rw [expandOne_li] at h; cases h
      simp only [liEntries, luiAddiEntries]
      split <;> exact ⟨by simp, by simp⟩
    | mv rd rs =>
      rw [expandOne_mv] at h; cases h
      exact ⟨by simp, by simp⟩
    | memPseudo mn rd v idx =>
      cases hv : lookupVar vars v with
      | none => rw [expandOne_memPseudo_unknown _ _ _ _ _ _ _ hv] at h; cases h
      | some r =>
        obtain ⟨a, sz⟩ := r
        rw [expandOne_memPseudo _ _ _ _ _ _ _ a sz hv] at h; cases h
        simp only [luiAddiEntries]
        split <;> exact ⟨by simp, by simp⟩
    | sPseudo mn rs v idx rt =>
      cases hv : lookupVar vars v with
      | none => rw [expandOne_sPseudo_unknown _ _ _ _ _ _ _ _ hv] at h; cases h
      | some r =>
        obtain ⟨a, sz⟩ := r
        rw [expandOne_sPseudo _ _ _ _ _ _ _ _ a sz hv] at h; cases h
        simp only [luiAddiEntries]
        exact ⟨by simp, by simp⟩
    | rtype mn a b c => cases hp
    | utype mn a b => cases hp
    | btypeLabel mn a b l o => cases hp
    | mem mn a b c => cases hp
    | csr mn a b c => cases hp
    | csri mn a b c => cases hp
    | rri mn a b c => cases hp
    | fence a b => cases hp
    | jalImm a b => cases hp
    | jalLabel a b c => cases hp
  | varDecl n ty vals => cases hp
  | strDecl n b => cases hp
  | zeroDecl n c => cases hp
  | directive d => cases hp

end ArchSim.Lemmas.C04
