/-
C02 (control half), part 3: the shape invariant `PInv` of the pipeline state.
-/
import ArchSim.Lemmas.C02Abs

namespace ArchSim.Pipe
open ArchSim ArchSim.Rv

/-- Well-formedness of an instruction as produced by the Python constructors: `ecall` has `rd = 0`
    (it is `IType(rd=0, rs1=0, imm=0)`), the stored shift amount of `srai` is non-negative. -/
def InstrOK (i : Instr) : Prop := (i.op = .ecall → i.rd = 0) ∧ (i.op = .srai → 0 ≤ i.imm)

def ProgOK (im : IMem) : Prop := ∀ pc i, im.instrAt pc = some i → InstrOK i

/-- A fetch at an occupied address returns the instruction stored there and keeps the program. -/
def FetchSound (im : IMem) : Prop :=
  ∀ pc i, im.instrAt pc = some i → (im.fetch pc).res = .ok (some i) ∧ (im.fetch pc).imem.prog = im.prog

/-- Instruction memory after a sequence of fetches. -/
def fetchAll (im : IMem) : List Int → IMem
  | [] => im
  | pc :: pcs => fetchAll (im.fetch pc).imem pcs

/-- Coherence of the instruction memory system: after any sequence of fetches, fetching is sound.
    (Trivial without an instruction cache when the program fits the 16 KiB instruction memory; for a
    cache this is the transparency property C11.) -/
def ICoh (im : IMem) : Prop := ∀ pcs, FetchSound (fetchAll im pcs)

def LatchOK (l : Option Latch) : Prop := ∀ x, l = some x → InstrOK x.instr
def WregOK (l : Option Latch) : Prop := ∀ x, l = some x → x.wreg = writeReg x.instr
def ExitIsEcall (l : Option Latch) : Prop := ∀ x, l = some x → x.exitCode.isSome = true → x.instr.op = .ecall
def latchExit (l : Option Latch) : Bool := match l with | some x => x.exitCode.isSome | none => false
def EcallFlagged (l : Option Latch) : Prop := ∃ e, l = some e ∧ e.flagged = true ∧ e.instr.op = .ecall
def Unflagged (l : Option Latch) : Prop := ∀ x, l = some x → x.flagged = false
/-- The read record of the latch is what `accessRegs` produced from some register file. -/
def RrOK (l : Option Latch) : Prop := ∀ x, l = some x → ∃ regs, x.rr = accessRegs x.instr regs
def noInstr (s : St) : Prop := s.imem.instrAt s.pc = none

/-- Reachable shapes of the stall bookkeeping and of the bubbles. -/
def Shape (p : PSt) : Prop :=
  match p.stalled with
  | none =>
    (p.l1.isSome = true → p.l2 = none → p.l3 = none) ∧
    (p.l0.isSome = true → p.l1 = none → p.l2 = none) ∧
    (p.l0 = none → noInstr p.st ∨ p.l1 = none)
  | some st =>
    (st.k = 1 ∧ (st.rem = 2 ∨ (st.rem = 1 ∧ p.l2 = none)) ∧ (p.l0 = none → noInstr p.st) ∧
      st.p0.isSome = true ∧ p.l1.isSome = true) ∨
    (st.k = 2 ∧ ((st.rem = 2 ∧ p.l3.isSome = true) ∨ (st.rem = 1 ∧ p.l3 = none)) ∧ EcallFlagged st.p1 ∧
      (p.l0 = none → noInstr p.st) ∧ (st.p0 = none → p.l0 = none) ∧ p.l2.isSome = true)

structure PInv (p : PSt) : Prop where
  progOK : ProgOK p.st.imem
  icoh : ICoh p.st.imem
  ok0 : LatchOK p.l0
  ok1 : LatchOK p.l1
  okS : ∀ st, p.stalled = some st → LatchOK st.p0 ∧ LatchOK st.p1 ∧ WregOK st.p1 ∧ RrOK st.p1
  w1 : WregOK p.l1
  f1 : Unflagged p.l1
  r1 : RrOK p.l1
  w2 : WregOK p.l2
  x2 : ExitIsEcall p.l2
  e3 : latchExit p.l3 = true → p.l2 = none
  shape : Shape p

theorem PInv_init (st : St) (h : Bool) (hp : ProgOK st.imem) (hc : ICoh st.imem) : PInv (PSt.init st h) := by
  constructor <;> simp [PSt.init, LatchOK, WregOK, Unflagged, RrOK, ExitIsEcall, latchExit, Shape, hp, hc]

end ArchSim.Pipe
