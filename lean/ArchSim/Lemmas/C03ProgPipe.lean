/-
C03 (program level), part 6: five-stage mode.  The pipeline refines the sequential machine `seqRun`
(C02, control half); a sequential step is a single-cycle step when the two implementations of the
instruction agree (C02, data-path half, `split_agrees_anymem` under `MemOK`); for a cached data memory
`MemOK` follows from the representation `CRep` and C09's re-read neutrality.
-/
import ArchSim.Lemmas.C03ProgInit
import ArchSim.Props.C02
import ArchSim.Props.C02Split
import ArchSim.Lemmas.C01Step

namespace ArchSim.Lemmas.C03Prog
open ArchSim ArchSim.Cache ArchSim.Mem ArchSim.Rv ArchSim.Pipe ArchSim.Spec.CacheAbs ArchSim.Spec.TagCache
open ArchSim.Lemmas.C02Split

/-! ### `MemOK` of the data-path agreement theorem for a cache that represents a flat memory -/

theorem widthOK_le {bits : Nat} (h : widthOK bits) : bits ≤ 32 := by
  rcases h with rfl | rfl | rfl <;> decide

/-- At an accepted address a load through the cache returns a 32-bit value and its uncounted re-read is
    neutral (same value, nothing changes, no cycles). -/
theorem loadOK_cached {l : Bool} {s : DSys Repl.Pol} {m : Mem.Mem} (h : CRep l s m) {bits : Nat}
    {A : Int} (hacc : Accepted bits A) : LoadOK (.cached l s) bits A := by
  intro v hv
  obtain ⟨v', r1, r2, _⟩ := h.read hacc true
  have hv' : (s.read (polOps l) bits A true).res = .ok v := hv
  rw [r1] at hv'
  cases hv'
  constructor
  · have hlt := flatRead_lt m bits A v (by unfold flatRead; rw [r2]; rfl)
    exact Nat.lt_of_lt_of_le hlt (Nat.pow_le_pow_right (by decide : 2 > 0) (widthOK_le hacc.1))
  · have hre := ArchSim.Props.C09.reread_same_result (P := polOps l)
      (ArchSim.Lemmas.C09.polOps_ok h.assoc) (ArchSim.Lemmas.C09.polOps_idem l _) h.inv9 hacc true
      (a' := A) rfl
    simp only [MemSys.read, hre, r1]

theorem memOK_cached {l : Bool} {ds : DSys Repl.Pol} {m : Mem.Mem} (h : CRep l ds m) (i : Instr) (s : St)
    (hmem : s.mem = .cached l ds)
    (hacc : i.op.ty = .memI → Accepted (accessBits i.op) ((s.regs i.rs1 : Int) + i.imm)) :
    ArchSim.Lemmas.C02Split.MemOK i s := by
  rw [ArchSim.Lemmas.C02Split.MemOK, hmem]
  have hc := h.cinv.cfg
  exact ⟨writeAlias_cached l ds (by rw [hc]; rfl) (by rw [hc]; rfl), fun hty => loadOK_cached h (hacc hty)⟩

/-! ### sequential machine = single-cycle machine up to the first done state -/

/-- The two implementations agree on the step taken in `t`. -/
def AgreeStep (t : St) : Prop :=
  (splitStep t).fault = (singleStep t).fault ∧
    ((singleStep t).fault = none → (splitStep t).st = (singleStep t).st)

/-- If the sequential machine is first done after `k` steps and the two implementations agree on every
    not-done state of the single-cycle run before step `min k K`, the two runs coincide up to
    `min k K` and none of these steps raises. -/
theorem seqRun_eq_singleRun (s : St) (k K : Nat)
    (hnd : ∀ j, j < k → singleDone (seqRun j s) = false) (hd : singleDone (seqRun k s) = true)
    (hag : ∀ j, j < k → j < K → singleDone (singleRun j s) = false → AgreeStep (singleRun j s)) :
    ∀ j, j ≤ k → j ≤ K → seqRun j s = singleRun j s ∧
      ∀ j', j' < j → (singleStep (singleRun j' s)).fault = none ∧ seqFault (seqRun j' s) = none
  | 0, _, _ => ⟨rfl, fun _ h => absurd h (Nat.not_lt_zero _)⟩
  | j + 1, hj, hjK => by
    obtain ⟨ih, ihf⟩ := seqRun_eq_singleRun s k K hnd hd hag j (by omega) (by omega)
    have hndj := hnd j (by omega)
    obtain ⟨a1, a2⟩ := hag j (by omega) (by omega) (by rw [← ih]; exact hndj)
    have hnf : (singleStep (singleRun j s)).fault = none := by
      cases hf : (singleStep (singleRun j s)).fault with
      | none => rfl
      | some ft =>
        exfalso
        have hs : (seqFault (seqRun j s)).isSome = true := by
          unfold seqFault; rw [ih, a1, hf]; rfl
        have := seqRun_stuck s j hs (k - j)
        rw [show j + (k - j) = k by omega] at this
        rw [this, hndj] at hd
        cases hd
    have hsf : seqFault (seqRun j s) = none := by unfold seqFault; rw [ih, a1, hnf]
    refine ⟨?_, fun j' hj' => ?_⟩
    · show seqStep (seqRun j s) = (singleStep (singleRun j s)).st
      unfold seqStep
      rw [ih, a1, hnf]
      exact a2 hnf
    · rcases Nat.lt_or_ge j' j with hlt | hge
      · exact ihf j' hlt
      · have : j' = j := by omega
        subst this; exact ⟨hnf, hsf⟩

/-! ### programs -/

/-- The program fits the instruction memory and consists of well-formed instructions of the supported
    set (`Instr.WF`: no CSR / fence / ebreak, register numbers below 32, stored immediates in their
    constructor's range, `ecall` as its constructor builds it). -/
structure ProgWF (prog : List Instr) : Prop where
  len : prog.length ≤ 4096
  wf  : ∀ i, i ∈ prog → i.WF

theorem supported_of (op : Rv.Op) (h : op.supported = true) : ArchSim.Lemmas.C01.Supported op := by
  revert h; cases op <;> decide

theorem immOK_of (op : Rv.Op) (imm : Int) (h : immRange op imm) : ArchSim.Lemmas.C01.ImmOK op imm := by
  unfold immRange at h
  unfold ArchSim.Lemmas.C01.ImmOK
  cases hty : op.ty <;> simp only [hty] at h ⊢ <;> exact h

theorem ProgWF.c01 {prog : List Instr} (h : ProgWF prog) : ArchSim.Lemmas.C01.ProgOK prog :=
  ⟨h.len, fun i hi =>
    have w := h.wf i hi
    ⟨⟨w.2.1, w.2.2.1, w.2.2.2.1, immOK_of _ _ w.2.2.2.2.1⟩, supported_of _ w.1⟩⟩

theorem instrOK_of_wf (i : Instr) (w : i.WF) : InstrOK i := by
  refine ⟨fun he => (w.2.2.2.2.2 he).1, fun hs => ?_⟩
  have hr := w.2.2.2.2.1
  unfold immRange at hr
  rw [hs] at hr
  exact hr.1

theorem ProgWF.c02 {prog : List Instr} (h : ProgWF prog) (im : IMem) (hp : im.prog = prog) :
    Pipe.ProgOK im :=
  ProgOK_of_all im (fun i hi => instrOK_of_wf i (h.wf i (by rw [← hp]; exact hi)))

theorem instrAt_bounds' {im : IMem} {pc : Int} {i : Instr} (h : im.instrAt pc = some i) :
    0 ≤ pc ∧ pc % 4 = 0 ∧ (pc / 4).toNat < im.prog.length := by
  unfold IMem.instrAt at h
  split at h
  · rename_i hc
    exact ⟨hc.1, hc.2, (List.getElem?_eq_some_iff.1 h).1⟩
  · cases h

/-- The two implementations agree on a not-done state over a well-formed program without instruction
    cache, with 32-bit registers, whenever the memory system satisfies `MemOK` for the instruction. -/
theorem agreeStep_of (t : St) (prog : List Instr) (hp : ProgWF prog)
    (him : t.imem = { prog := prog, cache := none }) (hregs : ∀ r, t.regs r < 4294967296)
    (hnd : singleDone t = false)
    (hm : ∀ i, t.imem.instrAt t.pc = some i → ArchSim.Lemmas.C02Split.MemOK i t) : AgreeStep t := by
  cases hi : t.imem.instrAt t.pc with
  | none => simp [singleDone, hi] at hnd
  | some i =>
    have hmem : i ∈ prog := by
      have := ArchSim.Lemmas.C01.mem_of_instrAt _ _ _ hi
      rwa [him] at this
    obtain ⟨b0, _, b2⟩ := instrAt_bounds' hi
    have hlen : t.imem.prog.length ≤ 4096 := by rw [him]; exact hp.len
    have h1 : t.pc < 16384 := by omega
    obtain ⟨e1, e2, _⟩ := ArchSim.Props.C02Split.split_agrees_anymem t i (hp.wf i hmem)
      (by rw [him]) hi b0 h1 hregs (hm i hi)
    exact ⟨e1, e2⟩

end ArchSim.Lemmas.C03Prog
