/-
C08 helper lemmas, part 4: when the consumer does not conflict with a producer, the producer's
write-back does not change what the consumer's decode reads — the stale read is the right read.
Core Lean only.
-/
import ArchSim.Lemmas.C08Read
import ArchSim.Lemmas.C07Hazard

namespace ArchSim.Lemmas.C08
open ArchSim ArchSim.Rv ArchSim.Pipe ArchSim.Lemmas.C02Split ArchSim.Lemmas.C07

theorem setReg_other (regs : Nat → Nat) (r v x : Nat) (h : r = 0 ∨ x ≠ r) :
    setReg regs r v x = regs x := by
  unfold setReg
  split
  · omega
  · rfl

/-- Registers `c` reads are untouched by a write to a register it does not read (or to x0). -/
theorem accessRegs_setReg (c : Instr) (regs : Nat → Nat) (r v : Nat)
    (h : r = 0 ∨ readsReg c r = false) : accessRegs c (setReg regs r v) = accessRegs c regs := by
  have h1 : r = 0 ∨ (accessRegs c (fun _ => 0)).a1 ≠ some r := by
    rcases h with h | h
    · exact Or.inl h
    · right; unfold readsReg at h; intro he; simp [he] at h
  have h2 : r = 0 ∨ (accessRegs c (fun _ => 0)).a2 ≠ some r := by
    rcases h with h | h
    · exact Or.inl h
    · right; unfold readsReg at h; intro he; simp [he] at h
  unfold accessRegs at h1 h2 ⊢
  cases hty : c.op.ty <;> simp only [hty] at h1 h2 ⊢
  all_goals simp only [Option.some.injEq, ne_eq] at h1 h2
  all_goals first
    | rfl
    | (rw [setReg_other regs r v c.rs1 h1, setReg_other regs r v c.rs2 h2])
    | (rw [setReg_other regs r v c.rs1 h1])

/-- The write-back of a latch whose write register is that of its instruction does not change the
    operands of a consumer that has no conflict with it. -/
theorem accessRegs_wbRegs (c : Instr) (m : Latch) (regs : Nat → Nat) (hw : m.wreg = writeReg m.instr)
    (h : conflict c m.instr = false) : accessRegs c (wbRegs m regs) = accessRegs c regs := by
  unfold wbRegs writeBack
  rw [hw]
  unfold conflict at h
  cases hwr : writeReg m.instr with
  | none => split <;> simp
  | some r =>
    rw [hwr] at h
    simp only at h
    have hr : r = 0 ∨ readsReg c r = false := by
      by_cases h0 : r = 0
      · exact Or.inl h0
      · right; simpa [h0] using h
    split
    all_goals first
      | rfl
      | (cases wbData m with
         | none => rfl
         | some d => exact accessRegs_setReg c regs r _ hr)

end ArchSim.Lemmas.C08
