/-
C09 (program level), part 6: what the data-cache access counter counts in single-cycle mode —
exactly one per executed load or store (the display re-read of a load is not counted), nothing for
any other instruction.
-/
import ArchSim.Lemmas.C09ProgRun

namespace ArchSim.Lemmas.C09Prog
open ArchSim ArchSim.Cache ArchSim.Rv ArchSim.Repl ArchSim.Pipe
open ArchSim.Spec.TagCache (Accepted)
open ArchSim.Spec.CacheAbs (widthOK)
open ArchSim.Lemmas.C02Split ArchSim.Lemmas.C11 ArchSim.Lemmas.C11Prog

/-- The access counter after `singleTail`. -/
theorem singleTail_dAcc (i : Instr) (s : St) (h : RunInv s) :
    (isMemOp i = true → (singleTail i s).fault = none →
      dAcc (singleTail i s).st.mem = dAcc s.mem + 1) ∧
    (isMemOp i = false → dAcc (singleTail i s).st.mem = dAcc s.mem) := by
  obtain ⟨h1, h2, _⟩ := singleTail_facts i s h
  rw [h2]
  exact ⟨fun hm hf => behavior_dAcc_memop i s h hm (h1.1 hf), fun hm => behavior_dAcc_other i s hm⟩

/-- A load / store whose access is accepted executes without a fault. -/
theorem singleTail_accepted (i : Instr) (s : St) (h : RunInv s) :
    (i.op.ty = .memI → Accepted (accessBits i.op) ((s.regs i.rs1 : Int) + i.imm) →
      (singleTail i s).fault = none) ∧
    (i.op.ty = .s → Accepted (accessBits i.op) (storeAddr i s) → (singleTail i s).fault = none) := by
  obtain ⟨h1, _, _⟩ := singleTail_facts i s h
  refine ⟨fun hty hacc => h1.2 ?_, fun hty hacc => h1.2 ?_⟩
  · obtain ⟨v, hv⟩ := read_accepted_ok h.mem hacc true
    rw [behavior_load_ok i s hty hv]
  · have hv := write_accepted_ok h.mem hacc
      (v := s.regs i.rs2 % 2 ^ accessBits i.op) (Nat.mod_lt _ (Nat.two_pow_pos _))
    rw [behavior_store_ok i s hty hv]

/-- 1 if the instruction at the pc is a load or a store, else 0. -/
def memOpAt (s : St) : Nat :=
  match s.imem.instrAt s.pc with
  | some i => if isMemOp i then 1 else 0
  | none => 0

/-- One fault-free single-cycle step counts exactly `memOpAt`. -/
theorem singleStep_dAcc (s : St) (h : RunInv s) (hs : FetchSound s.imem)
    (hf : (singleStep s).fault = none) :
    dAcc (singleStep s).st.mem = dAcc s.mem + memOpAt s := by
  unfold memOpAt
  cases hi : s.imem.instrAt s.pc with
  | none => rw [singleStep_nofetch s hi]; rfl
  | some i =>
    rw [singleStep_fetched s i hi hs] at hf ⊢
    have h2 : RunInv
        ({ s with cycles := s.cycles + 1 + (s.imem.fetch s.pc).extra,
                  instrs := s.instrs + 1, imem := (s.imem.fetch s.pc).imem } : St) :=
      h.of_eq rfl rfl
    obtain ⟨a, b⟩ := singleTail_dAcc i _ h2
    simp only []
    cases hm : isMemOp i with
    | true => exact a hm hf
    | false => exact b hm

/-- Number of loads and stores among the first `n` instructions executed from `s`. -/
def memOps : Nat → St → Nat
  | 0, _ => 0
  | n + 1, s => memOps n s + memOpAt (singleRun n s)

theorem StepHyp_run (s : St) (h : StepHyp s) : ∀ n, SingleOK n s → StepHyp (singleRun n s)
  | 0, _ => h
  | n + 1, hok => by
    rw [singleRun_succ']
    exact singleStep_hyp _ (StepHyp_run s h n (fun j hj => hok j (Nat.lt_succ_of_lt hj)))
      (hok n (Nat.lt_succ_self n))

/-- After `n` fault-free single-cycle steps the access counter has grown by exactly the number of
    loads and stores executed. -/
theorem run_dAcc (s : St) (h : StepHyp s) : ∀ n, SingleOK n s →
    dAcc (singleRun n s).mem = dAcc s.mem + memOps n s
  | 0, _ => rfl
  | n + 1, hok => by
    have hok' : SingleOK n s := fun j hj => hok j (Nat.lt_succ_of_lt hj)
    have hh := StepHyp_run s h n hok'
    rw [singleRun_succ', singleStep_dAcc _ hh.inv (ICoh_nocache _ hh.nocache hh.fits).fetchSound
      (hok n (Nat.lt_succ_self n)), run_dAcc s h n hok', memOps]
    omega

end ArchSim.Lemmas.C09Prog
