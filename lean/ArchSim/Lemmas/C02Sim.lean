/-
C02 (control half), part 7: the stage functions and the completion functions respect `Sim`
(they neither read nor write the cycle / stall / flush counters, the icache or the pc).
-/
import ArchSim.Lemmas.C02Pres

namespace ArchSim.Pipe
open ArchSim ArchSim.Rv

theorem wbStage_sim {s t : St} (h : Sim s t) (l : Option Latch) :
    Sim (wbStage s l).1 (wbStage t l).1 ∧ (wbStage s l).2 = (wbStage t l).2 := by
  obtain ⟨h1, h2, h3, h4, h5, h6, h7, h8⟩ := h
  cases l with
  | none => exact ⟨⟨h1, h2, h3, h4, h5, h6, h7, h8⟩, rfl⟩
  | some m =>
    unfold wbStage; dsimp only
    refine ⟨?_, rfl⟩
    cases m.exitCode <;> constructor <;> simp [*]

theorem memStage_sim {s t : St} (h : Sim s t) (l : Option Latch) :
    Sim (memStage s l).st (memStage t l).st ∧ (memStage s l).latch = (memStage t l).latch ∧
      (memStage s l).fault = (memStage t l).fault := by
  obtain ⟨h1, h2, h3, h4, h5, h6, h7, h8⟩ := h
  cases l with
  | none => exact ⟨⟨h1, h2, h3, h4, h5, h6, h7, h8⟩, rfl, rfl⟩
  | some e =>
    unfold memStage; dsimp only
    rw [h2]
    cases memoryAccess e.instr e.result e.rr.d2 t.mem true with
    | none => exact ⟨⟨h1, h2, h3, h4, h5, h6, h7, h8⟩, rfl, rfl⟩
    | some o =>
      dsimp only
      cases o.res with
      | error err => exact ⟨⟨h1, rfl, h3, h4, h5, h6, h7, h8⟩, rfl, rfl⟩
      | ok rd =>
        dsimp only
        refine ⟨?_, rfl, rfl⟩
        split
        · split
          · exact ⟨h1, rfl, h3, h4, h5, by simp [h6], h7, h8⟩
          · split
            · exact ⟨h1, rfl, h3, h4, h5, h6, by simp [h7], h8⟩
            · exact ⟨h1, rfl, h3, h4, h5, h6, h7, h8⟩
        · exact ⟨h1, rfl, h3, h4, h5, h6, h7, h8⟩

end ArchSim.Pipe

namespace ArchSim.Pipe
open ArchSim ArchSim.Rv

theorem processEcall_sim {s t : St} (h : Sim s t) : processEcall s = processEcall t := by
  unfold processEcall; rw [h.regs, h.mem]

theorem ecallRun_sim {s t : St} (h : Sim s t) (d : Latch) :
    Sim (ecallRun s d).st (ecallRun t d).st ∧ (ecallRun s d).latch = (ecallRun t d).latch ∧
      (ecallRun s d).fault = (ecallRun t d).fault := by
  unfold ecallRun
  rw [processEcall_sim h]
  obtain ⟨h1, h2, h3, h4, h5, h6, h7, h8⟩ := h
  split
  · exact ⟨⟨h1, rfl, by simp [h3], h4, h5, h6, h7, h8⟩, rfl, rfl⟩
  · exact ⟨⟨h1, rfl, h3, h4, h5, h6, h7, h8⟩, rfl, rfl⟩
  · exact ⟨⟨h1, rfl, h3, h4, h5, h6, h7, h8⟩, rfl, rfl⟩
  · exact ⟨⟨h1, rfl, h3, h4, h5, h6, h7, h8⟩, rfl, rfl⟩

theorem exStage_sim {s t : St} (h : Sim s t) (inp l2 l3 : Option Latch) :
    Sim (exStage s inp l2 l3).st (exStage t inp l2 l3).st ∧
      (exStage s inp l2 l3).latch = (exStage t inp l2 l3).latch ∧
      (exStage s inp l2 l3).fault = (exStage t inp l2 l3).fault := by
  cases inp with
  | none => exact ⟨h, rfl, rfl⟩
  | some d =>
    by_cases hop : d.instr.op = .ecall
    · cases hw : ecallMustWait d l2 l3
      · rw [exStage_ecall_go s d l2 l3 hop hw, exStage_ecall_go t d l2 l3 hop hw]; exact ecallRun_sim h d
      · rw [exStage_ecall_wait s d l2 l3 hop hw, exStage_ecall_wait t d l2 l3 hop hw]; exact ⟨h, rfl, rfl⟩
    · rw [exStage_nonecall s d l2 l3 hop, exStage_nonecall t d l2 l3 hop]
      split
      · exact ⟨h, rfl, rfl⟩
      · exact ⟨h, rfl, rfl⟩

/-! ### Completion functions respect `Sim` -/

theorem CSim.rfl' (c : Comp) : CSim c c := ⟨rfl, Sim.rfl' _, rfl⟩
theorem CSim.symm {c d : Comp} (h : CSim c d) : CSim d c := ⟨h.1.symm, h.2.symm, h.3.symm⟩
theorem CSim.trans {c d e : Comp} (h : CSim c d) (g : CSim d e) : CSim c e :=
  ⟨h.1.trans g.1, h.2.trans g.2, h.3.trans g.3⟩
theorem CSimL.trans_left {pre : List Int} {c d e : Comp} (h : CSim c d) (g : CSimL pre d e) : CSimL pre c e :=
  ⟨h.1.trans g.1, h.2.trans g.2, by rw [← g.3, ← h.3]; rfl⟩
theorem CSimL.trans_right {pre : List Int} {c d e : Comp} (h : CSimL pre c d) (g : CSim d e) : CSimL pre c e :=
  ⟨h.1.trans g.1, h.2.trans g.2, h.3.trans g.3⟩

theorem finishC_sim {s t : St} (h : Sim s t) (fl : Option Int) : CSim (finishC s fl) (finishC t fl) := by
  cases fl <;> exact ⟨rfl, h, rfl⟩

theorem cWB_sim {s t : St} (h : Sim s t) (m : Option Latch) (fl : Option Int) :
    CSim (cWB s m fl) (cWB t m fl) := by
  unfold cWB
  obtain ⟨h1, h2⟩ := wbStage_sim h m
  rw [h2]
  exact ⟨(finishC_sim h1 _).1, (finishC_sim h1 _).2, rfl⟩

theorem cMEM_sim {s t : St} (h : Sim s t) (e : Option Latch) (fl : Option Int) :
    CSim (cMEM s e fl) (cMEM t e fl) := by
  unfold cMEM
  obtain ⟨h1, h2, h3⟩ := memStage_sim h e
  rw [h2, h3]
  split
  · exact ⟨rfl, h, rfl⟩
  · exact cWB_sim h1 _ _

theorem cEX_sim {s t : St} (h : Sim s t) (d : Option Latch) : CSim (cEX s d) (cEX t d) := by
  unfold cEX
  obtain ⟨h1, h2, h3⟩ := exStage_sim h d none none
  rw [h2, h3]
  split
  · exact ⟨rfl, h, rfl⟩
  · exact cMEM_sim h1 _ _

theorem cID_sim {s t : St} (h : Sim s t) (f : Option Latch) : CSim (cID s f) (cID t f) := by
  unfold cID; rw [h.regs]; exact cEX_sim h _

theorem bind_sim {pre : List Int} {c d : Comp} {f g : St → Comp} (h : CSimL pre c d)
    (hfg : ∀ s t, Sim s t → CSim (f s) (g t)) : CSimL pre (c.bind f) (d.bind g) := by
  unfold Comp.bind
  obtain ⟨hr, hs, hl⟩ := h
  rw [hr]
  cases d.red with
  | none =>
    have := hfg _ _ hs
    exact ⟨this.1, this.2, by rw [← List.append_assoc, hl, ← this.3]; rfl⟩
  | some a => exact ⟨hr, hs, hl⟩

end ArchSim.Pipe
