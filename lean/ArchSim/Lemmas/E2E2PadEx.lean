/-
End-to-end layer, part 2 (source-level padding, step 4): concrete texts — a text of simple lines with a RAW hazard and
its padding, and the counterexamples: a branch to a LABEL and a `jal` with a numeric (absolute) target, for which the
program of the padded text is NOT the padding of the program.
-/
import ArchSim.Lemmas.E2E2Pad
import ArchSim.Lemmas.E2EEx
import ArchSim.Lemmas.E2E2Ex

namespace ArchSim.Lemmas.E2E2.Ex
open ArchSim ArchSim.Rv ArchSim.Asm ArchSim.Lemmas.E2E ArchSim.Lemmas.E2E.Ex ArchSim.Lemmas.C08
open ArchSim.Lemmas.C04Spell (entryTexts)

/-! ### a text of simple lines -/

/-- `lui t0, 4 ; lw a0, 0(t0) ; li a7, 93`: the `lw` reads `t0` written by the `lui` right before it -/
def hazText : String := "lui t0, 4\nlw a0, 0(t0)\nli a7, 93"

def hazProg : List Instr :=
  [{ op := .lui, rd := 5, imm := 4 }, { op := .lw, rd := 10, rs1 := 5, imm := 0 },
   { op := .addi, rd := 17, rs1 := 0, imm := 93 }]

theorem entryTexts_hazText :
    entryTexts hazText = ["lui t0, 4".toList, "lw a0, 0(t0)".toList, "li a7, 93".toList] := by decide +kernel

theorem lineInstr_lui : lineInstr "lui t0, 4".toList = some { op := .lui, rd := 5, imm := 4 } := by
  simp only [lineInstr, parse_lui]; decide

theorem lineInstr_lw : lineInstr "lw a0, 0(t0)".toList = some { op := .lw, rd := 10, rs1 := 5, imm := 0 } := by
  simp only [lineInstr, parse_lw]; decide

theorem lineInstr_li : lineInstr "li a7, 93".toList = some { op := .addi, rd := 17, rs1 := 0, imm := 93 } := by
  simp only [lineInstr, parse_li.1]; decide

theorem hazText_simple : AllSimple hazText := by
  intro x hx
  rw [entryTexts_hazText] at hx
  simp only [List.mem_cons, List.not_mem_nil, or_false] at hx
  rcases hx with rfl | rfl | rfl
  · rw [lineInstr_lui]; rfl
  · rw [lineInstr_lw]; rfl
  · rw [lineInstr_li]; rfl

theorem lineInstrs_hazText : lineInstrs hazText = hazProg := by
  unfold lineInstrs
  rw [entryTexts_hazText]
  simp only [List.filterMap_cons, lineInstr_lui, lineInstr_lw, lineInstr_li, List.filterMap_nil, hazProg]

theorem padText_hazText :
    padText hazText = "lui t0, 4\nnop\nnop\nlw a0, 0(t0)\nnop\nnop\nli a7, 93\nnop\nnop" := by decide +kernel

/-- the power-on state after loading the padded text: the padded program -/
theorem load_pad_hazText_st : (load freshSt (padText hazText)).st = progSt (pad hazProg) := by
  rw [load_simple _ _ (allSimple_padText _ hazText_simple), lineInstrs_padText _ hazText_simple, lineInstrs_hazText,
    if_neg (by decide)]
  rfl

theorem load_hazText_st : (load freshSt hazText).st = progSt hazProg := by
  rw [load_simple _ _ hazText_simple, lineInstrs_hazText, if_neg (by decide)]
  rfl

/-! ### counterexample 1: a branch to a label -/

/-- a branch over nothing to an in-line label -/
def brText : String := "beq zero, zero, end\nend: ecall"

theorem sanitize_brText : sanitize brText = [(1, "beq zero, zero, end".toList), (2, "end: ecall".toList)] := by
  decide +kernel

/-- `brText` loads; the label is resolved to the displacement 4. -/
theorem load_brText : (load freshSt brText).err = none ∧
    (load freshSt brText).st.imem.prog = [{ op := .beq, imm := 4 }, { op := .ecall }] := by
  rw [ArchSim.Lemmas.C05.load_factors, sanitize_brText]
  simp only [tokenize, parse_beq, parse_end]
  exact ⟨by rfl, by rfl⟩

theorem padText_brText : padText brText = "beq zero, zero, end\nnop\nnop\nend: ecall\nnop\nnop" := by
  decide +kernel

theorem sanitize_pad_brText : sanitize (padText brText) =
    [(1, "beq zero, zero, end".toList), (2, nopLine), (3, nopLine), (4, "end: ecall".toList), (5, nopLine),
     (6, nopLine)] := by decide +kernel

/-- The padded text loads too, but the assembler re-resolves the label: the displacement is now 12. -/
theorem load_pad_brText : (load freshSt (padText brText)).err = none ∧
    (load freshSt (padText brText)).st.imem.prog =
      [{ op := .beq, imm := 12 }, nop, nop, { op := .ecall }, nop, nop] := by
  rw [ArchSim.Lemmas.C05.load_factors, sanitize_pad_brText]
  simp only [tokenize, parse_beq, parse_end, parse_nopLine]
  exact ⟨by rfl, by rfl⟩

/-! ### counterexample 2: `jal` with a numeric target (the number is an ABSOLUTE address) -/

open ArchSim.Lemmas.C04Spell in
theorem parse_ecall : parseLine "ecall".toList = some { lbl := none, item := .str "ecall" } := by
  have h := parseLine_render {} { op := .ecall }
    (spellable_small _ (by decide) (by decide) (by decide) (by decide) (by decide) (by decide))
  rw [show render {} { op := .ecall } = "ecall".toList by decide +kernel] at h
  exact h

open ArchSim.Lemmas.C04Spell in
theorem parse_jal : parseLine "jal x1, 8".toList = some { lbl := none, item := .grp (.jalImm 1 8) } := by
  have h := parseLine_render {} { op := .jal, rd := 1, aux := 8 }
    (spellable_small _ (by decide) (by decide) (by decide) (by decide) (by decide) (by decide))
  rw [show render {} { op := .jal, rd := 1, aux := 8 } = "jal x1, 8".toList by decide +kernel] at h
  exact h

def jalText : String := "ecall\njal x1, 8"

theorem sanitize_jalText : sanitize jalText = [(1, "ecall".toList), (2, "jal x1, 8".toList)] := by decide +kernel

/-- `jalText` loads; at address 4 the target 8 is the displacement 4. -/
theorem load_jalText : (load freshSt jalText).err = none ∧
    (load freshSt jalText).st.imem.prog = [{ op := .ecall }, { op := .jal, rd := 1, imm := 4, aux := 8 }] := by
  rw [ArchSim.Lemmas.C05.load_factors, sanitize_jalText]
  simp only [tokenize, parse_ecall, parse_jal]
  exact ⟨by rfl, by rfl⟩

theorem sanitize_pad_jalText : sanitize (padText jalText) =
    [(1, "ecall".toList), (2, nopLine), (3, nopLine), (4, "jal x1, 8".toList), (5, nopLine), (6, nopLine)] := by
  decide +kernel

/-- In the padded text the `jal` sits at address 12: the same target 8 is now the displacement -4. -/
theorem load_pad_jalText : (load freshSt (padText jalText)).err = none ∧
    (load freshSt (padText jalText)).st.imem.prog =
      [{ op := .ecall }, nop, nop, { op := .jal, rd := 1, imm := -4, aux := 8 }, nop, nop] := by
  rw [ArchSim.Lemmas.C05.load_factors, sanitize_pad_jalText]
  simp only [tokenize, parse_ecall, parse_jal, parse_nopLine]
  exact ⟨by rfl, by rfl⟩

end ArchSim.Lemmas.E2E2.Ex
