/-
Concrete TOY programs used by the examples of `Props/C19.lean`.
-/
import ArchSim.Model.ToyAsm

namespace ArchSim.ToyAsm
open ArchSim

/-- `loop: LDA x` / `.data` / `x: .word 7, 0x10` -/
def prog3 : List Entry :=
  [(1, "loop: LDA x", .instr (some "loop") "LDA" none (some "x")),
   (2, ".data", .directive "data"),
   (3, "x: .word 7, 0x10", .varDecl "x" ["7", "0x10"])]

/-- the same program with the data segment first -/
def prog3' : List Entry :=
  [(2, ".data", .directive "data"),
   (3, "x: .word 7, 0x10", .varDecl "x" ["7", "0x10"]),
   (4, ".text", .directive "text"),
   (1, "loop: LDA x", .instr (some "loop") "LDA" none (some "x"))]

/-- The example text of the task description. -/
def countdown : String :=
  "LDA x\nloop: DEC\nBRZ end\nZRO\nBRZ loop\nend: STO x\n.data\nx: .word 3\n"

/-- The example of the TOY help page (`ToyHelp.vue`: compare `my_array[0]` with `my_var`), as
    tokenised by the front end. -/
def helpExample : List Entry :=
  [(1, ".data", .directive "data"),
   (2, "my_array: .word 7, 0x00F, 3", .varDecl "my_array" ["7", "0x00F", "3"]),
   (3, "my_var: .word 7", .varDecl "my_var" ["7"]),
   (4, "my_result: .word 0", .varDecl "my_result" ["0"]),
   (5, ".text", .directive "text"),
   (7, "LDA my_array", .instr none "LDA" none (some "my_array")),
   (8, "SUB my_var", .instr none "SUB" none (some "my_var")),
   (9, "BRZ true", .instr none "BRZ" none (some "true")),
   (10, "ZRO", .instr none "ZRO" none none),
   (11, "BRZ end", .instr none "BRZ" none (some "end")),
   (12, "true:", .label "true"),
   (13, "INC", .instr none "INC" none none),
   (14, "STO my_result", .instr none "STO" none (some "my_result")),
   (15, "end:", .label "end")]

/-- `tests/toy_programs/sum.toy` (sum of 1..n, here n = 10), as tokenised by the front end. -/
def sumToy : List Entry :=
  [(3, ".data", .directive "data"),
   (4, "n: .word 10", .varDecl "n" ["10"]),
   (5, "result: .word 0", .varDecl "result" ["0"]),
   (7, ".text", .directive "text"),
   (8, "LDA n", .instr none "LDA" none (some "n")),
   (9, "BRZ end", .instr none "BRZ" none (some "end")),
   (10, "loop:", .label "loop"),
   (11, "LDA result", .instr none "LDA" none (some "result")),
   (12, "ADD n", .instr none "ADD" none (some "n")),
   (13, "STO result", .instr none "STO" none (some "result")),
   (14, "LDA n", .instr none "LDA" none (some "n")),
   (15, "DEC", .instr none "DEC" none none),
   (16, "STO n", .instr none "STO" none (some "n")),
   (17, "BRZ end", .instr none "BRZ" none (some "end")),
   (18, "ZRO", .instr none "ZRO" none none),
   (19, "BRZ loop", .instr none "BRZ" none (some "loop")),
   (20, "end:", .label "end")]

/-- the text of `tests/toy_programs/sum.toy`, piece by piece -/
def sumLines : List String :=
  ["# computes the sum of the numbers from 1 to n\n", "\n", ".data\n",
   "    n: .word 10 # enter n here\n", "    result: .word 0\n", "\n", ".text\n",
   "    LDA n # skip to the end if n=0\n", "    BRZ end\n", "    loop:\n",
   "        LDA result\n", "        ADD n\n", "        STO result\n", "        LDA n\n",
   "        DEC\n", "        STO n\n", "        BRZ end\n", "        ZRO\n", "        BRZ loop\n",
   "    end:\n"]

/-- the text of the help-page example (`ToyHelp.vue`), piece by piece -/
def helpLines : List String :=
  [".data\n",
   "    my_array: .word 7, 0x00F, 3 # my_array points to the address of the first element of the array\n",
   "    my_var: .word 7\n", "    my_result: .word 0\n", ".text\n",
   "    # check if the first element of my_array is equal to my_var and store result in my_result\n",
   "    LDA my_array\n", "    SUB my_var\n", "    BRZ true\n", "    ZRO\n", "    BRZ end\n",
   "    true:\n", "        INC\n", "        STO my_result\n", "    end:"]

end ArchSim.ToyAsm
