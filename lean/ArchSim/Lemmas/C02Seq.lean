/-
C02 (control half), part 13: a full completion of a freshly fetched instruction is one step of the
sequential machine.
-/
import ArchSim.Lemmas.C02Forms
import ArchSim.Spec.PipeSeq

namespace ArchSim.Pipe
open ArchSim ArchSim.Rv

/-! ### Completions do not touch the instruction memory -/

@[simp] theorem cWB_imem (s : St) (l : Option Latch) (fl : Option Int) : (cWB s l fl).st.imem = s.imem := by
  unfold cWB; rw [finishC_st, wbStage_imem]

@[simp] theorem cMEM_imem (s : St) (e : Option Latch) (fl : Option Int) : (cMEM s e fl).st.imem = s.imem := by
  unfold cMEM; split
  · rfl
  · rw [cWB_imem, memStage_imem]

@[simp] theorem cEX_imem (s : St) (d : Option Latch) : (cEX s d).st.imem = s.imem := by
  unfold cEX; split
  · rfl
  · rw [cMEM_imem, exStage_imem]

@[simp] theorem cID_imem (s : St) (f : Option Latch) : (cID s f).st.imem = s.imem := by
  unfold cID; exact cEX_imem _ _

theorem bind_imem (c : Comp) (f : St → Comp) (h : ∀ s, (f s).st.imem = s.imem) :
    (c.bind f).st.imem = c.st.imem := by
  unfold Comp.bind
  cases c.red with
  | none => exact h _
  | some a => rfl

@[simp] theorem absC_imem (p : PSt) : (absC p).st.imem = p.st.imem := by
  unfold absC
  rw [bind_imem _ _ (fun s => cID_imem s _), bind_imem _ _ (fun s => cID_imem s _),
    bind_imem _ _ (fun s => cEX_imem s _), bind_imem _ _ (fun s => cMEM_imem s _ _), cWB_imem]

@[simp] theorem abs_imem (p : PSt) : (abs p).imem = p.st.imem := absC_imem p

end ArchSim.Pipe

namespace ArchSim.Pipe
open ArchSim ArchSim.Rv

/-- `splitStep` after the fetch. -/
def splitTail (s1 : St) (f : Latch) : Rv.StepOut :=
  let d := idStage false s1.regs (some f) none none
  let ex := exStage s1 d none none
  match ex.fault with
  | some ft => { st := { ex.st with pc := f.addr }, fault := some (ft.addr, ft.fault) }
  | none =>
    let me := memStage ex.st ex.latch
    match me.fault with
    | some ft => { st := { me.st with pc := f.addr }, fault := some (ft.addr, ft.fault) }
    | none =>
      let (s4, w) := wbStage me.st me.latch
      let target : Option Int :=
        match latchFlush w with
        | some a => some a
        | none => match latchFlush me.latch with
          | some a => some a
          | none => latchFlush ex.latch
      match target with
      | some a => { st := { s4 with pc := a % 4294967296 }, fault := none }
      | none => { st := s4, fault := none }

theorem splitStep_instr (s : St) (i : Instr) (hi : s.imem.instrAt s.pc = some i) (hs : FetchSound s.imem) :
    splitStep s =
      splitTail { s with imem := (s.imem.fetch s.pc).imem,
                         cycles := s.cycles + 1 + (s.imem.fetch s.pc).extra, pc := s.pc + 4 }
        { instr := i, addr := s.pc, pc4 := s.pc + 4 } := by
  unfold splitStep
  simp only []
  rw [ifStage_instr { s with cycles := s.cycles + 1 } i hi hs]
  rfl

theorem splitStep_noinstr (s : St) (hi : s.imem.instrAt s.pc = none) :
    splitStep s = { st := { s with cycles := s.cycles + 1 }, fault := none } := by
  unfold splitStep
  simp only []
  rw [ifStage_noinstr { s with cycles := s.cycles + 1 } hi]

end ArchSim.Pipe

namespace ArchSim.Pipe
open ArchSim ArchSim.Rv

theorem exStage_fault_addr (s : St) (d : Latch) (l2 l3 : Option Latch) (ft : PFault)
    (h : (exStage s (some d) l2 l3).fault = some ft) : ft.addr = d.addr ∧ ft.instr = d.instr := by
  by_cases hop : d.instr.op = .ecall
  · cases hw : ecallMustWait d l2 l3
    · rw [exStage_ecall_go s d l2 l3 hop hw] at h
      unfold ecallRun at h
      split at h <;> simp at h <;> subst h <;> exact ⟨rfl, rfl⟩
    · rw [exStage_ecall_wait s d l2 l3 hop hw] at h; cases h
  · rw [exStage_nonecall s d l2 l3 hop] at h
    split at h
    · simp at h; subst h; exact ⟨rfl, rfl⟩
    · cases h

theorem memStage_fault_addr (s : St) (e : Latch) (ft : PFault)
    (h : (memStage s (some e)).fault = some ft) : ft.addr = e.addr ∧ ft.instr = e.instr := by
  unfold memStage at h
  simp only [] at h
  split at h
  · simp at h; subst h; exact ⟨rfl, rfl⟩
  · split at h
    · simp at h; subst h; exact ⟨rfl, rfl⟩
    · cases h

/-- MEM never faults on an ECALL. -/
theorem memStage_ecall_nofault (s : St) (e : Latch) (hop : e.instr.op = .ecall) :
    (memStage s (some e)).fault = none := by
  have hma : memoryAccess e.instr e.result e.rr.d2 s.mem true = some { mem := s.mem, extra := 0, res := .ok none } := by
    have hty : e.instr.op.ty = .i := by rw [hop]; rfl
    unfold memoryAccess; simp only [hty]
  unfold memStage
  simp only [hma]

end ArchSim.Pipe

namespace ArchSim.Pipe
open ArchSim ArchSim.Rv

/-- The tail of `splitStep` and the full completion `cID` are the same computation. -/
theorem splitTail_cID (s1 : St) (f : Latch) :
    match (splitTail s1 f).fault with
    | some ft => (cID s1 (some f)).red = some (ft.1, some ft.2) ∧ Sim (cID s1 (some f)).st s1 ∧ ft.1 = f.addr
    | none => (cID s1 (some f)).flt = none ∧ (splitTail s1 f).st =
        { (cID s1 (some f)).st with pc := (cID s1 (some f)).pcOr s1.pc } := by
  unfold splitTail cID
  simp only []
  generalize hd : idStage false s1.regs (some f) none none = dl
  have hdl : ∃ d, dl = some d ∧ d.addr = f.addr := by rw [← hd, idStage_some]; exact ⟨_, rfl, rfl⟩
  obtain ⟨d, rfl, hda⟩ := hdl
  cases hxf : (exStage s1 (some d) none none).fault with
  | some ft =>
    simp only []
    unfold cEX; rw [hxf]
    exact ⟨rfl, Sim.rfl' _, by rw [(exStage_fault_addr _ _ _ _ _ hxf).1, hda]⟩
  | none =>
    simp only []
    rw [cEX_nofault _ _ hxf]
    obtain ⟨e, he, hei, _, hea, _⟩ := exStage_facts s1 d none none hxf
    cases hmf : (memStage (exStage s1 (some d) none none).st (exStage s1 (some d) none none).latch).fault with
    | some ft =>
      simp only []
      unfold cMEM; rw [hmf]
      refine ⟨rfl, ?_, ?_⟩
      · rcases exStage_st s1 (some d) none none with h | ⟨d', hd', hop, _, _⟩
        · simp only [stuckC]; rw [h]; exact Sim.rfl' _
        · cases hd'
          rw [he, memStage_ecall_nofault _ e (by rw [hei]; exact hop)] at hmf; cases hmf
      · rw [he] at hmf; rw [(memStage_fault_addr _ _ _ hmf).1, hea, hda]
    | none =>
      simp only []
      rw [cMEM_nofault _ _ _ hmf]
      unfold cWB
      generalize (exStage s1 (some d) none none).latch = xl at *
      generalize hms : (memStage (exStage s1 (some d) none none).st xl) = me at *
      have hpc : (wbStage me.st me.latch).1.pc = s1.pc := by
        rw [wbStage_pc, ← hms, memStage_pc, exStage_pc]
      cases hw : latchFlush (wbStage me.st me.latch).2 with
      | some a => simp [finishC, orElseFl, Comp.flt, Comp.pcOr]
      | none =>
        cases hm : latchFlush me.latch with
        | some a => simp [finishC, orElseFl, Comp.flt, Comp.pcOr]
        | none =>
          cases hx : latchFlush xl with
          | some a => simp [finishC, orElseFl, Comp.flt, Comp.pcOr]
          | none =>
            simp only [finishC, orElseFl, Comp.flt, Comp.pcOr]
            refine ⟨trivial, ?_⟩
            rw [← hpc]

end ArchSim.Pipe

namespace ArchSim.Pipe
open ArchSim ArchSim.Rv

/-- State and IF/ID latch after a successful fetch in state `s`. -/
def fetchSt (s : St) : St :=
  { s with imem := (s.imem.fetch s.pc).imem, cycles := s.cycles + 1 + (s.imem.fetch s.pc).extra, pc := s.pc + 4 }
def fetchLatch (s : St) (i : Instr) : Latch := { instr := i, addr := s.pc, pc4 := s.pc + 4 }

theorem splitStep_instr' (s : St) (i : Instr) (hi : s.imem.instrAt s.pc = some i) (hs : FetchSound s.imem) :
    splitStep s = splitTail (fetchSt s) (fetchLatch s i) := splitStep_instr s i hi hs

/-- One sequential step at an occupied pc = the full completion of the instruction fetched there;
    the sequential fault is the fault the completion gets stuck with. -/
theorem seqStep_cID (s : St) (i : Instr) (hi : s.imem.instrAt s.pc = some i) (hs : FetchSound s.imem) :
    Sim (seqStep s) (cID s (some (fetchLatch s i))).st ∧
      (seqStep s).pc = (cID s (some (fetchLatch s i))).pcOr (s.pc + 4) ∧
      seqFault s = (cID s (some (fetchLatch s i))).flt := by
  have h1 : Sim s (fetchSt s) := ⟨rfl, rfl, rfl, rfl, rfl, rfl, rfl, ((hs _ _ hi).2).symm⟩
  have hc := cID_sim h1 (some (fetchLatch s i))
  have ht := splitTail_cID (fetchSt s) (fetchLatch s i)
  unfold seqStep seqFault
  rw [splitStep_instr' s i hi hs]
  cases hft : (splitTail (fetchSt s) (fetchLatch s i)).fault with
  | some ft =>
    rw [hft] at ht
    simp only []
    refine ⟨h1.trans (ht.2.1.symm.trans hc.2.symm), ?_, ?_⟩
    · rw [pcOr_of_red (hc.1.trans ht.1), ht.2.2]; rfl
    · unfold Comp.flt; rw [hc.1, ht.1]
  | none =>
    rw [hft] at ht
    simp only [] at ht ⊢
    rw [ht.2]
    refine ⟨(sim_setPc _ _).trans hc.2.symm, ?_, ?_⟩
    · unfold Comp.pcOr; rw [hc.1]; rfl
    · unfold Comp.flt at ht ⊢; rw [hc.1]; exact ht.1.symm

theorem seqStep_noinstr (s : St) (hi : s.imem.instrAt s.pc = none) : SimP (seqStep s) s := by
  unfold seqStep
  rw [splitStep_noinstr s hi]
  exact ⟨⟨rfl, rfl, rfl, rfl, rfl, rfl, rfl, rfl⟩, rfl⟩

end ArchSim.Pipe

namespace ArchSim.Pipe
open ArchSim ArchSim.Rv

/-- A full completion retires its instruction unless it gets stuck at a fault. -/
theorem cID_log (s : St) (f : Latch) :
    (cID s (some f)).log = if (cID s (some f)).flt.isSome then [] else [f.addr] := by
  unfold cID
  generalize hd : idStage false s.regs (some f) none none = dl
  have hdl : ∃ d, dl = some d ∧ d.addr = f.addr := by rw [← hd, idStage_some]; exact ⟨_, rfl, rfl⟩
  obtain ⟨d, rfl, hda⟩ := hdl
  cases hxf : (exStage s (some d) none none).fault with
  | some ft => unfold cEX; rw [hxf]; rfl
  | none =>
    rw [cEX_nofault _ _ hxf]
    obtain ⟨e, he, _, _, hea, _⟩ := exStage_facts s d none none hxf
    rw [he]
    cases hmf : (memStage (exStage s (some d) none none).st (some e)).fault with
    | some ft => unfold cMEM; rw [hmf]; rfl
    | none =>
      rw [cMEM_nofault _ _ _ hmf]
      obtain ⟨m, hm, _, _, hma, _⟩ := memStage_facts _ e hmf
      rw [cWB_log, cWB_flt, hm]
      simp [latchLog, hma, hea, hda]

theorem seqStep_log (s : St) (i : Instr) (hi : s.imem.instrAt s.pc = some i) (hs : FetchSound s.imem) :
    (cID s (some (fetchLatch s i))).log = seqLog s := by
  rw [cID_log, ← (seqStep_cID s i hi hs).2.2]
  unfold seqLog; rw [hi]
  cases seqFault s <;> rfl

end ArchSim.Pipe
