/-
C01 helper lemmas, part 9: the constructors produce well-formed immediates; print-string never runs
out of fuel (from any start address); the state left behind at a fault.
-/
import ArchSim.Lemmas.C01Step
namespace ArchSim.Lemmas.C01
open ArchSim ArchSim.Rv ArchSim.Spec.RvSpec ArchSim.Mem ArchSim.Cache

/-! ### the constructors produce well-formed immediates -/

theorem sextImm_range12 (raw : Int) : -2048 ≤ sextImm 12 raw ∧ sextImm 12 raw < 2048 := by
  simp only [sextImm, Nat.reduceSub, Int.reducePow]; omega
theorem sextImm_range13 (raw : Int) : -4096 ≤ sextImm 13 raw ∧ sextImm 13 raw < 4096 := by
  simp only [sextImm, Nat.reduceSub, Int.reducePow]; omega
theorem sextImm_range20 (raw : Int) : -524288 ≤ sextImm 20 raw ∧ sextImm 20 raw < 524288 := by
  simp only [sextImm, Nat.reduceSub, Int.reducePow]; omega
theorem sextImm_range21 (raw : Int) : -1048576 ≤ sextImm 21 raw ∧ sextImm 21 raw < 1048576 := by
  simp only [sextImm, Nat.reduceSub, Int.reducePow]; omega

/-- Whatever raw immediate the parser passes, the constructor stores one in the range of the format
    (for the supported mnemonics). -/
theorem storedImm_ok (op : Op) (raw : Int) (h : Supported op) : ImmOK op (storedImm op raw) := by
  cases op <;> simp only [ImmOK, storedImm, Op.ty, reduceCtorEq, if_false, if_true] <;>
    first
      | exact sextImm_range12 raw
      | exact sextImm_range13 raw
      | exact sextImm_range20 raw
      | exact sextImm_range21 raw
      | trivial
      | omega
      | exact absurd h (by decide)

/-! ### print-string never runs out of fuel, from ANY start address -/

theorem read8_flatI (m : Mem) (hc : m.cfg = riscvCfg) (a : Int) (c : Bool) :
    ((MemSys.flat m).read 8 a c).mem = .flat m ∧
    ((MemSys.flat m).read 8 a c).res =
      (if 16384 ≤ a % 4294967296 then .ok (m.cells (a % 4294967296) % 256)
       else .error (.addr (a % 4294967296))) := by
  rw [read_flat m hc 8 (by omega)]
  simp only [rdCells, cellRes, Nat.reduceDiv, true_and]
  have e : (a + ((0 : Nat) : Int)) % 4294967296 = a % 4294967296 := by omega
  rw [e]
  by_cases h : 16384 ≤ a % 4294967296
  · simp only [h, if_true, Except.map]
    congr 2; omega
  · simp only [h, if_false, Except.map]

theorem printStr_fuel (m : Mem) (hc : m.cfg = riscvCfg) :
    ∀ (fuel : Nat) (a : Int) (acc : List Char),
      (a % 4294967296 < 16384 ∧ 0 < fuel ∨
        16384 ≤ a % 4294967296 ∧ 4294967296 - a % 4294967296 < (fuel : Int)) →
      (printStrLoop fuel (.flat m) a acc).2 ≠ .error .policy := by
  intro fuel
  induction fuel with
  | zero => intro a acc h; omega
  | succ fuel ih =>
    intro a acc hf
    obtain ⟨h1, h2⟩ := read8_flatI m hc a false
    rw [printStrLoop]
    simp only [h1, h2]
    by_cases hok : 16384 ≤ a % 4294967296
    · simp only [hok, if_true]
      split
      · simp
      · exact ih (a + 1) _ (by omega)
    · simp only [hok, if_false]
      simp


/-! ### the state left behind at a fault -/

theorem storeWhile_writeNFrom (s : St) (A : Int) (n : Nat) :
    ∀ (m : Mem) (k v : Nat), m.cfg = riscvCfg →
      (α { s with mem := .flat m }).storeWhileMapped (BitVec.ofInt 32 A + BitVec.ofNat 32 k) (bytesFrom v n) =
        α { s with mem := .flat (writeNFrom m A n k v).1 } := by
  induction n with
  | zero => intro m k v _; rfl
  | succ n ih =>
    intro m k v hc
    have hstep := storeByte_step s m hc A k v
    simp only [bytesFrom, SpecSt.storeWhileMapped, writeNFrom, hc]
    simp only [SpecSt.storeByte] at hstep
    cases h : writeCell m (A + (k : Int)) (v % 256) with
    | error e =>
      rw [h] at hstep
      by_cases hmp : mapped (BitVec.ofInt 32 A + BitVec.ofNat 32 k)
      · rw [if_pos hmp] at hstep; cases hstep
      · rw [if_neg hmp]
        simp only [riscvCfg, Nat.reducePow, h]
    | ok m' =>
      rw [h] at hstep
      have hc' : m'.cfg = riscvCfg := by rw [writeCell_cfg' m m' _ _ h, hc]
      by_cases hmp : mapped (BitVec.ofInt 32 A + BitVec.ofNat 32 k)
      · rw [if_pos hmp] at hstep
        rw [if_pos hmp]
        simp only [riscvCfg, Nat.reducePow, h]
        simp only [αWC] at hstep
        rw [Except.ok.inj hstep, ← ih m' (k + 1) (v / 256) hc', BitVec.add_assoc]
        congr 2
        apply BitVec.eq_of_toNat_eq
        simp only [BitVec.toNat_add, BitVec.toNat_ofNat, BitVec.ofNat_eq_ofNat]
        omega
      · rw [if_neg hmp] at hstep; cases hstep

theorem storeWhile_writeN (s : St) (m : Mem) (hm : s.mem = .flat m) (hc : m.cfg = riscvCfg) (A : Int)
    (n v : Nat) :
    (α s).storeWhileMapped (BitVec.ofInt 32 A) (bytesFrom v n) = α { s with mem := .flat (writeN m A n v).1 } := by
  have := storeWhile_writeNFrom s A n m 0 v hc
  rw [show BitVec.ofInt 32 A + BitVec.ofNat 32 0 = BitVec.ofInt 32 A from BitVec.add_zero _,
    α_mem_self s m hm] at this
  exact this

theorem atFault_non_store (i : Instr) (σ : SpecSt) (h : i.op.ty ≠ .s) : atFault i σ = σ := by
  cases hop : i.op <;> simp only [atFault, hop] <;> (rw [hop] at h; exact absurd rfl h)

theorem behavior_fault_α (i : Instr) (s : St) (hs : Inv s) (hty : i.op.ty ≠ .s) (f : Fault)
    (hf : (behavior i s).fault = some f) : α (behavior i s).st = α s := by
  obtain ⟨m, hm, hc, hw⟩ := hs.flat
  cases hty' : i.op.ty with
  | r => rw [behavior_r i s hty'] at hf; cases hf
  | shiftI => rw [behavior_shiftI i s hty'] at hf; cases hf
  | memI =>
    have hb8 : 8 ≤ accessBits i.op := by simp only [accessBits]; split <;> omega
    simp only [behavior, hty', hm, read_flat m hc _ hb8] at hf ⊢
    cases hr : (rdCells m ((s.regs i.rs1 : Int) + i.imm) (accessBits i.op / 8) 0) with
    | error e => simp only [Except.map]; exact α_mem_cycles s m hm _
    | ok v => rw [hr] at hf; simp only [Except.map] at hf; cases hf
  | s => exact absurd hty' hty
  | b =>
    simp only [behavior, hty'] at hf
    split at hf <;> cases hf
  | u =>
    simp only [behavior, hty'] at hf
    split at hf <;> cases hf
  | j => simp only [behavior, hty'] at hf; cases hf
  | i =>
    simp only [behavior, hty'] at hf ⊢
    split
    · rename_i h1; simp only [h1, if_true] at hf; cases hf
    · rename_i h1
      split
      · rename_i h2
        simp only [h2, if_true] at hf
        have hpm := processEcall_mem s hs
        rcases hp : processEcall s with ⟨m', r⟩
        rw [hp] at hpm hf
        simp only at hpm
        subst hpm
        cases r <;> first | rfl | cases hf
      · split
        · rfl
        · rename_i h2 h3; simp only [h1, h2, h3, if_false] at hf; cases hf
  | fence => simp only [behavior, hty']
  | csr => simp only [behavior, hty']
  | csri => simp only [behavior, hty']


theorem behavior_store_st (i : Instr) (s : St) (m : Mem) (hm : s.mem = .flat m) (hc : m.cfg = riscvCfg)
    (hty : i.op.ty = .s) :
    α (behavior i s).st = α { s with mem := MemSys.flat (Prod.fst (writeN m (((s.regs i.rs1 + wrapU i.imm) % 4294967296 : Nat) : Int) (accessBits i.op / 8) (s.regs i.rs2 % 2 ^ accessBits i.op))) } := by
  have hb8 : 8 ≤ accessBits i.op := by simp only [accessBits]; split <;> omega
  simp only [behavior, hty, hm, write_flat m hc _ hb8]
  rcases writeN m (((s.regs i.rs1 + wrapU i.imm) % 4294967296 : Nat) : Int) (accessBits i.op / 8)
        (s.regs i.rs2 % 2 ^ accessBits i.op) with ⟨m', _ | e⟩ <;> rfl

theorem fault_state_lem (i : Instr) (s : St) (hi : InstrWF i) (hs : StOK s) (f : Fault)
    (hf : (execOne i s).fault = some f) : α (execOne i s).st = atFault i (α s) := by
  obtain ⟨m, hm, hc, hw⟩ := hs.flat
  have hbf : (behavior i s).fault = some f ∧ (execOne i s).st = (behavior i s).st := by
    simp only [execOne] at hf ⊢
    split at hf
    · rename_i ft hft; exact ⟨hft.trans (by rw [← hf, hft]), rfl⟩
    · cases hf
  rw [hbf.2]
  by_cases hty : i.op.ty = .s
  · rw [behavior_store_st i s m hm hc hty, ← storeWhile_writeN s m hm hc, ← addr_store]
    have himm : -2048 ≤ i.imm ∧ i.imm < 2048 := by have := hi.imm; simp only [ImmOK, hty] at this; exact this
    cases hop : i.op <;> (rw [hop] at hty; try (exact absurd hty (by decide)))
    · simp only [atFault, hop, α_get s hs _ hi.rs1, α_get s hs _ hi.rs2, immI_eq i himm, accessBits,
        Nat.reduceDiv, ← bytes_byte]
    · simp only [atFault, hop, α_get s hs _ hi.rs1, α_get s hs _ hi.rs2, immI_eq i himm, accessBits,
        Nat.reduceDiv, ← bytes_half]
    · simp only [atFault, hop, α_get s hs _ hi.rs1, α_get s hs _ hi.rs2, immI_eq i himm, accessBits,
        Nat.reduceDiv, ← bytes_word]
  · rw [behavior_fault_α i s hs.inv hty f hbf.1, atFault_non_store i _ hty]


/-! ### x0 along runs -/

theorem stepN_regs0 : ∀ (n : Nat) (s : St), (stepN n s).st.regs 0 = s.regs 0 := by
  intro n
  induction n with
  | zero => intro s; rfl
  | succ n ih =>
    intro s
    simp only [stepN]
    split
    · exact singleStep_regs0 s
    · rw [ih, singleStep_regs0]

theorem simN_regs0 : ∀ (n : Nat) (s : St), (simN n s).st.regs 0 = s.regs 0 := by
  intro n
  induction n with
  | zero => intro s; rfl
  | succ n ih =>
    intro s
    simp only [simN]
    split
    · rfl
    · split
      · exact singleStep_regs0 s
      · rw [ih, singleStep_regs0]

theorem stepN_pc : ∀ (n : Nat) (s : St), 0 ≤ s.pc → s.pc < 4294967296 →
    0 ≤ (stepN n s).st.pc ∧ (stepN n s).st.pc < 4294967296 := by
  intro n
  induction n with
  | zero => intro s h0 h1; exact ⟨h0, h1⟩
  | succ n ih =>
    intro s h0 h1
    have := singleStep_pc s h0 h1
    simp only [stepN]
    split
    · exact this
    · exact ih _ this.1 this.2

end ArchSim.Lemmas.C01
