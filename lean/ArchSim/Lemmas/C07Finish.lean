/-
C07/C08 helper lemmas, part 3: what the bookkeeping after the stage loop (`finishStep`) does to the
architectural state, and the resulting cycle-count equations for `Pipe.step`.
Core Lean only.
-/
import ArchSim.Lemmas.C07Frame

namespace ArchSim.Lemmas.C07
open ArchSim ArchSim.Rv ArchSim.Pipe ArchSim.Lemmas.C02Split

theorem finishStep_frame (p : PSt) (s : St) (n0 n1 n2 n3 n4 : Option Latch) :
    (finishStep p s n0 n1 n2 n3 n4).st.cycles = s.cycles ∧
    (finishStep p s n0 n1 n2 n3 n4).st.regs = s.regs ∧
    (finishStep p s n0 n1 n2 n3 n4).st.mem = s.mem ∧
    (finishStep p s n0 n1 n2 n3 n4).st.imem = s.imem ∧
    (finishStep p s n0 n1 n2 n3 n4).st.output = s.output ∧
    (finishStep p s n0 n1 n2 n3 n4).st.exitCode = s.exitCode ∧
    (finishStep p s n0 n1 n2 n3 n4).st.instrs = s.instrs ∧
    (finishStep p s n0 n1 n2 n3 n4).st.branches = s.branches ∧
    (finishStep p s n0 n1 n2 n3 n4).st.procs = s.procs ∧
    (finishStep p s n0 n1 n2 n3 n4).hazard = p.hazard := by
  unfold finishStep
  simp only
  repeat' split
  all_goals simp

theorem finishStep_stalls (p : PSt) (s : St) (n0 n1 n2 n3 n4 : Option Latch) :
    (finishStep p s n0 n1 n2 n3 n4).st.stalls =
      s.stalls + (if (pickStall p.stalled n1 n2).isSome then 1 else 0) := by
  unfold finishStep
  simp only
  repeat' split
  all_goals simp_all

theorem finishStep_l4 (p : PSt) (s : St) (n0 n1 n2 n3 n4 : Option Latch) :
    (finishStep p s n0 n1 n2 n3 n4).l4 = n4 := by
  unfold finishStep
  simp only
  repeat' split
  all_goals rfl

/-! ### Cycle counter -/

/-- Extra cycles of this cycle's instruction fetch: none while stalled or with nothing at the pc. -/
def fetchExtra (p : PSt) : Nat :=
  match p.stalled with
  | none => ifExtra p.st
  | some _ => 0

/-- Extra cycles of this cycle's MEM-stage memory access (on the memory system EX leaves behind). -/
def memExtra (p : PSt) : Nat := maExtra (exO p).st.mem (memInput p)

theorem sIF_cycles (p : PSt) : (sIF p).cycles = p.st.cycles + 1 + fetchExtra p := by
  unfold sIF fetchExtra
  cases p.stalled with
  | none => simp only [ifStage_cycles]; rfl
  | some st => rfl

theorem sWB_cycles (p : PSt) : (sWB p).cycles = p.st.cycles + 1 + fetchExtra p := by
  unfold sWB; rw [(wbStage_frame _ _).2.2.2.2.1, sIF_cycles]

theorem exO_cycles (p : PSt) : (exO p).st.cycles = p.st.cycles + 1 + fetchExtra p := by
  unfold exO; rw [(exStage_frame _ _ _ _).2.2.2.1, sWB_cycles]

theorem meO_cycles (p : PSt) : (meO p).st.cycles = p.st.cycles + 1 + fetchExtra p + memExtra p := by
  unfold meO; rw [memStage_cycles, exO_cycles]; rfl

theorem sIF_mem (p : PSt) : (sIF p).mem = p.st.mem := by
  unfold sIF
  cases p.stalled with
  | none => simp only [(ifStage_frame _).2.1]; rfl
  | some st => rfl

theorem sWB_mem (p : PSt) : (sWB p).mem = p.st.mem := by
  unfold sWB; rw [(wbStage_frame _ _).2.1, sIF_mem]

/-- Unless EX is handed an ecall, the MEM stage works on the memory system of the start of the cycle. -/
theorem exO_mem_nonEcall (p : PSt) (h : ∀ d, exInput p = some d → d.instr.op ≠ .ecall) :
    (exO p).st.mem = p.st.mem := by
  unfold exO; rw [exStage_mem_nonEcall _ _ _ _ h, sWB_mem]

end ArchSim.Lemmas.C07
