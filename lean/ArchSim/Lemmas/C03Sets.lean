/-
C03 helper lemmas, part 2: one cache set and the list of sets (`findWay`, `CSet.read`, `CSet.write`,
`readBlock`, `writeBlock`) in terms of the lookup function `lookup`.
-/
import ArchSim.Spec.CacheAbs

namespace ArchSim.Lemmas.C03
open ArchSim ArchSim.Cache ArchSim.Mem ArchSim.Spec.CacheAbs

/-! ### `findWay` -/

/-- The test `get_block_index` applies to a way. -/
def hitP (tag : Nat) (w : Way Nat) : Bool := w.valid && w.tag == tag

theorem hitP_iff (tag : Nat) (w : Way Nat) : hitP tag w = true ↔ w.valid = true ∧ w.tag = tag := by
  simp [hitP]

theorem findWay_eq (ways : List (Way Nat)) (tag : Nat) :
    findWay ways tag =
      if ways.findIdx (hitP tag) < ways.length then some (ways.findIdx (hitP tag)) else none := rfl

theorem findWay_some {ways : List (Way Nat)} {tag i : Nat} (h : findWay ways tag = some i) :
    ∃ w, ways[i]? = some w ∧ w.valid = true ∧ w.tag = tag := by
  rw [findWay_eq] at h
  split at h
  · rename_i hlt
    cases h
    refine ⟨ways[ways.findIdx (hitP tag)], List.getElem?_eq_getElem hlt, ?_⟩
    exact (hitP_iff _ _).mp (List.findIdx_getElem (w := hlt))
  · cases h

theorem findWay_none {ways : List (Way Nat)} {tag : Nat} (h : findWay ways tag = none) :
    ∀ (i : Nat) (w : Way Nat), ways[i]? = some w → ¬ (w.valid = true ∧ w.tag = tag) := by
  rw [findWay_eq] at h
  split at h
  · cases h
  · rename_i hlt
    have he : ways.findIdx (hitP tag) = ways.length :=
      Nat.le_antisymm List.findIdx_le_length (Nat.le_of_not_lt hlt)
    intro i w hw hv
    have := List.findIdx_eq_length.mp he w (List.mem_of_getElem? hw)
    rw [(hitP_iff tag w).mpr hv] at this
    cases this

theorem findWay_of_mem {ways : List (Way Nat)} (hd : Distinct ways) {tag i : Nat} {w : Way Nat}
    (hw : ways[i]? = some w) (hv : w.valid = true) (ht : w.tag = tag) :
    findWay ways tag = some i := by
  cases hf : findWay ways tag with
  | none => exact absurd ⟨hv, ht⟩ (findWay_none hf i w hw)
  | some j =>
    obtain ⟨w', hw', hv', ht'⟩ := findWay_some hf
    rw [hd j i w' w hw' hw hv' hv (ht'.trans ht.symm)]

/-! ### `lookupWays` -/

theorem lookupWays_some_iff {ways : List (Way Nat)} (hd : Distinct ways) (tag : Nat) (w : Way Nat) :
    lookupWays ways tag = some w ↔ ∃ i : Nat, ways[i]? = some w ∧ w.valid = true ∧ w.tag = tag := by
  unfold lookupWays
  constructor
  · intro h
    cases hf : findWay ways tag with
    | none => rw [hf] at h; cases h
    | some i =>
      rw [hf] at h
      obtain ⟨w', hw', hv', ht'⟩ := findWay_some hf
      have h' : ways[i]? = some w := h
      rw [hw'] at h'; cases h'
      exact ⟨i, hw', hv', ht'⟩
  · rintro ⟨i, hw, hv, ht⟩
    rw [findWay_of_mem hd hw hv ht]
    exact hw

theorem lookupWays_none_iff {ways : List (Way Nat)} (tag : Nat) :
    lookupWays ways tag = none ↔
      ∀ (i : Nat) (w : Way Nat), ways[i]? = some w → ¬ (w.valid = true ∧ w.tag = tag) := by
  unfold lookupWays
  constructor
  · intro h
    cases hf : findWay ways tag with
    | none => exact findWay_none hf
    | some i =>
      rw [hf] at h
      obtain ⟨w', hw', _, _⟩ := findWay_some hf
      have h' : ways[i]? = none := h
      rw [hw'] at h'; cases h'
  · intro h
    cases hf : findWay ways tag with
    | none => rfl
    | some i =>
      obtain ⟨w', hw', hv', ht'⟩ := findWay_some hf
      exact absurd ⟨hv', ht'⟩ (h i w' hw')

theorem findWay_isSome (ways : List (Way Nat)) (tag : Nat) :
    (findWay ways tag).isSome = (lookupWays ways tag).isSome := by
  unfold lookupWays
  cases hf : findWay ways tag with
  | none => rfl
  | some i =>
    obtain ⟨w', hw', _, _⟩ := findWay_some hf
    simp [hw']

/-- Replacing way `v` by a valid way with tag `t0`, when no *other* way carries `t0`. -/
theorem set_distinct {ways : List (Way Nat)} (hd : Distinct ways) (v : Nat) (wnew : Way Nat)
    (hu : ∀ (j : Nat) (w : Way Nat), ways[j]? = some w → w.valid = true → w.tag = wnew.tag → j = v) :
    Distinct (ways.set v wnew) := by
  intro i j wi wj hi hj hvi hvj ht
  rw [List.getElem?_set] at hi hj
  by_cases hiv : v = i
  · by_cases hjv : v = j
    · omega
    · rw [if_neg hjv] at hj
      rw [if_pos hiv] at hi
      split at hi
      · cases hi
        have := hu j wj hj hvj ht.symm
        omega
      · cases hi
  · rw [if_neg hiv] at hi
    by_cases hjv : v = j
    · rw [if_pos hjv] at hj
      split at hj
      · cases hj
        have := hu i wi hi hvi ht
        omega
      · cases hj
    · rw [if_neg hjv] at hj
      exact hd i j wi wj hi hj hvi hvj ht

theorem lookupWays_set {ways : List (Way Nat)} (hd : Distinct ways) (v : Nat) (old wnew : Way Nat)
    (hold : ways[v]? = some old) (hnv : wnew.valid = true)
    (hu : ∀ (j : Nat) (w : Way Nat), ways[j]? = some w → w.valid = true → w.tag = wnew.tag → j = v)
    (tag : Nat) :
    lookupWays (ways.set v wnew) tag =
      if tag = wnew.tag then some wnew
      else if old.valid = true ∧ tag = old.tag then none
      else lookupWays ways tag := by
  have hd' := set_distinct hd v wnew hu
  have hvlt : v < ways.length := by
    rcases Nat.lt_or_ge v ways.length with h | h
    · exact h
    · rw [List.getElem?_eq_none h] at hold; cases hold
  by_cases h1 : tag = wnew.tag
  · rw [if_pos h1]
    apply (lookupWays_some_iff hd' tag wnew).mpr
    exact ⟨v, by rw [List.getElem?_set, if_pos rfl, if_pos hvlt], hnv, h1.symm⟩
  · rw [if_neg h1]
    by_cases h2 : old.valid = true ∧ tag = old.tag
    · rw [if_pos h2]
      apply (lookupWays_none_iff tag).mpr
      intro i w hw hvt
      rw [List.getElem?_set] at hw
      by_cases hiv : v = i
      · rw [if_pos hiv, if_pos hvlt] at hw
        cases hw
        exact h1 hvt.2.symm
      · rw [if_neg hiv] at hw
        exact hiv (hd v i old w hold hw h2.1 hvt.1 (h2.2.symm.trans hvt.2.symm))
    · rw [if_neg h2]
      apply Option.ext
      intro w
      rw [lookupWays_some_iff hd', lookupWays_some_iff hd]
      constructor
      · rintro ⟨i, hw, hv, ht⟩
        rw [List.getElem?_set] at hw
        by_cases hiv : v = i
        · rw [if_pos hiv, if_pos hvlt] at hw
          cases hw
          exact absurd ht.symm h1
        · rw [if_neg hiv] at hw
          exact ⟨i, hw, hv, ht⟩
      · rintro ⟨i, hw, hv, ht⟩
        refine ⟨i, ?_, hv, ht⟩
        rw [List.getElem?_set]
        by_cases hiv : v = i
        · subst hiv
          rw [hold] at hw; cases hw
          exact absurd ⟨hv, ht.symm⟩ h2
        · rw [if_neg hiv]; exact hw

/-! ### `lookup` on the list of sets -/

theorem lookup_of_get {σ : Type} {sets : List (CSet σ Nat)} {k : Nat} {cs : CSet σ Nat}
    (h : sets[k]? = some cs) (tag : Nat) : lookup sets k tag = lookupWays cs.ways tag := by
  simp [lookup, h]

theorem lookup_set {σ : Type} (sets : List (CSet σ Nat)) (k : Nat) (cs' : CSet σ Nat)
    (hk : k < sets.length) (k' tag : Nat) :
    lookup (sets.set k cs') k' tag =
      if k' = k then lookupWays cs'.ways tag else lookup sets k' tag := by
  unfold lookup
  rw [List.getElem?_set]
  by_cases h : k = k'
  · subst h; simp [hk]
  · rw [if_neg h, if_neg (fun e => h e.symm)]

theorem lookup_some_valid {σ : Type} {g : Geo} {WFp : σ → Prop} {sets : List (CSet σ Nat)}
    (hs : SetsOK g WFp sets) {k tag : Nat} {w : Way Nat} (h : lookup sets k tag = some w) :
    k < 2 ^ g.idxBits ∧ WayOK g k w ∧ w.valid = true ∧ w.tag = tag := by
  unfold lookup at h
  cases hk : sets[k]? with
  | none => rw [hk] at h; cases h
  | some cs =>
    rw [hk] at h
    have hcs := hs.set k cs hk
    obtain ⟨i, hw, hv, ht⟩ := (lookupWays_some_iff hcs.distinct tag w).mp h
    have hlt : k < sets.length := by
      rcases Nat.lt_or_ge k sets.length with h' | h'
      · exact h'
      · rw [List.getElem?_eq_none h'] at hk; cases hk
    exact ⟨hs.len ▸ hlt, hcs.ways i w hw, hv, ht⟩

/-! ### `CSet.read`, `readBlock` -/

/-- `Cache.read_block` never fails on a well-formed cache; it returns the resident block (if any)
    and changes only replacement-policy state. -/
theorem readBlock_spec {σ : Type} {P : PolicyOps σ} {g : Geo} {WFp : σ → Prop}
    (hP : PolicyOK P g.assoc WFp) {sets : List (CSet σ Nat)} (hs : SetsOK g WFp sets) (d : DAddr)
    (hk : d.setIdx < 2 ^ g.idxBits) :
    ∃ sets', readBlock P sets d = .ok (sets', (lookup sets d.setIdx d.tag).map (·.vals)) ∧
      SetsOK g WFp sets' ∧ ∀ k tag, lookup sets' k tag = lookup sets k tag := by
  have hklt : d.setIdx < sets.length := hs.len ▸ hk
  have hget : sets[d.setIdx]? = some sets[d.setIdx] := List.getElem?_eq_getElem hklt
  have hcs := hs.set _ _ hget
  unfold readBlock
  rw [hget]
  simp only
  unfold CSet.read
  rw [lookup_of_get hget]
  cases hf : findWay sets[d.setIdx].ways d.tag with
  | none =>
    have hl : lookupWays sets[d.setIdx].ways d.tag = none := by simp [lookupWays, hf]
    simp only [hl, Option.map_none]
    refine ⟨_, rfl, ?_, ?_⟩
    · rw [List.set_getElem_self]; exact hs
    · intro k tag; rw [List.set_getElem_self]
  | some i =>
    obtain ⟨w, hw, hv, ht⟩ := findWay_some hf
    have hl : lookupWays sets[d.setIdx].ways d.tag = some w := by simp [lookupWays, hf, hw]
    have hilt : i < g.assoc := by
      rw [← hcs.len]
      rcases Nat.lt_or_ge i sets[d.setIdx].ways.length with h' | h'
      · exact h'
      · rw [List.getElem?_eq_none h'] at hw; cases hw
    obtain ⟨p', hp', hwf'⟩ := hP.access _ i hcs.pol hilt
    simp only [hp', hl, Option.map_some, hw, Option.getD_some]
    refine ⟨_, rfl, ?_, ?_⟩
    · constructor
      · rw [List.length_set]; exact hs.len
      · intro k cs hkcs
        rw [List.getElem?_set] at hkcs
        by_cases hkk : d.setIdx = k
        · rw [if_pos hkk, if_pos hklt] at hkcs
          cases hkcs
          subst hkk
          exact ⟨hcs.len, hwf', hcs.ways, hcs.distinct⟩
        · rw [if_neg hkk] at hkcs
          exact hs.set k cs hkcs
    · intro k tag
      rw [lookup_set _ _ _ hklt]
      by_cases hkk : k = d.setIdx
      · rw [if_pos hkk, hkk, lookup_of_get hget]
      · rw [if_neg hkk]

/-! ### `CSet.write`, `writeBlock` -/

/-- `Cache.write_block` never fails on a well-formed cache.  On a hit the resident way is
    overwritten; on a miss the policy's victim `old` is replaced and handed back if it was valid
    (valid = dirty).  The lookup function changes exactly at the written block and the victim. -/
theorem writeBlock_spec {σ : Type} {P : PolicyOps σ} {g : Geo} {WFp : σ → Prop}
    (hP : PolicyOK P g.assoc WFp) {sets : List (CSet σ Nat)} (hs : SetsOK g WFp sets) (d : DAddr)
    (hk : d.setIdx < 2 ^ g.idxBits) (vals : List Nat)
    (hnew : WayOK g d.setIdx ⟨true, true, d.tag, d.blockBase, vals⟩) :
    ∃ sets' old,
      writeBlock P sets d vals =
        .ok (sets', (lookup sets d.setIdx d.tag).isSome,
             if (lookup sets d.setIdx d.tag).isSome then none
             else if old.valid = true then some (old.base, old.vals) else none) ∧
      SetsOK g WFp sets' ∧ WayOK g d.setIdx old ∧
      (old.valid = true → lookup sets d.setIdx old.tag = some old) ∧
      ((lookup sets d.setIdx d.tag).isSome = true → old.valid = true ∧ old.tag = d.tag) ∧
      ∀ k tag, lookup sets' k tag =
        if k = d.setIdx ∧ tag = d.tag then some ⟨true, true, d.tag, d.blockBase, vals⟩
        else if k = d.setIdx ∧ old.valid = true ∧ tag = old.tag then none
        else lookup sets k tag := by
  have hklt : d.setIdx < sets.length := hs.len ▸ hk
  have hget : sets[d.setIdx]? = some sets[d.setIdx] := List.getElem?_eq_getElem hklt
  have hcs := hs.set _ _ hget
  -- common tail: the new list of sets
  have tail : ∀ (v : Nat) (old : Way Nat) (p' : σ), sets[d.setIdx].ways[v]? = some old → WFp p' →
      (∀ (j : Nat) (w : Way Nat), sets[d.setIdx].ways[j]? = some w → w.valid = true →
        w.tag = d.tag → j = v) →
      SetsOK g WFp (sets.set d.setIdx ⟨sets[d.setIdx].ways.set v ⟨true, true, d.tag, d.blockBase, vals⟩, p'⟩) ∧
      ∀ k tag, lookup (sets.set d.setIdx ⟨sets[d.setIdx].ways.set v ⟨true, true, d.tag, d.blockBase, vals⟩, p'⟩) k tag =
        if k = d.setIdx ∧ tag = d.tag then some ⟨true, true, d.tag, d.blockBase, vals⟩
        else if k = d.setIdx ∧ old.valid = true ∧ tag = old.tag then none
        else lookup sets k tag := by
    intro v old p' hold hwf' hu
    constructor
    · constructor
      · rw [List.length_set]; exact hs.len
      · intro k cs hkcs
        rw [List.getElem?_set] at hkcs
        by_cases hkk : d.setIdx = k
        · rw [if_pos hkk, if_pos hklt] at hkcs
          cases hkcs
          subst hkk
          refine ⟨by simp only [List.length_set]; exact hcs.len, hwf', ?_, set_distinct hcs.distinct v _ hu⟩
          intro i w hw
          simp only [List.getElem?_set] at hw
          by_cases hiv : v = i
          · rw [if_pos hiv] at hw
            split at hw
            · cases hw; exact hnew
            · cases hw
          · rw [if_neg hiv] at hw; exact hcs.ways i w hw
        · rw [if_neg hkk] at hkcs
          exact hs.set k cs hkcs
    · intro k tag
      rw [lookup_set _ _ _ hklt]
      by_cases hkk : k = d.setIdx
      · rw [if_pos hkk]
        simp only
        rw [lookupWays_set hcs.distinct v old _ hold rfl hu tag, hkk, lookup_of_get hget]
        simp only [true_and]
      · rw [if_neg hkk]
        simp only [hkk, false_and, if_false]
  unfold writeBlock
  rw [hget]
  simp only
  unfold CSet.write
  rw [lookup_of_get hget, ← findWay_isSome]
  cases hf : findWay sets[d.setIdx].ways d.tag with
  | none =>
    obtain ⟨v, hv, hvlt⟩ := hP.victim _ hcs.pol
    have hvl : v < sets[d.setIdx].ways.length := hcs.len ▸ hvlt
    have hold : sets[d.setIdx].ways[v]? = some sets[d.setIdx].ways[v] := List.getElem?_eq_getElem hvl
    obtain ⟨p', hp', hwf'⟩ := hP.access _ v hcs.pol hvlt
    have hok := hcs.ways v _ hold
    have hu : ∀ (j : Nat) (w : Way Nat), sets[d.setIdx].ways[j]? = some w → w.valid = true →
        w.tag = d.tag → j = v := fun j w hw hv' ht => absurd ⟨hv', ht⟩ (findWay_none hf j w hw)
    obtain ⟨t1, t2⟩ := tail v _ p' hold hwf' hu
    refine ⟨_, sets[d.setIdx].ways[v], ?_, t1, hok, ?_, ?_, t2⟩
    · simp only [hv, hold, hp', Option.isSome_none, Bool.false_eq_true, if_false, hok.dirty]
    · intro hvalid
      rw [lookup_of_get hget]
      exact (lookupWays_some_iff hcs.distinct _ _).mpr ⟨v, hold, hvalid, rfl⟩
    · intro h; cases h
  | some i =>
    obtain ⟨w, hw, hv, ht⟩ := findWay_some hf
    have hilt : i < g.assoc := by
      rw [← hcs.len]
      rcases Nat.lt_or_ge i sets[d.setIdx].ways.length with h' | h'
      · exact h'
      · rw [List.getElem?_eq_none h'] at hw; cases hw
    obtain ⟨p', hp', hwf'⟩ := hP.access _ i hcs.pol hilt
    have hu : ∀ (j : Nat) (w' : Way Nat), sets[d.setIdx].ways[j]? = some w' → w'.valid = true →
        w'.tag = d.tag → j = i :=
      fun j w' hw' hv' ht' => hcs.distinct j i w' w hw' hw hv' hv (ht'.trans ht.symm)
    obtain ⟨t1, t2⟩ := tail i w p' hw hwf' hu
    refine ⟨_, w, ?_, t1, hcs.ways i w hw, ?_, ?_, t2⟩
    · simp only [hp', Option.isSome_some, if_true]
    · intro _
      rw [lookup_of_get hget]
      exact (lookupWays_some_iff hcs.distinct _ _).mpr ⟨i, hw, hv, rfl⟩
    · intro _; exact ⟨hv, ht⟩

end ArchSim.Lemmas.C03
