/-
C04 (spelling independence, part 2), error case 2: renumbering commutes with pseudo-instruction expansion.
-/
import ArchSim.Lemmas.C04SpellErr

namespace ArchSim.Lemmas.C04Spell
open ArchSim ArchSim.PP ArchSim.Asm ArchSim.Rv
open ArchSim.Lemmas.C05 (renE renT renP expandOne_li expandOne_mv expandOne_nop expandOne_memPseudo
  expandOne_memPseudo_unknown expandOne_sPseudo expandOne_sPseudo_unknown)
open ArchSim.Lemmas.C04 (isPseudo expandOne_plain expandOne_relocate)

/-- the only error of the expansion pass: an undeclared variable, reported with the line of the entry -/
theorem expandOne_error_inv (vars : Vars) (k : Nat) (line : String) (it : Item) (x : AsmErr)
    (h : expandOne vars (k, line, it) = .error x) :
    x = .parser "ParserVariableException" k line ∧
      ∀ k', expandOne vars (k', line, it) = .error (.parser "ParserVariableException" k' line) := by
  by_cases hp : isPseudo it = false
  · rw [expandOne_plain vars k line it hp] at h; cases h
  · have hp' : isPseudo it = true := by simpa using hp
    cases it with
    | str s =>
      simp only [isPseudo, decide_eq_true_eq] at hp'
      subst hp'
      rw [expandOne_nop] at h; cases h
    | grp pi =>
      cases pi with
      | li rd c => rw [expandOne_li] at h; cases h
      | mv rd rs => rw [expandOne_mv] at h; cases h
      | memPseudo mn rd v idx =>
        cases hv : lookupVar vars v with
        | none =>
          rw [expandOne_memPseudo_unknown _ _ _ _ _ _ _ hv] at h
          cases h
          exact ⟨rfl, fun k' => expandOne_memPseudo_unknown _ _ _ _ _ _ _ hv⟩
        | some r =>
          obtain ⟨a, sz⟩ := r
          rw [expandOne_memPseudo _ _ _ _ _ _ _ a sz hv] at h; cases h
      | sPseudo mn rs v idx rt =>
        cases hv : lookupVar vars v with
        | none =>
          rw [expandOne_sPseudo_unknown _ _ _ _ _ _ _ _ hv] at h
          cases h
          exact ⟨rfl, fun k' => expandOne_sPseudo_unknown _ _ _ _ _ _ _ _ hv⟩
        | some r =>
          obtain ⟨a, sz⟩ := r
          rw [expandOne_sPseudo _ _ _ _ _ _ _ _ a sz hv] at h; cases h
      | rtype mn a b c => cases hp'
      | utype mn a b => cases hp'
      | btypeLabel mn a b l o => cases hp'
      | mem mn a b c => cases hp'
      | csr mn a b c => cases hp'
      | csri mn a b c => cases hp'
      | rri mn a b c => cases hp'
      | fence a b => cases hp'
      | jalImm a b => cases hp'
      | jalLabel a b c => cases hp'
    | varDecl n ty vals => cases hp'
    | strDecl n b => cases hp'
    | zeroDecl n c => cases hp'
    | directive d => cases hp'

theorem expandOne_ren (g : Nat → Nat) (vars : Vars) (e : TEntry) :
    expandOne vars (renT g e) = renX g (List.map (renT g)) (expandOne vars e) := by
  obtain ⟨k, line, it⟩ := e
  cases h : expandOne vars (k, line, it) with
  | error x =>
    obtain ⟨rfl, h2⟩ := expandOne_error_inv vars k line it x h
    exact h2 (g k)
  | ok es =>
    obtain ⟨h1, h2⟩ := expandOne_relocate vars k (g k) line line it es h
    simp only [renT, h1, renX]
    congr 1
    apply List.map_congr_left
    intro e he
    obtain ⟨e1, e2⟩ := h2 e he
    simp only [renT, e1, e2]

theorem expandAll_ren (g : Nat → Nat) (vars : Vars) (es : List TEntry) :
    expandAll vars (es.map (renT g)) = renX g (List.map (renT g)) (expandAll vars es) := by
  induction es with
  | nil => rfl
  | cons e rest ih =>
    simp only [List.map_cons, expandAll, expandOne_ren, ih]
    cases expandOne vars e with
    | error x => rfl
    | ok a =>
      cases expandAll vars rest with
      | error x => rfl
      | ok b => simp only [renX, List.map_append]

end ArchSim.Lemmas.C04Spell
