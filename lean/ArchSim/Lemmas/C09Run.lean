/-
C09 helper lemmas, part 5: histories.  Facts about the reference alone (counter arithmetic), the
step lemma `applyOp_sim` for an arbitrary operation, and the induction over histories.
-/
import ArchSim.Lemmas.C09Commute

namespace ArchSim.Lemmas.C09
open ArchSim ArchSim.Cache ArchSim.Spec.TagCache

/-! ### The reference alone -/

section Ref
variable {σ : Type} (P : PolicyOps σ) (c : TagCache σ) (op : Op)

theorem refOp_geo : (refOp P c op).cache.geo = c.geo := by
  cases op with
  | read b a counted => cases counted <;> rfl
  | write b a v direct => cases direct <;> rfl

theorem refOp_penalty : (refOp P c op).cache.penalty = c.penalty := by
  cases op with
  | read b a counted => cases counted <;> rfl
  | write b a v direct => cases direct <;> rfl

theorem refOp_wt : (refOp P c op).cache.wt = c.wt := by
  cases op with
  | read b a counted => cases counted <;> rfl
  | write b a v direct => cases direct <;> rfl

theorem refOp_accesses :
    (refOp P c op).cache.accesses = c.accesses + (if op.counted then 1 else 0) := by
  cases op with
  | read b a counted => cases counted <;> rfl
  | write b a v direct => cases direct <;> rfl

/-- Every counted operation is either a hit or a counted miss. -/
theorem refOp_hits_miss :
    (refOp P c op).cache.hits + (if (refOp P c op).miss then 1 else 0)
      = c.hits + (if op.counted then 1 else 0) := by
  cases op with
  | read b a counted =>
    cases counted
    · rfl
    · simp only [refOp, refRead, TagCache.count, Op.counted]
      cases (lookupSets P c.sets (decode c.geo.idxBits c.geo.blkBits a) true).2 <;> simp
  | write b a v direct =>
    cases direct
    · rw [show refOp P c (.write b a v false) = refWrite P c a from rfl]
      simp only [refWrite, TagCache.count, Op.counted]
      split <;> simp [*]
    · rfl

/-- The reference adds the penalty exactly on counted misses. -/
theorem refOp_extra : (refOp P c op).extra = if (refOp P c op).miss then c.penalty else 0 := by
  cases op with
  | read b a counted => rfl
  | write b a v direct =>
    cases direct
    · rw [show refOp P c (.write b a v false) = refWrite P c a from rfl]
      simp only [refWrite]
      split <;> simp [*]
    · rfl

/-- The last-hit flag after a counted operation says whether it was a miss. -/
theorem refOp_lastHit (h : op.counted = true) :
    (refOp P c op).cache.lastHit = !(refOp P c op).miss := by
  cases op with
  | read b a counted =>
    cases counted
    · cases h
    · simp [refOp, refRead, TagCache.count]
  | write b a v direct =>
    cases direct
    · simp [refOp, refWrite, TagCache.count]
    · cases h

theorem refOp_uncounted (h : op.counted = false) :
    (refOp P c op).cache.hits = c.hits ∧ (refOp P c op).cache.accesses = c.accesses ∧
    (refOp P c op).cache.lastHit = c.lastHit ∧ (refOp P c op).extra = 0 ∧
    (refOp P c op).miss = false := by
  cases op with
  | read b a counted =>
    cases counted
    · exact ⟨rfl, rfl, rfl, rfl, rfl⟩
    · cases h
  | write b a v direct =>
    cases direct
    · cases h
    · exact ⟨rfl, rfl, rfl, rfl, rfl⟩

variable (ops : List Op)

theorem refRun_penalty : (refRun P c ops).1.penalty = c.penalty := by
  induction ops generalizing c with
  | nil => rfl
  | cons op ops ih => simp only [refRun]; rw [ih, refOp_penalty]

theorem refRun_geo : (refRun P c ops).1.geo = c.geo := by
  induction ops generalizing c with
  | nil => rfl
  | cons op ops ih => simp only [refRun]; rw [ih, refOp_geo]

theorem refRun_wt : (refRun P c ops).1.wt = c.wt := by
  induction ops generalizing c with
  | nil => rfl
  | cons op ops ih => simp only [refRun]; rw [ih, refOp_wt]

/-- Total added cycles = penalty × number of counted misses. -/
theorem refRun_extra : (refRun P c ops).2.1 = c.penalty * (refRun P c ops).2.2 := by
  induction ops generalizing c with
  | nil => rfl
  | cons op ops ih =>
    simp only [refRun]
    rw [ih, refOp_penalty, refOp_extra, Nat.mul_add]
    cases (refOp P c op).miss <;> simp

/-- `accesses` grows by the number of counted operations. -/
theorem refRun_accesses :
    (refRun P c ops).1.accesses = c.accesses + (ops.filter Op.counted).length := by
  induction ops generalizing c with
  | nil => rfl
  | cons op ops ih =>
    simp only [refRun]
    rw [ih, refOp_accesses, List.filter_cons]
    cases op.counted <;> simp <;> omega

/-- hits + counted misses grow by the number of counted operations. -/
theorem refRun_hits_misses :
    (refRun P c ops).1.hits + (refRun P c ops).2.2 = c.hits + (ops.filter Op.counted).length := by
  induction ops generalizing c with
  | nil => rfl
  | cons op ops ih =>
    simp only [refRun]
    have h1 := ih (refOp P c op).cache
    have h2 := refOp_hits_miss P c op
    rw [List.filter_cons]
    cases hc : op.counted <;> simp [hc] at h2 ⊢ <;> omega

end Ref

/-! ### One step of the model against one step of the reference -/

/-- `Sim` without the claim that the operation succeeded (direct writes may be rejected by the lower
    memory; they do not take part in the accounting either way). -/
structure Sim0 {σ : Type} (ok : σ → Prop) (o : Out σ) (r : ROut σ) : Prop where
  erase_eq : erase o.sys = r.cache
  extra_eq : o.extra = r.extra
  inv      : Inv ok o.sys

theorem Sim.toSim0 {σ : Type} {ok : σ → Prop} {o : Out σ} {r : ROut σ} (h : Sim ok o r) :
    Sim0 ok o r := ⟨h.erase_eq, h.extra_eq, h.inv⟩

section Step
variable {σ : Type} {P : PolicyOps σ} {ok : σ → Prop} {s : DSys σ}

theorem applyOp_sim (hP : PolicyOK P s.geo.assoc ok) (hI : PolicyIdem P ok) (hinv : Inv ok s)
    {op : Op} (hop : op.ok) : Sim0 ok (applyOp P s op) (refOp P (erase s) op) := by
  cases op with
  | read b a counted => exact (read_sim hP hinv hop counted).toSim0
  | write b a v direct =>
    cases direct
    · have hacc : Accepted b a := by
        rcases hop with h | h
        · cases h
        · exact h
      exact (write_sim hP hI hinv hacc v).1.toSim0
    · obtain ⟨m', h1, h2, h3⟩ := writeDirect_spec s b a v
      have hw : s.write P b a v true = s.writeDirect b a v := by simp [DSys.write]
      refine ⟨?_, ?_, ?_⟩
      · show erase (s.write P b a v true).sys = erase s
        rw [hw, h1]; rfl
      · show (s.write P b a v true).extra = 0
        rw [hw, h3]
      · show Inv ok (s.write P b a v true).sys
        rw [hw]; exact writeDirect_inv hinv b a v

theorem Sim0.geo_eq {o : Out σ} {op : Op} (h : Sim0 ok o (refOp P (erase s) op)) :
    o.sys.geo = s.geo := by
  have h1 : (erase o.sys).geo = (refOp P (erase s) op).cache.geo := by rw [h.erase_eq]
  rw [refOp_geo] at h1
  exact h1

/-- Histories: the erased final state, the total added cycles and the invariant. -/
theorem run_sim (hP : PolicyOK P s.geo.assoc ok) (hI : PolicyIdem P ok) (hinv : Inv ok s)
    (ops : List Op) (hops : ∀ op ∈ ops, op.ok) :
    erase (run P s ops).1 = (refRun P (erase s) ops).1 ∧
    (run P s ops).2 = (refRun P (erase s) ops).2.1 ∧
    Inv ok (run P s ops).1 := by
  induction ops generalizing s with
  | nil => exact ⟨rfl, rfl, hinv⟩
  | cons op ops ih =>
    have hstep := applyOp_sim hP hI hinv (hops op (by simp))
    have hgeo := hstep.geo_eq
    have hP' : PolicyOK P (applyOp P s op).sys.geo.assoc ok := by rw [hgeo]; exact hP
    obtain ⟨h1, h2, h3⟩ := ih hP' hstep.inv (fun o ho => hops o (by simp [ho]))
    simp only [run, refRun]
    rw [← hstep.erase_eq, ← hstep.extra_eq, h1, h2]
    exact ⟨rfl, rfl, h3⟩

end Step

end ArchSim.Lemmas.C09
