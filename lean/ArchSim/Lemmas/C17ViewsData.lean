/-
C17 (tables) — helper lemmas, part 2: which addresses a memory table lists, the address text,
the value of a row as a `Mem.read`, and when the table cannot fail.
-/
import ArchSim.Lemmas.C17ViewsSort
import ArchSim.Lemmas.C17Main

namespace ArchSim.Lemmas.C17Views
open ArchSim ArchSim.Mem ArchSim.Views ArchSim.Fmt ArchSim.Spec.Digits ArchSim.Lemmas.C18
open ArchSim.Lemmas.C17

/-! ### aligned addresses -/

theorem sub_emod_self_emod (a k : Int) : (a - a % k) % k = 0 := by
  have h : a - a % k = k * (a / k) := by
    have := Int.emod_add_mul_ediv a k; omega
  rw [h]; exact Int.mul_emod_right k (a / k)

/-- `x` is the aligned address of some key iff `x` is a multiple of `k` and one of the `k` cells
`x, …, x+k-1` is a key. -/
theorem aligned_key_iff (k : Nat) (hk : 0 < k) (keys : List Int) (x : Int) :
    (∃ a, a ∈ keys ∧ x = a - a % (k : Int)) ↔
      x % (k : Int) = 0 ∧ ∃ i : Nat, i < k ∧ x + (i : Int) ∈ keys := by
  have hk' : (0 : Int) < (k : Int) := by omega
  constructor
  · rintro ⟨a, ha, rfl⟩
    refine ⟨sub_emod_self_emod a k, (a % (k : Int)).toNat, ?_, ?_⟩
    · have h1 := Int.emod_lt_of_pos a hk'
      have h2 := Int.emod_nonneg a (by omega : (k : Int) ≠ 0)
      omega
    · have h2 := Int.emod_nonneg a (by omega : (k : Int) ≠ 0)
      rw [Int.toNat_of_nonneg h2]
      have : a - a % (k : Int) + a % (k : Int) = a := by omega
      rw [this]; exact ha
  · rintro ⟨hx, i, hi, hmem⟩
    refine ⟨x + (i : Int), hmem, ?_⟩
    have : (x + (i : Int)) % (k : Int) = (i : Int) := by
      rw [Int.add_emod, hx, Int.zero_add, Int.emod_emod_of_dvd _ (Int.dvd_refl _)]
      exact Int.emod_eq_of_lt (by omega) (by omega)
    rw [this]; omega

theorem reprKeys_aligned_iff (m : Mem) (bits : Nat) (hk : 0 < cellsOf m.cfg bits) (x : Int) :
    x ∈ reprKeys m bits ↔
      x % (cellsOf m.cfg bits : Int) = 0 ∧ ∃ i : Nat, i < cellsOf m.cfg bits ∧ x + (i : Int) ∈ m.keys := by
  rw [← aligned_key_iff _ hk]
  simp [reprKeys, reprKeysAux_mem]

/-! ### the address text -/

theorem upHex_toList (w n : Nat) : (upHex w n).toList = padLeft w (natStr 16 n) := by
  simp [upHex]

theorem addrText_toList (w : Nat) (a : Int) :
    (addrText w a).toList = '0' :: 'x' :: padLeft w (natStr 16 a.toNat) := by
  simp [addrText, upHex_toList]

/-- `upHex w n`: upper-case hex digits that read back as `n`; exactly `w` of them when `n < 16^w`. -/
theorem upHex_spec (w n : Nat) :
    ofDigits 16 (upHex w n).toList = some n ∧
    (∀ c ∈ (upHex w n).toList, isUpperHexDigit c) ∧
    (1 ≤ w → n < 16 ^ w → (upHex w n).toList.length = w) := by
  rw [upHex_toList]
  refine ⟨?_, padded_natStr_upperHex 16 (by decide) (by decide) w n, fun hw hn => ?_⟩
  · rw [ofDigits_padLeft 16 (by decide) w _ (natStr_ne_nil 16 n),
      ofDigits_natStr 16 (by decide) (by decide) n]
  · exact (padded_natStr 16 (by decide) (by decide) w n hw hn).2

end ArchSim.Lemmas.C17Views
