/-
C17 (tables) — helper lemmas, part 7: from the tables (`dataTable`, `toyMemTable`) to their sorted
entry lists.
-/
import ArchSim.Lemmas.C17ViewsShow

namespace ArchSim.Lemmas.C17Views
open ArchSim ArchSim.Mem ArchSim.Views ArchSim.Toy

theorem regTable_length (regs : Nat → Nat) : (regTable regs).length = 32 := by
  simp [regTable]

theorem regTable_getElem? (regs : Nat → Nat) (r : Nat) (hr : r < 32) :
    (regTable regs)[r]? = some (Fmt.nBitRepr (regs r) 32) := by
  simp [regTable, List.getElem?_map, List.getElem?_range hr]

theorem dataTable_ok {m : Mem} {rows : List DataRow} (h : dataTable m = .ok rows) :
    ∃ l, sortedEntries m 32 = .ok l ∧ rows = l.map dataRow := by
  unfold dataTable at h
  cases hs : sortedEntries m 32 with
  | error e => rw [hs] at h; cases h
  | ok l => rw [hs] at h; cases h; exact ⟨l, rfl, rfl⟩

theorem dataTable_of_ok {m : Mem} {l : List (Int × Nat)} (h : sortedEntries m 32 = .ok l) :
    dataTable m = .ok (l.map dataRow) := by
  unfold dataTable; rw [h]

theorem dataTable_error_iff (m : Mem) (e : AddrErr) :
    dataTable m = .error e ↔ sortedEntries m 32 = .error e := by
  unfold dataTable
  cases sortedEntries m 32 with
  | error e' => constructor <;> (intro h; cases h; rfl)
  | ok r => constructor <;> (intro h; cases h)

theorem map_addr_dataRow (l : List (Int × Nat)) :
    (l.map dataRow).map (·.addr) = l.map Prod.fst := by
  simp [List.map_map, Function.comp_def, dataRow]

theorem mem_map_dataRow {l : List (Int × Nat)} {row : DataRow} (h : row ∈ l.map dataRow) :
    ∃ p, p ∈ l ∧ row = dataRow p := by
  obtain ⟨p, hp, rfl⟩ := List.mem_map.mp h
  exact ⟨p, hp, rfl⟩

theorem toyMemTable_ok {t : TSim} {rows : List ToyRow} (h : toyMemTable t = .ok rows) :
    ∃ l, sortedEntries t.s.mem 16 = .ok l ∧ rows = l.map (toyRow t) := by
  unfold toyMemTable at h
  cases hs : sortedEntries t.s.mem 16 with
  | error e => rw [hs] at h; cases h
  | ok l => rw [hs] at h; cases h; exact ⟨l, rfl, rfl⟩

theorem toyMemTable_of_ok {t : TSim} {l : List (Int × Nat)}
    (h : sortedEntries t.s.mem 16 = .ok l) : toyMemTable t = .ok (l.map (toyRow t)) := by
  unfold toyMemTable; rw [h]

theorem toyMemTable_error_iff (t : TSim) (e : AddrErr) :
    toyMemTable t = .error e ↔ sortedEntries t.s.mem 16 = .error e := by
  unfold toyMemTable
  cases sortedEntries t.s.mem 16 with
  | error e' => constructor <;> (intro h; cases h; rfl)
  | ok r => constructor <;> (intro h; cases h)

theorem map_addr_toyRow (t : TSim) (l : List (Int × Nat)) :
    (l.map (toyRow t)).map (·.addr) = l.map Prod.fst := by
  simp [List.map_map, Function.comp_def, toyRow]

theorem mem_map_toyRow {t : TSim} {l : List (Int × Nat)} {row : ToyRow}
    (h : row ∈ l.map (toyRow t)) : ∃ p, p ∈ l ∧ row = toyRow t p := by
  obtain ⟨p, hp, rfl⟩ := List.mem_map.mp h
  exact ⟨p, hp, rfl⟩

end ArchSim.Lemmas.C17Views
