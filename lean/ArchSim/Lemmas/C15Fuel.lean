/-
C15 — the two fuel-using scanners never run out of fuel: with fuel ≥ the remaining input length the
result does not depend on extra fuel.  (Model-level content of "loading always terminates".)
-/
import ArchSim.Model.Asm
import ArchSim.Model.ToyAsm

namespace ArchSim.Lemmas.C15
open ArchSim ArchSim.PP

/-! ### scanners consume input -/

theorem dropWhile_length (p : Char → Bool) (l : List Char) : (l.dropWhile p).length ≤ l.length :=
  (List.dropWhile_sublist p).length_le

theorem skipWs_length (i : Inp) : (skipWs i).length ≤ i.length := dropWhile_length _ _

theorem stripPrefix_length {p i r : List Char} (h : stripPrefix p i = some r) :
    r.length + p.length = i.length := by
  induction p generalizing i with
  | nil => simp [stripPrefix] at h; subst h; simp
  | cons a p ih =>
    cases i with
    | nil => simp [stripPrefix] at h
    | cons b i =>
      unfold stripPrefix at h
      split at h
      · have := ih h; simp; omega
      · cases h

theorem lit_length {s : String} {i r : Inp} {u : Unit} (h : lit s i = .ok u r) :
    r.length + s.toList.length ≤ i.length := by
  unfold lit at h
  split at h
  · rename_i rest hr
    cases h
    have := stripPrefix_length hr
    have := skipWs_length i
    omega
  · cases h

theorem litAdj_length {s : String} {i r : Inp} {u : Unit} (h : litAdj s i = .ok u r) :
    r.length + s.toList.length = i.length := by
  unfold litAdj at h
  split at h
  · rename_i rest hr
    cases h
    exact stripPrefix_length hr
  · cases h

theorem wordAdj_length {a b : Char → Bool} {i r : Inp} {w : String} (h : wordAdj a b i = .ok w r) :
    r.length < i.length := by
  unfold wordAdj at h
  split at h
  · split at h
    · cases h
      rename_i c cs _
      have := dropWhile_length b cs
      simp; omega
    · cases h
  · cases h

theorem bind_ok {α β : Type} {r : R α} {f : α → Inp → R β} {b : β} {rest : Inp}
    (h : r.bind f = .ok b rest) : ∃ a r1, r = .ok a r1 ∧ f a r1 = .ok b rest := by
  cases r with
  | fail => cases h
  | abort => cases h
  | ok a r1 => exact ⟨a, r1, rfl, h⟩

theorem comma_length {i r : Inp} {u : Unit} (h : lit "," i = .ok u r) : r.length < i.length := by
  have := lit_length h
  have : (",".toList).length = 1 := by decide
  omega

theorem prefixed_word_length {pre : String} {p : Char → Bool} {j rest : Inp} {h : String}
    (hh : (litAdj pre j).bind (fun _ r => wordAdj p p r) = .ok h rest) : rest.length < j.length := by
  obtain ⟨u, r1, h1, h2⟩ := bind_ok hh
  have := litAdj_length h1
  have := wordAdj_length h2
  omega

/-- the optional sign of `_pattern_imm` -/
def signSplit (i : Inp) : String × Inp :=
  match i with
  | '-' :: r => ("-", r)
  | r => ("", r)

theorem signSplit_length (i : Inp) : (signSplit i).2.length ≤ i.length := by
  unfold signSplit
  split
  · simp
  · simp

/-- the numeral after the sign -/
def immTail (sign : String) (j : Inp) : R String :=
  match (litAdj "0x" j).bind (fun _ r => wordAdj isHexNum isHexNum r) with
  | .ok h rest => .ok (sign ++ "0x" ++ h) rest
  | .abort => .abort
  | .fail =>
    match (litAdj "0b" j).bind (fun _ r => wordAdj Asm.isBin Asm.isBin r) with
    | .ok b rest => .ok (sign ++ "0b" ++ b) rest
    | .abort => .abort
    | .fail =>
      match wordAdj isNum isNum j with
      | .ok d rest => .ok (sign ++ d) rest
      | r => r

theorem pImmText_eq (i : Inp) :
    Asm.pImmText i = immTail (signSplit (skipWs i)).1 (signSplit (skipWs i)).2 := rfl

theorem immTail_length {sign : String} {j rest : Inp} {t : String} (h : immTail sign j = .ok t rest) :
    rest.length < j.length := by
  unfold immTail at h
  split at h
  · rename_i hx
    cases h
    exact prefixed_word_length hx
  · cases h
  · split at h
    · rename_i hx
      cases h
      exact prefixed_word_length hx
    · cases h
    · split at h
      · rename_i hx
        cases h
        exact wordAdj_length hx
      · exact wordAdj_length h

theorem pImmText_length {i rest : Inp} {t : String} (h : Asm.pImmText i = .ok t rest) :
    rest.length < i.length := by
  rw [pImmText_eq] at h
  have := immTail_length h
  have := signSplit_length (skipWs i)
  have := skipWs_length i
  omega

theorem pImm_length {i rest : Inp} {v : Int} (h : Asm.pImm i = .ok v rest) : rest.length < i.length := by
  unfold Asm.pImm at h
  obtain ⟨t, r1, h1, h2⟩ := bind_ok h
  have := pImmText_length h1
  split at h2
  · cases h2; exact this
  · cases h2

/-- `pMoreImms` with fuel ≥ the remaining input never runs out of fuel: one more unit of fuel
    changes nothing. -/
theorem pMoreImms_fuel (fuel : Nat) (i : Inp) (acc : List Int) (h : i.length ≤ fuel) :
    Asm.pMoreImms (fuel + 1) i acc = Asm.pMoreImms fuel i acc := by
  induction fuel generalizing i acc with
  | zero =>
    have : i = [] := List.eq_nil_of_length_eq_zero (by omega)
    subst this
    rfl
  | succ fuel ih =>
    rw [Asm.pMoreImms, Asm.pMoreImms]
    split
    · rename_i v rest hx
      obtain ⟨u, r1, h1, h2⟩ := bind_ok hx
      have := comma_length h1
      have := pImm_length h2
      exact ih rest (v :: acc) (by omega)
    · rfl

theorem pMoreImms_fuel_add (fuel extra : Nat) (i : Inp) (acc : List Int) (h : i.length ≤ fuel) :
    Asm.pMoreImms (fuel + extra) i acc = Asm.pMoreImms fuel i acc := by
  induction extra with
  | zero => rfl
  | succ n ih => rw [← Nat.add_assoc, pMoreImms_fuel _ _ _ (by omega), ih]

theorem pValue_length {i rest : Inp} {v : String} (h : ToyAsm.pValue i = .ok v rest) :
    rest.length < i.length := by
  unfold ToyAsm.pValue at h
  simp only at h
  have hsk := skipWs_length i
  split at h
  · rename_i hx
    cases h
    have := prefixed_word_length hx; omega
  · cases h
  · split at h
    · rename_i hx
      split at h
      · cases h
        have := wordAdj_length hx; omega
      · cases h
    · have := wordAdj_length h; omega

/-- `pMoreValues` with fuel ≥ the remaining input never runs out of fuel. -/
theorem pMoreValues_fuel (fuel : Nat) (i : Inp) (acc : List String) (h : i.length ≤ fuel) :
    ToyAsm.pMoreValues (fuel + 1) i acc = ToyAsm.pMoreValues fuel i acc := by
  induction fuel generalizing i acc with
  | zero =>
    have : i = [] := List.eq_nil_of_length_eq_zero (by omega)
    subst this
    rfl
  | succ fuel ih =>
    rw [ToyAsm.pMoreValues, ToyAsm.pMoreValues]
    split
    · rename_i v rest hx
      obtain ⟨u, r1, h1, h2⟩ := bind_ok hx
      have := comma_length h1
      have := pValue_length h2
      exact ih rest (v :: acc) (by omega)
    · rfl

theorem pMoreValues_fuel_add (fuel extra : Nat) (i : Inp) (acc : List String) (h : i.length ≤ fuel) :
    ToyAsm.pMoreValues (fuel + extra) i acc = ToyAsm.pMoreValues fuel i acc := by
  induction extra with
  | zero => rfl
  | succ n ih => rw [← Nat.add_assoc, pMoreValues_fuel _ _ _ (by omega), ih]

/-- `quotedBody` with fuel ≥ the remaining input never runs out of fuel. -/
theorem quotedBody_fuel (q : Char) (fuel : Nat) (i : Inp) (acc : List Char) (h : i.length ≤ fuel) :
    Asm.quotedBody q (fuel + 1) i acc = Asm.quotedBody q fuel i acc := by
  induction fuel generalizing i acc with
  | zero =>
    have : i = [] := List.eq_nil_of_length_eq_zero (by omega)
    subst this
    rfl
  | succ fuel ih =>
    match i, h with
    | [], _ => rw [Asm.quotedBody.eq_2, Asm.quotedBody.eq_2]
    | [c], _ =>
      rw [Asm.quotedBody.eq_4, Asm.quotedBody.eq_4]
      repeat' split
      all_goals first | rfl | exact ih _ _ (by simp)
    | c :: c2 :: cs2, h =>
      simp only [List.length_cons] at h
      rw [Asm.quotedBody.eq_3, Asm.quotedBody.eq_3]
      split
      · split
        · exact ih _ _ (by omega)
        · rfl
      · split
        · split
          · rfl
          · rename_i cs3 heq
            cases heq
            simp only
            split
            · rfl
            · exact ih _ _ (by have := dropWhile_length isHexNum cs2; omega)
          · rename_i c3 cs3 _ heq
            cases heq
            exact ih _ _ (by omega)
        · split
          · rfl
          · exact ih _ _ (by simp; omega)

theorem quotedBody_fuel_add (q : Char) (fuel extra : Nat) (i : Inp) (acc : List Char) (h : i.length ≤ fuel) :
    Asm.quotedBody q (fuel + extra) i acc = Asm.quotedBody q fuel i acc := by
  induction extra with
  | zero => rfl
  | succ n ih => rw [← Nat.add_assoc, quotedBody_fuel _ _ _ _ (by omega), ih]

end ArchSim.Lemmas.C15
