/-
C03 (program level), part 4: runs in single-cycle mode.  `singleRun n` iterates `Pipeline.step()`;
`C01.simN n` is `n` calls of `RiscvSimulation.step()` (nothing happens once `is_done()`, stop at the
first fault).  On related initial states both keep the relation as long as the steps of the flat run
perform accepted accesses.
-/
import ArchSim.Lemmas.C03ProgStep
import ArchSim.Lemmas.C01Defs

namespace ArchSim.Lemmas.C03Prog
open ArchSim ArchSim.Cache ArchSim.Mem ArchSim.Rv ArchSim.Spec.CacheAbs ArchSim.Spec.TagCache

/-- `n` raw single-cycle steps (the state after a step, whether or not it raised). -/
def singleRun : Nat → St → St
  | 0, s => s
  | n + 1, s => (singleStep (singleRun n s)).st

theorem CacheRel.singleDone {sc sf : St} (h : CacheRel sc sf) : singleDone sc = singleDone sf := by
  unfold Rv.singleDone; rw [h.exitCode, h.imem, h.pc]

/-- Induction over any number of steps: the relation after `n` steps, and the same fault report at
    every step before. -/
theorem singleRun_rel {sc sf : St} (h : CacheRel sc sf) :
    ∀ n, (∀ j, j < n → StepAccepted (singleRun j sf)) →
      CacheRel (singleRun n sc) (singleRun n sf) ∧
      ∀ j, j < n → (singleStep (singleRun j sc)).fault = (singleStep (singleRun j sf)).fault
  | 0, _ => ⟨h, fun _ hj => absurd hj (Nat.not_lt_zero _)⟩
  | n + 1, hacc => by
    obtain ⟨ih, ihf⟩ := singleRun_rel h n (fun j hj => hacc j (by omega))
    obtain ⟨hf, hr⟩ := singleStep_rel ih (hacc n (by omega))
    refine ⟨hr, fun j hj => ?_⟩
    rcases Nat.lt_or_ge j n with hlt | hge
    · exact ihf j hlt
    · have : j = n := by omega
      subst this; exact hf

open ArchSim.Lemmas.C01 in
/-- The simulation loop (`simN`): same fault, related states.  Acceptance is required only of the
    states in which the loop actually takes a step (not done). -/
theorem simN_rel : ∀ (n : Nat) {sc sf : St}, CacheRel sc sf →
    (∀ j, Rv.singleDone (simN j sf).st = false → StepAccepted (simN j sf).st) →
    (simN n sc).fault = (simN n sf).fault ∧ CacheRel (simN n sc).st (simN n sf).st
  | 0, _, _, h, _ => ⟨rfl, h⟩
  | n + 1, sc, sf, h, hacc => by
    have hd := h.singleDone
    unfold simN
    rw [hd]
    by_cases hdone : Rv.singleDone sf = true
    · simp only [hdone, if_true]; exact ⟨trivial, h⟩
    · have hdf : Rv.singleDone sf = false := by simpa using hdone
      have h0 : StepAccepted sf := hacc 0 hdf
      obtain ⟨hf, hr⟩ := singleStep_rel h h0
      simp only [hdone]
      rw [← hf]
      cases hfc : (singleStep sc).fault with
      | some f => exact ⟨rfl, hr⟩
      | none =>
        have hff : (singleStep sf).fault = none := by rw [← hf]; exact hfc
        refine simN_rel n hr (fun j => ?_)
        have := hacc (j + 1)
        unfold simN at this
        simp only [hdone, hff] at this
        exact this

end ArchSim.Lemmas.C03Prog
