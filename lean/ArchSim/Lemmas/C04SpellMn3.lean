/-
C04 (spelling independence), part 6: a mnemonic table gives the same answer on a symbol of the table and on
any case variant of it, whatever follows (no condition on the rest of the line).
-/
import ArchSim.Lemmas.C04SpellMn2

namespace ArchSim.Lemmas.C04Spell
open ArchSim ArchSim.PP ArchSim.Rv ArchSim.Asm ArchSim.Lemmas.C14

/-- what `oneOfCaseless` looks at in the result of `rePrefix` -/
def outcome (x : Option (List Char × Inp)) : Option (Bool × Inp) := x.map (fun p => (lowersTo p.1, p.2))

def goStep (s : String) (o : Option (Bool × Inp)) (k : R String) : R String :=
  match o with
  | some (b, rest) => if b then .ok s rest else .abort
  | none => k

theorem go_cons (i : Inp) (s : String) (ss : List String) :
    oneOfCaseless.go i (s :: ss) = goStep s (outcome (rePrefix s.toList i)) (oneOfCaseless.go i ss) := by
  simp only [oneOfCaseless.go, outcome, goStep]
  cases rePrefix s.toList i with
  | none => rfl
  | some p => rfl

theorem lowersTo_cons (c : Char) (m : List Char) : lowersTo (c :: m) = (lowersTo [c] && lowersTo m) := by
  simp only [lowersTo, List.all_cons, List.all_nil, Bool.and_true]

/-- The case of the letters of `w` does not matter to a symbol at least as long as `w`. -/
theorem rePrefix_outcome (sym w' w rest : List Char) (hv : CaseVar w' w) (hlen : w.length ≤ sym.length) :
    outcome (rePrefix sym (w' ++ rest)) = outcome (rePrefix sym (w ++ rest)) := by
  induction sym generalizing w' w with
  | nil =>
    have hw : w = [] := List.length_eq_zero_iff.mp (by simpa using hlen)
    subst hw
    have hw' : w' = [] := List.length_eq_zero_iff.mp (by rw [hv.length]; rfl)
    subst hw'
    rfl
  | cons p ps ih =>
    cases w' with
    | nil => have hw := hv.nil_iff; subst hw; rfl
    | cons c' cs' =>
      obtain ⟨c, cs, rfl, hlc, hcl, hc'l, hv'⟩ := hv.cons
      have hm : reCharMatch p c' = reCharMatch p c := by
        rw [reCharMatch_ascii p c' (letter_facts c' hc'l).1, reCharMatch_ascii p c (low_fixed c hcl).2, hlc,
          (low_fixed c hcl).1]
      have hl1 : lowersTo [c'] = true := (letter_facts c' hc'l).2.2.1
      have hl2 : lowersTo [c] = true := (low_facts c hcl).2.2.2
      have ih' := ih cs' cs hv' (by simpa using hlen)
      simp only [List.cons_append, rePrefix, hm]
      by_cases hmc : reCharMatch p c = true
      · simp only [hmc, if_true]
        cases hx : rePrefix ps (cs' ++ rest) with
        | none =>
          cases hy : rePrefix ps (cs ++ rest) with
          | none => rfl
          | some q => rw [hx, hy] at ih'; simp [outcome] at ih'
        | some q' =>
          cases hy : rePrefix ps (cs ++ rest) with
          | none => rw [hx, hy] at ih'; simp [outcome] at ih'
          | some q =>
            rw [hx, hy] at ih'
            simp only [outcome, Option.map_some, Option.some.injEq, Prod.mk.injEq] at ih' ⊢
            rw [lowersTo_cons c', lowersTo_cons c, hl1, hl2, ih'.1, ih'.2]
            exact ⟨rfl, rfl⟩
      · simp only [hmc]
        rfl

theorem rePrefix_self (w rest : List Char) (hw : ∀ c ∈ w, isLow c = true) :
    rePrefix w (w ++ rest) = some (w, rest) := by
  induction w with
  | nil => rfl
  | cons c cs ih =>
    have hcl := isLow_mem c (hw c (by simp))
    have hm : reCharMatch c c = true := by
      rw [reCharMatch_ascii c c (low_fixed c hcl).2]; simp
    simp only [List.cons_append, rePrefix, hm, if_true, ih (fun x hx => hw x (by simp [hx]))]

theorem go_caseVar (pre post : List String) (m : String) (w' rest : List Char) (hv : CaseVar w' m.toList)
    (hpre : ∀ s ∈ pre, m.toList.length ≤ s.toList.length) :
    oneOfCaseless.go (w' ++ rest) (pre ++ m :: post) = oneOfCaseless.go (m.toList ++ rest) (pre ++ m :: post) := by
  induction pre with
  | nil =>
    simp only [List.nil_append, go_cons, rePrefix_outcome m.toList w' m.toList rest hv (Nat.le_refl _),
      rePrefix_self m.toList rest hv.2]
    rfl
  | cons s pre ih =>
    simp only [List.cons_append, go_cons,
      rePrefix_outcome s.toList w' m.toList rest hv (hpre s (by simp)),
      ih (fun t ht => hpre t (by simp [ht]))]

theorem longestFirst_split (syms : List String) (m : String) (hm : m ∈ syms) :
    ∃ pre post, longestFirst syms = pre ++ m :: post ∧ ∀ s ∈ pre, m.toList.length ≤ s.toList.length := by
  have hmL : m ∈ longestFirst syms := by simpa [longestFirst] using hm
  obtain ⟨pre, post, hL⟩ := List.append_of_mem hmL
  refine ⟨pre, post, hL, ?_⟩
  have hpw := pairwise_longestFirst syms
  rw [hL, List.pairwise_append] at hpw
  intro s hs
  have := hpw.2.2 s hs m (by simp)
  rw [String.length_toList, String.length_toList]
  exact this

/-- Mnemonic tables are case-insensitive: for a lower-case symbol `m` of the table and ANY case variant
    `w'` of it, followed by anything, `one_of(syms, caseless=True)` gives the same result (same canonical
    symbol, same rest) as on `m` itself. -/
theorem oneOfCaseless_caseVar (syms : List String) (m : String) (hm : m ∈ syms) (w' rest : List Char)
    (hv : CaseVar w' m.toList) :
    oneOfCaseless syms (w' ++ rest) = oneOfCaseless syms (m.toList ++ rest) := by
  by_cases hne : m.toList = []
  · have : w' = [] := List.length_eq_zero_iff.mp (by rw [hv.length, hne]; rfl)
    rw [this, hne]
  · obtain ⟨pre, post, hL, hpre⟩ := longestFirst_split syms m hm
    unfold oneOfCaseless
    simp only [skipWs_var w' m.toList rest hv hne, skipWs_var m.toList m.toList rest (CaseVar.refl hv.2) hne, hL]
    exact go_caseVar pre post m w' rest hv hpre

/-- `CaselessLiteral(kw)` gives the same result on a word no longer than `kw` and on its case variants. -/
theorem caselessLit_caseVar (kw : String) (w' w rest : List Char) (hv : CaseVar w' w)
    (hlen : w.length ≤ kw.toList.length) : caselessLit kw (w' ++ rest) = caselessLit kw (w ++ rest) := by
  by_cases hne : w = []
  · have : w' = [] := List.length_eq_zero_iff.mp (by rw [hv.length, hne]; rfl)
    rw [this, hne]
  · unfold caselessLit
    simp only [skipWs_var w' w rest hv hne, skipWs_var w w rest (CaseVar.refl hv.2) hne]
    have hl' : w'.length ≤ kw.toList.length := by rw [hv.length]; exact hlen
    have h1 : ((w' ++ rest).take kw.toList.length).length = ((w ++ rest).take kw.toList.length).length := by
      simp [hv.length]
    have h2 : ((w' ++ rest).take kw.toList.length).map upperAscii = ((w ++ rest).take kw.toList.length).map upperAscii := by
      rw [List.map_take, List.map_take, List.map_append, List.map_append, hv.upper]
    have h3 : (w' ++ rest).drop kw.toList.length = (w ++ rest).drop kw.toList.length := by
      rw [List.drop_append, List.drop_append, List.drop_of_length_le hl', List.drop_of_length_le hlen, hv.length]
    rw [h1, h2, h3]

end ArchSim.Lemmas.C04Spell
