/-
C14 helper lemmas, part 3: the mnemonic stage of every alternative of `pInstrBody` on every printed
mnemonic (finite tables), and the resulting "this alternative fails" lemmas.
-/
import ArchSim.Lemmas.C14Num

namespace ArchSim.Lemmas.C14
open ArchSim ArchSim.PP ArchSim.Rv ArchSim.Asm

/-- the printed mnemonic as characters -/
def mn (op : Op) : List Char := op.mnemonic.toList

/-- The printing/parsing classes of the operations. -/
inductive Cls where
  | r | imm3 | jalr | load | store | b | u | jal | ecall | ebreak | csr | csri | fence
deriving DecidableEq, Repr

def cls : Op → Cls
  | .add | .sub | .sll | .slt | .sltu | .xor | .srl | .sra | .or | .and
  | .mul | .mulh | .mulhu | .mulhsu | .div | .divu | .rem | .remu => .r
  | .addi | .slti | .sltiu | .xori | .ori | .andi | .slli | .srli | .srai => .imm3
  | .jalr => .jalr
  | .ecall => .ecall
  | .ebreak => .ebreak
  | .lb | .lh | .lw | .lbu | .lhu => .load
  | .sb | .sh | .sw => .store
  | .beq | .bne | .blt | .bge | .bltu | .bgeu => .b
  | .lui | .auipc => .u
  | .jal => .jal
  | .fence => .fence
  | .csrrw | .csrrs | .csrrc => .csr
  | .csrrwi | .csrrsi | .csrrci => .csri

theorem mn_low : ∀ op : Op, (∀ c ∈ mn op, isLow c = true) ∧ mn op ≠ [] := by
  intro op; cases op <;> decide

/-! ### deciding the result of the mnemonic stage without running the sort -/

/-- `s` is the longest symbol of `L` that is a prefix of the word `w`. -/
def isBest (L : List String) (w : List Char) (s : String) : Bool :=
  L.contains s && s.toList.isPrefixOf w &&
    L.all (fun t => !t.toList.isPrefixOf w || decide (t.toList.length < s.toList.length) || t.toList == s.toList)

/-- no symbol of `L` is a prefix of `w` -/
def noMatch (L : List String) (w : List Char) : Bool := L.all (fun t => !t.toList.isPrefixOf w)

/-- the longest matching symbol leaves a remainder starting with `i` -/
def partI (L : List String) (w : List Char) : Bool :=
  L.any (fun s => isBest L w s && ((w.drop s.toList.length).head? == some 'i'))

theorem find_of_isBest (L : List String) (w : List Char) (s : String) (h : isBest L w s = true) :
    (longestFirst L).find? (fun t => t.toList.isPrefixOf w) = some s := by
  simp only [isBest, Bool.and_eq_true, List.contains_iff_mem, List.all_eq_true, Bool.or_eq_true,
    Bool.not_eq_true', decide_eq_true_eq, beq_iff_eq] at h
  obtain ⟨⟨hmem, hpre⟩, hall⟩ := h
  apply find_longestFirst_some L _ s hmem hpre
  intro t ht hp
  rcases hall t ht with (h1 | h1) | h1
  · rw [hp] at h1; cases h1
  · left; rw [← String.length_toList, ← String.length_toList]; exact h1
  · right; exact String.toList_inj.mp h1

theorem find_of_noMatch (L : List String) (w : List Char) (h : noMatch L w = true) :
    (longestFirst L).find? (fun t => t.toList.isPrefixOf w) = none := by
  apply find_longestFirst_none
  intro t ht
  simp only [noMatch, List.all_eq_true, Bool.not_eq_true'] at h
  exact h t ht

def LowSyms (L : List String) : Prop := ∀ s ∈ L, ∀ c ∈ s.toList, isLow c = true

theorem mn_stage_best (L : List String) (hL : LowSyms L) (op : Op) (s : String)
    (h : isBest L (mn op) s = true) (rest : Inp) (hr : WordEnd rest) :
    oneOfCaseless L (mn op ++ rest) = .ok s ((mn op).drop s.toList.length ++ rest) := by
  rw [oneOfCaseless_low L (mn op) rest hL (mn_low op).1 (mn_low op).2 hr, find_of_isBest L _ s h]

theorem mn_stage_exact (L : List String) (hL : LowSyms L) (op : Op)
    (h : isBest L (mn op) op.mnemonic = true) (rest : Inp) (hr : WordEnd rest) :
    oneOfCaseless L (mn op ++ rest) = .ok op.mnemonic rest := by
  rw [mn_stage_best L hL op _ h rest hr]
  simp [mn]

theorem mn_stage_none (L : List String) (hL : LowSyms L) (op : Op)
    (h : noMatch L (mn op) = true) (rest : Inp) (hr : WordEnd rest) :
    oneOfCaseless L (mn op ++ rest) = .fail := by
  rw [oneOfCaseless_low L (mn op) rest hL (mn_low op).1 (mn_low op).2 hr, find_of_noMatch L _ h]

theorem mn_stage_partI (L : List String) (hL : LowSyms L) (op : Op)
    (h : partI L (mn op) = true) (rest : Inp) (hr : WordEnd rest) :
    ∃ s t, oneOfCaseless L (mn op ++ rest) = .ok s ('i' :: t) := by
  simp only [partI, List.any_eq_true, Bool.and_eq_true, beq_iff_eq] at h
  obtain ⟨s, _, hb, hh⟩ := h
  rw [List.head?_eq_some_iff] at hh
  obtain ⟨t, ht⟩ := hh
  exact ⟨s, t ++ rest, by rw [mn_stage_best L hL op s hb rest hr, ht]; rfl⟩

theorem kw_stage (kw : String) (hk : ∀ c ∈ kw.toList, isLow c = true) (op : Op) (rest : Inp)
    (hr : WordEnd rest) :
    caselessLit kw (mn op ++ rest) =
      if kw.toList.isPrefixOf (mn op) then .ok () ((mn op).drop kw.toList.length ++ rest) else .fail :=
  caselessLit_low kw (mn op) rest hk (mn_low op).1 (mn_low op).2 hr

theorem kw_stage_none (kw : String) (hk : ∀ c ∈ kw.toList, isLow c = true) (op : Op) (rest : Inp)
    (hr : WordEnd rest) (h : kw.toList.isPrefixOf (mn op) = false) :
    caselessLit kw (mn op ++ rest) = .fail := by
  rw [kw_stage kw hk op rest hr, h]; rfl

/-! ### the symbol lists are lower case -/

def L3 : List String := memIMn ++ sMn
def L4 : List String := memIMn ++ ["la"]
def L8 : List String := normalIMn ++ memIMn ++ bMn ++ sMn

theorem low_rrr : LowSyms rrrMn := by unfold LowSyms; decide
theorem low_u : LowSyms uMn := by unfold LowSyms; decide
theorem low_b : LowSyms bMn := by unfold LowSyms; decide
theorem low_3 : LowSyms L3 := by unfold LowSyms; decide
theorem low_4 : LowSyms L4 := by unfold LowSyms; decide
theorem low_s : LowSyms sMn := by unfold LowSyms; decide
theorem low_csr : LowSyms csrMn := by unfold LowSyms; decide
theorem low_csri : LowSyms csriMn := by unfold LowSyms; decide
theorem low_8 : LowSyms L8 := by unfold LowSyms; decide
theorem low_mv : LowSyms ["mv"] := by unfold LowSyms; decide

/-! ### tables: where the mnemonic stage fails -/

theorem tbl0 : ∀ op, cls op ≠ .r → (noMatch rrrMn (mn op) || partI rrrMn (mn op)) = true := by
  intro op; cases op <;> decide
theorem tbl1 : ∀ op, cls op ≠ .u → noMatch uMn (mn op) = true := by
  intro op; cases op <;> decide
theorem tbl2 : ∀ op, cls op ≠ .b → noMatch bMn (mn op) = true := by
  intro op; cases op <;> decide
theorem tbl3 : ∀ op, cls op ≠ .load → cls op ≠ .store → cls op ≠ .jalr → noMatch L3 (mn op) = true := by
  intro op; cases op <;> decide
theorem tbl4 : ∀ op, cls op ≠ .load → cls op ≠ .jalr → noMatch L4 (mn op) = true := by
  intro op; cases op <;> decide
theorem tbl5 : ∀ op, cls op ≠ .store → noMatch sMn (mn op) = true := by
  intro op; cases op <;> decide
theorem tbl6 : ∀ op, cls op ≠ .csr → (noMatch csrMn (mn op) || partI csrMn (mn op)) = true := by
  intro op; cases op <;> decide
theorem tbl7 : ∀ op, cls op ≠ .csri → noMatch csriMn (mn op) = true := by
  intro op; cases op <;> decide
theorem tbl8 : ∀ op, cls op ≠ .imm3 → cls op ≠ .jalr → cls op ≠ .load → cls op ≠ .store → cls op ≠ .b →
    noMatch L8 (mn op) = true := by
  intro op; cases op <;> decide
theorem tbl9 : ∀ op, cls op ≠ .fence → ("fence" : String).toList.isPrefixOf (mn op) = false := by
  intro op; cases op <;> decide
theorem tbl10 : ∀ op, cls op ≠ .jal → cls op ≠ .jalr → ("jal" : String).toList.isPrefixOf (mn op) = false := by
  intro op; cases op <;> decide
theorem tbl11 : ∀ op, cls op ≠ .ecall → cls op ≠ .ebreak →
    ("ecall" : String).toList.isPrefixOf (mn op) = false ∧ ("ebreak" : String).toList.isPrefixOf (mn op) = false := by
  intro op; cases op <;> decide
theorem tbl12 : ∀ op, ("nop" : String).toList.isPrefixOf (mn op) = false := by
  intro op; cases op <;> decide
theorem tbl13 : ∀ op, ("li" : String).toList.isPrefixOf (mn op) = false := by
  intro op; cases op <;> decide
theorem tbl14 : ∀ op, noMatch ["mv"] (mn op) = true := by
  intro op; cases op <;> decide

/-! ### tables: where the mnemonic stage returns the printed mnemonic -/

theorem ex0 : ∀ op, cls op = .r → isBest rrrMn (mn op) op.mnemonic = true := by
  intro op; cases op <;> decide
theorem ex1 : ∀ op, cls op = .u → isBest uMn (mn op) op.mnemonic = true := by
  intro op; cases op <;> decide
theorem ex2 : ∀ op, cls op = .b → isBest bMn (mn op) op.mnemonic = true := by
  intro op; cases op <;> decide
theorem ex3 : ∀ op, cls op = .load ∨ cls op = .store ∨ cls op = .jalr → isBest L3 (mn op) op.mnemonic = true := by
  intro op; cases op <;> decide
theorem ex4 : ∀ op, cls op = .load ∨ cls op = .jalr → isBest L4 (mn op) op.mnemonic = true := by
  intro op; cases op <;> decide
theorem ex5 : ∀ op, cls op = .store → isBest sMn (mn op) op.mnemonic = true := by
  intro op; cases op <;> decide
theorem ex6 : ∀ op, cls op = .csr → isBest csrMn (mn op) op.mnemonic = true := by
  intro op; cases op <;> decide
theorem ex7 : ∀ op, cls op = .csri → isBest csriMn (mn op) op.mnemonic = true := by
  intro op; cases op <;> decide
theorem ex8 : ∀ op, cls op = .imm3 ∨ cls op = .jalr ∨ cls op = .load ∨ cls op = .store ∨ cls op = .b →
    isBest L8 (mn op) op.mnemonic = true := by
  intro op; cases op <;> decide

/-! ### "this alternative fails at (or right after) the mnemonic" -/

theorem pRType_fail (op : Op) (rest : Inp) (h : cls op ≠ .r) (hr : WordEnd rest) :
    pRType (mn op ++ rest) = .fail := by
  rcases Bool.or_eq_true _ _ |>.mp (tbl0 op h) with h1 | h2
  · simp [pRType, mn_stage_none rrrMn low_rrr op h1 rest hr]
  · obtain ⟨s, t, hs⟩ := mn_stage_partI rrrMn low_rrr op h2 rest hr
    simp only [pRType, hs, pReg_fail_i, bind_ok, bind_fail]

theorem pUType_fail (op : Op) (rest : Inp) (h : cls op ≠ .u) (hr : WordEnd rest) :
    pUType (mn op ++ rest) = .fail := by
  simp only [pUType, mn_stage_none uMn low_u op (tbl1 op h) rest hr, bind_fail]

theorem pBType_fail (op : Op) (rest : Inp) (h : cls op ≠ .b) (hr : WordEnd rest) :
    pBType (mn op ++ rest) = .fail := by
  simp only [pBType, mn_stage_none bMn low_b op (tbl2 op h) rest hr, bind_fail]

theorem pMemory_fail (op : Op) (rest : Inp) (h1 : cls op ≠ .load) (h2 : cls op ≠ .store)
    (h3 : cls op ≠ .jalr) (hr : WordEnd rest) : pMemory (mn op ++ rest) = .fail := by
  have := mn_stage_none L3 low_3 op (tbl3 op h1 h2 h3) rest hr
  rw [L3] at this
  simp only [pMemory, this, bind_fail]

theorem pMemPseudo_fail (op : Op) (rest : Inp) (h1 : cls op ≠ .load) (h3 : cls op ≠ .jalr)
    (hr : WordEnd rest) : pMemPseudo (mn op ++ rest) = .fail := by
  have := mn_stage_none L4 low_4 op (tbl4 op h1 h3) rest hr
  rw [L4] at this
  simp only [pMemPseudo, this, bind_fail]

theorem pSPseudo_fail (op : Op) (rest : Inp) (h : cls op ≠ .store) (hr : WordEnd rest) :
    pSPseudo (mn op ++ rest) = .fail := by
  simp only [pSPseudo, mn_stage_none sMn low_s op (tbl5 op h) rest hr, bind_fail]

theorem pCsr_fail (op : Op) (rest : Inp) (h : cls op ≠ .csr) (hr : WordEnd rest) :
    pCsr (mn op ++ rest) = .fail := by
  rcases Bool.or_eq_true _ _ |>.mp (tbl6 op h) with h1 | h2
  · simp only [pCsr, mn_stage_none csrMn low_csr op h1 rest hr, bind_fail]
  · obtain ⟨s, t, hs⟩ := mn_stage_partI csrMn low_csr op h2 rest hr
    simp only [pCsr, hs, pReg_fail_i, bind_ok, bind_fail]

theorem pCsri_fail (op : Op) (rest : Inp) (h : cls op ≠ .csri) (hr : WordEnd rest) :
    pCsri (mn op ++ rest) = .fail := by
  simp only [pCsri, mn_stage_none csriMn low_csri op (tbl7 op h) rest hr, bind_fail]

theorem pRegRegImm_fail (op : Op) (rest : Inp) (h1 : cls op ≠ .imm3) (h2 : cls op ≠ .jalr)
    (h3 : cls op ≠ .load) (h4 : cls op ≠ .store) (h5 : cls op ≠ .b) (hr : WordEnd rest) :
    pRegRegImm (mn op ++ rest) = .fail := by
  have := mn_stage_none L8 low_8 op (tbl8 op h1 h2 h3 h4 h5) rest hr
  rw [L8] at this
  simp only [pRegRegImm, this, bind_fail]

theorem pFence_fail (op : Op) (rest : Inp) (h : cls op ≠ .fence) (hr : WordEnd rest) :
    pFence (mn op ++ rest) = .fail := by
  simp only [pFence, kw_stage_none "fence" (by decide) op rest hr (tbl9 op h), bind_fail]

theorem pJal_fail (op : Op) (rest : Inp) (h1 : cls op ≠ .jal) (h2 : cls op ≠ .jalr) (hr : WordEnd rest) :
    pJal (mn op ++ rest) = .fail := by
  simp only [pJal, kw_stage_none "jal" (by decide) op rest hr (tbl10 op h1 h2), bind_fail]

def pEnv (j : Inp) : R Item :=
  first [fun k => (caselessLit "ecall" k).map (fun _ => Item.str "ecall"),
         fun k => (caselessLit "ebreak" k).map (fun _ => Item.str "ebreak")] j

theorem pEnv_fail (op : Op) (rest : Inp) (h1 : cls op ≠ .ecall) (h2 : cls op ≠ .ebreak) (hr : WordEnd rest) :
    pEnv (mn op ++ rest) = .fail := by
  have := tbl11 op h1 h2
  simp only [pEnv, first, kw_stage_none "ecall" (by decide) op rest hr this.1,
    kw_stage_none "ebreak" (by decide) op rest hr this.2, map_fail]

theorem pNop_fail (op : Op) (rest : Inp) (hr : WordEnd rest) :
    (caselessLit "nop" (mn op ++ rest)).map (fun _ => Item.str "nop") = .fail := by
  simp only [kw_stage_none "nop" (by decide) op rest hr (tbl12 op), map_fail]

theorem pLi_fail (op : Op) (rest : Inp) (hr : WordEnd rest) : pLi (mn op ++ rest) = .fail := by
  simp only [pLi, kw_stage_none "li" (by decide) op rest hr (tbl13 op), bind_fail]

theorem pMv_fail (op : Op) (rest : Inp) (hr : WordEnd rest) : pMv (mn op ++ rest) = .fail := by
  simp only [pMv, mn_stage_none ["mv"] low_mv op (tbl14 op) rest hr, bind_fail]

end ArchSim.Lemmas.C14
