/-
C07/C08 helper lemmas: the stall bookkeeping of `finishStep` split into named pieces
(pick-up, count-down, flush filter) and `finishStep` rewritten per flush case.
Core Lean only.
-/
import ArchSim.Lemmas.C07Finish

namespace ArchSim.Lemmas.C07
open ArchSim ArchSim.Rv ArchSim.Pipe ArchSim.Lemmas.C02Split

/-- The stall record created / restarted when stage `k` is picked. -/
def stallPicked (p : PSt) (k : Nat) : Stall :=
  match p.stalled with
  | none => { k := k, rem := 3, p0 := setFlag p.l0, p1 := if k = 2 then setFlag p.l1 else none }
  | some old => { old with k := k, rem := 3 }

/-- Stall record after the pick-up. -/
def stalled1 (p : PSt) (n1 n2 : Option Latch) : Option Stall :=
  match pickStall p.stalled n1 n2 with
  | none => p.stalled
  | some k =>
    match p.stalled with
    | none => some { k := k, rem := 3, p0 := setFlag p.l0, p1 := if k = 2 then setFlag p.l1 else none }
    | some old => some { old with k := k, rem := 3 }

theorem stalled1_none (p : PSt) (n1 n2 : Option Latch) (h : pickStall p.stalled n1 n2 = none) :
    stalled1 p n1 n2 = p.stalled := by
  unfold stalled1; rw [h]

theorem stalled1_some (p : PSt) (n1 n2 : Option Latch) (k : Nat) (h : pickStall p.stalled n1 n2 = some k) :
    stalled1 p n1 n2 = some (stallPicked p k) := by
  unfold stalled1 stallPicked; rw [h]; cases p.stalled <;> rfl

/-- The count-down at the end of a cycle. -/
def countDown (o : Option Stall) : Option Stall :=
  match o with
  | none => none
  | some st => if st.rem - 1 = 0 then none else some { st with rem := st.rem - 1 }

/-- A flush from the EX/MEM register ends an ID stall but not an EX stall. -/
def keepEx (o : Option Stall) : Option Stall :=
  match o with
  | none => none
  | some st => if st.k < 2 then none else some st

/-- State after the stall pick-up (the `stalls` counter). -/
def sPick (p : PSt) (s : St) (n1 n2 : Option Latch) : St :=
  if (pickStall p.stalled n1 n2).isSome then { s with stalls := s.stalls + 1 } else s

/-- State after a flush to address `a`. -/
def sFlush (s : St) (a : Int) : St := { s with flushes := s.flushes + 1, pc := a % 4294967296 }

theorem finishStep_noFlush (p : PSt) (s : St) (n0 n1 n2 n3 n4 : Option Latch)
    (h4 : latchFlush n4 = none) (h3 : latchFlush n3 = none) (h2 : latchFlush n2 = none) :
    finishStep p s n0 n1 n2 n3 n4 =
      { p with st := sPick p s n1 n2, l0 := n0, l1 := n1, l2 := n2, l3 := n3, l4 := n4,
               stalled := countDown (stalled1 p n1 n2) } := by
  unfold finishStep
  simp only [h4, h3, h2]
  rfl

theorem finishStep_flush4 (p : PSt) (s : St) (n0 n1 n2 n3 n4 : Option Latch) (a : Int)
    (h4 : latchFlush n4 = some a) :
    finishStep p s n0 n1 n2 n3 n4 =
      { p with st := sFlush (sPick p s n1 n2) a, l0 := none, l1 := none, l2 := none, l3 := none,
               l4 := n4, stalled := none } := by
  unfold finishStep
  simp only [h4]
  rfl

theorem finishStep_flush3 (p : PSt) (s : St) (n0 n1 n2 n3 n4 : Option Latch) (a : Int)
    (h4 : latchFlush n4 = none) (h3 : latchFlush n3 = some a) :
    finishStep p s n0 n1 n2 n3 n4 =
      { p with st := sFlush (sPick p s n1 n2) a, l0 := none, l1 := none, l2 := none, l3 := n3,
               l4 := n4, stalled := none } := by
  unfold finishStep
  simp only [h4, h3]
  rfl

theorem finishStep_flush2 (p : PSt) (s : St) (n0 n1 n2 n3 n4 : Option Latch) (a : Int)
    (h4 : latchFlush n4 = none) (h3 : latchFlush n3 = none) (h2 : latchFlush n2 = some a) :
    finishStep p s n0 n1 n2 n3 n4 =
      { p with st := sFlush (sPick p s n1 n2) a, l0 := none, l1 := none, l2 := n2, l3 := n3,
               l4 := n4, stalled := keepEx (countDown (stalled1 p n1 n2)) } := by
  unfold finishStep
  simp only [h4, h3, h2]
  rfl

theorem countDown_some (o : Option Stall) (st : Stall) (h : countDown o = some st) :
    ∃ st1, o = some st1 ∧ st = { st1 with rem := st1.rem - 1 } ∧ st1.rem - 1 ≠ 0 := by
  unfold countDown at h
  cases o with
  | none => simp at h
  | some st1 =>
    simp only at h
    split at h
    · simp at h
    · exact ⟨st1, rfl, by simpa using h.symm, by assumption⟩

theorem keepEx_some (o : Option Stall) (st : Stall) (h : keepEx o = some st) : o = some st ∧ 2 ≤ st.k := by
  unfold keepEx at h
  cases o with
  | none => simp at h
  | some st1 =>
    simp only at h
    split at h
    · simp at h
    · simp at h; subst h; exact ⟨rfl, by omega⟩

/-- A stall recorded after `finishStep` is the counted-down stall record of the pick-up. -/
theorem finishStep_stalled_some (p : PSt) (s : St) (n0 n1 n2 n3 n4 : Option Latch) (st : Stall)
    (h : (finishStep p s n0 n1 n2 n3 n4).stalled = some st) :
    countDown (stalled1 p n1 n2) = some st := by
  cases h4 : latchFlush n4 with
  | some a => rw [finishStep_flush4 p s n0 n1 n2 n3 n4 a h4] at h; simp at h
  | none =>
    cases h3 : latchFlush n3 with
    | some a => rw [finishStep_flush3 p s n0 n1 n2 n3 n4 a h4 h3] at h; simp at h
    | none =>
      cases h2 : latchFlush n2 with
      | some a =>
        rw [finishStep_flush2 p s n0 n1 n2 n3 n4 a h4 h3 h2] at h
        exact (keepEx_some _ _ h).1
      | none => rw [finishStep_noFlush p s n0 n1 n2 n3 n4 h4 h3 h2] at h; exact h

end ArchSim.Lemmas.C07
