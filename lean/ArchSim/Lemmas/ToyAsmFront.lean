/-
A kernel-evaluable mirror of the TOY front end.  `one_of` sorts its symbols with `List.mergeSort`
(well-founded recursion, which `decide` cannot unfold); the mirror takes the sorted lists as
literals and is proved equal to the model's `parseLine` / `tokenize`, so that concrete program texts
can be tokenised by `decide`.
-/
import ArchSim.Lemmas.ToyAsmParse

namespace ArchSim.ToyAsm
open ArchSim ArchSim.PP

theorem dir_lengths : "text".length = 4 ∧ "data".length = 4 := by decide

theorem longestFirst_dirs : longestFirst ["text", "data"] = ["text", "data"] := by
  obtain ⟨h1, h2⟩ := dir_lengths
  simp [longestFirst, List.mergeSort, h1, h2]

theorem longestFirst_word : longestFirst ["word"] = ["word"] := by
  simp [longestFirst]

/-- `one_of(…, caseless=True)` on an already sorted symbol list -/
def oneOfCaselessS (sorted : List String) (i : Inp) : R String := oneOfCaseless.go (skipWs i) sorted
/-- `one_of(…)` on an already sorted symbol list -/
def oneOfS (sorted : List String) (i : Inp) : R String := oneOf.go (skipWs i) sorted

theorem oneOfCaseless_addr (i : Inp) : oneOfCaseless addrMnemonics i = oneOfCaselessS sortedAddr i := by
  simp only [oneOfCaseless, longestFirst_addr, oneOfCaselessS]

theorem oneOfCaseless_noAddr (i : Inp) :
    oneOfCaseless noAddrMnemonics i = oneOfCaselessS sortedNoAddr i := by
  simp only [oneOfCaseless, longestFirst_noAddr, oneOfCaselessS]

theorem oneOf_dirs (i : Inp) : oneOf ["text", "data"] i = oneOfS ["text", "data"] i := by
  simp only [oneOf, longestFirst_dirs, oneOfS]

theorem oneOf_word (i : Inp) : oneOf ["word"] i = oneOfS ["word"] i := by
  simp only [oneOf, longestFirst_word, oneOfS]

def pDirective' (i : Inp) : R TStmt :=
  (lit "." i).bind fun _ r => (oneOfS ["text", "data"] r).map fun d => .directive d

def pVarDecl' (i : Inp) : R TStmt :=
  (pLabel i).bind fun name r1 =>
  (pColon r1).bind fun _ r2 =>
  (lit "." r2).bind fun _ r3 =>
  (oneOfS ["word"] r3).bind fun _ r4 =>
  (pValue r4).bind fun v r5 =>
    let (vs, rest) := pMoreValues r5.length r5 [v]
    .ok (.varDecl name vs) rest

def pAddrInstr' (lbl : Option String) (i : Inp) : R TStmt :=
  (oneOfCaselessS sortedAddr i).bind fun mn r =>
    orLongest [fun j => (pValue j).map (fun v => TStmt.instr lbl mn (some v) none),
               fun j => (pLabel j).map (fun l => TStmt.instr lbl mn none (some l))] r

def pNoAddrInstr' (lbl : Option String) (i : Inp) : R TStmt :=
  (oneOfCaselessS sortedNoAddr i).map fun mn => .instr lbl mn none none

def pInstruction' (i : Inp) : R TStmt :=
  (opt pLabelDecl i).bind fun lbl r => orLongest [pAddrInstr' lbl, pNoAddrInstr' lbl] r

def parseLine' (line : List Char) : Option TStmt :=
  match orLongest [pDirective', pVarDecl', pInstruction',
                   fun i => (pLabelDecl i).map TStmt.label] line with
  | .ok s rest => if atEnd rest then some s else none
  | _ => none

def tokenize' : List (Nat × List Char) → Except AsmErr (List Entry)
  | [] => .ok []
  | (k, l) :: rest =>
    match parseLine' l with
    | none => .error (.parser "ParserSyntaxException" k (String.ofList l))
    | some s =>
      match tokenize' rest with
      | .error e => .error e
      | .ok es => .ok ((k, String.ofList l, s) :: es)

theorem pDirective_eq : pDirective = pDirective' := by
  funext i; simp only [pDirective, pDirective', oneOf_dirs]

theorem pVarDecl_eq : pVarDecl = pVarDecl' := by
  funext i; simp only [pVarDecl, pVarDecl', oneOf_word]

theorem pAddrInstr_eq : pAddrInstr = pAddrInstr' := by
  funext lbl i; simp only [pAddrInstr, pAddrInstr', oneOfCaseless_addr]

theorem pNoAddrInstr_eq : pNoAddrInstr = pNoAddrInstr' := by
  funext lbl i; simp only [pNoAddrInstr, pNoAddrInstr', oneOfCaseless_noAddr]

theorem pInstruction_eq : pInstruction = pInstruction' := by
  funext i; simp only [pInstruction, pInstruction', pAddrInstr_eq, pNoAddrInstr_eq]

theorem parseLine_eq : parseLine = parseLine' := by
  funext l; simp only [parseLine, parseLine', pDirective_eq, pVarDecl_eq, pInstruction_eq]
  rfl

theorem tokenize_eq (ls : List (Nat × List Char)) : tokenize ls = tokenize' ls := by
  induction ls with
  | nil => rfl
  | cons a ls ih =>
    obtain ⟨k, l⟩ := a
    simp only [tokenize, tokenize', parseLine_eq, ih]
    rfl

/-- the token list of a text, `[]` if it cannot be tokenised (evaluable) -/
def tokensOf (text : String) : List Entry :=
  match tokenize' (sanitize text) with
  | .ok toks => toks
  | .error _ => []

def tokenizes (text : String) : Bool :=
  match tokenize' (sanitize text) with
  | .ok _ => true
  | .error _ => false

theorem tokenize_of_tokenizes (text : String) (h : tokenizes text = true) :
    tokenize (sanitize text) = .ok (tokensOf text) := by
  rw [tokenize_eq]
  unfold tokenizes at h
  unfold tokensOf
  split at h
  · rename_i toks heq; rw [heq]
  · cases h

/-! ### long texts

`String.toList` of a long literal is slow in the kernel; a text given as the concatenation of its
lines is converted line by line. -/

/-- `sanitize` on the character list of the text -/
def sanitizeL (cs : List Char) : List (Nat × List Char) :=
  let ls := splitLines cs
  let numbered := (List.range ls.length).zip ls |>.map fun (k, l) => (k + 1, l)
  let kept := numbered.filter fun (_, l) =>
    let s := pyStrip l
    !s.isEmpty && s.head? != some '#'
  kept.map fun (k, l) => (k, pyStrip (l.takeWhile (· != '#')))

theorem sanitize_eq (text : String) : sanitize text = sanitizeL text.toList := rfl

/-- a text as the concatenation of its pieces (lines with their line breaks) -/
def textOfLines (ls : List String) : String := ls.foldl (· ++ ·) ""
def charsOfLines (ls : List String) : List Char := ls.flatMap String.toList

theorem textOfLines_toList (ls : List String) : (textOfLines ls).toList = charsOfLines ls := by
  have : ∀ (acc : String), (ls.foldl (· ++ ·) acc).toList = acc.toList ++ charsOfLines ls := by
    induction ls with
    | nil => intro acc; simp [charsOfLines]
    | cons l ls ih => intro acc; simp [List.foldl_cons, ih, charsOfLines, String.toList_append]
  have h := this ""
  simpa [textOfLines] using h

/-- evaluable check: the pieces tokenise to `toks` -/
def tokenizesTo (ls : List String) (toks : List Entry) : Bool :=
  match tokenize' (sanitizeL (charsOfLines ls)) with
  | .ok l => l == toks
  | .error _ => false

theorem tokenize_of_tokenizesTo (ls : List String) (toks : List Entry) (h : tokenizesTo ls toks = true) :
    tokenize (sanitize (textOfLines ls)) = .ok toks := by
  rw [sanitize_eq, textOfLines_toList, tokenize_eq]
  unfold tokenizesTo at h
  revert h
  cases tokenize' (sanitizeL (charsOfLines ls)) with
  | error e => intro h; cases h
  | ok l => intro h; simp only [beq_iff_eq] at h; rw [h]

end ArchSim.ToyAsm
