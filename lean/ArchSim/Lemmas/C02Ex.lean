/-
C02 (control half), part 18: the hypotheses are satisfiable (uncached instruction memory), used by
the non-vacuity examples.
-/
import ArchSim.Lemmas.C02Prog

namespace ArchSim.Pipe
open ArchSim ArchSim.Rv

theorem fetch_nocache (im : IMem) (hc : im.cache = none) (hl : im.prog.length ≤ 4096) (pc : Int) (i : Instr)
    (hi : im.instrAt pc = some i) : im.fetch pc = { imem := im, res := .ok (some i), extra := 0 } := by
  unfold IMem.instrAt at hi
  split at hi
  · rename_i hpc
    have hlt : (pc / 4).toNat < im.prog.length := by
      have := List.getElem?_eq_some_iff.1 hi
      exact this.1
    have hpc2 : 0 ≤ pc ∧ pc < 16384 := by omega
    have hi2 : im.instrAt pc = some i := by unfold IMem.instrAt; rw [if_pos hpc]; exact hi
    unfold IMem.fetch
    rw [hc]
    simp only [hi2, hpc2, and_self, if_true]
  · cases hi

theorem fetchAll_nocache (im : IMem) (hc : im.cache = none) (hl : im.prog.length ≤ 4096) :
    ∀ pcs, (fetchAll im pcs).cache = none ∧ (fetchAll im pcs).prog = im.prog
  | [] => ⟨hc, rfl⟩
  | pc :: pcs => by
    have hf : (im.fetch pc).imem = im := by
      unfold IMem.fetch; rw [hc]; simp only []
      split
      · split <;> rfl
      · rfl
    rw [fetchAll, hf]; exact fetchAll_nocache im hc hl pcs

/-- Without an instruction cache, a program that fits the instruction memory is coherent. -/
theorem ICoh_nocache (im : IMem) (hc : im.cache = none) (hl : im.prog.length ≤ 4096) : ICoh im := by
  intro pcs pc i hi
  obtain ⟨h1, h2⟩ := fetchAll_nocache im hc hl pcs
  rw [fetch_nocache _ h1 (by rw [h2]; exact hl) pc i hi]
  exact ⟨rfl, rfl⟩

end ArchSim.Pipe

namespace ArchSim.Pipe
open ArchSim ArchSim.Rv

theorem ProgOK_of_all (im : IMem) (h : ∀ i, i ∈ im.prog → InstrOK i) : ProgOK im := by
  intro pc i hi
  unfold IMem.instrAt at hi
  split at hi
  · exact h i (List.mem_of_getElem? hi)
  · cases hi

/-- Decidable form of `InstrOK`. -/
def instrOKb (i : Instr) : Bool := (i.op != .ecall || i.rd == 0) && (i.op != .srai || decide (0 ≤ i.imm))

theorem InstrOK_of_b (i : Instr) (h : instrOKb i = true) : InstrOK i := by
  unfold instrOKb at h
  simp only [Bool.and_eq_true, Bool.or_eq_true, bne_iff_ne, ne_eq, beq_iff_eq, decide_eq_true_eq] at h
  exact ⟨fun ho => h.1.resolve_left (fun hn => hn ho), fun ho => h.2.resolve_left (fun hn => hn ho)⟩

theorem ProgOK_of_allb (im : IMem) (h : im.prog.all instrOKb = true) : ProgOK im :=
  ProgOK_of_all im (fun i hi => InstrOK_of_b i (List.all_eq_true.1 h i hi))

instance (n : Nat) (p : PSt) : Decidable (runOK n p) := by unfold runOK; infer_instance

/-- `abs` of a freshly initialised pipeline is the architectural state. -/
theorem abs_init (st : St) (hz : Bool) : abs (PSt.init st hz) = st :=
  abs_of_empty _ rfl rfl rfl rfl rfl

theorem absLog_init (st : St) (hz : Bool) : absLog (PSt.init st hz) = [] :=
  absLog_of_drained _ ⟨rfl, rfl, rfl, rfl, rfl⟩

theorem absF_init (st : St) (hz : Bool) : absF (PSt.init st hz) = none := by
  unfold absF; rw [absC_empty _ rfl rfl rfl rfl rfl]; rfl

end ArchSim.Pipe
