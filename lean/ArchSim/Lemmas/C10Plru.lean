/-
Helper lemmas for the PLRU half of C10: the bottom-up loop of `PLRU.access` equals a top-down
recursion on the heap array (`accessTD`), which the tree abstraction maps to `accessT`.
-/
import ArchSim.Model.Repl
import ArchSim.Spec.PlruTree
import Mathlib.Tactic.Ring

namespace ArchSim.Lemmas.C10
open ArchSim.Repl ArchSim.Spec.Plru

/-! ### Arithmetic -/

theorem two_pow_pos' (d : Nat) : 0 < 2 ^ d := Nat.two_pow_pos d

theorem log2_two_pow (d : Nat) : log2 (2 ^ d) = d := by
  unfold log2; exact Nat.log2_two_pow

/-! ### The access loop, also returning the final index -/

def loopIdx : Nat → List Bool → Nat → Option (List Bool × Nat)
  | 0,     t, i => some (t, i)
  | d + 1, t, i =>
    match plruAccessStep t i with
    | none => none
    | some (t', j) => loopIdx d t' j

theorem plruAccessLoop_eq (d : Nat) (t : List Bool) (i : Nat) :
    plruAccessLoop d t i = (loopIdx d t i).map Prod.fst := by
  induction d generalizing t i with
  | zero => rfl
  | succ d ih =>
    simp only [plruAccessLoop, loopIdx]
    cases plruAccessStep t i with
    | none => rfl
    | some r => exact ih _ _

/-- Peel the *last* (topmost) iteration off the loop. -/
theorem loopIdx_succ_top (d : Nat) (t : List Bool) (i : Nat) :
    loopIdx (d + 1) t i = (loopIdx d t i).bind (fun r => plruAccessStep r.1 r.2) := by
  induction d generalizing t i with
  | zero =>
    simp only [loopIdx, Option.bind_some]
    cases plruAccessStep t i <;> rfl
  | succ d ih =>
    rw [loopIdx]
    conv => rhs; rw [loopIdx]
    cases plruAccessStep t i with
    | none => rfl
    | some r => exact ih _ _

theorem plruAccessStep_left {t : List Bool} {k : Nat} (hk : k < t.length) :
    plruAccessStep t (2 * k + 1) = some (t.set k true, k) := by
  have h2 : (2 * k + 1) % 2 = 1 := by omega
  simp [plruAccessStep, h2, hk]

theorem plruAccessStep_right {t : List Bool} {k : Nat} (hk : k < t.length) :
    plruAccessStep t (2 * k + 2) = some (t.set k false, k) := by
  have h1 : (2 * k + 1) / 2 = k := by omega
  have h2 : (2 * k + 2) % 2 = 0 := by omega
  simp [plruAccessStep, h1, h2, hk]

/-! ### Top-down access on the heap array -/

/-- Access leaf `i` of the subtree of depth `d` rooted at heap node `k`, written top-down; the
    assignments happen in the same order as in the loop (deepest first, root last). -/
def accessTD : (d k i : Nat) → List Bool → List Bool
  | 0, _, _, t => t
  | d + 1, k, i, t =>
    if i < 2 ^ d then (accessTD d (2 * k + 1) i t).set k true
    else (accessTD d (2 * k + 2) (i - 2 ^ d) t).set k false

@[simp] theorem accessTD_length (d k i : Nat) (t : List Bool) :
    (accessTD d k i t).length = t.length := by
  induction d generalizing k i t with
  | zero => rfl
  | succ d ih => simp only [accessTD]; split <;> simp [ih]

/-- Range condition: every inner node of the subtree of depth `d` at heap node `k` is inside a
    list of length `n`. -/
def InRange (d k n : Nat) : Prop := (k + 2) * 2 ^ d ≤ 2 * (n + 1)

theorem InRange.left {d k n : Nat} (h : InRange (d + 1) k n) : InRange d (2 * k + 1) n := by
  unfold InRange at *
  rw [Nat.pow_succ] at h
  have e : (k + 2) * (2 ^ d * 2) = 2 * (k * 2 ^ d) + 4 * 2 ^ d := by ring
  have e' : (2 * k + 1 + 2) * 2 ^ d = 2 * (k * 2 ^ d) + 3 * 2 ^ d := by ring
  have := two_pow_pos' d
  omega

theorem InRange.right {d k n : Nat} (h : InRange (d + 1) k n) : InRange d (2 * k + 2) n := by
  unfold InRange at *
  rw [Nat.pow_succ] at h
  have e : (k + 2) * (2 ^ d * 2) = 2 * (k * 2 ^ d) + 4 * 2 ^ d := by ring
  have e' : (2 * k + 2 + 2) * 2 ^ d = 2 * (k * 2 ^ d) + 4 * 2 ^ d := by ring
  omega

theorem InRange.root_lt {d k n : Nat} (h : InRange (d + 1) k n) : k < n := by
  unfold InRange at *
  rw [Nat.pow_succ] at h
  have e : (k + 2) * (2 ^ d * 2) = 2 * (k * 2 ^ d) + 4 * 2 ^ d := by ring
  have := two_pow_pos' d
  have : k ≤ k * 2 ^ d := Nat.le_mul_of_pos_right k this
  omega

theorem InRange.of_length {d n : Nat} (h : n = 2 ^ d - 1) : InRange d 0 n := by
  unfold InRange
  have := two_pow_pos' d
  omega

theorem leaf_left (d k i : Nat) :
    (k + 1) * 2 ^ (d + 1) - 1 + i = (2 * k + 1 + 1) * 2 ^ d - 1 + i := by
  rw [Nat.pow_succ]
  have : (k + 1) * (2 ^ d * 2) = (2 * k + 1 + 1) * 2 ^ d := by ring
  rw [this]

theorem leaf_right (d k i : Nat) (hi : 2 ^ d ≤ i) :
    (k + 1) * 2 ^ (d + 1) - 1 + i = (2 * k + 2 + 1) * 2 ^ d - 1 + (i - 2 ^ d) := by
  rw [Nat.pow_succ]
  have e : (k + 1) * (2 ^ d * 2) = 2 * (k * 2 ^ d) + 2 * 2 ^ d := by ring
  have e' : (2 * k + 2 + 1) * 2 ^ d = 2 * (k * 2 ^ d) + 3 * 2 ^ d := by ring
  have := two_pow_pos' d
  omega

/-- The bottom-up loop started at leaf `i` of the subtree at `k` performs exactly the top-down
    recursion and ends at `k`. -/
theorem loopIdx_eq_accessTD (d k i : Nat) (t : List Bool) (hi : i < 2 ^ d)
    (hr : InRange d k t.length) :
    loopIdx d t ((k + 1) * 2 ^ d - 1 + i) = some (accessTD d k i t, k) := by
  induction d generalizing k i t with
  | zero =>
    have : i = 0 := by simpa using hi
    subst this
    simp [loopIdx, accessTD]
  | succ d ih =>
    rw [loopIdx_succ_top]
    have hk := hr.root_lt
    by_cases hlt : i < 2 ^ d
    · rw [leaf_left, ih (2 * k + 1) i t hlt hr.left]
      simp only [Option.bind_some, accessTD, hlt, if_true]
      exact plruAccessStep_left (by simpa using hk)
    · have hge : 2 ^ d ≤ i := Nat.le_of_not_lt hlt
      have hi' : i - 2 ^ d < 2 ^ d := by rw [Nat.pow_succ] at hi; omega
      rw [leaf_right d k i hge, ih (2 * k + 2) (i - 2 ^ d) t hi' hr.right]
      simp only [Option.bind_some, accessTD, hlt, if_false]
      exact plruAccessStep_right (by simpa using hk)

/-- `PLRU.access` on a well-formed state never fails and is the top-down recursion from the root. -/
theorem plruAccess_eq {d : Nat} {p : Plru} (hp : PlruWF d p) {i : Nat} (hi : i < 2 ^ d) :
    plruAccess p i = some { p with tree := accessTD d 0 i p.tree } := by
  obtain ⟨h1, h2, h3⟩ := hp
  have := two_pow_pos' d
  have hj : i + p.assoc - 1 = (0 + 1) * 2 ^ d - 1 + i := by rw [h2]; omega
  unfold plruAccess
  rw [plruAccessLoop_eq, h1, hj, loopIdx_eq_accessTD d 0 i p.tree hi (InRange.of_length h3)]
  rfl

theorem plruAccess_wf {d : Nat} {p p' : Plru} (hp : PlruWF d p) {i : Nat} (hi : i < 2 ^ d)
    (h : plruAccess p i = some p') : PlruWF d p' := by
  rw [plruAccess_eq hp hi] at h
  cases h
  obtain ⟨h1, h2, h3⟩ := hp
  exact ⟨h1, h2, by simpa using h3⟩

theorem plruInit_wf (d : Nat) : PlruWF d (plruInit (2 ^ d)) :=
  ⟨log2_two_pow d, rfl, by simp [plruInit]⟩

theorem plruRunFrom_wf {d : Nat} {p : Plru} (hp : PlruWF d p) (h : List Nat)
    (hh : ∀ x ∈ h, x < 2 ^ d) : ∃ p', plruRunFrom p h = some p' ∧ PlruWF d p' := by
  induction h generalizing p with
  | nil => exact ⟨p, rfl, hp⟩
  | cons x h ih =>
    have hx : x < 2 ^ d := hh x (by simp)
    have ha := plruAccess_eq hp hx
    obtain ⟨p', h1, h2⟩ := ih (plruAccess_wf hp hx ha) (fun y hy => hh y (by simp [hy]))
    exact ⟨p', by simpa [plruRunFrom, ha] using h1, h2⟩

theorem plruRunFrom_snoc (p : Plru) (h : List Nat) (x : Nat) :
    plruRunFrom p (h ++ [x]) = (plruRunFrom p h).bind (fun p' => plruAccess p' x) := by
  simp [plruRunFrom, List.foldlM_append]

/-! ### The victim loop -/

theorem victimT_lt {d : Nat} (T : PTree d) : victimT T < 2 ^ d := by
  induction T with
  | leaf => simp [victimT]
  | node b l r ihl ihr =>
    simp only [victimT, Nat.pow_succ]
    split <;> omega

theorem plruVictimLoop_eq (d k : Nat) (t : List Bool) (hr : InRange d k t.length) :
    plruVictimLoop d t k = some ((k + 1) * 2 ^ d - 1 + victimT (absAt t d k)) := by
  induction d generalizing k with
  | zero => simp [plruVictimLoop, victimT, absAt]
  | succ d ih =>
    have hk := hr.root_lt
    simp only [plruVictimLoop, List.getElem?_eq_getElem hk, absAt, victimT,
      List.getD_eq_getElem?_getD, Option.getD_some]
    cases hb : t[k] with
    | true =>
      simp only [if_true]
      rw [ih _ hr.right]
      congr 1
      have := leaf_right d k (2 ^ d + victimT (absAt t d (2 * k + 2))) (by omega)
      rw [this]; congr 1; omega
    | false =>
      simp only [Bool.false_eq_true, if_false]
      rw [ih _ hr.left, leaf_left]

/-- `get_next_to_replace` on a well-formed state = follow the bits of the abstract tree. -/
theorem plruVictim_eq {d : Nat} {p : Plru} (hp : PlruWF d p) :
    plruVictim p = some (victimT (absTree d p)) := by
  obtain ⟨h1, h2, h3⟩ := hp
  have := two_pow_pos' d
  unfold plruVictim
  rw [h1, plruVictimLoop_eq d 0 p.tree (InRange.of_length h3), h2]
  simp only [absTree]
  rw [if_pos (by omega)]
  congr 1
  omega

/-! ### The region of the array a subtree occupies -/

/-- Heap index `n` is an inner node of the subtree of depth `d` rooted at heap node `k`. -/
def inSub : (d k n : Nat) → Prop
  | 0, _, _ => False
  | d + 1, k, n => n = k ∨ inSub d (2 * k + 1) n ∨ inSub d (2 * k + 2) n

theorem inSub_ge {d k n : Nat} (h : inSub d k n) : k ≤ n := by
  induction d generalizing k with
  | zero => exact h.elim
  | succ d ih =>
    rcases h with h | h | h
    · omega
    · have := ih h; omega
    · have := ih h; omega

/-- Each inner node of the subtree at `k` lies, for some relative level `m`, in the interval
    `[(k+1)·2^m, (k+2)·2^m)` of 1-based heap indices. -/
theorem inSub_interval {d k n : Nat} (h : inSub d k n) :
    ∃ m, (k + 1) * 2 ^ m ≤ n + 1 ∧ n + 1 < (k + 2) * 2 ^ m := by
  induction d generalizing k with
  | zero => exact h.elim
  | succ d ih =>
    rcases h with h | h | h
    · exact ⟨0, by simp [h]⟩
    all_goals have hpos := fun m => two_pow_pos' m
    · obtain ⟨m, h1, h2⟩ := ih h
      refine ⟨m + 1, ?_, ?_⟩
      · have e : (k + 1) * 2 ^ (m + 1) = (2 * k + 1 + 1) * 2 ^ m := by rw [Nat.pow_succ]; ring
        omega
      · have e : (k + 2) * 2 ^ (m + 1) = (2 * k + 1 + 2) * 2 ^ m + 2 ^ m := by
          rw [Nat.pow_succ]; ring
        have := hpos m
        omega
    · obtain ⟨m, h1, h2⟩ := ih h
      refine ⟨m + 1, ?_, ?_⟩
      · have e : (k + 1) * 2 ^ (m + 1) + 2 ^ m = (2 * k + 2 + 1) * 2 ^ m := by
          rw [Nat.pow_succ]; ring
        have := hpos m
        omega
      · have e : (k + 2) * 2 ^ (m + 1) = (2 * k + 2 + 2) * 2 ^ m := by rw [Nat.pow_succ]; ring
        omega

/-- Sibling subtrees occupy disjoint parts of the array. -/
theorem inSub_disjoint {d d' k n : Nat} (h1 : inSub d (2 * k + 1) n) (h2 : inSub d' (2 * k + 2) n) :
    False := by
  obtain ⟨m, a1, a2⟩ := inSub_interval h1
  obtain ⟨m', b1, b2⟩ := inSub_interval h2
  by_cases hm : m ≤ m'
  · have hx : 2 ^ m ≤ 2 ^ m' := Nat.pow_le_pow_right (by decide) hm
    have : (2 * k + 1 + 2) * 2 ^ m ≤ (2 * k + 2 + 1) * 2 ^ m' := by
      have := Nat.mul_le_mul_left (2 * k + 3) hx
      simpa using this
    omega
  · have hx : 2 * 2 ^ m' ≤ 2 ^ m := by
      have : 2 ^ (m' + 1) ≤ 2 ^ m := Nat.pow_le_pow_right (by decide) (by omega)
      rw [Nat.pow_succ] at this; omega
    have h3 : (2 * k + 1 + 1) * (2 * 2 ^ m') ≤ (2 * k + 1 + 1) * 2 ^ m := Nat.mul_le_mul_left _ hx
    have e : (2 * k + 1 + 1) * (2 * 2 ^ m') = (2 * k + 2 + 2) * 2 ^ m' + 2 * k * 2 ^ m' := by ring
    omega

/-! ### The abstraction commutes with access -/

theorem absAt_congr {t t' : List Bool} {d k : Nat} (h : ∀ n, inSub d k n → t[n]? = t'[n]?) :
    absAt t d k = absAt t' d k := by
  induction d generalizing k with
  | zero => rfl
  | succ d ih =>
    simp only [absAt, List.getD_eq_getElem?_getD]
    rw [h k (Or.inl rfl), ih (fun n hn => h n (Or.inr (Or.inl hn))),
      ih (fun n hn => h n (Or.inr (Or.inr hn)))]

theorem accessTD_getElem?_of_not_inSub {d k i n : Nat} {t : List Bool} (h : ¬ inSub d k n) :
    (accessTD d k i t)[n]? = t[n]? := by
  induction d generalizing k i with
  | zero => rfl
  | succ d ih =>
    have hk : k ≠ n := fun e => h (Or.inl e.symm)
    simp only [accessTD]
    split
    · rw [List.getElem?_set_ne hk]; exact ih (fun hc => h (Or.inr (Or.inl hc)))
    · rw [List.getElem?_set_ne hk]; exact ih (fun hc => h (Or.inr (Or.inr hc)))

theorem absAt_set_lt {t : List Bool} {d k c : Nat} (b : Bool) (hc : k < c) :
    absAt (t.set k b) d c = absAt t d c :=
  absAt_congr (fun n hn => List.getElem?_set_ne (by have := inSub_ge hn; omega))

/-- Key refinement step: top-down access on the array is `accessT` on the abstract tree. -/
theorem absAt_accessTD (d k i : Nat) (t : List Bool) (hi : i < 2 ^ d)
    (hr : InRange d k t.length) :
    absAt (accessTD d k i t) d k = accessT (absAt t d k) i := by
  induction d generalizing k i with
  | zero => rfl
  | succ d ih =>
    have hk := hr.root_lt
    by_cases hlt : i < 2 ^ d
    · simp only [accessTD, hlt, if_true, absAt, accessT]
      rw [absAt_set_lt _ (by omega), absAt_set_lt _ (by omega), ih _ _ hlt hr.left]
      congr 1
      · simp [hk]
      · exact absAt_congr (fun n hn =>
          accessTD_getElem?_of_not_inSub (fun hc => inSub_disjoint hc hn))
    · have hi' : i - 2 ^ d < 2 ^ d := by rw [Nat.pow_succ] at hi; omega
      simp only [accessTD, hlt, if_false, absAt, accessT]
      rw [absAt_set_lt _ (by omega), absAt_set_lt _ (by omega), ih _ _ hi' hr.right]
      congr 1
      · simp [hk]
      · exact absAt_congr (fun n hn =>
          accessTD_getElem?_of_not_inSub (fun hc => inSub_disjoint hn hc))

/-- `abs (access p i) = accessT (abs p) i`. -/
theorem absTree_plruAccess {d : Nat} {p p' : Plru} (hp : PlruWF d p) {i : Nat} (hi : i < 2 ^ d)
    (h : plruAccess p i = some p') : absTree d p' = accessT (absTree d p) i := by
  rw [plruAccess_eq hp hi] at h
  cases h
  exact absAt_accessTD d 0 i p.tree hi (InRange.of_length hp.2.2)

/-! ### Tree-level facts -/

theorem pointsAway_accessT {d : Nat} (T : PTree d) (i : Nat) : pointsAway (accessT T i) i := by
  induction T generalizing i with
  | leaf => trivial
  | node b l r ihl ihr =>
    simp only [accessT]
    split
    · rename_i h; simp only [pointsAway, h, if_true, true_and]; exact ihl i
    · rename_i h; simp only [pointsAway, h, if_false, true_and]; exact ihr _

theorem accessT_of_pointsAway {d : Nat} (T : PTree d) (i : Nat) (h : pointsAway T i) :
    accessT T i = T := by
  induction T generalizing i with
  | leaf => rfl
  | node b l r ihl ihr =>
    simp only [pointsAway] at h
    simp only [accessT]
    split
    · rename_i hlt; rw [if_pos hlt] at h; rw [ihl i h.2, h.1]
    · rename_i hlt; rw [if_neg hlt] at h; rw [ihr _ h.2, h.1]

theorem accessT_idem {d : Nat} (T : PTree d) (i : Nat) : accessT (accessT T i) i = accessT T i :=
  accessT_of_pointsAway _ _ (pointsAway_accessT T i)

theorem victimT_ne_of_pointsAway {d : Nat} (T : PTree (d + 1)) (i : Nat)
    (h : pointsAway T i) : victimT T ≠ i := by
  cases T with
  | node b l r =>
    simp only [pointsAway] at h
    simp only [victimT]
    have hl := victimT_lt l
    by_cases hlt : i < 2 ^ d
    · rw [if_pos hlt] at h; rw [h.1]; simp only [if_true]; omega
    · rw [if_neg hlt] at h; rw [h.1]; simp only [Bool.false_eq_true, if_false]; omega

theorem victimT_accessT_ne {d : Nat} (hd : 0 < d) (T : PTree d) (i : Nat) :
    victimT (accessT T i) ≠ i := by
  cases d with
  | zero => omega
  | succ d => exact victimT_ne_of_pointsAway _ _ (pointsAway_accessT T i)

/-! ### Array-level idempotence and frame -/

theorem accessTD_set_comm {d c k i : Nat} {t : List Bool} (b : Bool) (hk : k < c) :
    accessTD d c i (t.set k b) = (accessTD d c i t).set k b := by
  induction d generalizing c i with
  | zero => rfl
  | succ d ih =>
    simp only [accessTD]
    split
    · rw [ih (by omega), List.set_comm _ _ (by omega)]
    · rw [ih (by omega), List.set_comm _ _ (by omega)]

theorem accessTD_idem (d k i : Nat) (t : List Bool) :
    accessTD d k i (accessTD d k i t) = accessTD d k i t := by
  induction d generalizing k i with
  | zero => rfl
  | succ d ih =>
    simp only [accessTD]
    split
    · rw [accessTD_set_comm _ (by omega), ih, List.set_set]
    · rw [accessTD_set_comm _ (by omega), ih, List.set_set]

theorem accessTD_getElem?_of_not_path {d k i n : Nat} {t : List Bool} (h : n ∉ pathFrom d k i) :
    (accessTD d k i t)[n]? = t[n]? := by
  induction d generalizing k i with
  | zero => rfl
  | succ d ih =>
    simp only [pathFrom, List.mem_cons, not_or] at h
    have hk : k ≠ n := fun e => h.1 e.symm
    simp only [accessTD]
    split
    · rename_i hlt; rw [if_pos hlt] at h; rw [List.getElem?_set_ne hk]; exact ih h.2
    · rename_i hlt; rw [if_neg hlt] at h; rw [List.getElem?_set_ne hk]; exact ih h.2

/-! ### The path in the loop's own terms -/

/-- Closed form of the path, in the loop's own terms: with 1-based heap indices the loop variable
    starts at `J = (k+1)·2^d + i` and is halved `d` times; the nodes assigned are `J / 2^m - 1`. -/
theorem mem_pathFrom_iff (d k i n : Nat) (hi : i < 2 ^ d) :
    n ∈ pathFrom d k i ↔ ∃ m, 1 ≤ m ∧ m ≤ d ∧ n + 1 = ((k + 1) * 2 ^ d + i) / 2 ^ m := by
  induction d generalizing k i with
  | zero =>
    simp only [pathFrom, List.not_mem_nil, false_iff]
    rintro ⟨m, h1, h2, _⟩; omega
  | succ d ih =>
    have hpos := two_pow_pos' d
    have htop : ((k + 1) * 2 ^ (d + 1) + i) / 2 ^ (d + 1) = k + 1 := by
      rw [Nat.add_comm, Nat.add_mul_div_right _ _ (two_pow_pos' (d + 1)), Nat.div_eq_of_lt hi]
      omega
    have key : ∀ (c i' : Nat), i' < 2 ^ d → (c + 1) * 2 ^ d + i' = (k + 1) * 2 ^ (d + 1) + i →
        (n ∈ k :: pathFrom d c i' ↔
          ∃ m, 1 ≤ m ∧ m ≤ d + 1 ∧ n + 1 = ((k + 1) * 2 ^ (d + 1) + i) / 2 ^ m) := by
      intro c i' hi' hJ
      rw [List.mem_cons, ih c i' hi', hJ]
      constructor
      · rintro (h | ⟨m, h1, h2, h3⟩)
        · exact ⟨d + 1, by omega, by omega, by rw [htop, h]⟩
        · exact ⟨m, h1, by omega, h3⟩
      · rintro ⟨m, h1, h2, h3⟩
        by_cases hm : m = d + 1
        · left; rw [hm, htop] at h3; omega
        · right; exact ⟨m, h1, by omega, h3⟩
    simp only [pathFrom]
    by_cases hlt : i < 2 ^ d
    · rw [if_pos hlt]
      refine key (2 * k + 1) i hlt ?_
      rw [Nat.pow_succ]; ring
    · rw [if_neg hlt]
      have hi' : i - 2 ^ d < 2 ^ d := by rw [Nat.pow_succ] at hi; omega
      refine key (2 * k + 2) (i - 2 ^ d) hi' ?_
      have e1 : (2 * k + 2 + 1) * 2 ^ d = 2 * (k * 2 ^ d) + 3 * 2 ^ d := by ring
      have e2 : (k + 1) * 2 ^ (d + 1) = 2 * (k * 2 ^ d) + 2 * 2 ^ d := by rw [Nat.pow_succ]; ring
      omega

theorem mem_path_iff (d i n : Nat) (hi : i < 2 ^ d) :
    n ∈ path d i ↔ ∃ m, 1 ≤ m ∧ m ≤ d ∧ n + 1 = (2 ^ d + i) / 2 ^ m := by
  unfold path
  rw [mem_pathFrom_iff d 0 i n hi]
  simp
end ArchSim.Lemmas.C10
