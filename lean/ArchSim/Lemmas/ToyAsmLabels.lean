/-
TOY assembler: `processLabels` (code labels = number of instruction lines before them) and
`buildInstrs` (instruction objects and their address operands).
-/
import ArchSim.Lemmas.ToyAsmData

namespace ArchSim.ToyAsm
open ArchSim ArchSim.PP ArchSim.Toy

/-- the label a tokenised line declares: a stand-alone label or an in-line label -/
def declaredLabel : TStmt → Option String
  | .label n => some n
  | .instr (some l) _ _ _ => some l
  | _ => none

/-- 1 for an instruction line, else 0 -/
def instrInc (s : TStmt) : Nat := if isInstr s then 1 else 0

theorem instrCount_cons (e : Entry) (rest : List Entry) :
    instrCount (e :: rest) = instrInc e.2.2 + instrCount rest := rfl

/-- One step of `processLabels`, uniformly in the kind of line. -/
theorem processLabels_cons (k : Nat) (line : String) (s : TStmt) (rest : List Entry) (ls : Labels)
    (pc : Nat) :
    processLabels ((k, line, s) :: rest) ls pc =
      match declaredLabel s with
      | some n =>
        match addLabel ls n pc k line with
        | .error e => .error e
        | .ok ls' => processLabels rest ls' (pc + instrInc s)
      | none => processLabels rest ls (pc + instrInc s) := by
  cases s with
  | directive d => rfl
  | varDecl n v => rfl
  | label n => rfl
  | instr lbl mn a r => cases lbl <;> rfl

/-- Closed form of a successful `processLabels`. -/
structure LabelSpec (toks : List Entry) (ls : Labels) (pc : Nat) (ls' : Labels) : Prop where
  keep : ∀ n x, lookup ls n = some x → lookup ls' n = some x
  decl : ∀ (j k : Nat) (line : String) (s : TStmt) (n : String),
           toks[j]? = some (k, line, s) → declaredLabel s = some n →
           lookup ls n = none ∧ lookup ls' n = some (((pc + instrCount (toks.take j) : Nat)) : Int)
  only : ∀ n x, lookup ls' n = some x →
           lookup ls n = some x ∨
           ∃ j k line s, toks[j]? = some (k, line, s) ∧ declaredLabel s = some n ∧
             x = (((pc + instrCount (toks.take j) : Nat)) : Int)

theorem processLabels_spec (toks : List Entry) (ls : Labels) (pc : Nat) (ls' : Labels)
    (h : processLabels toks ls pc = .ok ls') : LabelSpec toks ls pc ls' := by
  induction toks generalizing ls pc with
  | nil =>
    simp only [processLabels, Except.ok.injEq] at h
    subst h
    exact ⟨fun _ _ h => h, by simp, fun n x h => Or.inl h⟩
  | cons e rest ih =>
    obtain ⟨k, line, s⟩ := e
    rw [processLabels_cons] at h
    cases hd : declaredLabel s with
    | none =>
      rw [hd] at h
      have IH := ih _ _ h
      refine ⟨IH.keep, ?_, ?_⟩
      · intro j k' line' s' n hj hn
        cases j with
        | zero =>
          simp only [List.getElem?_cons_zero, Option.some.injEq, Prod.mk.injEq] at hj
          obtain ⟨_, _, rfl⟩ := hj
          rw [hd] at hn; cases hn
        | succ j =>
          simp only [List.getElem?_cons_succ] at hj
          obtain ⟨h1, h2⟩ := IH.decl j k' line' s' n hj hn
          refine ⟨h1, ?_⟩
          rw [h2]
          simp only [List.take_succ_cons, instrCount_cons]
          congr 1; omega
      · intro n x hn
        rcases IH.only n x hn with h1 | ⟨j, k', line', s', hj, hn', hx⟩
        · exact Or.inl h1
        · right
          refine ⟨j + 1, k', line', s', by simpa using hj, hn', ?_⟩
          rw [hx]
          simp only [List.take_succ_cons, instrCount_cons]
          congr 1; omega
    | some m =>
      rw [hd] at h
      simp only at h
      cases ha : addLabel ls m pc k line with
      | error e => rw [ha] at h; cases h
      | ok ls1 =>
        rw [ha] at h
        simp only at h
        have IH := ih _ _ h
        have hlk := lookup_addLabel ha
        obtain ⟨hnone, _⟩ := addLabel_ok ha
        refine ⟨?_, ?_, ?_⟩
        · intro n x hn
          apply IH.keep
          rw [hlk]
          by_cases hnm : n = m
          · subst hnm; rw [hnone] at hn; cases hn
          · simp [hnm, hn]
        · intro j k' line' s' n hj hn
          cases j with
          | zero =>
            simp only [List.getElem?_cons_zero, Option.some.injEq, Prod.mk.injEq] at hj
            obtain ⟨_, _, rfl⟩ := hj
            rw [hd] at hn; cases hn
            refine ⟨hnone, ?_⟩
            rw [IH.keep m pc (by rw [hlk]; simp)]
            simp [instrCount]
          | succ j =>
            simp only [List.getElem?_cons_succ] at hj
            obtain ⟨h1, h2⟩ := IH.decl j k' line' s' n hj hn
            rw [hlk] at h1
            by_cases hnm : n = m
            · simp [hnm] at h1
            · simp only [hnm, if_false] at h1
              refine ⟨h1, ?_⟩
              rw [h2]
              simp only [List.take_succ_cons, instrCount_cons]
              congr 1; omega
        · intro n x hn
          rcases IH.only n x hn with h1 | ⟨j, k', line', s', hj, hn', hx⟩
          · rw [hlk] at h1
            by_cases hnm : n = m
            · subst hnm
              simp only [if_true, Option.some.injEq] at h1
              right
              exact ⟨0, k, line, s, rfl, hd, by simp [instrCount, ← h1]⟩
            · simp only [hnm, if_false] at h1
              exact Or.inl h1
          · right
            refine ⟨j + 1, k', line', s', by simpa using hj, hn', ?_⟩
            rw [hx]
            simp only [List.take_succ_cons, instrCount_cons]
            congr 1; omega

/-- `processLabels` ignores lines that neither declare a label nor are instructions. -/
theorem processLabels_skip (pre : List Entry) (hpre : ∀ e ∈ pre, declaredLabel e.2.2 = none ∧ isInstr e.2.2 = false)
    (rest : List Entry) (ls : Labels) (pc : Nat) :
    processLabels (pre ++ rest) ls pc = processLabels rest ls pc := by
  induction pre with
  | nil => rfl
  | cons e pre ih =>
    obtain ⟨k, line, s⟩ := e
    obtain ⟨h1, h2⟩ := hpre (k, line, s) (by simp)
    simp only at h1 h2
    rw [List.cons_append, processLabels_cons, h1]
    simp only [instrInc, h2]
    exact ih (fun e he => hpre e (by simp [he]))

/-- … also when such lines come at the end. -/
theorem processLabels_skip_end (post : List Entry)
    (hpost : ∀ e ∈ post, declaredLabel e.2.2 = none ∧ isInstr e.2.2 = false)
    (l : List Entry) (ls : Labels) (pc : Nat) :
    processLabels (l ++ post) ls pc = processLabels l ls pc := by
  induction l generalizing ls pc with
  | nil =>
    have := processLabels_skip post hpost [] ls pc
    simpa using this
  | cons e l ih =>
    obtain ⟨k, line, s⟩ := e
    rw [List.cons_append, processLabels_cons, processLabels_cons]
    cases declaredLabel s with
    | none => exact ih _ _
    | some n =>
      simp only
      cases addLabel ls n pc k line with
      | error e => rfl
      | ok ls1 => exact ih _ _

/-! ### `buildInstrs` -/

/-- The (unreduced) address operand of an instruction line under a label table; `none` when a
    referenced name is not in the table. -/
def operand (ls : Labels) (mn : String) (addr ref : Option String) : Option Int :=
  if opcodeOf mn ≤ 7 then
    match addr, ref with
    | some v, _ => some (valueToInt v : Int)
    | none, some l => lookup ls l
    | none, none => some 0
  else some 0

theorem buildInstrs_cons_instr (k : Nat) (line : String) (lbl : Option String) (mn : String)
    (addr ref : Option String) (rest : List Entry) (ls : Labels) :
    buildInstrs ((k, line, .instr lbl mn addr ref) :: rest) ls =
      match operand ls mn addr ref with
      | none => .error (.parser "ParserLabelException" k line)
      | some x =>
        match buildInstrs rest ls with
        | .error e => .error e
        | .ok is => .ok ({ opcode := opcodeOf mn, addr := (x % 4096).toNat } :: is) := by
  simp only [buildInstrs, operand]
  by_cases hop : opcodeOf mn ≤ 7
  · simp only [hop, if_true]
    cases addr with
    | some v => rfl
    | none =>
      cases ref with
      | none => rfl
      | some l => cases hl : lookup ls l <;> simp only [hl] <;> rfl
  · simp only [hop, if_false]
    rfl

/-- Closed form of a successful `buildInstrs`. -/
structure BuildSpec (text : List Entry) (ls : Labels) (is : List TInstr) : Prop where
  noVar  : ∀ e ∈ text, isVarDecl e.2.2 = false
  length : is.length = instrCount text
  instr  : ∀ (j k : Nat) (line : String) (lbl : Option String) (mn : String) (addr ref : Option String),
             text[j]? = some (k, line, .instr lbl mn addr ref) →
             ∃ x, operand ls mn addr ref = some x ∧
               is[instrCount (text.take j)]? = some { opcode := opcodeOf mn, addr := (x % 4096).toNat }

theorem buildInstrs_spec (text : List Entry) (ls : Labels) (is : List TInstr)
    (h : buildInstrs text ls = .ok is) : BuildSpec text ls is := by
  induction text generalizing is with
  | nil =>
    simp only [buildInstrs, Except.ok.injEq] at h
    subst h
    exact ⟨by simp, rfl, by simp⟩
  | cons e rest ih =>
    obtain ⟨k, line, s⟩ := e
    have skip : ∀ (hs : isInstr s = false) (hv : isVarDecl s = false)
        (h' : buildInstrs rest ls = .ok is), BuildSpec ((k, line, s) :: rest) ls is := by
      intro hs hv h'
      have IH := ih is h'
      refine ⟨?_, ?_, ?_⟩
      · intro e he
        rcases List.mem_cons.mp he with rfl | he
        · exact hv
        · exact IH.noVar e he
      · rw [IH.length]; simp [instrCount, hs]
      · intro j k' line' lbl mn addr ref hj
        cases j with
        | zero =>
          simp only [List.getElem?_cons_zero, Option.some.injEq, Prod.mk.injEq] at hj
          obtain ⟨_, _, rfl⟩ := hj
          simp [isInstr] at hs
        | succ j =>
          simp only [List.getElem?_cons_succ] at hj
          obtain ⟨x, hx1, hx2⟩ := IH.instr j k' line' lbl mn addr ref hj
          refine ⟨x, hx1, ?_⟩
          simpa [List.take_succ_cons, instrCount, hs] using hx2
    cases s with
    | directive d => exact skip rfl rfl (by simpa [buildInstrs] using h)
    | label n => exact skip rfl rfl (by simpa [buildInstrs] using h)
    | varDecl n v => simp [buildInstrs] at h
    | instr lbl mn addr ref =>
      rw [buildInstrs_cons_instr] at h
      cases hop : operand ls mn addr ref with
      | none => rw [hop] at h; cases h
      | some x =>
        rw [hop] at h
        simp only at h
        cases hb : buildInstrs rest ls with
        | error e => rw [hb] at h; cases h
        | ok is' =>
          rw [hb] at h
          simp only [Except.ok.injEq] at h
          subst h
          have IH := ih is' hb
          refine ⟨?_, ?_, ?_⟩
          · intro e he
            rcases List.mem_cons.mp he with rfl | he
            · rfl
            · exact IH.noVar e he
          · simp [instrCount, isInstr, IH.length]; omega
          · intro j k' line' lbl' mn' addr' ref' hj
            cases j with
            | zero =>
              simp only [List.getElem?_cons_zero, Option.some.injEq, Prod.mk.injEq,
                TStmt.instr.injEq] at hj
              obtain ⟨_, _, _, rfl, rfl, rfl⟩ := hj
              exact ⟨x, hop, by simp [instrCount]⟩
            | succ j =>
              simp only [List.getElem?_cons_succ] at hj
              obtain ⟨y, hy1, hy2⟩ := IH.instr j k' line' lbl' mn' addr' ref' hj
              refine ⟨y, hy1, ?_⟩
              simp only [List.take_succ_cons, instrCount, isInstr, if_true]
              rw [Nat.add_comm, List.getElem?_cons_succ]
              exact hy2

/-- Conversely, `buildInstrs` succeeds when no line is a variable declaration and every referenced
    name is in the table. -/
theorem buildInstrs_ok_of (text : List Entry) (ls : Labels)
    (hv : ∀ e ∈ text, isVarDecl e.2.2 = false)
    (hop : ∀ k line lbl mn addr ref, (k, line, TStmt.instr lbl mn addr ref) ∈ text →
      (operand ls mn addr ref).isSome) :
    ∃ is, buildInstrs text ls = .ok is := by
  induction text with
  | nil => exact ⟨[], rfl⟩
  | cons e rest ih =>
    obtain ⟨is, his⟩ := ih (fun e he => hv e (by simp [he]))
      (fun k line lbl mn addr ref hm => hop k line lbl mn addr ref (by simp [hm]))
    obtain ⟨k, line, s⟩ := e
    cases s with
    | directive d => exact ⟨is, by simpa [buildInstrs] using his⟩
    | label n => exact ⟨is, by simpa [buildInstrs] using his⟩
    | varDecl n v => have := hv (k, line, .varDecl n v) (by simp); simp [isVarDecl] at this
    | instr lbl mn addr ref =>
      have := hop k line lbl mn addr ref (by simp)
      rw [buildInstrs_cons_instr]
      cases hx : operand ls mn addr ref with
      | none => rw [hx] at this; cases this
      | some x => exact ⟨{ opcode := opcodeOf mn, addr := (x % 4096).toNat } :: is, by simp only [his]⟩

/-- `buildInstrs` only looks at names that are in the table: two tables that agree on them give
    the same result. -/
theorem buildInstrs_congr (text : List Entry) (ls ls' : Labels)
    (h : ∀ n, lookup ls n = lookup ls' n) : buildInstrs text ls = buildInstrs text ls' := by
  induction text with
  | nil => rfl
  | cons e rest ih =>
    obtain ⟨k, line, s⟩ := e
    cases s with
    | directive d => simpa [buildInstrs] using ih
    | label n => simpa [buildInstrs] using ih
    | varDecl n v => simp [buildInstrs]
    | instr lbl mn addr ref =>
      rw [buildInstrs_cons_instr, buildInstrs_cons_instr, ih]
      have : operand ls mn addr ref = operand ls' mn addr ref := by
        simp only [operand]
        split
        · cases addr with
          | some v => rfl
          | none => cases ref with
            | none => rfl
            | some l => exact h l
        · rfl
      rw [this]

theorem opcodeOf_le (mn : String) : opcodeOf mn ≤ 12 := by
  unfold opcodeOf
  split <;> omega

/-- Every instruction object built is well formed: opcode 0..12 and a 12-bit address section. -/
theorem buildInstrs_wf (text : List Entry) (ls : Labels) (is : List TInstr)
    (h : buildInstrs text ls = .ok is) : ∀ i ∈ is, i.opcode ≤ 12 ∧ i.addr < 4096 := by
  induction text generalizing is with
  | nil =>
    simp only [buildInstrs, Except.ok.injEq] at h
    subst h; simp
  | cons e rest ih =>
    obtain ⟨k, line, s⟩ := e
    cases s with
    | directive d => exact ih is (by simpa [buildInstrs] using h)
    | label n => exact ih is (by simpa [buildInstrs] using h)
    | varDecl n v => simp [buildInstrs] at h
    | instr lbl mn addr ref =>
      rw [buildInstrs_cons_instr] at h
      cases hop : operand ls mn addr ref with
      | none => rw [hop] at h; cases h
      | some x =>
        rw [hop] at h
        simp only at h
        cases hb : buildInstrs rest ls with
        | error e => rw [hb] at h; cases h
        | ok is' =>
          rw [hb] at h
          simp only [Except.ok.injEq] at h
          subst h
          intro i hi
          rcases List.mem_cons.mp hi with rfl | hi
          · exact ⟨opcodeOf_le mn, by simp only; omega⟩
          · exact ih is' hb i hi

end ArchSim.ToyAsm
