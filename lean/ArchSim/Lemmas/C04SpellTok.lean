/-
C04 (spelling independence), part 14: operand tokens in any spelling, with blanks in front: what each
operand scanner makes of them (success on the right kind of operand, failure on the wrong kind).
-/
import ArchSim.Lemmas.C04SpellLine2
import ArchSim.Lemmas.C14Types

namespace ArchSim.Lemmas.C04Spell
open ArchSim ArchSim.PP ArchSim.Rv ArchSim.Asm ArchSim.Lemmas.C14

/-- blanks, a register in some spelling, the rest -/
def tReg (w : List Char) (st : RegStyle) (n : Nat) (rest : List Char) : List Char := w ++ (regSp st n ++ rest)
/-- blanks, a number in some spelling, the rest -/
def tNum (w : List Char) (st : NumStyle) (v : Int) (rest : List Char) : List Char := w ++ (numSp st v ++ rest)
/-- blanks, a separator character, the rest -/
def tSep (w : List Char) (c : Char) (rest : List Char) : List Char := w ++ c :: rest

theorem tokEnd_allWs (tr : List Char) (h : AllWs tr) : TokEnd tr := by
  have := tokEnd_ws_append tr [] h tokEnd_nil
  simpa using this

theorem tokEnd_tSep (w : List Char) (c : Char) (rest : List Char) (hw : AllWs w) (hc : isLabelBody c = false) :
    TokEnd (tSep w c rest) := tokEnd_ws_append w _ hw (tokEnd_cons c rest hc)

theorem comma_nlb : isLabelBody ',' = false := by decide
theorem lparen_nlb : isLabelBody '(' = false := by decide
theorem rparen_nlb : isLabelBody ')' = false := by decide

/-! ### successes -/

theorem pReg_tReg (w : List Char) (st : RegStyle) (n : Nat) (rest : List Char) (hw : AllWs w) (hn : n < 32)
    (hr : TokEnd rest) : pReg (tReg w st n rest) = .ok n rest :=
  pReg_sp st n hn w rest hw hr.notDigit

theorem pImm_tNum (w : List Char) (st : NumStyle) (v : Int) (rest : List Char) (hw : AllWs w)
    (hv : v.natAbs < 10 ^ 4300) (hr : TokEnd rest) : pImm (tNum w st v rest) = .ok v rest :=
  pImm_numSp st v w rest hw hv hr

theorem lit_tSep (s : String) (c : Char) (hs : s.toList = [c]) (hc : isWs c = false) (w rest : List Char)
    (hw : AllWs w) : lit s (tSep w c rest) = .ok () rest := by
  simp only [tSep, lit, skipWs_append w _ hw, skipWs_cons_of_not_ws c rest hc, hs, stripPrefix, if_true]

theorem pComma_tSep (w rest : List Char) (hw : AllWs w) : pComma (tSep w ',' rest) = .ok () rest :=
  lit_tSep "," ',' rfl (by decide) w rest hw

theorem lparen_tSep (w rest : List Char) (hw : AllWs w) : lit "(" (tSep w '(' rest) = .ok () rest :=
  lit_tSep "(" '(' rfl (by decide) w rest hw

theorem rparen_tSep (w rest : List Char) (hw : AllWs w) : lit ")" (tSep w ')' rest) = .ok () rest :=
  lit_tSep ")" ')' rfl (by decide) w rest hw

/-! ### first characters -/

theorem abiOf_head : ∀ n < 32, (abiOf n).toList ≠ [] ∧
    ∀ c ∈ (abiOf n).toList.head?, c ∈ lowList := by decide

theorem regSp_head (st : RegStyle) (n : Nat) (hn : n < 32) :
    ∃ c tl, regSp st n = c :: tl ∧ c ∈ lowList := by
  have habi : ∃ c tl, (abiOf n).toList = c :: tl ∧ c ∈ lowList := by
    obtain ⟨h1, h2⟩ := abiOf_head n hn
    cases hl : (abiOf n).toList with
    | nil => exact absurd hl h1
    | cons c tl => exact ⟨c, tl, rfl, h2 c (by simp [hl])⟩
  cases st with
  | x => exact ⟨'x', _, rfl, by decide⟩
  | abi => exact habi
  | fp =>
    simp only [regSp]
    split
    · exact ⟨'f', ['p'], rfl, by decide⟩
    · exact habi

theorem signTxt_zero_head (neg : Bool) (r : List Char) :
    ∃ c tl, signTxt neg ++ '0' :: r = c :: tl ∧ (c = '-' ∨ isNum c = true) := by
  cases neg with
  | true => exact ⟨'-', '0' :: r, rfl, Or.inl rfl⟩
  | false => exact ⟨'0', r, rfl, Or.inr (by decide)⟩

theorem numSp_head (st : NumStyle) (v : Int) : ∃ c tl, numSp st v = c :: tl ∧ (c = '-' ∨ isNum c = true) := by
  cases st with
  | dec => exact decTxt_cons v
  | hex z up => exact signTxt_zero_head _ _
  | bin z => exact signTxt_zero_head _ _

/-! ### failures on the wrong kind of operand -/

theorem pImm_fail_head (c : Char) (t : Inp) (h1 : c ≠ '-') (h2 : isNum c = false) (h3 : isWs c = false) :
    pImm (c :: t) = .fail := by
  have h0 : ('0' : Char) ≠ c := by rintro rfl; exact absurd h2 (by decide)
  rw [pImm, pImmText_eq, skipWs_cons_of_not_ws c t h3, signSplitS_other c t h1]
  simp [immBody, litAdj, stripPrefix, wordAdj, h2, h0]

theorem low_operand_facts : ∀ c ∈ lowList, c ≠ '-' ∧ isNum c = false ∧ isWs c = false ∧ c ≠ ':' := by decide

theorem pImm_fail_tReg (w : List Char) (st : RegStyle) (n : Nat) (rest : List Char) (hw : AllWs w) (hn : n < 32) :
    pImm (tReg w st n rest) = .fail := by
  obtain ⟨c, tl, hc, hl⟩ := regSp_head st n hn
  have := low_operand_facts c hl
  rw [tReg, pImm_ws w _ hw, hc]
  exact pImm_fail_head c _ this.1 this.2.1 this.2.2.1

theorem pReg_fail_tNum (w : List Char) (st : NumStyle) (v : Int) (rest : List Char) (hw : AllWs w) :
    pReg (tNum w st v rest) = .fail := by
  obtain ⟨c, tl, hc, hd⟩ := numSp_head st v
  have := isNum_not_regInit c hd
  rw [tNum, pReg_ws w _ hw, hc]
  exact pReg_fail_head c _ this.1 this.2

theorem pLabel_fail_tNum (w : List Char) (st : NumStyle) (v : Int) (rest : List Char) (hw : AllWs w) :
    pLabel (tNum w st v rest) = .fail := by
  obtain ⟨c, tl, hc, hd⟩ := numSp_head st v
  have hws := (isNum_not_regInit c hd).1
  have hli : isLabelInit c = false := by
    rcases hd with rfl | hd
    · decide
    · exact (isNum_facts c hd).2.2.2.2.1
  rw [tNum, pLabel_ws w _ hw, hc]
  simp [pLabel, word, skipWs_cons_of_not_ws c _ hws, wordAdj, hli]

theorem pVariable_fail_tNum (w : List Char) (st : NumStyle) (v : Int) (rest : List Char) (hw : AllWs w) :
    pVariable (tNum w st v rest) = .fail := by
  simp [pVariable, pLabel_fail_tNum w st v rest hw]

/-! ### a register name is also a label -/

theorem abiOf_syms : ∀ n < 32, abiOf n ∈ abiSyms := by decide

theorem regSp_labelBody (st : RegStyle) (n : Nat) (hn : n < 32) : ∀ c ∈ regSp st n, isLabelBody c = true := by
  have habi : ∀ c ∈ (abiOf n).toList, isLabelBody c = true :=
    fun c hc => (abi_chars_table _ (abiOf_syms n hn) c hc).1
  cases st with
  | x =>
    intro c hc
    rcases List.mem_cons.mp hc with rfl | hc
    · decide
    · exact regTxt_labelBody n hn c hc
  | abi => exact habi
  | fp =>
    simp only [regSp]
    split
    · decide
    · exact habi

theorem pVariable_tReg (w : List Char) (st : RegStyle) (n : Nat) (rest : List Char) (hw : AllWs w) (hn : n < 32)
    (hr : TokEnd rest) (hb : rest.head? ≠ some '[') :
    pVariable (tReg w st n rest) = .ok (String.ofList (regSp st n), none) rest := by
  obtain ⟨c, tl, hc, hl⟩ := regSp_head st n hn
  have hbody := regSp_labelBody st n hn
  rw [hc] at hbody
  have hcf := letter_facts c (List.mem_append_left _ hl)
  have htl : ∀ d ∈ tl, isLabelBody d = true := fun d hd => hbody d (by simp [hd])
  have h1 : pLabel (tReg w st n rest) = .ok (String.ofList (regSp st n)) rest := by
    rw [tReg, pLabel_ws w _ hw, hc]
    simp only [pLabel, word, List.cons_append, skipWs_cons_of_not_ws c _ hcf.2.1, wordAdj,
      hcf.2.2.2.2.2.2.1, if_true, takeWhile_class isLabelBody tl rest htl hr,
      dropWhile_class isLabelBody tl rest htl hr]
  have h2 : litAdj "[" rest = .fail := by
    simp only [litAdj, show ("[" : String).toList = ['['] from rfl]
    cases rest with
    | nil => rfl
    | cons e r =>
      have : e ≠ '[' := by simpa using hb
      simp [stripPrefix, Ne.symm this]
  simp only [pVariable, h1, bind_ok, h2, bind_fail]

theorem tSep_head_ne (w : List Char) (c d : Char) (r : List Char) (hw : AllWs w) (hc : c ≠ d) (hd : isWs d = false) :
    (tSep w c r).head? ≠ some d := by
  cases w with
  | nil => simpa [tSep] using hc
  | cons e w =>
    have := hw e (by simp)
    simp only [tSep, List.cons_append, List.head?_cons, ne_eq, Option.some.injEq]
    rintro rfl
    rw [hd] at this; cases this

end ArchSim.Lemmas.C04Spell
