/-
C04 (spelling independence), part 8: finite tables — how every mnemonic table and keyword of the instruction
grammar treats every mnemonic word (real and pseudo).
-/
import ArchSim.Lemmas.C04SpellAlt

namespace ArchSim.Lemmas.C04Spell
open ArchSim ArchSim.PP ArchSim.Rv ArchSim.Asm ArchSim.Lemmas.C14

/-- every word that is a mnemonic of the RISC-V grammar: the real ones and `la`, `li`, `mv`, `nop` -/
def mnWords : List String :=
  rrrMn ++ normalIMn ++ memIMn ++ bMn ++ sMn ++ uMn ++ csrMn ++ csriMn ++
    ["jal", "fence", "ecall", "ebreak", "nop", "li", "mv", "la"]

theorem mnWords_low : ∀ m ∈ mnWords, (∀ c ∈ m.toList, isLow c = true) ∧ m.toList ≠ [] := by decide

set_option maxRecDepth 4000 in
theorem stage_rrr : ∀ m ∈ mnWords, stageOk rrrMn m.toList = true := by decide
set_option maxRecDepth 4000 in
theorem stage_u : ∀ m ∈ mnWords, stageOk uMn m.toList = true := by decide
set_option maxRecDepth 4000 in
theorem stage_b : ∀ m ∈ mnWords, stageOk bMn m.toList = true := by decide
set_option maxRecDepth 4000 in
theorem stage_3 : ∀ m ∈ mnWords, stageOk (memIMn ++ sMn) m.toList = true := by decide
set_option maxRecDepth 4000 in
theorem stage_4 : ∀ m ∈ mnWords, stageOk (memIMn ++ ["la"]) m.toList = true := by decide
set_option maxRecDepth 4000 in
theorem stage_s : ∀ m ∈ mnWords, stageOk sMn m.toList = true := by decide
set_option maxRecDepth 4000 in
theorem stage_csr : ∀ m ∈ mnWords, stageOk csrMn m.toList = true := by decide
set_option maxRecDepth 4000 in
theorem stage_csri : ∀ m ∈ mnWords, stageOk csriMn m.toList = true := by decide
set_option maxRecDepth 4000 in
theorem stage_8 : ∀ m ∈ mnWords, stageOk (normalIMn ++ memIMn ++ bMn ++ sMn) m.toList = true := by decide
set_option maxRecDepth 4000 in
theorem stage_mv : ∀ m ∈ mnWords, stageOk ["mv"] m.toList = true := by decide

set_option maxRecDepth 4000 in
theorem kw_jal : ∀ m ∈ mnWords, kwOk "jal" m.toList = true := by decide
set_option maxRecDepth 4000 in
theorem kw_fence : ∀ m ∈ mnWords, kwOk "fence" m.toList = true := by decide
set_option maxRecDepth 4000 in
theorem kw_li : ∀ m ∈ mnWords, kwOk "li" m.toList = true := by decide

/-- the keywords without operands are no proper prefix of a mnemonic -/
def kwExact (kw : String) (w : List Char) : Bool := !kw.toList.isPrefixOf w || kw.toList.length == w.length

set_option maxRecDepth 4000 in
theorem kw_bare : ∀ m ∈ mnWords, kwExact "ecall" m.toList = true ∧ kwExact "ebreak" m.toList = true ∧
    kwExact "nop" m.toList = true := by decide

end ArchSim.Lemmas.C04Spell
