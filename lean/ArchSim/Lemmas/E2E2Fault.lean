/-
End-to-end layer, part 2 (helper lemmas for C15Asm): the invariant "the instruction memory is as the loader left it,
it stores `prog`, and every pipeline register holds the instruction `prog` stores at its address" is kept by
`RiscvSimulation.step()` in BOTH modes; hence every run-time fault carries an address of `prog` and the instruction
stored there.
-/
import ArchSim.Lemmas.E2E2Load
import ArchSim.Lemmas.C15Run
import ArchSim.Lemmas.C13Life

namespace ArchSim.Lemmas.E2E2
open ArchSim ArchSim.Rv ArchSim.Asm ArchSim.Pipe ArchSim.Lemmas.C15

/-- One single-cycle step keeps the loader's guarantee about the instruction memory and the program. -/
theorem singleStep_imemOK {s : St} (h : ImemOK s.imem) :
    ImemOK (singleStep s).st.imem ∧ (singleStep s).st.imem.prog = s.imem.prog := by
  cases hi : s.imem.instrAt s.pc with
  | none => rw [(ArchSim.Lemmas.C11.singleStep_none s hi).1]; exact ⟨h, rfl⟩
  | some j =>
    rw [(ArchSim.Lemmas.C11.singleStep_some s hi).1]
    exact ⟨(h.fetch s.pc).2.1, (h.fetch s.pc).1⟩

/-- `ImemOK` gives `FetchOK`: the fetch at the pc returns the stored instruction. -/
theorem fetchOK_of_imemOK {s : St} (h : ImemOK s.imem) : FetchOK s := fun i hi => (h.fetch s.pc).2.2 i hi

/-- Replacing the architectural state by one with the same program and an `ImemOK` instruction memory keeps the
    latch invariant. -/
theorem _root_.ArchSim.Lemmas.C15.PipeOK.withSt {p : PSt} (h : PipeOK p) {st' : St} (him : ImemOK st'.imem)
    (hp : st'.imem.prog = p.st.imem.prog) : PipeOK { p with st := st' } :=
  ⟨him, h.l0.congr hp, h.l1.congr hp, h.l2.congr hp, h.l3.congr hp, h.l4.congr hp,
    fun st hs => (h.p0 st hs).congr hp, fun st hs => (h.p1 st hs).congr hp⟩

/-- The simulation invariant: latch invariant of C15, and the stored program is `prog`. -/
structure SimOK (prog : List Instr) (sim : Sim.RSim) : Prop where
  pipe : PipeOK sim.p
  prog : sim.p.st.imem.prog = prog

theorem simStep_p (s : Sim.RSim) :
    (Sim.step s).sim.p = s.p ∨ (Sim.step s).sim.p = (Pipe.step s.p).p ∨
      (Sim.step s).sim.p = { s.p with st := (singleStep s.p.st).st } := by
  cases hd : Sim.isDone s with
  | true => left; rw [Sim.step_done hd]
  | false =>
    right
    rcases Bool.eq_false_or_eq_true s.five with h5 | h5
    · left
      cases hf : (Pipe.step s.p).fault with
      | none => rw [Sim.step_five_ok hd h5 hf]
      | some f => rw [Sim.step_five_fault hd h5 hf]
    · right
      cases hf : (singleStep s.p.st).fault with
      | none => rw [Sim.step_single_ok hd h5 hf]
      | some af => obtain ⟨a, f⟩ := af; rw [Sim.step_single_fault hd h5 hf]

theorem simStep_ok {prog : List Instr} {sim : Sim.RSim} (h : SimOK prog sim) : SimOK prog (Sim.step sim).sim := by
  rcases simStep_p sim with e | e | e
  · exact ⟨by rw [e]; exact h.pipe, by rw [e]; exact h.prog⟩
  · exact ⟨by rw [e]; exact step_ok h.pipe, by rw [e, step_prog _ h.pipe]; exact h.prog⟩
  · obtain ⟨h1, h2⟩ := singleStep_imemOK h.pipe.imem
    exact ⟨by rw [e]; exact h.pipe.withSt h1 h2, by rw [e]; exact h2.trans h.prog⟩

theorem simIter_ok {prog : List Instr} {sim : Sim.RSim} (h : SimOK prog sim) (n : Nat) :
    SimOK prog (iter Sim.stepS n sim) := by
  induction n generalizing sim with
  | zero => exact h
  | succ n ih => exact ih (simStep_ok h)

/-- Loading into a simulation whose pipeline registers are empty (a new simulation, or one that has only been
    loaded into) establishes the invariant for the stored program. -/
theorem simLoad_ok (sim : Sim.RSim) (text : String) (hc : ICacheOK sim.p.st)
    (he : sim.p.l0 = none ∧ sim.p.l1 = none ∧ sim.p.l2 = none ∧ sim.p.l3 = none ∧ sim.p.l4 = none ∧
      sim.p.stalled = none) :
    SimOK (load sim.p.st text).st.imem.prog (Sim.load sim text).1 := by
  obtain ⟨e0, e1, e2, e3, e4, es⟩ := he
  have him := load_imemOK sim.p.st text hc
  refine ⟨?_, rfl⟩
  show PipeOK { sim.p with st := (load sim.p.st text).st }
  refine ⟨him, ?_, ?_, ?_, ?_, ?_, ?_, ?_⟩
  · show LatchOK _ sim.p.l0; rw [e0]; exact latchOK_none _
  · show LatchOK _ sim.p.l1; rw [e1]; exact latchOK_none _
  · show LatchOK _ sim.p.l2; rw [e2]; exact latchOK_none _
  · show LatchOK _ sim.p.l3; rw [e3]; exact latchOK_none _
  · show LatchOK _ sim.p.l4; rw [e4]; exact latchOK_none _
  · intro st hs
    have : sim.p.stalled = some st := hs
    rw [es] at this; cases this
  · intro st hs
    have : sim.p.stalled = some st := hs
    rw [es] at this; cases this

/-- Under the invariant a fault reported by `step()` (either mode) carries an instruction, and it is the one the
    program stores at the reported address. -/
theorem sim_fault_instr {prog : List Instr} {sim : Sim.RSim} (h : SimOK prog sim) {a : Int}
    {oi : Option Instr} {f : Fault} (hf : (Sim.step sim).fault = some (a, oi, f)) :
    ∃ i, oi = some i ∧ sim.p.st.imem.instrAt a = some i := by
  rcases Bool.eq_false_or_eq_true sim.five with h5 | h5
  · obtain ⟨_, pf, hpf, rfl, rfl, rfl⟩ := (simStep_five_fault h5).1 hf
    exact ⟨pf.instr, rfl, step_fault_instrAt h.pipe hpf⟩
  · obtain ⟨_, hs, ho⟩ := (simStep_single_fault h5).1 hf
    obtain ⟨_, i, hi⟩ := singleStep_fault_pc hs
    exact ⟨i, by rw [ho, hi], hi⟩

/-! ### single-cycle runs on the architectural state -/

theorem singleRun_imemOK {s : St} (h : ImemOK s.imem) (n : Nat) :
    ImemOK (singleRun n s).imem ∧ (singleRun n s).imem.prog = s.imem.prog := by
  induction n with
  | zero => exact ⟨h, rfl⟩
  | succ n ih =>
    obtain ⟨h1, h2⟩ := singleStep_imemOK ih.1
    exact ⟨h1, h2.trans ih.2⟩

end ArchSim.Lemmas.E2E2
