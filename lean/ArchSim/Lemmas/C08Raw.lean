/-
C08: in a hazard-free program the decode verification condition `RawFree` of the refinement proof
holds in every reachable pipeline state, whatever the setting of the hazard-detection flag: the two
latches below a decoding instruction hold its fall-through neighbours (`NInv`), and `HazardFree`
says those do not write what it reads.
-/
import ArchSim.Lemmas.C08Nb
import ArchSim.Lemmas.C08Pad

namespace ArchSim.Pipe
open ArchSim ArchSim.Rv ArchSim.Lemmas.C07 ArchSim.Lemmas.C08

/-- Two program instructions at addresses `b + 4 * d = a` (`d = 1, 2`) are `d` places apart. -/
theorem neighbour_index (prog : List Instr) (x f : Latch) (d : Int) (hd : d = 1 ∨ d = 2)
    (hx : 0 ≤ x.addr ∧ x.addr % 4 = 0 ∧ prog[(x.addr / 4).toNat]? = some x.instr)
    (hf : 0 ≤ f.addr ∧ f.addr % 4 = 0 ∧ prog[(f.addr / 4).toNat]? = some f.instr)
    (h : x.addr + 4 * d = f.addr) :
    ∃ b, b < (f.addr / 4).toNat ∧ (f.addr / 4).toNat ≤ b + 2 ∧ prog[b]? = some x.instr := by
  refine ⟨(x.addr / 4).toNat, ?_, ?_, hx.2.2⟩ <;> rcases hd with rfl | rfl <;> omega

/-- THE C08 DECODE CONDITION: hazard-free program ⇒ no read-after-write hazard in decode. -/
theorem rawFree_of_hazardFree (p : PSt) (hI : PInv p) (hN : NInv p) (hfree : HazardFree p.st.imem.prog) :
    RawFree p := by
  intro hs _ f h0 r hr
  have hc := hN.consec
  have hsh := hI.shape
  unfold Consec at hc; unfold Shape at hsh
  rw [hs] at hc hsh
  obtain ⟨_, c1, c2⟩ := hc
  obtain ⟨_, i2, _⟩ := hsh
  have hf := hN.a0 f h0
  have key : ∀ l : Option Latch, WregOK l →
      (∀ x, l = some x → ∃ b, b < (f.addr / 4).toNat ∧ (f.addr / 4).toNat ≤ b + 2 ∧
        p.st.imem.prog[b]? = some x.instr) → ¬ writes l r := by
    intro l hw hl
    have := hazardWith_neighbour p.st.imem.prog hfree (f.addr / 4).toNat f.instr hf.2.2
      (wbOut p).1.regs l hl
    exact not_writes_of_no_hazard _ l hw this r hr
  refine ⟨key p.l1 hI.w1 ?_, key p.l2 hI.w2 ?_⟩
  · intro x hx
    exact neighbour_index _ x f 1 (Or.inl rfl) (hN.a1 x hx) hf (by have := c1 x f hx h0; omega)
  · intro y hy
    -- `l2` non-empty and `l0` non-empty force `l1` non-empty
    cases h1 : p.l1 with
    | none => rw [i2 (by rw [h0]; rfl) h1] at hy; cases hy
    | some x =>
      exact neighbour_index _ y f 2 (Or.inr rfl) (hN.a2 y hy) hf
        (by have := c1 x f h1 h0; have := c2 y x hy h1; omega)

theorem rawFree_run_of_hazardFree (st : St) (hz : Bool) (hp : ProgOK st.imem) (hc : ICoh st.imem)
    (hfree : HazardFree st.imem.prog) (n : Nat) (hr : runOK n (PSt.init st hz)) :
    ∀ m, m < n → RawFree (pipeRun m (PSt.init st hz)) := by
  intro m hm
  have hrm : runOK m (PSt.init st hz) := fun j hj => hr j (Nat.lt_trans hj hm)
  have hI := PInv_run _ (PInv_init st hz hp hc) m hrm
  have hN := NInv_run _ (PInv_init st hz hp hc) (NInv_init st hz) m hrm
  apply rawFree_of_hazardFree _ hI hN
  -- the program never changes
  have : ∀ k, runOK k (PSt.init st hz) → (pipeRun k (PSt.init st hz)).st.imem.prog = st.imem.prog := by
    intro k
    induction k with
    | zero => intro _; rfl
    | succ k ih =>
      intro hk
      obtain ⟨hk', hf⟩ := runOK_succ hk
      have hIk := PInv_run _ (PInv_init st hz hp hc) k hk'
      obtain ⟨hex, hme⟩ := (step_fault_none_iff _).1 hf
      have h1 : (step (pipeRun k (PSt.init st hz))).p.st.imem = (ifOut (pipeRun k (PSt.init st hz))).1.imem := by
        rw [step_nofault _ hex hme]
        dsimp only
        cases h4 : latchFlush (wbOut (pipeRun k (PSt.init st hz))).2 with
        | some a => rw [finishStep_flush4 _ _ _ _ _ _ _ a h4]; simp [stallBump_imem, memOut_imem]
        | none =>
          cases h3 : latchFlush (memOut (pipeRun k (PSt.init st hz))).latch with
          | some a => rw [finishStep_flush3 _ _ _ _ _ _ _ a h4 h3]; simp [stallBump_imem, memOut_imem]
          | none =>
            cases h2 : latchFlush (exOut (pipeRun k (PSt.init st hz))).latch with
            | some a => rw [finishStep_flush2 _ _ _ _ _ _ _ a h4 h3 h2]; simp [stallBump_imem, memOut_imem]
            | none => rw [finishStep_noflush _ _ _ _ _ _ _ h4 h3 h2]; simp [stallBump_imem, memOut_imem]
      show (step (pipeRun k (PSt.init st hz))).p.st.imem.prog = _
      rw [h1, (ifOut_facts _ hIk.icoh hIk.progOK hIk.ok0).2.1, ih hk']
  rw [this m hrm]; exact hfree

end ArchSim.Pipe
