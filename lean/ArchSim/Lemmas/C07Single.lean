/-
C07 helper lemmas, part 5: the cycle counter after one single-cycle step (`Rv.singleStep`).
Uses the C09 frame lemma for uncounted reads (the display re-read of a load adds no cycles).
-/
import ArchSim.Lemmas.C07Cycle
import ArchSim.Lemmas.C09Reread

namespace ArchSim.Lemmas.C07
open ArchSim ArchSim.Rv ArchSim.Pipe

/-- Extra cycles of the (counted) data access `behavior` performs for instruction `i`. -/
def accessExtra (i : Instr) (regs : Nat → Nat) (ms : MemSys) : Nat :=
  match i.op.ty with
  | .memI => (ms.read (accessBits i.op) ((regs i.rs1 : Int) + i.imm) true).extra
  | .s => (ms.write (accessBits i.op) (((regs i.rs1 + wrapU i.imm) % 4294967296 : Nat) : Int)
            (regs i.rs2 % 2 ^ accessBits i.op) false).extra
  | _ => 0

theorem behavior_cycles (i : Instr) (s : St) :
    (behavior i s).st.cycles = s.cycles + accessExtra i s.regs s.mem := by
  unfold behavior accessExtra
  cases h : i.op.ty <;> simp only
  all_goals repeat' split
  all_goals first | rfl | simp [St.setReg]

/-- An uncounted read adds no cycles, flat or cached. -/
theorem read_uncounted_extra (ms : MemSys) (bits : Nat) (a : Int) : (ms.read bits a false).extra = 0 := by
  cases ms with
  | flat m => exact read_flat_extra m bits a false
  | cached l d => exact (C09.read_uncounted_frame (P := Cache.polOps l) d bits a).2.2.2

/-- The display re-read of a load (`update_statistics = False`) adds no cycles. -/
theorem reread_extra (i : Instr) (h : i.op.ty = .memI) (a w : Option Int) (ms : MemSys) (o : MaOut)
    (hma : memoryAccess i a w ms false = some o) : o.extra = 0 := by
  unfold memoryAccess at hma
  simp only [h] at hma
  split at hma
  · simp at hma
  · simp at hma; subst hma; exact read_uncounted_extra ..

/-- Penalty cycles of one single-cycle step: the fetch plus the instruction's counted data access. -/
def singleExtra (s : St) : Nat :=
  match s.imem.instrAt s.pc with
  | none => 0
  | some _ =>
    (s.imem.fetch s.pc).extra +
      match (s.imem.fetch s.pc).res with
      | .ok (some i) => accessExtra i s.regs s.mem
      | _ => 0

/-- The part of `singleStep` after the fetch (verbatim). -/
def sTail (i : Instr) (s2 : St) : Rv.StepOut :=
  let addr := s2.pc
  let rr := accessRegs i s2.regs
  let b := behavior i s2
  match b.fault with
  | some ft => { st := b.st, fault := some (addr, ft) }
  | none =>
    let s3 : St × Option Fault :=
      if i.op.ty = .memI then
        let la : Option Int := match rr.d1, rr.imm with
          | some d, some im => some ((wrapU d : Int) + im)
          | _, _ => none
        match memoryAccess i la none b.st.mem false with
        | none => (b.st, some (.mem .policy))
        | some o =>
          let st' := { b.st with mem := o.mem, cycles := b.st.cycles + o.extra }
          match o.res with
          | .error e => (st', some (.mem e))
          | .ok _ => (st', none)
      else (b.st, none)
    match s3 with
    | (st', some ft) => { st := st', fault := some (addr, ft) }
    | (st', none) => { st := { st' with pc := (st'.pc + 4) % 4294967296 }, fault := none }

/-- State handed to `behavior`: cycle tick, instruction count, fetch. -/
def sFetched (s : St) : St :=
  { s with instrs := s.instrs + 1, imem := (s.imem.fetch s.pc).imem,
           cycles := s.cycles + 1 + (s.imem.fetch s.pc).extra }

theorem singleStep_ok (s : St) (i0 i : Instr) (hi : s.imem.instrAt s.pc = some i0)
    (hr : (s.imem.fetch s.pc).res = .ok (some i)) : singleStep s = sTail i (sFetched s) := by
  simp only [singleStep, hi, hr]; rfl

theorem sTail_cycles (i : Instr) (s2 : St) :
    (sTail i s2).st.cycles = s2.cycles + accessExtra i s2.regs s2.mem := by
  have hb := behavior_cycles i s2
  unfold sTail
  simp only
  cases hf : (behavior i s2).fault with
  | some ft => simpa using hb
  | none =>
    simp only
    by_cases hty : i.op.ty = .memI
    · simp only [hty, if_true]
      cases hma : memoryAccess i _ none (behavior i s2).st.mem false with
      | none => simpa using hb
      | some o =>
        have ho := reread_extra i hty _ _ _ o hma
        simp only
        cases o.res <;> simp only <;> omega
    · simp only [hty, if_false]; exact hb

theorem singleStep_cycles (s : St) : (singleStep s).st.cycles = s.cycles + 1 + singleExtra s := by
  unfold singleExtra
  cases hi : s.imem.instrAt s.pc with
  | none => simp [singleStep, hi]
  | some i0 =>
    simp only
    cases hr : (s.imem.fetch s.pc).res with
    | error e => simp [singleStep, hi, hr]
    | ok oi =>
      cases oi with
      | none => simp [singleStep, hi, hr]
      | some i => rw [singleStep_ok s i0 i hi hr, sTail_cycles]; simp [sFetched]; omega

end ArchSim.Lemmas.C07
