/-
C04 (spelling independence), part 21: every spelling of an instruction line is tokenized as `itemOf i`.
-/
import ArchSim.Lemmas.C04SpellRender
import ArchSim.Lemmas.C14Main

namespace ArchSim.Lemmas.C04Spell
open ArchSim ArchSim.PP ArchSim.Rv ArchSim.Asm ArchSim.Lemmas.C14

/-- A line that starts with a (lower-case) mnemonic word, is no label declaration, and whose instruction body
    is read completely up to trailing blanks, is tokenized as that body without label. -/
theorem parseLine_of_bodyS (w rest : List Char) (hw : CaseVar w w) (hne : w ≠ []) (hs : LineSep rest)
    (it : Item) (tr : List Char) (htr : AllWs tr) (hb : pInstrBody (w ++ rest) = .ok it tr) :
    parseLine (w ++ rest) = some { lbl := none, item := it } := by
  have hc := pColon_fail rest hs.colon
  have hl := pLabel_var w w rest hw hne hs.tokEnd
  have a5 : pLabelDecl (w ++ rest) = .fail := by simp only [pLabelDecl, hl, hc, bind_ok, map_fail]
  have a1 := pDirective_var w w rest hw hne
  have a2 : pVarDecl (w ++ rest) = .fail := by simp only [pVarDecl, hl, hc, bind_ok, bind_fail]
  have a3 : pStrDecl (w ++ rest) = .fail := by simp only [pStrDecl, hl, hc, bind_ok, bind_fail]
  have a4 : pZeroDecl (w ++ rest) = .fail := by simp only [pZeroDecl, hl, hc, bind_ok, bind_fail]
  have a6 : pInstruction (w ++ rest) = .ok { lbl := none, item := it } tr := by
    simp only [pInstruction, opt, a5, bind_ok, hb, map_ok]
  have hend : atEnd tr = true := by simp [atEnd, skipWs_allWs tr htr]
  unfold parseLine
  rw [orLongest_eq]
  simp only [List.map_cons, List.map_nil, a1, a2, a3, a4, a5, a6, map_fail]
  have : ([R.fail, R.fail, R.fail, R.fail, R.ok ({ lbl := none, item := it } : Tok) tr, R.fail] : List (R Tok)).any
      isAbort = false := rfl
  rw [this]
  simp only [Bool.false_eq_true, if_false, List.foldl_cons, List.foldl_nil, orStep, hend, if_true]

theorem lineSep_allWs (tr : List Char) (htr : AllWs tr) : LineSep tr := by
  cases tr with
  | nil => exact lineSep_nil
  | cons c r =>
    apply lineSep_ws c r (htr c (by simp))
    rw [skipWs_allWs r (fun d hd => htr d (by simp [hd]))]
    simp

theorem lineSep_tReg (g : List Char) (st : RegStyle) (n : Nat) (rest : List Char) (hg : AllWs g) (hgne : g ≠ [])
    (hn : n < 32) : LineSep (tReg g st n rest) := by
  cases g with
  | nil => exact absurd rfl hgne
  | cons c g' =>
    obtain ⟨d, tl, hd, hl⟩ := regSp_head st n hn
    have hdf := low_operand_facts d hl
    apply lineSep_ws c _ (hg c (by simp))
    show List.head? (skipWs (g' ++ (regSp st n ++ rest))) ≠ some ':'
    rw [skipWs_append g' _ (fun e he => hg e (by simp [he])), hd, List.cons_append,
      skipWs_cons_of_not_ws d _ hdf.2.2.1]
    simpa using hdf.2.2.2

theorem mnemonic_mem : ∀ op : Op, op.mnemonic ∈ mnWords := by
  intro op; cases op <;> decide

theorem cls_jalr_eq : ∀ op : Op, cls op = .jalr → op = .jalr := by intro op; cases op <;> decide
theorem cls_jal_eq : ∀ op : Op, cls op = .jal → op = .jal := by intro op; cases op <;> decide
theorem cls_fence_eq : ∀ op : Op, cls op = .fence → op = .fence := by intro op; cases op <;> decide

/-- the instruction body of every spelling: the item, and exactly the trailing blanks are left -/
theorem body_render (sp : Spelling) (i : Instr) (hs : Spellable i) :
    pInstrBody (mn i.op ++ operands sp i (blanks sp.trail)) = .ok (itemOf i) (blanks sp.trail) ∧
      LineSep (operands sp i (blanks sp.trail)) := by
  obtain ⟨hrd, hrs1, hrs2, himm, haux, hf⟩ := hs
  have hg := allWs_gapOf sp
  have hgne := gapOf_ne_nil sp
  have b1 := allWs_blanks sp.c1a
  have b2 := allWs_blanks sp.c1b
  have b3 := allWs_blanks sp.c2a
  have b4 := allWs_blanks sp.c2b
  have p1 := allWs_blanks sp.pa
  have p2 := allWs_blanks sp.pb
  have p3 := allWs_blanks sp.pc
  have htr := allWs_blanks sp.trail
  cases hcl : cls i.op with
  | r =>
    simp only [operands, itemOf, hcl]
    exact ⟨bodyS_R _ _ _ _ _ _ hg hgne b1 b2 b3 b4 htr i.op hcl _ _ _ hrd hrs1 hrs2 _ _ _,
      lineSep_tReg _ _ _ _ hg hgne hrd⟩
  | imm3 =>
    simp only [operands, itemOf, hcl]
    exact ⟨bodyS_I _ _ _ _ _ _ hg hgne b1 b2 b3 b4 htr i.op hcl _ _ _ hrd hrs1 himm _ _ _,
      lineSep_tReg _ _ _ _ hg hgne hrd⟩
  | jalr =>
    simp only [operands, itemOf, hcl]
    rw [cls_jalr_eq _ hcl]
    exact ⟨bodyS_jalr _ _ _ _ _ _ hg hgne b1 b2 b3 b4 htr _ _ _ hrd hrs1 himm _ _ _,
      lineSep_tReg _ _ _ _ hg hgne hrd⟩
  | load =>
    simp only [operands, itemOf, hcl]
    exact ⟨bodyS_load _ _ _ _ _ _ hg hgne b1 b2 p1 p2 _ p3 i.op hcl _ _ _ hrd hrs1 himm _ _ _,
      lineSep_tReg _ _ _ _ hg hgne hrd⟩
  | store =>
    simp only [operands, itemOf, hcl]
    exact ⟨bodyS_store _ _ _ _ _ _ hg hgne b1 b2 p1 p2 _ p3 i.op hcl _ _ _ hrs2 hrs1 himm _ _ _,
      lineSep_tReg _ _ _ _ hg hgne hrs2⟩
  | b =>
    simp only [operands, itemOf, hcl]
    exact ⟨bodyS_B _ _ _ _ _ _ hg hgne b1 b2 b3 b4 htr i.op hcl _ _ _ hrs1 hrs2 himm _ _ _,
      lineSep_tReg _ _ _ _ hg hgne hrs1⟩
  | u =>
    simp only [operands, itemOf, hcl]
    exact ⟨bodyS_U _ _ _ _ hg hgne b1 b2 htr i.op hcl _ _ hrd himm _ _, lineSep_tReg _ _ _ _ hg hgne hrd⟩
  | jal =>
    simp only [operands, itemOf, hcl]
    rw [cls_jal_eq _ hcl]
    exact ⟨bodyS_J _ _ _ _ hg hgne b1 b2 htr _ _ hrd haux _ _, lineSep_tReg _ _ _ _ hg hgne hrd⟩
  | ecall =>
    simp only [operands, itemOf, hcl]
    exact ⟨bodyS_env _ htr i.op (Or.inl hcl), lineSep_allWs _ htr⟩
  | ebreak =>
    simp only [operands, itemOf, hcl]
    exact ⟨bodyS_env _ htr i.op (Or.inr hcl), lineSep_allWs _ htr⟩
  | csr =>
    simp only [operands, itemOf, hcl]
    exact ⟨bodyS_CSR _ _ _ _ _ _ hg hgne b1 b2 b3 b4 htr i.op hcl _ _ _ hrd hrs1 haux _ _ _,
      lineSep_tReg _ _ _ _ hg hgne hrd⟩
  | csri =>
    simp only [operands, itemOf, hcl]
    exact ⟨bodyS_CSRI _ _ _ _ _ _ hg hgne b1 b2 b3 b4 htr i.op hcl _ _ _ hrd haux himm _ _ _,
      lineSep_tReg _ _ _ _ hg hgne hrd⟩
  | fence => exact absurd (cls_fence_eq _ hcl) hf

/-- Whole-line spelling independence: EVERY spelling of the instruction `i` is tokenized as the label-free
    entry `itemOf i`. -/
theorem parseLine_render (sp : Spelling) (i : Instr) (hs : Spellable i) :
    parseLine (render sp i) = some { lbl := none, item := itemOf i } := by
  obtain ⟨hb, hsep⟩ := body_render sp i hs
  have hcv : parseLine (recase sp.mnCase (mn i.op) ++ operands sp i (blanks sp.trail))
      = parseLine (mn i.op ++ operands sp i (blanks sp.trail)) :=
    parseLine_cv i.op.mnemonic (mnemonic_mem _) _ _ (caseVar_recase _ _ (mn_low i.op).1) hsep
  unfold render
  rw [parseLine_ws _ _ (allWs_blanks _), hcv]
  exact parseLine_of_bodyS (mn i.op) _ (mn_caseVar i.op) (mn_low i.op).2 hsep _ _ (allWs_blanks _) hb

end ArchSim.Lemmas.C04Spell
