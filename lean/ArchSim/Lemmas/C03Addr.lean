/-
C03 helper lemmas, part 3: address arithmetic of `decode` (tag / set index / block offset / byte
offset / block base recombine to the address; blocks are aligned address ranges).
-/
import ArchSim.Spec.CacheAbs

namespace ArchSim.Lemmas.C03
open ArchSim ArchSim.Cache ArchSim.Mem ArchSim.Spec.CacheAbs

/-! ### `wrap32` -/

theorem wrap32_lt (a : Int) : wrap32 a < 4294967296 := by unfold wrap32; omega

theorem wrap32_cast (a : Int) : ((wrap32 a : Nat) : Int) = a % 4294967296 := by unfold wrap32; omega

theorem wrap32_nat (x : Nat) (h : x < 4294967296) : wrap32 (x : Int) = x := by unfold wrap32; omega

theorem wrap32_wrap (a : Int) : wrap32 ((wrap32 a : Nat) : Int) = wrap32 a :=
  wrap32_nat _ (wrap32_lt a)

theorem wrap32_add (a : Int) (i : Nat) (h : wrap32 a % 4 + i < 4) :
    wrap32 (a + (i : Int)) = wrap32 a + i := by
  unfold wrap32 at *; omega

theorem wrap32_add_lt (a : Int) (i : Nat) (h : wrap32 a + i < 4294967296) :
    wrap32 (a + (i : Int)) = wrap32 a + i := by
  unfold wrap32 at *; omega

theorem wrapAddr_riscv (a : Int) : wrapAddr riscvCfg a = ((wrap32 a : Nat) : Int) := by
  rw [wrap32_cast]
  simp only [wrapAddr, riscvCfg, if_true]
  rfl

/-! ### powers of two -/

theorem pow_blk (bb : Nat) : 2 ^ (bb + 2) = 4 * 2 ^ bb := by
  rw [Nat.pow_add]; omega

theorem pow_tag (ib bb : Nat) : 2 ^ (ib + bb + 2) = 2 ^ (bb + 2) * 2 ^ ib := by
  rw [show ib + bb + 2 = (bb + 2) + ib by omega, Nat.pow_add]

theorem pow_pos2 (n : Nat) : 0 < 2 ^ n := Nat.two_pow_pos n

/-! ### fields of `decode` -/

theorem decode_wrap (ib bb : Nat) (a : Int) :
    decode ib bb ((wrap32 a : Nat) : Int) = decode ib bb a := by
  simp only [decode, wrap32_wrap]

theorem decode_congr (ib bb : Nat) (a b : Int) (h : wrap32 a = wrap32 b) :
    decode ib bb a = decode ib bb b := by
  simp only [decode, h]

theorem decode_full (ib bb : Nat) (a : Int) : (decode ib bb a).full = wrap32 a := rfl
theorem decode_byteOff (ib bb : Nat) (a : Int) : (decode ib bb a).byteOff = wrap32 a % 4 := rfl
theorem decode_blockOff (ib bb : Nat) (a : Int) :
    (decode ib bb a).blockOff = wrap32 a / 4 % 2 ^ bb := rfl
theorem decode_setIdx (ib bb : Nat) (a : Int) :
    (decode ib bb a).setIdx = wrap32 a / 2 ^ (bb + 2) % 2 ^ ib := rfl
theorem decode_tag (ib bb : Nat) (a : Int) :
    (decode ib bb a).tag = wrap32 a / 2 ^ (bb + 2) / 2 ^ ib := by
  simp only [decode, pow_tag, Nat.div_div_eq_div_mul]
theorem decode_blockBase (ib bb : Nat) (a : Int) :
    (decode ib bb a).blockBase = wrap32 a / 2 ^ (bb + 2) * 2 ^ (bb + 2) := by
  simp only [decode, Nat.add_comm 2 bb]

theorem decode_byteOff_lt (ib bb : Nat) (a : Int) : (decode ib bb a).byteOff < 4 := by
  rw [decode_byteOff]; omega

theorem decode_blockOff_lt (ib bb : Nat) (a : Int) : (decode ib bb a).blockOff < 2 ^ bb := by
  rw [decode_blockOff]; exact Nat.mod_lt _ (pow_pos2 bb)

theorem decode_setIdx_lt (ib bb : Nat) (a : Int) : (decode ib bb a).setIdx < 2 ^ ib := by
  rw [decode_setIdx]; exact Nat.mod_lt _ (pow_pos2 ib)

/-- The base address a way of set `setIdx` with tag `tag` carries is the block-aligned address. -/
theorem decode_base (ib bb : Nat) (a : Int) :
    ((decode ib bb a).tag * 2 ^ ib + (decode ib bb a).setIdx) * 2 ^ (bb + 2) =
      (decode ib bb a).blockBase := by
  rw [decode_tag, decode_setIdx, decode_blockBase, Nat.div_add_mod']

/-- The address is base + 4·(word in block) + (byte in word). -/
theorem decode_full_eq (ib bb : Nat) (a : Int) :
    wrap32 a = (decode ib bb a).blockBase + 4 * (decode ib bb a).blockOff + (decode ib bb a).byteOff := by
  rw [decode_blockBase, decode_blockOff, decode_byteOff]
  have h1 := Nat.div_add_mod' (wrap32 a) (2 ^ (bb + 2))
  have h2 : wrap32 a % 2 ^ (bb + 2) = wrap32 a % 4 + 4 * (wrap32 a / 4 % 2 ^ bb) := by
    rw [pow_blk, Nat.mod_mul]
  omega

/-- A block containing a valid data address lies entirely in the valid data range. -/
theorem decode_range (ib bb : Nat) (a : Int) (hbb : bb ≤ 12) (h : 16384 ≤ wrap32 a) :
    16384 ≤ (decode ib bb a).blockBase ∧ (decode ib bb a).blockBase + 2 ^ (bb + 2) ≤ 4294967296 := by
  rw [decode_blockBase]
  have hx := wrap32_lt a
  have hB := pow_pos2 (bb + 2)
  have e1 : 16384 = 2 ^ (12 - bb) * 2 ^ (bb + 2) := by
    rw [← Nat.pow_add, show 12 - bb + (bb + 2) = 14 by omega]
  have e2 : 4294967296 = 2 ^ (30 - bb) * 2 ^ (bb + 2) := by
    rw [← Nat.pow_add, show 30 - bb + (bb + 2) = 32 by omega]
  constructor
  · have : 2 ^ (12 - bb) ≤ wrap32 a / 2 ^ (bb + 2) := by
      rw [Nat.le_div_iff_mul_le hB, ← e1]; exact h
    calc 16384 = 2 ^ (12 - bb) * 2 ^ (bb + 2) := e1
      _ ≤ _ := Nat.mul_le_mul_right _ this
  · have : wrap32 a / 2 ^ (bb + 2) < 2 ^ (30 - bb) := by
      rw [Nat.div_lt_iff_lt_mul hB, ← e2]; exact hx
    calc wrap32 a / 2 ^ (bb + 2) * 2 ^ (bb + 2) + 2 ^ (bb + 2)
        = (wrap32 a / 2 ^ (bb + 2) + 1) * 2 ^ (bb + 2) := by rw [Nat.add_mul, Nat.one_mul]
      _ ≤ 2 ^ (30 - bb) * 2 ^ (bb + 2) := Nat.mul_le_mul_right _ this
      _ = 4294967296 := e2.symm

/-- The other bytes of an access that stays within one word decode to the same block and word. -/
theorem decode_add (ib bb : Nat) (a : Int) (i : Nat) (h : wrap32 a % 4 + i < 4) :
    decode ib bb (a + (i : Int)) =
      { decode ib bb a with full := wrap32 a + i, byteOff := wrap32 a % 4 + i } := by
  have hw := wrap32_add a i h
  have h4 : (wrap32 a + i) / 4 = wrap32 a / 4 := by omega
  have hd : ∀ N, (wrap32 a + i) / (4 * N) = wrap32 a / (4 * N) := by
    intro N; rw [← Nat.div_div_eq_div_mul, ← Nat.div_div_eq_div_mul, h4]
  have e1 : 2 ^ (ib + bb + 2) = 4 * 2 ^ (ib + bb) := pow_blk (ib + bb)
  have e2 : 2 ^ (bb + 2) = 4 * 2 ^ bb := pow_blk bb
  have e3 : 2 ^ (2 + bb) = 4 * 2 ^ bb := by rw [Nat.add_comm]; exact e2
  simp only [decode, hw, e1, e2, e3, hd, h4]
  congr 1
  omega

/-- An address in the aligned range of block `(t, k)` decodes to tag `t` and set `k`. -/
theorem decode_of_range (ib bb : Nat) (a : Int) (t k : Nat) (hk : k < 2 ^ ib)
    (h1 : (t * 2 ^ ib + k) * 2 ^ (bb + 2) ≤ wrap32 a)
    (h2 : wrap32 a < (t * 2 ^ ib + k) * 2 ^ (bb + 2) + 2 ^ (bb + 2)) :
    (decode ib bb a).tag = t ∧ (decode ib bb a).setIdx = k := by
  have hB := pow_pos2 (bb + 2)
  have hq : wrap32 a / 2 ^ (bb + 2) = t * 2 ^ ib + k := by
    rw [Nat.div_eq_iff hB]; omega
  rw [decode_tag, decode_setIdx, hq]
  constructor
  · rw [Nat.mul_comm, Nat.mul_add_div (pow_pos2 ib), Nat.div_eq_of_lt hk]; rfl
  · rw [Nat.mul_comm, Nat.mul_add_mod, Nat.mod_eq_of_lt hk]

/-- Position inside the block of the byte `base + 4·j + l`. -/
theorem decode_in_block (ib bb : Nat) (a : Int) (t k j l : Nat) (hk : k < 2 ^ ib)
    (hj : j < 2 ^ bb) (hl : l < 4)
    (ha : wrap32 a = (t * 2 ^ ib + k) * 2 ^ (bb + 2) + 4 * j + l) :
    (decode ib bb a).tag = t ∧ (decode ib bb a).setIdx = k ∧ (decode ib bb a).blockOff = j ∧
      (decode ib bb a).byteOff = l := by
  have e2 : 2 ^ (bb + 2) = 4 * 2 ^ bb := pow_blk bb
  obtain ⟨h1, h2⟩ := decode_of_range ib bb a t k hk (by omega) (by omega)
  refine ⟨h1, h2, ?_, ?_⟩
  · rw [decode_blockOff, ha, e2]
    have : ((t * 2 ^ ib + k) * (4 * 2 ^ bb) + 4 * j + l) / 4 = (t * 2 ^ ib + k) * 2 ^ bb + j := by
      have : (t * 2 ^ ib + k) * (4 * 2 ^ bb) = 4 * ((t * 2 ^ ib + k) * 2 ^ bb) :=
        Nat.mul_left_comm _ _ _
      omega
    rw [this, Nat.add_comm, Nat.add_mul_mod_self_right, Nat.mod_eq_of_lt hj]
  · rw [decode_byteOff, ha, e2]
    have : (t * 2 ^ ib + k) * (4 * 2 ^ bb) = 4 * ((t * 2 ^ ib + k) * 2 ^ bb) :=
      Nat.mul_left_comm _ _ _
    omega

end ArchSim.Lemmas.C03
