/-
End-to-end, part 8: loading with an instruction cache. `load` passes the instruction cache through (reset), so a
load into a state with an instruction cache and a load into the same state without one report the same error and
leave the same state except for the cache component of the instruction memory.
-/
import ArchSim.Lemmas.E2EState
import ArchSim.Lemmas.C05Seg

namespace ArchSim.Lemmas.E2E
open ArchSim ArchSim.Rv ArchSim.Asm

/-- `s` with the instruction cache `c` -/
def withICache (s : St) (c : ICache) : St := { s with imem := { s.imem with cache := some c } }

theorem loadSeg_icache (s0 : St) (c' : Option ICache) (data text' : List Entry) :
    (C05.loadSeg { s0 with imem := { s0.imem with cache := c' } } data text').err = (C05.loadSeg s0 data text').err ∧
    (C05.loadSeg { s0 with imem := { s0.imem with cache := c' } } data text').st =
      { (C05.loadSeg s0 data text').st with
        imem := { (C05.loadSeg s0 data text').st.imem with cache := c' } } := by
  unfold C05.loadSeg
  simp only
  generalize writeData data { mem := s0.mem, vars := [], ctr := 16384, err := none } = d
  cases d.err with
  | some e => exact ⟨rfl, rfl⟩
  | none =>
    simp only
    cases expandAll d.vars (text'.map fun x => (x.1, x.2.1, x.2.2.item)) with
    | error e => exact ⟨rfl, rfl⟩
    | ok expanded =>
      simp only
      cases processLabels expanded (text'.filterMap fun x => x.2.2.lbl.map fun l => (x.1, l)) [] 0 with
      | error e => exact ⟨rfl, rfl⟩
      | ok ls =>
        simp only
        cases buildInstrs ls expanded 0 with
        | error e => exact ⟨rfl, rfl⟩
        | ok instrs =>
          simp only
          split <;> exact ⟨rfl, rfl⟩

/-- The load with an instruction cache against the load without. -/
theorem load_withICache (s : St) (c : ICache) (text : String) :
    (load (withICache s c) text).err = (load s text).err ∧
    (load (withICache s c) text).st =
      { (load s text).st with imem := { prog := (load s text).st.imem.prog, cache := some c.reset } } := by
  have hr : C05.loadReset (withICache s c) =
      { C05.loadReset s with imem := { (C05.loadReset s).imem with cache := some c.reset } } := rfl
  rw [C05.load_factors, C05.load_factors, hr]
  cases tokenize (sanitize text) with
  | error e => exact ⟨rfl, rfl⟩
  | ok toks =>
    simp only
    cases segment toks with
    | error e => exact ⟨rfl, rfl⟩
    | ok p =>
      obtain ⟨data, text'⟩ := p
      exact loadSeg_icache (C05.loadReset s) (some c.reset) data text'

/-- The control-refinement hypothesis `Pipe.ProgOK` (`ecall` has `rd = 0`, the stored shift amount of `srai` is not
    negative) holds for EVERY successfully loaded program, supported or not. -/
theorem load_pipeProgOK (s : St) (text : String) (h : (load s text).err = none) :
    Pipe.ProgOK (load s text).st.imem := by
  apply Pipe.ProgOK_of_all
  intro i hi
  rcases (load_objs s text h).1 i hi with hf | rfl | rfl
  · refine ⟨fun he => absurd he hf.2.2.2.2, fun ho => ?_⟩
    have := hf.2.2.2.1
    unfold immRange at this
    rw [ho] at this
    exact this.1
  · exact ⟨fun _ => rfl, fun ho => (by cases ho)⟩
  · exact ⟨fun ho => (by cases ho), fun ho => (by cases ho)⟩

end ArchSim.Lemmas.E2E
