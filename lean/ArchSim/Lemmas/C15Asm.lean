/-
C15 — RISC-V assembler: the shape of every error of every pass.  Each pass reports only the
`(line number, line)` of an entry it was given, with a fixed set of kinds.
-/
import ArchSim.Lemmas.C15Sanitize

namespace ArchSim.Lemmas.C15
open ArchSim ArchSim.PP ArchSim.Asm

/-! ### tokenize -/

theorem tokenize_err {xs : List (Nat × List Char)} {e : AsmErr} (h : tokenize xs = .error e) :
    ∃ k l, (k, l) ∈ xs ∧ e = .parser "ParserSyntaxException" k (String.ofList l) := by
  induction xs with
  | nil => simp [tokenize] at h
  | cons x rest ih =>
    obtain ⟨k, l⟩ := x
    unfold tokenize at h
    split at h
    · cases h; exact ⟨k, l, by simp, rfl⟩
    · split at h
      · cases h
        rename_i e' he
        obtain ⟨k', l', hm, rfl⟩ := ih he
        exact ⟨k', l', by simp [hm], rfl⟩
      · cases h

theorem tokenize_ok {xs : List (Nat × List Char)} {es : List Entry} (h : tokenize xs = .ok es) :
    ∀ x ∈ es, ∃ l, (x.1, l) ∈ xs ∧ x.2.1 = String.ofList l := by
  induction xs generalizing es with
  | nil => simp [tokenize] at h; subst h; simp
  | cons x rest ih =>
    obtain ⟨k, l⟩ := x
    unfold tokenize at h
    split at h
    · cases h
    · split at h
      · cases h
      · cases h
        rename_i es' he
        intro x hx
        rcases List.mem_cons.1 hx with rfl | hx
        · exact ⟨l, by simp, rfl⟩
        · obtain ⟨l', hm, h2⟩ := ih he x hx
          exact ⟨l', by simp [hm], h2⟩

/-! ### segment -/

def segInit (first : Entry) (rest : List Entry) : Seg :=
  if isDir "data" first then { data := rest, text := [], dataExists := true, textExists := false }
  else if isDir "text" first then { data := [], text := rest, dataExists := false, textExists := true }
  else { data := [], text := first :: rest, dataExists := false, textExists := true }

def segStep (acc : Except AsmErr Seg) (e : Entry) : Except AsmErr Seg :=
  match acc with
  | .error x => .error x
  | .ok s =>
    if isDir "data" e then
      if !s.dataExists then
        let idx := idxOfLine e.1 s.text
        .ok { s with dataExists := true, data := s.text.drop (idx + 1), text := s.text.take idx }
      else .error (.parser "ParserDirectiveException" e.1 e.2.1)
    else if isDir "text" e then
      if !s.textExists then
        let idx := idxOfLine e.1 s.data
        .ok { s with textExists := true, text := s.data.drop (idx + 1), data := s.data.take idx }
      else .error (.parser "ParserDirectiveException" e.1 e.2.1)
    else .ok s

theorem segment_cons (first : Entry) (rest : List Entry) :
    segment (first :: rest) =
      match rest.foldl segStep (.ok (segInit first rest)) with
      | .error x => .error x
      | .ok s => .ok (s.data, s.text) := rfl

/-- Invariant of the `_segment` loop over the entries `toks`. -/
def SegInv (toks : List Entry) : Except AsmErr Seg → Prop
  | .error e => ∃ x ∈ toks, e = .parser "ParserDirectiveException" x.1 x.2.1
  | .ok s => (∀ x ∈ s.data, x ∈ toks) ∧ (∀ x ∈ s.text, x ∈ toks)

theorem foldl_inv {α β : Type} (f : β → α → β) (I : β → Prop) (l : List α) (b : β) (hb : I b)
    (hf : ∀ b a, a ∈ l → I b → I (f b a)) : I (l.foldl f b) := by
  induction l generalizing b with
  | nil => exact hb
  | cons a l ih =>
    exact ih (f b a) (hf b a (by simp) hb) (fun b' a' ha' => hf b' a' (by simp [ha']))

theorem segStep_inv (toks : List Entry) (acc : Except AsmErr Seg) (e : Entry) (he : e ∈ toks)
    (h : SegInv toks acc) : SegInv toks (segStep acc e) := by
  unfold segStep
  split
  · exact h
  · rename_i s
    obtain ⟨hd, ht⟩ := h
    split
    · split
      · exact ⟨fun x hx => ht x (List.mem_of_mem_drop hx), fun x hx => ht x (List.mem_of_mem_take hx)⟩
      · exact ⟨e, he, rfl⟩
    · split
      · split
        · exact ⟨fun x hx => hd x (List.mem_of_mem_take hx), fun x hx => hd x (List.mem_of_mem_drop hx)⟩
        · exact ⟨e, he, rfl⟩
      · exact ⟨hd, ht⟩

theorem segment_inv (toks : List Entry) :
    match segment toks with
    | .error e => ∃ x ∈ toks, e = .parser "ParserDirectiveException" x.1 x.2.1
    | .ok (d, t) => (∀ x ∈ d, x ∈ toks) ∧ (∀ x ∈ t, x ∈ toks) := by
  cases toks with
  | nil => simp [segment]
  | cons first rest =>
    rw [segment_cons]
    have h0 : SegInv (first :: rest) (.ok (segInit first rest)) := by
      unfold segInit
      split
      · exact ⟨fun x hx => by simp [hx], fun x hx => by simp at hx⟩
      · split
        · exact ⟨fun x hx => by simp at hx, fun x hx => by simp [hx]⟩
        · exact ⟨fun x hx => by simp at hx, fun x hx => hx⟩
    have := foldl_inv segStep (SegInv (first :: rest)) rest _ h0
      (fun b a ha hb => segStep_inv _ b a (by simp [ha]) hb)
    revert this
    cases rest.foldl segStep (.ok (segInit first rest)) with
    | error e => exact id
    | ok s => exact id

theorem segment_err {toks : List Entry} {e : AsmErr} (h : segment toks = .error e) :
    ∃ x ∈ toks, e = .parser "ParserDirectiveException" x.1 x.2.1 := by
  have := segment_inv toks
  rw [h] at this
  exact this

theorem segment_ok {toks d t : List Entry} (h : segment toks = .ok (d, t)) :
    (∀ x ∈ d, x ∈ toks) ∧ (∀ x ∈ t, x ∈ toks) := by
  have := segment_inv toks
  rw [h] at this
  exact this

theorem writeSeq_err {bits : Nat} {vs : List Int} {m : Rv.MemSys} {a : Int} {m' a' e}
    (h : writeSeq bits vs m a = (m', a', some e)) : ∃ x, e = .memAddr x := by
  induction vs generalizing m a with
  | nil => simp [writeSeq] at h
  | cons v vs ih =>
    unfold writeSeq at h
    simp only at h
    split at h
    · cases h; exact ⟨_, rfl⟩
    · cases h; exact ⟨_, rfl⟩
    · exact ih h

theorem writeData_err {data : List Entry} {o : DataOut} {e : AsmErr}
    (h : (writeData data o).err = some e) :
    o.err = some e ∨
    (∃ x ∈ data, e = .parser "ParserDataSyntaxException" x.1 x.2.1 ∨
                 e = .parser "ParserDataDuplicateException" x.1 x.2.1) ∨
    (∃ a, e = .memAddr a) := by
  induction data generalizing o with
  | nil => left; exact h
  | cons x rest ih =>
    obtain ⟨k, line, t⟩ := x
    unfold writeData at h
    simp only at h
    have lift : ∀ {o' : DataOut}, o'.err = o.err → (writeData rest o').err = some e →
        o.err = some e ∨
        (∃ x ∈ (k, line, t) :: rest, e = .parser "ParserDataSyntaxException" x.1 x.2.1 ∨
                 e = .parser "ParserDataDuplicateException" x.1 x.2.1) ∨
        (∃ a, e = .memAddr a) := by
      intro o' ho' h'
      rcases ih h' with h1 | ⟨x, hx, h2⟩ | h3
      · left; rw [← ho']; exact h1
      · right; left; exact ⟨x, by simp [hx], h2⟩
      · right; right; exact h3
    have syn : some (AsmErr.parser "ParserDataSyntaxException" k line) = some e →
        o.err = some e ∨
        (∃ x ∈ (k, line, t) :: rest, e = .parser "ParserDataSyntaxException" x.1 x.2.1 ∨
                 e = .parser "ParserDataDuplicateException" x.1 x.2.1) ∨
        (∃ a, e = .memAddr a) := by
      intro h'; cases h'; right; left; exact ⟨(k, line, t), by simp, Or.inl rfl⟩
    have dup : some (AsmErr.parser "ParserDataDuplicateException" k line) = some e →
        o.err = some e ∨
        (∃ x ∈ (k, line, t) :: rest, e = .parser "ParserDataSyntaxException" x.1 x.2.1 ∨
                 e = .parser "ParserDataDuplicateException" x.1 x.2.1) ∨
        (∃ a, e = .memAddr a) := by
      intro h'; cases h'; right; left; exact ⟨(k, line, t), by simp, Or.inr rfl⟩
    split at h
    · exact syn h
    · split at h
      · split at h
        · exact dup h
        · split at h
          · rename_i hw
            cases h
            right; right; exact writeSeq_err hw
          · exact lift (by rfl) h
      · split at h
        · exact dup h
        · split at h
          · rename_i hw
            cases h
            right; right; exact writeSeq_err hw
          · exact lift (by rfl) h
      · split at h
        · exact dup h
        · exact lift (by rfl) h
      · exact syn h

/-! ### pseudo-instruction expansion -/

theorem expandOne_err {vars : Vars} {e : TEntry} {x : AsmErr} (h : expandOne vars e = .error x) :
    x = .parser "ParserVariableException" e.1 e.2.1 := by
  obtain ⟨k, line, it⟩ := e
  unfold expandOne at h
  simp only at h
  repeat' split at h
  all_goals first | (cases h; done) | (cases h; rfl) | (cases h; rename_i h'; split at h' <;> cases h'; rfl)

theorem expandOne_ok {vars : Vars} {e : TEntry} {es : List TEntry} (h : expandOne vars e = .ok es) :
    ∀ y ∈ es, y.1 = e.1 ∧ y.2.1 = e.2.1 := by
  obtain ⟨k, line, it⟩ := e
  unfold expandOne at h
  simp only at h
  repeat' split at h
  all_goals first | (cases h; done) | (cases h; simp)

theorem expandOne_spec (vars : Vars) (e : TEntry) :
    match expandOne vars e with
    | .error x => x = .parser "ParserVariableException" e.1 e.2.1
    | .ok es => ∀ y ∈ es, y.1 = e.1 ∧ y.2.1 = e.2.1 := by
  split
  · exact expandOne_err ‹_›
  · exact expandOne_ok ‹_›

theorem expandAll_err {vars : Vars} {tes : List TEntry} {e : AsmErr} (h : expandAll vars tes = .error e) :
    ∃ x ∈ tes, e = .parser "ParserVariableException" x.1 x.2.1 := by
  induction tes with
  | nil => simp [expandAll] at h
  | cons x rest ih =>
    unfold expandAll at h
    have hs := expandOne_spec vars x
    split at h
    · rename_i x' hx'
      rw [hx'] at hs
      cases h
      exact ⟨x, by simp, hs⟩
    · split at h
      · rename_i x' hx'
        cases h
        obtain ⟨y, hy, h2⟩ := ih hx'
        exact ⟨y, by simp [hy], h2⟩
      · cases h

theorem expandAll_ok {vars : Vars} {tes ex : List TEntry} (h : expandAll vars tes = .ok ex) :
    ∀ y ∈ ex, ∃ x ∈ tes, y.1 = x.1 ∧ y.2.1 = x.2.1 := by
  induction tes generalizing ex with
  | nil => simp [expandAll] at h; subst h; simp
  | cons x rest ih =>
    unfold expandAll at h
    have hs := expandOne_spec vars x
    split at h
    · cases h
    · rename_i es hes
      rw [hes] at hs
      split at h
      · cases h
      · rename_i more hmore
        cases h
        intro y hy
        rcases List.mem_append.1 hy with hy | hy
        · exact ⟨x, by simp, hs y hy⟩
        · obtain ⟨x', hx', h2⟩ := ih hmore y hy
          exact ⟨x', by simp [hx'], h2⟩

/-! ### labels -/

theorem addLabel_err {ls : Labels} {n : String} {v : Int} {k : Nat} {line : String} {e : AsmErr}
    (h : addLabel ls n v k line = .error e) : e = .parser "DuplicateLabelException" k line := by
  unfold addLabel at h
  split at h
  · cases h; rfl
  · cases h

theorem processLabels_err {tes : List TEntry} {pending : List (Nat × String)} {ls : Labels} {addr : Int}
    {e : AsmErr} (h : processLabels tes pending ls addr = .error e) :
    ∃ x ∈ tes, e = .parser "DuplicateLabelException" x.1 x.2.1 := by
  induction tes generalizing pending ls addr with
  | nil => simp [processLabels] at h
  | cons x rest ih =>
    obtain ⟨k, line, it⟩ := x
    have here : ∀ {n v}, addLabel ls n v k line = .error e →
        ∃ x ∈ (k, line, it) :: rest, e = .parser "DuplicateLabelException" x.1 x.2.1 :=
      fun h' => ⟨(k, line, it), by simp, addLabel_err h'⟩
    have there : ∀ {p l a}, processLabels rest p l a = .error e →
        ∃ x ∈ (k, line, it) :: rest, e = .parser "DuplicateLabelException" x.1 x.2.1 := by
      intro p l a h'
      obtain ⟨y, hy, h2⟩ := ih h'
      exact ⟨y, by simp [hy], h2⟩
    unfold processLabels at h
    split at h
    · split at h
      · split at h
        · rename_i e' he'; cases h; exact here he'
        · exact there h
      · split at h
        · split at h
          · rename_i e' he'; cases h; exact here he'
          · exact there h
        · exact there h
    · simp only at h
      split at h
      · split at h
        · rename_i e' he'; cases h; exact here he'
        · exact there h
      · exact there h

/-! ### instruction objects -/

def buildKinds : List String :=
  ["ParserSyntaxException", "ParserOddImmediateException", "ParserLabelException"]

/-- `labelDisp` fails for an unbound label (`ParserLabelException`) or an odd displacement
    (`ParserOddImmediateException`), in both cases with the entry's own line number and text. -/
theorem labelDisp_err {ls : Labels} {l : String} {off addr : Int} {k : Nat} {line : String} {e : AsmErr}
    (h : labelDisp ls l off addr k line = .error e) :
    e = .parser "ParserLabelException" k line ∨ e = .parser "ParserOddImmediateException" k line := by
  unfold labelDisp at h
  split at h
  · split at h
    · cases h; exact Or.inr rfl
    · cases h
  · cases h; exact Or.inl rfl

theorem instantiate_err {ls : Labels} {addr : Int} {k : Nat} {line : String} {pi : PInstr} {e : AsmErr}
    (h : instantiate ls addr k line pi = .error e) :
    ∃ kind ∈ buildKinds, e = .parser kind k line := by
  have syn : ∀ {e}, (Except.error (.parser "ParserSyntaxException" k line) : Except AsmErr Rv.Instr) = .error e →
      ∃ kind ∈ buildKinds, e = .parser kind k line := by
    intro e h'; cases h'; exact ⟨_, by simp [buildKinds], rfl⟩
  have odd : ∀ {e}, (Except.error (.parser "ParserOddImmediateException" k line) : Except AsmErr Rv.Instr) = .error e →
      ∃ kind ∈ buildKinds, e = .parser kind k line := by
    intro e h'; cases h'; exact ⟨_, by simp [buildKinds], rfl⟩
  have lab : ∀ {l off e}, labelDisp ls l off addr k line = .error e →
      ∃ kind ∈ buildKinds, e = .parser kind k line := by
    intro l off e h'
    rcases labelDisp_err h' with rfl | rfl <;> exact ⟨_, by simp [buildKinds], rfl⟩
  unfold instantiate at h
  simp only at h
  repeat' split at h
  all_goals first | (cases h; done) | exact syn h | exact odd h | (cases h; exact lab ‹_›)

theorem map_err {α β : Type} {f : α → β} {x : Except AsmErr α} {e : AsmErr}
    (h : x.map f = .error e) : x = .error e := by
  cases x with
  | error e' => simpa [Except.map] using h
  | ok a => simp [Except.map] at h

theorem buildInstrs_err {ls : Labels} {tes : List TEntry} {addr : Int} {e : AsmErr}
    (h : buildInstrs ls tes addr = .error e) :
    ∃ x ∈ tes, ∃ kind ∈ buildKinds, e = .parser kind x.1 x.2.1 := by
  induction tes generalizing addr with
  | nil => simp [buildInstrs] at h
  | cons x rest ih =>
    obtain ⟨k, line, it⟩ := x
    have there : ∀ {a}, buildInstrs ls rest a = .error e →
        ∃ x ∈ (k, line, it) :: rest, ∃ kind ∈ buildKinds, e = .parser kind x.1 x.2.1 := by
      intro a h'
      obtain ⟨y, hy, h2⟩ := ih h'
      exact ⟨y, by simp [hy], h2⟩
    unfold buildInstrs at h
    split at h
    · split at h
      · exact there (map_err h)
      · split at h
        · exact there (map_err h)
        · exact there h
    · split at h
      · rename_i e' he'
        cases h
        exact ⟨_, List.mem_cons_self, instantiate_err he'⟩
      · exact there (map_err h)
    · cases h
      exact ⟨(k, line, it), by simp, _, by simp [buildKinds], rfl⟩

/-- Which pass produced the error of `Asm.load`. -/
theorem load_err_cases (s : Rv.St) (text : String) {e : AsmErr} (h : (Asm.load s text).err = some e) :
    tokenize (sanitize text) = .error e ∨
    ∃ toks, tokenize (sanitize text) = .ok toks ∧
      (segment toks = .error e ∨
       ∃ data text', segment toks = .ok (data, text') ∧
         ∃ d, d = writeData data { mem := s.mem.reset, vars := [], ctr := 16384, err := none } ∧
         (d.err = some e ∨
          (d.err = none ∧
           ∃ tes, tes = text'.map (fun (x : Entry) => ((x.1, x.2.1, x.2.2.item) : TEntry)) ∧
           (expandAll d.vars tes = .error e ∨
            ∃ expanded, expandAll d.vars tes = .ok expanded ∧
              ((∃ pending, processLabels expanded pending [] 0 = .error e) ∨
               ∃ pending ls, processLabels expanded pending [] 0 = .ok ls ∧
                 (buildInstrs ls expanded 0 = .error e ∨
                  ∃ instrs, buildInstrs ls expanded 0 = .ok instrs ∧ instrs.length > 4096 ∧
                    e = .memAddr 16384)))))) := by
  unfold Asm.load at h
  simp only at h
  split at h
  · rename_i e' he'; cases h; exact .inl he'
  · rename_i toks htoks
    refine .inr ⟨toks, htoks, ?_⟩
    split at h
    · rename_i e' he'; cases h; exact .inl he'
    · rename_i data text' hseg
      refine .inr ⟨data, text', hseg, _, rfl, ?_⟩
      split at h
      · rename_i e' he'; cases h; exact .inl he'
      · rename_i hnone
        refine .inr ⟨hnone, _, rfl, ?_⟩
        split at h
        · rename_i e' he'; cases h; exact .inl he'
        · rename_i expanded hexp
          refine .inr ⟨expanded, hexp, ?_⟩
          split at h
          · rename_i e' he'; cases h; exact .inl ⟨_, he'⟩
          · rename_i ls hls
            refine .inr ⟨_, ls, hls, ?_⟩
            split at h
            · rename_i e' he'; cases h; exact .inl he'
            · rename_i instrs hins
              split at h
              · rename_i hlen; cases h; exact .inr ⟨instrs, hins, hlen, rfl⟩
              · cases h

/-- `(k, line)` is one of the sanitized lines of `text`. -/
def Src (text : String) (k : Nat) (line : String) : Prop :=
  ∃ l, (k, l) ∈ sanitize text ∧ line = String.ofList l

/-- All the parser-error kinds the RISC-V model can produce. -/
def riscvKinds : List String :=
  ["ParserSyntaxException", "ParserDirectiveException", "ParserDataSyntaxException",
   "ParserDataDuplicateException", "ParserVariableException", "DuplicateLabelException",
   "ParserLabelException", "ParserOddImmediateException"]

/-- The shape of every outcome of `Asm.load`. -/
theorem load_err_shape (s : Rv.St) (text : String) {e : AsmErr} (h : (Asm.load s text).err = some e) :
    (∃ k line kind, Src text k line ∧ kind ∈ riscvKinds ∧ e = .parser kind k line) ∨
    (∃ a, e = .memAddr a) := by
  rcases load_err_cases s text h with h | ⟨toks, htoks, h⟩
  · obtain ⟨k, l, hm, rfl⟩ := tokenize_err h
    exact .inl ⟨k, _, _, ⟨l, hm, rfl⟩, by simp [riscvKinds], rfl⟩
  have hsrc : ∀ x ∈ toks, Src text x.1 x.2.1 := fun x hx => tokenize_ok htoks x hx
  rcases h with h | ⟨data, text', hseg, d, hd, h⟩
  · obtain ⟨x, hx, rfl⟩ := segment_err h
    exact .inl ⟨_, _, _, hsrc x hx, by simp [riscvKinds], rfl⟩
  obtain ⟨hdata, htext⟩ := segment_ok hseg
  rcases h with h | ⟨-, tes, htes, h⟩
  · rw [hd] at h
    rcases writeData_err h with h | ⟨x, hx, h | h⟩ | h
    · cases h
    · exact .inl ⟨_, _, _, hsrc x (hdata x hx), by simp [riscvKinds], h⟩
    · exact .inl ⟨_, _, _, hsrc x (hdata x hx), by simp [riscvKinds], h⟩
    · exact .inr h
  have hs1 : ∀ y ∈ tes, Src text y.1 y.2.1 := by
    intro y hy
    rw [htes] at hy
    obtain ⟨x, hx, rfl⟩ := List.mem_map.1 hy
    exact hsrc x (htext x hx)
  rcases h with h | ⟨expanded, hexp, h⟩
  · obtain ⟨x, hx, rfl⟩ := expandAll_err h
    exact .inl ⟨_, _, _, hs1 x hx, by simp [riscvKinds], rfl⟩
  have hs2 : ∀ y ∈ expanded, Src text y.1 y.2.1 := by
    intro y hy
    obtain ⟨x, hx, h1, h2⟩ := expandAll_ok hexp y hy
    rw [h1, h2]; exact hs1 x hx
  rcases h with ⟨pending, h⟩ | ⟨pending, ls, -, h⟩
  · obtain ⟨x, hx, rfl⟩ := processLabels_err h
    exact .inl ⟨_, _, _, hs2 x hx, by simp [riscvKinds], rfl⟩
  rcases h with h | ⟨instrs, -, -, rfl⟩
  · obtain ⟨x, hx, kind, hk, rfl⟩ := buildInstrs_err h
    refine .inl ⟨_, _, kind, hs2 x hx, ?_, rfl⟩
    simp only [buildKinds, List.mem_cons, List.not_mem_nil, or_false] at hk
    rcases hk with rfl | rfl | rfl <;> simp [riscvKinds]
  · exact .inr ⟨_, rfl⟩

theorem Src.lineOf {text : String} {k : Nat} {line : String} (h : Src text k line) : LineOf text k line := by
  obtain ⟨l, hm, rfl⟩ := h
  exact sanitize_mem hm

end ArchSim.Lemmas.C15
