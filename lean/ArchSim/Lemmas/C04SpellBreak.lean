/-
C04 (spelling independence), part 25: a spelled line contains no line break.
-/
import ArchSim.Lemmas.C04SpellEnds

namespace ArchSim.Lemmas.C04Spell
open ArchSim ArchSim.PP ArchSim.Rv ArchSim.Asm ArchSim.Lemmas.C14

/-- the characters a spelled line is made of -/
def RChar (c : Char) : Prop :=
  isLabelBody c = true ∨ c = ' ' ∨ c = '\t' ∨ c = ',' ∨ c = '(' ∨ c = ')' ∨ c = '-'

def AllR (l : List Char) : Prop := ∀ c ∈ l, RChar c

theorem allR_nil : AllR [] := by intro c hc; cases hc

theorem allR_append {a b : List Char} (ha : AllR a) (hb : AllR b) : AllR (a ++ b) := by
  intro c hc
  rcases List.mem_append.mp hc with h | h
  · exact ha c h
  · exact hb c h

theorem allR_blanks (b : List Bool) : AllR (blanks b) := by
  intro c hc
  simp only [blanks, List.mem_map] at hc
  obtain ⟨t, _, rfl⟩ := hc
  cases t
  · exact Or.inr (Or.inl rfl)
  · exact Or.inr (Or.inr (Or.inl rfl))

theorem allR_gapOf (sp : Spelling) : AllR (gapOf sp) := by
  intro c hc
  rcases List.mem_cons.mp hc with rfl | hc
  · cases sp.gapTab
    · exact Or.inr (Or.inl rfl)
    · exact Or.inr (Or.inr (Or.inl rfl))
  · exact allR_blanks _ c hc

theorem allR_tReg (w : List Char) (st : RegStyle) (n : Nat) (r : List Char) (hn : n < 32) (hw : AllR w)
    (hr : AllR r) : AllR (tReg w st n r) :=
  allR_append hw (allR_append (fun c hc => Or.inl (regSp_labelBody st n hn c hc)) hr)

theorem allR_tNum (w : List Char) (st : NumStyle) (v : Int) (r : List Char) (hw : AllR w) (hr : AllR r) :
    AllR (tNum w st v r) :=
  allR_append hw (allR_append (fun c hc => by
    rcases numSp_chars st v c hc with rfl | h
    · exact Or.inr (Or.inr (Or.inr (Or.inr (Or.inr (Or.inr rfl)))))
    · exact Or.inl h) hr)

theorem allR_tSep (w : List Char) (c : Char) (r : List Char) (hw : AllR w) (hc : RChar c) (hr : AllR r) :
    AllR (tSep w c r) :=
  allR_append hw (fun d hd => by
    rcases List.mem_cons.mp hd with rfl | h
    · exact hc
    · exact hr d h)

theorem operands_allR (sp : Spelling) (i : Instr) (hs : Spellable i) (tr : List Char) (htr : AllR tr) :
    AllR (operands sp i tr) := by
  obtain ⟨hrd, hrs1, hrs2, -, -, hf⟩ := hs
  have hg := allR_gapOf sp
  have b1 := allR_blanks sp.c1a
  have b2 := allR_blanks sp.c1b
  have b3 := allR_blanks sp.c2a
  have b4 := allR_blanks sp.c2b
  have p1 := allR_blanks sp.pa
  have p2 := allR_blanks sp.pb
  have p3 := allR_blanks sp.pc
  have hc : RChar ',' := Or.inr (Or.inr (Or.inr (Or.inl rfl)))
  have hl : RChar '(' := Or.inr (Or.inr (Or.inr (Or.inr (Or.inl rfl))))
  have hr : RChar ')' := Or.inr (Or.inr (Or.inr (Or.inr (Or.inr (Or.inl rfl)))))
  cases hcl : cls i.op <;> simp only [operands, hcl]
  case fence => exact absurd (cls_fence_eq _ hcl) hf
  all_goals
    repeat' first
      | assumption
      | apply allR_tReg _ _ _ _ (by assumption) (by assumption)
      | apply allR_tNum _ _ _ _ (by assumption)
      | apply allR_tSep _ _ _ (by assumption) (by assumption)

theorem render_allR (sp : Spelling) (i : Instr) (hs : Spellable i) : AllR (render sp i) := by
  refine allR_append (allR_blanks _) (allR_append ?_ (operands_allR sp i hs _ (allR_blanks _)))
  intro c hc
  exact Or.inl (letter_facts c (recase_mn_chars sp.mnCase i.op c hc)).2.2.2.2.2.2.2

theorem labelBody_noBreak_table : ∀ n < 128, isLabelBody (Char.ofNat n) = true →
    isLineBreak (Char.ofNat n) = false := by decide

theorem rchar_noBreak (c : Char) (h : RChar c) : isLineBreak c = false := by
  rcases h with h | rfl | rfl | rfl | rfl | rfl | rfl
  · exact ascii_cases (fun c => isLabelBody c = true → isLineBreak c = false) c (labelBody_ascii c h)
      labelBody_noBreak_table h
  all_goals decide

/-- A spelled line contains no line break. -/
theorem render_noBreak (sp : Spelling) (i : Instr) (hs : Spellable i) : NoBreak (render sp i) :=
  fun c hc => rchar_noBreak c (render_allR sp i hs c hc)

end ArchSim.Lemmas.C04Spell
