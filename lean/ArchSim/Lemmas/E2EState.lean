/-
End-to-end, part 3: the state after `Asm.load`. On a flat RISC-V data memory the data memory after a load
is the memory of a write history (`ByteStore.run riscvCfg h`: the `.data` preload), so the loaded state
satisfies C01's `StOK` and C02's `SOK` whenever the state before did.
-/
import ArchSim.Lemmas.E2ELoad
import ArchSim.Lemmas.C13Load
import ArchSim.Lemmas.C18Read

namespace ArchSim.Lemmas.E2E
open ArchSim ArchSim.Rv ArchSim.Asm ArchSim.Mem ArchSim.Spec.ByteStore ArchSim.Lemmas.C18

/-- one direct write on a flat memory is `applyOp` -/
theorem flat_write_direct (m : Mem) (bits : Nat) (a : Int) (v : Nat) (d : Bool) :
    ((MemSys.flat m).write bits a v d).mem = .flat (applyOp m (.write bits a v)) := by
  simp only [MemSys.write, applyOp]
  cases Mem.write m bits a v with
  | none => rfl
  | some r =>
    obtain ⟨m', e⟩ := r
    cases e <;> rfl

/-- A memory system reached from the empty flat RISC-V memory by direct writes is the flat memory of a
    write history. -/
theorem flat_of_reach {ms0 ms : MemSys} (hr : DirectReach ms0 ms) (h0 : ms0 = .flat (Mem.empty riscvCfg)) :
    ∃ h : List Spec.ByteStore.Op, ms = .flat (run riscvCfg h) := by
  induction hr with
  | refl => exact ⟨[], h0⟩
  | step bits a v _ ih =>
    obtain ⟨h, hm⟩ := ih
    refine ⟨h ++ [.write bits a v], ?_⟩
    rw [hm, flat_write_direct, run_append]

/-- Loading into a state with a flat RISC-V data memory: the data memory afterwards is the flat memory
    of a write history (the `.data` preload). -/
theorem load_mem_flat (s : St) (text : String) (m : Mem) (hm : s.mem = .flat m) (hc : m.cfg = riscvCfg) :
    ∃ h : List Spec.ByteStore.Op, (load s text).st.mem = .flat (run riscvCfg h) := by
  have hr := (load_frame s text).2.2.2.2.2.2.2.2.2.2.2
  exact flat_of_reach hr (by rw [hm]; simp only [MemSys.reset, Mem.reset, hc])

theorem run_cfg (c : Cfg) (h : List Spec.ByteStore.Op) : (run c h).cfg = c := by
  rw [run_eq, applyCells_cfg]; rfl

/-- C01's state invariant survives a load (registers and pc are untouched, the data memory becomes the
    `.data` preload of the empty memory). -/
theorem load_stOK (s : St) (text : String) (hs : ArchSim.Lemmas.C01.StOK s) :
    ArchSim.Lemmas.C01.StOK (load s text).st := by
  obtain ⟨m, hm, hc, _⟩ := hs.flat
  obtain ⟨h, hh⟩ := load_mem_flat s text m hm hc
  obtain ⟨hregs, hpc, _⟩ := load_frame s text
  refine ⟨⟨_, hh, run_cfg _ _, WF_run _ _⟩, ?_, ?_, ?_, ?_⟩
  · intro r; rw [hregs]; exact hs.regs_lt r
  · rw [hregs]; exact hs.x0
  · rw [hpc]; exact hs.pc_lo
  · rw [hpc]; exact hs.pc_hi

/-- Without instruction cache before the load there is none after it. -/
theorem load_imem (s : St) (text : String) (hc : s.imem.cache = none) :
    (load s text).st.imem = { prog := (load s text).st.imem.prog, cache := none } := by
  have h := (load_frame s text).2.2.2.2.2.2.2.2.2.2.1
  simp only [hc, Option.map_none] at h
  cases hi : (load s text).st.imem with
  | mk prog cache => rw [hi] at h; simp only at h; subst h; rfl

/-- C02's state hypothesis for the loaded program holds after the load. -/
theorem load_sok (s : St) (text : String) (hs : ArchSim.Lemmas.C01.StOK s) (hc : s.imem.cache = none) :
    Pipe.SOK (load s text).st.imem.prog (load s text).st :=
  ⟨load_imem s text hc, load_stOK s text hs⟩

theorem load_exitCode (s : St) (text : String) : (load s text).st.exitCode = s.exitCode :=
  (load_frame s text).2.2.2.1

/-- The power-on state satisfies the state invariant. -/
theorem freshSt_ok : ArchSim.Lemmas.C01.StOK freshSt :=
  ⟨⟨_, rfl, rfl, WF_empty _⟩, fun _ => by show (0 : Nat) < 4294967296; decide, rfl, by decide, by decide⟩

end ArchSim.Lemmas.E2E
