/-
C02 (control half), part 14: `abs_step`, the commutation of the abstraction with one cycle.
-/
import ArchSim.Lemmas.C02Seq

namespace ArchSim.Pipe
open ArchSim ArchSim.Rv

/-- This cycle performs a correct-path fetch: not stalled, nothing in flight redirects / exits /
    faults, and an instruction exists at the physical pc. -/
def fetchOK (p : PSt) : Bool :=
  p.stalled.isNone && (absC p).red.isNone && (p.st.imem.instrAt p.st.pc).isSome

theorem SimP.of_csim {pre : List Int} {c d : Comp} (h : CSimL pre c d) (x y : Int) (hxy : x = y) :
    SimP { c.st with pc := c.pcOr x } { d.st with pc := d.pcOr y } := by
  refine ⟨h.2.withPc _ _, ?_⟩
  show c.pcOr x = d.pcOr y
  unfold Comp.pcOr
  rw [h.1, hxy]

theorem finish_noflush_pc (p : PSt) (h4 : latchFlush (wbOut p).2 = none)
    (h3 : latchFlush (memOut p).latch = none) (h2 : latchFlush (exOut p).latch = none) :
    (finishStep p (memOut p).st (ifOut p).2 (idOut p) (exOut p).latch (memOut p).latch (wbOut p).2).st.pc =
      (ifOut p).1.pc := by
  rw [finishStep_noflush _ _ _ _ _ _ _ h4 h3 h2]
  simp [stallBump_pc, memOut_pc]

end ArchSim.Pipe

namespace ArchSim.Pipe
open ArchSim ArchSim.Rv

/-- Cycle without flush, at the level of `abs`. -/
theorem abs_step_noflush (p : PSt) (hI : PInv p) (hz : RawFree p) (hex : (exOut p).fault = none)
    (hme : (memOut p).fault = none) (h4 : latchFlush (wbOut p).2 = none)
    (h3 : latchFlush (memOut p).latch = none) (h2 : latchFlush (exOut p).latch = none) :
    SimP (abs (finishStep p (memOut p).st (ifOut p).2 (idOut p) (exOut p).latch (memOut p).latch (wbOut p).2))
      (if fetchOK p then seqStep (abs p) else abs p) ∧
    absF (finishStep p (memOut p).st (ifOut p).2 (idOut p) (exOut p).latch (memOut p).latch (wbOut p).2) =
      (if fetchOK p then seqFault (abs p) else absF p) ∧
    latchLog p.l3 ++
      absLog (finishStep p (memOut p).st (ifOut p).2 (idOut p) (exOut p).latch (memOut p).latch (wbOut p).2) =
      absLog p ++ (if fetchOK p then seqLog (abs p) else []) := by
  have hc := abs_noflush p hI hz hex hme h4 h3 h2
  have hpc := finish_noflush_pc p h4 h3 h2
  generalize finishStep p (memOut p).st (ifOut p).2 (idOut p) (exOut p).latch (memOut p).latch (wbOut p).2 = o
    at hc hpc
  rcases Option.eq_none_or_eq_some p.stalled with hs | ⟨st, hs⟩
  · rw [target_unstalled p hs] at hc
    cases hi : p.st.imem.instrAt p.st.pc with
    | none =>
      have hfo : fetchOK p = false := by simp [fetchOK, hi]
      rw [hfo, ifOut_noinstr p hs hi] at *
      simp only [cID_none, bind_pure_right] at hc
      exact ⟨SimP.of_csim hc _ _ hpc, flt_congr hc.1, by simpa [absLog] using hc.3⟩
    | some i =>
      rw [ifOut_instr p hs i hi hI.icoh.fetchSound] at hc hpc
      cases hr : (absC p).red with
      | some a =>
        have hfo : fetchOK p = false := by simp [fetchOK, hr]
        rw [hfo, bind_of_red_some hr] at *
        refine ⟨⟨hc.2.withPc _ _, ?_⟩, flt_congr hc.1, by simpa [absLog] using hc.3⟩
        show (absC o).pcOr _ = (absC p).pcOr _
        rw [pcOr_of_red (hc.1.trans hr), pcOr_of_red hr]
      | none =>
        have hfo : fetchOK p = true := by simp [fetchOK, hr, hi, hs]
        rw [hfo, bind_of_red_none hr]  at *
        simp only [if_true]
        -- one sequential step from `abs p`
        have hpcA : (abs p).pc = p.st.pc := by unfold abs; exact pcOr_of_none hr _
        have hiA : (abs p).imem.instrAt (abs p).pc = some i := by rw [abs_imem, hpcA]; exact hi
        have hsA : FetchSound (abs p).imem := by rw [abs_imem]; exact hI.icoh.fetchSound
        obtain ⟨q1, q2, q3⟩ := seqStep_cID (abs p) i hiA hsA
        have q4 := seqStep_log (abs p) i hiA hsA
        have hfl : fetchLatch (abs p) i = { instr := i, addr := p.st.pc, pc4 := p.st.pc + 4 } := by
          unfold fetchLatch; rw [hpcA]
        rw [hfl] at q1 q2 q3 q4
        have hcc : CSim (cID (abs p) (some { instr := i, addr := p.st.pc, pc4 := p.st.pc + 4 }))
            (cID (absC p).st (some { instr := i, addr := p.st.pc, pc4 := p.st.pc + 4 })) :=
          cID_sim (sim_setPc _ _) _
        have h1 : (absC o).red = (cID (abs p) (some { instr := i, addr := p.st.pc, pc4 := p.st.pc + 4 })).red :=
          hc.1.trans hcc.1.symm
        have h2' : Sim (absC o).st (cID (abs p) (some { instr := i, addr := p.st.pc, pc4 := p.st.pc + 4 })).st :=
          hc.2.trans hcc.2.symm
        refine ⟨⟨(sim_setPc _ _).trans (h2'.trans q1.symm), ?_⟩, ?_, ?_⟩
        · rw [q2, hpcA]
          show (absC o).pcOr o.st.pc = _
          unfold Comp.pcOr
          rw [h1, hpc]
        · rw [q3]; exact flt_congr h1
        · rw [← q4]
          have := hc.3
          have hl : (cID (abs p) (some { instr := i, addr := p.st.pc, pc4 := p.st.pc + 4 })).log =
              (cID (absC p).st (some { instr := i, addr := p.st.pc, pc4 := p.st.pc + 4 })).log := hcc.3
          rw [hl]
          exact this
  · have hfo : fetchOK p = false := by simp [fetchOK, hs]
    rw [hfo, target_stalled p st hs] at *
    rw [ifOut_stalled p st hs] at hpc
    exact ⟨SimP.of_csim hc _ _ hpc, flt_congr hc.1, by simpa [absLog] using hc.3⟩

theorem fetchOK_false_of_red {p : PSt} (h : (absC p).red.isSome = true) : fetchOK p = false := by
  unfold fetchOK
  cases hr : (absC p).red with
  | none => rw [hr] at h; cases h
  | some a => simp

/-- MAIN LEMMA, general form: instead of "hazard detection on" it only needs that this cycle's
    decode has no read-after-write dependency on the two older latches (`RawFree`), which is also
    what a hazard-free program guarantees with detection off (C08). -/
theorem abs_step_raw (p : PSt) (hI : PInv p) (hz : RawFree p) (hf : (step p).fault = none) :
    SimP (abs (step p).p) (if fetchOK p then seqStep (abs p) else abs p) ∧
    absF (step p).p = (if fetchOK p then seqFault (abs p) else absF p) ∧
    latchLog p.l3 ++ absLog (step p).p = absLog p ++ (if fetchOK p then seqLog (abs p) else []) := by
  obtain ⟨hex, hme⟩ := (step_fault_none_iff p).1 hf
  rw [step_nofault p hex hme]
  dsimp only
  cases h4 : latchFlush (wbOut p).2 with
  | some a =>
    obtain ⟨h, hr, hF, hL⟩ := abs_flush4 p hI a h4
    rw [fetchOK_false_of_red hr]; exact ⟨h, hF, by simpa using hL⟩
  | none =>
    cases h3 : latchFlush (memOut p).latch with
    | some a =>
      obtain ⟨h, hr, hF, hL⟩ := abs_flush3 p hI hme a h4 h3
      rw [fetchOK_false_of_red hr]; exact ⟨h, hF, by simpa using hL⟩
    | none =>
      cases h2 : latchFlush (exOut p).latch with
      | some a =>
        obtain ⟨h, hr, hF, hL⟩ := abs_flush2 p hI hex hme a h4 h3 h2
        rw [fetchOK_false_of_red hr]; exact ⟨h, hF, by simpa using hL⟩
      | none => exact abs_step_noflush p hI hz hex hme h4 h3 h2

/-- MAIN LEMMA. One non-faulting cycle of the pipeline is one step of the sequential machine on the
    abstraction if the cycle performs a correct-path fetch, and leaves the abstraction unchanged
    otherwise (stalled cycle, no instruction at pc, wrong-path fetch, flush cycle). The predicted
    fault `absF` evolves accordingly, and so does the retire order: the address retired by WB in
    this cycle followed by the pending addresses afterwards = the pending addresses before followed
    by the address of the sequential step. -/
theorem abs_step (p : PSt) (hI : PInv p) (hz : p.hazard = true) (hf : (step p).fault = none) :
    SimP (abs (step p).p) (if fetchOK p then seqStep (abs p) else abs p) ∧
    absF (step p).p = (if fetchOK p then seqFault (abs p) else absF p) ∧
    latchLog p.l3 ++ absLog (step p).p = absLog p ++ (if fetchOK p then seqLog (abs p) else []) :=
  abs_step_raw p hI (rawFree_of_hazard p hI hz) hf

end ArchSim.Pipe
