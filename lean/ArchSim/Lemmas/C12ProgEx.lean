/-
C12 (memory table, program level): concrete objects for the non-vacuity examples of
`Props/C12Prog.lean`.
-/
import ArchSim.Lemmas.C12ProgTop
import ArchSim.Lemmas.C03ProgEx

namespace ArchSim.Lemmas.C12Prog.Ex
open ArchSim ArchSim.Cache ArchSim.Mem ArchSim.Rv ArchSim.Spec.CacheAbs ArchSim.Spec.TagCache
open ArchSim.Lemmas.C03 ArchSim.Lemmas.C03Prog

/-- The smallest cache: one set, one way, one word per block. -/
def g1 : Geo := { idxBits := 0, blkBits := 0, assoc := 1 }

theorem g1_ok : GeoOK g1 := ⟨by decide, by decide, by decide⟩

/-- A history on `g1`: a write (miss), a read of it (write-back: hit; write-through: miss and fill),
    a write to the next word (miss; write-back evicts and writes back the first block), a byte read
    (hit), a half-word write into the resident block (hit), and two rejected writes (crossing a word
    boundary; below the data range). -/
def exH : List Spec.CacheAbs.Op :=
  [.write 32 0x4000 0x11, .read 32 0x4000 true, .write 32 0x4004 0x22, .read 8 0x4004 true,
   .write 16 0x4006 0xBEEF, .write 32 0x4009 1, .write 8 0x40 1]

/-- Two reads only: the first fills the block of 0x4000, the second evicts it. -/
def exReads : List Spec.CacheAbs.Op := [.read 32 0x4000 true, .read 32 0x4004 true]

/-- Four word writes on the two-set direct-mapped cache `exGeo`: the blocks are evicted (and written
    back) in an order different from the order in which they were written. -/
def exOrder : List Spec.CacheAbs.Op :=
  [.write 32 0x4000 1, .write 32 0x4004 2, .write 32 0x400C 3, .write 32 0x4008 4,
   .read 32 0x4010 true, .read 32 0x4014 true]

/-- `C03Prog.Ex.sc` with a write-through cache. -/
def scWT : St :=
  { C03Prog.Ex.base with
    mem := .cached true (DSys.init (polOps true) true C03Prog.Ex.geo1 10 (Mem.empty riscvCfg)) }

theorem relWT : CacheRel scWT C03Prog.Ex.sf :=
  cacheRel_init C03Prog.Ex.base C03Prog.Ex.geo1 C03Prog.Ex.geo1_ok true C03Prog.Ex.assoc1_ok true 10 [] 0 0 0

theorem trelWT : MRelT true scWT.mem C03Prog.Ex.sf.mem :=
  mrelT_init C03Prog.Ex.geo1 C03Prog.Ex.geo1_ok true C03Prog.Ex.assoc1_ok true 10 []

theorem trelWB : MRelT false C03Prog.Ex.sc.mem C03Prog.Ex.sf.mem :=
  mrelT_init C03Prog.Ex.geo1 C03Prog.Ex.geo1_ok true C03Prog.Ex.assoc1_ok false 10 []

end ArchSim.Lemmas.C12Prog.Ex
