/-
TOY assembler, data pass: `writeVals`, `addLabel`/`lookup`, `writeData` (closed form of the
recurrence: addresses, memory cells, label table).
-/
import ArchSim.Model.ToyAsm
import ArchSim.Lemmas.ToyMem

namespace ArchSim.ToyAsm
open ArchSim ArchSim.PP ArchSim.Toy

/-! ### vocabulary on tokenised lines -/

def isVarDecl : TStmt → Bool
  | .varDecl _ _ => true
  | _ => false

def isInstr : TStmt → Bool
  | .instr _ _ _ _ => true
  | _ => false

/-- number of memory words a tokenised line reserves in the data segment -/
def stmtSize : TStmt → Nat
  | .varDecl _ vals => vals.length
  | _ => 0

/-- total number of data words declared by a list of lines -/
def dataSize : List Entry → Nat
  | [] => 0
  | e :: rest => stmtSize e.2.2 + dataSize rest

/-- number of instruction lines in a list of lines -/
def instrCount : List Entry → Nat
  | [] => 0
  | e :: rest => (if isInstr e.2.2 then 1 else 0) + instrCount rest

theorem dataSize_append (a b : List Entry) : dataSize (a ++ b) = dataSize a + dataSize b := by
  induction a with
  | nil => simp [dataSize]
  | cons e a ih => simp only [List.cons_append, dataSize, ih]; omega

theorem dataSize_take_le (l : List Entry) (n : Nat) : dataSize (l.take n) ≤ dataSize l := by
  induction l generalizing n with
  | nil => simp [dataSize]
  | cons e l ih =>
    cases n with
    | zero => simp [dataSize]
    | succ n => simp only [List.take_succ_cons, dataSize]; have := ih n; omega

theorem instrCount_append (a b : List Entry) : instrCount (a ++ b) = instrCount a + instrCount b := by
  induction a with
  | nil => simp [instrCount]
  | cons e a ih => simp only [List.cons_append, instrCount, ih]; omega

theorem instrCount_eq_zero_of_varDecl (l : List Entry) (h : ∀ e ∈ l, isVarDecl e.2.2 = true) :
    instrCount l = 0 := by
  induction l with
  | nil => rfl
  | cons e l ih =>
    have he := h e (by simp)
    have := ih (fun x hx => h x (by simp [hx]))
    simp only [instrCount, this]
    cases hs : e.2.2 <;> simp [hs, isVarDecl, isInstr] at he ⊢

/-! ### one-cell writes at an integer address -/

theorem writeN_toy_int (m : Mem.Mem) (hc : m.cfg = Mem.toyCfg) (a : Int) (h0 : 0 ≤ a) (h1 : a < 4096)
    (v : Nat) : Mem.writeN m a 1 v = (putCell m a.toNat v, none) := by
  have := writeN_toy m hc a.toNat (by omega) v
  rwa [Int.toNat_of_nonneg h0] at this

theorem writeVals_cfg (vals : List String) (m : Mem.Mem) (a : Int) :
    (writeVals m a vals).cfg = m.cfg := by
  induction vals generalizing m a with
  | nil => rfl
  | cons v vs ih => simp only [writeVals]; rw [ih, writeN_one_cfg]

/-- Value `e` of the list lands at address `a + e`; every other cell is untouched. -/
theorem writeVals_cells (vals : List String) (m : Mem.Mem) (hc : m.cfg = Mem.toyCfg) (a : Int)
    (h0 : 0 ≤ a) (h1 : a + vals.length ≤ 4096) (x : Int) :
    (writeVals m a vals).cells x =
      if a ≤ x ∧ x < a + vals.length then valueToInt (vals.getD (x - a).toNat "") % 65536
      else m.cells x := by
  induction vals generalizing m a with
  | nil =>
    have : ¬ (a ≤ x ∧ x < a + ([] : List String).length) := by simp
    simp only [writeVals, if_neg this]
  | cons v vs ih =>
    simp only [List.length_cons] at h1
    simp only [writeVals]
    rw [writeN_toy_int m hc a h0 (by omega)]
    simp only
    rw [ih (putCell m a.toNat (valueToInt v % 65536)) (by simpa using hc) (a + 1) (by omega) (by omega)]
    simp only [putCell_cells, List.length_cons, Int.toNat_of_nonneg h0]
    by_cases h2 : a + 1 ≤ x ∧ x < a + 1 + vs.length
    · have h3 : a ≤ x ∧ x < a + ((vs.length + 1 : Nat) : Int) := by omega
      rw [if_pos h2, if_pos h3]
      have : (x - a).toNat = (x - (a + 1)).toNat + 1 := by omega
      rw [this, List.getD_cons_succ]
    · rw [if_neg h2]
      by_cases h4 : x = a
      · have h3 : a ≤ x ∧ x < a + ((vs.length + 1 : Nat) : Int) := by omega
        rw [if_pos h4, if_pos h3]
        have : (x - a).toNat = 0 := by omega
        rw [this, List.getD_cons_zero]
        omega
      · have h3 : ¬ (a ≤ x ∧ x < a + ((vs.length + 1 : Nat) : Int)) := by omega
        rw [if_neg h4, if_neg h3]

/-! ### the label table -/

theorem lookup_nil (n : String) : lookup [] n = none := rfl

theorem lookup_append (a b : Labels) (n : String) :
    lookup (a ++ b) n = (lookup a n).or (lookup b n) := by
  unfold lookup
  rw [List.find?_append]
  cases List.find? (fun p => p.1 == n) a <;> simp

theorem lookup_single (m n : String) (v : Int) :
    lookup [(m, v)] n = if m = n then some v else none := by
  unfold lookup
  by_cases h : m = n
  · simp [List.find?, h]
  · have : (m == n) = false := by simpa using h
    simp [List.find?, this, h]

theorem addLabel_ok {ls ls' : Labels} {n : String} {v : Int} {k : Nat} {line : String}
    (h : addLabel ls n v k line = .ok ls') : lookup ls n = none ∧ ls' = ls ++ [(n, v)] := by
  unfold addLabel at h
  split at h
  · cases h
  · rename_i hn
    cases h
    exact ⟨by simpa using hn, rfl⟩

theorem addLabel_of_none (ls : Labels) (n : String) (v : Int) (k : Nat) (line : String)
    (h : lookup ls n = none) : addLabel ls n v k line = .ok (ls ++ [(n, v)]) := by
  simp [addLabel, h]

/-- After a successful `addLabel`: the new name is bound, old bindings are kept, nothing else. -/
theorem lookup_addLabel {ls ls' : Labels} {n : String} {v : Int} {k : Nat} {line : String}
    (h : addLabel ls n v k line = .ok ls') (m : String) :
    lookup ls' m = if m = n then some v else lookup ls m := by
  obtain ⟨hn, rfl⟩ := addLabel_ok h
  rw [lookup_append, lookup_single]
  by_cases hm : m = n
  · subst hm; simp [hn]
  · have : ¬ n = m := fun h => hm h.symm
    simp [hm, this]

/-! ### `writeData` -/

/-- One step of the recurrence: a variable declaration whose block fits and whose name is new. -/
theorem writeData_cons_var (k : Nat) (line name : String) (vals : List String) (rest : List Entry)
    (o : DataOut) (hfit : 0 ≤ o.last - vals.length + 1) (hnew : lookup o.labels name = none) :
    writeData ((k, line, .varDecl name vals) :: rest) o =
      writeData rest { o with mem := writeVals o.mem (o.last - vals.length + 1) vals,
                              labels := o.labels ++ [(name, o.last - vals.length + 1)],
                              last := o.last - vals.length } := by
  have : ¬ (o.last - vals.length + 1 < 0) := by omega
  simp only [writeData, if_neg this, addLabel_of_none _ _ _ _ _ hnew]

theorem writeData_nil (o : DataOut) : writeData [] o = o := rfl

/-- What a successful step looked like. -/
theorem writeData_cons_ok (e : Entry) (rest : List Entry) (o : DataOut)
    (h : (writeData (e :: rest) o).err = none) :
    ∃ name vals, e.2.2 = .varDecl name vals ∧ 0 ≤ o.last - vals.length + 1 ∧
      lookup o.labels name = none ∧
      writeData (e :: rest) o =
        writeData rest { o with mem := writeVals o.mem (o.last - vals.length + 1) vals,
                                labels := o.labels ++ [(name, o.last - vals.length + 1)],
                                last := o.last - vals.length } := by
  obtain ⟨k, line, s⟩ := e
  cases s with
  | varDecl name vals =>
    by_cases hfit : o.last - vals.length + 1 < 0
    · simp [writeData, hfit] at h
    · cases hl : lookup o.labels name with
      | none =>
        exact ⟨name, vals, rfl, by omega, hl, writeData_cons_var k line name vals rest o (by omega) hl⟩
      | some x =>
        simp [writeData, hfit, addLabel, hl] at h
  | directive d => simp [writeData] at h
  | instr a b c d => simp [writeData] at h
  | label n => simp [writeData] at h

theorem writeData_err_none (data : List Entry) (o : DataOut) (h : (writeData data o).err = none) :
    o.err = none := by
  induction data generalizing o with
  | nil => exact h
  | cons e rest ih =>
    obtain ⟨name, vals, _, _, _, heq⟩ := writeData_cons_ok e rest o h
    rw [heq] at h
    have := ih _ h
    exact this

/-- Closed form of the data pass (everything one wants to know about a successful `writeData`). -/
structure DataSpec (data : List Entry) (o d : DataOut) : Prop where
  allVar  : ∀ e ∈ data, isVarDecl e.2.2 = true
  last    : d.last = o.last - dataSize data
  lastGe  : -1 ≤ o.last → -1 ≤ d.last
  cfg     : d.mem.cfg = Mem.toyCfg
  frame   : ∀ x : Int, ¬ (d.last < x ∧ x ≤ o.last) → d.mem.cells x = o.mem.cells x
  keep    : ∀ n x, lookup o.labels n = some x → lookup d.labels n = some x
  var     : ∀ (j k : Nat) (line name : String) (vals : List String),
              data[j]? = some (k, line, .varDecl name vals) →
              lookup o.labels name = none ∧
              lookup d.labels name = some (o.last + 1 - dataSize (data.take (j + 1))) ∧
              ∀ (e : Nat) (he : e < vals.length),
                d.mem.cells (o.last + 1 - dataSize (data.take (j + 1)) + e) = valueToInt vals[e] % 65536
  only    : ∀ n x, lookup d.labels n = some x →
              lookup o.labels n = some x ∨
              ∃ j k line vals, data[j]? = some (k, line, .varDecl n vals) ∧
                x = o.last + 1 - dataSize (data.take (j + 1))

theorem writeData_spec (data : List Entry) (o : DataOut) (hc : o.mem.cfg = Mem.toyCfg)
    (hl : o.last ≤ 4095) (h : (writeData data o).err = none) :
    DataSpec data o (writeData data o) := by
  induction data generalizing o with
  | nil =>
    refine ⟨by simp, by simp [writeData, dataSize], fun h => h, hc, fun _ _ => rfl, fun _ _ h => h,
      by simp, fun n x h => Or.inl h⟩
  | cons e rest ih =>
    obtain ⟨name, vals, hs, hfit, hnew, heq⟩ := writeData_cons_ok e rest o h
    rw [heq] at h ⊢
    have hsz : stmtSize e.2.2 = vals.length := by rw [hs]; rfl
    have hwc := writeVals_cells vals o.mem hc (o.last - vals.length + 1) hfit (by omega)
    have IH := ih _ (by simp only; rw [writeVals_cfg]; exact hc) (by simp only; omega) h
    obtain ⟨k, line, s⟩ := e
    simp only at hs; subst hs
    constructor
    · intro x hx
      rcases List.mem_cons.mp hx with rfl | hx
      · rfl
      · exact IH.allVar x hx
    · rw [IH.last]; simp only [dataSize, stmtSize]; omega
    · intro _
      exact IH.lastGe (by simp only; omega)
    · exact IH.cfg
    · intro x hx
      have hlast := IH.last
      simp only at hlast
      rw [IH.frame x (by simp only; omega)]
      simp only
      rw [hwc x, if_neg (by omega)]
    · intro n x hn
      apply IH.keep
      simp only
      rw [lookup_append, hn]; rfl
    · intro j k' line' name' vals' hj
      cases j with
      | zero =>
        simp only [List.getElem?_cons_zero, Option.some.injEq, Prod.mk.injEq, TStmt.varDecl.injEq] at hj
        obtain ⟨rfl, rfl, rfl, rfl⟩ := hj
        have ha : o.last + 1 - (dataSize (List.take (0 + 1) ((k, line, TStmt.varDecl name vals) :: rest)) : Int)
            = o.last - vals.length + 1 := by
          simp only [Nat.zero_add, List.take_succ_cons, List.take_zero, dataSize, stmtSize]; omega
        rw [ha]
        refine ⟨hnew, ?_, ?_⟩
        · apply IH.keep
          simp only
          rw [lookup_append, hnew, lookup_single]; simp
        · intro e he
          have hlast := IH.last
          simp only at hlast
          rw [IH.frame _ (by simp only; omega)]
          simp only
          rw [hwc, if_pos (by omega)]
          have : (o.last - vals.length + 1 + (e : Int) - (o.last - vals.length + 1)).toNat = e := by omega
          rw [this, List.getD_eq_getElem?_getD, List.getElem?_eq_getElem he]; rfl
      | succ j =>
        simp only [List.getElem?_cons_succ] at hj
        obtain ⟨h1, h2, h3⟩ := IH.var j k' line' name' vals' hj
        have ha : o.last + 1 - (dataSize (List.take (j + 1 + 1) ((k, line, TStmt.varDecl name vals) :: rest)) : Int)
            = o.last - vals.length + 1 - dataSize (List.take (j + 1) rest) := by
          simp only [List.take_succ_cons, dataSize, stmtSize]; omega
        rw [ha]
        simp only at h1 h2 h3
        refine ⟨?_, h2, h3⟩
        rw [lookup_append] at h1
        cases hq : lookup o.labels name' with
        | none => rfl
        | some q => rw [hq] at h1; simp at h1
    · intro n x hn
      rcases IH.only n x hn with h1 | ⟨j, k', line', vals', hj, hx⟩
      · simp only at h1
        rw [lookup_append, lookup_single] at h1
        cases hq : lookup o.labels n with
        | some q => rw [hq] at h1; left; simpa using h1
        | none =>
          rw [hq] at h1
          by_cases hnn : name = n
          · subst hnn
            right
            refine ⟨0, k, line, vals, rfl, ?_⟩
            simp only [if_true, Option.none_or, Option.some.injEq] at h1
            simp only [Nat.zero_add, List.take_succ_cons, List.take_zero, dataSize, stmtSize]
            omega
          · simp [hnn] at h1
      · right
        refine ⟨j + 1, k', line', vals', by simpa using hj, ?_⟩
        rw [hx]
        simp only [List.take_succ_cons, dataSize, stmtSize]; omega

end ArchSim.ToyAsm
