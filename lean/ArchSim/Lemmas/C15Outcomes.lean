/-
C15 — where the memory error of the RISC-V loader comes from: a direct data write whose wrapped
address lies below the data range, or a program of more than 4096 instructions.
-/
import ArchSim.Lemmas.C15Asm

namespace ArchSim.Lemmas.C15
open ArchSim ArchSim.PP ArchSim.Asm ArchSim.Rv

theorem writeCell_spec {m : Mem.Mem} {a : Int} {v : Nat} :
    match Mem.writeCell m a v with
    | .ok m' => m'.cfg = m.cfg
    | .error e => e.address = Mem.wrapAddr m.cfg a ∧ Mem.inRange m.cfg e.address = false := by
  unfold Mem.writeCell
  simp only
  by_cases h : Mem.inRange m.cfg (Mem.wrapAddr m.cfg a) = true
  · rw [if_pos h]
  · rw [if_neg h]; exact ⟨rfl, by simpa using h⟩

theorem writeNFrom_spec {m : Mem.Mem} {a : Int} {n i v : Nat} :
    (Mem.writeNFrom m a n i v).1.cfg = m.cfg ∧
    ∀ e, (Mem.writeNFrom m a n i v).2 = some e →
      ∃ j, e.address = Mem.wrapAddr m.cfg (a + j) ∧ Mem.inRange m.cfg e.address = false := by
  induction n generalizing m i v with
  | zero => simp [Mem.writeNFrom]
  | succ n ih =>
    unfold Mem.writeNFrom
    have hs := writeCell_spec (m := m) (a := a + i) (v := v % 2 ^ m.cfg.cellBits)
    split
    · rename_i e he
      rw [he] at hs
      refine ⟨rfl, ?_⟩
      intro e' he'
      cases he'
      exact ⟨i, hs.1, hs.2⟩
    · rename_i m' hm'
      rw [hm'] at hs
      obtain ⟨h1, h2⟩ := ih (m := m') (i := i + 1) (v := v / 2 ^ m.cfg.cellBits)
      rw [hs] at h1 h2
      exact ⟨h1, h2⟩

/-- below the data range of the RISC-V data memory -/
theorem riscv_out_of_range {a x : Int} (h1 : x = Mem.wrapAddr Mem.riscvCfg a)
    (h2 : Mem.inRange Mem.riscvCfg x = false) : 0 ≤ x ∧ x < 16384 := by
  simp [Mem.wrapAddr, Mem.riscvCfg] at h1
  have := Int.emod_nonneg a (b := 4294967296) (by decide)
  have := Int.emod_lt_of_pos a (b := 4294967296) (by decide)
  by_cases hx : (16384 : Int) ≤ x
  · exfalso
    have hy : x < 4294967296 := by omega
    simp [Mem.inRange, Mem.riscvCfg, hx, hy] at h2
  · omega

theorem memWrite_spec {m : Mem.Mem} (hcfg : m.cfg = Mem.riscvCfg) {bits : Nat} (hb : 8 ≤ bits) (a : Int) (v : Nat) :
    ∃ m' r, Mem.write m bits a v = some (m', r) ∧ m'.cfg = Mem.riscvCfg ∧
      ∀ e, r = some e → 0 ≤ e.address ∧ e.address < 16384 := by
  unfold Mem.write
  have hc : ¬ m.cfg.cellBits > bits := by rw [hcfg]; simp [Mem.riscvCfg]; omega
  rw [if_neg hc]
  obtain ⟨h1, h2⟩ := writeNFrom_spec (m := m) (a := a) (n := Mem.cellsOf m.cfg bits) (i := 0) (v := v)
  refine ⟨_, _, rfl, ?_, ?_⟩
  · show (Mem.writeNFrom m a _ 0 v).1.cfg = _
    rw [h1, hcfg]
  · intro e he
    obtain ⟨j, hj1, hj2⟩ := h2 e he
    rw [hcfg] at hj1 hj2
    exact riscv_out_of_range hj1 hj2

/-- A direct write to a RISC-V memory system: the configuration of the backing memory is kept and
    the only possible error is the address error, at a (wrapped) address below the data range. -/
theorem direct_write_spec {ms : MemSys} (hcfg : ms.backing.cfg = Mem.riscvCfg) {bits : Nat} (hb : 8 ≤ bits)
    (a : Int) (v : Nat) :
    (ms.write bits a v true).mem.backing.cfg = Mem.riscvCfg ∧
    ∀ e, (ms.write bits a v true).res = .error e → ∃ x, e = .addr x ∧ 0 ≤ x ∧ x < 16384 := by
  cases ms with
  | flat m =>
    obtain ⟨m', r, hw, hc', hr⟩ := memWrite_spec (m := m) hcfg hb a v
    unfold MemSys.write
    simp only [hw]
    cases r with
    | none => exact ⟨hc', fun e he => by cases he⟩
    | some e' =>
      refine ⟨hc', fun e he => ?_⟩
      cases he
      exact ⟨_, rfl, hr e' rfl⟩
  | cached l s =>
    obtain ⟨m', r, hw, hc', hr⟩ := memWrite_spec (m := s.mem) hcfg hb a v
    unfold MemSys.write
    simp only [Cache.DSys.write, if_true, Cache.DSys.writeDirect, hw]
    cases r with
    | none => exact ⟨hc', fun e he => by cases he⟩
    | some e' =>
      refine ⟨hc', fun e he => ?_⟩
      cases he
      exact ⟨_, rfl, hr e' rfl⟩

theorem reset_cfg (ms : MemSys) : ms.reset.backing.cfg = ms.backing.cfg := by
  cases ms <;> rfl

theorem writeSeq_spec {bits : Nat} (hb : 8 ≤ bits) {vs : List Int} {m : MemSys} {a : Int}
    (hcfg : m.backing.cfg = Mem.riscvCfg) :
    (writeSeq bits vs m a).1.backing.cfg = Mem.riscvCfg ∧
    ∀ e, (writeSeq bits vs m a).2.2 = some e → ∃ x, e = .memAddr x ∧ 0 ≤ x ∧ x < 16384 := by
  induction vs generalizing m a with
  | nil => simp [writeSeq, hcfg]
  | cons v vs ih =>
    unfold writeSeq
    simp only
    obtain ⟨h1, h2⟩ := direct_write_spec hcfg hb a ((v % (2 : Int) ^ bits).toNat)
    split
    · rename_i x hx
      refine ⟨h1, fun e he => ?_⟩
      cases he
      obtain ⟨x', hx', hr⟩ := h2 _ hx
      cases hx'
      exact ⟨_, rfl, hr⟩
    · rename_i e' hne he'
      obtain ⟨x', hx', _⟩ := h2 _ he'
      exact absurd hx' (hne x')
    · exact ih h1

theorem writeData_memAddr {data : List Entry} {o : DataOut} (hcfg : o.mem.backing.cfg = Mem.riscvCfg) {a : Int}
    (h : (writeData data o).err = some (.memAddr a)) :
    o.err = some (.memAddr a) ∨ (0 ≤ a ∧ a < 16384) := by
  induction data generalizing o with
  | nil => left; exact h
  | cons x rest ih =>
    obtain ⟨k, line, t⟩ := x
    unfold writeData at h
    simp only at h
    have ws : ∀ {bits : Nat} (_ : 8 ≤ bits) {vs : List Int} {m a' e}, writeSeq bits vs o.mem (align4 o.ctr) = (m, a', e) →
        m.backing.cfg = Mem.riscvCfg ∧ ∀ e', e = some e' → ∃ x, e' = .memAddr x ∧ 0 ≤ x ∧ x < 16384 := by
      intro bits hb vs m a' e hw
      have := writeSeq_spec hb (vs := vs) (a := align4 o.ctr) hcfg
      rw [hw] at this
      exact this
    have hbits : ∀ ty : String, 8 ≤ (if ty = "byte" then 8 else if ty = "half" then 16 else 32) := by
      intro ty; by_cases h1 : ty = "byte" <;> by_cases h2 : ty = "half" <;> simp [h1, h2]
    split at h
    · cases h
    · split at h
      · split at h
        · cases h
        · split at h
          · rename_i hw
            cases h
            obtain ⟨x, hx, hr⟩ := (ws (hbits _) hw).2 _ rfl
            cases hx
            exact .inr hr
          · rename_i hw
            have h' := ih (ws (hbits _) hw).1 h
            exact h'
      · split at h
        · cases h
        · split at h
          · rename_i hw
            cases h
            obtain ⟨x, hx, hr⟩ := (ws (Nat.le_refl 8) hw).2 _ rfl
            cases hx
            exact .inr hr
          · rename_i hw
            have h' := ih (ws (Nat.le_refl 8) hw).1 h
            exact h'
      · split at h
        · cases h
        · have h' := ih (o := ⟨_, _, _, _⟩) (by exact hcfg) h
          exact h'
      · cases h

/-- The memory error of the RISC-V loader: either a data write at a wrapped address below the data
    range `[16384, 2^32)` (then `a` is that address), or more than 4096 instructions (`a = 16384`). -/
theorem load_memAddr_origin (s : St) (text : String) {a : Int} (hcfg : s.mem.backing.cfg = Mem.riscvCfg)
    (h : (Asm.load s text).err = some (.memAddr a)) :
    ∃ toks data text', tokenize (sanitize text) = .ok toks ∧ segment toks = .ok (data, text') ∧
      ∃ d, d = writeData data { mem := s.mem.reset, vars := [], ctr := 16384, err := none } ∧
        ((d.err = some (.memAddr a) ∧ 0 ≤ a ∧ a < 16384) ∨
         (d.err = none ∧ a = 16384 ∧
           ∃ expanded pending ls instrs,
             expandAll d.vars (text'.map (fun (x : Entry) => ((x.1, x.2.1, x.2.2.item) : TEntry))) = .ok expanded ∧
             processLabels expanded pending [] 0 = .ok ls ∧
             buildInstrs ls expanded 0 = .ok instrs ∧ instrs.length > 4096)) := by
  rcases load_err_cases s text h with h | ⟨toks, htoks, h⟩
  · obtain ⟨k, l, _, h2⟩ := tokenize_err h; cases h2
  rcases h with h | ⟨data, text', hseg, d, hd, h⟩
  · obtain ⟨x, _, h2⟩ := segment_err h; cases h2
  refine ⟨toks, data, text', htoks, hseg, d, hd, ?_⟩
  rcases h with h | ⟨hnone, tes, htes, h⟩
  · left
    refine ⟨h, ?_⟩
    rw [hd] at h
    rcases writeData_memAddr (by rw [reset_cfg]; exact hcfg) h with h' | h'
    · cases h'
    · exact h'
  right
  subst htes
  rcases h with h | ⟨expanded, hexp, h⟩
  · obtain ⟨x, _, h2⟩ := expandAll_err h; cases h2
  rcases h with ⟨pending, h⟩ | ⟨pending, ls, hls, h⟩
  · obtain ⟨x, _, h2⟩ := processLabels_err h; cases h2
  rcases h with h | ⟨instrs, hins, hlen, he⟩
  · obtain ⟨x, _, kind, _, h2⟩ := buildInstrs_err h; cases h2
  · cases he
    exact ⟨hnone, rfl, expanded, pending, ls, instrs, hexp, hls, hins, hlen⟩

end ArchSim.Lemmas.C15
