/-
C03 (program level): concrete objects for the non-vacuity examples of `Props/C03Prog.lean`.
-/
import ArchSim.Lemmas.C03ProgFive

namespace ArchSim.Lemmas.C03Prog.Ex
open ArchSim ArchSim.Cache ArchSim.Mem ArchSim.Rv ArchSim.Spec.CacheAbs ArchSim.Spec.TagCache

/-- x5 := 0x4000; x1 := 5; mem[x5] := x1; x3 := mem[x5]; x2 := (byte) mem[x5+1]; exit(0). -/
def prog : List Instr :=
  [ { op := .lui, rd := 5, imm := 4 },
    { op := .addi, rd := 1, rs1 := 0, imm := 5 },
    { op := .sw, rs1 := 5, rs2 := 1, imm := 0 },
    { op := .lw, rd := 3, rs1 := 5, imm := 0 },
    { op := .lbu, rd := 2, rs1 := 5, imm := 1 },
    { op := .addi, rd := 17, rs1 := 0, imm := 10 },
    { op := .ecall } ]

/-- The smallest cache: one set, one way, one word per block. -/
def geo1 : Geo := { idxBits := 0, blkBits := 0, assoc := 1 }

def base : St :=
  { regs := fun _ => 0, pc := 0, mem := .flat (Mem.empty riscvCfg),
    imem := { prog := prog, cache := none }, output := "", exitCode := none, cycles := 0, instrs := 0,
    branches := 0, procs := 0, stalls := 0, flushes := 0 }

/-- Flat data memory. -/
def sf : St := base
/-- Write-back LRU data cache with miss penalty 10 over the empty memory. -/
def sc : St :=
  { base with mem := .cached true (DSys.init (polOps true) false geo1 10 (Mem.empty riscvCfg)) }

theorem geo1_ok : GeoOK geo1 := ⟨by decide, by decide, by decide⟩
theorem assoc1_ok : ArchSim.Lemmas.C09.AssocOK true geo1.assoc := ⟨by decide, fun h => by cases h⟩

theorem rel0 : CacheRel sc sf :=
  cacheRel_init base geo1 geo1_ok true assoc1_ok false 10 [] 0 0 0

theorem stepAccepted_of {s : St} (i : Instr) (hf : fetched s = some i) (h : AccessOK i s) :
    StepAccepted s := by
  intro j hj
  rw [hf] at hj
  cases hj
  exact h

/-- Every step of the flat run before it is done performs accepted accesses. -/
theorem acc7 : ∀ j, j < 7 → StepAccepted (singleRun j sf) := by
  intro j hj
  have hj' : j = 0 ∨ j = 1 ∨ j = 2 ∨ j = 3 ∨ j = 4 ∨ j = 5 ∨ j = 6 := by omega
  rcases hj' with rfl | rfl | rfl | rfl | rfl | rfl | rfl
  · exact stepAccepted_of { op := .lui, rd := 5, imm := 4 } (by decide)
      ⟨fun h => absurd h (by decide), fun h => absurd h (by decide), fun h => absurd h (by decide)⟩
  · exact stepAccepted_of { op := .addi, rd := 1, rs1 := 0, imm := 5 } (by decide)
      ⟨fun h => absurd h (by decide), fun h => absurd h (by decide), fun h => absurd h (by decide)⟩
  · exact stepAccepted_of { op := .sw, rs1 := 5, rs2 := 1, imm := 0 } (by decide)
      ⟨fun h => absurd h (by decide), fun _ => by decide, fun h => absurd h (by decide)⟩
  · exact stepAccepted_of { op := .lw, rd := 3, rs1 := 5, imm := 0 } (by decide)
      ⟨fun _ => by decide, fun h => absurd h (by decide), fun h => absurd h (by decide)⟩
  · exact stepAccepted_of { op := .lbu, rd := 2, rs1 := 5, imm := 1 } (by decide)
      ⟨fun _ => by decide, fun h => absurd h (by decide), fun h => absurd h (by decide)⟩
  · exact stepAccepted_of { op := .addi, rd := 17, rs1 := 0, imm := 10 } (by decide)
      ⟨fun h => absurd h (by decide), fun h => absurd h (by decide), fun h => absurd h (by decide)⟩
  · exact stepAccepted_of { op := .ecall } (by decide)
      ⟨fun h => absurd h (by decide), fun h => absurd h (by decide), fun _ h => absurd h (by decide)⟩

theorem runAccepted_sf : RunAccepted sf := by
  intro j hnd
  rcases Nat.lt_or_ge j 7 with h | h
  · exact acc7 j h
  · have h7 : singleDone (singleRun 7 sf) = true := by decide
    rw [hnd 7 h] at h7
    cases h7

theorem progWF : ProgWF prog :=
  ⟨by decide, by decide⟩

theorem stOK_sf : ArchSim.Lemmas.C01.StOK sf :=
  ⟨⟨Mem.empty riscvCfg, rfl, rfl, ArchSim.Lemmas.C18.WF_empty _⟩,
   fun _ => by show (0 : Nat) < 4294967296; decide, rfl, by decide, by decide⟩

/-- A state about to execute `lw x3, 1(x5)` with x5 = 0x4000 (a word load that crosses a word
    boundary), resp. `ecall` print-string (a7 = 4) with a0 = 0x3FFF (a string starting one byte below the
    data range); `mk` chooses the data memory. -/
def oddSt (ms : MemSys) (i : Instr) : St :=
  { base with mem := ms, imem := { prog := [i], cache := none },
              regs := fun r => if r = 5 then 0x4000 else if r = 17 then 4 else if r = 10 then 0x3FFF else 0 }

def cache1 : MemSys := .cached true (DSys.init (polOps true) false geo1 10 (Mem.empty riscvCfg))
def flat1 : MemSys := .flat (Mem.empty riscvCfg)

theorem rel_odd (i : Instr) : CacheRel (oddSt cache1 i) (oddSt flat1 i) :=
  cacheRel_init (oddSt flat1 i) geo1 geo1_ok true assoc1_ok false 10 [] 0 0 0

/-- `.data` preload: the string "Hi" at 0x4000 (zero-terminated by the untouched cell behind it). -/
def strData : List Spec.ByteStore.Op := [.write 8 0x4000 72, .write 8 0x4001 105]

end ArchSim.Lemmas.C03Prog.Ex
