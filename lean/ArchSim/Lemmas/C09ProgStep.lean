/-
C09 (program level), part 3: the invariant `RunInv` of single-cycle states with a cached data memory
(32-bit register values, `DInv`), preserved by every `behavior` that does not fault.
-/
import ArchSim.Lemmas.C09ProgEcall
import ArchSim.Lemmas.C01Inv

namespace ArchSim.Lemmas.C09Prog
open ArchSim ArchSim.Cache ArchSim.Rv ArchSim.Repl
open ArchSim.Spec.TagCache (Accepted)
open ArchSim.Spec.CacheAbs (widthOK)

/-- Registers hold 32-bit values and the data memory system is a cached one satisfying `DInv`. -/
structure RunInv (s : St) : Prop where
  regs : ∀ r, s.regs r < 4294967296
  mem  : DInv s.mem

theorem RunInv.setReg {s : St} (h : RunInv s) (rd v : Nat) (hv : v < 4294967296) :
    RunInv (s.setReg rd v) where
  regs := by
    intro r; simp only [St.setReg, Rv.setReg]; split
    · exact hv
    · exact h.regs r
  mem := h.mem

theorem RunInv.of_eq {s t : St} (h : RunInv s) (hm : t.mem = s.mem) (hr : t.regs = s.regs) :
    RunInv t where
  regs := by rw [hr]; exact h.regs
  mem := by rw [hm]; exact h.mem

theorem RunInv.withMem {s t : St} (h : RunInv s) (hm : DInv t.mem) (hr : t.regs = s.regs) :
    RunInv t where
  regs := by rw [hr]; exact h.regs
  mem := hm

/-- The state `behavior` leaves after its memory access. -/
def memSt' (s : St) (o : MemOut) : St := { s with mem := o.mem, cycles := s.cycles + o.extra }

theorem behavior_load_ok (i : Instr) (s : St) (hty : i.op.ty = .memI) {v : Nat}
    (hr : (s.mem.read (accessBits i.op) ((s.regs i.rs1 : Int) + i.imm) true).res = .ok v) :
    behavior i s =
      { st := (memSt' s (s.mem.read (accessBits i.op) ((s.regs i.rs1 : Int) + i.imm) true)).setReg
                i.rd (loadExt i.op v),
        fault := none } := by
  simp only [behavior, hty, hr, memSt']

theorem behavior_load_err (i : Instr) (s : St) (hty : i.op.ty = .memI) {e : Err}
    (hr : (s.mem.read (accessBits i.op) ((s.regs i.rs1 : Int) + i.imm) true).res = .error e) :
    behavior i s =
      { st := memSt' s (s.mem.read (accessBits i.op) ((s.regs i.rs1 : Int) + i.imm) true),
        fault := some (.mem e) } := by
  simp only [behavior, hty, hr, memSt']

/-- The address `behavior` of a store uses. -/
def storeAddr (i : Instr) (s : St) : Int := (((s.regs i.rs1 + wrapU i.imm) % 4294967296 : Nat) : Int)

theorem behavior_store_ok (i : Instr) (s : St) (hty : i.op.ty = .s) {x : Nat}
    (hr : (s.mem.write (accessBits i.op) (storeAddr i s) (s.regs i.rs2 % 2 ^ accessBits i.op) false).res
      = .ok x) :
    behavior i s =
      { st := memSt' s (s.mem.write (accessBits i.op) (storeAddr i s)
                (s.regs i.rs2 % 2 ^ accessBits i.op) false),
        fault := none } := by
  unfold storeAddr at hr ⊢
  simp only [behavior, hty, hr, memSt']

theorem behavior_store_err (i : Instr) (s : St) (hty : i.op.ty = .s) {e : Err}
    (hr : (s.mem.write (accessBits i.op) (storeAddr i s) (s.regs i.rs2 % 2 ^ accessBits i.op) false).res
      = .error e) :
    behavior i s =
      { st := memSt' s (s.mem.write (accessBits i.op) (storeAddr i s)
                (s.regs i.rs2 % 2 ^ accessBits i.op) false),
        fault := some (.mem e) } := by
  unfold storeAddr at hr ⊢
  simp only [behavior, hty, hr, memSt']

open ArchSim.Lemmas.C01 (aluRR_lt aluRI_lt loadExt_lt wrapU_lt) in
/-- A `behavior` that does not fault keeps `RunInv`. -/
theorem behavior_runinv (i : Instr) (s : St) (h : RunInv s) (hf : (behavior i s).fault = none) :
    RunInv (behavior i s).st := by
  cases hty : i.op.ty with
  | r => simp only [behavior, hty]; exact h.setReg _ _ (aluRR_lt _ _ _ (h.regs _) (h.regs _))
  | shiftI => simp only [behavior, hty]; exact h.setReg _ _ (aluRI_lt _ _ _ (h.regs _))
  | memI =>
    cases hr : (s.mem.read (accessBits i.op) ((s.regs i.rs1 : Int) + i.imm) true).res with
    | error e => rw [behavior_load_err i s hty hr] at hf; cases hf
    | ok v =>
      rw [behavior_load_ok i s hty hr]
      obtain ⟨hI, hlt, _⟩ := DInv_read_ok h.mem (widthOK_accessBits i.op) _ true hr
      exact (h.withMem (t := memSt' s _) hI rfl).setReg _ _ (loadExt_lt _ _ hlt)
  | s =>
    cases hr : (s.mem.write (accessBits i.op) (storeAddr i s) (s.regs i.rs2 % 2 ^ accessBits i.op)
        false).res with
    | error e => rw [behavior_store_err i s hty hr] at hf; cases hf
    | ok x =>
      rw [behavior_store_ok i s hty hr]
      obtain ⟨hI, _⟩ := DInv_write_ok h.mem (widthOK_accessBits i.op) _
        (Nat.mod_lt _ (Nat.two_pow_pos _)) hr
      exact h.withMem (t := memSt' s _) hI rfl
  | b =>
    simp only [behavior, hty]
    split
    · exact h.of_eq rfl rfl
    · exact h
  | u =>
    simp only [behavior, hty]
    split <;> exact h.setReg _ _ (wrapU_lt _)
  | j =>
    simp only [behavior, hty]
    exact (h.setReg _ _ (wrapU_lt _)).of_eq rfl rfl
  | i =>
    simp only [behavior, hty] at hf ⊢
    split
    · exact (h.setReg _ _ (wrapU_lt _)).of_eq rfl rfl
    · rename_i hj
      rw [if_neg hj] at hf
      split
      · rename_i he
        rw [if_pos he] at hf
        have hd := processEcall_dinv s h.mem
        rcases hp : processEcall s with ⟨m', r⟩
        rw [hp] at hd hf
        cases r with
        | out str => exact h.withMem (hd.resolve_left (fun ⟨e, he⟩ => by cases he)) rfl
        | exit c => exact h.withMem (hd.resolve_left (fun ⟨e, he⟩ => by cases he)) rfl
        | err e => cases hf
        | invalid c => cases hf
      · rename_i he
        rw [if_neg he] at hf
        split
        · exact h
        · exact h.setReg _ _ (aluRI_lt _ _ _ (h.regs _))
  | fence => simp only [behavior, hty] at hf; cases hf
  | csr => simp only [behavior, hty] at hf; cases hf
  | csri => simp only [behavior, hty] at hf; cases hf

/-! ### The access counter along `behavior` -/

theorem read_accepted_ok {ms : MemSys} (h : DInv ms) {bits : Nat} {a : Int} (hacc : Accepted bits a)
    (counted : Bool) : ∃ v, (ms.read bits a counted).res = .ok v := by
  obtain ⟨l, ds, rfl, hok⟩ := h
  exact ⟨_, (C03.read_accepted hok.polOK hok.cinv bits a counted hacc.1 hacc.2.1 hacc.2.2).1⟩

theorem write_accepted_ok {ms : MemSys} (h : DInv ms) {bits : Nat} {a : Int} (hacc : Accepted bits a)
    {v : Nat} (hv : v < 2 ^ bits) : (ms.write bits a v false).res = .ok 0 := by
  obtain ⟨l, ds, rfl, hok⟩ := h
  exact (Props.C03.write_refines hok.polOK hok.cinv bits a v hacc.1 hacc.2.1 hacc.2.2 hv).1

theorem dAcc_read_ok {ms : MemSys} (h : DInv ms) {bits : Nat} (hb : widthOK bits) (a : Int)
    (counted : Bool) {v : Nat} (hv : (ms.read bits a counted).res = .ok v) :
    dAcc (ms.read bits a counted).mem = dAcc ms + (if counted then 1 else 0) := by
  obtain ⟨l, ds, rfl, hok⟩ := h
  have hv' : (ds.read (polOps l) bits a counted).res = .ok v := hv
  exact read_acc_accesses hok (read_ok_spec hok hb a counted hv').1 counted

theorem dAcc_write_ok {ms : MemSys} (h : DInv ms) {bits : Nat} (hb : widthOK bits) (a : Int)
    {v : Nat} (hv : v < 2 ^ bits) {x : Nat} (hr : (ms.write bits a v false).res = .ok x) :
    dAcc (ms.write bits a v false).mem = dAcc ms + 1 := by
  obtain ⟨l, ds, rfl, hok⟩ := h
  have hr' : (ds.write (polOps l) bits a v false).res = .ok x := hr
  exact write_acc_accesses hok (write_ok_spec hok hb a hv hr').1 v

/-- Is the instruction a load or a store? -/
def isMemOp (i : Instr) : Bool := i.op.ty == .memI || i.op.ty == .s

/-- A load or store that does not fault is counted exactly once by `behavior`. -/
theorem behavior_dAcc_memop (i : Instr) (s : St) (h : RunInv s) (hm : isMemOp i = true)
    (hf : (behavior i s).fault = none) : dAcc (behavior i s).st.mem = dAcc s.mem + 1 := by
  unfold isMemOp at hm
  simp only [Bool.or_eq_true, beq_iff_eq] at hm
  rcases hm with hty | hty
  · cases hr : (s.mem.read (accessBits i.op) ((s.regs i.rs1 : Int) + i.imm) true).res with
    | error e => rw [behavior_load_err i s hty hr] at hf; cases hf
    | ok v =>
      rw [behavior_load_ok i s hty hr]
      exact dAcc_read_ok h.mem (widthOK_accessBits i.op) _ true hr
  · cases hr : (s.mem.write (accessBits i.op) (storeAddr i s) (s.regs i.rs2 % 2 ^ accessBits i.op)
        false).res with
    | error e => rw [behavior_store_err i s hty hr] at hf; cases hf
    | ok x =>
      rw [behavior_store_ok i s hty hr]
      exact dAcc_write_ok h.mem (widthOK_accessBits i.op) _ (Nat.mod_lt _ (Nat.two_pow_pos _)) hr

/-- Any other instruction (faulting or not, print-string ecall included) is not counted. -/
theorem behavior_dAcc_other (i : Instr) (s : St) (hm : isMemOp i = false) :
    dAcc (behavior i s).st.mem = dAcc s.mem := by
  unfold isMemOp at hm
  simp only [Bool.or_eq_false_iff, beq_eq_false_iff_ne, ne_eq] at hm
  have hpe := processEcall_dAcc s
  cases hty : i.op.ty with
  | memI => exact absurd hty hm.1
  | s => exact absurd hty hm.2
  | i =>
    simp only [behavior, hty]
    repeat' split
    all_goals first
      | rfl
      | (rename_i heq; rw [heq] at hpe; exact hpe)
  | _ =>
    simp only [behavior, hty]
    repeat' split
    all_goals rfl

end ArchSim.Lemmas.C09Prog
