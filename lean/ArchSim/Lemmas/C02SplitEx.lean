/-
C02 (data path): concrete instructions and states for the non-vacuity examples of
`ArchSim/Props/C02Split.lean`.
-/
import ArchSim.Lemmas.C02SplitMain

namespace ArchSim.Lemmas.C02Split.Ex
open ArchSim ArchSim.Rv ArchSim.Pipe

/-- A state with an uncached instruction memory holding `prog` and a flat data memory `m`. -/
def mkSt (prog : List Instr) (pc : Int) (regs : Nat → Nat) (m : Mem.Mem) : St :=
  { regs := regs, pc := pc, mem := .flat m, imem := { prog := prog, cache := none }, output := "",
    exitCode := none, cycles := 0, instrs := 0, branches := 0, procs := 0, stalls := 0, flushes := 0 }

/-- All hypotheses of `split_agrees` for a state, an instruction and a flat memory. -/
abbrev Hyps (s : St) (i : Instr) (m : Mem.Mem) : Prop :=
  i.WF ∧ s.imem.cache = none ∧ s.imem.instrAt s.pc = some i ∧ 0 ≤ s.pc ∧ s.pc < 16384 ∧
  (∀ r, s.regs r < 4294967296) ∧ s.mem = .flat m ∧ m.cfg.overflow = true ∧ m.cfg.addrBits = 32

def nop : Instr := { op := .addi }

/-- `lb x5, 4(x1)` with `x1 = 16380` and the byte `0x80` at 16384: sign extension to `0xFFFFFF80`. -/
def loadI : Instr := { op := .lb, rd := 5, rs1 := 1, imm := 4 }
def loadM : Mem.Mem := (Mem.writeN (Mem.Mem.empty Mem.riscvCfg) 16384 1 0x80).1
def loadRegs : Nat → Nat := fun r => if r = 1 then 16380 else 0
def loadSt : St := mkSt [nop, loadI] 4 loadRegs loadM

/-- `lw x5, 0(x0)`: address 0 is below the data segment, both implementations raise. -/
def badLoadI : Instr := { op := .lw, rd := 5, rs1 := 0, imm := 0 }
def badLoadSt : St := mkSt [badLoadI] 0 (fun _ => 0) (Mem.Mem.empty Mem.riscvCfg)

/-- `sw x2, -4(x1)` with `x1 = 2`: the split address is `-2`, `behavior()` uses `2^32 - 2`; the word
    straddles the top of the address space, two bytes are stored and then both raise for address 0. -/
def storeI : Instr := { op := .sw, rs1 := 1, rs2 := 2, imm := -4 }
def storeRegs : Nat → Nat := fun r => if r = 1 then 2 else if r = 2 then 0xCAFEF00D else 0
def storeSt : St := mkSt [storeI] 0 storeRegs (Mem.Mem.empty Mem.riscvCfg)

/-- `blt x1, x2, -8` at pc 8 with `x1 = 0xFFFFFFFF` (−1), `x2 = 1`: taken, back to pc 0. -/
def branchI : Instr := { op := .blt, rs1 := 1, rs2 := 2, imm := -8 }
def branchRegs : Nat → Nat := fun r => if r = 1 then 4294967295 else if r = 2 then 1 else 0
def branchSt : St := mkSt [nop, nop, branchI] 8 branchRegs (Mem.Mem.empty Mem.riscvCfg)

/-- `jalr x1, x1, -3` with `x1 = 0x1003`: target `0x1000`, link value 4 written to the same register. -/
def jalrI : Instr := { op := .jalr, rd := 1, rs1 := 1, imm := -3 }
def jalrRegs : Nat → Nat := fun r => if r = 1 then 4099 else 0
def jalrSt : St := mkSt [jalrI] 0 jalrRegs (Mem.Mem.empty Mem.riscvCfg)

/-- `ecall` with `a7 = 93`, `a0 = 7`: exit with status 7. -/
def ecallI : Instr := { op := .ecall }
def ecallRegs : Nat → Nat := fun r => if r = 17 then 93 else if r = 10 then 7 else 0
def ecallSt : St := mkSt [nop, ecallI] 4 ecallRegs (Mem.Mem.empty Mem.riscvCfg)

/-- `ecall` with `a7 = 5`: not a valid code. -/
def badEcallRegs : Nat → Nat := fun r => if r = 17 then 5 else 0
def badEcallSt : St := mkSt [ecallI] 0 badEcallRegs (Mem.Mem.empty Mem.riscvCfg)

/-- A write-back LRU data cache (2 sets, 2-word blocks, 2 ways, miss penalty 10) over `loadM`. -/
def cacheSys : Cache.DSys Repl.Pol :=
  Cache.DSys.init (Cache.polOps true) false { idxBits := 1, blkBits := 1, assoc := 2 } 10 loadM
/-- The load example over the cached memory (a miss: 10 penalty cycles). -/
def cachedLoadSt : St := { loadSt with mem := .cached true cacheSys }
/-- The straddling store example over the cached memory. -/
def cachedStoreSt : St := { storeSt with mem := .cached true cacheSys }

/-- General position: the `jalr x1, x1, -3` sits at address 8 in a latch with `stall` and `flagged`
    set, and completes from a state whose pc (20) has run ahead. -/
def genLatch : Latch :=
  { instr := jalrI, addr := 8, pc4 := 12, rr := accessRegs jalrI jalrRegs, wreg := writeReg jalrI,
    stall := true, flagged := true }
def genSt : St := { jalrSt with pc := 20 }
/-- General position, no redirect: `lb x5, 4(x1)` at address 8, state pc 20. -/
def genLatch2 : Latch :=
  { instr := loadI, addr := 8, pc4 := 12, rr := accessRegs loadI loadRegs, wreg := writeReg loadI }
def genSt2 : St := { loadSt with pc := 20 }

end ArchSim.Lemmas.C02Split.Ex
