/-
C07 helper lemmas: the stall bookkeeping commutes with erasure, and the erasure theorem
`erase (step p).p = Skeleton.step (erase p) (outcomes p)` for cycles without exception.
Core Lean only.
-/
import ArchSim.Lemmas.C07SkelEx
import ArchSim.Spec.Iter

namespace ArchSim.Lemmas.C07
open ArchSim ArchSim.Rv ArchSim.Pipe ArchSim.Lemmas.C02Split ArchSim.Spec

theorem erase_pick (old : Option Stall) (n1 n2 : Option Latch) :
    pickStall old n1 n2 = Skeleton.pick (old.map eraseStall) (latchStall n1) (latchStall n2) := by
  cases old <;> rfl

theorem erase_stalled1 (p : PSt) (n1 n2 : Option Latch) :
    (stalled1 p n1 n2).map eraseStall =
      Skeleton.stalledPick (erase p) (pickStall p.stalled n1 n2) := by
  unfold stalled1 Skeleton.stalledPick
  cases pickStall p.stalled n1 n2 with
  | none => rfl
  | some k =>
    simp only [erase]
    cases p.stalled with
    | none =>
      simp only [Option.map_some, Option.map_none, eraseStall, erase_setFlag]
      by_cases hk : k = 2
      · simp only [hk, if_true]; rw [erase_setFlag p.l1]
      · simp only [hk, if_false]; rfl
    | some old => rfl

theorem erase_countDown (o : Option Stall) :
    (countDown o).map eraseStall = Skeleton.countDown (o.map eraseStall) := by
  cases o with
  | none => rfl
  | some st =>
    unfold countDown Skeleton.countDown
    simp only [Option.map_some, eraseStall]
    split <;> rfl

theorem erase_keepEx (o : Option Stall) :
    (keepEx o).map eraseStall = Skeleton.keepEx (o.map eraseStall) := by
  cases o with
  | none => rfl
  | some st =>
    unfold keepEx Skeleton.keepEx
    simp only [Option.map_some, eraseStall]
    split <;> rfl

/-! ### The architectural fields the skeleton keeps, after the stages -/

theorem meO_pc (p : PSt) : (meO p).st.pc = Skeleton.pcIF (erase p) (outcomes p) := by
  unfold meO exO sWB
  rw [(memStage_frame _ _).2.1, (exStage_frame _ _ _ _).2.1, (wbStage_frame _ _).1, sIF_pc]

theorem meO_exited (p : PSt) : (meO p).st.exitCode.isSome = Skeleton.exitedWB (erase p) := by
  rw [← sWB_exited]
  unfold meO exO
  rw [(memStage_frame _ _).2.2.2.2.1, (exStage_frame _ _ _ _).2.2.2.2.2.1]

theorem meO_instrs (p : PSt) : (meO p).st.instrs = Skeleton.instrsWB (erase p) := by
  rw [← sWB_instrs]
  unfold meO exO
  rw [(memStage_frame _ _).2.2.2.2.2.1, (exStage_frame _ _ _ _).2.2.2.2.1]

theorem sPick_fields (p : PSt) (s : St) (n1 n2 : Option Latch) :
    (sPick p s n1 n2).pc = s.pc ∧ (sPick p s n1 n2).exitCode = s.exitCode ∧
    (sPick p s n1 n2).instrs = s.instrs ∧ (sPick p s n1 n2).flushes = s.flushes ∧
    (sPick p s n1 n2).stalls = s.stalls + (if (pickStall p.stalled n1 n2).isSome then 1 else 0) := by
  unfold sPick; split <;> simp [*]

theorem erase_mk (p : PSt) (s : St) (a0 a1 a2 a3 a4 : Option Latch) (sl : Option Stall) :
    erase { p with st := s, l0 := a0, l1 := a1, l2 := a2, l3 := a3, l4 := a4, stalled := sl } =
      { pc := s.pc, hazard := p.hazard, exited := s.exitCode.isSome, instrs := s.instrs,
        stalls := s.stalls, flushes := s.flushes, s0 := eraseO a0, s1 := eraseO a1, s2 := eraseO a2,
        s3 := eraseO a3, stalled := sl.map eraseStall } := rfl

/-- Erasing data commutes with a cycle that raises no exception. -/
theorem erase_step (p : PSt) (h : (step p).fault = none) :
    erase (step p).p = Skeleton.step (erase p) (outcomes p) := by
  obtain ⟨hf1, hf2⟩ := (step_fault_none_iff p).1 h
  obtain ⟨e2, st2, fl2⟩ := exO_erase p hf1
  obtain ⟨e3, fl3⟩ := meO_erase p hf2
  have e0 := erase_nIF p
  have e1 := erase_nID p
  obtain ⟨k1, k2, k3, k4, k5⟩ := sPick_fields p (meO p).st (nID p) (exO p).latch
  have hpick := erase_pick p.stalled (nID p) (exO p).latch
  have hs1 := erase_stalled1 p (nID p) (exO p).latch
  rw [step_ok p hf1 hf2]
  simp only
  unfold Skeleton.step
  simp only
  rw [← nWB_flush, ← fl3, ← fl2, ← nID_stallSig, ← st2]
  have hst : (erase p).stalled = p.stalled.map eraseStall := rfl
  rw [hst, ← hpick, ← hs1, ← erase_countDown, ← erase_keepEx]
  cases h4 : latchFlush (nWB p) with
  | some a =>
    rw [finishStep_flush4 _ _ _ _ _ _ _ a h4, erase_mk]
    simp only [sFlush, k2, k3, k4, k5, meO_exited, meO_instrs, C08.meO_stalls, meO_flushes]
    rfl
  | none =>
    cases h3 : latchFlush (meO p).latch with
    | some a =>
      rw [finishStep_flush3 _ _ _ _ _ _ _ a h4 h3, erase_mk]
      simp only [sFlush, k2, k3, k4, k5, meO_exited, meO_instrs, C08.meO_stalls, meO_flushes, e3]
      rfl
    | none =>
      cases h2 : latchFlush (exO p).latch with
      | some a =>
        rw [finishStep_flush2 _ _ _ _ _ _ _ a h4 h3 h2, erase_mk]
        simp only [sFlush, k2, k3, k4, k5, meO_exited, meO_instrs, C08.meO_stalls, meO_flushes, e2, e3]
        rfl
      | none =>
        rw [finishStep_noFlush _ _ _ _ _ _ _ h4 h3 h2, erase_mk]
        simp only [k1, k2, k3, k4, k5, meO_pc, meO_exited, meO_instrs, C08.meO_stalls, meO_flushes,
          e0, e1, e2, e3]
        rfl

theorem eraseO_isNone (l : Option Latch) : (eraseO l).isNone = l.isNone := by cases l <;> rfl

/-- `is_done` only looks at the skeleton (and at whether an instruction exists at the pc). -/
theorem erase_isDone (p : PSt) :
    Pipe.isDone p = Skeleton.isDone (erase p) (p.st.imem.instrAt p.st.pc).isSome := by
  unfold Pipe.isDone Skeleton.isDone erase
  simp only [eraseO_isNone]
  cases (p.st.imem.instrAt p.st.pc) <;> rfl

/-- Run of the skeleton along the outcomes of the pipeline run from `p`. -/
def skRun (p : PSt) : Nat → Skeleton.Sk
  | 0 => erase p
  | k + 1 => Skeleton.step (skRun p k) (outcomes (iter (fun q => (step q).p) k p))

/-- Along an exception-free run the skeleton of the pipeline state is the skeleton run. -/
theorem erase_run (p : PSt) (k : Nat)
    (h : ∀ j, j < k → (step (iter (fun q => (step q).p) j p)).fault = none) :
    erase (iter (fun q => (step q).p) k p) = skRun p k := by
  induction k with
  | zero => rfl
  | succ k ih =>
    rw [iter_succ', skRun, ← ih (fun j hj => h j (by omega))]
    exact erase_step _ (h k (by omega))

/-- With hazard detection off the skeleton's interlock rule is switched off. -/
theorem idStallSig_off (sk : Skeleton.Sk) (h : sk.hazard = false) : Skeleton.idStallSig sk = false := by
  unfold Skeleton.idStallSig; rw [h]; split <;> rfl

end ArchSim.Lemmas.C07
