/-
C17 (tables) — helper lemmas, part 6: `nBitRepr` SHOWS the value (`Spec.Shown.Shows`), the address
text shows the address.
-/
import ArchSim.Spec.Shown
import ArchSim.Lemmas.C17ViewsText

namespace ArchSim.Lemmas.C17Views
open ArchSim ArchSim.Views ArchSim.Fmt ArchSim.Spec.Digits ArchSim.Spec.Shown ArchSim.Lemmas.C17

/-- The formatter output shows the `n`-bit pattern of its input, for every integer input. -/
theorem nBitRepr_shows (n : Nat) (hn : 1 ≤ n) (x : Int) :
    Shows n (nBitRepr x n) (unsignedVal n x) where
  lt := unsignedVal_lt n x
  bin_val := by
    rw [bin_strip]
    exact (padded_natStr 2 (by decide) (by decide) n _ hn (unsignedVal_lt n x)).1
  bin_len := by
    rw [bin_strip]
    exact (padded_natStr 2 (by decide) (by decide) n _ hn (unsignedVal_lt n x)).2
  bin_groups := by
    rw [bin_strip, nBitRepr_bin]
    exact splitSpaces_groupify 8 (by decide) _ (padLeft_ne_nil _ _ (natStr_ne_nil _ _))
      (padded_natStr_no_space 2 (by decide) (by decide) _ _)
  udec_val := by rw [nBitRepr_udec]; exact ofDigits_natStr 10 (by decide) (by decide) _
  udec_canon := by
    rw [nBitRepr_udec]
    exact ⟨natStr_head_ne_zero 10 (by decide) (by decide) _, fun h => h ▸ natStr_zero 10⟩
  hex_val := by
    rw [hex_strip]
    exact (padded_natStr 16 (by decide) (by decide) ((n + 3) / 4) _ (by omega)
      (unsignedVal_lt_hex n x)).1
  hex_len := by
    rw [hex_strip]
    exact (padded_natStr 16 (by decide) (by decide) ((n + 3) / 4) _ (by omega)
      (unsignedVal_lt_hex n x)).2
  hex_upper := by
    rw [hex_strip]; exact padded_natStr_upperHex 16 (by decide) (by decide) _ _
  hex_groups := by
    rw [hex_strip, nBitRepr_hex]
    exact splitSpaces_groupify 2 (by decide) _ (padLeft_ne_nil _ _ (natStr_ne_nil _ _))
      (padded_natStr_no_space 16 (by decide) (by decide) _ _)
  sdec_val := by rw [nBitRepr_sdec]; exact parseSigned_intStr _

theorem unsignedVal_natCast (n w : Nat) : unsignedVal n (w : Int) = w % 2 ^ n := by
  unfold unsignedVal
  have : ((w : Int) % (2 : Int) ^ n) = ((w % 2 ^ n : Nat) : Int) := by
    simp
  rw [this, Int.toNat_natCast]

/-- For a natural-number input the shown pattern is `w % 2^n` (so `w` itself when `w < 2^n`). -/
theorem nBitRepr_shows_nat (n : Nat) (hn : 1 ≤ n) (w : Nat) :
    Shows n (nBitRepr (w : Int) n) (w % 2 ^ n) := by
  rw [← unsignedVal_natCast]; exact nBitRepr_shows n hn _

theorem nBitRepr_shows_lt (n : Nat) (hn : 1 ≤ n) (w : Nat) (hw : w < 2 ^ n) :
    Shows n (nBitRepr (w : Int) n) w := by
  have := nBitRepr_shows_nat n hn w
  rwa [Nat.mod_eq_of_lt hw] at this

/-- The address text shows the address (non-negative addresses). -/
theorem addrText_shows (w : Nat) (hw : 1 ≤ w) (a : Int) :
    ShowsAddr w (addrText w a) a.toNat := by
  refine ⟨padLeft w (natStr 16 a.toNat), addrText_toList w a, ?_, ?_, fun h => ?_⟩
  · rw [← upHex_toList]; exact (upHex_spec w _).1
  · rw [← upHex_toList]; exact (upHex_spec w _).2.1
  · rw [← upHex_toList]; exact (upHex_spec w _).2.2 hw h

end ArchSim.Lemmas.C17Views
