/-
C02 (control half), part 10: the abstraction commutes with one cycle (`abs_step`).
-/
import ArchSim.Lemmas.C02Phys

namespace ArchSim.Pipe
open ArchSim ArchSim.Rv

/-- Completion of the two oldest entries (the inputs of WB and MEM). -/
def older (p : PSt) : Comp := (cWB p.st p.l3 none).bind (fun s => cMEM s (memInput p) none)

theorem absC_eq (p : PSt) :
    absC p = (((older p).bind (fun s => cEX s (exInput p))).bind (fun s => cID s (idInput p))).bind
      (fun s => cID s (ifEntry p)) := rfl

/-- After MEM and WB advanced (and EX left the state alone), completing the new MEM/WB latch from the
    physical state is the completion of the two oldest entries before the cycle. -/
theorem older_noexec (p : PSt) (hI : PInv p) (h3 : latchExit p.l3 = false)
    (hst : (exOut p).st = (wbOut p).1) (hme : (memOut p).fault = none) :
    CSimL (latchLog p.l3) (cWB (memOut p).st (memOut p).latch (latchFlush (memOut p).latch)) (older p) := by
  unfold older
  rw [cWB_noexit _ _ h3, bind_logged]
  have hm : memOut p = memStage (wbOut p).1 (memInput p) := by unfold memOut; rw [hst]
  rw [hm] at hme ⊢
  have := cMEM_nofault (wbOut p).1 (memInput p) none hme
  rw [orElseFl_none_right] at this
  rw [← this]
  exact CSimL.trans_left (cMEM_sim (wbOut_sim p hI).symm _ _) (CSimL_prefixLog _ _)

/-- When an ECALL runs in EX nothing older is in flight. -/
theorem older_exec (p : PSt) (hm : memInput p = none) (h3 : p.l3 = none) : older p = pureC p.st := by
  unfold older; rw [hm, h3]; rfl

end ArchSim.Pipe

namespace ArchSim.Pipe
open ArchSim ArchSim.Rv

/-- Observational equality including the pc. -/
def SimP (s t : St) : Prop := Sim s t ∧ s.pc = t.pc

theorem pcOr_of_red {c : Comp} {b : Int × Option Fault} (h : c.red = some b) (x : Int) : c.pcOr x = b.1 := by
  unfold Comp.pcOr; rw [h]
theorem pcOr_of_none {c : Comp} (h : c.red = none) (x : Int) : c.pcOr x = x := by
  unfold Comp.pcOr; rw [h]

theorem flt_congr {c d : Comp} (h : c.red = d.red) : c.flt = d.flt := by unfold Comp.flt; rw [h]
@[simp] theorem finishC_flt (s : St) (fl : Option Int) : (finishC s fl).flt = none := by cases fl <;> rfl
@[simp] theorem cWB_flt (s : St) (l : Option Latch) (fl : Option Int) : (cWB s l fl).flt = none := by
  unfold cWB; exact finishC_flt (wbStage s l).1 _

@[simp] theorem cWB_log (s : St) (l : Option Latch) (fl : Option Int) : (cWB s l fl).log = latchLog l := rfl

theorem flushSt_sim (s : St) (a : Int) : Sim (flushSt s a) s := ⟨rfl, rfl, rfl, rfl, rfl, rfl, rfl, rfl⟩
theorem stallBump_sim (k : Option Nat) (s : St) : Sim (stallBump k s) s := by
  unfold stallBump; split <;> exact ⟨rfl, rfl, rfl, rfl, rfl, rfl, rfl, rfl⟩

theorem memInput_none_of_l2 (p : PSt) (h : p.l2 = none) : memInput p = none := by
  unfold memInput; split
  · exact h
  · split <;> simp [h]

/-- `abs` of a state with empty latches is the physical state. -/
theorem absC_empty (p : PSt) (h0 : p.l0 = none) (h1 : p.l1 = none) (h2 : p.l2 = none) (h3 : p.l3 = none)
    (hs : p.stalled = none) : absC p = pureC p.st := by
  simp [absC, memInput, exInput, idInput, ifEntry, hs, h0, h1, h2, h3]

/-- WB flush (an exiting ECALL retires): everything younger was already dead. -/
theorem abs_flush4 (p : PSt) (hI : PInv p) (a : Int) (h4 : latchFlush (wbOut p).2 = some a) :
    SimP (abs (finishStep p (memOut p).st (ifOut p).2 (idOut p) (exOut p).latch (memOut p).latch (wbOut p).2))
      (abs p) ∧ (absC p).red.isSome = true ∧
      absF (finishStep p (memOut p).st (ifOut p).2 (idOut p) (exOut p).latch (memOut p).latch (wbOut p).2) = absF p ∧
      latchLog p.l3 ++
        absLog (finishStep p (memOut p).st (ifOut p).2 (idOut p) (exOut p).latch (memOut p).latch (wbOut p).2) =
        absLog p := by
  rw [finishStep_flush4 _ _ _ _ _ _ _ a h4]
  have hx : latchExit p.l3 = true := by
    rw [← wbStage_flush_isSome (ifOut p).1 p.l3]; unfold wbOut at h4; rw [h4]; rfl
  have hm : memInput p = none := memInput_none_of_l2 p (hI.e3 hx)
  have hsx : (exOut p).st = (wbOut p).1 := by
    rcases exOut_cases p hI with h | ⟨_, _, _, _, _, h⟩
    · exact h
    · rw [h] at hx; cases hx
  have hsm : (memOut p).st = (wbOut p).1 := by unfold memOut; rw [hm, hsx]; rfl
  -- the abstraction before the step stops at the exiting ECALL
  have hfl : latchFlush (wbStage p.st p.l3).2 = some a := by
    rw [(wbStage_sim (ifOut_sim p hI) p.l3).2]; exact h4
  have hp : absC p = ⟨(wbStage p.st p.l3).1, some (a % 4294967296, none), latchLog p.l3⟩ := by
    have : cWB p.st p.l3 none = ⟨(wbStage p.st p.l3).1, some (a % 4294967296, none), latchLog p.l3⟩ := by
      unfold cWB; rw [hfl]; rfl
    unfold absC; rw [this]; rfl
  refine ⟨?_, by rw [hp]; rfl, by unfold absF; rw [hp, absC_empty _ rfl rfl rfl rfl rfl]; rfl, by
    unfold absLog; rw [hp, absC_empty _ rfl rfl rfl rfl rfl]; exact List.append_nil _⟩
  unfold abs
  rw [hp, absC_empty _ rfl rfl rfl rfl rfl]
  refine ⟨?_, rfl⟩
  dsimp only
  rw [hsm]
  have h1 := (flushSt_sim (stallBump (pickStall p.stalled (idOut p) (exOut p).latch) (wbOut p).1) a).trans
    ((stallBump_sim _ _).trans (wbOut_sim p hI).symm)
  exact ⟨h1.1, h1.2, h1.3, h1.4, h1.5, h1.6, h1.7, h1.8⟩

end ArchSim.Pipe

namespace ArchSim.Pipe
open ArchSim ArchSim.Rv

theorem sim_setPc (s : St) (x : Int) : Sim { s with pc := x } s := ⟨rfl, rfl, rfl, rfl, rfl, rfl, rfl, rfl⟩

theorem Sim.withPc {s t : St} (h : Sim s t) (x y : Int) : Sim { s with pc := x } { t with pc := y } :=
  ((sim_setPc s x).trans h).trans (sim_setPc t y).symm

theorem latchExit_of_wbflush_none (p : PSt) (h4 : latchFlush (wbOut p).2 = none) : latchExit p.l3 = false := by
  rw [← wbStage_flush_isSome (ifOut p).1 p.l3]; unfold wbOut at h4; rw [h4]; rfl

/-- MEM flush (taken branch, jump, exiting ECALL in MEM): everything younger was already dead. -/
theorem abs_flush3 (p : PSt) (hI : PInv p) (hme : (memOut p).fault = none) (a : Int)
    (h4 : latchFlush (wbOut p).2 = none) (h3 : latchFlush (memOut p).latch = some a) :
    SimP (abs (finishStep p (memOut p).st (ifOut p).2 (idOut p) (exOut p).latch (memOut p).latch (wbOut p).2))
      (abs p) ∧ (absC p).red.isSome = true ∧
      absF (finishStep p (memOut p).st (ifOut p).2 (idOut p) (exOut p).latch (memOut p).latch (wbOut p).2) = absF p ∧
      latchLog p.l3 ++
        absLog (finishStep p (memOut p).st (ifOut p).2 (idOut p) (exOut p).latch (memOut p).latch (wbOut p).2) =
        absLog p := by
  rw [finishStep_flush3 _ _ _ _ _ _ _ a h4 h3]
  have hx := latchExit_of_wbflush_none p h4
  have hsx : (exOut p).st = (wbOut p).1 := by
    rcases exOut_cases p hI with h | ⟨_, _, _, _, h, _⟩
    · exact h
    · rw [(memOut_latch_eq_none p hme).2 h] at h3; cases h3
  have hold := older_noexec p hI hx hsx hme
  rw [h3] at hold
  -- the abstraction before the step stops at the redirecting instruction
  have hred : ∃ b, (cWB (memOut p).st (memOut p).latch (some a)).red = some b := by
    unfold cWB
    cases latchFlush (wbStage (memOut p).st (memOut p).latch).2 with
    | none => exact ⟨_, rfl⟩
    | some b => exact ⟨_, rfl⟩
  obtain ⟨b, hb⟩ := hred
  have hob : (older p).red = some b := by rw [← hold.1]; exact hb
  have hp : absC p = older p := by
    rw [absC_eq, bind_of_red_some hob, bind_of_red_some hob, bind_of_red_some hob]
  have ho : ∀ (s : St) (n3 l4 : Option Latch),
      absC { p with st := s, l0 := none, l1 := none, l2 := none, l3 := n3, l4 := l4, stalled := none } =
        cWB s n3 none := by
    intro s n3 l4
    simp [absC, memInput, exInput, idInput, ifEntry]
  refine ⟨?_, by rw [hp, hob]; rfl, by
    unfold absF; rw [hp, ho, cWB_flt, ← flt_congr hold.1, cWB_flt], by
    unfold absLog; rw [hp, ho]; exact hold.3⟩
  unfold abs
  rw [hp, ho, pcOr_of_red hob]
  -- compare the two write-backs
  have hs : Sim (flushSt (stallBump (pickStall p.stalled (idOut p) (exOut p).latch) (memOut p).st) a)
      (memOut p).st := (flushSt_sim _ a).trans (stallBump_sim _ _)
  obtain ⟨hw1, hw2⟩ := wbStage_sim hs (memOut p).latch
  have hc := hold
  unfold cWB at hb hc ⊢
  rw [hw2]
  cases hF : latchFlush (wbStage (memOut p).st (memOut p).latch).2 with
  | none =>
    rw [hF] at hb hc
    simp only [orElseFl_none_left, finishC_none] at hb hc ⊢
    refine ⟨(hw1.trans hc.2).withPc _ _, ?_⟩
    have : b = (a % 4294967296, none) := by simpa [finishC] using hb.symm
    rw [this]; rfl
  | some c =>
    rw [hF] at hb hc
    simp only [orElseFl_some, finishC_st] at hb hc ⊢
    refine ⟨(hw1.trans hc.2).withPc _ _, ?_⟩
    have : b = (c % 4294967296, none) := by simpa [finishC] using hb.symm
    rw [this]; rfl

end ArchSim.Pipe

namespace ArchSim.Pipe
open ArchSim ArchSim.Rv

@[simp] theorem ecallMustWait_none (d : Latch) : ecallMustWait d none none = false := by
  simp [ecallMustWait]

theorem cWB_some_red (s : St) (l : Option Latch) (a : Int) : ∃ b, (cWB s l (some a)).red = some b := by
  unfold cWB
  cases latchFlush (wbStage s l).2 with
  | none => exact ⟨_, rfl⟩
  | some b => exact ⟨_, rfl⟩

/-- Completing an executed exiting ECALL from MEM always redirects, whatever EX requested. -/
theorem cMEM_exit (s : St) (e : Latch) (hop : e.instr.op = .ecall) (hx : e.exitCode.isSome = true)
    (fl fl' : Option Int) :
    cMEM s (some e) fl = cMEM s (some e) fl' ∧ ∃ b, (cMEM s (some e) fl).red = some b := by
  cases hf : (memStage s (some e)).fault with
  | some f => unfold cMEM; rw [hf]; exact ⟨rfl, _, rfl⟩
  | none =>
    obtain ⟨m, hm, _, _, _, _, _, hfl⟩ := memStage_facts s e hf
    rw [cMEM_nofault _ _ fl hf, cMEM_nofault _ _ fl' hf, hm]
    simp only [latchFlush_some, hfl, memFlush_exit e hop hx, orElseFl_some]
    exact ⟨trivial, cWB_some_red _ _ _⟩

end ArchSim.Pipe

namespace ArchSim.Pipe
open ArchSim ArchSim.Rv

/-- An ECALL that runs in EX this cycle: its completion before the cycle (execute + …) is the
    completion of its EX/MEM latch from the physical state after the cycle. -/
theorem exec_commutes (p : PSt) (hI : PInv p) (hex : (exOut p).fault = none) (d : Latch)
    (hd : exInput p = some d) (hop : d.instr.op = .ecall) (hrun : exOut p = ecallRun (wbOut p).1 d)
    (hm : memInput p = none) (h3 : p.l3 = none) :
    CSim ((older p).bind (fun s => cEX s (exInput p)))
      (cMEM (memOut p).st (exOut p).latch (latchFlush (exOut p).latch)) := by
  rw [older_exec p hm h3, bind_pure, hd]
  have hsm : (memOut p).st = (exOut p).st := by unfold memOut; rw [hm]; rfl
  have hs2 : Sim p.st (wbOut p).1 := by
    have := wbOut_sim p hI; rw [h3] at this; exact this
  have hgo : exStage p.st (some d) none none = ecallRun p.st d :=
    exStage_ecall_go p.st d none none hop (ecallMustWait_none d)
  obtain ⟨e1, e2, e3⟩ := ecallRun_sim hs2 d
  have hf : (exStage p.st (some d) none none).fault = none := by rw [hgo, e3, ← hrun]; exact hex
  rw [cEX_nofault _ _ hf, hgo, e2, hsm, hrun]
  exact cMEM_sim e1 _ _

end ArchSim.Pipe

namespace ArchSim.Pipe
open ArchSim ArchSim.Rv

/-- EX flush (an exiting ECALL runs): everything younger was already dead. -/
theorem abs_flush2 (p : PSt) (hI : PInv p) (hex : (exOut p).fault = none) (hme : (memOut p).fault = none)
    (a : Int) (h4 : latchFlush (wbOut p).2 = none) (h3 : latchFlush (memOut p).latch = none)
    (h2 : latchFlush (exOut p).latch = some a) :
    SimP (abs (finishStep p (memOut p).st (ifOut p).2 (idOut p) (exOut p).latch (memOut p).latch (wbOut p).2))
      (abs p) ∧ (absC p).red.isSome = true ∧
      absF (finishStep p (memOut p).st (ifOut p).2 (idOut p) (exOut p).latch (memOut p).latch (wbOut p).2) = absF p ∧
      latchLog p.l3 ++
        absLog (finishStep p (memOut p).st (ifOut p).2 (idOut p) (exOut p).latch (memOut p).latch (wbOut p).2) =
        absLog p := by
  rw [finishStep_flush2 _ _ _ _ _ _ _ a h4 h3 h2]
  obtain ⟨hm, hl3, hst⟩ := flush2_mode p hI hex a h2
  rw [hst, (memOut_latch_eq_none p hme).2 hm]
  obtain ⟨d, hd, hop, hw, _⟩ := exOut_flush p hex a h2
  have hrun : exOut p = ecallRun (wbOut p).1 d := by
    unfold exOut; rw [hd]; exact exStage_ecall_go _ d _ _ hop hw
  have hc := exec_commutes p hI hex d hd hop hrun hm hl3
  -- the EX/MEM latch is an executed exiting ECALL
  obtain ⟨e, he, hei, _, _, _, hefl, _, _⟩ := exStage_facts (wbOut p).1 d p.l2 p.l3 (by
    have := hex; unfold exOut at this; rw [hd] at this; exact this)
  have he' : (exOut p).latch = some e := by unfold exOut; rw [hd]; exact he
  have hxe : e.exitCode.isSome = true := by
    rw [← hefl]; rw [he'] at h2; simp only [latchFlush_some] at h2; rw [h2]; rfl
  have hope : e.instr.op = .ecall := by rw [hei]; exact hop
  rw [he'] at hc ⊢
  obtain ⟨b, hb⟩ := (cMEM_exit (memOut p).st e hope hxe (latchFlush (some e)) none).2
  have hob : ((older p).bind (fun s => cEX s (exInput p))).red = some b := by rw [hc.1]; exact hb
  have hp : absC p = (older p).bind (fun s => cEX s (exInput p)) := by
    rw [absC_eq, bind_of_red_some hob, bind_of_red_some hob]
  have ho : ∀ (s : St) (l4 : Option Latch),
      absC { p with st := s, l0 := none, l1 := none, l2 := some e, l3 := none, l4 := l4, stalled := none } =
        cMEM s (some e) none := by
    intro s l4
    simp [absC, memInput, exInput, idInput, ifEntry]
  have hs : Sim (flushSt (stallBump (pickStall p.stalled (idOut p) (some e)) (memOut p).st) a)
      (memOut p).st := (flushSt_sim _ a).trans (stallBump_sim _ _)
  have hc2 := (cMEM_sim hs (some e) none).trans
    ((cMEM_exit (memOut p).st e hope hxe none (latchFlush (some e))).1 ▸ hc.symm)
  refine ⟨?_, by rw [hp, hob]; rfl, by unfold absF; rw [hp, ho]; exact flt_congr hc2.1, by
    unfold absLog; rw [hp, ho, hl3]; exact hc2.3⟩
  unfold abs
  rw [hp, ho, pcOr_of_red hob]
  rw [pcOr_of_red (hc2.1.trans hob)]
  exact ⟨hc2.2.withPc _ _, rfl⟩

end ArchSim.Pipe
