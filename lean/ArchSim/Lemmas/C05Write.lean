/-
C05 helper lemmas, part 3: a run of direct writes (`writeSeq`) on the flat RISC-V data memory — what it
stores, what it leaves alone — and reading the stored cells back with the accessor of the same width.
-/
import ArchSim.Model.Asm
import ArchSim.Lemmas.C18Repr

namespace ArchSim.Lemmas.C05
open ArchSim ArchSim.Asm ArchSim.Rv ArchSim.Mem ArchSim.Lemmas.C18
open ArchSim.Spec.ByteStore (cellVal cellOk leSum)

theorem riscv_cellsOf (bits : Nat) : cellsOf riscvCfg bits = bits / 8 := rfl

/-- one direct write of 1, 2 or 4 bytes inside `[16384, 2^32)` on a flat memory: never fails, stores the
    little-endian bytes of the value, leaves every other cell alone -/
theorem flat_write_ok (m : Mem) (hc : m.cfg = riscvCfg) (bits : Nat) (hb : bits = 8 ∨ bits = 16 ∨ bits = 32)
    (a : Int) (hlo : 16384 ≤ a) (hhi : a + ((bits / 8 : Nat) : Int) ≤ 4294967296) (v : Nat) (direct : Bool) :
    ∃ m', MemSys.write (.flat m) bits a v direct = { mem := .flat m', res := .ok 0, extra := 0 } ∧
      m'.cfg = riscvCfg ∧
      (∀ x, (x < a ∨ a + ((bits / 8 : Nat) : Int) ≤ x) → m'.cells x = m.cells x) ∧
      (∀ j : Nat, j < bits / 8 → m'.cells (a + (j : Int)) = cellVal riscvCfg v j) := by
  have hok : ∀ i, i < bits / 8 → cellOk m.cfg a i = true := by
    intro i hi; rw [hc, riscv_cellOk_iff]; omega
  have hwr : ∀ i : Nat, i < bits / 8 → wrapAddr m.cfg (a + (i : Int)) = a + (i : Int) := by
    intro i hi; rw [hc, riscv_wrap]; omega
  refine ⟨(writeN m a (bits / 8) v).1, ?_, ?_, ?_, ?_⟩
  · have hnone := writeN_all_ok m a (bits / 8) v hok
    have hcb : ¬ riscvCfg.cellBits > bits := by show ¬ 8 > bits; omega
    simp only [MemSys.write, Mem.write, hc, hcb, if_false, riscv_cellsOf]
    generalize hw : writeN m a (bits / 8) v = w at hnone
    obtain ⟨m1, e1⟩ := w
    simp only at hnone
    subst hnone
    rfl
  · rw [writeN_cfg, hc]
  · intro x hx
    apply writeN_cells_other
    intro i hi
    rw [hwr i hi]; omega
  · intro j hj
    have := writeN_cells_written m a (bits / 8) v j hj hok (by
      intro j' hjj' hj'
      rw [hwr j hj, hwr j' hj']; omega)
    rw [hwr j hj, hc] at this
    exact this

/-- `writeSeq` never moves the counter down (any memory system) -/
theorem writeSeq_ctr_ge (bits : Nat) (vals : List Int) (ms : MemSys) (a : Int) :
    a ≤ (writeSeq bits vals ms a).2.1 := by
  induction vals generalizing ms a with
  | nil => simp [writeSeq]
  | cons v vs ih =>
    simp only [writeSeq]
    split
    · exact Int.le_refl _
    · exact Int.le_refl _
    · have := ih (ms.write bits a ((v % (2 : Int) ^ bits).toNat) true).mem (a + ((bits / 8 : Nat) : Int))
      omega

/-- a run of direct writes of `bits`-bit values at stride `bits/8` inside `[16384, 2^32)` on a flat
    memory: no error, the counter advances by the total size, element `i` holds the little-endian bytes
    of `vals[i] mod 2^bits`, every cell outside the run is unchanged -/
theorem writeSeq_flat (bits : Nat) (hb : bits = 8 ∨ bits = 16 ∨ bits = 32) (vals : List Int) (m : Mem)
    (hc : m.cfg = riscvCfg) (a : Int) (hlo : 16384 ≤ a)
    (hhi : a + (vals.length : Int) * ((bits / 8 : Nat) : Int) ≤ 4294967296) :
    ∃ m', writeSeq bits vals (.flat m) a = (.flat m', a + (vals.length : Int) * ((bits / 8 : Nat) : Int), none) ∧
      m'.cfg = riscvCfg ∧
      (∀ x, (x < a ∨ a + (vals.length : Int) * ((bits / 8 : Nat) : Int) ≤ x) → m'.cells x = m.cells x) ∧
      (∀ (i : Nat) (hi : i < vals.length) (j : Nat), j < bits / 8 →
        m'.cells (a + (i : Int) * ((bits / 8 : Nat) : Int) + (j : Int)) =
          cellVal riscvCfg ((vals[i] % (2 : Int) ^ bits).toNat) j) := by
  induction vals generalizing m a with
  | nil => exact ⟨m, by simp [writeSeq], hc, fun _ _ => rfl, fun i hi => absurd hi (Nat.not_lt_zero _)⟩
  | cons v vs ih =>
    have hsz : 0 < bits / 8 := by omega
    have hlen : ((v :: vs).length : Int) = (vs.length : Int) + 1 := by simp
    rw [hlen] at hhi ⊢
    have hmul : ((vs.length : Int) + 1) * ((bits / 8 : Nat) : Int)
        = (vs.length : Int) * ((bits / 8 : Nat) : Int) + ((bits / 8 : Nat) : Int) := by
      rw [Int.add_mul, Int.one_mul]
    have hnn : 0 ≤ (vs.length : Int) * ((bits / 8 : Nat) : Int) := Int.mul_nonneg (by omega) (by omega)
    rw [hmul] at hhi ⊢
    obtain ⟨m1, hw, hc1, hfr1, hst1⟩ :=
      flat_write_ok m hc bits hb a hlo (by omega) ((v % (2 : Int) ^ bits).toNat) true
    obtain ⟨m2, hw2, hc2, hfr2, hst2⟩ := ih m1 hc1 (a + ((bits / 8 : Nat) : Int)) (by omega) (by omega)
    refine ⟨m2, ?_, hc2, ?_, ?_⟩
    · simp only [writeSeq, hw, hw2]
      congr 2
      omega
    · intro x hx
      rw [hfr2 x (by omega), hfr1 x (by omega)]
    · intro i hi j hj
      cases i with
      | zero =>
        simp only [List.getElem_cons_zero]
        have e : a + ((0 : Nat) : Int) * ((bits / 8 : Nat) : Int) + (j : Int) = a + (j : Int) := by simp
        rw [e, hfr2 _ (by omega), hst1 j hj]
      | succ i' =>
        simp only [List.getElem_cons_succ]
        have hi' : i' < vs.length := by simpa using hi
        have e : a + ((i' + 1 : Nat) : Int) * ((bits / 8 : Nat) : Int) + (j : Int)
            = a + ((bits / 8 : Nat) : Int) + (i' : Int) * ((bits / 8 : Nat) : Int) + (j : Int) := by
          rw [Int.natCast_succ, Int.add_mul, Int.one_mul]; omega
        rw [e]
        exact hst2 i' hi' j hj

/-! ### reading cells back -/

/-- if the `n = bits/8` cells from `x` on hold the little-endian bytes of `v`, the accessor of width
    `bits` returns `v mod 2^bits` -/
theorem read_of_cells (m : Mem) (hc : m.cfg = riscvCfg) (bits : Nat) (hb : bits = 8 ∨ bits = 16 ∨ bits = 32)
    (x : Int) (hlo : 16384 ≤ x) (hhi : x + ((bits / 8 : Nat) : Int) ≤ 4294967296) (v : Nat)
    (hcells : ∀ j : Nat, j < bits / 8 → m.cells (x + (j : Int)) = cellVal riscvCfg v j) :
    Mem.read m bits x = some (.ok (v % 2 ^ bits)) := by
  have hok : ∀ i, i < bits / 8 → cellOk m.cfg x i = true := by
    intro i hi; rw [hc, riscv_cellOk_iff]; omega
  have hcb : ¬ m.cfg.cellBits > bits := by rw [hc]; show ¬ 8 > bits; omega
  simp only [Mem.read, hcb, if_false]
  rw [hc, riscv_cellsOf, readN_ok m x (bits / 8) hok, hc]
  rw [leSum_congr riscvCfg (bits / 8) _ (cellVal riscvCfg v) (by
    intro i hi
    rw [riscv_wrap, Int.emod_eq_of_lt (by omega) (by omega)]
    exact hcells i hi)]
  rw [leSum_cellVal]
  have : bits / 8 * riscvCfg.cellBits = bits := by
    show bits / 8 * 8 = bits
    rcases hb with rfl | rfl | rfl <;> rfl
  simp [Except.map, this]

/-- the flat memory system's read of a valid cell run -/
theorem flat_read_byte_cell (m : Mem) (hc : m.cfg = riscvCfg) (x : Int) (hlo : 16384 ≤ x) (hhi : x < 4294967296)
    (hlt : m.cells x < 256) :
    Mem.read m 8 x = some (.ok (m.cells x)) := by
  have := read_of_cells m hc 8 (Or.inl rfl) x hlo (by simp; omega) (m.cells x) (by
    intro j hj
    have : j = 0 := by omega
    subst this
    rw [C18.cellVal_zero]
    simp only [Int.natCast_zero, Int.add_zero]
    exact (Nat.mod_eq_of_lt hlt).symm)
  rw [this]
  simp [Nat.mod_eq_of_lt hlt]

end ArchSim.Lemmas.C05
