/-
C04 (spelling independence), part 30: branch and jump lines whose target is a label, or a label plus a
hexadecimal offset, in any spelling of the rest of the line.
-/
import ArchSim.Lemmas.C04SpellPseudo

namespace ArchSim.Lemmas.C04Spell
open ArchSim ArchSim.PP ArchSim.Rv ArchSim.Asm ArchSim.Lemmas.C14

/-- blanks, a label, the rest -/
def tLab (w lab rest : List Char) : List Char := w ++ (lab ++ rest)

theorem pLabel_tLab (w lab rest : List Char) (hw : AllWs w) (hl : IsLabel lab) (hr : TokEnd rest) :
    pLabel (tLab w lab rest) = .ok (String.ofList lab) rest := by
  obtain ⟨c, cs, rfl, hc, hcs⟩ := hl
  rw [tLab, pLabel_ws w _ hw]
  simp only [pLabel, word, List.cons_append, skipWs_cons_of_not_ws c _ (labelInit_facts c hc).1, wordAdj, hc,
    if_true, takeWhile_class isLabelBody cs _ hcs hr, dropWhile_class isLabelBody cs _ hcs hr]

theorem labelInit_table2 : ∀ n < 128, isLabelInit (Char.ofNat n) = true →
    Char.ofNat n ≠ '-' ∧ isNum (Char.ofNat n) = false := by decide

theorem pImm_fail_tLab (w lab rest : List Char) (hw : AllWs w) (hl : IsLabel lab) :
    pImm (tLab w lab rest) = .fail := by
  obtain ⟨c, cs, rfl, hc, hcs⟩ := hl
  have h1 := labelInit_facts c hc
  have h2 := ascii_cases (fun c => isLabelInit c = true → c ≠ '-' ∧ isNum c = false) c
    (labelBody_ascii c (labelInit_body c hc)) labelInit_table2 hc
  rw [tLab, pImm_ws w _ hw]
  exact pImm_fail_head c _ h2.1 h2.2 h1.1

/-- the text of an optional offset: nothing, or `+ 0x<hex digits>` with blanks around the `+` -/
inductive OffSp where
  | none
  | some (wa wb ds : List Char)

def offTxt : OffSp → List Char
  | .none => []
  | .some wa wb ds => wa ++ '+' :: (wb ++ '0' :: 'x' :: ds)

def offVal : OffSp → Int
  | .none => 0
  | .some _ _ ds => (digitsVal 16 ds : Nat)

def OffOk : OffSp → Prop
  | .none => True
  | .some wa wb ds => AllWs wa ∧ AllWs wb ∧ (∀ c ∈ ds, isHexNum c = true) ∧ ds ≠ []

theorem tokEnd_offTxt (o : OffSp) (ho : OffOk o) (tr : List Char) (htr : AllWs tr) : TokEnd (offTxt o ++ tr) := by
  cases o with
  | none => exact tokEnd_allWs tr htr
  | some wa wb ds =>
    simp only [offTxt, List.append_assoc, List.cons_append]
    exact tokEnd_ws_append wa _ ho.1 (tokEnd_cons '+' _ (by decide))

theorem pOffset_offTxt (o : OffSp) (ho : OffOk o) (tr : List Char) (htr : AllWs tr) :
    pOffset (offTxt o ++ tr) = .ok (offVal o) tr := by
  cases o with
  | none =>
    have : lit "+" tr = .fail := by simp [lit, skipWs_allWs tr htr, stripPrefix]
    simp only [offTxt, List.nil_append, pOffset, this, bind_fail, offVal]
  | some wa wb ds =>
    obtain ⟨ha, hb, hds, hne⟩ := ho
    obtain ⟨c, tl, rfl⟩ := exists_cons_of_ne_nil hne
    have htl : ∀ d ∈ tl, isHexNum d = true := fun d hd => hds d (by simp [hd])
    have hend : HexEnd tr := (tokEnd_allWs tr htr).hexEnd
    have e : offTxt (.some wa wb (c :: tl)) ++ tr = tSep wa '+' (wb ++ '0' :: 'x' :: c :: (tl ++ tr)) := by
      simp [offTxt, tSep, List.append_assoc]
    have hplus := lit_tSep "+" '+' rfl (by decide) wa (wb ++ '0' :: 'x' :: c :: (tl ++ tr)) ha
    have hval := natOfDigits_valid 16 (c :: tl) (validDigits_hex _ hds)
    have hsk : skipWs (wb ++ '0' :: 'x' :: c :: (tl ++ tr)) = '0' :: 'x' :: c :: (tl ++ tr) := by
      rw [skipWs_append wb _ hb]; exact skipWs_cons_of_not_ws '0' _ (by decide)
    have hin : (lit "+" (tSep wa '+' (wb ++ '0' :: 'x' :: c :: (tl ++ tr)))).bind (fun _ r =>
        let r := skipWs r
        (litAdj "0x" r).bind fun _ r2 => wordAdj isHexNum isHexNum r2) = .ok (String.ofList (c :: tl)) tr := by
      rw [hplus]
      simp only [bind_ok, hsk, litAdj, show ("0x" : String).toList = ['0', 'x'] from rfl, stripPrefix, if_true,
        wordAdj, hds c (by simp), takeWhile_class isHexNum tl tr htl hend, dropWhile_class isHexNum tl tr htl hend]
    rw [e]
    simp only [pOffset, hin, String.toList_ofList, hval, Option.getD_some, offVal]

end ArchSim.Lemmas.C04Spell
