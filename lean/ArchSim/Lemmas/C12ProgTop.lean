/-
C12 (memory table, program level), part 10: the data-memory table of a memory system
(`dataTable` = `wordwise_repr()` of the backing store, which `get_data_memory_entries` sorts by address
and formats), `MRelT` at power-on, what `MRelT` says about the two tables, the simulation loop and
the five-stage pipeline.
-/
import ArchSim.Lemmas.C12ProgStep
import ArchSim.Lemmas.C03ProgInit
import ArchSim.Lemmas.C03ProgFive

namespace ArchSim.Lemmas.C12Prog
open ArchSim ArchSim.Cache ArchSim.Mem ArchSim.Rv ArchSim.Spec.CacheAbs ArchSim.Spec.TagCache
open ArchSim.Lemmas.C03 ArchSim.Lemmas.C03Prog

/-- The rows `(word address, value)` of the data-memory table the user is shown, in the insertion
    order of `Memory.wordwise_repr()` (the GUI sorts them by address and formats the values, C17):
    computed from the BACKING store of the memory system. -/
def dataTable (ms : MemSys) : Except AddrErr (List (Int × Nat)) := reprEntries ms.backing 32

/-- The block of address `a` is resident in the data cache (never, without a cache). -/
def residentAt : MemSys → Int → Bool
  | .flat _, _ => false
  | .cached _ s, a => resident s a

/-- Power-on: a fresh cache system after the `.data` preloads `h` versus the flat memory after the
    same preloads satisfy `MRelT` (the backing memory IS the flat memory: nothing is cached yet). -/
theorem mrelT_init (g : Geo) (hg : GeoOK g) (l : Bool) (ha : ArchSim.Lemmas.C09.AssocOK l g.assoc)
    (wt : Bool) (penalty : Nat) (h : List Spec.ByteStore.Op) :
    MRelT wt (.cached l (preload (DSys.init (polOps l) wt g penalty (Mem.empty riscvCfg)) h))
      (.flat (Spec.ByteStore.run riscvCfg h)) := by
  have hP := pol_ok l g.assoc ha.1 ha.2
  obtain ⟨_, hm, _⟩ := ArchSim.Props.C03.preload_inv (P := polOps l) g hg hP wt penalty h
  obtain ⟨_, _, _, e4⟩ := preload_spec (DSys.init (polOps l) wt g penalty (Mem.empty riscvCfg)) h
  exact ⟨l, _, _, rfl, rfl, crep_preload g hg l ha wt penalty h, TRep.of_eq hm, e4⟩

/-- Write-through: the backing store is the flat memory of the flat run, as a structure. -/
theorem MRelT.backing_eq {mc mf : MemSys} (h : MRelT true mc mf) : mc.backing = mf.backing := by
  obtain ⟨l, s, m, rfl, rfl, _, ht, hw⟩ := h
  exact ht.wt hw

/-- Either policy: a row of the user's table whose word is not in a resident block shows the value
    of the flat run. -/
theorem MRelT.row_current {w : Bool} {mc mf : MemSys} (h : MRelT w mc mf) (r : List (Int × Nat))
    (hr : dataTable mc = .ok r) (a : Int) (v : Nat) (hav : (a, v) ∈ r)
    (hnr : residentAt mc a = false) : Mem.read mf.backing 32 a = some (.ok v) := by
  obtain ⟨l, s, m, rfl, rfl, hc, _, _⟩ := h
  exact backing_row_current hc.cinv.toCInvS hc.memOK hc.log r hr a v hav hnr

/-- Either policy: a row of the flat run's table is a row of the user's table unless its word is in
    a resident block. -/
theorem MRelT.row_covered {w : Bool} {mc mf : MemSys} (h : MRelT w mc mf) (rf : List (Int × Nat))
    (hrf : dataTable mf = .ok rf) (a : Int) (v : Nat) (hav : (a, v) ∈ rf) :
    residentAt mc a = true ∨ ∃ rb, dataTable mc = .ok rb ∧ (a, v) ∈ rb := by
  obtain ⟨l, s, m, rfl, rfl, hc, ht, _⟩ := h
  exact flat_row_covered hc.cinv.toCInvS hc.memOK hc.log ht.cov rf hrf a v hav

/-- Neither table ever fails. -/
theorem MRelT.tables_ok {w : Bool} {mc mf : MemSys} (h : MRelT w mc mf) :
    (∃ rb, dataTable mc = .ok rb) ∧ ∃ rf, dataTable mf = .ok rf := by
  obtain ⟨l, s, m, rfl, rfl, hc, _, _⟩ := h
  exact ⟨⟨_, table_eq (CInvS_memOK hc.cinv.toCInvS)⟩, ⟨_, table_eq hc.memOK⟩⟩

/-- The two row statements together, for both tables as returned. -/
theorem MRelT.rows {w : Bool} {mc mf : MemSys} (hr : MRelT w mc mf) :
    ∃ rb rf, dataTable mc = .ok rb ∧ dataTable mf = .ok rf ∧
      (∀ a v, (a, v) ∈ rb → residentAt mc a = false → Mem.read mf.backing 32 a = some (.ok v)) ∧
      (∀ a v, (a, v) ∈ rf → residentAt mc a = true ∨ (a, v) ∈ rb) := by
  obtain ⟨⟨rb, e1⟩, ⟨rf, e2⟩⟩ := hr.tables_ok
  refine ⟨rb, rf, e1, e2, fun a v hav hnr => hr.row_current rb e1 a v hav hnr, fun a v hav => ?_⟩
  rcases hr.row_covered rf e2 a v hav with h1 | ⟨rb', e1', hin⟩
  · exact Or.inl h1
  · rw [e1] at e1'
    rw [Except.ok.inj e1']
    exact Or.inr hin

/-- Write-through: equal backing stores, hence equal tables. -/
theorem MRelT.table_eq_wt {mc mf : MemSys} (h : MRelT true mc mf) :
    mc.backing = mf.backing ∧ dataTable mc = dataTable mf :=
  ⟨h.backing_eq, by unfold dataTable; rw [h.backing_eq]⟩

open ArchSim.Lemmas.C01 in
/-- The simulation loop (`simN n` = `n` calls of `RiscvSimulation.step()`) keeps `MRelT`. -/
theorem simN_relT {w : Bool} : ∀ (n : Nat) {sc sf : St}, CacheRel sc sf → MRelT w sc.mem sf.mem →
    (∀ j, Rv.singleDone (simN j sf).st = false → StepAccepted (simN j sf).st) →
    MRelT w (simN n sc).st.mem (simN n sf).st.mem
  | 0, _, _, _, ht, _ => ht
  | n + 1, sc, sf, h, ht, hacc => by
    have hd := h.singleDone
    unfold simN
    rw [hd]
    by_cases hdone : Rv.singleDone sf = true
    · simp only [hdone, if_true]; exact ht
    · have hdf : Rv.singleDone sf = false := by simpa using hdone
      have h0 : StepAccepted sf := hacc 0 hdf
      obtain ⟨hf, hr⟩ := singleStep_rel h h0
      have hrt := singleStep_relT h ht h0
      simp only [hdone]
      rw [← hf]
      cases hfc : (singleStep sc).fault with
      | some f => exact hrt
      | none =>
        have hff : (singleStep sf).fault = none := by rw [← hf]; exact hfc
        refine simN_relT n hr hrt (fun j => ?_)
        have := hacc (j + 1)
        unfold simN at this
        simp only [hdone, hff] at this
        exact this

open ArchSim.Pipe in
/-- Five-stage mode: when both pipelines run to completion without a fault (hypotheses of C03Prog
    `five_stage_cached_equals_flat`), the final data-memory systems satisfy `MRelT`. -/
theorem five_stage_relT {w : Bool} {sc sf : St} (h : CacheRel sc sf) (ht : MRelT w sc.mem sf.mem)
    (prog : List Instr) (hp : ProgWF prog) (him : sf.imem = { prog := prog, cache := none })
    (hs : ArchSim.Lemmas.C01.StOK sf) (hx : sf.exitCode = none) (hacc : RunAccepted sf)
    (nc : Nat) (hrc : runOK nc (PSt.init sc true)) (hdc : isDone (pipeRun nc (PSt.init sc true)) = true)
    (hpc : ∀ m, m < nc → isDone (pipeRun m (PSt.init sc true)) = false)
    (nf : Nat) (hrf : runOK nf (PSt.init sf true)) (hdf : isDone (pipeRun nf (PSt.init sf true)) = true)
    (hpf : ∀ m, m < nf → isDone (pipeRun m (PSt.init sf true)) = false) :
    MRelT w (pipeRun nc (PSt.init sc true)).st.mem (pipeRun nf (PSt.init sf true)).st.mem := by
  obtain ⟨k, _, _, a, b, _, _, nd, _⟩ :=
    five_stage_rel h prog hp him hs hx hacc nc hrc hdc hpc nf hrf hdf hpf
  rw [a.1.mem, b.1.mem]
  exact singleRun_relT h ht k (fun j hj => hacc j (fun j' hj' => nd j' (by omega)))

end ArchSim.Lemmas.C12Prog
