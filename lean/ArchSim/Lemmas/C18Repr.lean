/-
Helper lemmas for C18 (flat memory), part 3: the memory table (`reprKeys`, `reprEntries`).
-/
import ArchSim.Lemmas.C18Read

namespace ArchSim.Lemmas.C18
open ArchSim.Mem ArchSim.Spec.ByteStore

theorem reprKeysAux_mem (k : Int) (l acc : List Int) (x : Int) :
    x ∈ reprKeysAux k l acc ↔ x ∈ acc ∨ ∃ a, a ∈ l ∧ x = a - a % k := by
  induction l generalizing acc with
  | nil => simp [reprKeysAux]
  | cons a l ih =>
    simp only [reprKeysAux]
    split
    · rename_i hin
      rw [ih]
      constructor
      · rintro (h | ⟨b, hb, e⟩)
        · exact Or.inl h
        · exact Or.inr ⟨b, by simp [hb], e⟩
      · rintro (h | ⟨b, hb, e⟩)
        · exact Or.inl h
        · rcases List.mem_cons.mp hb with rfl | hb
          · exact Or.inl (e ▸ hin)
          · exact Or.inr ⟨b, hb, e⟩
    · rw [ih]
      simp only [List.mem_append, List.mem_cons, List.not_mem_nil, or_false]
      constructor
      · rintro ((h | h) | ⟨b, hb, e⟩)
        · exact Or.inl h
        · exact Or.inr ⟨a, Or.inl rfl, h⟩
        · exact Or.inr ⟨b, Or.inr hb, e⟩
      · rintro (h | ⟨b, hb | hb, e⟩)
        · exact Or.inl (Or.inl h)
        · exact Or.inl (Or.inr (hb ▸ e))
        · exact Or.inr ⟨b, hb, e⟩

theorem reprKeysAux_nodup (k : Int) (l acc : List Int) (h : acc.Nodup) :
    (reprKeysAux k l acc).Nodup := by
  induction l generalizing acc with
  | nil => simpa [reprKeysAux] using h
  | cons a l ih =>
    simp only [reprKeysAux]
    split
    · exact ih acc h
    · rename_i hin
      apply ih
      rw [List.nodup_append]
      refine ⟨h, by simp, ?_⟩
      intro x hx y hy
      simp only [List.mem_singleton] at hy
      subst hy
      intro e
      exact hin (e ▸ hx)

/-- The table keys are the stored keys' aligned addresses in first-seen order: `eraseDups` keeps the
    first occurrence of each element. -/
theorem reprKeysAux_eq_loop (k : Int) (l acc : List Int) :
    reprKeysAux k l acc =
      List.eraseDupsBy.loop (· == ·) (l.map (fun a => a - a % k)) acc.reverse := by
  induction l generalizing acc with
  | nil => simp [reprKeysAux, List.eraseDupsBy.loop]
  | cons a l ih =>
    simp only [reprKeysAux, List.map_cons, List.eraseDupsBy.loop]
    by_cases hin : (a - a % k) ∈ acc
    · have : (acc.reverse.any fun x => a - a % k == x) = true := by
        simp only [List.any_eq_true, List.mem_reverse, beq_iff_eq]
        exact ⟨_, hin, rfl⟩
      simp only [hin, if_true, this]
      exact ih acc
    · have : (acc.reverse.any fun x => a - a % k == x) = false := by
        rw [Bool.eq_false_iff]
        simp only [ne_eq, List.any_eq_true, List.mem_reverse, beq_iff_eq, not_exists, not_and]
        intro x hx e
        exact hin (e ▸ hx)
      simp only [hin, if_false, this]
      rw [ih]
      simp

/-- When alignment is the identity on the keys and there are no duplicates, the table keys are the
    keys. -/
theorem reprKeysAux_id (k : Int) (l acc : List Int) (hk : ∀ a, a ∈ l → a - a % k = a)
    (hnd : (acc ++ l).Nodup) : reprKeysAux k l acc = acc ++ l := by
  induction l generalizing acc with
  | nil => simp [reprKeysAux]
  | cons a l ih =>
    simp only [reprKeysAux, hk a (by simp)]
    have hnot : a ∉ acc := by
      intro ha
      rw [List.nodup_append] at hnd
      exact hnd.2.2 a ha a (by simp) rfl
    rw [if_neg hnot, ih (acc ++ [a]) (fun b hb => hk b (by simp [hb])) (by simpa using hnd)]
    simp

/-! ### `reprEntries` -/

/-- The fold step of `reprEntries`. -/
def entryStep (m : Mem) (bits : Nat) (a : Int) (acc : Except AddrErr (List (Int × Nat))) :
    Except AddrErr (List (Int × Nat)) :=
  match acc, readN m a (cellsOf m.cfg bits) with
  | .error e, _ => .error e
  | _, .error e => .error e
  | .ok l, .ok v => .ok ((a, v % 2 ^ bits) :: l)

theorem reprEntries_eq (m : Mem) (bits : Nat) :
    reprEntries m bits = (reprKeys m bits).foldr (entryStep m bits) (.ok []) := rfl

theorem foldr_entryStep_ok (m : Mem) (bits : Nat) (f : Int → Nat) (l : List Int)
    (h : ∀ a, a ∈ l → readN m a (cellsOf m.cfg bits) = .ok (f a)) :
    l.foldr (entryStep m bits) (.ok []) = .ok (l.map (fun a => (a, f a % 2 ^ bits))) := by
  induction l with
  | nil => rfl
  | cons a l ih =>
    rw [List.foldr_cons, ih (fun b hb => h b (by simp [hb]))]
    simp only [entryStep, h a (by simp), List.map_cons]

theorem foldr_entryStep_inv (m : Mem) (bits : Nat) (l : List Int) (r : List (Int × Nat))
    (h : l.foldr (entryStep m bits) (.ok []) = .ok r) :
    r.map Prod.fst = l ∧
      ∀ p, p ∈ r → ∃ v, readN m p.1 (cellsOf m.cfg bits) = .ok v ∧ p.2 = v % 2 ^ bits := by
  induction l generalizing r with
  | nil =>
    simp only [List.foldr_nil] at h
    cases h
    simp
  | cons a l ih =>
    rw [List.foldr_cons] at h
    cases hacc : l.foldr (entryStep m bits) (.ok []) with
    | error e => simp [entryStep, hacc] at h
    | ok r' =>
      cases hrd : readN m a (cellsOf m.cfg bits) with
      | error e => simp [entryStep, hacc, hrd] at h
      | ok v =>
        simp only [entryStep, hacc, hrd] at h
        cases h
        obtain ⟨h1, h2⟩ := ih r' hacc
        refine ⟨by simp [h1], ?_⟩
        intro p hp
        rcases List.mem_cons.mp hp with rfl | hp
        · exact ⟨v, hrd, rfl⟩
        · exact h2 p hp

theorem foldr_entryStep_err (m : Mem) (bits : Nat) (l : List Int) (e : AddrErr)
    (h : l.foldr (entryStep m bits) (.ok []) = .error e) :
    ∃ a, a ∈ l ∧ readN m a (cellsOf m.cfg bits) = .error e := by
  induction l with
  | nil => simp at h
  | cons a l ih =>
    rw [List.foldr_cons] at h
    cases hacc : l.foldr (entryStep m bits) (.ok []) with
    | error e' =>
      simp only [entryStep, hacc] at h
      cases h
      obtain ⟨b, hb, hr⟩ := ih hacc
      exact ⟨b, by simp [hb], hr⟩
    | ok r' =>
      cases hrd : readN m a (cellsOf m.cfg bits) with
      | error e' =>
        simp only [entryStep, hacc, hrd] at h
        cases h
        exact ⟨a, by simp, hrd⟩
      | ok v => simp [entryStep, hacc, hrd] at h

/-! ### the two concrete configurations never fail -/

theorem pow32 : (2 : Int) ^ 32 = 4294967296 := by decide

theorem riscv_wrap (a : Int) : wrapAddr riscvCfg a = a % 4294967296 := by
  simp only [wrapAddr, riscvCfg, if_true, pow32]

theorem riscv_inRange (a : Int) : inRange riscvCfg a = (decide (16384 ≤ a) && decide (a < 4294967296)) := rfl

theorem toy_wrap (a : Int) : wrapAddr toyCfg a = a := by
  simp [wrapAddr, toyCfg]

theorem toy_inRange (a : Int) : inRange toyCfg a = (decide (0 ≤ a) && decide (a < 4096)) := rfl

theorem riscv_cellOk_iff (a : Int) (i : Nat) :
    cellOk riscvCfg a i = true ↔ 16384 ≤ (a + i) % 4294967296 := by
  simp only [cellOk, riscv_wrap, riscv_inRange, Bool.and_eq_true, decide_eq_true_eq]
  omega

theorem toy_cellOk_iff (a : Int) (i : Nat) :
    cellOk toyCfg a i = true ↔ 0 ≤ a + i ∧ a + i < 4096 := by
  simp only [cellOk, toy_wrap, toy_inRange, Bool.and_eq_true, decide_eq_true_eq]

/-- Cells of an aligned block of 1, 2, 4 or 8 bytes around a valid RISC-V data address are valid. -/
theorem riscv_aligned_ok (x : Int) (k : Nat) (hk : k = 1 ∨ k = 2 ∨ k = 4 ∨ k = 8)
    (hx : inRange riscvCfg x = true) (i : Nat) (hi : i < k) :
    cellOk riscvCfg (x - x % (k : Int)) i = true := by
  rw [riscv_cellOk_iff]
  simp only [riscv_inRange, Bool.and_eq_true, decide_eq_true_eq] at hx
  rcases hk with rfl | rfl | rfl | rfl <;> omega

/-! ### a concrete history for the non-vacuity examples -/

/-- A history with an unaligned word write, a byte overwrite, a write that wraps modulo 2^32, a truncated
    write at the top of memory and a failing write below the data range. -/
def exHist : List Op :=
  [.write 32 16386 0x11223344, .write 8 16387 0xAA, .write 16 (16384 + 4294967296) 0xBEEF,
   .write 32 4294967294 0xCAFEF00D, .write 8 100 7, .write 16 (-4294950911) 0x0102]

end ArchSim.Lemmas.C18
