/-
C02 (control half), part 20: converse of fault agreement. If the sequential machine gets stuck at a
fault (without being done before), the pipeline reports exactly that fault, within the bound.
-/
import ArchSim.Lemmas.C02Term

namespace ArchSim.Pipe
open ArchSim ArchSim.Rv

theorem first_fault (p : PSt) : ∀ B, ¬ runOK B p →
    ∃ n, n < B ∧ runOK n p ∧ ∃ ft, (step (pipeRun n p)).fault = some ft
  | 0, h => absurd (fun m hm => absurd hm (Nat.not_lt_zero m)) h
  | B + 1, h => by
    by_cases hB : runOK B p
    · cases hf : (step (pipeRun B p)).fault with
      | some ft => exact ⟨B, Nat.lt_succ_self B, hB, ft, hf⟩
      | none =>
        exfalso; apply h
        intro m hm
        by_cases hmB : m < B
        · exact hB m hmB
        · have : m = B := by omega
          subst this; exact hf
    · obtain ⟨n, hn, hr, hft⟩ := first_fault p B hB
      exact ⟨n, Nat.lt_succ_of_lt hn, hr, hft⟩

theorem first_done (p : PSt) : ∀ B, isDone (pipeRun B p) = true →
    ∃ m, m ≤ B ∧ isDone (pipeRun m p) = true ∧ ∀ j, j < m → isDone (pipeRun j p) = false
  | 0, h => ⟨0, Nat.le_refl 0, h, fun j hj => absurd hj (Nat.not_lt_zero j)⟩
  | B + 1, h => by
    by_cases he : ∃ m, m ≤ B ∧ isDone (pipeRun m p) = true
    · obtain ⟨m, hm, hd⟩ := he
      -- take the first one below `m`
      have : ∀ b, b ≤ B → isDone (pipeRun b p) = true →
          ∃ m, m ≤ b ∧ isDone (pipeRun m p) = true ∧ ∀ j, j < m → isDone (pipeRun j p) = false := by
        intro b
        induction b with
        | zero => intro _ h0; exact ⟨0, Nat.le_refl 0, h0, fun j hj => absurd hj (Nat.not_lt_zero j)⟩
        | succ b ih =>
          intro hb hdb
          by_cases he' : ∃ m, m ≤ b ∧ isDone (pipeRun m p) = true
          · obtain ⟨m', hm', hd'⟩ := he'
            -- strong descent: use well-founded recursion via `first_done` on smaller index
            obtain ⟨m'', h1, h2, h3⟩ := first_done p m' hd'
            exact ⟨m'', by omega, h2, h3⟩
          · refine ⟨b + 1, Nat.le_refl _, hdb, fun j hj => ?_⟩
            cases hq : isDone (pipeRun j p) with
            | false => rfl
            | true => exact absurd ⟨j, by omega, hq⟩ he'
      obtain ⟨m', h1, h2, h3⟩ := this m hm hd
      exact ⟨m', by omega, h2, h3⟩
    · refine ⟨B + 1, Nat.le_refl _, h, fun j hj => ?_⟩
      cases hq : isDone (pipeRun j p) with
      | false => rfl
      | true => exact absurd ⟨j, by omega, hq⟩ he

end ArchSim.Pipe

namespace ArchSim.Pipe
open ArchSim ArchSim.Rv

/-- Once the sequential machine is stuck at a fault it stays in that state. -/
theorem seqRun_stuck (s : St) (k : Nat) (h : (seqFault (seqRun k s)).isSome = true) :
    ∀ j, seqRun (k + j) s = seqRun k s
  | 0 => rfl
  | j + 1 => by
    show seqStep (seqRun (k + j) s) = _
    rw [seqRun_stuck s k h j, seqStep_stuck _ h]

theorem seqRun_stuck_eq (s : St) (k k' : Nat) (h : (seqFault (seqRun k s)).isSome = true)
    (h' : (seqFault (seqRun k' s)).isSome = true) : seqRun k s = seqRun k' s := by
  by_cases hle : k ≤ k'
  · have := seqRun_stuck s k h (k' - k)
    rw [show k + (k' - k) = k' by omega] at this; exact this.symm
  · have := seqRun_stuck s k' h' (k - k')
    rw [show k' + (k - k') = k by omega] at this; exact this

/-- CONVERSE OF FAULT AGREEMENT. If the sequential machine is stuck at a fault after `kstar` steps
    and was not done at any step up to there, the pipeline reports that fault (same address, same
    fault) after at most `5 * (kstar + 2)` cycles, all earlier cycles being fault-free. -/
theorem fault_complete_init (st : St) (hp : ProgOK st.imem) (hc : ICoh st.imem) (hx : st.exitCode = none)
    (kstar : Nat) (a : Int) (f : Fault) (hflt : seqFault (seqRun kstar st) = some (a, f))
    (hnd : ∀ k, k ≤ kstar → singleDone (seqRun k st) = false) :
    ∃ n ft, n < 5 * (kstar + 2) ∧ runOK n (PSt.init st true) ∧
      (step (pipeRun n (PSt.init st true))).fault = some ft ∧ ft.addr = a ∧ ft.fault = f := by
  have hs : (seqFault (seqRun kstar st)).isSome = true := by rw [hflt]; rfl
  -- the sequential machine is never done
  have hnever : ∀ k, singleDone (seqRun k st) = false := by
    intro k
    by_cases hk : k ≤ kstar
    · exact hnd k hk
    · have := seqRun_stuck st kstar hs (k - kstar)
      rw [show kstar + (k - kstar) = k by omega] at this
      rw [this]; exact hnd kstar (Nat.le_refl _)
  obtain ⟨N, hN, hres⟩ := terminates_init st hp hc kstar (Or.inr hs)
  have hbad : ¬ runOK (5 * (kstar + 2)) (PSt.init st true) := by
    intro hr
    have hrN : runOK N (PSt.init st true) := fun m hm => hr m (by omega)
    rcases hres with h | h
    · exact h hrN
    · obtain ⟨m, hm, hdm, hfirst⟩ := first_done _ N h
      have hrm : runOK m (PSt.init st true) := fun j hj => hr j (by omega)
      obtain ⟨k, _, _, hdone, _⟩ := final_state_init st hp hc hx m hrm hdm hfirst
      rw [hnever k] at hdone; cases hdone
  obtain ⟨n, hn, hr, ft, hft⟩ := first_fault _ _ hbad
  obtain ⟨k, _, hk, _⟩ :=
    fault_agrees_run _ (PInv_init st true hp hc) rfl (absF_init st true) n hr ft hft
  rw [abs_init] at hk
  have heq := seqRun_stuck_eq st k kstar (by rw [hk]; rfl) hs
  rw [heq, hflt] at hk
  cases hk
  exact ⟨n, ft, hn, hr, hft, rfl, rfl⟩

end ArchSim.Pipe
