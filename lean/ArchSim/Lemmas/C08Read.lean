/-
C08 helper lemmas, part 2: registers are written only by WB, and the ID stage reads the register
file left by this cycle's WB (stale-read semantics of the interlock-free pipeline).
Core Lean only.
-/
import ArchSim.Lemmas.C08Stall
import ArchSim.Lemmas.C07Cycle

namespace ArchSim.Lemmas.C08
open ArchSim ArchSim.Rv ArchSim.Pipe ArchSim.Lemmas.C02Split ArchSim.Lemmas.C07

/-- The register file after this cycle's write-back of the MEM/WB register `l3`. -/
def regsAfterWB (l3 : Option Latch) (regs : Nat → Nat) : Nat → Nat :=
  match l3 with
  | none => regs
  | some m => wbRegs m regs

theorem sIF_regs (p : PSt) : (sIF p).regs = p.st.regs := by
  unfold sIF
  cases p.stalled with
  | none => simp only [(ifStage_frame _).1]; rfl
  | some st => rfl

theorem wbStage_regs (s : St) (l3 : Option Latch) : (wbStage s l3).1.regs = regsAfterWB l3 s.regs := by
  cases l3 with
  | none => rfl
  | some m => rw [wbStage_some]; rfl

theorem sWB_regs (p : PSt) : (sWB p).regs = regsAfterWB p.l3 p.st.regs := by
  unfold sWB; rw [wbStage_regs, sIF_regs]

theorem exO_regs (p : PSt) : (exO p).st.regs = regsAfterWB p.l3 p.st.regs := by
  unfold exO; rw [(exStage_frame _ _ _ _).1, sWB_regs]

theorem meO_regs (p : PSt) : (meO p).st.regs = regsAfterWB p.l3 p.st.regs := by
  unfold meO; rw [(memStage_frame _ _).1, exO_regs]

/-- After any step (faulting or not) the register file is the old one plus this cycle's write-back:
    IF, ID, EX, MEM and the stall/flush bookkeeping never write a register. -/
theorem step_regs (p : PSt) : (step p).p.st.regs = regsAfterWB p.l3 p.st.regs := by
  rw [step_eq]
  cases h1 : (exO p).fault with
  | some f => exact exO_regs p
  | none =>
    cases h2 : (meO p).fault with
    | some f => exact meO_regs p
    | none => simp only [(finishStep_frame _ _ _ _ _ _ _).2.1, meO_regs]

/-- The ID output of this cycle, with the register file made explicit. -/
theorem nID_eq (p : PSt) :
    nID p = idStage p.hazard (regsAfterWB p.l3 p.st.regs) (idInput p) p.l1 p.l2 := by
  unfold nID; rw [sWB_regs]

/-- The operand values ID latches are those of the register file after this cycle's WB, whatever
    sits in the two registers in between (no forwarding). -/
theorem nID_rr (p : PSt) (f : Latch) (h : idInput p = some f) :
    ∃ x, nID p = some x ∧ x.instr = f.instr ∧ x.addr = f.addr ∧
      x.rr = accessRegs f.instr (regsAfterWB p.l3 p.st.regs) := by
  rw [nID_eq, h, idStage_some]
  exact ⟨_, rfl, rfl, rfl, rfl⟩

/-- In a step without exception the new ID/EX register is this cycle's ID output, unless a flush
    squashed it. -/
theorem step_l1 (p : PSt) (h : (step p).fault = none) :
    (step p).p.l1 = nID p ∨ (step p).p.l1 = none := by
  have hf := (step_fault_none_iff p).1 h
  rw [step_ok p hf.1 hf.2]
  simp only
  cases h4 : latchFlush (nWB p) with
  | some a => right; rw [finishStep_flush4 _ _ _ _ _ _ _ a h4]
  | none =>
    cases h3 : latchFlush (meO p).latch with
    | some a => right; rw [finishStep_flush3 _ _ _ _ _ _ _ a h4 h3]
    | none =>
      cases h2 : latchFlush (exO p).latch with
      | some a => right; rw [finishStep_flush2 _ _ _ _ _ _ _ a h4 h3 h2]
      | none => left; rw [finishStep_noFlush _ _ _ _ _ _ _ h4 h3 h2]

end ArchSim.Lemmas.C08
