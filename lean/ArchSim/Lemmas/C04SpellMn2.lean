/-
C04 (spelling independence), part 5: the caseless scanners on a case variant of a lower-case word that is
followed by a non-letter.
-/
import ArchSim.Lemmas.C04SpellMn
import ArchSim.Lemmas.C14Mn

namespace ArchSim.Lemmas.C04Spell
open ArchSim ArchSim.PP ArchSim.Rv ArchSim.Asm ArchSim.Lemmas.C14

/-- What follows the word: nothing, or an ASCII character that is not a letter. -/
def MnSep (rest : Inp) : Prop := ∀ c ∈ rest.head?, c.toNat < 128 ∧ isAlpha c = false

theorem mnSep_nil : MnSep [] := by simp [MnSep]

set_option maxRecDepth 8000 in
theorem sep_table : ∀ n < 128, isAlpha (Char.ofNat n) = false → ∀ p ∈ lowList,
    reCharMatch p (Char.ofNat n) = false ∧ upperAscii (Char.ofNat n) ≠ upperAscii p := by decide

theorem sep_facts (e : Char) (h : e.toNat < 128 ∧ isAlpha e = false) (p : Char) (hp : p ∈ lowList) :
    reCharMatch p e = false ∧ upperAscii e ≠ upperAscii p :=
  ascii_cases (fun e => isAlpha e = false → ∀ p ∈ lowList, reCharMatch p e = false ∧ upperAscii e ≠ upperAscii p)
    e h.1 sep_table h.2 p hp

theorem mnSep_ws (c : Char) (r : Inp) (h : isWs c = true) : MnSep (c :: r) := by
  intro d hd
  simp only [List.head?_cons, Option.mem_def, Option.some.injEq] at hd
  subst hd
  simp only [isWs, Bool.or_eq_true, decide_eq_true_eq] at h
  rcases h with ((rfl | rfl) | rfl) | rfl <;> decide

theorem reCharMatch_var (p c' c : Char) (hp : p ∈ lowList) (hc' : c' ∈ letterList) (hl : toLowerAscii c' = c) :
    reCharMatch p c' = (p == c) := by
  rw [reCharMatch_ascii p c' (letter_facts c' hc').1, hl, (low_fixed p hp).1]
  by_cases h : c = p
  · subst h; simp
  · have : p ≠ c := fun h' => h h'.symm
    simp [h, this]

/-- `re.IGNORECASE` match of a lower-case symbol against a case variant of the word `w`. -/
theorem rePrefix_var (sym w' w rest : List Char) (hs : ∀ c ∈ sym, isLow c = true) (hv : CaseVar w' w)
    (hr : MnSep rest) :
    rePrefix sym (w' ++ rest) =
      if sym.isPrefixOf w then some (w'.take sym.length, w'.drop sym.length ++ rest) else none := by
  induction sym generalizing w' w with
  | nil => simp [rePrefix]
  | cons p ps ih =>
    have hpl := isLow_mem p (hs p (by simp))
    cases w' with
    | nil =>
      have hw := hv.nil_iff
      subst hw
      cases rest with
      | nil => simp [rePrefix]
      | cons e r =>
        have := sep_facts e (hr e (by simp)) p hpl
        simp [rePrefix, this.1]
    | cons c' cs' =>
      obtain ⟨c, cs, rfl, hlc, hcl, hc'l, hv'⟩ := hv.cons
      have hm := reCharMatch_var p c' c hpl hc'l hlc
      simp only [List.cons_append, rePrefix, hm, List.isPrefixOf_cons_cons, List.length_cons,
        List.take_succ_cons, List.drop_succ_cons]
      rw [ih cs' cs (fun c hc => hs c (by simp [hc])) hv']
      by_cases hpc : p = c
      · subst hpc
        by_cases h2 : ps.isPrefixOf cs = true
        · simp [h2]
        · simp [h2]
      · simp [hpc]

theorem oneOfCaseless_go_var (l : List String) (w' w rest : List Char)
    (hl : ∀ s ∈ l, ∀ c ∈ s.toList, isLow c = true) (hv : CaseVar w' w) (hr : MnSep rest) :
    oneOfCaseless.go (w' ++ rest) l =
      match l.find? (fun s => s.toList.isPrefixOf w) with
      | some s => .ok s (w'.drop s.toList.length ++ rest)
      | none => .fail := by
  induction l with
  | nil => simp [oneOfCaseless.go]
  | cons s l ih =>
    have hs := hl s (by simp)
    simp only [oneOfCaseless.go, rePrefix_var s.toList w' w rest hs hv hr, List.find?_cons]
    by_cases h : s.toList.isPrefixOf w = true
    · simp [h, (hv.take s.toList.length).lowers_ok]
    · simp only [h]
      simpa using ih (fun t ht => hl t (by simp [ht]))

theorem skipWs_var (w' w rest : List Char) (hv : CaseVar w' w) (hne : w ≠ []) :
    skipWs (w' ++ rest) = w' ++ rest := by
  cases w' with
  | nil => exact absurd hv.nil_iff hne
  | cons c cs => exact skipWs_cons_of_not_ws c _ (letter_facts c (hv.letters c (by simp))).2.1

/-- `one_of(syms, caseless=True)` on a case variant of the lower-case word `w` followed by a non-letter:
    the longest symbol that is a prefix of `w`, whatever the case of the letters. -/
theorem oneOfCaseless_var (syms : List String) (w' w rest : List Char) (hl : LowSyms syms)
    (hv : CaseVar w' w) (hne : w ≠ []) (hr : MnSep rest) :
    oneOfCaseless syms (w' ++ rest) =
      match (longestFirst syms).find? (fun s => s.toList.isPrefixOf w) with
      | some s => .ok s (w'.drop s.toList.length ++ rest)
      | none => .fail := by
  unfold oneOfCaseless
  simp only [skipWs_var w' w rest hv hne]
  exact oneOfCaseless_go_var _ w' w rest (fun s hs => hl s (by simpa [longestFirst] using hs)) hv hr

theorem caseless_aux_var (k w' w rest : List Char) (hk : ∀ c ∈ k, isLow c = true) (hv : CaseVar w' w)
    (hr : MnSep rest) :
    (((w' ++ rest).take k.length).length = k.length ∧
      ((w' ++ rest).take k.length).map upperAscii = k.map (fun c => upperAscii c)) ↔
    k.isPrefixOf w = true := by
  induction k generalizing w' w with
  | nil => simp
  | cons a k ih =>
    have hal := isLow_mem a (hk a (by simp))
    cases w' with
    | nil =>
      have hw := hv.nil_iff
      subst hw
      cases rest with
      | nil => simp
      | cons e r =>
        have := (sep_facts e (hr e (by simp)) a hal).2
        simp only [List.nil_append, List.length_cons, List.take_succ_cons, List.map_cons, List.cons.injEq]
        constructor
        · rintro ⟨_, h, _⟩; exact absurd h this
        · intro h; simp [List.isPrefixOf] at h
    | cons c' cs' =>
      obtain ⟨c, cs, rfl, hlc, hcl, hc'l, hv'⟩ := hv.cons
      have hup : upperAscii c' = upperAscii c := by rw [← hlc]; exact (letter_facts c' hc'l).2.2.2.2.1
      have hm : upperAscii c = upperAscii a ↔ a = c :=
        ⟨low_upper_inj a hal c hcl, fun h => by rw [h]⟩
      have ih' := ih cs' cs (fun c hc => hk c (by simp [hc])) hv'
      simp only [List.cons_append, List.length_cons, List.take_succ_cons, List.map_cons,
        List.cons.injEq, List.isPrefixOf_cons_cons, Bool.and_eq_true, beq_iff_eq, Nat.add_right_cancel_iff]
      rw [hup, hm, ← ih']
      constructor
      · rintro ⟨h1, h2, h3⟩; exact ⟨h2, h1, h3⟩
      · rintro ⟨h2, h1, h3⟩; exact ⟨h1, h2, h3⟩

/-- `CaselessLiteral(kw)` on a case variant of the lower-case word `w` followed by a non-letter. -/
theorem caselessLit_var (kw : String) (w' w rest : List Char) (hk : ∀ c ∈ kw.toList, isLow c = true)
    (hv : CaseVar w' w) (hne : w ≠ []) (hr : MnSep rest) :
    caselessLit kw (w' ++ rest) =
      if kw.toList.isPrefixOf w then .ok () (w'.drop kw.toList.length ++ rest) else .fail := by
  unfold caselessLit
  simp only [skipWs_var w' w rest hv hne]
  have h := caseless_aux_var kw.toList w' w rest hk hv hr
  by_cases hpre : kw.toList.isPrefixOf w = true
  · rw [if_pos (h.mpr hpre), if_pos hpre]
    congr 1
    have hle : kw.toList.length ≤ w'.length := by
      have := (List.isPrefixOf_iff_prefix.mp hpre).length_le
      rw [hv.length]; exact this
    rw [List.drop_append_of_le_length hle]
  · rw [if_neg (fun hc => hpre (h.mp hc)), if_neg hpre]

end ArchSim.Lemmas.C04Spell
