/-
C02 (control half), part 8: basic facts about the completion functions.
-/
import ArchSim.Lemmas.C02Sim

namespace ArchSim.Pipe
open ArchSim ArchSim.Rv

@[simp] theorem orElseFl_none_left (b : Option Int) : orElseFl none b = b := rfl
@[simp] theorem orElseFl_none_right (a : Option Int) : orElseFl a none = a := by cases a <;> rfl
@[simp] theorem orElseFl_some (x : Int) (b : Option Int) : orElseFl (some x) b = some x := rfl

/-- The completion that does nothing. -/
def pureC (s : St) : Comp := ⟨s, none, []⟩

/-- Put retired addresses in front of the log. -/
def Comp.prefixLog (c : Comp) (L : List Int) : Comp := { c with log := L ++ c.log }

@[simp] theorem prefixLog_nil (c : Comp) : c.prefixLog [] = c := rfl
@[simp] theorem prefixLog_st (c : Comp) (L : List Int) : (c.prefixLog L).st = c.st := rfl
@[simp] theorem prefixLog_red (c : Comp) (L : List Int) : (c.prefixLog L).red = c.red := rfl
theorem CSimL_prefixLog (c : Comp) (L : List Int) : CSimL L c (c.prefixLog L) := ⟨rfl, Sim.rfl' _, rfl⟩

@[simp] theorem finishC_none (s : St) : finishC s none = pureC s := rfl
@[simp] theorem cWB_none (s : St) (fl : Option Int) : cWB s none fl = finishC s fl := by cases fl <;> rfl
@[simp] theorem cMEM_none (s : St) (fl : Option Int) : cMEM s none fl = finishC s fl := by
  show cWB s none (orElseFl none fl) = _
  exact cWB_none s fl
@[simp] theorem cEX_none (s : St) : cEX s none = pureC s := rfl
@[simp] theorem cID_none (s : St) : cID s none = pureC s := rfl

@[simp] theorem bind_pure (s : St) (f : St → Comp) : Comp.bind (pureC s) f = f s := rfl
@[simp] theorem bind_logged (s : St) (L : List Int) (f : St → Comp) :
    Comp.bind ⟨s, none, L⟩ f = (f s).prefixLog L := rfl
@[simp] theorem bind_pure_right (c : Comp) : c.bind (fun s => pureC s) = c := by
  obtain ⟨s, r, l⟩ := c; cases r
  · simp [Comp.bind, pureC]
  · rfl
@[simp] theorem bind_pure_right' (c : Comp) : c.bind pureC = c := bind_pure_right c

theorem bind_of_red_none {c : Comp} (h : c.red = none) (f : St → Comp) :
    c.bind f = (f c.st).prefixLog c.log := by
  unfold Comp.bind; rw [h]; rfl

theorem bind_of_red_some {c : Comp} {a : Int × Option Fault} (h : c.red = some a) (f : St → Comp) : c.bind f = c := by
  unfold Comp.bind; rw [h]

/-- Write-back of a latch that is not an exiting ECALL. -/
theorem cWB_noexit (s : St) (l : Option Latch) (h : latchExit l = false) :
    cWB s l none = ⟨(wbStage s l).1, none, latchLog l⟩ := by
  unfold cWB
  have := wbStage_flush_isSome s l
  rw [h] at this
  cases hf : latchFlush (wbStage s l).2 with
  | none => rfl
  | some a => rw [hf] at this; cases this

theorem cMEM_nofault (s : St) (e : Option Latch) (fl : Option Int) (h : (memStage s e).fault = none) :
    cMEM s e fl =
      cWB (memStage s e).st (memStage s e).latch (orElseFl (latchFlush (memStage s e).latch) fl) := by
  unfold cMEM; rw [h]

theorem cEX_nofault (s : St) (d : Option Latch) (h : (exStage s d none none).fault = none) :
    cEX s d =
      cMEM (exStage s d none none).st (exStage s d none none).latch
        (latchFlush (exStage s d none none).latch) := by
  unfold cEX; rw [h]

end ArchSim.Pipe

namespace ArchSim.Pipe
open ArchSim ArchSim.Rv

/-- With nothing in flight, EX ignores the `flagged` and `stall` marks of its input. -/
theorem exStage_marks (s : St) (d : Latch) (b c : Bool) :
    exStage s (some { d with flagged := b, stall := c }) none none = exStage s (some d) none none := by
  simp [exStage, aluIn1, aluIn2, ecallMustWait]

theorem cEX_marks (s : St) (d : Latch) (b c : Bool) :
    cEX s (some { d with flagged := b, stall := c }) = cEX s (some d) := by
  unfold cEX; rw [exStage_marks]

theorem cEX_setFlag (s : St) (l : Option Latch) : cEX s (setFlag l) = cEX s l := by
  cases l with
  | none => rfl
  | some d => exact cEX_marks s d true d.stall

theorem cID_setFlag (s : St) (l : Option Latch) : cID s (setFlag l) = cID s l := by
  cases l with
  | none => rfl
  | some d => rfl

/-- A decoded latch is final: completing it from EX is the same as a full completion of its
    IF/ID latch, provided ID read the register values of the accumulated state. -/
theorem cEX_idStage (s : St) (hz : Bool) (regs : Nat → Nat) (f : Latch) (a b : Option Latch)
    (h : accessRegs f.instr regs = accessRegs f.instr s.regs) :
    cEX s (idStage hz regs (some f) a b) = cID s (some f) := by
  unfold cID
  rw [idStage_some, idStage_some, h]
  exact cEX_marks s { instr := f.instr, addr := f.addr, pc4 := f.pc4, rr := accessRegs f.instr s.regs,
                      wreg := writeReg f.instr, stall := idStall false (accessRegs f.instr s.regs) none none }
    false (idStall hz (accessRegs f.instr s.regs) a b)

end ArchSim.Pipe

namespace ArchSim.Pipe
open ArchSim ArchSim.Rv

/-! ### Register frame: a completion changes at most the write register of its latch -/

/-- The latch may write register `r`. -/
def writes (l : Option Latch) (r : Nat) : Prop := ∃ x, l = some x ∧ x.wreg = some r ∧ r ≠ 0

@[simp] theorem writes_none (r : Nat) : ¬ writes none r := by rintro ⟨x, h, _⟩; cases h

theorem wbStage_regs_frame (s : St) (l : Option Latch) (r : Nat) (h : ¬ writes l r) :
    (wbStage s l).1.regs r = s.regs r := by
  cases l with
  | none => rfl
  | some m =>
    have hreg : ((writeBack m.instr m.wreg (wbData m) s.regs).getD s.regs) r = s.regs r := by
      cases hw : m.wreg with
      | none => unfold writeBack; split <;> rfl
      | some r' =>
        cases hd : wbData m with
        | none => unfold writeBack; split <;> rfl
        | some d =>
          have key : setReg s.regs r' (wrapU d) r = s.regs r := by
            unfold setReg
            split
            · rename_i hc
              exfalso; apply h
              exact ⟨m, rfl, by rw [hw, hc.1], by omega⟩
            · rfl
          unfold writeBack; split <;> first | exact key | rfl
    unfold wbStage; dsimp only
    split <;> exact hreg

@[simp] theorem memStage_regs (s : St) (l : Option Latch) : (memStage s l).st.regs = s.regs := by
  cases l with
  | none => rfl
  | some m => unfold memStage; simp only []; repeat' split <;> try rfl

@[simp] theorem ecallRun_regs (s : St) (d : Latch) : (ecallRun s d).st.regs = s.regs := by
  unfold ecallRun; split <;> rfl

@[simp] theorem exStage_regs (s : St) (inp l2 l3 : Option Latch) : (exStage s inp l2 l3).st.regs = s.regs := by
  rcases exStage_st s inp l2 l3 with h | ⟨d, _, _, _, h⟩ <;> simp [h]

@[simp] theorem finishC_st (s : St) (fl : Option Int) : (finishC s fl).st = s := by cases fl <;> rfl

theorem cWB_regs_frame (s : St) (l : Option Latch) (fl : Option Int) (r : Nat) (h : ¬ writes l r) :
    (cWB s l fl).st.regs r = s.regs r := by
  unfold cWB; rw [finishC_st]; exact wbStage_regs_frame s l r h

end ArchSim.Pipe

namespace ArchSim.Pipe
open ArchSim ArchSim.Rv

theorem writes_memStage (s : St) (e : Option Latch) (r : Nat) (hf : (memStage s e).fault = none)
    (h : ¬ writes e r) : ¬ writes (memStage s e).latch r := by
  cases e with
  | none => simp
  | some x =>
    obtain ⟨m, hm, _, hw, _⟩ := memStage_facts s x hf
    rintro ⟨y, hy, hyw, hr⟩
    rw [hm] at hy; cases hy
    exact h ⟨x, rfl, by rw [← hw, hyw], hr⟩

theorem writes_exStage (s : St) (d l2 l3 : Option Latch) (r : Nat) (hf : (exStage s d l2 l3).fault = none)
    (h : ¬ writes d r) : ¬ writes (exStage s d l2 l3).latch r := by
  cases d with
  | none => simp
  | some x =>
    obtain ⟨e, he, _, hw, _⟩ := exStage_facts s x l2 l3 hf
    rintro ⟨y, hy, hyw, hr⟩
    rw [he] at hy; cases hy
    exact h ⟨x, rfl, by rw [← hw, hyw], hr⟩

theorem cMEM_regs_frame (s : St) (e : Option Latch) (fl : Option Int) (r : Nat) (h : ¬ writes e r) :
    (cMEM s e fl).st.regs r = s.regs r := by
  cases hf : (memStage s e).fault with
  | some f => unfold cMEM; rw [hf]; rfl
  | none =>
    rw [cMEM_nofault s e fl hf, cWB_regs_frame _ _ _ r (writes_memStage s e r hf h), memStage_regs]

theorem cEX_regs_frame (s : St) (d : Option Latch) (r : Nat) (h : ¬ writes d r) :
    (cEX s d).st.regs r = s.regs r := by
  cases hf : (exStage s d none none).fault with
  | some f => unfold cEX; rw [hf]; rfl
  | none =>
    rw [cEX_nofault s d hf, cMEM_regs_frame _ _ _ r (writes_exStage s d none none r hf h), exStage_regs]

end ArchSim.Pipe

namespace ArchSim.Pipe
open ArchSim ArchSim.Rv

/-! ### The interlock lemma, local part -/

/-- `accessRegs` only looks at the registers it reports as read addresses. -/
theorem accessRegs_congr (i : Instr) (regs regs' : Nat → Nat)
    (h : ∀ r, ((accessRegs i regs).a1 = some r ∨ (accessRegs i regs).a2 = some r) → regs r = regs' r) :
    accessRegs i regs = accessRegs i regs' := by
  unfold accessRegs at h ⊢
  split <;> simp_all

/-- No hazard signalled against a latch: the latch does not write a register the instruction reads. -/
theorem not_writes_of_no_hazard (rr : RegRead) (l : Option Latch) (hw : WregOK l)
    (h : hazardWith rr l = false) (r : Nat) (hr : rr.a1 = some r ∨ rr.a2 = some r) : ¬ writes l r := by
  rintro ⟨x, hx, hxw, hr0⟩
  subst hx
  have hwr := hw x rfl
  rw [hxw] at hwr
  unfold hazardWith at h
  simp only [← hwr] at h
  rcases hr with hr | hr <;> simp [hr, hr0] at h

end ArchSim.Pipe
