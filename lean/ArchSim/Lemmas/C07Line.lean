/-
C07 helper lemmas: a straight-line program of plain, hazard-free instructions in an uncached
instruction memory — the fetch stage and the explicit per-cycle invariant of the pipeline.
Core Lean only.
-/
import ArchSim.Lemmas.C07Slot
import ArchSim.Lemmas.C07Cycle

namespace ArchSim.Lemmas.C07
open ArchSim ArchSim.Rv ArchSim.Pipe ArchSim.Lemmas.C02Split

theorem instrAt_word (im : IMem) (m : Nat) : im.instrAt (4 * (m : Int)) = im.prog[m]? := by
  unfold IMem.instrAt
  have h1 : (0 : Int) ≤ 4 * (m : Int) ∧ (4 * (m : Int)) % 4 = 0 := by omega
  have h2 : ((4 * (m : Int)) / 4).toNat = m := by omega
  rw [if_pos h1, h2]

/-- IF at word `m` of an uncached program of at most 4096 instructions (the 16 KiB instruction
    memory): fetches instruction `m`. -/
theorem ifStage_line_some (s : St) (m : Nat) (i : Instr) (hc : s.imem.cache = none)
    (hpc : s.pc = 4 * (m : Int)) (hi : s.imem.prog[m]? = some i) (hm : m < 4096) :
    ifStage s = ({ s with pc := 4 * ((m + 1 : Nat) : Int) },
                 some { instr := i, addr := s.pc, pc4 := s.pc + 4 }) := by
  have hat : s.imem.instrAt s.pc = some i := by rw [hpc, instrAt_word, hi]
  have hr : 0 ≤ s.pc ∧ s.pc < 16384 := by omega
  have hf : s.imem.fetch s.pc = { imem := s.imem, res := .ok (some i), extra := 0 } := by
    unfold IMem.fetch
    simp only [hc, hr, hat, and_self, if_true]
  unfold ifStage
  simp only [hat, hf]
  have : s.pc + 4 = 4 * ((m + 1 : Nat) : Int) := by omega
  rw [this]
  rfl

theorem ifStage_line_none (s : St) (m : Nat) (hpc : s.pc = 4 * (m : Int)) (hi : s.imem.prog[m]? = none) :
    ifStage s = (s, none) := by
  have hat : s.imem.instrAt s.pc = none := by rw [hpc, instrAt_word, hi]
  unfold ifStage
  simp only [hat]

/-- Program index held by register `j` (0 = IF/ID … 3 = MEM/WB) after `k` cycles. -/
def slotIdx (n k j : Nat) : Option Nat :=
  if j < k ∧ k - (j + 1) < n then some (k - (j + 1)) else none

theorem slotIdx_succ (n k j : Nat) : slotIdx n (k + 1) (j + 1) = slotIdx n k j := by
  unfold slotIdx
  have : k + 1 - (j + 1 + 1) = k - (j + 1) := by omega
  rw [this]
  by_cases h : j < k ∧ k - (j + 1) < n
  · rw [if_pos h, if_pos ⟨by omega, h.2⟩]
  · rw [if_neg h, if_neg (by omega)]

theorem slotIdx_zero (n k : Nat) : slotIdx n (k + 1) 0 = if k < n then some k else none := by
  unfold slotIdx; simp

theorem slotIdx_rel (n k j j' a b : Nat) (hj : j < j') (hj' : j' ≤ j + 2)
    (ha : slotIdx n k j = some a) (hb : slotIdx n k j' = some b) : b < a ∧ a ≤ b + 2 := by
  unfold slotIdx at ha hb
  split at ha <;> split at hb <;> simp at ha hb
  omega

/-- The pipeline after `k` cycles of a straight-line run started with `c0` cycles and `i0` retired
    instructions on the counters. -/
structure LineInv (prog : List Instr) (c0 i0 k : Nat) (p : PSt) : Prop where
  stl : p.stalled = none
  pc : p.st.pc = 4 * ((min k prog.length : Nat) : Int)
  prg : p.st.imem.prog = prog
  cch : p.st.imem.cache = none
  exit : p.st.exitCode = none
  instrs : p.st.instrs = i0 + min prog.length (k - 4)
  cycles : p.st.cycles = c0 + k
  s0 : Slot prog (fun _ => True) p.l0 (slotIdx prog.length k 0)
  s1 : Slot prog Q1 p.l1 (slotIdx prog.length k 1)
  s2 : Slot prog Q2 p.l2 (slotIdx prog.length k 2)
  s3 : Slot prog Q2 p.l3 (slotIdx prog.length k 3)

/-- The fetch of cycle `k + 1`. -/
theorem line_IF (prog : List Instr) (c0 i0 k : Nat) (p : PSt) (hlen : prog.length ≤ 4096)
    (h : LineInv prog c0 i0 k p) :
    (sIF p).pc = 4 * ((min (k + 1) prog.length : Nat) : Int) ∧ (sIF p).imem = p.st.imem ∧
    Slot prog (fun _ => True) (nIF p) (slotIdx prog.length (k + 1) 0) := by
  unfold sIF nIF
  rw [h.stl, slotIdx_zero]
  simp only
  by_cases hk : k < prog.length
  · have hi : (tick p.st).imem.prog[k]? = some prog[k] := by
      show p.st.imem.prog[k]? = _
      rw [h.prg]; exact List.getElem?_eq_getElem hk
    have hpc : (tick p.st).pc = 4 * (k : Int) := by
      show p.st.pc = _
      rw [h.pc, Nat.min_eq_left (by omega)]
    rw [ifStage_line_some (tick p.st) k prog[k] h.cch hpc hi (by omega), if_pos hk,
      Nat.min_eq_left (by omega)]
    exact ⟨rfl, rfl, ⟨_, rfl, List.getElem?_eq_getElem hk, trivial⟩⟩
  · have hpc : (tick p.st).pc = 4 * ((prog.length : Nat) : Int) := by
      show p.st.pc = _
      rw [h.pc, Nat.min_eq_right (by omega)]
    have hi : (tick p.st).imem.prog[prog.length]? = none := by
      show p.st.imem.prog[prog.length]? = _
      rw [h.prg]; simp
    rw [ifStage_line_none (tick p.st) prog.length hpc hi, if_neg hk, Nat.min_eq_right (by omega)]
    exact ⟨hpc, rfl, rfl⟩

end ArchSim.Lemmas.C07
