/-
C04 (spelling independence, part 2), error case 3: renumbering commutes with the instruction pass.
-/
import ArchSim.Lemmas.C04SpellErr2

namespace ArchSim.Lemmas.C04Spell
open ArchSim ArchSim.PP ArchSim.Asm ArchSim.Rv
open ArchSim.Lemmas.C05 (renE renT renP)

theorem labelDisp_ren (g : Nat → Nat) (ls : Labels) (l : String) (off addr : Int) (k : Nat) (line : String) :
    labelDisp ls l off addr (g k) line = renX g id (labelDisp ls l off addr k line) := by
  simp only [labelDisp]
  cases lookupLabel ls l with
  | none => rfl
  | some a => simp only []; split <;> rfl

theorem instantiate_ren (g : Nat → Nat) (ls : Labels) (addr : Int) (k : Nat) (line : String) (pi : PInstr) :
    instantiate ls addr (g k) line pi = renX g id (instantiate ls addr k line pi) := by
  cases pi with
  | rtype mn rd rs1 rs2 => simp only [instantiate]; cases Op.ofMnemonic mn <;> rfl
  | utype mn rd imm => simp only [instantiate]; cases Op.ofMnemonic mn <;> rfl
  | rri mn a b imm =>
    simp only [instantiate]
    cases Op.ofMnemonic mn with
    | none => rfl
    | some op =>
      simp only []
      cases op.ty <;> simp only [] <;> first | rfl | (split <;> rfl)
  | mem mn a imm b =>
    simp only [instantiate]
    cases Op.ofMnemonic mn with
    | none => rfl
    | some op =>
      simp only []
      cases op.ty <;> simp only [] <;> first | rfl | (split <;> rfl)
  | btypeLabel mn a b l off =>
    simp only [instantiate, labelDisp_ren]
    cases Op.ofMnemonic mn with
    | none => rfl
    | some op => simp only []; cases labelDisp ls l off addr k line <;> rfl
  | jalImm rd imm => simp only [instantiate]; split <;> rfl
  | jalLabel rd l off =>
    simp only [instantiate, labelDisp_ren]
    cases labelDisp ls l off addr k line <;> rfl
  | csr mn rd c rs1 => simp only [instantiate]; cases Op.ofMnemonic mn <;> rfl
  | csri mn rd c u => simp only [instantiate]; cases Op.ofMnemonic mn <;> rfl
  | fence a b => rfl
  | memPseudo mn a v idx => rfl
  | sPseudo mn a v idx b => rfl
  | li rd imm => rfl
  | mv rd rs => rfl

theorem except_map_renX {α : Type} (g : Nat → Nat) (f : α → α) (r : Except AsmErr α) :
    Except.map f (renX g id r) = renX g id (Except.map f r) := by
  cases r <;> rfl

theorem buildInstrs_ren (g : Nat → Nat) (ls : Labels) (es : List TEntry) (addr : Int) :
    buildInstrs ls (es.map (renT g)) addr = renX g id (buildInstrs ls es addr) := by
  induction es generalizing addr with
  | nil => rfl
  | cons e rest ih =>
    obtain ⟨k, line, it⟩ := e
    simp only [List.map_cons, renT]
    cases it with
    | str s =>
      simp only [buildInstrs, ih]
      split
      · exact except_map_renX g _ _
      · split
        · exact except_map_renX g _ _
        · rfl
    | grp pi =>
      simp only [buildInstrs, instantiate_ren, ih]
      cases instantiate ls addr k line pi with
      | error x => rfl
      | ok ins => exact except_map_renX g _ _
    | varDecl n ty vals => rfl
    | strDecl n b => rfl
    | zeroDecl n c => rfl
    | directive d => rfl

end ArchSim.Lemmas.C04Spell
