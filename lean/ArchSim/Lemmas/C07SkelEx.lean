/-
C07 helper lemmas: the EX and MEM stages commute with data erasure (in cycles without exception).
Core Lean only.
-/
import ArchSim.Lemmas.C07Skel

namespace ArchSim.Lemmas.C07
open ArchSim ArchSim.Rv ArchSim.Pipe ArchSim.Lemmas.C02Split ArchSim.Spec

theorem erase_mustWait (d : Latch) (l2 l3 : Option Latch) :
    ecallMustWait d l2 l3 = Skeleton.mustWait (eraseL d) (eraseO l2) (eraseO l3) := by
  unfold ecallMustWait Skeleton.mustWait
  cases l2 <;> cases l3 <;> rfl

/-- Exit decision of the EX output. -/
def exitOf (l : Option Latch) : Bool := match l with | some x => x.exitCode.isSome | none => false

/-- Skeleton-side description of the EX stage on erased inputs. -/
def skRuns (inp l2 l3 : Option Skeleton.Tok) : Bool :=
  match inp with
  | none => false
  | some t => decide (t.instr.op = .ecall) && !Skeleton.mustWait t l2 l3

def skStall (inp l2 l3 : Option Skeleton.Tok) : Bool :=
  match inp with
  | none => false
  | some t => decide (t.instr.op = .ecall) && Skeleton.mustWait t l2 l3

theorem exStage_erase (s : St) (inp l2 l3 : Option Latch) (hf : (exStage s inp l2 l3).fault = none) :
    eraseO (exStage s inp l2 l3).latch =
      (eraseO inp).map (fun t => Skeleton.pass t
        (skRuns (eraseO inp) (eraseO l2) (eraseO l3) && exitOf (exStage s inp l2 l3).latch)) ∧
    latchStall (exStage s inp l2 l3).latch = skStall (eraseO inp) (eraseO l2) (eraseO l3) ∧
    latchFlush (exStage s inp l2 l3).latch =
      (match eraseO inp with
       | none => none
       | some t => if skRuns (eraseO inp) (eraseO l2) (eraseO l3) && exitOf (exStage s inp l2 l3).latch
                   then some t.pc4 else none) := by
  cases inp with
  | none => exact ⟨rfl, rfl, rfl⟩
  | some d =>
    have hmw := erase_mustWait d l2 l3
    cases halu : aluCompute d.instr (aluIn1 d) (aluIn2 d) with
    | none => rw [exStage_assert s d l2 l3 halu] at hf; simp at hf
    | some cr =>
      obtain ⟨cmp, res⟩ := cr
      by_cases hop : d.instr.op = .ecall
      · have hop' : (eraseL d).instr.op = .ecall := hop
        by_cases hw : ecallMustWait d l2 l3 = true
        · rw [exStage_ecall_wait s d l2 l3 hop hw]
          have hw' : Skeleton.mustWait (eraseL d) (eraseO l2) (eraseO l3) = true := by rw [← hmw]; exact hw
          simp [eraseO, skRuns, skStall, hop', latchStall, latchFlush, exitOf, exBase]
          exact ⟨rfl, hw'⟩
        · have hw0 : ecallMustWait d l2 l3 = false := by simpa using hw
          have hw' : Skeleton.mustWait (eraseL d) (eraseO l2) (eraseO l3) = false := by rw [← hmw]; exact hw0
          rw [exStage_ecall_run s d l2 l3 hop hw0] at hf ⊢
          unfold ecallRun at hf ⊢
          split at hf
          · simp [eraseO, skRuns, skStall, hop', latchStall, latchFlush, exitOf, exBase]
            exact ⟨rfl, hw'⟩
          · simp [eraseO, skRuns, skStall, hop', latchStall, latchFlush, exitOf, exBase]
            have hw'' : Skeleton.mustWait (eraseL d) (Option.map eraseL l2) (Option.map eraseL l3) = false := hw'
            rw [hw'']
            exact ⟨rfl, rfl, rfl⟩
          · simp at hf
          · simp at hf
      · have hop' : ¬ (eraseL d).instr.op = .ecall := hop
        rw [exStage_nonEcall s d l2 l3 cmp res hop halu]
        simp [eraseO, skRuns, skStall, hop', latchStall, latchFlush, exitOf, exBase]
        rfl

theorem memStage_erase (s : St) (inp : Option Latch) (hf : (memStage s inp).fault = none) :
    eraseO (memStage s inp).latch = (eraseO inp).map (fun t => Skeleton.pass t t.exits) ∧
    (inp = none → latchFlush (memStage s inp).latch = none) := by
  cases inp with
  | none => exact ⟨rfl, fun _ => rfl⟩
  | some e =>
    obtain ⟨rd, hl⟩ := memStage_ok_latch s e hf
    rw [hl]
    exact ⟨rfl, fun h => by simp at h⟩

/-! ### The per-cycle signals of `p` are those of its skeleton -/

theorem exO_erase (p : PSt) (hf : (exO p).fault = none) :
    eraseO (exO p).latch = Skeleton.newS2 (erase p) (outcomes p) ∧
    latchStall (exO p).latch = Skeleton.exStallSig (erase p) ∧
    latchFlush (exO p).latch = Skeleton.flush2 (erase p) (outcomes p) := by
  have h := exStage_erase (sWB p) (exInput p) p.l2 p.l3 hf
  unfold Skeleton.newS2 Skeleton.exStallSig Skeleton.flush2 Skeleton.exRuns
  rw [erase_exIn]
  exact h

theorem meO_erase (p : PSt) (hf : (meO p).fault = none) :
    eraseO (meO p).latch = Skeleton.newS3 (erase p) ∧
    latchFlush (meO p).latch = Skeleton.flush3 (erase p) (outcomes p) := by
  obtain ⟨h1, h2⟩ := memStage_erase (exO p).st (memInput p) hf
  unfold Skeleton.newS3 Skeleton.flush3
  rw [erase_memIn]
  refine ⟨h1, ?_⟩
  cases hm : memInput p with
  | none => exact h2 hm
  | some e => rfl

end ArchSim.Lemmas.C07
