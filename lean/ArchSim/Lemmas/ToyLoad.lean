/-
The state produced by `loadImage`: memory image, boundary invariant, abstraction = `refInit`.
-/
import ArchSim.Lemmas.ToyRefine

namespace ArchSim.Toy
open ArchSim ArchSim.ToyRef

/-- The data-writing step of `loadImage`. -/
def dataStep (m : Mem.Mem) (av : Nat × Nat) : Mem.Mem := (Mem.writeN m (av.1 : Int) 1 (av.2 % 65536)).1

theorem dataStep_cfg (m : Mem.Mem) (av : Nat × Nat) : (dataStep m av).cfg = m.cfg := writeN_one_cfg _ _ _

theorem foldl_dataStep_cfg (data : List (Nat × Nat)) (m : Mem.Mem) :
    (data.foldl dataStep m).cfg = m.cfg := by
  induction data generalizing m with
  | nil => rfl
  | cons av data ih => simp only [List.foldl_cons]; rw [ih, dataStep_cfg]

theorem absMem_dataStep (m : Mem.Mem) (hc : m.cfg = Mem.toyCfg) (av : Nat × Nat) :
    absMem (dataStep m av) =
      if av.1 < 4096 then (fun x => if x = BitVec.ofNat 12 av.1 then BitVec.ofNat 16 av.2 else absMem m x)
      else absMem m := by
  unfold dataStep
  by_cases ha : av.1 < 4096
  · rw [writeN_toy m hc _ ha, if_pos ha]
    simp only
    rw [absMem_putCell _ _ _ ha, ofNat16_mod]
  · rw [writeN_toy_err m hc _ (by omega), if_neg ha]

theorem absMem_foldl_dataStep (data : List (Nat × Nat)) (m : Mem.Mem) (hc : m.cfg = Mem.toyCfg) :
    absMem (data.foldl dataStep m) =
      data.foldl (fun f (av : Nat × Nat) =>
        if av.1 < 4096 then (fun x => if x = BitVec.ofNat 12 av.1 then BitVec.ofNat 16 av.2 else f x) else f)
        (absMem m) := by
  induction data generalizing m with
  | nil => rfl
  | cons av data ih =>
    simp only [List.foldl_cons]
    rw [ih _ (by rw [dataStep_cfg]; exact hc), absMem_dataStep m hc]

theorem absMem_empty : absMem (Mem.Mem.empty Mem.toyCfg) = fun _ => 0 := by
  funext x; simp [absMem, Mem.Mem.empty]

theorem writeInstrs_cfg (is : List TInstr) (m : Mem.Mem) (k : Nat) :
    (loadImage.writeInstrs m k is).cfg = m.cfg := by
  induction is generalizing m k with
  | nil => rfl
  | cons i is ih => simp only [loadImage.writeInstrs]; rw [ih, writeN_one_cfg]

/-- Instruction `j` of the list lands at address `k + j`; everything else is untouched. -/
theorem writeInstrs_cells (is : List TInstr) (m : Mem.Mem) (hc : m.cfg = Mem.toyCfg) (k : Nat)
    (hk : k + is.length ≤ 4096) (x : Int) :
    (loadImage.writeInstrs m k is).cells x =
      if (k : Int) ≤ x ∧ x < (k : Int) + is.length
      then encode (is.getD (x - k).toNat default) % 65536 else m.cells x := by
  induction is generalizing m k with
  | nil =>
    have : ¬ ((k : Int) ≤ x ∧ x < (k : Int) + ([] : List TInstr).length) := by simp
    simp only [loadImage.writeInstrs, if_neg this]
  | cons i is ih =>
    simp only [List.length_cons] at hk
    simp only [loadImage.writeInstrs]
    have hk' : k < 4096 := by omega
    rw [writeN_toy m hc k hk']
    simp only
    rw [ih (putCell m k (encode i % 65536)) (by simpa using hc) (k + 1) (by omega)]
    simp only [putCell_cells, List.length_cons]
    by_cases h1 : ((k + 1 : Nat) : Int) ≤ x ∧ x < ((k + 1 : Nat) : Int) + is.length
    · have h2 : (k : Int) ≤ x ∧ x < (k : Int) + ((is.length + 1 : Nat) : Int) := by omega
      rw [if_pos h1, if_pos h2]
      have : (x - (k : Int)).toNat = (x - ((k + 1 : Nat) : Int)).toNat + 1 := by omega
      rw [this, List.getD_cons_succ]
    · rw [if_neg h1]
      by_cases h3 : x = (k : Int)
      · have h2 : (k : Int) ≤ x ∧ x < (k : Int) + ((is.length + 1 : Nat) : Int) := by omega
        rw [if_pos h3, if_pos h2]
        have : (x - (k : Int)).toNat = 0 := by omega
        rw [this, List.getD_cons_zero]
        omega
      · have h2 : ¬ ((k : Int) ≤ x ∧ x < (k : Int) + ((is.length + 1 : Nat) : Int)) := by omega
        rw [if_neg h3, if_neg h2]

/-- The memory of a loaded image. -/
def imageMem (instrs : List TInstr) (data : List (Nat × Nat)) : Mem.Mem :=
  loadImage.writeInstrs (data.foldl dataStep (Mem.Mem.empty Mem.toyCfg)) 0 instrs

theorem loadImage_mem (t : TSim) (instrs : List TInstr) (data : List (Nat × Nat)) :
    (loadImage t instrs data).s.mem = imageMem instrs data := by
  unfold loadImage imageMem
  cases instrs <;> rfl

theorem imageMem_cfg (instrs : List TInstr) (data : List (Nat × Nat)) :
    (imageMem instrs data).cfg = Mem.toyCfg := by
  unfold imageMem; rw [writeInstrs_cfg, foldl_dataStep_cfg]; rfl

theorem absMem_imageMem (instrs : List TInstr) (data : List (Nat × Nat)) (hlen : instrs.length ≤ 4096) :
    absMem (imageMem instrs data) =
      fun x => if x.toNat < instrs.length then BitVec.ofNat 16 (encode (instrs.getD x.toNat default))
               else dataMem data x := by
  funext x
  have hc0 : (data.foldl dataStep (Mem.Mem.empty Mem.toyCfg)).cfg = Mem.toyCfg := by
    rw [foldl_dataStep_cfg]; rfl
  have := writeInstrs_cells instrs _ hc0 0 (by omega) (x.toNat : Int)
  unfold imageMem
  simp only [absMem]
  rw [this]
  by_cases hx : x.toNat < instrs.length
  · have h2 : ((0 : Nat) : Int) ≤ (x.toNat : Int) ∧ (x.toNat : Int) < ((0 : Nat) : Int) + instrs.length := by omega
    rw [if_pos hx, if_pos h2, ofNat16_mod]
    have : ((x.toNat : Int) - ((0 : Nat) : Int)).toNat = x.toNat := by omega
    rw [this]
  · have h2 : ¬ (((0 : Nat) : Int) ≤ (x.toNat : Int) ∧ (x.toNat : Int) < ((0 : Nat) : Int) + instrs.length) := by omega
    rw [if_neg hx, if_neg h2]
    have := absMem_foldl_dataStep data (Mem.Mem.empty Mem.toyCfg) rfl
    rw [absMem_empty] at this
    exact congrFun this x

theorem loadImage_fields (t : TSim) (instrs : List TInstr) (data : List (Nat × Nat)) :
    (loadImage t instrs data).s.pc = 1 ∧ (loadImage t instrs data).s.accu = 0 ∧
    (loadImage t instrs data).s.maxPc = some ((instrs.length : Int) - 1) ∧
    (loadImage t instrs data).s.loaded = instrs.head? ∧
    (loadImage t instrs data).s.cycles = 0 ∧ (loadImage t instrs data).s.instrs = 0 ∧
    (loadImage t instrs data).s.branches = 0 := by
  unfold loadImage
  cases instrs <;> simp

/-- Abstraction of a freshly loaded image = the reference machine's initial state. -/
theorem abs_loadImage (t : TSim) (instrs : List TInstr) (data : List (Nat × Nat))
    (hlen : instrs.length ≤ 4096) :
    abs (loadImage t instrs data) =
      refInit instrs.length (fun k => encode (instrs.getD k default)) data := by
  obtain ⟨hpc, hacc, hmax, hld, hcy, hin, hbr⟩ := loadImage_fields t instrs data
  apply RefSt.ext
  · show BitVec.ofNat 16 (loadImage t instrs data).s.accu = _
    rw [hacc]; rfl
  · show BitVec.ofNat 12 ((loadImage t instrs data).s.pc + 4095) = _
    rw [hpc]; rfl
  · show absMem (loadImage t instrs data).s.mem = _
    rw [loadImage_mem, absMem_imageMem _ _ hlen]; rfl
  · show (loadImage t instrs data).s.maxPc.getD (-1) = _
    rw [hmax]; rfl
  · show isDone (loadImage t instrs data) = decide (instrs.length = 0)
    rw [isDone, hld]
    cases instrs <;> simp
  · exact hin
  · exact hcy
  · exact hbr

/-- A freshly loaded image satisfies the boundary invariant, provided the simulation object was at
    a boundary and the first instruction is a proper instruction object. -/
theorem BInv_loadImage (t : TSim) (h1 : t.nextCycle = 1) (instrs : List TInstr) (data : List (Nat × Nat))
    (hlen : instrs.length ≤ 4096)
    (hhead : ∀ i, instrs.head? = some i → i.opcode ≤ 12 ∧ i.addr < 4096) :
    BInv (loadImage t instrs data) := by
  obtain ⟨hpc, hacc, hmax, hld, hcy, hin, hbr⟩ := loadImage_fields t instrs data
  refine ⟨by rw [(loadImage_next t instrs data).1, h1], ?_, by rw [hacc]; omega, by rw [hpc]; omega, ?_⟩
  · rw [loadImage_mem]; exact imageMem_cfg _ _
  · rw [hld]
    cases instrs with
    | nil => left; rfl
    | cons i is =>
      right
      obtain ⟨ho, ha⟩ := hhead i rfl
      simp only [List.head?_cons, Option.some.injEq]
      rw [hpc, rd_toy _ (by rw [loadImage_mem]; exact imageMem_cfg _ _) _ (by omega), loadImage_mem]
      have hc0 : (data.foldl dataStep (Mem.Mem.empty Mem.toyCfg)).cfg = Mem.toyCfg := by
        rw [foldl_dataStep_cfg]; rfl
      have := writeInstrs_cells (i :: is) _ hc0 0 (by simpa using hlen) (((1 + 4095) % 4096 : Nat) : Int)
      unfold imageMem
      rw [this]
      simp only [List.length_cons]
      have h2 : ((0 : Nat) : Int) ≤ (((1 + 4095) % 4096 : Nat) : Int) ∧
          (((1 + 4095) % 4096 : Nat) : Int) < ((0 : Nat) : Int) + ((is.length + 1 : Nat) : Int) := by omega
      rw [if_pos h2]
      have : ((((1 + 4095) % 4096 : Nat) : Int) - ((0 : Nat) : Int)).toNat = 0 := by omega
      rw [this, List.getD_cons_zero]
      obtain ⟨op, a⟩ := i
      simp only at ho ha
      simp only [encode, decode]
      have e1 : (op * 4096 + a) % 65536 % 65536 / 4096 % 16 = op := by omega
      have e2 : (op * 4096 + a) % 65536 % 65536 % 4096 = a := by omega
      simp only [e1, e2]
      by_cases h : op ≤ 11
      · simp [h]
      · have : op = 12 := by omega
        simp [this]

end ArchSim.Toy
