/-
C07 helper lemmas, part 4: the cycle counter after one `Pipe.step` (all three outcomes), and the
size of the two penalty terms.
Core Lean only.
-/
import ArchSim.Lemmas.C07Finish

namespace ArchSim.Lemmas.C07
open ArchSim ArchSim.Rv ArchSim.Pipe ArchSim.Lemmas.C02Split

/-- The MEM-stage term of this cycle: MEM does not run when EX raised. -/
def memExtraRun (p : PSt) : Nat := if (exO p).fault.isSome then 0 else memExtra p

theorem step_cycles (p : PSt) :
    (step p).p.st.cycles = p.st.cycles + 1 + fetchExtra p + memExtraRun p := by
  rw [step_eq]; unfold memExtraRun
  cases h1 : (exO p).fault with
  | some f => simp [exO_cycles]
  | none =>
    cases h2 : (meO p).fault with
    | some f => simp [meO_cycles]
    | none => simp [(finishStep_frame _ _ _ _ _ _ _).1, meO_cycles]

theorem step_fault_none_iff (p : PSt) :
    (step p).fault = none ↔ (exO p).fault = none ∧ (meO p).fault = none := by
  rw [step_eq]
  cases h1 : (exO p).fault with
  | some f => simp
  | none => cases h2 : (meO p).fault <;> simp

theorem step_cycles_ok (p : PSt) (h : (step p).fault = none) :
    (step p).p.st.cycles = p.st.cycles + 1 + fetchExtra p + memExtra p := by
  rw [step_cycles]; unfold memExtraRun
  simp [((step_fault_none_iff p).1 h).1]

theorem step_cycles_exFault (p : PSt) (h : (exO p).fault.isSome) :
    (step p).p.st.cycles = p.st.cycles + 1 + fetchExtra p := by
  rw [step_cycles]; unfold memExtraRun; simp [h]

theorem step_cycles_memFault (p : PSt) (h1 : (exO p).fault = none) :
    (step p).p.st.cycles = p.st.cycles + 1 + fetchExtra p + memExtra p := by
  rw [step_cycles]; unfold memExtraRun; simp [h1]

/-! ### Size of the penalty terms -/

theorem fetch_extra_none (im : IMem) (pc : Int) (h : im.cache = none) : (im.fetch pc).extra = 0 := by
  unfold IMem.fetch
  simp only [h]
  repeat' split
  all_goals rfl

/-- The fetch adds either nothing or the miss penalty of the instruction cache. -/
theorem fetch_extra_cases (im : IMem) (pc : Int) :
    (im.fetch pc).extra = 0 ∨ ∃ c, im.cache = some c ∧ (im.fetch pc).extra = c.penalty := by
  cases h : im.cache with
  | none => left; exact fetch_extra_none im pc h
  | some c =>
    unfold IMem.fetch
    simp only [h]
    repeat' split
    all_goals first
      | (left; rfl)
      | (right; exact ⟨_, rfl, rfl⟩)

theorem ifExtra_none (s : St) (h : s.imem.cache = none) : ifExtra s = 0 := by
  unfold ifExtra; split
  · rfl
  · exact fetch_extra_none _ _ h

theorem fetchExtra_none (p : PSt) (h : p.st.imem.cache = none) : fetchExtra p = 0 := by
  unfold fetchExtra; split
  · exact ifExtra_none _ h
  · rfl

theorem read_flat_extra (m : Mem.Mem) (bits : Nat) (a : Int) (c : Bool) :
    ((MemSys.flat m).read bits a c).extra = 0 := by
  unfold MemSys.read; simp only; split <;> rfl

theorem write_flat_extra (m : Mem.Mem) (bits : Nat) (a : Int) (v : Nat) (c : Bool) :
    ((MemSys.flat m).write bits a v c).extra = 0 := by
  unfold MemSys.write; simp only; split <;> rfl

theorem memoryAccess_flat_extra (i : Instr) (a w : Option Int) (m : Mem.Mem) (c : Bool) (o : MaOut)
    (h : memoryAccess i a w (.flat m) c = some o) : o.extra = 0 := by
  unfold memoryAccess at h
  repeat' split at h
  all_goals simp at h
  all_goals (subst h; first | rfl | exact read_flat_extra .. | exact write_flat_extra ..)

theorem maExtra_flat (m : Mem.Mem) (inp : Option Latch) : maExtra (.flat m) inp = 0 := by
  unfold maExtra
  cases inp with
  | none => rfl
  | some e =>
    simp only
    split
    · rfl
    · exact memoryAccess_flat_extra _ _ _ _ _ _ (by assumption)

end ArchSim.Lemmas.C07
