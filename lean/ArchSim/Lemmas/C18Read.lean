/-
Helper lemmas for C18 (flat memory), part 2: reads, little-endian round trip, address wrap,
range errors, the well-formedness invariant.
-/
import ArchSim.Lemmas.C18Store

namespace ArchSim.Lemmas.C18
open ArchSim.Mem ArchSim.Spec.ByteStore

/-! ### reads -/

theorem readCell_ok (m : Mem) (a : Int) (h : inRange m.cfg (wrapAddr m.cfg a) = true) :
    readCell m a = .ok (m.cells (wrapAddr m.cfg a)) := by
  simp [readCell, h]

theorem readCell_err (m : Mem) (a : Int) (h : inRange m.cfg (wrapAddr m.cfg a) = false) :
    readCell m a = .error ⟨wrapAddr m.cfg a⟩ := by
  simp [readCell, h]

/-- The sum `readNFrom` computes, following its recursion. -/
def sumFrom (m : Mem) (a : Int) : (n i : Nat) → Nat
  | 0,     _ => 0
  | n + 1, i => m.cells (wrapAddr m.cfg (a + i)) * 2 ^ (i * m.cfg.cellBits) + sumFrom m a n (i + 1)

theorem readNFrom_ok (m : Mem) (a : Int) (n i : Nat)
    (hok : ∀ j, j < n → cellOk m.cfg a (i + j) = true) :
    readNFrom m a n i = .ok (sumFrom m a n i) := by
  induction n generalizing i with
  | zero => rfl
  | succ n ih =>
    have h0 : inRange m.cfg (wrapAddr m.cfg (a + i)) = true := by
      have := hok 0 (by omega); simpa [cellOk] using this
    have hrec : readNFrom m a n (i + 1) = .ok (sumFrom m a n (i + 1)) := by
      apply ih
      intro j hj
      have := hok (j + 1) (by omega)
      rwa [show i + (j + 1) = i + 1 + j by omega] at this
    simp only [readNFrom, readCell_ok m _ h0, hrec, sumFrom]

theorem readNFrom_err (m : Mem) (a : Int) (n i j : Nat) (hj : j < n)
    (hok : ∀ j', j' < j → cellOk m.cfg a (i + j') = true)
    (hbad : cellOk m.cfg a (i + j) = false) :
    readNFrom m a n i = .error ⟨wrapAddr m.cfg (a + ((i + j : Nat) : Int))⟩ := by
  induction n generalizing i j with
  | zero => omega
  | succ n ih =>
    cases j with
    | zero =>
      have h0 : inRange m.cfg (wrapAddr m.cfg (a + i)) = false := by simpa [cellOk] using hbad
      simp only [readNFrom, readCell_err m _ h0, Nat.add_zero]
    | succ j =>
      have h0 : inRange m.cfg (wrapAddr m.cfg (a + i)) = true := by
        have := hok 0 (by omega); simpa [cellOk] using this
      have hrec : readNFrom m a n (i + 1) =
          .error ⟨wrapAddr m.cfg (a + ((i + 1 + j : Nat) : Int))⟩ := by
        apply ih
        · omega
        · intro j' hj'
          have := hok (j' + 1) (by omega)
          rwa [show i + (j' + 1) = i + 1 + j' by omega] at this
        · rwa [show i + (j + 1) = i + 1 + j by omega] at hbad
      simp only [readNFrom, readCell_ok m _ h0, hrec]
      rw [show i + (j + 1) = i + 1 + j by omega]

theorem sumFrom_closed (m : Mem) (a : Int) (n i : Nat) :
    sumFrom m a n i =
      ((List.range n).map (fun j => m.cells (wrapAddr m.cfg (a + ((i + j : Nat) : Int)))
          * 2 ^ ((i + j) * m.cfg.cellBits))).sum := by
  induction n generalizing i with
  | zero => rfl
  | succ n ih =>
    rw [sumFrom, List.range_succ_eq_map, List.map_cons, List.sum_cons, List.map_map, ih]
    simp only [Nat.add_zero]
    congr 2
    apply List.map_congr_left
    intro j _
    simp only [Function.comp]
    rw [show i + 1 + j = i + (j + 1) by omega]

theorem readN_ok (m : Mem) (a : Int) (n : Nat) (hok : ∀ i, i < n → cellOk m.cfg a i = true) :
    readN m a n = .ok (leSum m.cfg n (fun i => m.cells (wrapAddr m.cfg (a + (i : Int))))) := by
  rw [readN, readNFrom_ok m a n 0 (by simpa using hok), sumFrom_closed]
  simp [leSum]

theorem readN_err (m : Mem) (a : Int) (n j : Nat) (hj : j < n)
    (hok : ∀ i, i < j → cellOk m.cfg a i = true) (hbad : cellOk m.cfg a j = false) :
    readN m a n = .error ⟨wrapAddr m.cfg (a + (j : Int))⟩ := by
  rw [readN, readNFrom_err m a n 0 j hj (by simpa using hok) (by simpa using hbad)]
  simp

/-! ### little-endian sums -/

theorem leSum_succ (c : Cfg) (n : Nat) (f : Nat → Nat) :
    leSum c (n + 1) f = leSum c n f + f n * 2 ^ (n * c.cellBits) := by
  simp [leSum, List.range_succ, List.sum_append]

theorem leSum_congr (c : Cfg) (n : Nat) (f g : Nat → Nat) (h : ∀ i, i < n → f i = g i) :
    leSum c n f = leSum c n g := by
  induction n with
  | zero => rfl
  | succ n ih =>
    rw [leSum_succ, leSum_succ, ih (fun i hi => h i (by omega)), h n (by omega)]

theorem leSum_lt (c : Cfg) (n : Nat) (f : Nat → Nat) (h : ∀ i, i < n → f i < 2 ^ c.cellBits) :
    leSum c n f < 2 ^ (n * c.cellBits) := by
  induction n with
  | zero => simp [leSum]
  | succ n ih =>
    rw [leSum_succ]
    have h1 := ih (fun i hi => h i (by omega))
    have h2 : f n + 1 ≤ 2 ^ c.cellBits := h n (by omega)
    have h3 := Nat.mul_le_mul_right (2 ^ (n * c.cellBits)) h2
    rw [Nat.succ_mul] at h3
    have h4 : 2 ^ ((n + 1) * c.cellBits) = 2 ^ c.cellBits * 2 ^ (n * c.cellBits) := by
      rw [← Nat.pow_add]; congr 1; rw [Nat.succ_mul]; omega
    rw [h4]
    omega

/-- Little-endian compose ∘ decompose. -/
theorem leSum_cellVal (c : Cfg) (n v : Nat) :
    leSum c n (cellVal c v) = v % 2 ^ (n * c.cellBits) := by
  induction n with
  | zero => simp [leSum, Nat.mod_one]
  | succ n ih =>
    rw [leSum_succ, ih]
    have h4 : 2 ^ ((n + 1) * c.cellBits) = 2 ^ (n * c.cellBits) * 2 ^ c.cellBits := by
      rw [← Nat.pow_add]; congr 1; rw [Nat.succ_mul]
    rw [h4, Nat.mod_mul, cellVal]
    congr 1
    exact Nat.mul_comm _ _

theorem cellsOf_mul_le (c : Cfg) (bits : Nat) : cellsOf c bits * c.cellBits ≤ bits :=
  Nat.div_mul_le_self _ _

theorem leSum_mod_bits (c : Cfg) (bits : Nat) (f : Nat → Nat)
    (h : ∀ i, i < cellsOf c bits → f i < 2 ^ c.cellBits) :
    leSum c (cellsOf c bits) f % 2 ^ bits = leSum c (cellsOf c bits) f := by
  apply Nat.mod_eq_of_lt
  exact Nat.lt_of_lt_of_le (leSum_lt c _ f h)
    (Nat.pow_le_pow_right (by omega) (cellsOf_mul_le c bits))

/-! ### what a write leaves in the cells -/

theorem writeN_cells_all_ok (m : Mem) (a : Int) (n v : Nat) (x : Int)
    (hok : ∀ i, i < n → cellOk m.cfg a i = true) :
    (writeN m a n v).1.cells x =
      ((List.range n).map (fun (i : Nat) => (wrapAddr m.cfg (a + (i : Int)), cellVal m.cfg v i))).foldl
        (pick x) (m.cells x) := by
  rw [writeN_eq, okIdx_all _ _ _ hok, applyCells_cells]

theorem writeN_cells_written (m : Mem) (a : Int) (n v i : Nat) (hi : i < n)
    (hok : ∀ i, i < n → cellOk m.cfg a i = true)
    (hd : ∀ j, i < j → j < n → wrapAddr m.cfg (a + (j : Int)) ≠ wrapAddr m.cfg (a + (i : Int))) :
    (writeN m a n v).1.cells (wrapAddr m.cfg (a + (i : Int))) = cellVal m.cfg v i := by
  rw [writeN_cells_all_ok m a n v _ hok]
  exact foldl_pick_range n (fun j => wrapAddr m.cfg (a + (j : Int))) (cellVal m.cfg v) _ i hi hd

/-- A write (complete or truncated) leaves every cell it does not touch unchanged. -/
theorem writeN_cells_other (m : Mem) (a : Int) (n v : Nat) (x : Int)
    (hx : ∀ i, i < n → wrapAddr m.cfg (a + (i : Int)) ≠ x) :
    (writeN m a n v).1.cells x = m.cells x := by
  rw [writeN_eq, applyCells_cells]
  apply foldl_pick_not_mem
  simp only [List.map_map, List.mem_map, not_exists, not_and]
  intro i hi
  have : i < n := by
    have := (List.takeWhile_subset (l := List.range n) (cellOk m.cfg a)) hi
    simpa using this
  exact hx i this

theorem roundtrip (m : Mem) (a : Int) (n v : Nat)
    (hok : ∀ i, i < n → cellOk m.cfg a i = true)
    (hd : ∀ i j, i < n → j < n → wrapAddr m.cfg (a + (i : Int)) = wrapAddr m.cfg (a + (j : Int)) → i = j) :
    readN (writeN m a n v).1 a n = .ok (v % 2 ^ (n * m.cfg.cellBits)) := by
  rw [readN_ok _ a n (by simpa using hok)]
  simp only [writeN_cfg]
  rw [leSum_congr m.cfg n _ (cellVal m.cfg v), leSum_cellVal]
  intro i hi
  apply writeN_cells_written m a n v i hi hok
  intro j hij hj e
  have := hd j i hj hi e
  omega

/-! ### distinctness of the wrapped cell addresses of one access -/

theorem wrap_inj (c : Cfg) (a : Int) (n : Nat)
    (h : c.overflow = false ∨ (n : Int) ≤ (2 : Int) ^ c.addrBits) :
    ∀ i j, i < n → j < n → wrapAddr c (a + (i : Int)) = wrapAddr c (a + (j : Int)) → i = j := by
  have key : ∀ i j : Nat, j ≤ i → i < n →
      wrapAddr c (a + (i : Int)) = wrapAddr c (a + (j : Int)) → i = j := by
    intro i j hji hi e
    simp only [wrapAddr] at e
    by_cases hov : c.overflow = true
    · simp only [hov, if_true] at e
      have hn : (n : Int) ≤ (2 : Int) ^ c.addrBits := by
        rcases h with h | h
        · rw [hov] at h; cases h
        · exact h
      have e2 : ((a + (i : Int)) - (a + (j : Int))) % (2 : Int) ^ c.addrBits = 0 :=
        Int.emod_eq_emod_iff_emod_sub_eq_zero.mp e
      have e3 : ((i : Int) - (j : Int)) % (2 : Int) ^ c.addrBits = 0 := by
        rw [show (a + (i : Int)) - (a + (j : Int)) = (i : Int) - (j : Int) by omega] at e2
        exact e2
      have e4 : ((i : Int) - (j : Int)) % (2 : Int) ^ c.addrBits = (i : Int) - (j : Int) :=
        Int.emod_eq_of_lt (by omega) (by omega)
      omega
    · simp only [hov] at e
      simp only [Bool.false_eq_true, if_false] at e
      omega
  intro i j hi hj e
  rcases Nat.le_total j i with hji | hij
  · exact key i j hji hi e
  · exact (key j i hij hj e.symm).symm

/-! ### address wrap -/

theorem wrapAddr_add_mul (c : Cfg) (hov : c.overflow = true) (a k : Int) :
    wrapAddr c (a + k * (2 : Int) ^ c.addrBits) = wrapAddr c a := by
  simp [wrapAddr, hov, Int.add_mul_emod_self_right]

theorem wrapAddr_alias (c : Cfg) (hov : c.overflow = true) (a k : Int) (i : Nat) :
    wrapAddr c (a + k * (2 : Int) ^ c.addrBits + (i : Int)) = wrapAddr c (a + (i : Int)) := by
  rw [Int.add_right_comm, wrapAddr_add_mul c hov]

theorem readNFrom_alias (m : Mem) (hov : m.cfg.overflow = true) (a k : Int) (n i : Nat) :
    readNFrom m (a + k * (2 : Int) ^ m.cfg.addrBits) n i = readNFrom m a n i := by
  induction n generalizing i with
  | zero => rfl
  | succ n ih =>
    simp only [readNFrom, readCell, wrapAddr_alias m.cfg hov, ih]

theorem writeCell_cfg (m m' : Mem) (a : Int) (v : Nat) (h : writeCell m a v = .ok m') :
    m'.cfg = m.cfg := by
  simp only [writeCell] at h
  split at h
  · cases h; rfl
  · cases h

theorem writeNFrom_alias (m : Mem) (hov : m.cfg.overflow = true) (a k : Int) (n i v : Nat) :
    writeNFrom m (a + k * (2 : Int) ^ m.cfg.addrBits) n i v = writeNFrom m a n i v := by
  induction n generalizing m i v with
  | zero => rfl
  | succ n ih =>
    have e : writeCell m (a + k * (2 : Int) ^ m.cfg.addrBits + (i : Int)) (v % 2 ^ m.cfg.cellBits) =
        writeCell m (a + (i : Int)) (v % 2 ^ m.cfg.cellBits) := by
      simp only [writeCell, wrapAddr_alias m.cfg hov]
    simp only [writeNFrom, e]
    cases hw : writeCell m (a + (i : Int)) (v % 2 ^ m.cfg.cellBits) with
    | error e => rfl
    | ok m' =>
      have hc := writeCell_cfg m m' _ _ hw
      simp only
      rw [← hc]
      exact ih m' (by rw [hc]; exact hov) _ _

/-! ### range errors and truncated writes -/

theorem firstBad_eq (c : Cfg) (a : Int) (n j : Nat) (hj : j ≤ n)
    (hok : ∀ i, i < j → cellOk c a i = true) (hbad : j < n → cellOk c a j = false) :
    firstBad c a n = j := by
  simp [firstBad, okIdx_of_firstBad c a n j hj hok hbad]

theorem exists_firstBad (p : Nat → Bool) (n : Nat) :
    ∃ j, j ≤ n ∧ (∀ i, i < j → p i = true) ∧ (j < n → p j = false) := by
  induction n with
  | zero => exact ⟨0, Nat.le_refl _, fun i hi => absurd hi (Nat.not_lt_zero _), fun h => absurd h (Nat.lt_irrefl _)⟩
  | succ n ih =>
    obtain ⟨j, hj, hok, hbad⟩ := ih
    by_cases hjn : j < n
    · exact ⟨j, by omega, hok, fun _ => hbad hjn⟩
    · have : j = n := by omega
      subst this
      by_cases hp : p j = true
      · refine ⟨j + 1, Nat.le_refl _, ?_, fun h => absurd h (Nat.lt_irrefl _)⟩
        intro i hi
        by_cases hij : i = j
        · rw [hij]; exact hp
        · exact hok i (by omega)
      · exact ⟨j, by omega, hok, fun _ => by simpa using hp⟩

/-- `firstBad` is the least out-of-range cell index of the access, `n` if all cells are in range. -/
theorem firstBad_spec (c : Cfg) (a : Int) (n : Nat) :
    firstBad c a n ≤ n ∧ (∀ i, i < firstBad c a n → cellOk c a i = true) ∧
      (firstBad c a n < n → cellOk c a (firstBad c a n) = false) := by
  obtain ⟨j, hj, hok, hbad⟩ := exists_firstBad (cellOk c a) n
  rw [firstBad_eq c a n j hj hok hbad]
  exact ⟨hj, hok, hbad⟩

theorem okIdx_eq_range (c : Cfg) (a : Int) (n : Nat) : okIdx c a n = List.range (firstBad c a n) := by
  obtain ⟨h1, h2, h3⟩ := firstBad_spec c a n
  exact okIdx_of_firstBad c a n _ h1 h2 h3

theorem firstBad_lt_of_bad (c : Cfg) (a : Int) (n i : Nat) (hi : i < n) (hbad : cellOk c a i = false) :
    firstBad c a n < n := by
  obtain ⟨h1, h2, _⟩ := firstBad_spec c a n
  rcases Nat.lt_or_ge (firstBad c a n) n with h | h
  · exact h
  · have := h2 i (by omega)
    rw [hbad] at this
    cases this

theorem writeN_err (m : Mem) (a : Int) (n j v : Nat) (hj : j < n)
    (hok : ∀ i, i < j → cellOk m.cfg a i = true) (hbad : cellOk m.cfg a j = false) :
    writeN m a n v = ((writeN m a j v).1, some ⟨wrapAddr m.cfg (a + (j : Int))⟩) := by
  rw [writeN_eq, writeN_eq, firstBad_eq m.cfg a n j (by omega) hok (fun _ => hbad),
    okIdx_of_firstBad m.cfg a n j (by omega) hok (fun _ => hbad), okIdx_all m.cfg a j hok]
  simp [hj]

theorem writeN_all_ok (m : Mem) (a : Int) (n v : Nat)
    (hok : ∀ i, i < n → cellOk m.cfg a i = true) : (writeN m a n v).2 = none := by
  rw [writeN_eq, firstBad_eq m.cfg a n n (Nat.le_refl _) hok (fun h => absurd h (Nat.lt_irrefl _))]
  simp

theorem writeN_first_bad (m : Mem) (a : Int) (n v : Nat) (hn : 0 < n)
    (hbad : cellOk m.cfg a 0 = false) :
    writeN m a n v = (m, some ⟨wrapAddr m.cfg a⟩) := by
  rw [writeN_err m a n 0 v hn (fun i hi => absurd hi (Nat.not_lt_zero _)) hbad]
  simp [writeN, writeNFrom]

/-! ### well-formed memories -/

/-- The invariant of every memory reachable from `Mem.empty` by writes. -/
structure WF (m : Mem) : Prop where
  cells_lt : ∀ x, m.cells x < 2 ^ m.cfg.cellBits
  keys_nodup : m.keys.Nodup
  keys_inRange : ∀ x, x ∈ m.keys → inRange m.cfg x = true
  cells_zero : ∀ x, x ∉ m.keys → m.cells x = 0

theorem WF_empty (c : Cfg) : WF (Mem.empty c) where
  cells_lt := fun _ => Nat.two_pow_pos _
  keys_nodup := List.nodup_nil
  keys_inRange := by intro x hx; simp [Mem.empty] at hx
  cells_zero := fun _ _ => rfl

theorem WF_put (m : Mem) (p : Int × Nat) (h : WF m) (hv : p.2 < 2 ^ m.cfg.cellBits)
    (hr : inRange m.cfg p.1 = true) : WF (put m p) where
  cells_lt := by
    intro x
    rw [put_cells, pick]
    split
    · exact hv
    · exact h.cells_lt x
  keys_nodup := put_keys_nodup m p h.keys_nodup
  keys_inRange := by
    intro x hx
    rcases (put_keys_mem m p x).mp hx with hx | hx
    · exact h.keys_inRange x hx
    · rw [hx]; exact hr
  cells_zero := by
    intro x hx
    rw [put_keys_mem, not_or] at hx
    rw [put_cells, pick, if_neg (fun e => hx.2 e.symm)]
    exact h.cells_zero x hx.1

theorem WF_applyCells (m : Mem) (l : List (Int × Nat)) (h : WF m)
    (hl : ∀ p ∈ l, p.2 < 2 ^ m.cfg.cellBits ∧ inRange m.cfg p.1 = true) : WF (applyCells m l) := by
  induction l generalizing m with
  | nil => exact h
  | cons p l ih =>
    rw [applyCells_cons]
    apply ih
    · exact WF_put m p h (hl p (by simp)).1 (hl p (by simp)).2
    · intro q hq; exact hl q (by simp [hq])

theorem WF_writeN (m : Mem) (a : Int) (n v : Nat) (h : WF m) : WF (writeN m a n v).1 := by
  rw [writeN_eq]
  apply WF_applyCells m _ h
  intro p hp
  simp only [List.mem_map] at hp
  obtain ⟨i, hi, rfl⟩ := hp
  refine ⟨cellVal_lt _ _ _, ?_⟩
  have := mem_takeWhile_true _ _ _ hi
  simpa [cellOk] using this

theorem WF_applyOp (m : Mem) (op : Op) (h : WF m) : WF (applyOp m op) := by
  cases op with
  | write bits a v =>
    simp only [applyOp, ArchSim.Mem.write]
    by_cases hc : m.cfg.cellBits > bits
    · simpa [hc] using h
    · simpa [hc] using WF_writeN m a _ v h

theorem WF_run (c : Cfg) (h : List Op) : WF (run c h) := by
  have : ∀ m, WF m → WF (h.foldl applyOp m) := by
    induction h with
    | nil => exact fun m hm => hm
    | cons op h ih => exact fun m hm => ih _ (WF_applyOp m op hm)
  exact this _ (WF_empty c)

end ArchSim.Lemmas.C18
