/-
C14 helper lemmas, part 10: soundness of the grammar — every syntax tree `parseLine` returns is a
`GrammarForm` (mnemonic of its alternative, register numbers below 32).
-/
import ArchSim.Lemmas.C14Built

namespace ArchSim.Lemmas.C14
open ArchSim ArchSim.PP ArchSim.Rv ArchSim.Asm

/-! ### inversion of the combinators -/

theorem bind_eq_ok {α β : Type} {r : R α} {f : α → Inp → R β} {b : β} {rest : Inp} :
    r.bind f = .ok b rest ↔ ∃ a r1, r = .ok a r1 ∧ f a r1 = .ok b rest := by
  cases r with
  | fail => simp [R.bind]
  | abort => simp [R.bind]
  | ok a r1 =>
    simp only [R.bind, R.ok.injEq]
    constructor
    · intro h; exact ⟨a, r1, ⟨rfl, rfl⟩, h⟩
    · rintro ⟨a', r', ⟨rfl, rfl⟩, h⟩; exact h

theorem map_eq_ok {α β : Type} {r : R α} {f : α → β} {b : β} {rest : Inp} :
    r.map f = .ok b rest ↔ ∃ a, r = .ok a rest ∧ f a = b := by
  cases r with
  | fail => simp [R.map]
  | abort => simp [R.map]
  | ok a r1 =>
    simp only [R.map, R.ok.injEq]
    constructor
    · rintro ⟨rfl, rfl⟩; exact ⟨a, ⟨rfl, rfl⟩, rfl⟩
    · rintro ⟨a', ⟨rfl, rfl⟩, rfl⟩; exact ⟨rfl, rfl⟩

theorem oneOf_go_mem (i : Inp) (l : List String) (s : String) (rest : Inp) (h : oneOf.go i l = .ok s rest) :
    s ∈ l := by
  induction l with
  | nil => simp [oneOf.go] at h
  | cons x xs ih =>
    simp only [oneOf.go] at h
    split at h
    · simp only [R.ok.injEq] at h; simp [h.1]
    · exact List.mem_cons_of_mem _ (ih h)

theorem oneOf_mem {syms : List String} {i : Inp} {s : String} {rest : Inp} (h : oneOf syms i = .ok s rest) :
    s ∈ syms := by
  have := oneOf_go_mem _ _ _ _ h
  simpa [longestFirst, List.mem_mergeSort] using this

theorem oneOfCaseless_go_mem (i : Inp) (l : List String) (s : String) (rest : Inp)
    (h : oneOfCaseless.go i l = .ok s rest) : s ∈ l := by
  induction l with
  | nil => simp [oneOfCaseless.go] at h
  | cons x xs ih =>
    simp only [oneOfCaseless.go] at h
    split at h
    · split at h
      · simp only [R.ok.injEq] at h; simp [h.1]
      · cases h
    · exact List.mem_cons_of_mem _ (ih h)

theorem oneOfCaseless_mem {syms : List String} {i : Inp} {s : String} {rest : Inp}
    (h : oneOfCaseless syms i = .ok s rest) : s ∈ syms := by
  have := oneOfCaseless_go_mem _ _ _ _ h
  simpa [longestFirst, List.mem_mergeSort] using this

theorem abi_lt : ∀ p ∈ abiNames, p.2 < 32 := by decide

/-- `pReg` only returns register numbers below 32. -/
theorem pReg_lt {i : Inp} {n : Nat} {rest : Inp} (h : pReg i = .ok n rest) : n < 32 := by
  unfold pReg at h
  split at h
  · simp only [R.ok.injEq] at h
    rw [← h.1]
    cases hf : abiNames.find? (fun p => p.1 == _) with
    | none => simp
    | some p => simpa using abi_lt p (List.mem_of_find?_eq_some hf)
  · cases h
  · obtain ⟨_, r1, _, h2⟩ := bind_eq_ok.mp h
    obtain ⟨t, ht, rfl⟩ := map_eq_ok.mp h2
    have hm := oneOf_mem ht
    simp only [regNumbers, List.mem_map, List.mem_range] at hm
    obtain ⟨m, hm, rfl⟩ := hm
    rw [toNat!_toString]; exact hm

theorem foldl_orStep_mem {α : Type} (rs : List (R α)) (best : R α) (a : α) (rest : Inp)
    (h : rs.foldl orStep best = .ok a rest) : best = .ok a rest ∨ .ok a rest ∈ rs := by
  induction rs generalizing best with
  | nil => exact Or.inl h
  | cons r rs ih =>
    simp only [List.foldl_cons] at h
    rcases ih _ h with h1 | h1
    · have : orStep best r = best ∨ orStep best r = r := by
        unfold orStep
        split
        · split
          · exact Or.inr rfl
          · exact Or.inl rfl
        · exact Or.inl rfl
        · exact Or.inr rfl
      rcases this with e | e
      · left; rw [← e]; exact h1
      · right; rw [e] at h1; rw [h1]; exact List.mem_cons_self
    · exact Or.inr (List.mem_cons_of_mem _ h1)

/-- the result of `Or` is the result of one of its alternatives -/
theorem orLongest_ok {α : Type} {ps : List (Inp → R α)} {i : Inp} {a : α} {rest : Inp}
    (h : orLongest ps i = .ok a rest) : ∃ p ∈ ps, p i = .ok a rest := by
  rw [orLongest_eq] at h
  split at h
  · cases h
  · rcases foldl_orStep_mem _ _ a rest h with h1 | h1
    · cases h1
    · obtain ⟨p, hp, he⟩ := List.mem_map.mp h1
      exact ⟨p, hp, he⟩

theorem first_ok {α : Type} {ps : List (Inp → R α)} {i : Inp} {a : α} {rest : Inp}
    (h : first ps i = .ok a rest) : ∃ p ∈ ps, p i = .ok a rest := by
  induction ps with
  | nil => simp [first] at h
  | cons p ps ih =>
    simp only [first] at h
    split at h
    · next hp => simp only [R.ok.injEq] at h; exact ⟨p, List.mem_cons_self, by rw [hp, h.1, h.2]⟩
    · cases h
    · obtain ⟨q, hq, he⟩ := ih h
      exact ⟨q, List.mem_cons_of_mem _ hq, he⟩

/-! ### the alternatives of the instruction grammar -/

theorem pRType_form {i : Inp} {pi : PInstr} {rest : Inp} (h : pRType i = .ok pi rest) : GrammarForm pi := by
  simp only [pRType, bind_eq_ok, map_eq_ok] at h
  obtain ⟨mn, r0, hmn, rd, r1, hrd, _, r2, _, rs1, r3, hrs1, _, r4, _, rs2, hrs2, rfl⟩ := h
  exact ⟨oneOfCaseless_mem hmn, pReg_lt hrd, pReg_lt hrs1, pReg_lt hrs2⟩

theorem pRegRegImm_form {i : Inp} {pi : PInstr} {rest : Inp} (h : pRegRegImm i = .ok pi rest) :
    GrammarForm pi := by
  simp only [pRegRegImm, bind_eq_ok, map_eq_ok] at h
  obtain ⟨mn, r0, hmn, a, r1, ha, _, r2, _, b, r3, hb, _, r4, _, imm, _, rfl⟩ := h
  exact ⟨oneOfCaseless_mem hmn, pReg_lt ha, pReg_lt hb⟩

theorem pBType_form {i : Inp} {pi : PInstr} {rest : Inp} (h : pBType i = .ok pi rest) : GrammarForm pi := by
  simp only [pBType, bind_eq_ok, map_eq_ok] at h
  obtain ⟨mn, r0, hmn, a, r1, ha, _, r2, _, b, r3, hb, _, r4, _, l, r5, _, off, _, rfl⟩ := h
  exact ⟨oneOfCaseless_mem hmn, pReg_lt ha, pReg_lt hb⟩

theorem pMemory_form {i : Inp} {pi : PInstr} {rest : Inp} (h : pMemory i = .ok pi rest) : GrammarForm pi := by
  simp only [pMemory, bind_eq_ok, map_eq_ok] at h
  obtain ⟨mn, r0, hmn, a, r1, ha, _, r2, _, imm, r3, _, _, r4, _, b, r5, hb, _, _, rfl⟩ := h
  exact ⟨oneOfCaseless_mem hmn, pReg_lt ha, pReg_lt hb⟩

theorem pMemPseudo_form {i : Inp} {pi : PInstr} {rest : Inp} (h : pMemPseudo i = .ok pi rest) :
    GrammarForm pi := by
  simp only [pMemPseudo, bind_eq_ok, map_eq_ok] at h
  obtain ⟨mn, r0, hmn, a, r1, ha, _, r2, _, ⟨v, idx⟩, _, rfl⟩ := h
  exact ⟨oneOfCaseless_mem hmn, pReg_lt ha⟩

theorem pSPseudo_form {i : Inp} {pi : PInstr} {rest : Inp} (h : pSPseudo i = .ok pi rest) :
    GrammarForm pi := by
  simp only [pSPseudo, bind_eq_ok, map_eq_ok] at h
  obtain ⟨mn, r0, hmn, a, r1, ha, _, r2, _, ⟨v, idx⟩, r3, _, _, r4, _, b, hb, rfl⟩ := h
  exact ⟨oneOfCaseless_mem hmn, pReg_lt ha, pReg_lt hb⟩

theorem pUType_form {i : Inp} {pi : PInstr} {rest : Inp} (h : pUType i = .ok pi rest) : GrammarForm pi := by
  simp only [pUType, bind_eq_ok, map_eq_ok] at h
  obtain ⟨mn, r0, hmn, rd, r1, hrd, _, r2, _, imm, _, rfl⟩ := h
  exact ⟨oneOfCaseless_mem hmn, pReg_lt hrd⟩

theorem pFence_form {i : Inp} {pi : PInstr} {rest : Inp} (h : pFence i = .ok pi rest) : GrammarForm pi := by
  simp only [pFence, bind_eq_ok, map_eq_ok] at h
  obtain ⟨_, r0, _, rd, r1, hrd, _, r2, _, rs1, hrs1, rfl⟩ := h
  exact ⟨pReg_lt hrd, pReg_lt hrs1⟩

theorem pCsr_form {i : Inp} {pi : PInstr} {rest : Inp} (h : pCsr i = .ok pi rest) : GrammarForm pi := by
  simp only [pCsr, bind_eq_ok, map_eq_ok] at h
  obtain ⟨mn, r0, hmn, rd, r1, hrd, _, r2, _, c, r3, _, _, r4, _, rs1, hrs1, rfl⟩ := h
  exact ⟨oneOfCaseless_mem hmn, pReg_lt hrd, pReg_lt hrs1⟩

theorem pCsri_form {i : Inp} {pi : PInstr} {rest : Inp} (h : pCsri i = .ok pi rest) : GrammarForm pi := by
  simp only [pCsri, bind_eq_ok, map_eq_ok] at h
  obtain ⟨mn, r0, hmn, rd, r1, hrd, _, r2, _, c, r3, _, _, r4, _, u, _, rfl⟩ := h
  exact ⟨oneOfCaseless_mem hmn, pReg_lt hrd⟩

theorem pLi_form {i : Inp} {pi : PInstr} {rest : Inp} (h : pLi i = .ok pi rest) : GrammarForm pi := by
  simp only [pLi, bind_eq_ok, map_eq_ok] at h
  obtain ⟨_, r0, _, rd, r1, hrd, _, r2, _, imm, _, rfl⟩ := h
  exact pReg_lt hrd

theorem pMv_form {i : Inp} {pi : PInstr} {rest : Inp} (h : pMv i = .ok pi rest) : GrammarForm pi := by
  simp only [pMv, bind_eq_ok, map_eq_ok] at h
  obtain ⟨_, r0, _, rd, r1, hrd, _, r2, _, rs, hrs, rfl⟩ := h
  exact ⟨pReg_lt hrd, pReg_lt hrs⟩

theorem pJal_form {i : Inp} {pi : PInstr} {rest : Inp} (h : pJal i = .ok pi rest) : GrammarForm pi := by
  simp only [pJal, bind_eq_ok] at h
  obtain ⟨_, r0, _, rd, r1, hrd, _, r2, _, h⟩ := h
  obtain ⟨p, hp, he⟩ := orLongest_ok h
  simp only [List.mem_cons, List.not_mem_nil, or_false] at hp
  rcases hp with rfl | rfl
  · simp only [map_eq_ok] at he
    obtain ⟨imm, _, rfl⟩ := he
    exact pReg_lt hrd
  · simp only [bind_eq_ok, map_eq_ok] at he
    obtain ⟨l, r3, _, off, _, rfl⟩ := he
    exact pReg_lt hrd

/-- the item is a bare word, or a tree of the grammar -/
def ItemForm (it : Item) : Prop := ∀ pi, it = .grp pi → GrammarForm pi

theorem itemForm_map_grp {p : Inp → R PInstr} {i : Inp} {it : Item} {rest : Inp}
    (hp : ∀ {pi rest}, p i = .ok pi rest → GrammarForm pi) (h : (p i).map Item.grp = .ok it rest) :
    ItemForm it := by
  obtain ⟨pi, hpi, rfl⟩ := map_eq_ok.mp h
  intro pi' e
  cases e
  exact hp hpi

theorem pInstrBody_form {i : Inp} {it : Item} {rest : Inp} (h : pInstrBody i = .ok it rest) : ItemForm it := by
  unfold pInstrBody at h
  obtain ⟨p, hp, he⟩ := orLongest_ok h
  simp only [List.mem_cons, List.not_mem_nil, or_false] at hp
  rcases hp with rfl | rfl | rfl | rfl | rfl | rfl | rfl | rfl | rfl | rfl | rfl | rfl | rfl | rfl | rfl
  · exact itemForm_map_grp pRType_form he
  · exact itemForm_map_grp pUType_form he
  · exact itemForm_map_grp pBType_form he
  · exact itemForm_map_grp pMemory_form he
  · exact itemForm_map_grp pMemPseudo_form he
  · exact itemForm_map_grp pSPseudo_form he
  · exact itemForm_map_grp pCsr_form he
  · exact itemForm_map_grp pCsri_form he
  · exact itemForm_map_grp pRegRegImm_form he
  · exact itemForm_map_grp pFence_form he
  · exact itemForm_map_grp pJal_form he
  · obtain ⟨q, hq, he'⟩ := first_ok he
    simp only [List.mem_cons, List.not_mem_nil, or_false] at hq
    rcases hq with rfl | rfl
    · obtain ⟨_, _, rfl⟩ := map_eq_ok.mp he'
      intro pi e; cases e
    · obtain ⟨_, _, rfl⟩ := map_eq_ok.mp he'
      intro pi e; cases e
  · obtain ⟨_, _, rfl⟩ := map_eq_ok.mp he
    intro pi e; cases e
  · exact itemForm_map_grp pLi_form he
  · exact itemForm_map_grp pMv_form he

theorem pInstruction_form {i : Inp} {t : Tok} {rest : Inp} (h : pInstruction i = .ok t rest) :
    ItemForm t.item := by
  simp only [pInstruction, bind_eq_ok, map_eq_ok] at h
  obtain ⟨lbl, r, _, it, hit, rfl⟩ := h
  exact pInstrBody_form hit

/-- Soundness of the line grammar: a grouped item returned by `parseLine` is a tree of the grammar. -/
theorem parseLine_form {l : List Char} {t : Tok} (h : parseLine l = some t) : ItemForm t.item := by
  unfold parseLine at h
  split at h
  · next t' rest ho =>
    split at h
    · simp only [Option.some.injEq] at h
      subst h
      obtain ⟨p, hp, he⟩ := orLongest_ok ho
      simp only [List.mem_cons, List.not_mem_nil, or_false] at hp
      rcases hp with rfl | rfl | rfl | rfl | rfl | rfl
      · simp only [pDirective, bind_eq_ok, map_eq_ok] at he
        obtain ⟨_, _, _, _, _, rfl⟩ := he
        intro pi e; cases e
      · simp only [pVarDecl, bind_eq_ok] at he
        obtain ⟨_, _, _, _, _, _, _, _, _, _, _, _, _, _, _, he⟩ := he
        simp only [R.ok.injEq] at he
        rw [← he.1]
        intro pi e; cases e
      · simp only [pStrDecl, bind_eq_ok, map_eq_ok] at he
        obtain ⟨_, _, _, _, _, _, _, _, _, _, _, _, _, _, rfl⟩ := he
        intro pi e; cases e
      · simp only [pZeroDecl, bind_eq_ok] at he
        obtain ⟨_, _, _, _, _, _, _, _, _, _, _, _, _, _, _, he⟩ := he
        split at he
        · simp only [R.ok.injEq] at he
          rw [← he.1]
          intro pi e; cases e
        · cases he
      · exact pInstruction_form he
      · obtain ⟨_, _, rfl⟩ := map_eq_ok.mp he
        intro pi e; cases e
    · cases h
  · cases h

end ArchSim.Lemmas.C14
