/-
C09 (program level), part 5: single-cycle steps and runs on a cached data memory. One step of the
sequential reference machine of the pipeline proof (`Pipe.seqStep`, the five split stage functions
back to back) IS the single-cycle step on every state satisfying `RunInv`; hence fault-free runs
coincide, and the final data memory system of the five-stage pipeline (`C02.final_state`) is the one
single-cycle mode leaves.
-/
import ArchSim.Lemmas.C09ProgTail
import ArchSim.Lemmas.C11ProgPipe
import ArchSim.Lemmas.C02SplitMain

namespace ArchSim.Lemmas.C09Prog
open ArchSim ArchSim.Cache ArchSim.Rv ArchSim.Repl ArchSim.Pipe
open ArchSim.Spec.TagCache (Accepted)
open ArchSim.Spec.CacheAbs (widthOK)
open ArchSim.Lemmas.C02Split ArchSim.Lemmas.C11 ArchSim.Lemmas.C11Prog

/-- Every instruction of the program is a well-formed supported instruction object. -/
def ProgWF (im : IMem) : Prop := ∀ i, i ∈ im.prog → i.WF

theorem instrAt_mem {im : IMem} {pc : Int} {i : Instr} (h : im.instrAt pc = some i) : i ∈ im.prog := by
  unfold IMem.instrAt at h
  split at h
  · exact List.mem_of_getElem? h
  · cases h

theorem ProgOK_of_WF {im : IMem} (h : ProgWF im) : ProgOK im := by
  intro pc i hi
  obtain ⟨_, _, _, _, himm, hec⟩ := h i (instrAt_mem hi)
  refine ⟨fun he => (hec he).1, fun hs => ?_⟩
  unfold immRange at himm
  rw [hs] at himm
  exact himm.1

/-- Hypotheses on a single-cycle state: no instruction cache, a program that fits the instruction
    memory and consists of well-formed instructions, and `RunInv`. -/
structure StepHyp (s : St) : Prop where
  nocache : s.imem.cache = none
  fits : s.imem.prog.length ≤ 4096
  wf : ProgWF s.imem
  inv : RunInv s

theorem memOK_of_runinv (i : Instr) (s : St) (h : RunInv s) : MemOK i s := by
  obtain ⟨l, ds, hm, hok⟩ := h.mem
  rw [MemOK, hm]
  exact ⟨writeAlias_cached' hok, fun _ => loadOK_cached hok (widthOK_accessBits i.op) _⟩

/-- The split data path and `behavior` agree on every state satisfying the hypotheses. -/
theorem step_agree (s : St) (h : StepHyp s) :
    (splitStep s).fault = (singleStep s).fault ∧
    ((singleStep s).fault = none → (splitStep s).st = (singleStep s).st) := by
  cases hi : s.imem.instrAt s.pc with
  | none => rw [splitStep_noinstr s hi, singleStep_nofetch s hi]; exact ⟨rfl, fun _ => rfl⟩
  | some i =>
    obtain ⟨h0, _, hlt⟩ := instrAt_some_bounds hi
    have h1 : s.pc < 16384 := by have := h.fits; omega
    have := agree_step_anymem s i (h.wf i (instrAt_mem hi)) h.nocache hi h0 h1 h.inv.regs
      (memOK_of_runinv i s h.inv)
    exact ⟨this.1, this.2.1⟩

/-- A single-cycle step that does not fault keeps the hypotheses. -/
theorem singleStep_hyp (s : St) (h : StepHyp s) (hf : (singleStep s).fault = none) :
    StepHyp (singleStep s).st := by
  have him := singleStep_imem_nocache s h.nocache
  refine ⟨by rw [him]; exact h.nocache, by rw [him]; exact h.fits, by rw [him]; exact h.wf, ?_⟩
  cases hi : s.imem.instrAt s.pc with
  | none => rw [singleStep_nofetch s hi]; exact h.inv.of_eq rfl rfl
  | some i =>
    have hs := (ICoh_nocache _ h.nocache h.fits).fetchSound
    rw [singleStep_fetched s i hi hs] at hf ⊢
    exact singleTail_runinv i _ (h.inv.of_eq rfl rfl) hf

/-- The first `n` single-cycle steps raise no fault. -/
def SingleOK (n : Nat) (s : St) : Prop := ∀ j, j < n → (singleStep (singleRun j s)).fault = none

/-- As long as the sequential reference machine does not fault, it IS the single-cycle machine. -/
theorem seq_is_single (s : St) (h : StepHyp s) : ∀ n, (∀ j, j < n → seqFault (seqRun j s) = none) →
    seqRun n s = singleRun n s ∧ StepHyp (singleRun n s) ∧ SingleOK n s
  | 0, _ => ⟨rfl, h, fun j hj => absurd hj (Nat.not_lt_zero j)⟩
  | n + 1, hn => by
    obtain ⟨e, hh, hok⟩ := seq_is_single s h n (fun j hj => hn j (Nat.lt_succ_of_lt hj))
    have hsf : seqFault (seqRun n s) = none := hn n (Nat.lt_succ_self n)
    obtain ⟨a1, a2⟩ := step_agree (singleRun n s) hh
    rw [e] at hsf
    have hsing : (singleStep (singleRun n s)).fault = none := by rw [← a1]; exact hsf
    refine ⟨?_, ?_, ?_⟩
    · rw [seqRun, e, singleRun_succ']
      unfold seqStep
      unfold seqFault at hsf
      rw [hsf]
      exact a2 hsing
    · rw [singleRun_succ']; exact singleStep_hyp _ hh hsing
    · intro j hj
      rcases Nat.lt_succ_iff_lt_or_eq.1 hj with hlt | rfl
      · exact hok j hlt
      · exact hsing

/-- A faulting sequential machine stays where it is. -/
theorem seqRun_stuck (s : St) (j : Nat) (hf : (seqFault (seqRun j s)).isSome = true) :
    ∀ m, seqRun (j + m) s = seqRun j s
  | 0 => rfl
  | m + 1 => by
    rw [← Nat.add_assoc, seqRun, seqRun_stuck s j hf m]
    exact seqStep_stuck _ hf

/-- If the sequential machine is done after `k` steps and was not before, none of these steps
    faults. -/
theorem seq_nofault_of_done (s : St) (k : Nat) (hd : singleDone (seqRun k s) = true)
    (hnd : ∀ j, j < k → singleDone (seqRun j s) = false) : ∀ j, j < k → seqFault (seqRun j s) = none := by
  intro j hj
  cases hf : seqFault (seqRun j s) with
  | none => rfl
  | some ft =>
    exfalso
    have hst := seqRun_stuck s j (by rw [hf]; rfl) (k - j)
    rw [show j + (k - j) = k by omega] at hst
    rw [hst, hnd j hj] at hd
    cases hd

theorem simP_of_eqC {s t : St} (h : EqC s t) (hp : s.imem.prog = t.imem.prog) : SimP s t :=
  ⟨⟨h.regs, h.mem, h.output, h.exitCode, h.instrs, h.branches, h.procs, hp⟩, h.pc⟩

/-- Fault-freeness of a single-cycle run does not depend on the instruction memory system. -/
theorem SingleOK_eqC {s t : St} (h : EqC s t) (hp : s.imem.prog = t.imem.prog) (hs : ICoh s.imem)
    (ht : ICoh t.imem) {n : Nat} (hok : SingleOK n s) : SingleOK n t := by
  intro j hj
  obtain ⟨he, hpr⟩ := singleRun_eqC j h hp hs ht
  rw [← (singleStep_eqC he hpr (ICoh_singleRun j s hs).fetchSound (ICoh_singleRun j t ht).fetchSound).1]
  exact hok j hj

/-- GENERAL FORM. `s`: a state without instruction cache satisfying `StepHyp`; `tp`, `ts`: the initial
    states of the five-stage and of the single-cycle run, each equal to `s` up to the instruction
    memory system (any coherent one) and the cycle counter. A fault-free five-stage run to
    completion ends, up to `SimP`, in the state single-cycle mode reaches after `k` fault-free
    steps, `k` being the step at which the single-cycle loop stops. -/
theorem modes_agree {s tp ts : St} (h : StepHyp s) (hx : s.exitCode = none)
    (hep : EqC s tp) (hpp : s.imem.prog = tp.imem.prog) (hcp : ICoh tp.imem)
    (hes : EqC s ts) (hps : s.imem.prog = ts.imem.prog) (hcs : ICoh ts.imem)
    (n : Nat) (hr : runOK n (PSt.init tp true)) (hd : isDone (pipeRun n (PSt.init tp true)) = true)
    (hprev : ∀ m, m < n → isDone (pipeRun m (PSt.init tp true)) = false) :
    ∃ k, k ≤ n ∧ SimP (pipeRun n (PSt.init tp true)).st (singleRun k ts) ∧ SingleOK k ts ∧
      singleDone (singleRun k ts) = true ∧ (∀ j, j < k → singleDone (singleRun j ts) = false) ∧
      retireLog n (PSt.init tp true) = seqTrace k s := by
  have hc := ICoh_nocache _ h.nocache h.fits
  have hok := ProgOK_of_WF h.wf
  have hxp : tp.exitCode = none := by rw [← hep.exitCode]; exact hx
  obtain ⟨k, hk, hsim, hdone, hnd, hlog, _⟩ :=
    final_state_init tp (ProgOK_congr hpp hok) hcp hxp n hr hd hprev
  have hsp := simP_of_eqC hep hpp
  have hrun := seqRun_simP hsp hc hcp
  have hdone' : singleDone (seqRun k s) = true := by rw [singleDone_congr (hrun k)]; exact hdone
  have hnd' : ∀ j, j < k → singleDone (seqRun j s) = false := by
    intro j hj; rw [singleDone_congr (hrun j)]; exact hnd j hj
  obtain ⟨e, _, hsok⟩ := seq_is_single s h k (seq_nofault_of_done s k hdone' hnd')
  have hsr := fun j => singleRun_eqC j hes hps hc hcs
  have hseq : ∀ j, j ≤ k → seqRun j s = singleRun j s := by
    intro j hj
    exact (seq_is_single s h j (fun i hi => seq_nofault_of_done s k hdone' hnd' i (by omega))).1
  refine ⟨k, hk, ?_, SingleOK_eqC hes hps hc hcs hsok, ?_, ?_, ?_⟩
  · refine hsim.trans ((hrun k).symm.trans ?_)
    rw [e]
    exact simP_of_eqC (hsr k).1 (hsr k).2
  · rw [← singleDone_eqC (hsr k).1 (hsr k).2, ← e]; exact hdone'
  · intro j hj
    rw [← singleDone_eqC (hsr j).1 (hsr j).2, ← hseq j (by omega)]; exact hnd' j hj
  · rw [hlog, seqTrace_congr hsp hc hcp k]

end ArchSim.Lemmas.C09Prog
