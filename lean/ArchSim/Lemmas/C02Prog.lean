/-
C02 (control half), part 17: progress. A rank bounded by 4 decreases in every cycle that does not
retire an instruction.
-/
import ArchSim.Lemmas.C02Run

namespace ArchSim.Pipe
open ArchSim ArchSim.Rv

/-- Number of cycles until the next retirement (valid on `PInv` states that are not done). -/
def rank (p : PSt) : Nat :=
  if p.l3.isSome then 0
  else if (memInput p).isSome then 1
  else
    match p.stalled with
    | some st => if st.k = 2 then 2 else if st.rem = 2 then 4 else 3
    | none => if p.l1.isSome then 2 else if p.l0.isSome then 3 else 4

theorem rank_le (p : PSt) : rank p ≤ 4 := by
  unfold rank
  split
  · omega
  · split
    · omega
    · split <;> split <;> (try split) <;> omega

/-- The retired-instruction counter after a cycle: only WB changes it. -/
theorem wbStage_instrs (s : St) (l : Option Latch) :
    (wbStage s l).1.instrs = s.instrs + (if l.isSome then 1 else 0) := by
  cases l with
  | none => rfl
  | some m => unfold wbStage; simp only []; split <;> rfl

@[simp] theorem memStage_instrs (s : St) (l : Option Latch) : (memStage s l).st.instrs = s.instrs := by
  cases l with
  | none => rfl
  | some m => unfold memStage; simp only []; repeat' split <;> try rfl

@[simp] theorem ecallRun_instrs (s : St) (d : Latch) : (ecallRun s d).st.instrs = s.instrs := by
  unfold ecallRun; split <;> rfl

@[simp] theorem exStage_instrs (s : St) (inp l2 l3 : Option Latch) :
    (exStage s inp l2 l3).st.instrs = s.instrs := by
  rcases exStage_st s inp l2 l3 with h | ⟨d, _, _, _, h⟩ <;> simp [h]

theorem finishStep_instrs (p : PSt) (s : St) (n0 n1 n2 n3 n4 : Option Latch) :
    (finishStep p s n0 n1 n2 n3 n4).st.instrs = s.instrs := by
  have hb : ∀ k, (stallBump k s).instrs = s.instrs := by intro k; unfold stallBump; split <;> rfl
  cases h4 : latchFlush n4 with
  | some a => rw [finishStep_flush4 _ _ _ _ _ _ _ a h4]; exact hb _
  | none =>
    cases h3 : latchFlush n3 with
    | some a => rw [finishStep_flush3 _ _ _ _ _ _ _ a h4 h3]; exact hb _
    | none =>
      cases h2 : latchFlush n2 with
      | some a => rw [finishStep_flush2 _ _ _ _ _ _ _ a h4 h3 h2]; exact hb _
      | none => rw [finishStep_noflush _ _ _ _ _ _ _ h4 h3 h2]; exact hb _

/-- A non-faulting cycle retires exactly the instruction in the MEM/WB latch. -/
theorem step_instrs (p : PSt) (hI : PInv p) (hf : (step p).fault = none) :
    (step p).p.st.instrs = p.st.instrs + (if p.l3.isSome then 1 else 0) := by
  obtain ⟨hex, hme⟩ := (step_fault_none_iff p).1 hf
  rw [step_nofault p hex hme]
  dsimp only
  rw [finishStep_instrs]
  unfold memOut exOut wbOut
  rw [memStage_instrs, exStage_instrs, wbStage_instrs, ← (ifOut_sim p hI).instrs]

end ArchSim.Pipe

namespace ArchSim.Pipe
open ArchSim ArchSim.Rv

theorem wbOut_flush_of_l3_none (p : PSt) (h3 : p.l3 = none) : latchFlush (wbOut p).2 = none := by
  unfold wbOut; rw [h3]; rfl

/-- The MEM/WB latch after a cycle in which WB raises no flush. -/
theorem step_l3 (p : PSt) (hex : (exOut p).fault = none) (hme : (memOut p).fault = none)
    (h4 : latchFlush (wbOut p).2 = none) : (step p).p.l3 = (memOut p).latch := by
  rw [step_nofault p hex hme]
  dsimp only
  cases h3 : latchFlush (memOut p).latch with
  | some a => rw [finishStep_flush3 _ _ _ _ _ _ _ a h4 h3]
  | none =>
    cases h2 : latchFlush (exOut p).latch with
    | some a => rw [finishStep_flush2 _ _ _ _ _ _ _ a h4 h3 h2]
    | none => rw [finishStep_noflush _ _ _ _ _ _ _ h4 h3 h2]

theorem rank_of_l3 (p : PSt) (h : p.l3.isSome = true) : rank p = 0 := by
  unfold rank; rw [h]; rfl

/-- Rank 1: the instruction in MEM reaches the MEM/WB latch. -/
theorem rank_step_mem (p : PSt) (hf : (step p).fault = none) (h3 : p.l3 = none)
    (hm : (memInput p).isSome = true) : rank (step p).p = 0 := by
  obtain ⟨hex, hme⟩ := (step_fault_none_iff p).1 hf
  apply rank_of_l3
  rw [step_l3 p hex hme (wbOut_flush_of_l3_none p h3)]
  unfold memOut at hme ⊢
  rw [memStage_latch_isSome _ _ hme, hm]

end ArchSim.Pipe

namespace ArchSim.Pipe
open ArchSim ArchSim.Rv

theorem rank_le_one (p : PSt) (h : (memInput p).isSome = true) : rank p ≤ 1 := by
  unfold rank; rw [h]; split <;> simp

/-- With nothing in MEM / WB, an ECALL in EX does not have to wait. -/
theorem no_wait_of_drained (p : PSt) (hI : PInv p) (h3 : p.l3 = none) (hm : memInput p = none)
    (d : Latch) (hd : exInput p = some d) : ecallMustWait d p.l2 p.l3 = false := by
  have hsh := hI.shape
  unfold Shape at hsh
  rcases Option.eq_none_or_eq_some p.stalled with hs | ⟨st, hs⟩
  · have hd1 : p.l1 = some d := by simpa [exInput, hs] using hd
    have h2 : p.l2 = none := by simpa [memInput, hs] using hm
    simp [ecallMustWait, hI.f1 d hd1, h2, h3]
  · rw [hs] at hsh
    rcases hsh with ⟨hk, _⟩ | ⟨hk, _, ⟨e, hp1, hfl, _⟩, _⟩
    · simp [exInput, hs, hk] at hd
    · have hde : d = e := by simpa [exInput, hs, hk, hp1] using hd.symm
      subst hde
      simp [ecallMustWait, hfl, h3]

/-- Rank 2: the instruction in EX reaches the EX/MEM latch (an ECALL runs: nothing older is left). -/
theorem rank_step_ex (p : PSt) (hI : PInv p) (hf : (step p).fault = none) (h3 : p.l3 = none)
    (hm : memInput p = none) (hx : (exInput p).isSome = true) : rank (step p).p ≤ 1 := by
  obtain ⟨hex, hme⟩ := (step_fault_none_iff p).1 hf
  have h4 := wbOut_flush_of_l3_none p h3
  have hn3 : (memOut p).latch = none := (memOut_latch_eq_none p hme).2 hm
  have hn2 : (exOut p).latch.isSome = true := by
    unfold exOut at hex ⊢; rw [exStage_latch_isSome _ _ _ _ hex, hx]
  obtain ⟨d, hd⟩ := Option.isSome_iff_exists.1 hx
  have hns := exOut_nostall_of p hex d hd (no_wait_of_drained p hI h3 hm d hd)
  apply rank_le_one
  rw [step_nofault p hex hme]
  dsimp only
  have h3' : latchFlush (memOut p).latch = none := by rw [hn3]; rfl
  cases h2 : latchFlush (exOut p).latch with
  | some a =>
    rw [finishStep_flush2 _ _ _ _ _ _ _ a h4 h3' h2, (flush2_mode p hI hex a h2).2.2]
    simpa [memInput] using hn2
  | none =>
    rw [finishStep_noflush _ _ _ _ _ _ _ h4 h3' h2]
    rcases Option.eq_none_or_eq_some p.stalled with hs | ⟨st, hs⟩
    · rw [hs, pickStall_none, hns]
      cases latchStall (idOut p)
      · simpa [memInput] using hn2
      · simpa [memInput, nextStall_none_some] using hn2
    · have hsh := hI.shape
      unfold Shape at hsh; rw [hs] at hsh
      rcases hsh with ⟨hk, _⟩ | ⟨hk, hrem, _⟩
      · simp [exInput, hs, hk] at hd
      · have hr : st.rem = 1 := by
          rcases hrem with ⟨_, h⟩ | ⟨h, _⟩
          · rw [h3] at h; cases h
          · exact h
        rw [hs, pickStall_k2 st hk, nextStall_some_none]
        simpa [memInput, hr] using hn2

end ArchSim.Pipe

namespace ArchSim.Pipe
open ArchSim ArchSim.Rv

/-- Ranks 3 and 4: nothing in EX, MEM, WB; the ID stall counts down / ID decodes / IF fetches. -/
theorem rank_step_idle (p : PSt) (hI : PInv p) (hf : (step p).fault = none) (hd : isDone p = false)
    (h3 : p.l3 = none) (hm : memInput p = none) (hx : exInput p = none) :
    rank (step p).p + 1 ≤ rank p := by
  obtain ⟨hex, hme⟩ := (step_fault_none_iff p).1 hf
  have h4 := wbOut_flush_of_l3_none p h3
  have hn3 : (memOut p).latch = none := (memOut_latch_eq_none p hme).2 hm
  have hn2 : (exOut p).latch = none := exOut_latch_of_none p hx
  have hrp : rank p = match p.stalled with
      | some st => if st.k = 2 then 2 else if st.rem = 2 then 4 else 3
      | none => if p.l1.isSome then 2 else if p.l0.isSome then 3 else 4 := by
    unfold rank; rw [h3, hm]; rfl
  rw [step_nofault p hex hme]
  dsimp only
  rw [finishStep_noflush _ _ _ _ _ _ _ h4 (by rw [hn3]; rfl) (by rw [hn2]; rfl), hn3, hn2, hrp]
  have hsh := hI.shape
  unfold Shape at hsh
  rcases Option.eq_none_or_eq_some p.stalled with hs | ⟨st, hs⟩
  · -- unstalled: `l1`, `l2` are empty
    have h1 : p.l1 = none := by simpa [exInput, hs] using hx
    have hn1s : latchStall (idOut p) = false := by
      have h2 : p.l2 = none := by simpa [memInput, hs] using hm
      unfold idOut
      cases hi : idInput p with
      | none => rfl
      | some f => rw [idStage_some, h1, h2]; simp [idStall, hazardWith]
    rw [hs, pickStall_none, hn1s]
    simp only [latchStall_none, Bool.false_eq_true, if_false, nextStall_none_none, h1, Option.isSome_none]
    cases h0 : p.l0 with
    | some f =>
      have : (idOut p).isSome = true := by unfold idOut; rw [idStage_isSome]; simp [idInput, hs, h0]
      simp [rank, memInput, this]
    | none =>
      -- not done: an instruction exists at pc and is fetched
      have hni : ¬ noInstr p.st := by
        intro hn
        have h2 : p.l2 = none := by simpa [memInput, hs] using hm
        unfold noInstr at hn
        simp [isDone, h0, h1, h2, h3, hn] at hd
      have hn0 : (ifOut p).2.isSome = true := by
        cases hq : (ifOut p).2 with
        | none => exact absurd ((n0_unstalled p hI hs).1 hq) hni
        | some _ => rfl
      have hn1 : idOut p = none := by rw [idOut_eq_none]; simp [idInput, hs, h0]
      simp [rank, memInput, hn1, hn0]
  · rw [hs] at hsh
    rcases hsh with ⟨hk, hrem, _, hp0, _⟩ | ⟨hk, _, ⟨e, hp1, _⟩, _⟩
    · have hn1 : (idOut p).isSome = true := by
        unfold idOut; rw [idStage_isSome]; simpa [idInput, hs] using hp0
      rw [hs, pickStall_k1 st hk]
      simp only [latchStall_none, Bool.false_eq_true, if_false, nextStall_some_none]
      rcases hrem with hr | ⟨hr, _⟩
      · simp [rank, memInput, hr, hk]
      · simp [rank, memInput, hr, hk, hn1]
    · simp [exInput, hs, hk, hp1] at hx

end ArchSim.Pipe

namespace ArchSim.Pipe
open ArchSim ArchSim.Rv

theorem rank_ge_two (p : PSt) (h3 : p.l3 = none) (hm : memInput p = none) : 2 ≤ rank p := by
  unfold rank; rw [h3, hm]
  simp only [Option.isSome_none, Bool.false_eq_true, if_false]
  split <;> split <;> (try split) <;> omega

/-- In every non-faulting cycle from a state that is not done and does not retire, the rank drops. -/
theorem rank_step (p : PSt) (hI : PInv p) (hf : (step p).fault = none) (hd : isDone p = false)
    (hr : rank p ≠ 0) : rank (step p).p + 1 ≤ rank p := by
  have h3 : p.l3 = none := by
    cases h : p.l3 with
    | none => rfl
    | some x => exact absurd (rank_of_l3 p (by rw [h]; rfl)) hr
  cases hm : memInput p with
  | some e =>
    have := rank_step_mem p hf h3 (by rw [hm]; rfl)
    omega
  | none =>
    have h2 := rank_ge_two p h3 hm
    cases hx : exInput p with
    | some d =>
      have := rank_step_ex p hI hf h3 hm (by rw [hx]; rfl)
      omega
    | none => exact rank_step_idle p hI hf hd h3 hm hx

theorem pipeRun_step (p : PSt) : ∀ n, pipeRun n (step p).p = pipeRun (n + 1) p
  | 0 => rfl
  | n + 1 => by rw [pipeRun, pipeRun_step p n]; rfl

theorem runOK_step {n : Nat} {p : PSt} (h : runOK (n + 1) p) :
    (step p).fault = none ∧ runOK n (step p).p := by
  refine ⟨h 0 (Nat.succ_pos n), fun m hm => ?_⟩
  rw [pipeRun_step]; exact h (m + 1) (Nat.succ_lt_succ hm)

/-- Progress, generic form: from a state of rank `≤ r`, within `r + 1` non-faulting cycles the
    pipeline is done or has retired an instruction. -/
theorem progress_aux : ∀ (r : Nat) (p : PSt), PInv p → rank p ≤ r → runOK (r + 1) p →
    ∃ j, j ≤ r + 1 ∧ (isDone (pipeRun j p) = true ∨ p.st.instrs < (pipeRun j p).st.instrs)
  | r, p, hI, hr, hok => by
    cases hd : isDone p with
    | true => exact ⟨0, Nat.zero_le _, Or.inl hd⟩
    | false =>
      obtain ⟨hf, hok'⟩ := runOK_step hok
      by_cases h0 : rank p = 0
      · refine ⟨1, by omega, Or.inr ?_⟩
        have h3 : p.l3.isSome = true := by
          cases h : p.l3 with
          | some _ => rfl
          | none =>
            exfalso
            cases hm : (memInput p).isSome with
            | true => have := rank_le_one p hm; unfold rank at h0; rw [h, hm] at h0; simp at h0
            | false =>
              have := rank_ge_two p h (by cases hq : memInput p with
                | none => rfl
                | some _ => rw [hq] at hm; cases hm)
              omega
        show p.st.instrs < (step p).p.st.instrs
        rw [step_instrs p hI hf, h3]; simp
      · have hdec := rank_step p hI hf hd h0
        cases r with
        | zero => omega
        | succ r' =>
          obtain ⟨j, hj, hres⟩ := progress_aux r' (step p).p (PInv_step p hI hf) (by omega) hok'
          refine ⟨j + 1, by omega, ?_⟩
          rw [← pipeRun_step]
          rcases hres with h | h
          · exact Or.inl h
          · right
            have := step_instrs p hI hf
            have hle : p.st.instrs ≤ (step p).p.st.instrs := by rw [this]; omega
            omega

/-- PROGRESS with the constant K = 5: from every state satisfying the invariant, within 5
    non-faulting cycles the pipeline is done or has retired at least one more instruction. -/
theorem progress5 (p : PSt) (hI : PInv p) (hok : runOK 5 p) :
    ∃ j, j ≤ 5 ∧ (isDone (pipeRun j p) = true ∨ p.st.instrs < (pipeRun j p).st.instrs) :=
  progress_aux 4 p hI (rank_le p) hok

end ArchSim.Pipe
